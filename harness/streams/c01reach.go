package streams

import (
	"sort"
	"github.com/paulsonkoly/chess-3/board"
	"github.com/paulsonkoly/chess-3/move"

	"verifharness/hx"
	"verifharness/posgen"
)

// c01reach: root board (fresh history) ++ [n m_1..m_n] -> the playable moves of the position REACHED
// by playing the moves with MakeMove. The judge recomputes the reached position with the rules alone
// (iterated succ_spec from the root) and compares with its legal moves: the "or reached by playing
// moves" clause of C01 end to end (a successor recorded wrongly by MakeMove, e.g. a missing
// en-passant target, shows here even if generation on the recorded position is flawless).
func init() {
	hx.Register(&hx.Stream{Name: "c01reach", Gen: genC01reach, Run: runC01reach})
}

func runC01reach(a hx.Args) string {
	b, i := a.Board(0)
	n := a.Int(i)
	for k := 0; k < n; k++ {
		b.MakeMove(hx.U2M(a.U64(i + 1 + k)))
	}
	var l []uint64
	for _, m := range posgen.Legal(b) {
		l = append(l, hx.M2U(m))
	}
	sort.Slice(l, func(i, j int) bool { return l[i] < l[j] }) // the property is about the set of moves
	return (&hx.Nums{}).Int(len(l)).U(l...).String()
}

func genC01reach(rng *hx.Rng, n int, tier string, emit func(hx.Input)) {
	roots := posgen.Roots()
	cnt := 0
	one := func(b *board.Board, fen string, m move.Move, tag string) {
		if cnt >= n {
			return
		}
		rb, err := board.FromFEN(fen)
		if err != nil {
			return
		}
		in := (&hx.Nums{}).BoardIn(rb).Int(1).U(hx.M2U(m))
		emit(hx.Input{In: in.String(), Desc: "fen " + fen + " moves " + m.String(), Tags: []string{"reach", tag},
			NonTrivial: true, Key: fen + m.String()})
		cnt++
	}
	// the en-passant corner cases of stream c02 (a double push next to enemy pawns with pins, discovered
	// checks, edge files): the position AFTER the push is what the generator has to get right
	for _, w := range c02Fixed {
		if b, err := board.FromFEN(w.fen); err == nil {
			if m, ok := findMove(b, w.mv); ok {
				one(b, w.fen, m, "ep-fixed")
			}
		}
	}
	for k := 0; k < n/3; {
		if b, m, fen, ok := epPosition(rng); ok {
			one(b, fen, m, "ep-constructed")
			k++
		}
	}
	for cnt < n {
		root := roots[rng.Intn(len(roots))]
		plies := 1 + rng.Intn(24)
		stride := 1 + rng.Intn(3)
		k := 0
		posgen.Playout(rng, root, plies, func(p posgen.Pos) {
			k++
			if cnt >= n || len(p.Moves) == 0 || (k%stride != 0 && p.B.EnPassant == 0) {
				return
			}
			rb, err := board.FromFEN(p.Root)
			if err != nil {
				return
			}
			in := (&hx.Nums{}).BoardIn(rb).Int(len(p.Moves))
			for _, m := range p.Moves {
				in.U(hx.M2U(m))
			}
			emit(hx.Input{In: in.String(), Desc: p.Desc(), Tags: append(posgen.Tags(p.B), "reach"),
				NonTrivial: true, Key: p.B.FEN()})
			cnt++
		})
	}
}
