(* Executable model of /repo/attacks (attacks.go, tables.go): the engine's own way of computing attack
   sets.  Definitions only; the proofs that these equal the geometric definitions of Spec/Geometry.v
   are in Proofs/Attacks*.v, the statements in Properties/C12.v.

   - constant tables (masks, magics, shifts, king/knight tables, table sizes): Gen/AttackTables.v,
     regenerated from the working tree on every run;
   - calc_rook_attacks / calc_bishop_attacks: the init-time reference walkers, loop by loop;
   - fill_loop: initRookMagic / initBishopMagic, the carry-rippler enumeration
       occ := mask; for { table[(occ*magic)>>(64-shift)] = calc(sq, occ); occ = (occ-mask)&mask; if occ == mask {break} }
     on an explicit table (later writes win, unwritten cells stay 0 as in a Go array);
   - the lookups of attacks.go: table[((occ&mask)*magic)>>(64-shift)] with 64-bit truncation of the
     product and the byte arithmetic of 64-shift;
   - initInBetween as the four nested loops.
   The pawn shift formulas are in Model/Att.v (they are plain word operations). *)
From Coq Require Import NArith ZArith List Bool FMapPositive.
From Chess3 Require Import Base.Bits Model.Types Gen.AttackTables.
Import ListNotations.
Open Scope N_scope.

(* ------------------------------------------------------------------------------------------ *)
(* one row of bishopAttacks / rookAttacks (and the flattened InBetween): a zero-initialised Go
   array, kept as a binary trie keyed by index + 1 *)
Definition table := PositiveMap.t N.
Definition tbl_empty : table := PositiveMap.empty N.
Definition tbl_set (t : table) (i v : N) : table := PositiveMap.add (N.succ_pos i) v t.
Definition tbl_get (t : table) (i : N) : N :=
  match PositiveMap.find (N.succ_pos i) t with Some v => v | None => 0 end.

(* ------------------------------------------------------------------------------------------ *)
(* reference walkers *)

(* 1 << (ff + rr*8) as a BitBoard *)
Definition sqbit (ff rr : Z) : N := shl 1 (Z.to_N (ff + rr * 8)).

(* one for-loop of calcRookAttacks / calcBishopAttacks:
     for rr, ff := r0, f0; cond(rr, ff); rr, ff = rr+dr, ff+df {
       result |= 1 << (ff + rr*8); if occ & (1 << (ff + rr*8)) != 0 { break } }
   (the bishop loops advance at the end of the body, which is the same thing).  Go's loop has no
   fuel; 8 rounds are enough for every loop of the two functions (Proofs/AttacksCalc.v, scan_more /
   calc_fuel_enough). *)
Fixpoint scan (fuel : nat) (cond : Z -> Z -> bool) (dr df rr ff : Z) (occ result : N) : N :=
  match fuel with
  | O => result
  | S k =>
      if cond rr ff then
        let result' := bor result (sqbit ff rr) in
        if negb (band occ (sqbit ff rr) =? 0) then result'
        else scan k cond dr df (rr + dr)%Z (ff + df)%Z occ result'
      else result
  end.

Definition calc_rook_attacks_fuel (fuel : nat) (sq occ : N) : N :=
  let r := Z.of_N (sq / 8) in
  let f := Z.of_N (sq mod 8) in
  let result := 0 in
  let result := scan fuel (fun rr _ => (rr <=? 7)%Z) 1 0 (r + 1)%Z f occ result in
  let result := scan fuel (fun rr _ => (0 <=? rr)%Z) (-1) 0 (r - 1)%Z f occ result in
  let result := scan fuel (fun _ ff => (ff <=? 7)%Z) 0 1 r (f + 1)%Z occ result in
  scan fuel (fun _ ff => (0 <=? ff)%Z) 0 (-1) r (f - 1)%Z occ result.
Definition calc_rook_attacks : N -> N -> N := calc_rook_attacks_fuel 8.

Definition calc_bishop_attacks_fuel (fuel : nat) (sq occ : N) : N :=
  let r := Z.of_N (sq / 8) in
  let f := Z.of_N (sq mod 8) in
  let result := 0 in
  let result := scan fuel (fun rr ff => (rr <=? 7)%Z && (ff <=? 7)%Z) 1 1 (r + 1)%Z (f + 1)%Z occ result in
  let result := scan fuel (fun rr ff => (rr <=? 7)%Z && (0 <=? ff)%Z) 1 (-1) (r + 1)%Z (f - 1)%Z occ result in
  let result := scan fuel (fun rr ff => (0 <=? rr)%Z && (ff <=? 7)%Z) (-1) 1 (r - 1)%Z (f + 1)%Z occ result in
  scan fuel (fun rr ff => (0 <=? rr)%Z && (0 <=? ff)%Z) (-1) (-1) (r - 1)%Z (f - 1)%Z occ result.
Definition calc_bishop_attacks : N -> N -> N := calc_bishop_attacks_fuel 8.

(* ------------------------------------------------------------------------------------------ *)
(* magic index *)

(* 64 - shift where shift is a byte: wraps modulo 256 *)
Definition shift_count (shift : N) : N := N.land (64 + 256 - N.land shift 255) 255.

(* (x * magic) >> (64 - shift) on uint64 *)
Definition magic_hash (x magic shift : N) : N := shr (mul64 x magic) (shift_count shift).

(* ((occ & mask) * magic) >> (64 - shift) *)
Definition magic_index (occ mask magic shift : N) : N := magic_hash (band occ mask) magic shift.

(* ------------------------------------------------------------------------------------------ *)
(* initBishopMagic / initRookMagic for one square.  The Go loop runs until the carry-rippler comes
   back to the full mask; the fuel given by [fill] is the number of subsets of the mask, and the
   boolean says that the loop did leave through its break within that many rounds. *)
Fixpoint fill_loop (fuel : nat) (calc : N -> N -> N) (sq mask magic shift occ : N) (t : table) : table * bool :=
  match fuel with
  | O => (t, false)
  | S k =>
      let t' := tbl_set t (magic_hash occ magic shift) (calc sq occ) in
      let occ' := band (sub64 occ mask) mask in
      if occ' =? mask then (t', true) else fill_loop k calc sq mask magic shift occ' t'
  end.

Definition subsets_count (mask : N) : N := N.shiftl 1 (popcount mask).

Definition fill (calc : N -> N -> N) (masks magics shifts : list N) (sq : N) : table * bool :=
  let mask := nthN masks sq 0 in
  fill_loop (N.to_nat (subsets_count mask)) calc sq mask (nthN magics sq 0) (nthN shifts sq 0) mask tbl_empty.

Definition bishop_mask (sq : N) : N := nthN bishop_masks sq 0.
Definition rook_mask (sq : N) : N := nthN rook_masks sq 0.

(* bishopAttacks[sq] / rookAttacks[sq] after init() *)
Definition bishop_row (sq : N) : table := fst (fill calc_bishop_attacks bishop_masks bishop_magics bishop_shifts sq).
Definition rook_row (sq : N) : table := fst (fill calc_rook_attacks rook_masks rook_magics rook_shifts sq).

(* attacks.BishopMoves / RookMoves, given the row of the table *)
Definition bishop_index (sq occ : N) : N :=
  magic_index occ (nthN bishop_masks sq 0) (nthN bishop_magics sq 0) (nthN bishop_shifts sq 0).
Definition rook_index (sq occ : N) : N :=
  magic_index occ (nthN rook_masks sq 0) (nthN rook_magics sq 0) (nthN rook_shifts sq 0).
Definition bishop_lookup (row : table) (sq occ : N) : N := tbl_get row (bishop_index sq occ).
Definition rook_lookup (row : table) (sq occ : N) : N := tbl_get row (rook_index sq occ).

Definition engine_bishop_moves (sq occ : N) : N := bishop_lookup (bishop_row sq) sq occ.
Definition engine_rook_moves (sq occ : N) : N := rook_lookup (rook_row sq) sq occ.

(* attacks.KingMoves / KnightMoves *)
Definition engine_king_moves (sq : N) : N := nthN king_table sq 0.
Definition engine_knight_moves (sq : N) : N := nthN knight_table sq 0.

(* ------------------------------------------------------------------------------------------ *)
(* initInBetween *)

Definition signum (x : Z) : Z := (if x <? 0 then -1 else if 0 <? x then 1 else 0)%Z.

(* for iterF != fileB || iterR != rankB { result |= 1 << ((iterR<<3)+iterF); iterF += fileD; iterR += rankD } *)
Fixpoint between_walk (fuel : nat) (iterF iterR fileB rankB fileD rankD : Z) (result : N) : N :=
  match fuel with
  | O => result
  | S k =>
      if negb (iterF =? fileB)%Z || negb (iterR =? rankB)%Z then
        between_walk k (iterF + fileD)%Z (iterR + rankD)%Z fileB rankB fileD rankD
                     (bor result (shl 1 (Z.to_N (Z.shiftl iterR 3 + iterF))))
      else result
  end.

(* the body of the innermost loop: the value stored in InBetween[(rankA<<3)+fileA][(rankB<<3)+fileB] *)
Definition in_between_cell_fuel (fuel : nat) (fileA rankA fileB rankB : Z) : N :=
  if ((fileA =? fileB) || (rankA =? rankB) || (Z.abs (fileA - fileB) =? Z.abs (rankA - rankB)))%Z then
    let result := between_walk fuel fileA rankA fileB rankB (signum (fileB - fileA)) (signum (rankB - rankA)) 0 in
    bor result (shl 1 (Z.to_N (Z.shiftl rankB 3 + fileB)))
  else 0.
(* Go's loop has no fuel; 8 rounds are enough on the board (Proofs/AttacksCalc.v, in_between_cell_fuel_enough) *)
Definition in_between_cell : Z -> Z -> Z -> Z -> N := in_between_cell_fuel 8.

Definition range8 : list Z := [0; 1; 2; 3; 4; 5; 6; 7]%Z.

(* the four nested loops, writing into the (flattened: 64*a + b) table *)
Definition init_in_between_from (t0 : table) : table :=
  fold_left (fun t fileA =>
    fold_left (fun t rankA =>
      fold_left (fun t fileB =>
        fold_left (fun t rankB =>
          tbl_set t (64 * Z.to_N (Z.shiftl rankA 3 + fileA) + Z.to_N (Z.shiftl rankB 3 + fileB))
                  (in_between_cell fileA rankA fileB rankB))
          range8 t) range8 t) range8 t) range8 t0.

(* attacks.InBetween[a][b] after init() *)
Definition engine_in_between (a b : N) : N := tbl_get (init_in_between_from tbl_empty) (64 * a + b).

(* the same cell computed directly from the loop body (what the correspondence stream runs; equal
   to the table cell for all a, b < 64 by Proofs/AttacksSmall.v, in_between_table_cell) *)
Definition in_between_direct (a b : N) : N :=
  in_between_cell (Z.of_N (N.land a 7)) (Z.of_N (N.shiftr a 3)) (Z.of_N (N.land b 7)) (Z.of_N (N.shiftr b 3)).
