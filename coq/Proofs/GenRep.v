(* C01: what the representation invariant says square by square, and the bridge between an engine
   board and its abstraction [abs b] (Spec/Chess.v).  Everything here is stated for the PLACEMENT part
   [PRep] of [Rep] (lengths, 64-bit words, one placement in the three encodings), which is all the
   move generator and the attack test look at, and which is what MakeMove visibly preserves for
   arbitrary Zobrist tables. *)
From Coq Require Import NArith ZArith List Bool Lia.
From Chess3 Require Import Base.Bits Model.Types Spec.Geometry Model.BoardDef Spec.Chess Spec.Rep Proofs.GenBase.
Import ListNotations.
Open Scope N_scope.

Definition prep_ok (b : board) : bool :=
  (length (sq2p b) =? 64)%nat && (length (pcs b) =? 7)%nat && (length (cols b) =? 2)%nat &&
  (pieces b 0 =? 0) &&
  forallb (fun x => x <? two64) (pcs b) && forallb (fun x => x <? two64) (cols b) &&
  forallb (sq_ok b) squares64.
Definition PRep (b : board) : Prop := prep_ok b = true.

Lemma Rep_PRep b : Rep b -> PRep b.
Proof.
  unfold Rep, PRep, rep_ok, prep_ok. intros H.
  rewrite !andb_true_iff in H. rewrite !andb_true_iff. tauto.
Qed.

(* the board with the non-placement fields reset: a [Rep] board with the same placement *)
Definition norm (b : board) : board := mkBoard (sq2p b) (pcs b) (cols b) [0] 0%Z (stm b) 0 0 0%Z.

Lemma PRep_norm b : PRep b -> Rep (norm b).
Proof.
  unfold Rep, PRep, rep_ok, prep_ok. intros H.
  rewrite !andb_true_iff in H. rewrite !andb_true_iff. cbn [sq2p pcs cols hashes ep castles fifty norm].
  repeat split; try tauto; try reflexivity.
Qed.

Section Facts.
Variable b : board.
Hypothesis HR : PRep b.

Lemma prep_split :
  length (sq2p b) = 64%nat /\ length (pcs b) = 7%nat /\ length (cols b) = 2%nat /\ pieces b 0 = 0 /\
  (forall x, In x (pcs b) -> x < two64) /\ (forall x, In x (cols b) -> x < two64) /\
  (forall s, s < 64 -> sq_ok b s = true).
Proof.
  pose proof HR as H. unfold PRep, prep_ok in H.
  rewrite !andb_true_iff in H. destruct H as [[[[[[H ?] ?] ?] ?] ?] ?].
  repeat split.
  - apply Nat.eqb_eq. assumption.
  - apply Nat.eqb_eq. assumption.
  - apply Nat.eqb_eq. assumption.
  - apply N.eqb_eq. assumption.
  - intros x Hx. apply N.ltb_lt. match goal with A : forallb _ (pcs b) = true |- _ => rewrite forallb_forall in A; apply A; exact Hx end.
  - intros x Hx. apply N.ltb_lt. match goal with A : forallb _ (cols b) = true |- _ => rewrite forallb_forall in A; apply A; exact Hx end.
  - apply all64. assumption.
Qed.

Lemma nth_w64 (l : list N) i : (forall x, In x l -> x < two64) -> nth i l 0 < two64.
Proof. intros H. destruct (nth_in_or_default i l 0) as [E|E]; [apply H; exact E|rewrite E; reflexivity]. Qed.

Lemma pieces_w64 p : w64p (pieces b p).
Proof. unfold w64p, pieces, nthN. apply nth_w64. apply prep_split. Qed.
Lemma colors_w64 c : w64p (colors b c).
Proof. unfold w64p, colors, nthN. apply nth_w64. apply prep_split. Qed.
Lemma occupancy_w64 : w64p (occupancy b).
Proof.
  unfold w64p, occupancy. apply testbit_lt_two64. intros i Hi. rewrite bor_tb.
  rewrite (w64p_high _ i (colors_w64 White) Hi), (w64p_high _ i (colors_w64 Black) Hi). reflexivity.
Qed.

(* one square *)
Lemma sq_view s : s < 64 ->
  piece_at b s <= 6 /\
  (forall p, 1 <= p <= 6 -> N.testbit (pieces b p) s = (piece_at b s =? p)) /\
  ((piece_at b s = 0 /\ N.testbit (colors b White) s = false /\ N.testbit (colors b Black) s = false) \/
   (piece_at b s <> 0 /\ N.testbit (colors b White) s = true /\ N.testbit (colors b Black) s = false) \/
   (piece_at b s <> 0 /\ N.testbit (colors b White) s = false /\ N.testbit (colors b Black) s = true)).
Proof.
  intros Hs. destruct prep_split as [_ [_ [_ [_ [_ [_ Hsq]]]]]].
  specialize (Hsq s Hs). unfold sq_ok in Hsq.
  apply andb_true_iff in Hsq. destruct Hsq as [Hsq H4].
  apply andb_true_iff in Hsq. destruct Hsq as [Hsq H3].
  apply andb_true_iff in Hsq. destruct Hsq as [H1 H2].
  apply N.leb_le in H1. split; [exact H1|]. split.
  - intros p Hp. rewrite forallb_forall in H2.
    assert (Hin : In p [1; 2; 3; 4; 5; 6]).
    { cbn [In]. assert (p = 1 \/ p = 2 \/ p = 3 \/ p = 4 \/ p = 5 \/ p = 6) by lia. intuition. }
    apply eqb_prop. apply H2. exact Hin.
  - apply eqb_prop in H3.
    destruct (N.testbit (colors b White) s), (N.testbit (colors b Black) s), (N.eqb_spec (piece_at b s) 0);
      cbn in H3, H4; try discriminate; auto.
Qed.

Lemma pieces_tb s p : s < 64 -> 1 <= p <= 6 -> N.testbit (pieces b p) s = (piece_at b s =? p).
Proof. intros Hs Hp. apply (sq_view s Hs). exact Hp. Qed.

Lemma occupancy_tb s : s < 64 -> N.testbit (occupancy b) s = negb (piece_at b s =? 0).
Proof.
  intros Hs. unfold occupancy. rewrite bor_tb.
  destruct (sq_view s Hs) as [_ [_ [[A [B C]]|[[A [B C]]|[A [B C]]]]]]; rewrite B, C.
  - rewrite A. reflexivity.
  - apply N.eqb_neq in A. rewrite A. reflexivity.
  - apply N.eqb_neq in A. rewrite A. reflexivity.
Qed.

Lemma colors_excl c s : N.testbit (colors b c) s = true -> N.testbit (colors b (flip c)) s = false.
Proof.
  intros H. assert (Hs : s < 64) by (eapply tb_lt64; [apply colors_w64|exact H]).
  destruct (sq_view s Hs) as [_ [_ [[A [B C]]|[[A [B C]]|[A [B C]]]]]]; destruct c; cbn [flip]; congruence.
Qed.

Lemma colors_occ c s : N.testbit (colors b c) s = true -> N.testbit (occupancy b) s = true.
Proof. intros H. unfold occupancy. rewrite bor_tb. destruct c; rewrite H; [reflexivity|apply orb_true_r]. Qed.

Lemma occ_colors s : N.testbit (occupancy b) s = true -> forall c, N.testbit (colors b c) s = negb (N.testbit (colors b (flip c)) s).
Proof.
  intros H c. unfold occupancy in H. rewrite bor_tb in H.
  destruct (N.testbit (colors b c) s) eqn:E.
  - rewrite (colors_excl c s E). reflexivity.
  - destruct c; cbn [flip] in *; rewrite E in H; rewrite ?orb_false_r, ?orb_false_l in H; rewrite H; reflexivity.
Qed.

(* ---------------------------------------------------------------------------------------- *)
(* abs *)

Lemma who_abs s :
  who (abs b) s =
  if s <? 64 then
    (if piece_at b s =? 0 then None
     else Some (if N.testbit (colors b White) s then White else Black, piece_at b s))
  else None.
Proof.
  unfold who, abs. cbn [at_]. destruct (N.ltb_spec s 64) as [H|H].
  - rewrite nth_squares64 by exact H. reflexivity.
  - apply nth_squares64_high. exact H.
Qed.

Lemma who_some s c k :
  who (abs b) s = Some (c, k) <->
  (1 <= k <= 6 /\ N.testbit (pieces b k) s = true /\ N.testbit (colors b c) s = true).
Proof.
  rewrite who_abs. destruct (N.ltb_spec s 64) as [Hs|Hs].
  - destruct (sq_view s Hs) as [L [P V]]. split.
    + destruct (N.eqb_spec (piece_at b s) 0) as [E|E]; [discriminate|].
      intros H. injection H as H1 H2. subst k.
      split; [lia|]. split; [rewrite P by lia; apply N.eqb_refl|].
      destruct V as [[A _]|[[_ [B C]]|[_ [B C]]]]; [contradiction| |]; rewrite B in H1; subst c; assumption.
    + intros [Hk [H1 H2]]. rewrite P in H1 by exact Hk. apply N.eqb_eq in H1. rewrite H1.
      destruct (N.eqb_spec k 0) as [E|E]; [lia|]. f_equal. f_equal.
      destruct V as [[A _]|[[_ [B C]]|[_ [B C]]]]; [lia| |]; rewrite B; destruct c; congruence.
  - split; [discriminate|]. intros [_ [H _]]. rewrite (w64p_high _ s (pieces_w64 k) Hs) in H. discriminate.
Qed.

Lemma who_none s : who (abs b) s = None <-> N.testbit (occupancy b) s = false.
Proof.
  rewrite who_abs. destruct (N.ltb_spec s 64) as [Hs|Hs].
  - rewrite occupancy_tb by exact Hs. destruct (piece_at b s =? 0); cbn; split; congruence.
  - rewrite (w64p_high _ s occupancy_w64 Hs). tauto.
Qed.

Lemma who_piece_range s c k : who (abs b) s = Some (c, k) -> s < 64 /\ 1 <= k <= 6.
Proof.
  intros H. pose proof H as H'. apply who_some in H. destruct H as [A [B C]]. split; [|exact A].
  eapply tb_lt64; [apply (pieces_w64 k)|exact B].
Qed.

Lemma holds_iff (p : pos) s c k : holds p s c k = true <-> who p s = Some (c, k).
Proof.
  unfold holds. destruct (who p s) as [[c' k']|]; [|split; discriminate].
  rewrite andb_true_iff, N.eqb_eq. split.
  - intros [A B]. subst k'. destruct c, c'; cbn in A; try discriminate; reflexivity.
  - intros H. injection H as -> ->. split; [destruct c; reflexivity|reflexivity].
Qed.

Lemma holds_abs s c k : 1 <= k <= 6 ->
  holds (abs b) s c k = N.testbit (pieces b k) s && N.testbit (colors b c) s.
Proof.
  intros Hk. apply eq_true_iff_eq. rewrite holds_iff, who_some, andb_true_iff. tauto.
Qed.

Lemma owned_abs s c : owned_by (abs b) s c = N.testbit (colors b c) s.
Proof.
  apply eq_true_iff_eq. unfold owned_by. split.
  - destruct (who (abs b) s) as [[c' k']|] eqn:E; [|discriminate]. intros H.
    assert (c = c') by (destruct c, c'; cbn in H; try discriminate; reflexivity). subst c'.
    apply who_some in E. tauto.
  - intros H. pose proof (colors_occ c s H) as Ho.
    destruct (who (abs b) s) as [[c' k']|] eqn:E.
    + apply who_some in E. destruct E as [_ [_ E]].
      destruct c, c'; try reflexivity; [pose proof (colors_excl White s H)|pose proof (colors_excl Black s H)]; cbn [flip] in *; congruence.
    + apply who_none in E. congruence.
Qed.

Lemma empty_abs s : empty (abs b) s = negb (N.testbit (occupancy b) s).
Proof.
  apply eq_true_iff_eq. unfold empty. rewrite negb_true_iff, <- who_none.
  destruct (who (abs b) s); split; congruence.
Qed.

Lemma set_of_tb l i : N.testbit (set_of l) i = true <-> In i l.
Proof.
  induction l as [|a l IH]; cbn [set_of fold_right In].
  - rewrite N.bits_0. split; [discriminate|tauto].
  - fold (set_of l). rewrite N.lor_spec, bit_testbit, orb_true_iff, N.eqb_eq, IH. tauto.
Qed.

Lemma occ_abs : occ_of (abs b) = occupancy b.
Proof.
  apply bits_ext. intros i. apply eq_true_iff_eq. unfold occ_of.
  rewrite set_of_tb, filter_In, in_squares64, empty_abs, negb_involutive. split.
  - tauto.
  - intros H. split; [|exact H]. eapply tb_lt64; [apply occupancy_w64|exact H].
Qed.

End Facts.

(* ------------------------------------------------------------------------------------------ *)
(* consequences of [valid] *)

Lemma valid_split p : valid p = true ->
  length (at_ p) = 64%nat /\ material_ok p White = true /\ material_ok p Black = true /\
  no_pawn_on_edge p = true /\ in_check_spec p (flip (turn p)) = false /\
  rights_consistent p = true /\ ep_ok p = true.
Proof.
  unfold valid. intros H.
  rewrite !andb_true_iff in H. destruct H as [[[[[[H ?] ?] ?] ?] ?] ?].
  repeat split; try assumption.
  - apply Nat.eqb_eq. assumption.
  - apply negb_true_iff. assumption.
Qed.

Lemma filter_len1 {A} (f : A -> bool) l : length (filter f l) = 1%nat -> NoDup l ->
  exists k, In k l /\ filter f l = [k] /\ forall s, In s l -> (f s = true <-> s = k).
Proof.
  intros H ND. destruct (filter f l) as [|k [|k' r]] eqn:E; try discriminate.
  exists k. assert (Hk : In k (filter f l)) by (rewrite E; left; reflexivity).
  apply filter_In in Hk. split; [tauto|]. split; [reflexivity|].
  intros s Hs. split.
  - intros Hf. assert (In s (filter f l)) by (apply filter_In; tauto). rewrite E in H0.
    destruct H0 as [H0|[]]. congruence.
  - intros ->. tauto.
Qed.

Lemma count_len p c k : count p c k = 1%Z -> length (filter (fun s => holds p s c k) squares64) = 1%nat.
Proof. unfold count. intros H. change 1%Z with (Z.of_nat 1) in H. apply Nat2Z.inj in H. exact H. Qed.

Lemma material_count_king p c : material_ok p c = true -> count p c King = 1%Z.
Proof.
  unfold material_ok. intros H. apply andb_true_iff in H. destruct H as [H _].
  apply Z.eqb_eq in H. exact H.
Qed.

Lemma material_king p c : material_ok p c = true ->
  exists k, k < 64 /\ filter (fun s => holds p s c King) squares64 = [k] /\
            forall s, s < 64 -> (holds p s c King = true <-> s = k).
Proof.
  intros H. apply material_count_king in H. apply count_len in H.
  pose proof (filter_len1 (fun s => holds p s c King) squares64 H squares64_NoDup) as [k [K1 [K2 K3]]].
  exists k. split; [apply in_squares64; exact K1|]. split; [exact K2|].
  intros s Hs. apply K3. apply in_squares64. exact Hs.
Qed.

Lemma king_unique b c : PRep b -> valid (abs b) = true ->
  exists k, k < 64 /\ king_sq (abs b) c = k /\ forall s, holds (abs b) s c King = true <-> s = k.
Proof.
  intros HR HV. destruct (valid_split _ HV) as [_ [MW [MB _]]].
  assert (M : material_ok (abs b) c = true) by (destruct c; assumption).
  destruct (material_king _ _ M) as [k [K1 [K2 K3]]]. exists k. split; [exact K1|]. split.
  - unfold king_sq. rewrite K2. reflexivity.
  - intros s. destruct (N.lt_ge_cases s 64) as [Hs|Hs]; [apply K3; exact Hs|].
    split.
    + intros H. apply holds_iff in H. apply (who_piece_range b HR) in H. lia.
    + intros ->. lia.
Qed.

Lemma valid_no_edge_pawn b c s : PRep b -> valid (abs b) = true ->
  holds (abs b) s c Pawn = true -> 8 <= s < 56.
Proof.
  intros HR HV H. destruct (valid_split _ HV) as [_ [_ [_ [NP _]]]].
  assert (Hs : s < 64) by (apply holds_iff in H; apply (who_piece_range b HR) in H; tauto).
  unfold no_pawn_on_edge in NP. pose proof (all64 _ NP s Hs) as Q. cbv beta in Q.
  assert (E : (holds (abs b) s White Pawn || holds (abs b) s Black Pawn) = true) by (destruct c; rewrite H; [reflexivity|apply orb_true_r]).
  rewrite E in Q. cbn [negb] in Q. rewrite orb_false_r in Q. apply negb_true_iff in Q.
  apply orb_false_iff in Q. destruct Q as [A B]. apply N.eqb_neq in A, B. unfold rank_n in A, B.
  assert (s / 8 < 8) by (apply N.div_lt_upper_bound; lia).
  dm8 s. lia.
Qed.

Lemma valid_rights b c long : valid (abs b) = true -> has_right (abs b) c long = true ->
  holds (abs b) (king_home c) c King = true /\ holds (abs b) (rook_home c long) c Rook = true.
Proof.
  intros HV HRt. destruct (valid_split _ HV) as [_ [_ [_ [_ [_ [RC _]]]]]].
  unfold rights_consistent in RC. rewrite forallb_forall in RC.
  specialize (RC (c, long)). cbv beta iota in RC. rewrite HRt in RC. cbn [negb orb] in RC.
  apply andb_true_iff. apply RC. destruct c, long; cbn [In]; tauto.
Qed.
