(* Proofs for Model/Chunker.v: the line manifest addresses exactly the non-blank terminated lines;
   Read returns the addressed bytes for every buffer size >= the longest line, whatever the refill
   pattern; an epoch read through any partition of the index range (in particular the tuner's
   Batches/Chunks schedule) delivers a permutation of the non-blank lines. *)
From Coq Require Import ZArith NArith Lia Bool List Permutation PeanoNat Sorting.Mergesort.
From Chess3 Require Import Base.Word Base.Loop Gen.TunerConsts Model.Shuffle Model.Batch Model.Chunker
  Spec.Perm Proofs.ShuffleProofs Proofs.BatchProofs.
Import ListNotations.
Open Scope Z_scope.

(* ---------------------------------------------------------------------------------------------- *)
(* lists with binary counters *)

Lemma zlen_length {A} (l : list A) : zlen l = Z.of_nat (length l).
Proof. induction l as [|x t IH]; cbn [zlen length]; lia. Qed.

Lemma zlen_nonneg {A} (l : list A) : 0 <= zlen l.
Proof. rewrite zlen_length. lia. Qed.

Lemma zlen_app {A} (a b : list A) : zlen (a ++ b) = zlen a + zlen b.
Proof. rewrite !zlen_length, app_length. lia. Qed.

Lemma ztake_firstn {A} (l : list A) : forall n, ztake n l = firstn (Z.to_nat n) l.
Proof.
  induction l as [|x t IH]; intros n; cbn [ztake]; [rewrite firstn_nil; reflexivity|].
  destruct (Z.leb_spec n 0) as [H|H].
  - replace (Z.to_nat n) with 0%nat by lia. reflexivity.
  - replace (Z.to_nat n) with (S (Z.to_nat (n - 1))) by lia. cbn [firstn]. f_equal. apply IH.
Qed.

Lemma zdrop_skipn {A} (l : list A) : forall n, zdrop n l = skipn (Z.to_nat n) l.
Proof.
  induction l as [|x t IH]; intros n; cbn [zdrop]; [rewrite skipn_nil; reflexivity|].
  destruct (Z.leb_spec n 0) as [H|H].
  - replace (Z.to_nat n) with 0%nat by lia. reflexivity.
  - replace (Z.to_nat n) with (S (Z.to_nat (n - 1))) by lia. cbn [skipn]. apply IH.
Qed.

Lemma zdrop_app_exact {A} (a b : list A) : zdrop (zlen a) (a ++ b) = b.
Proof.
  rewrite zdrop_skipn, zlen_length, Nat2Z.id. rewrite skipn_app, skipn_all, Nat.sub_diag. reflexivity.
Qed.

Lemma ztake_app_exact {A} (a b : list A) : ztake (zlen a) (a ++ b) = a.
Proof.
  rewrite ztake_firstn, zlen_length, Nat2Z.id. rewrite firstn_app, firstn_all, Nat.sub_diag.
  cbn [firstn]. apply app_nil_r.
Qed.

(* a slice is characterised by a decomposition of the file *)
Lemma slice_unique file a m b lo hi :
  file = a ++ m ++ b -> zlen a = lo -> zlen m = hi - lo -> slice file lo hi = m.
Proof.
  intros -> Ha Hm. unfold slice. subst lo. rewrite <- Hm.
  rewrite <- zdrop_skipn, <- ztake_firstn, zdrop_app_exact. apply ztake_app_exact.
Qed.

Lemma slice_decomp file lo hi : 0 <= lo <= hi -> hi <= zlen file ->
  exists a b, file = a ++ slice file lo hi ++ b /\ zlen a = lo /\ zlen (slice file lo hi) = hi - lo.
Proof.
  intros H1 H2. rewrite zlen_length in H2. unfold slice.
  exists (firstn (Z.to_nat lo) file), (skipn (Z.to_nat (hi - lo)) (skipn (Z.to_nat lo) file)).
  rewrite !firstn_skipn. repeat split.
  - rewrite zlen_length, firstn_length. lia.
  - rewrite zlen_length, firstn_length, skipn_length. lia.
Qed.

Lemma ztake_zdrop_slice (l : list Z) lo hi : ztake (hi - lo) (zdrop lo l) = slice l lo hi.
Proof. rewrite ztake_firstn, zdrop_skipn. reflexivity. Qed.

(* ---------------------------------------------------------------------------------------------- *)
(* ByLines and the line manifest *)

Lemma find_nl_some l : forall p r, find_nl l = Some (p, r) ->
  l = p ++ byte_nl :: r /\ split_nl l = (p :: fst (split_nl r), snd (split_nl r)).
Proof.
  induction l as [|c t IH]; intros p r H; cbn [find_nl] in H; [discriminate|].
  cbn [split_nl]. unfold byte_nl in *. destruct (Z.eqb_spec c 10) as [->|Hc].
  - inversion H; subst. split; [reflexivity|]. destruct (split_nl r); reflexivity.
  - destruct (find_nl t) as [[p' r']|]; [|discriminate]. inversion H; subst.
    destruct (IH p' r eq_refl) as [-> E]. split; [reflexivity|]. rewrite E. reflexivity.
Qed.

Lemma find_nl_none l : find_nl l = None -> split_nl l = ([], l).
Proof.
  induction l as [|c t IH]; intros H; [reflexivity|]. cbn [find_nl] in H. cbn [split_nl].
  unfold byte_nl in *. destruct (Z.eqb_spec c 10); [discriminate|].
  destruct (find_nl t) as [[p r]|]; [discriminate|]. rewrite IH by reflexivity. reflexivity.
Qed.

Lemma nonblank_cons p r l : find_nl l = Some (p, r) ->
  nonblank_lines l = (if is_blank p then [] else [p]) ++ nonblank_lines r.
Proof.
  intros H. apply find_nl_some in H. destruct H as [_ E].
  unfold nonblank_lines, terminated_lines. rewrite E. cbn [fst filter].
  destruct (is_blank p); reflexivity.
Qed.

Lemma nonblank_none l : find_nl l = None -> nonblank_lines l = [].
Proof. intros H. unfold nonblank_lines, terminated_lines. rewrite (find_nl_none l H). reflexivity. Qed.

(* ByLines.Read: skips blank lines, returns the next non-blank terminated line *)
Lemma by_lines_read_line fuel : forall rest off line r off',
  (length rest < fuel)%nat -> by_lines_read fuel rest off = BlLine line r off' ->
  exists skipped, rest = skipped ++ line ++ byte_nl :: r /\ off' = off + zlen skipped + zlen line + 1 /\
                  line <> [] /\ nonblank_lines rest = line :: nonblank_lines r /\ zlen line < LineBufSize.
Proof.
  induction fuel as [|f IH]; intros rest off line r off' Hf H; [inversion Hf|].
  cbn [by_lines_read] in H. unfold read_slice in H.
  destruct (find_nl rest) as [[p r1]|] eqn:E.
  2:{ destruct (zlen rest <? LineBufSize); discriminate. }
  destruct (Z.leb_spec (zlen p + 1) LineBufSize) as [Hlen|Hlen]; [|discriminate].
  pose proof (nonblank_cons p r1 rest E) as Hnb.
  destruct (find_nl_some rest p r1 E) as [Hrest _].
  destruct (Z.ltb_spec 1 (zlen p + 1)) as [Hp|Hp].
  - inversion H; subst line r off'. exists []. cbn [app zlen]. repeat split; try lia; try assumption.
    + intros ->. cbn in Hp. lia.
    + rewrite Hnb. destruct p; [cbn in Hp; lia|reflexivity].
  - assert (p = []) by (destruct p; [reflexivity|cbn [zlen] in Hp; pose proof (zlen_nonneg p); lia]). subst p.
    cbn [app] in Hrest. apply IH in H.
    + destruct H as (sk & Hr1 & Hoff & Hne & Hnb1 & Hl). exists (byte_nl :: sk).
      repeat split; try assumption.
      * rewrite Hrest, Hr1. reflexivity.
      * cbn [zlen] in *. lia.
      * rewrite Hnb. cbn [is_blank app]. exact Hnb1.
    + subst rest. cbn [length] in Hf. lia.
Qed.

Lemma by_lines_read_eof fuel : forall rest off,
  (length rest < fuel)%nat -> by_lines_read fuel rest off = BlEOF -> nonblank_lines rest = [].
Proof.
  induction fuel as [|f IH]; intros rest off Hf H; [inversion Hf|].
  cbn [by_lines_read] in H. unfold read_slice in H.
  destruct (find_nl rest) as [[p r1]|] eqn:E.
  2:{ apply nonblank_none, E. }
  destruct (zlen p + 1 <=? LineBufSize); [|discriminate].
  destruct (Z.ltb_spec 1 (zlen p + 1)) as [Hp|Hp]; [discriminate|].
  assert (p = []) by (destruct p; [reflexivity|cbn [zlen] in Hp; pose proof (zlen_nonneg p); lia]). subst p.
  rewrite (nonblank_cons [] r1 rest E). cbn [is_blank app].
  destruct (find_nl_some rest [] r1 E) as [Hrest _]. cbn [app] in Hrest.
  apply (IH r1 (off + (zlen (@nil Z) + 1))); [subst rest; cbn [length] in Hf; lia|exact H].
Qed.

Definition line_of (file : list Z) (a : line_addr) : list Z := slice file (fst a) (snd a - 1).

(* an address of a non-blank line of the file *)
Definition addr_ok (file : list Z) (a : line_addr) : Prop :=
  0 <= fst a /\ fst a + 1 < snd a /\ snd a <= zlen file /\ snd a - fst a - 1 < LineBufSize.

Lemma manifest_spec fuel : forall pre rest off m,
  (length rest < fuel)%nat -> zlen pre = off -> manifest_loop fuel rest off = Some m ->
  map (line_of (pre ++ rest)) m = nonblank_lines rest /\ Forall (addr_ok (pre ++ rest)) m.
Proof.
  induction fuel as [|f IH]; intros pre rest off m Hf Hpre H; [inversion Hf|].
  cbn [manifest_loop] in H.
  destruct (by_lines_read (S f) rest off) as [line r off'| |] eqn:E; [| |discriminate].
  2:{ inversion H; subst m. split; [|constructor]. cbn [map]. symmetry. eapply by_lines_read_eof; eassumption. }
  destruct (manifest_loop f r off') as [m'|] eqn:E'; [|discriminate]. inversion H; subst m. clear H.
  destruct (by_lines_read_line (S f) rest off line r off' Hf E) as (sk & Hrest & Hoff & Hne & Hnb & Hl).
  assert (Hfile : pre ++ rest = (pre ++ sk ++ line ++ [byte_nl]) ++ r).
  { rewrite Hrest. rewrite <- !app_assoc. reflexivity. }
  assert (Hlen : (length r < f)%nat).
  { rewrite Hrest in Hf. rewrite !app_length in Hf. cbn [length] in Hf. lia. }
  destruct (IH (pre ++ sk ++ line ++ [byte_nl]) r off' m' Hlen) as [Hmap Hok].
  { rewrite !zlen_app. cbn [zlen]. lia. }
  { exact E'. }
  rewrite <- Hfile in Hmap, Hok. split.
  - cbn [map]. rewrite Hmap, Hnb. f_equal. unfold line_of. cbn [fst snd].
    apply (slice_unique _ (pre ++ sk) line (byte_nl :: r)).
    + rewrite Hrest, <- !app_assoc. reflexivity.
    + rewrite zlen_app. lia.
    + lia.
  - constructor; [|exact Hok]. unfold addr_ok. cbn [fst snd].
    pose proof (zlen_nonneg pre). pose proof (zlen_nonneg sk). pose proof (zlen_nonneg r).
    assert (0 < zlen line) by (destruct line; [congruence|cbn [zlen]; pose proof (zlen_nonneg line); lia]).
    rewrite Hfile, !zlen_app. cbn [zlen]. lia.
Qed.

Theorem new_chunker_spec file ck : new_chunker file = Some ck ->
  ck_file ck = file /\ map (line_of file) (ck_manifest ck) = nonblank_lines file /\
  Forall (addr_ok file) (ck_manifest ck).
Proof.
  unfold new_chunker. intros H.
  destruct (manifest_loop (S (length file)) file 0) as [m|] eqn:E; [|discriminate].
  inversion H; subst ck. cbn [ck_file ck_manifest]. split; [reflexivity|].
  apply (manifest_spec (S (length file)) [] file 0 m); [lia|reflexivity|exact E].
Qed.

(* ---------------------------------------------------------------------------------------------- *)
(* Chunk.Read through the refillable buffer *)

(* what the buffer holds: the bytes ms..me of the file, then anything *)
Definition buf_inv (file : list Z) (B ms me : Z) (buf : list Z) : Prop :=
  0 <= ms <= me /\ me <= zlen file /\ me - ms <= B /\ exists tail, buf = slice file ms me ++ tail.

Lemma buf_slice_ok file B ms me buf lo hi : buf_inv file B ms me buf -> ms <= lo <= hi -> hi <= me ->
  buf_slice buf (lo - ms) (hi - ms) = slice file lo hi.
Proof.
  intros (Hms & Hme & _ & tail & ->) Hlo Hhi.
  destruct (slice_decomp file ms me Hms Hme) as (a & b & Hfile & Ha & Hm).
  set (M := slice file ms me) in *.
  destruct (slice_decomp M (lo - ms) (hi - ms) ltac:(lia) ltac:(lia)) as (m1 & m3 & HM & Hm1 & HL).
  set (L := slice M (lo - ms) (hi - ms)) in *.
  assert (E : slice file lo hi = L).
  { apply (slice_unique file (a ++ m1) L (m3 ++ b)).
    - rewrite Hfile, HM, <- !app_assoc. reflexivity.
    - rewrite zlen_app. lia.
    - lia. }
  rewrite E. unfold buf_slice.
  replace (hi - ms - (lo - ms)) with (zlen L) by lia.
  rewrite HM, <- !app_assoc, <- Hm1, zdrop_app_exact, ztake_app_exact.
  rewrite Z.sub_diag. cbn [Z.to_nat repeat]. apply app_nil_r.
Qed.

Lemma refill_inv file B s buf : 0 <= B -> 0 <= s <= zlen file ->
  let data := read_at file s B in
  buf_inv file B s (s + zlen data) (overwrite buf data) /\ zlen data = Z.min B (zlen file - s).
Proof.
  intros HB Hs. cbv zeta. unfold read_at.
  replace B with (Z.min (s + B) (zlen file) - s + (B - (Z.min (s + B) (zlen file) - s))) at 1 2 by lia.
  set (hi := Z.min (s + B) (zlen file)).
  assert (Hd : ztake B (zdrop s file) = slice file s hi).
  { destruct (slice_decomp file s hi ltac:(lia) ltac:(lia)) as (a & b & Hfile & Ha & Hm).
    rewrite Hfile at 1. rewrite <- Ha at 1. rewrite zdrop_app_exact.
    destruct (Z.le_gt_cases (s + B) (zlen file)) as [Hc|Hc].
    - replace B with (zlen (slice file s hi)) at 1 by lia. apply ztake_app_exact.
    - assert (b = []).
      { assert (zlen b = 0); [|destruct b; [reflexivity|cbn [zlen] in *; pose proof (zlen_nonneg b); lia]].
        apply (f_equal zlen) in Hfile. rewrite !zlen_app in Hfile. lia. }
      subst b. rewrite app_nil_r. rewrite ztake_firstn. apply firstn_all2.
      apply Nat2Z.inj_le. rewrite <- zlen_length. lia. }
  replace (hi - s + (B - (hi - s))) with B by lia. rewrite Hd.
  destruct (slice_decomp file s hi ltac:(lia) ltac:(lia)) as (a & b & Hfile & Ha & Hm).
  split; [|lia]. unfold buf_inv. rewrite Hm. replace (s + (hi - s)) with hi by lia.
  repeat split; try lia. unfold overwrite. eexists. reflexivity.
Qed.

Definition fits (B : Z) (a : line_addr) : Prop := snd a - fst a - 1 <= B.

Lemma read_all_spec file B : 0 <= B -> forall lines ms me buf,
  buf_inv file B ms me buf -> Forall (addr_ok file) lines -> Forall (fits B) lines ->
  read_all file B lines ms me buf = Ok (map (line_of file) lines).
Proof.
  intros HB. induction lines as [|[s e] rest IH]; intros ms me buf Hinv Hok Hfit; [reflexivity|].
  inversion Hok as [|? ? Ha Hok']; subst. inversion Hfit as [|? ? Hf Hfit']; subst.
  unfold addr_ok in Ha. unfold fits in Hf. cbn [fst snd] in Ha, Hf.
  cbn [read_all map]. unfold line_of at 1. cbn [fst snd].
  destruct ((ms >? s) || (me <? e)) eqn:Hrefill.
  - (* refill at s *)
    destruct (refill_inv file B s buf HB ltac:(lia)) as [Hinv' Hdata]. cbv zeta in Hinv', Hdata.
    set (data := read_at file s B) in *. cbv beta iota zeta.
    replace (s - s) with 0 by lia.
    destruct (Z.ltb_spec 0 0); [lia|]. destruct (Z.ltb_spec (e - s - 1) 0); [lia|].
    destruct (Z.ltb_spec B (e - s - 1)); [lia|]. cbn [orb].
    rewrite (IH _ _ _ Hinv' Hok' Hfit').
    f_equal. f_equal. replace 0 with (s - s) by lia. replace (e - s - 1) with (e - 1 - s) by lia.
    apply (buf_slice_ok file B s (s + zlen data)); [exact Hinv'|lia|lia].
  - apply orb_false_iff in Hrefill. destruct Hrefill as [H1 H2].
    rewrite Z.gtb_ltb in H1. apply Z.ltb_ge in H1, H2.
    destruct Hinv as (Hms & Hme & HmB & tail & Hbuf). cbv beta iota zeta.
    destruct (Z.ltb_spec (s - ms) 0); [lia|]. destruct (Z.ltb_spec (e - ms - 1) (s - ms)); [lia|].
    destruct (Z.ltb_spec B (e - ms - 1)); [lia|]. cbn [orb].
    assert (Hinv : buf_inv file B ms me buf) by (repeat split; try lia; exists tail; exact Hbuf).
    rewrite (IH _ _ _ Hinv Hok' Hfit').
    f_equal. f_equal. replace (e - ms - 1) with (e - 1 - ms) by lia.
    apply (buf_slice_ok file B ms me); [exact Hinv|lia|lia].
Qed.

Lemma buf_inv_init file B : 0 <= B -> buf_inv file B 0 0 [].
Proof.
  intros HB. unfold buf_inv. pose proof (zlen_nonneg file). repeat split; try lia.
  exists []. unfold slice. reflexivity.
Qed.

(* ---------------------------------------------------------------------------------------------- *)
(* Open: the shuffled window *)

Lemma u64_small z : 0 <= z < 2 ^ 64 -> u64 z = Z.to_N z.
Proof. intros H. unfold u64. change 18446744073709551616 with (2 ^ 64). rewrite Z.mod_small by exact H. reflexivity. Qed.

Lemma range_list_zrange s e : range_list s e = zrange s e.
Proof. reflexivity. Qed.

Section Window.
Variable F : N -> N -> N.
Hypothesis rounds_even : Nat.even (N.to_nat FeistelRounds) = true.

(* the manifest entry the shuffled index ix stands for *)
Definition pick (m : list line_addr) (n epoch : N) (ix : Z) : line_addr :=
  nth (N.to_nat (shuffle_value F n epoch (u64 ix))) m (0, 0).

Lemma n_bounds (m : list line_addr) : 1 <= zlen m < 2 ^ 63 -> (1 <= u64 (zlen m) < 2 ^ 64)%N.
Proof.
  intros H. rewrite u64_small by lia. change (2 ^ 64)%N with 18446744073709551616%N.
  change (2 ^ 63) with 9223372036854775808 in H. lia.
Qed.

Lemma ix_bound (m : list line_addr) ix : zlen m < 2 ^ 63 -> 0 <= ix < zlen m -> (u64 ix < u64 (zlen m))%N.
Proof. intros H1 H2. rewrite !u64_small by lia. lia. Qed.

Lemma pick_in m epoch ix : 1 <= zlen m < 2 ^ 63 -> 0 <= ix < zlen m -> In (pick m (u64 (zlen m)) epoch ix) m.
Proof.
  intros Hm Hix. unfold pick. apply nth_In.
  pose proof (shuffle_range F rounds_even (u64 (zlen m)) epoch (u64 ix) (n_bounds m Hm) (ix_bound m ix ltac:(lia) Hix)) as H.
  rewrite u64_small in H at 2 by lia. pose proof (zlen_length m). lia.
Qed.

Lemma lookup_all_spec m epoch ixs : 1 <= zlen m < 2 ^ 63 -> Forall (fun ix => 0 <= ix < zlen m) ixs ->
  lookup_all F m (u64 (zlen m)) epoch ixs = Ok (map (pick m (u64 (zlen m)) epoch) ixs).
Proof.
  intros Hm. induction ixs as [|ix t IH]; intros Hall; [reflexivity|].
  inversion Hall as [|? ? Hix Hall']; subst. cbn [lookup_all map].
  pose proof (n_bounds m Hm) as Hn. pose proof (ix_bound m ix ltac:(lia) Hix) as Hx.
  destruct (shuffle_total F rounds_even (u64 (zlen m)) epoch (u64 ix) Hn Hx) as (y & E & Hy).
  unfold pick at 1. unfold shuffle_value. rewrite E.
  rewrite (nth_error_nth' m (0, 0)).
  - rewrite (IH Hall'). reflexivity.
  - rewrite u64_small in Hy by lia. pose proof (zlen_length m). lia.
Qed.

Lemma open_spec ck epoch s e : line_count ck < 2 ^ 63 -> 0 <= s < e -> e <= line_count ck ->
  open_gen F ck epoch s e =
  Ok (AddrSort.sort (map (pick (ck_manifest ck) (u64 (line_count ck)) (u64 epoch)) (zrange s e))).
Proof.
  intros Hn Hs He. unfold open_gen.
  destruct (Z.ltb_spec s 0); [lia|]. destruct (Z.ltb_spec e 0); [lia|].
  destruct (Z.gtb_spec s (line_count ck - 1)); [lia|]. destruct (Z.gtb_spec e (line_count ck)); [lia|].
  destruct (Z.gtb_spec s e); [lia|]. cbn [orb]. unfold line_count in *.
  rewrite lookup_all_spec; [reflexivity|lia|].
  rewrite range_list_zrange. apply Forall_forall. intros x Hx. apply in_zrange in Hx. lia.
Qed.

(* ---------------------------------------------------------------------------------------------- *)
(* a whole epoch *)

Section Epoch.
Variable file : list Z.
Variable ck : chunker.
Hypothesis ck_ok : new_chunker file = Some ck.
Variable B : Z.
Hypothesis fits_B : forall l, In l (nonblank_lines file) -> zlen l <= B.
Hypothesis count_ok : line_count ck < 2 ^ 63.
Variable epoch : Z.

Let m := ck_manifest ck.
Let n := line_count ck.
Let pk := pick m (u64 n) (u64 epoch).

Lemma B_nonneg_or_empty : m = [] \/ 0 <= B.
Proof.
  destruct (new_chunker_spec file ck ck_ok) as (_ & Hmap & _). fold m in Hmap.
  destruct m as [|a t]; [left; reflexivity|right]. cbn [map] in Hmap.
  specialize (fits_B (line_of file a)). rewrite <- Hmap in fits_B.
  pose proof (zlen_nonneg (line_of file a)). specialize (fits_B (or_introl eq_refl)). lia.
Qed.

Lemma manifest_fits : Forall (fits B) m.
Proof.
  destruct (new_chunker_spec file ck ck_ok) as (_ & Hmap & Hok). fold m in Hmap, Hok.
  apply Forall_forall. intros a Ha. rewrite Forall_forall in Hok. specialize (Hok a Ha).
  unfold addr_ok in Hok. unfold fits.
  assert (Hin : In (line_of file a) (nonblank_lines file)) by (rewrite <- Hmap; apply in_map, Ha).
  apply fits_B in Hin. unfold line_of in Hin.
  destruct (slice_decomp file (fst a) (snd a - 1) ltac:(lia) ltac:(lia)) as (_ & _ & _ & _ & Hl). lia.
Qed.

Lemma read_window_spec s e : 0 <= s < e -> e <= n ->
  exists ls, read_window_gen F ck B epoch s e = Ok ls /\ Permutation ls (map (line_of file) (map pk (zrange s e))).
Proof.
  intros Hs He. unfold read_window_gen. fold n in count_ok. rewrite open_spec by assumption.
  destruct (new_chunker_spec file ck ck_ok) as (Hfile & Hmap & Hok). fold m in Hmap, Hok.
  fold m. fold n. fold pk. rewrite Hfile.
  assert (Hn : 1 <= zlen m < 2 ^ 63) by (unfold n, line_count in *; fold m in He, count_ok; lia).
  assert (HB : 0 <= B).
  { destruct B_nonneg_or_empty as [E|HB]; [|exact HB]. rewrite E in Hn. cbn in Hn. lia. }
  pose proof (AddrSort.Permuted_sort (map pk (zrange s e))) as Hperm.
  assert (Hin : forall a, In a (AddrSort.sort (map pk (zrange s e))) -> In a m).
  { intros a Ha. apply (Permutation_in _ (Permutation_sym Hperm)) in Ha.
    apply in_map_iff in Ha. destruct Ha as (ix & <- & Hix). apply in_zrange in Hix.
    unfold pk, n, line_count. fold m. apply pick_in; [exact Hn|]. unfold n, line_count in He. fold m in He. lia. }
  eexists. split.
  - apply read_all_spec; [exact HB|apply buf_inv_init, HB| |].
    + apply Forall_forall. intros a Ha. rewrite Forall_forall in Hok. apply Hok, Hin, Ha.
    + apply Forall_forall. intros a Ha. pose proof manifest_fits as Hf. rewrite Forall_forall in Hf. apply Hf, Hin, Ha.
  - apply Permutation_map, Permutation_sym, Hperm.
Qed.

Lemma read_windows_spec ws : Forall (fun w => 0 <= fst w < snd w /\ snd w <= n) ws ->
  exists ls, read_windows_gen F ck B epoch ws = Ok ls /\
             Permutation ls (map (line_of file) (map pk (tile ws))).
Proof.
  induction ws as [|w t IH]; intros Hall; [exists []; split; [reflexivity|constructor]|].
  inversion Hall as [|? ? [Hw1 Hw2] Hall']; subst.
  destruct (read_window_spec (fst w) (snd w) Hw1 Hw2) as (l1 & E1 & P1).
  destruct (IH Hall') as (l2 & E2 & P2).
  cbn [read_windows_gen]. rewrite E1, E2. exists (l1 ++ l2). split; [reflexivity|].
  unfold tile. cbn [map concat]. rewrite !map_app. apply Permutation_app; assumption.
Qed.

Lemma nth_seq_id {A} (d : A) (l : list A) : map (fun k => nth k l d) (seq 0 (length l)) = l.
Proof.
  induction l as [|a t IH]; [reflexivity|]. cbn [length seq map nth]. f_equal.
  rewrite <- seq_shift, map_map. exact IH.
Qed.

Lemma picks_perm : Permutation (map pk (zrange 0 n)) m.
Proof.
  destruct (Z.le_gt_cases n 0) as [Hz|Hpos].
  - rewrite zrange_nil by lia. unfold n, line_count in Hz. unfold m.
    destruct (ck_manifest ck) as [|a t]; [constructor|]. cbn [zlen] in Hz. pose proof (zlen_nonneg t). lia.
  - assert (Hn : 1 <= zlen m < 2 ^ 63) by (unfold n, line_count in *; fold m in Hpos, count_ok; lia).
    pose proof (shuffle_perm F rounds_even (u64 n) (u64 epoch)) as Hp.
    unfold n, line_count in Hp. fold m in Hp. specialize (Hp (n_bounds m Hn)). unfold perm_of_range in Hp.
    apply (Permutation_map (fun y => nth (N.to_nat y) m (0, 0))) in Hp.
    assert (E1 : map pk (zrange 0 n) =
                 map (fun y : N => nth (N.to_nat y) m (0, 0)) (map (shuffle_value F (u64 (zlen m)) (u64 epoch)) (idx (u64 (zlen m))))).
    { unfold zrange, idx, pk, pick, n, line_count. fold m. rewrite !map_map.
      rewrite (u64_small (zlen m)) by lia. replace (N.to_nat (Z.to_N (zlen m))) with (Z.to_nat (zlen m - 0)) by lia.
      apply map_ext_in. intros k Hk. apply in_seq in Hk.
      rewrite (u64_small (0 + Z.of_nat k)) by (change (2 ^ 64) with 18446744073709551616; change (2 ^ 63) with 9223372036854775808 in Hn; lia).
      do 3 f_equal. lia. }
    assert (E2 : map (fun y : N => nth (N.to_nat y) m (0, 0)) (idx (u64 (zlen m))) = m).
    { unfold idx. rewrite map_map. rewrite (u64_small (zlen m)) by lia.
      replace (N.to_nat (Z.to_N (zlen m))) with (length m) by (rewrite zlen_length; lia).
      rewrite <- (nth_seq_id (0, 0) m) at 2. apply map_ext. intros k. rewrite Nnat.Nat2N.id. reflexivity. }
    rewrite E1. rewrite E2 in Hp. exact Hp.
Qed.

Lemma partition_bounds ws : partitions ws 0 n -> Forall (fun w => 0 <= fst w < snd w /\ snd w <= n) ws.
Proof.
  intros [Hne Ht]. apply Forall_forall. intros w Hw. rewrite Forall_forall in Hne. specialize (Hne w Hw).
  assert (Hsub : forall x, In x (zrange (fst w) (snd w)) -> In x (zrange 0 n)).
  { intros x Hx. rewrite <- Ht. apply in_concat. exists (zrange (fst w) (snd w)). split; [|exact Hx].
    apply in_map_iff. exists w. split; [reflexivity|exact Hw]. }
  pose proof (Hsub (fst w) ltac:(apply in_zrange; lia)) as H1. apply in_zrange in H1.
  pose proof (Hsub (snd w - 1) ltac:(apply in_zrange; lia)) as H2. apply in_zrange in H2. lia.
Qed.

(* whatever the window boundaries: reading all windows of a partition of [0,n) delivers the
   non-blank lines of the file, each exactly once *)
Theorem epoch_any_partition ws : partitions ws 0 n ->
  exists ls, read_windows_gen F ck B epoch ws = Ok ls /\ Permutation ls (nonblank_lines file).
Proof.
  intros Hp. destruct (read_windows_spec ws (partition_bounds ws Hp)) as (ls & E & P).
  exists ls. split; [exact E|]. eapply Permutation_trans; [exact P|].
  destruct Hp as [_ Ht]. fold (tile ws) in Ht. rewrite Ht.
  destruct (new_chunker_spec file ck ck_ok) as (_ & Hmap & _). fold m in Hmap. rewrite <- Hmap.
  apply Permutation_map, picks_perm.
Qed.

(* the tuner's schedule *)
Theorem epoch_schedule L C : 0 < L -> 0 < C -> L + C < 2 ^ 63 -> n + L < 2 ^ 63 ->
  exists ls, epoch_read_gen F L C ck B epoch = Ok ls /\ Permutation ls (nonblank_lines file).
Proof.
  intros HL HC Hmax Hn. unfold epoch_read_gen, schedule_gen. apply epoch_any_partition.
  apply schedule_partition; try assumption. unfold n, line_count. apply zlen_nonneg.
Qed.
End Epoch.
End Window.

(* ---------------------------------------------------------------------------------------------- *)
(* NewChunker succeeds when every line fits the line reader *)

Definition lines_fit (rest : list Z) : Prop :=
  (forall l, In l (terminated_lines rest) -> zlen l < LineBufSize) /\ zlen (snd (split_nl rest)) < LineBufSize.

Lemma by_lines_read_fit fuel : forall rest off, lines_fit rest ->
  match by_lines_read fuel rest off with
  | BlError => False
  | BlLine _ r _ => lines_fit r
  | BlEOF => True
  end.
Proof.
  induction fuel as [|f IH]; intros rest off [Hl Hf]; cbn [by_lines_read]; [exact I|].
  unfold read_slice. destruct (find_nl rest) as [[p r]|] eqn:E.
  - destruct (find_nl_some rest p r E) as [_ Es].
    assert (Hr : lines_fit r).
    { unfold lines_fit, terminated_lines in *. rewrite Es in Hl, Hf. cbn [fst snd] in Hl, Hf.
      split; [intros l Hin; apply Hl; right; exact Hin|exact Hf]. }
    assert (Hp : zlen p < LineBufSize).
    { apply Hl. unfold terminated_lines. rewrite Es. left. reflexivity. }
    destruct (Z.leb_spec (zlen p + 1) LineBufSize); [|lia].
    destruct (1 <? zlen p + 1); [exact Hr|]. apply IH, Hr.
  - rewrite (find_nl_none rest E) in Hf. cbn [snd] in Hf.
    destruct (Z.ltb_spec (zlen rest) LineBufSize); [exact I|lia].
Qed.

Lemma manifest_loop_total fuel : forall rest off, lines_fit rest -> manifest_loop fuel rest off <> None.
Proof.
  induction fuel as [|f IH]; intros rest off Hfit; cbn [manifest_loop]; [discriminate|].
  pose proof (by_lines_read_fit (S f) rest off Hfit) as H.
  destruct (by_lines_read (S f) rest off) as [line r off'| |]; [|discriminate|contradiction].
  specialize (IH r off' H). destruct (manifest_loop f r off'); [discriminate|congruence].
Qed.

Theorem new_chunker_total file :
  (forall l, In l (terminated_lines file) -> zlen l < LineBufSize) -> zlen (snd (split_nl file)) < LineBufSize ->
  exists ck, new_chunker file = Some ck.
Proof.
  intros H1 H2. unfold new_chunker.
  pose proof (manifest_loop_total (S (length file)) file 0 (conj H1 H2)) as H.
  destruct (manifest_loop (S (length file)) file 0) as [m|]; [eexists; reflexivity|congruence].
Qed.

(* ---------------------------------------------------------------------------------------------- *)
(* instances with the code's round function and the generated constants *)

Lemma batches_chunks_code n : 0 <= n < 2 ^ 62 ->
  partitions (batches n) 0 n /\
  (forall b, In b (batches n) -> partitions (chunks b) (fst b) (snd b)) /\
  partitions (schedule n) 0 n.
Proof.
  intros Hn. destruct generated_constants_ok as [GL [GC [Gmax GL2]]].
  assert (Hn2 : n + NumLinesInBatch < 2 ^ 63) by lia.
  destruct (batches_partition NumLinesInBatch n GL ltac:(lia) Hn2) as [Hp Hw].
  split; [exact Hp|]. split.
  - intros [s e] Hb. unfold batches in Hb. rewrite Forall_forall in Hw. specialize (Hw _ Hb).
    unfold within in Hw. cbn [fst snd] in *.
    apply (chunks_partition NumLinesInBatch NumChunksInBatch s e GL GC Gmax); lia.
  - apply schedule_partition; try assumption. lia.
Qed.

Lemma epoch_code file ck B epoch :
  new_chunker file = Some ck ->
  (forall l, In l (nonblank_lines file) -> zlen l <= B) ->
  line_count ck < 2 ^ 62 ->
  exists ls, epoch_read ck B epoch = Ok ls /\ Permutation ls (nonblank_lines file).
Proof.
  intros Hck Hfit Hn. destruct generated_constants_ok as [GL [GC [Gmax GL2]]].
  apply (epoch_schedule round_func feistel_rounds_even file ck Hck B Hfit ltac:(lia) epoch); try assumption. lia.
Qed.

Lemma split_nl_length l : (length (fst (split_nl l)) <= length l)%nat.
Proof.
  induction l as [|c t IH]; [apply Nat.le_refl|]. cbn [split_nl].
  destruct (split_nl t) as [ls rest]. cbn [fst] in IH.
  destruct (c =? 10); [cbn [fst length]; lia|].
  destruct ls as [|l1 ls']; cbn [fst length] in *; lia.
Qed.

Lemma filter_length_le' {A} (f : A -> bool) l : (length (filter f l) <= length l)%nat.
Proof. induction l as [|a t IH]; [apply Nat.le_refl|]. cbn [filter]. destruct (f a); cbn [length]; lia. Qed.

Lemma line_count_le file ck : new_chunker file = Some ck -> line_count ck <= zlen file.
Proof.
  intros H. destruct (new_chunker_spec file ck H) as (_ & Hmap & _).
  apply (f_equal (@length _)) in Hmap. rewrite map_length in Hmap.
  unfold line_count. rewrite !zlen_length. apply Nat2Z.inj_le. rewrite Hmap.
  unfold nonblank_lines, terminated_lines.
  eapply Nat.le_trans; [apply filter_length_le'|apply split_nl_length].
Qed.

Lemma line_reader_fits_backing : LineBufSize <= BackingBytes.
Proof. cbv. discriminate. Qed.

Lemma epoch_documented file epoch :
  well_formed_file file ->
  (forall l, In l (terminated_lines file) -> zlen l < LineBufSize) ->
  zlen file < 2 ^ 62 ->
  exists ck ls, new_chunker file = Some ck /\ epoch_read ck BackingBytes epoch = Ok ls /\
                Permutation ls (nonblank_lines file).
Proof.
  intros Hwf Hlines Hlen. unfold well_formed_file in Hwf.
  destruct (new_chunker_total file Hlines) as (ck & Hck).
  { rewrite Hwf. cbv. reflexivity. }
  exists ck. pose proof (line_count_le file ck Hck) as Hn.
  destruct (epoch_code file ck BackingBytes epoch Hck) as (ls & E & P).
  - intros l Hin. unfold nonblank_lines in Hin. apply filter_In in Hin. destruct Hin as [Hin _].
    apply Hlines in Hin. pose proof line_reader_fits_backing. lia.
  - lia.
  - exists ls. split; [exact Hck|]. split; assumption.
Qed.
