(* Composition, part 5: the move picker (C16) on the moves of a real board.

   C16_picker / C16_end_to_end are stated over an abstract environment: IsPseudoLegal's answer for
   the hash move and the generated noisy and quiet lists are inputs, and two hypotheses connect them:
       ipl = true <-> In hm (noisy ++ quiet)        and        NoDup (noisy ++ quiet).
   For the environment of a representable valid position - ipl := is_pseudo_legal b hm,
   noisy := Movegen.gen_noisy b, quiet := Movegen.gen_quiet b (Model/Movegen.v) - the first is C05 (Proofs/IplC05.v) and
   the second b-c01's gen_all_NoDup (Proofs/GenSpec.v).  The picker model stores moves as Z, the board
   model as N; [Z.of_N] is the (injective) embedding. *)
From Coq Require Import NArith ZArith List Bool Lia Permutation.
From Chess3 Require Import Base.Bits Model.Types Model.BoardDef Model.Board Model.Movegen Spec.Chess Spec.Rep.
From Chess3 Require Proofs.IplC05 Proofs.GenNoDup Proofs.GenLegal Proofs.GenSpec.
From Chess3 Require Import Base.Word Gen.HeurConsts Model.Hist Model.Picker
  Proofs.HistProofs Proofs.PickerProofs Proofs.C16Proofs.
Import ListNotations.

Lemma ofN_inj a b : Z.of_N a = Z.of_N b -> a = b.
Proof. apply N2Z.inj. Qed.

Lemma NoDup_map_ofN l : NoDup l -> NoDup (map Z.of_N l).
Proof.
  induction 1 as [|a l Hn Hd IH]; cbn [map]; constructor; [|exact IH].
  intros Hin. apply in_map_iff in Hin. destruct Hin as (x & E & Hx). apply ofN_inj in E. subst x. contradiction.
Qed.

Lemma in_map_ofN m l : In (Z.of_N m) (map Z.of_N l) <-> In m l.
Proof.
  split.
  - intros Hin. apply in_map_iff in Hin. destruct Hin as (x & E & Hx). apply ofN_inj in E. subst x. exact Hx.
  - apply in_map.
Qed.

Lemma gen_all_split b : gen_all b = Movegen.gen_noisy b ++ Movegen.gen_quiet b.
Proof. reflexivity. Qed.

(* the two hypotheses of C16_picker, for the environment of a board *)
Theorem picker_hypotheses b hm : Rep b -> valid (abs b) = true -> (hm < 32768)%N ->
  (is_pseudo_legal b hm = true <-> In (Z.of_N hm) (map Z.of_N (Movegen.gen_noisy b) ++ map Z.of_N (Movegen.gen_quiet b))) /\
  NoDup (map Z.of_N (Movegen.gen_noisy b) ++ map Z.of_N (Movegen.gen_quiet b)).
Proof.
  intros HR HV Hm. rewrite <- map_app, <- gen_all_split. split.
  - rewrite in_map_ofN. apply (IplC05.C05_closed b HR HV hm Hm).
  - apply NoDup_map_ofN. apply GenSpec.gen_all_NoDup; [apply GenLegal.Rep_MRep; exact HR|exact HV].
Qed.

(* C16 on a board: ranker in any reachable state, weights computed by RankNoisy / RankQuiet from ANY
   attributes attached to the generated moves (attacker / victim / exchange verdict, moved piece) *)
Theorem picker_on_board b hm r stm top0 top1 noisy quiet e s :
  Rep b -> valid (abs b) = true -> (hm < 32768)%N ->
  reachable r -> Forall attrs_ok noisy ->
  map na_move noisy = map Z.of_N (Movegen.gen_noisy b) -> map qa_move quiet = map Z.of_N (Movegen.gen_quiet b) ->
  ranked_env r stm top0 top1 (is_pseudo_legal b hm) noisy quiet = Some e ->
  fresh_frame s -> store_room s e ->
  weights_in_band e
  /\ exists ys q,
    drain_from (drain_fuel e) e (picker_new s (Z.of_N hm)) = Some (ys, q)
    /\ drain e (picker_new s (Z.of_N hm)) = Some ys
    /\ Permutation (map fst ys) (map Z.of_N (gen_all b))
    /\ (is_pseudo_legal b hm = true -> hd_error ys = Some (Z.of_N hm, HashMove))
    /\ store_pop (p_store q) = store_pop s.
Proof.
  intros HR HV Hm Hreach Ha En Eq He Hfresh Hroom.
  destruct (picker_hypotheses b hm HR HV Hm) as [Hipl Hnd].
  rewrite gen_all_split, map_app, <- En, <- Eq.
  apply (picker_end_to_end r stm top0 top1 (is_pseudo_legal b hm) noisy quiet e s (Z.of_N hm)); try assumption.
  - rewrite En, Eq. exact Hipl.
  - rewrite En, Eq. exact Hnd.
Qed.

(* the same for any environment with in-band weights on the board's moves (C16_picker's form) *)
Theorem picker_on_board_env b hm e s :
  Rep b -> valid (abs b) = true -> (hm < 32768)%N ->
  e_ipl e = is_pseudo_legal b hm ->
  map fst (e_noisy e) = map Z.of_N (Movegen.gen_noisy b) -> map fst (e_quiet e) = map Z.of_N (Movegen.gen_quiet b) ->
  weights_in_band e -> fresh_frame s -> store_room s e ->
  exists ys q,
    drain_from (drain_fuel e) e (picker_new s (Z.of_N hm)) = Some (ys, q)
    /\ drain e (picker_new s (Z.of_N hm)) = Some ys
    /\ Permutation (map fst ys) (map Z.of_N (gen_all b))
    /\ (is_pseudo_legal b hm = true -> hd_error ys = Some (Z.of_N hm, HashMove))
    /\ store_pop (p_store q) = store_pop s.
Proof.
  intros HR HV Hm Ei En Eq Hw Hfresh Hroom.
  destruct (picker_hypotheses b hm HR HV Hm) as [Hipl Hnd].
  assert (EM : moves_of e = map Z.of_N (gen_all b)).
  { unfold moves_of. unfold wmove in *. rewrite map_app, En, Eq, gen_all_split, map_app. reflexivity. }
  rewrite <- EM, <- Ei.
  apply picker_correct_bands; try assumption.
  - rewrite Ei, EM, gen_all_split, map_app. exact Hipl.
  - rewrite EM, gen_all_split, map_app. exact Hnd.
Qed.

(* ------------------------------------------------------------------------------------------ *)
(* bit 15 of a hash move.  move.Move is a uint16 with 15 bits of payload.  IsPseudoLegal reads the
   three fields through masks, so it answers for hm exactly as for hm with bit 15 cleared; the
   generator never sets bit 15.  A hash move with bit 15 set that IsPseudoLegal accepts is therefore
   yielded first although it is not a generated encoding (the failure mode (a) of Properties/C16.v);
   this is why the theorems carry hm < 2^15. *)
Open Scope N_scope.

Lemma mv_to_low15 m : mv_to (N.land m 32767) = mv_to m.
Proof. unfold mv_to. rewrite <- N.land_assoc. reflexivity. Qed.
Lemma mv_from_low15 m : mv_from (N.land m 32767) = mv_from m.
Proof. unfold mv_from. rewrite N.shiftr_land, <- N.land_assoc. reflexivity. Qed.
Lemma mv_promo_low15 m : mv_promo (N.land m 32767) = mv_promo m.
Proof. unfold mv_promo. rewrite N.shiftr_land, <- N.land_assoc. reflexivity. Qed.

Theorem ipl_ignores_bit15 b m : is_pseudo_legal b (N.land m 32767) = is_pseudo_legal b m.
Proof. unfold is_pseudo_legal. rewrite mv_from_low15, mv_to_low15, mv_promo_low15. reflexivity. Qed.

Theorem bit15_not_generated b m : 32768 <= m -> ~ In m (gen_all b).
Proof. intros Hm Hin. pose proof (GenNoDup.gen_all_lt b m Hin). lia. Qed.
