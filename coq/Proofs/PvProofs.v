(* Proofs about Model/Pv.v: the triangular PV buffer refines "line(ply) := m :: line(ply+1)",
   and the mate-score rendering is total and in range. *)
From Coq Require Import ZArith Bool List Lia.
Import ListNotations.
From Chess3 Require Import Base.Word Gen.IdConsts Model.Pv.
Open Scope Z_scope.

(* ------------------------------------------------------------------------------------------- *)
(* list cells *)

Lemma nth_firstn_lt (A : Type) (l : list A) : forall n k d, (k < n)%nat -> nth k (firstn n l) d = nth k l d.
Proof.
  induction l as [|a l IH]; intros n k d H.
  - rewrite firstn_nil. reflexivity.
  - destruct n as [|n]; [lia|]. destruct k as [|k]; [reflexivity|]. cbn. apply IH. lia.
Qed.

Lemma nth_skipn' (A : Type) (l : list A) : forall n k d, nth k (skipn n l) d = nth (n + k) l d.
Proof.
  induction l as [|a l IH]; intros n k d.
  - rewrite skipn_nil. destruct k, n; reflexivity.
  - destruct n as [|n]; [reflexivity|]. cbn. apply IH.
Qed.

Lemma slice_length l pos n : (pos + n <= length l)%nat -> length (slice l pos n) = n.
Proof. intros H. unfold slice. rewrite firstn_length, skipn_length. lia. Qed.

Lemma slice_nth l pos n k d : (k < n)%nat -> nth k (slice l pos n) d = nth (pos + k) l d.
Proof. intros H. unfold slice. rewrite nth_firstn_lt by exact H. apply nth_skipn'. Qed.

Lemma write_length l pos src : (pos + length src <= length l)%nat -> length (write l pos src) = length l.
Proof.
  intros H. unfold write. rewrite !app_length, firstn_length, skipn_length. lia.
Qed.

Lemma write_nth l pos src k d : (pos + length src <= length l)%nat ->
  nth k (write l pos src) d =
  if (pos <=? k)%nat && (k <? pos + length src)%nat then nth (k - pos) src d else nth k l d.
Proof.
  intros H. unfold write.
  assert (Hf : length (firstn pos l) = pos) by (rewrite firstn_length; lia).
  destruct (Nat.leb_spec pos k) as [Hk|Hk]; cbn [andb].
  - rewrite app_nth2 by lia. rewrite Hf.
    destruct (Nat.ltb_spec k (pos + length src)) as [Hk2|Hk2].
    + rewrite app_nth1 by lia. reflexivity.
    + rewrite app_nth2 by lia. rewrite nth_skipn'. f_equal. lia.
  - rewrite app_nth1 by lia. apply nth_firstn_lt. exact Hk.
Qed.

Lemma slice_ext l l' pos n : (pos + n <= length l)%nat -> (pos + n <= length l')%nat ->
  (forall k, (pos <= k < pos + n)%nat -> nth k l 0 = nth k l' 0) -> slice l pos n = slice l' pos n.
Proof.
  intros H H' E. apply (nth_ext _ _ 0 0).
  - rewrite !slice_length by assumption. reflexivity.
  - intros k Hk. rewrite slice_length in Hk by assumption.
    rewrite !slice_nth by exact Hk. apply E. lia.
Qed.

Lemma slice_cons l pos n : (pos + S n <= length l)%nat ->
  slice l pos (S n) = nth pos l 0 :: slice l (S pos) n.
Proof.
  intros H. apply (nth_ext _ _ 0 0).
  - cbn [length]. rewrite !slice_length by lia. reflexivity.
  - intros k Hk. rewrite slice_length in Hk by lia.
    rewrite slice_nth by exact Hk. destruct k as [|k]; cbn [nth].
    + f_equal. lia.
    + rewrite slice_nth by lia. f_equal. lia.
Qed.

(* ------------------------------------------------------------------------------------------- *)
(* index arithmetic: finite, by computation over all plies (bound in the statements) *)

Definition upto (n : nat) : list Z := map Z.of_nat (seq 0 n).

Lemma in_upto n p : 0 <= p < Z.of_nat n -> In p (upto n).
Proof.
  intros H. unfold upto. apply in_map_iff. exists (Z.to_nat p). split; [lia|].
  apply in_seq. lia.
Qed.

Definition step_ok (p : Z) : bool :=
  (buf_ix p + (MaxPlies - p) =? buf_ix (p + 1)) && (buf_ix (p + 1) <=? PVSize) && (0 <=? buf_ix p).

Lemma step_ok_all : forallb step_ok (upto 63) = true.
Proof. vm_compute. reflexivity. Qed.

(* C07_buf *)
Theorem buf_ix_step : forall ply, 0 <= ply <= 62 ->
  buf_ix ply + (MaxPlies - ply) = buf_ix (ply + 1) /\ buf_ix (ply + 1) <= PVSize /\ 0 <= buf_ix ply.
Proof.
  intros p Hp. pose proof step_ok_all as H. rewrite forallb_forall in H.
  specialize (H p (in_upto 63 p ltac:(lia))). unfold step_ok in H.
  apply andb_true_iff in H as [H H3]. apply andb_true_iff in H as [H1 H2].
  apply Z.eqb_eq in H1. apply Z.leb_le in H2. apply Z.leb_le in H3. auto.
Qed.

Definition region_ok (p : Z) : bool :=
  (0 <=? buf_ix p) && (buf_ix p + (MaxPlies - p) <=? PVSize) &&
  forallb (fun q => if q <? p then buf_ix q + (MaxPlies - q) <=? buf_ix p else true) (upto 64).

Lemma region_ok_all : forallb region_ok (upto 64) = true.
Proof. vm_compute. reflexivity. Qed.

(* regions [bufIx p, bufIx p + 64 - p) lie inside the array and do not overlap *)
Lemma region_facts : forall p, 0 <= p <= 63 ->
  0 <= buf_ix p /\ buf_ix p + (MaxPlies - p) <= PVSize /\
  forall q, 0 <= q < p -> buf_ix q + (MaxPlies - q) <= buf_ix p.
Proof.
  intros p Hp. pose proof region_ok_all as H. rewrite forallb_forall in H.
  specialize (H p (in_upto 64 p ltac:(lia))). unfold region_ok in H.
  apply andb_true_iff in H as [H H3]. apply andb_true_iff in H as [H1 H2].
  apply Z.leb_le in H1. apply Z.leb_le in H2. split; [exact H1|]. split; [exact H2|].
  intros q Hq. rewrite forallb_forall in H3. specialize (H3 q (in_upto 64 q ltac:(lia))).
  destruct (q <? p) eqn:E; [apply Z.leb_le in H3; exact H3|]. apply Z.ltb_ge in E. lia.
Qed.

(* ------------------------------------------------------------------------------------------- *)
(* representation invariant and the abstract reading *)

Definition depth_at (b : pvbuf) (p : Z) : Z := nth (Z.to_nat p) (pv_depth b) 0.

Definition wf (b : pvbuf) : Prop :=
  length (pv_moves b) = Z.to_nat PVSize /\ length (pv_depth b) = Z.to_nat MaxPlies /\
  forall p, 0 <= p < MaxPlies -> 0 <= depth_at b p <= MaxPlies - p.

Lemma wf_new : wf new_pv.
Proof.
  unfold wf, new_pv, depth_at; cbn [pv_moves pv_depth]. rewrite !repeat_length.
  split; [reflexivity|]. split; [reflexivity|]. intros p Hp.
  assert (E : nth (Z.to_nat p) (repeat 0 (Z.to_nat MaxPlies)) 0 = 0).
  { destruct (nth_in_or_default (Z.to_nat p) (repeat 0 (Z.to_nat MaxPlies)) 0) as [Hin|Hd]; [|exact Hd].
    apply repeat_spec in Hin. exact Hin. }
  rewrite E. unfold MaxPlies in *. lia.
Qed.

Lemma get_some l i : 0 <= i < Z.of_nat (length l) -> get l i = Some (nth (Z.to_nat i) l 0).
Proof.
  intros H. unfold get.
  destruct (0 <=? i) eqn:E1; [|apply Z.leb_gt in E1; lia].
  destruct (i <? Z.of_nat (length l)) eqn:E2; [reflexivity|apply Z.ltb_ge in E2; lia].
Qed.

Lemma set_some l i v : 0 <= i < Z.of_nat (length l) -> set l i v = Some (write l (Z.to_nat i) [v]).
Proof.
  intros H. unfold set.
  destruct (0 <=? i) eqn:E1; [|apply Z.leb_gt in E1; lia].
  destruct (i <? Z.of_nat (length l)) eqn:E2; [reflexivity|apply Z.ltb_ge in E2; lia].
Qed.

Lemma write1_nth l i v k : (i < length l)%nat ->
  nth k (write l i [v]) 0 = if (k =? i)%nat then v else nth k l 0.
Proof.
  intros H. rewrite write_nth by (cbn [length]; lia). cbn [length].
  destruct (Nat.eqb_spec k i) as [->|Hne].
  - rewrite Nat.leb_refl. destruct (Nat.ltb_spec i (i + 1)); [|lia]. cbn [andb]. rewrite Nat.sub_diag. reflexivity.
  - destruct (Nat.leb_spec i k); cbn [andb]; [|reflexivity].
    destruct (Nat.ltb_spec k (i + 1)); [lia|reflexivity].
Qed.

Lemma write1_length l i v : (i < length l)%nat -> length (write l i [v]) = length l.
Proof. intros H. apply write_length. cbn [length]. lia. Qed.

(* setNull(ply): the line of ply becomes empty, every other line and every move cell is untouched *)
Theorem set_null_spec : forall b ply, wf b -> 0 <= ply <= 63 ->
  exists b', set_null b ply = Some b' /\ wf b' /\ pv_moves b' = pv_moves b /\
             line b' ply = [] /\ (forall q, 0 <= q <= 63 -> q <> ply -> line b' q = line b q).
Proof.
  intros b ply (Hm & Hd & Hr) Hp. unfold set_null.
  assert (Hlen : (Z.to_nat ply < length (pv_depth b))%nat) by (rewrite Hd; unfold MaxPlies; lia).
  rewrite set_some by lia. eexists. split; [reflexivity|].
  assert (Hdep : forall q, 0 <= q <= 63 ->
            depth_at {| pv_moves := pv_moves b; pv_depth := write (pv_depth b) (Z.to_nat ply) [0] |} q
            = if q =? ply then 0 else depth_at b q).
  { intros q Hq. unfold depth_at; cbn [pv_depth]. rewrite write1_nth by exact Hlen.
    destruct (Nat.eqb_spec (Z.to_nat q) (Z.to_nat ply)) as [E|E]; destruct (Z.eqb_spec q ply) as [E'|E']; try lia; reflexivity. }
  split; [|split; [reflexivity|split]].
  - split; [exact Hm|]. split; [cbn [pv_depth]; rewrite write1_length by exact Hlen; exact Hd|].
    intros q Hq. unfold MaxPlies in Hq. rewrite Hdep by lia.
    destruct (q =? ply); [unfold MaxPlies; lia|apply Hr; unfold MaxPlies; lia].
  - unfold line. fold (depth_at {| pv_moves := pv_moves b; pv_depth := write (pv_depth b) (Z.to_nat ply) [0] |} ply).
    rewrite Hdep by lia. rewrite Z.eqb_refl. reflexivity.
  - intros q Hq Hne. unfold line.
    fold (depth_at {| pv_moves := pv_moves b; pv_depth := write (pv_depth b) (Z.to_nat ply) [0] |} q).
    rewrite Hdep by lia. destruct (Z.eqb_spec q ply); [contradiction|]. reflexivity.
Qed.

(* insert(ply, m), ply <= 62: writes only cells of region ply, reads only region ply+1;
   afterwards line(ply) = m :: line(ply+1) and every other line is what it was *)
Theorem insert_spec : forall b ply m, wf b -> 0 <= ply <= 62 ->
  exists b', insert b ply m = Some b' /\ wf b' /\
    (forall k, (Z.of_nat k < buf_ix ply \/ buf_ix (ply + 1) <= Z.of_nat k) -> nth k (pv_moves b') 0 = nth k (pv_moves b) 0) /\
    line b' ply = m :: line b (ply + 1) /\
    (forall q, 0 <= q <= 63 -> q <> ply -> line b' q = line b q).
Proof.
  intros b ply m (Hm & Hd & Hr) Hp.
  destruct (buf_ix_step ply Hp) as (Hstep & Hj & Hi0).
  destruct (region_facts (ply + 1) ltac:(lia)) as (_ & Hj2 & _).
  pose proof (Hr (ply + 1) ltac:(unfold MaxPlies; lia)) as Hl. unfold depth_at in Hl.
  set (l := nth (Z.to_nat (ply + 1)) (pv_depth b) 0) in *.
  set (i := buf_ix ply) in *. set (j := buf_ix (ply + 1)) in *.
  unfold MaxPlies, PVSize in *.
  assert (Hw : wrap8 (ply + 1) = ply + 1) by (apply wrap8_id; lia).
  assert (Hw2 : wrap8 (l + 1) = l + 1) by (apply wrap8_id; lia).
  unfold insert. rewrite Hw. fold i j.
  rewrite get_some by (rewrite Hd; lia). fold l.
  assert (Hilen : (Z.to_nat i < length (pv_moves b))%nat) by (rewrite Hm; lia).
  rewrite set_some by lia.
  set (mv1 := write (pv_moves b) (Z.to_nat i) [m]).
  assert (Hlen1 : length mv1 = 2080%nat) by (unfold mv1; rewrite write1_length by exact Hilen; rewrite Hm; reflexivity).
  rewrite Hlen1.
  replace ((0 <=? i + 1) && (0 <=? l) && (i + 1 + l <=? Z.of_nat 2080) && (0 <=? j) && (j + l <=? Z.of_nat 2080)) with true.
  2:{ symmetry. repeat (apply andb_true_iff; split); apply Z.leb_le; lia. }
  set (src := slice mv1 (Z.to_nat j) (Z.to_nat l)).
  assert (Hsrc : length src = Z.to_nat l) by (unfold src; apply slice_length; lia).
  set (mv2 := write mv1 (Z.to_nat (i + 1)) src).
  assert (Hlen2 : length mv2 = 2080%nat) by (unfold mv2; rewrite write_length by lia; exact Hlen1).
  assert (Hplen : (Z.to_nat ply < length (pv_depth b))%nat) by (rewrite Hd; lia).
  rewrite set_some by lia. rewrite Hw2.
  set (dp := write (pv_depth b) (Z.to_nat ply) [l + 1]).
  eexists. split; [reflexivity|].
  (* cells *)
  assert (Hcell : forall k, nth k mv2 0 =
            if (Z.to_nat (i + 1) <=? k)%nat && (k <? Z.to_nat (i + 1) + Z.to_nat l)%nat
            then nth (Z.to_nat j + (k - Z.to_nat (i + 1))) (pv_moves b) 0
            else if (k =? Z.to_nat i)%nat then m else nth k (pv_moves b) 0).
  { intros k. unfold mv2. rewrite write_nth by lia. rewrite Hsrc.
    destruct ((Z.to_nat (i + 1) <=? k)%nat && (k <? Z.to_nat (i + 1) + Z.to_nat l)%nat) eqn:E.
    - apply andb_true_iff in E as [E1 E2]. apply Nat.leb_le in E1. apply Nat.ltb_lt in E2.
      unfold src. rewrite slice_nth by lia. unfold mv1. rewrite write1_nth by exact Hilen.
      destruct (Nat.eqb_spec (Z.to_nat j + (k - Z.to_nat (i + 1))) (Z.to_nat i)); [lia|reflexivity].
    - unfold mv1. apply write1_nth. exact Hilen. }
  assert (Hdep : forall q, 0 <= q <= 63 ->
            depth_at {| pv_moves := mv2; pv_depth := dp |} q = if q =? ply then l + 1 else depth_at b q).
  { intros q Hq. unfold depth_at, dp; cbn [pv_depth]. rewrite write1_nth by exact Hplen.
    destruct (Nat.eqb_spec (Z.to_nat q) (Z.to_nat ply)) as [E|E]; destruct (Z.eqb_spec q ply) as [E'|E']; try lia; reflexivity. }
  split; [|split; [|split]].
  - (* wf *)
    split; [cbn [pv_moves]; rewrite Hlen2; reflexivity|].
    split; [cbn [pv_depth]; unfold dp; rewrite write1_length by exact Hplen; rewrite Hd; reflexivity|].
    intros q Hq. unfold MaxPlies in *. rewrite Hdep by lia.
    destruct (Z.eqb_spec q ply) as [Heq|Hne]; [subst q; lia|]. apply Hr. lia.
  - (* frame on cells *)
    intros k Hk. cbn [pv_moves]. rewrite Hcell.
    destruct ((Z.to_nat (i + 1) <=? k)%nat && (k <? Z.to_nat (i + 1) + Z.to_nat l)%nat) eqn:E.
    + apply andb_true_iff in E as [E1 E2]. apply Nat.leb_le in E1. apply Nat.ltb_lt in E2. lia.
    + destruct (Nat.eqb_spec k (Z.to_nat i)); [lia|reflexivity].
  - (* the new line *)
    unfold line. fold (depth_at {| pv_moves := mv2; pv_depth := dp |} ply). rewrite Hdep by lia. rewrite Z.eqb_refl.
    cbn [pv_moves]. fold i j. fold l.
    replace (Z.to_nat (l + 1)) with (S (Z.to_nat l)) by lia.
    rewrite slice_cons by lia. f_equal.
    + rewrite Hcell.
      destruct (Nat.leb_spec (Z.to_nat (i + 1)) (Z.to_nat i)); [lia|]. cbn [andb]. rewrite Nat.eqb_refl. reflexivity.
    + apply (nth_ext _ _ 0 0).
      * rewrite !slice_length by lia. reflexivity.
      * intros k Hk. rewrite slice_length in Hk by lia. rewrite !slice_nth by exact Hk. rewrite Hcell.
        destruct (Nat.leb_spec (Z.to_nat (i + 1)) (S (Z.to_nat i) + k)); [|lia].
        destruct (Nat.ltb_spec (S (Z.to_nat i) + k) (Z.to_nat (i + 1) + Z.to_nat l)); [|lia].
        cbn [andb]. f_equal. lia.
  - (* the other lines *)
    intros q Hq Hne. unfold line. fold (depth_at {| pv_moves := mv2; pv_depth := dp |} q). rewrite Hdep by lia.
    destruct (Z.eqb_spec q ply); [contradiction|]. cbn [pv_moves]. fold (depth_at b q).
    pose proof (Hr q ltac:(lia)) as Hdq.
    destruct (region_facts q ltac:(lia)) as (Hq0 & Hq1 & Hq2). unfold MaxPlies, PVSize in *.
    apply slice_ext; [lia|lia|].
    intros k Hk. rewrite Hcell.
    assert (Hout : Z.of_nat k < i \/ j <= Z.of_nat k).
    { destruct (Z_lt_ge_dec q ply) as [Hlt|Hge].
      - left. destruct (region_facts ply ltac:(lia)) as (_ & _ & Hreg). specialize (Hreg q ltac:(lia)).
        fold i in Hreg. unfold MaxPlies in Hreg. lia.
      - right. specialize (Hq2 ply ltac:(lia)). fold i in Hq2. lia. }
    destruct ((Z.to_nat (i + 1) <=? k)%nat && (k <? Z.to_nat (i + 1) + Z.to_nat l)%nat) eqn:E.
    + apply andb_true_iff in E as [E1 E2]. apply Nat.leb_le in E1. apply Nat.ltb_lt in E2. lia.
    + destruct (Nat.eqb_spec k (Z.to_nat i)); [lia|reflexivity].
Qed.

(* ------------------------------------------------------------------------------------------- *)
(* refinement of whole operation sequences to the functional reading *)

Definition abs_lines := Z -> list Z.

Fixpoint abs_run (f : abs_lines) (ops : list Z) : abs_lines :=
  match ops with
  | k :: ply :: m :: r =>
      abs_run (fun q => if q =? ply then (if k =? 0 then [] else m :: f (ply + 1)) else f q) r
  | _ => f
  end.

(* every setNull addresses a ply <= 63, every insert a ply <= 62 (alphaBeta inserts at ply <= 62:
   at ply >= MaxPlies-1 it hands over to quiescence before touching the buffer) *)
Fixpoint ops_ok (ops : list Z) : Prop :=
  match ops with
  | k :: ply :: m :: r => 0 <= ply /\ (if k =? 0 then ply <= 63 else ply <= 62) /\ ops_ok r
  | _ => True
  end.

Theorem run_ops_refines : forall ops b f, wf b -> ops_ok ops ->
  (forall q, 0 <= q <= 63 -> line b q = f q) ->
  exists b', run_ops b ops = Some b' /\ wf b' /\ forall q, 0 <= q <= 63 -> line b' q = abs_run f ops q.
Proof.
  fix IH 1. intros ops b f Hwf Hok Hf.
  destruct ops as [|k [|ply [|m r]]]; try solve [exists b; cbn; split; [reflexivity|split; assumption]].
  simpl in Hok. destruct Hok as (Hp0 & Hp & Hr).
  cbn [run_ops abs_run]. destruct (k =? 0) eqn:Ek.
  - destruct (set_null_spec b ply Hwf ltac:(lia)) as (b' & E & Hwf' & _ & Hl & Ho). rewrite E.
    apply IH; [exact Hwf'|exact Hr|]. intros q Hq. destruct (Z.eqb_spec q ply) as [->|Hne]; [exact Hl|].
    rewrite Ho by assumption. apply Hf. exact Hq.
  - destruct (insert_spec b ply m Hwf ltac:(lia)) as (b' & E & Hwf' & _ & Hl & Ho). rewrite E.
    apply IH; [exact Hwf'|exact Hr|]. intros q Hq. destruct (Z.eqb_spec q ply) as [->|Hne].
    + rewrite Hl. f_equal. apply Hf. lia.
    + rewrite Ho by assumption. apply Hf. exact Hq.
Qed.

Corollary run_ops_from_new : forall ops, ops_ok ops ->
  exists b', run_ops new_pv ops = Some b' /\ active b' = abs_run (fun _ => []) ops 0.
Proof.
  intros ops Hok.
  destruct (run_ops_refines ops new_pv (fun _ => []) wf_new Hok) as (b' & E & _ & H).
  - intros q Hq. unfold line, new_pv; cbn [pv_moves pv_depth].
    assert (E : nth (Z.to_nat q) (repeat 0 (Z.to_nat MaxPlies)) 0 = 0).
    { destruct (nth_in_or_default (Z.to_nat q) (repeat 0 (Z.to_nat MaxPlies)) 0) as [Hin|Hd]; [|exact Hd].
      apply repeat_spec in Hin. exact Hin. }
    rewrite E. reflexivity.
  - exists b'. split; [exact E|]. unfold active. apply H. lia.
Qed.

(* ------------------------------------------------------------------------------------------- *)
(* mate-score rendering: total on all int16, and on the engine's score range [-Inf, Inf] the number
   after "mate" is (Inf-|s|+1)/2 in 0..32 and the sign is the score's *)
Theorem score_string_range : forall s, - ScoreInf <= s <= ScoreInf ->
  match score_string s with
  | (2, sg, n) => ScoreInf - MaxPlies <= Z.abs s /\ n = (ScoreInf - Z.abs s + 1) / 2 /\ 0 <= n <= (MaxPlies + 1) / 2
                  /\ sg = (if s <? 0 then 1 else 0)
  | (1, _, v) => v = s /\ Z.abs s < ScoreInf - MaxPlies
  | _ => False
  end.
Proof.
  intros s Hs. unfold score_string, abs16, ScoreInf, ScoreInv, MaxPlies in *.
  destruct (s =? -11000) eqn:E0; [apply Z.eqb_eq in E0; lia|].
  destruct (s <? 0) eqn:Eneg.
  - apply Z.ltb_lt in Eneg. rewrite (wrap16_id (- s)) by lia.
    destruct (10000 - 64 <=? - s) eqn:E1.
    + apply Z.leb_le in E1. rewrite (wrap16_id (10000 - - s)) by lia.
      rewrite (wrap16_id (10000 - - s + 1)) by lia.
      rewrite Z.quot_div_nonneg by lia. rewrite Z.abs_neq by lia.
      split; [lia|]. split; [reflexivity|]. split; [|reflexivity].
      Ltac Zify.zify_post_hook ::= Z.to_euclidean_division_equations.
      lia.
    + apply Z.leb_gt in E1. rewrite Z.abs_neq by lia. lia.
  - apply Z.ltb_ge in Eneg.
    destruct (10000 - 64 <=? s) eqn:E1.
    + apply Z.leb_le in E1. rewrite (wrap16_id (10000 - s)) by lia.
      rewrite (wrap16_id (10000 - s + 1)) by lia.
      rewrite Z.quot_div_nonneg by lia. rewrite Z.abs_eq by lia.
      split; [lia|]. split; [reflexivity|]. split; [|reflexivity].
      lia.
    + apply Z.leb_gt in E1. rewrite Z.abs_eq by lia. lia.
Qed.

(* an example outside the engine's range, as left by O1 before commit d1717eb: -(Inv) = 11000 *)
Example score_string_out_of_range : score_string 11000 = (2, 0, -499).
Proof. vm_compute. reflexivity. Qed.

(* ------------------------------------------------------------------------------------------- *)
(* one step of the legality induction: P is any position type, play / legal_at its move relation *)
Section LegalStep.
  Variable P : Type.
  Variable play : P -> Z -> P.
  Variable legal_at : P -> Z -> Prop.

  Fixpoint legal_line (p : P) (l : list Z) : Prop :=
    match l with
    | [] => True
    | m :: r => legal_at p m /\ legal_line (play p m) r
    end.

  (* if m is legal in the node's position and the child's line is a legal line of the child's
     position, then after insert(ply, m) the node's line is a legal line of the node's position,
     and all other lines are untouched *)
  Lemma insert_keeps_lines_legal : forall b ply m p, wf b -> 0 <= ply <= 62 ->
    legal_at p m -> legal_line (play p m) (line b (ply + 1)) ->
    exists b', insert b ply m = Some b' /\ wf b' /\ legal_line p (line b' ply) /\
               forall q, 0 <= q <= 63 -> q <> ply -> line b' q = line b q.
  Proof.
    intros b ply m p Hwf Hp Hm Hl.
    destruct (insert_spec b ply m Hwf Hp) as (b' & E & Hwf' & _ & Hline & Ho).
    exists b'. split; [exact E|]. split; [exact Hwf'|].
    split; [rewrite Hline; cbn [legal_line]; split; assumption|exact Ho].
  Qed.
End LegalStep.
