package streams

import (
	"bytes"
	"fmt"
	"strings"

	"github.com/paulsonkoly/chess-3/board"
	. "github.com/paulsonkoly/chess-3/chess"
	"github.com/paulsonkoly/chess-3/move"
	"github.com/paulsonkoly/chess-3/search"
	"github.com/paulsonkoly/chess-3/uci"

	"verifharness/hx"
	"verifharness/posgen"
)

// c02uci: [mode] ++ board-in ++ [ntok; len_1; bytes_1 ...; len_2; ...] -> the six fields of the line
// the engine prints for `fen` after `position startpos|fen F moves tok_1 tok_2 ...` on a fresh
// in-process uci.Driver (mode 0 = startpos, 1 = fen F with F = FEN() of the given board).
// See coq/Model/SuccStreams.v run_c02uci and coq/Spec/SuccJudge.v judge_c02uci.
func init() {
	hx.Register(&hx.Stream{Name: "c02uci", Gen: genC02uci, Run: runC02uci})
}

type stubSearch struct{}

func (stubSearch) Go(*board.Board, ...search.Option) (Score, move.Move, move.Move) { return 0, 0, 0 }
func (stubSearch) Clear()                                                          {}
func (stubSearch) ResizeTT(int)                                                    {}

func uciTokens(a hx.Args, i int) []string {
	n := a.Int(i)
	i++
	var toks []string
	for k := 0; k < n; k++ {
		l := a.Int(i)
		i++
		toks = append(toks, string(a.Bytes(i, i+l)))
		i += l
	}
	return toks
}

func uciCommand(mode int, b *board.Board, toks []string) string {
	var sb strings.Builder
	if mode == 0 {
		sb.WriteString("position startpos")
	} else {
		sb.WriteString("position fen " + b.FEN())
	}
	if len(toks) > 0 {
		sb.WriteString(" moves " + strings.Join(toks, " "))
	}
	return sb.String()
}

func runC02uci(a hx.Args) string {
	mode := a.Int(0)
	b, i := a.Board(1)
	toks := uciTokens(a, i)
	var outb, errb bytes.Buffer
	d := uci.NewDriver(uci.WithInput(strings.NewReader(uciCommand(mode, b, toks)+"\nfen\n")),
		uci.WithOutput(&outb), uci.WithError(&errb), uci.WithSearch(stubSearch{}))
	d.Run()
	lines := strings.Split(strings.TrimSpace(outb.String()), "\n")
	return (&hx.Nums{}).FenFields(lines[len(lines)-1]).String()
}

func tokNums(n *hx.Nums, toks []string) *hx.Nums {
	n.Int(len(toks))
	for _, t := range toks {
		n.Int(len(t))
		n.Bytes([]byte(t))
	}
	return n
}

func uciCase(mode int, b *board.Board, toks []string, tags ...string) hx.Input {
	n := (&hx.Nums{}).Int(mode).BoardIn(b)
	tokNums(n, toks)
	return hx.Input{In: n.String(), Desc: uciCommand(mode, b, toks), Tags: tags, NonTrivial: len(toks) > 0}
}

// fenStable: `position fen FEN()` reproduces the board (FromFEN rejects clocks above 100 and the
// driver rejects some piece counts).
func fenStable(b *board.Board) bool {
	c, err := board.FromFEN(b.FEN())
	if err != nil || c.InvalidPieceCount() {
		return false
	}
	s, t := b.VerifSnapshot(), c.VerifSnapshot()
	return s.SquaresToPiece == t.SquaresToPiece && s.Pieces == t.Pieces && s.Colors == t.Colors && s.STM == t.STM &&
		s.EnPassant == t.EnPassant && s.Castles == t.Castles && s.FiftyCnt == t.FiftyCnt && s.FullMoves == t.FullMoves
}

// freshFrom returns the board the driver has after `position fen FEN()` (one hash in the history).
func freshFrom(b *board.Board) *board.Board {
	c, _ := board.FromFEN(b.FEN())
	return c
}

var malformed = []string{"e2e3q", "e7e8", "e7e8k", "e7e8p", "a1a1", "0000", "e2", "e2e", "e2e4e5", "e2e4qq", "E2E4", "e2-e4",
	"e9e4", "i2i4", "e2e4e2e4e2e4e2e4e2e4e2e4e2e4e2e4e2e4e2e4e2e4e2e4e2e4e2e4e2e4e2e4", "Ng1f3", "e2e4Q", "e2e4+", "h8h9", "a0a1", "`1a1"}

// alias: another spelling the engine's byte arithmetic decodes to the same square pair.
func alias(rng *hx.Rng, s string) string {
	bs := []byte(s)
	k := 2 * rng.Intn(2)
	switch rng.Intn(3) {
	case 0: // file + 8, rank - 1
		bs[k] += 8
		bs[k+1]--
	case 1: // rank + 32: (r + 32) * 8 wraps to r * 8
		bs[k+1] += 32
	default:
		bs[k+1] += 64
	}
	return string(bs)
}

func genC02uci(rng *hx.Rng, n int, tier string, emit func(hx.Input)) {
	cnt := 0
	out := func(c hx.Input) {
		emit(c)
		cnt++
	}
	start := board.StartPos()
	// fixed cases (kept in corpus/c02uci.in as well)
	out(uciCase(0, start, []string{"e2e3q"}, "fixed", "F1"))
	out(uciCase(0, start, []string{"e2e4", "e7e5", "e2e3q", "g1f3"}, "fixed"))
	out(uciCase(0, start, nil, "fixed", "empty"))
	for _, t := range malformed {
		out(uciCase(0, start, []string{"e2e4", t, "e7e5"}, "fixed", "malformed"))
		out(uciCase(0, start, []string{t}, "fixed", "malformed"))
	}
	{
		shuffle := []string{"g1f3", "g8f6", "f3g1", "f6g8"}
		var l []string
		for i := 0; i < 130; i++ {
			l = append(l, shuffle[i%4])
		}
		out(uciCase(0, start, l, "fixed", "F5"))
		if b, err := board.FromFEN("8/8/8/1k6/3p4/8/4P3/5B1K w - - 0 1"); err == nil {
			out(uciCase(1, b, []string{"e2e4"}, "fixed", "F2"))
			out(uciCase(1, b, []string{"e2e4", "d4e3"}, "fixed", "F2"))
		}
		if b, err := board.FromFEN("4k3/P7/8/8/8/8/8/4K3 w - - 0 1"); err == nil {
			for _, t := range []string{"a7a8", "a7a8k", "a7a8p", "a7a8q", "a7a8n", "a7a8Q"} {
				out(uciCase(1, b, []string{t, "e8e7"}, "fixed", "promotion-token"))
			}
		}
	}
	for cnt < n {
		posgen.Stream(rng, 30, func(p posgen.Pos) {
			if cnt >= n {
				return
			}
			mode := 1
			var root *board.Board
			if rng.Chance(0.25) {
				mode, root = 0, board.StartPos()
			} else {
				if !fenStable(p.B) {
					return
				}
				root = freshFrom(p.B)
			}
			// a random legal line
			b := board.VerifRestore(root.VerifSnapshot())
			var toks []string
			var tags []string
			plies := rng.Intn(24)
			if rng.Chance(0.1) {
				plies = 60 + rng.Intn(80)
			}
			bad := -1
			kind := rng.Intn(10)
			if kind >= 4 && plies > 0 {
				bad = rng.Intn(plies)
			}
			for i := 0; i < plies; i++ {
				legal := posgen.Legal(b)
				if len(legal) == 0 {
					break
				}
				m := legal[rng.Intn(len(legal))]
				if i == bad {
					switch kind {
					case 4: // a pseudo-legal move that is not legal, if there is one (the engine plays it)
						var ill []move.Move
						for _, q := range posgen.Pseudo(b) {
							isLegal := false
							for _, l := range legal {
								if l == q {
									isLegal = true
								}
							}
							if !isLegal {
								ill = append(ill, q)
							}
						}
						if len(ill) > 0 {
							toks = append(toks, ill[rng.Intn(len(ill))].String())
							tags = append(tags, "pseudo-legal-illegal-token")
						} else {
							toks = append(toks, move.Move(move.From(Square(rng.Intn(64)))|move.To(Square(rng.Intn(64)))).String())
							tags = append(tags, "random-square-pair-token")
						}
					case 5: // a well formed token for a random pair of squares
						t := move.Move(move.From(Square(rng.Intn(64))) | move.To(Square(rng.Intn(64)))).String()
						if rng.Chance(0.3) {
							t += string("qrbn"[rng.Intn(4)])
						}
						toks = append(toks, t)
						tags = append(tags, "random-square-pair-token")
					case 6: // a legal move with a wrong promotion suffix (F1 family)
						t := m.String()
						if len(t) == 5 {
							if rng.Bool() {
								t = t[:4]
							} else {
								t = t[:4] + string("kpx"[rng.Intn(3)])
							}
						} else {
							t += string("qrbnkp"[rng.Intn(6)])
						}
						toks = append(toks, t)
						tags = append(tags, "wrong-promotion-suffix")
					case 7: // malformed token
						toks = append(toks, malformed[rng.Intn(len(malformed))])
						tags = append(tags, "malformed-token")
					case 8: // one byte of a legal move changed
						bs := []byte(m.String())
						bs[rng.Intn(len(bs))] = byte(33 + rng.Intn(94))
						toks = append(toks, string(bs))
						tags = append(tags, "mutated-token")
					default: // a spelling that the engine's byte arithmetic maps to the same squares
						toks = append(toks, alias(rng, m.String()))
						tags = append(tags, "alias-token")
					}
					// the line goes on with moves that were legal had the bad token been skipped or played
					if !b.IsPseudoLegal(m) {
						break
					}
					b.MakeMove(m)
					continue
				}
				toks = append(toks, m.String())
				b.MakeMove(m)
			}
			if bad < 0 {
				tags = append(tags, "all-legal")
			}
			tags = append(tags, fmt.Sprintf("mode-%d", mode))
			if len(toks) >= 60 {
				tags = append(tags, "long-line")
			}
			out(uciCase(mode, root, toks, tags...))
		})
	}
}
