package streams

import (
	"fmt"
	"strings"

	"github.com/paulsonkoly/chess-3/board"
	. "github.com/paulsonkoly/chess-3/chess"
	"github.com/paulsonkoly/chess-3/heur"
	"github.com/paulsonkoly/chess-3/move"
	"github.com/paulsonkoly/chess-3/picker"
	"github.com/paulsonkoly/chess-3/stack"

	"verifharness/hx"
)

// Property C16, stream c16s: store sessions. ONE move.Store is shared by several pickers and by
// direct users of the store API; a script of legal API calls drives it:
//
//	op 0 Clear | 1 Push | 2 Pop | 3 m w: Alloc(m).Weight = w | 4 k p: slot k = picker.New(position p)
//	op 5 k: Next on slot k (Move() recorded when true) | 6 f n {m w}*n: probe of Frame()
//	        (f != 0: the n pairs are what the script itself allocated into that frame)
//
//	in : nPos {hm ipl nN {m w}*nN nQ {m w}*nQ}*nPos nOps {op}*nOps | per position: L fen[L] seed rounds
//	out: nInst {pos done nY {m w}*nY}*nInst, then per op 5: b m w, per op 6: len {m w}*len
//
// The scripts follow the usage patterns of the engine and of picker_test.go and mix them on one
// store: framed nodes (New, Push, Next.., Pop) nested like a search, an unframed root (Clear, New,
// Next.. without a frame) with framed children between two of its Next calls, pickers of a whole
// line created first and run nested afterwards, New on a used store followed by Clear, lower
// frames of plain allocations around picker frames, probes of Frame() in between.
func init() {
	hx.Register(&hx.Stream{Name: "c16s", Gen: genC16s, Run: runC16s})
}

type c16sPos struct {
	fen    string
	hm     move.Move
	seed   uint64
	rounds int
	b      *board.Board
	mr     *heur.MoveRanker
	st     *stack.Stack[heur.StackMove]
}

func (p *c16sPos) setup() {
	p.b = Must(board.FromFEN(p.fen))
	p.st = stack.New[heur.StackMove]()
	mr := heur.NewMoveRanker()
	c16Drive(&mr, p.b, p.st, p.seed, p.rounds)
	p.mr = &mr
}

type c16sInst struct {
	pos     int
	pck     picker.Picker
	done    bool
	yielded []move.Weighted
}

// c16sExec executes the ops on the implementation.
type c16sExec struct {
	ms    *move.Store
	pos   []*c16sPos
	slots map[int]*c16sInst
	insts []*c16sInst
	trace hx.Nums
}

func (x *c16sExec) clear()  { x.ms.Clear() }
func (x *c16sExec) push()   { x.ms.Push() }
func (x *c16sExec) pop()    { x.ms.Pop() }
func (x *c16sExec) alloc(m move.Move, w Score) { x.ms.Alloc(m).Weight = w }
func (x *c16sExec) newPicker(k, p int) {
	if p < 0 || p >= len(x.pos) {
		return
	}
	ps := x.pos[p]
	in := &c16sInst{pos: p}
	in.pck = picker.New(ps.b, ps.hm, x.ms, ps.mr, ps.st)
	x.slots[k] = in
	x.insts = append(x.insts, in)
}
func (x *c16sExec) next(k int) bool {
	in := x.slots[k]
	if in == nil {
		return false
	}
	if in.pck.Next() {
		w := *in.pck.Move()
		in.yielded = append(in.yielded, w)
		in.done = false
		x.trace.Int(1).U(hx.M2U(w.Move)).I(int64(w.Weight))
		return true
	}
	in.done = true
	x.trace.Int(0, 0, 0)
	return false
}
func (x *c16sExec) probe() {
	f := x.ms.Frame()
	x.trace.Int(len(f))
	for _, w := range f {
		x.trace.U(hx.M2U(w.Move)).I(int64(w.Weight))
	}
}
func (x *c16sExec) output() string {
	n := &hx.Nums{}
	n.Int(len(x.insts))
	for _, in := range x.insts {
		n.Int(in.pos).B(in.done).Int(len(in.yielded))
		for _, w := range in.yielded {
			n.U(hx.M2U(w.Move)).I(int64(w.Weight))
		}
	}
	if t := x.trace.String(); t != "" {
		return n.String() + " " + t
	}
	return n.String()
}

func runC16s(a hx.Args) string {
	p := 0
	next := func() int64 { v := a.I64(p); p++; return v }
	nPos := int(next())
	hms := make([]move.Move, nPos)
	for i := 0; i < nPos; i++ {
		hms[i] = hx.U2M(uint64(next()))
		next() // ipl
		nN := int(next())
		p += 2 * nN
		nQ := int(next())
		p += 2 * nQ
	}
	nOps := int(next())
	opStart := p
	// find the positions behind the ops
	for i := 0; i < nOps; i++ {
		switch a.I64(p) {
		case 0, 1, 2:
			p++
		case 3, 4:
			p += 3
		case 5:
			p += 2
		default:
			p += 3 + 2*int(a.I64(p+2))
		}
	}
	x := &c16sExec{ms: move.NewStore(), slots: map[int]*c16sInst{}}
	for i := 0; i < nPos; i++ {
		l := int(next())
		ps := &c16sPos{fen: string(a.Bytes(p, p+l)), hm: hms[i]}
		p += l
		ps.seed = a.U64(p)
		p++
		ps.rounds = int(next())
		ps.setup()
		x.pos = append(x.pos, ps)
	}
	p = opStart
	for i := 0; i < nOps; i++ {
		switch next() {
		case 0:
			x.clear()
		case 1:
			x.push()
		case 2:
			x.pop()
		case 3:
			m, w := next(), next()
			x.alloc(hx.U2M(uint64(m)), Score(w))
		case 4:
			k, ps := next(), next()
			x.newPicker(int(k), int(ps))
		case 5:
			x.next(int(next()))
		default:
			next()
			n := int(next())
			p += 2 * n
			x.probe()
		}
	}
	return x.output()
}

// c16sBuilder writes a script while executing it on the implementation (the loops of a node end
// when Next returns false), and keeps the trivial reference the probes are compared with: what the
// script itself allocated into each frame, as long as no picker has worked in that frame.
type c16sBuilder struct {
	x      *c16sExec
	ops    hx.Nums
	nOps   int
	desc   []string
	frames []c16sFrame // reference, frames[0] is the base frame
	slot   int
	budget int
	rng    *hx.Rng
	tags   map[string]bool
	depth  int
}

type c16sFrame struct {
	ws    []move.Weighted
	dirty bool
}

func (b *c16sBuilder) top() *c16sFrame { return &b.frames[len(b.frames)-1] }

func (b *c16sBuilder) clear() {
	b.ops.Int(0)
	b.nOps++
	b.desc = append(b.desc, "Clear")
	b.frames = []c16sFrame{{}}
	b.x.clear()
}
func (b *c16sBuilder) push() {
	b.ops.Int(1)
	b.nOps++
	b.desc = append(b.desc, "Push")
	b.frames = append(b.frames, c16sFrame{})
	b.x.push()
}
func (b *c16sBuilder) pop() {
	b.ops.Int(2)
	b.nOps++
	b.desc = append(b.desc, "Pop")
	if len(b.frames) > 1 {
		b.frames = b.frames[:len(b.frames)-1]
	} else {
		b.frames = []c16sFrame{{}}
	}
	b.x.pop()
}
func (b *c16sBuilder) alloc(m move.Move, w Score) {
	b.ops.Int(3).U(hx.M2U(m)).I(int64(w))
	b.nOps++
	b.desc = append(b.desc, fmt.Sprintf("Alloc(0x%04x).Weight=%d", uint16(m), w))
	t := b.top()
	t.ws = append(t.ws, move.Weighted{Move: m, Weight: w})
	b.x.alloc(m, w)
}
func (b *c16sBuilder) newPicker(p int) int {
	k := b.slot
	b.slot++
	b.ops.Int(4, k, p)
	b.nOps++
	b.desc = append(b.desc, fmt.Sprintf("pck%d=New(pos%d)", k, p))
	b.x.newPicker(k, p)
	return k
}
func (b *c16sBuilder) next(k int) bool {
	b.ops.Int(5, k)
	b.nOps++
	b.budget--
	b.top().dirty = true
	r := b.x.next(k)
	if r {
		b.desc = append(b.desc, fmt.Sprintf("pck%d.Next", k))
	} else {
		b.desc = append(b.desc, fmt.Sprintf("pck%d.Next=false", k))
	}
	return r
}
func (b *c16sBuilder) probe() {
	t := b.top()
	if t.dirty {
		b.ops.Int(6, 0, 0)
	} else {
		b.ops.Int(6, 1, len(t.ws))
		for _, w := range t.ws {
			b.ops.U(hx.M2U(w.Move)).I(int64(w.Weight))
		}
	}
	b.nOps++
	b.desc = append(b.desc, "len(Frame())")
	b.x.probe()
}

func (b *c16sBuilder) dummies() {
	for i := 1 + b.rng.Intn(4); i > 0; i-- {
		b.alloc(hx.U2M(uint64(b.rng.Intn(1<<15))), Score(b.rng.Range(-16384, 16384)))
	}
}

// node runs one picker the way a search node does: optional frame, Next loop, children between two
// Next calls, optional cut-off. chain are pickers created ahead for the children of this line.
func (b *c16sBuilder) node(k int, framed bool, chain []int) {
	b.depth++
	defer func() { b.depth-- }()
	if framed {
		b.push()
	}
	if b.rng.Chance(0.25) {
		b.probe()
	}
	first := true
	for b.next(k) {
		if len(chain) > 0 && first {
			// the next picker of the line, created ahead
			b.node(chain[0], true, chain[1:])
			chain = nil
		} else if b.depth < 3 && b.budget > 0 && b.rng.Chance(0.3/float64(b.depth)) {
			p := b.rng.Intn(len(b.x.pos))
			if b.rng.Chance(0.35) {
				// a frame of plain allocations between the two picker frames
				b.tags["lower-plain-frame"] = true
				b.push()
				b.dummies()
				b.node(b.newPicker(p), true, nil)
				b.probe()
				b.pop()
			} else {
				b.node(b.newPicker(p), true, nil)
			}
		}
		first = false
		if b.rng.Chance(0.012) {
			b.tags["cut-off"] = true
			break
		}
	}
	if b.rng.Chance(0.25) {
		b.probe()
	}
	if framed {
		b.pop()
	}
}

func c16sPool(rng *hx.Rng, roots []string) []*c16sPos {
	var pool []*c16sPos
	for n := 2 + rng.Intn(3); n > 0; n-- {
		var b *board.Board
		switch rng.Intn(6) {
		case 0:
			b = c16FewQuiet(rng, rng.Intn(3))
		case 1:
			b = Must(board.FromFEN(roots[rng.Intn(len(roots))]))
		}
		if b == nil {
			b, _ = c16Playout(rng, roots[rng.Intn(len(roots))], rng.Intn(50))
		}
		noisy, quiet := c16Generated(b)
		all := append(noisy, quiet...)
		var hm move.Move
		switch x := rng.Intn(10); {
		case x < 5 && len(all) > 0:
			hm = all[rng.Intn(len(all))]
		case x < 7:
			hm = hx.U2M(uint64(rng.Intn(1 << 15)))
		}
		ps := &c16sPos{fen: c16Fen(b), hm: hm, seed: rng.U64() >> 1}
		if rng.Bool() {
			ps.rounds = rng.Intn(30)
		}
		ps.setup()
		pool = append(pool, ps)
	}
	return pool
}

func genC16s(rng *hx.Rng, n int, tier string, emit func(hx.Input)) {
	roots := c16Roots()
	for cnt := 0; cnt < n; cnt++ {
		pool := c16sPool(rng, roots)
		b := &c16sBuilder{
			x:      &c16sExec{ms: move.NewStore(), pos: pool, slots: map[int]*c16sInst{}},
			frames: []c16sFrame{{}}, budget: 250, rng: rng, tags: map[string]bool{},
		}
		pick := func() int { return rng.Intn(len(pool)) }
		segment := func(mode int) {
			switch mode {
			case 0: // the engine's way: every node in its own frame
				b.tags["framed-nodes"] = true
				b.node(b.newPicker(pick()), true, nil)
			case 1: // picker_test.go's way for the root, the engine's way for the children
				b.tags["unframed-root+framed-children"] = true
				b.clear()
				b.node(b.newPicker(pick()), false, nil)
			case 2: // the pickers of a line are created first and run nested afterwards
				b.tags["created-ahead"] = true
				var line []int
				for i := 2 + rng.Intn(2); i > 0; i-- {
					line = append(line, b.newPicker(pick()))
				}
				framed := true
				if rng.Bool() {
					b.clear()
					framed = rng.Bool()
				}
				b.node(line[0], framed, line[1:])
			case 3: // New on a store that still holds earlier moves, Clear afterwards
				b.tags["new-then-clear"] = true
				if rng.Bool() {
					b.dummies()
				} else {
					b.node(b.newPicker(pick()), rng.Bool() || len(b.top().ws) > 0 || b.top().dirty, nil)
				}
				k := b.newPicker(pick())
				b.clear()
				b.node(k, rng.Bool(), nil)
			case 4: // plain store use: frames of allocations, pops, probes
				b.tags["plain-store-use"] = true
				b.clear()
				b.dummies()
				b.probe()
				b.push()
				b.dummies()
				if rng.Bool() {
					b.node(b.newPicker(pick()), true, nil)
				}
				b.probe()
				b.pop()
				b.probe()
				if rng.Bool() {
					b.pop() // popping without a frame empties the store
					b.probe()
				}
			}
		}
		panicked := false
		func() {
			defer func() {
				if r := recover(); r != nil {
					panicked = true
				}
			}()
			if rng.Chance(0.7) {
				b.clear()
			}
			for s := 1 + rng.Intn(3); s > 0 && b.budget > 0; s-- {
				mode := rng.Intn(5)
				// an unframed picker needs an empty top frame; the framed modes do not care
				segment(mode)
				if rng.Chance(0.3) {
					b.probe()
				}
			}
		}()
		in := &hx.Nums{}
		in.Int(len(pool))
		for _, ps := range pool {
			noisy, quiet := c16Generated(ps.b)
			in.U(hx.M2U(ps.hm)).B(ps.b.IsPseudoLegal(ps.hm)).Int(len(noisy))
			for _, m := range noisy {
				in.U(hx.M2U(m)).I(int64(ps.mr.RankNoisy(m, ps.b, ps.st)))
			}
			in.Int(len(quiet))
			for _, m := range quiet {
				in.U(hx.M2U(m)).I(int64(ps.mr.RankQuiet(m, ps.b, ps.st)))
			}
		}
		in.Int(b.nOps)
		line := in.String()
		if s := b.ops.String(); s != "" {
			line += " " + s
		}
		tail := &hx.Nums{}
		var fens []string
		for i, ps := range pool {
			c16FenNums(tail, ps.fen)
			tail.U(ps.seed).Int(ps.rounds)
			fens = append(fens, fmt.Sprintf("pos%d=%q hash=%s drive=(%d,%d)", i, ps.fen, c16MoveStr(ps.hm), ps.seed, ps.rounds))
		}
		line += " " + tail.String()
		var tags []string
		for t := range b.tags {
			tags = append(tags, t)
		}
		if panicked {
			tags = append(tags, "panic-while-generating")
		}
		desc := strings.Join(fens, "; ") + " script: " + strings.Join(b.desc, " ")
		if len(desc) > 4000 {
			desc = desc[:4000] + " ..."
		}
		emit(hx.Input{In: line, Desc: desc, Tags: tags, NonTrivial: len(b.x.insts) > 0})
	}
}
