package hx

import (
	"math/big"
	"strconv"
	"strings"
)

// FenFields appends the six fields of a FEN text as integers (see coq/Model/SuccStreams.v fen_view):
//
//	SQ16 stm castles ep half full
//
// SQ16 = sum over squares s of code(s) * 16^s with code = 0 (empty), k (white piece k = 1..6),
// 8 + k (black piece k); castles = the engine's 4-bit set (K = 1, Q = 2, k = 4, q = 8); ep = target
// square or 64 for "-". The parser is deliberately strict and independent of board.FromFEN (which
// rejects clocks above 100): any text that is not a well-formed FEN is reported as the single
// number -2.
func (n *Nums) FenFields(text string) *Nums {
	sq, rest, ok := ParseFenFields(text)
	if !ok {
		return n.Int(-2)
	}
	n.Big(sq)
	return n.Int(rest[0], rest[1], rest[2], rest[3], rest[4])
}

// ParseFenFields is the parser behind FenFields.
func ParseFenFields(text string) (*big.Int, [5]int, bool) {
	var rest [5]int
	f := strings.Fields(text)
	if len(f) != 6 {
		return nil, rest, false
	}
	ranks := strings.Split(f[0], "/")
	if len(ranks) != 8 {
		return nil, rest, false
	}
	var code [64]int
	for i, r := range ranks {
		rank := 7 - i
		file := 0
		for _, ch := range []byte(r) {
			if ch >= '1' && ch <= '8' {
				file += int(ch - '0')
				continue
			}
			k := strings.IndexByte(" PNBRQK  pnbrqk", ch)
			if k <= 0 || file > 7 {
				return nil, rest, false
			}
			code[rank*8+file] = k
			file++
		}
		if file != 8 {
			return nil, rest, false
		}
	}
	v := new(big.Int)
	for s := 63; s >= 0; s-- {
		v.Lsh(v, 4)
		v.Or(v, big.NewInt(int64(code[s])))
	}
	switch f[1] {
	case "w":
		rest[0] = 0
	case "b":
		rest[0] = 1
	default:
		return nil, rest, false
	}
	if f[2] != "-" {
		for _, ch := range []byte(f[2]) {
			k := strings.IndexByte("KQkq", ch)
			if k < 0 || rest[1]&(1<<k) != 0 {
				return nil, rest, false
			}
			rest[1] |= 1 << k
		}
		if rest[1] == 0 {
			return nil, rest, false
		}
	}
	if f[3] == "-" {
		rest[2] = 64
	} else {
		if len(f[3]) != 2 || f[3][0] < 'a' || f[3][0] > 'h' || f[3][1] < '1' || f[3][1] > '8' {
			return nil, rest, false
		}
		rest[2] = int(f[3][0]-'a') + 8*int(f[3][1]-'1')
	}
	var err error
	if rest[3], err = strconv.Atoi(f[4]); err != nil {
		return nil, rest, false
	}
	if rest[4], err = strconv.Atoi(f[5]); err != nil {
		return nil, rest, false
	}
	return v, rest, true
}
