package main

// skel.go - translator of the control skeleton of search/search.go (Layer A of C06/C07/C08).
//
// It parses search/search.go and search/state.go (gen runs with cwd = repo root) with go/parser and
// emits coq/Gen/SearchSkel.v: one `stmt` tree (Model/Skel.v) per function reachable from Search.Go.
//
// What is kept: every call or assignment that touches the board `b`, s.tt, s.ranker, s.ms,
// s.hstack, s.pv, s.aborted, s.gen, the node counter and opts.PonderHit becomes an effect atom;
// `if s.abort(opts)` becomes IfAborted; calls of functions of the package become Call; control
// flow (if/for/range/switch/select/break/continue/goto/return/defer) is kept with conditions
// abstracted to nondeterministic choice; assignments to the identifiers that occur in
// Make/Undo/PvInsert atoms (and to `ply`) become Havoc.
// What is abstracted (trusted, see the tables below): calls listed in pureBoard/pureTT/... are
// reads; methods called on, and writes through, local values obtained from those reads (move-store
// slices, *move.Weighted, table entries are read-only) do not change the tracked state.
// Everything else that mentions a tracked object FAILS CLOSED: gen exits non-zero with the position.

import (
	"bytes"
	"fmt"
	"go/ast"
	"go/parser"
	"go/printer"
	"go/token"
	"os"
	"regexp"
	"sort"
	"strconv"
	"strings"
)

func init() { generators = append(generators, genSkel) }

// ---- tables of recognised calls (the trusted abstraction) ----------------------------------------

// methods of *board.Board that only read the position
var pureBoard = set("InCheck", "Threefold", "Hash", "CaptureSq", "IsCheckmate", "IsStalemate", "IsPseudoLegal")

// packages whose functions do not reach the tracked state (I/O, clock, formatting, constants)
var purePkgs = set("fmt", "strings", "time", "os", "params", "heur", "move", "transp", "chess")

// package functions that read the board / evaluate
var purePkgFuncs = set("eval.Eval")

// builtins, conversions and dot-imported pure helpers
var pureIdents = set("len", "cap", "min", "max", "int", "int8", "int16", "int32", "int64", "uint", "uint8",
	"uint16", "uint32", "uint64", "byte", "bool", "string", "Score", "Depth", "Clamp", "Abs", "Square", "Piece", "Color", "Node")

// functions whose source text is pinned (their model is written by hand in Model/Skel.v)
var pinned = set("abort", "incrementNodes")

func set(xs ...string) map[string]bool {
	m := map[string]bool{}
	for _, x := range xs {
		m[x] = true
	}
	return m
}

// ---- output tree ---------------------------------------------------------------------------------

type node struct {
	op   string // "leaf", "block", "If", "IfAborted", "Loop", "CatchCont", "CatchBreak"
	text string
	kids []*node
}

func leaf(format string, a ...any) *node { return &node{op: "leaf", text: fmt.Sprintf(format, a...)} }
func atom(format string, a ...any) *node { return leaf("Atom ("+format+")", a...) }
func q(s string) string                  { return `"` + strings.ReplaceAll(s, `"`, `""`) + `"` }

var skip = &node{op: "leaf", text: "Skip"}

func isSkip(n *node) bool {
	switch n.op {
	case "leaf":
		return n.text == "Skip"
	case "block":
		return len(n.kids) == 0
	}
	return false
}

// block flattens nested blocks and drops Skip (Seq Skip s == s for every observation)
func block(ns ...*node) *node {
	var out []*node
	for _, n := range ns {
		if n == nil || isSkip(n) {
			continue
		}
		if n.op == "block" {
			out = append(out, n.kids...)
		} else {
			out = append(out, n)
		}
	}
	if len(out) == 1 {
		return out[0]
	}
	return &node{op: "block", kids: out}
}

// choice: If (Skip) (Skip) is Skip
func choice(a, b *node) *node {
	if isSkip(a) && isSkip(b) {
		return skip
	}
	return &node{op: "If", kids: []*node{a, b}}
}

func (n *node) print(sb *strings.Builder, ind string) {
	switch n.op {
	case "leaf":
		sb.WriteString(n.text)
	case "block":
		if len(n.kids) == 0 {
			sb.WriteString("Skip")
			return
		}
		sb.WriteString("block [\n")
		for i, k := range n.kids {
			sb.WriteString(ind + "  ")
			k.print(sb, ind+"  ")
			if i+1 < len(n.kids) {
				sb.WriteString(";")
			}
			sb.WriteString("\n")
		}
		sb.WriteString(ind + "]")
	default:
		sb.WriteString(n.op)
		for _, k := range n.kids {
			sb.WriteString("\n" + ind + "  (")
			k.print(sb, ind+"   ")
			sb.WriteString(")")
		}
	}
}

// ---- translation context ---------------------------------------------------------------------------

type skelGen struct {
	fset  *token.FileSet
	funcs map[string]*ast.FuncDecl // functions and methods of package search by name
	done  map[string]*node
	order []string
	queue []string
}

type fctx struct {
	g         *skelGen
	name      string
	fd        *ast.FuncDecl
	roots     map[string]string // identifier -> tracked object path ("b", "s", "opts", "s.tt", ...)
	handles   map[string]bool   // picker handles
	ttEntry   map[string]bool   // values read from the table
	relevant  map[string]bool   // identifiers whose assignments are kept as Havoc
	plyName   string            // the parameter named ply ("" if none)
	labels    map[string]token.Pos
	imports   map[string]bool
	nameObjs  map[string]map[*ast.Object]bool // local objects per identifier name (shadowing detection)
	plyObj    *ast.Object
	addrTaken map[*ast.Object]bool // locals whose address is taken: never used in recognised conditions
}

func (c *fctx) fail(n ast.Node, format string, a ...any) {
	pos := c.g.fset.Position(n.Pos())
	skelDie(fmt.Sprintf("%s: in %s: %s; source: %s", pos, c.name, fmt.Sprintf(format, a...), c.src(n)))
}

func (c *fctx) src(n ast.Node) string {
	var buf bytes.Buffer
	printer.Fprint(&buf, c.g.fset, n)
	s := buf.String()
	if i := strings.IndexByte(s, '\n'); i >= 0 {
		s = s[:i] + " ..."
	}
	return s
}

func (c *fctx) text(n ast.Node) string {
	var buf bytes.Buffer
	printer.Fprint(&buf, c.g.fset, n)
	return buf.String()
}

// path resolves an expression to a tracked object path: "b", "s", "opts", "s.tt", "s.ms",
// "s.hstack", "s.pv", "s.ranker", "opts.Counters", or "" when it is not a tracked object.
func (c *fctx) path(e ast.Expr) string {
	switch x := e.(type) {
	case *ast.Ident:
		return c.roots[x.Name]
	case *ast.ParenExpr:
		return c.path(x.X)
	case *ast.UnaryExpr:
		if x.Op == token.AND {
			return c.path(x.X)
		}
	case *ast.StarExpr:
		return c.path(x.X)
	case *ast.SelectorExpr:
		p := c.path(x.X)
		if p == "" {
			return ""
		}
		full := p + "." + x.Sel.Name
		switch full {
		case "s.tt", "s.ms", "s.hstack", "s.pv", "s.ranker", "opts.Counters":
			return full
		}
	}
	return ""
}

// rootIdent returns the identifier at the root of a selector/index/star chain
func rootIdent(e ast.Expr) *ast.Ident {
	for {
		switch x := e.(type) {
		case *ast.Ident:
			return x
		case *ast.SelectorExpr:
			e = x.X
		case *ast.IndexExpr:
			e = x.X
		case *ast.SliceExpr:
			e = x.X
		case *ast.StarExpr:
			e = x.X
		case *ast.ParenExpr:
			e = x.X
		default:
			return nil
		}
	}
}

// movePath splits `m`, `m.Move`, `pseudo.Move` into root identifier and field path
func (c *fctx) movePath(e ast.Expr) (string, string) {
	var fields []string
	cur := e
	for {
		switch x := cur.(type) {
		case *ast.Ident:
			if c.roots[x.Name] != "" || c.handles[x.Name] {
				c.fail(e, "move argument rooted at a tracked object")
			}
			for i, j := 0, len(fields)-1; i < j; i, j = i+1, j-1 {
				fields[i], fields[j] = fields[j], fields[i]
			}
			return c.key(x), strings.Join(fields, ".")
		case *ast.SelectorExpr:
			fields = append(fields, x.Sel.Name)
			cur = x.X
		default:
			c.fail(e, "move argument of MakeMove/UndoMove/pv.insert must be an identifier with field selectors")
		}
	}
}

func (c *fctx) tokenIdent(e ast.Expr) string {
	id, ok := e.(*ast.Ident)
	if !ok || id.Name == "_" {
		c.fail(e, "undo token must be a plain identifier")
	}
	return c.key(id)
}

// ---- expressions -------------------------------------------------------------------------------------

// effects returns the effect atoms of evaluating e, in evaluation order. Tracked objects may not
// occur as plain values (they could escape); they may occur as receivers, in field reads and as
// arguments of recognised calls.
func (c *fctx) effects(e ast.Expr) *node {
	switch x := e.(type) {
	case nil:
		return skip
	case *ast.BasicLit:
		return skip
	case *ast.Ident:
		if c.roots[x.Name] != "" || c.handles[x.Name] {
			c.fail(e, "tracked object %q used as a value (it could escape the skeleton)", x.Name)
		}
		return skip
	case *ast.ParenExpr:
		return c.effects(x.X)
	case *ast.SelectorExpr:
		return c.selectorRead(x)
	case *ast.IndexExpr:
		return block(c.prefix(x.X), c.effects(x.Index))
	case *ast.SliceExpr:
		if id := rootIdent(x.X); id != nil && (c.roots[id.Name] != "" || c.handles[id.Name] || c.ttEntry[id.Name]) {
			c.fail(e, "slice of (a part of) a tracked object: it would alias tracked state")
		}
		return block(c.prefix(x.X), c.effects(x.Low), c.effects(x.High), c.effects(x.Max))
	case *ast.StarExpr:
		return c.effects(x.X)
	case *ast.UnaryExpr:
		if x.Op == token.AND {
			if id := rootIdent(x.X); id != nil && (c.roots[id.Name] != "" || c.handles[id.Name] || c.ttEntry[id.Name]) {
				c.fail(e, "address of (a part of) a tracked object taken outside a recognised call")
			}
		}
		return c.effects(x.X)
	case *ast.BinaryExpr:
		if x.Op == token.EQL || x.Op == token.NEQ {
			// comparison of a tracked pointer with nil
			if id, ok := x.Y.(*ast.Ident); ok && id.Name == "nil" && c.path(x.X) != "" {
				return skip
			}
			if id, ok := x.X.(*ast.Ident); ok && id.Name == "nil" && c.path(x.Y) != "" {
				return skip
			}
		}
		l := c.effects(x.X)
		r := c.effects(x.Y)
		if x.Op == token.LAND || x.Op == token.LOR {
			return block(l, choice(r, skip)) // short circuit
		}
		return block(l, r)
	case *ast.KeyValueExpr:
		return c.effects(x.Value)
	case *ast.CompositeLit:
		var ns []*node
		for _, el := range x.Elts {
			ns = append(ns, c.effects(el))
		}
		return block(ns...)
	case *ast.TypeAssertExpr:
		return c.effects(x.X)
	case *ast.CallExpr:
		return c.call(x, false)
	}
	c.fail(e, "unsupported expression %T", e)
	return nil
}

// prefix: the operand of a selector / index; a tracked object is allowed here (field read)
func (c *fctx) prefix(e ast.Expr) *node {
	if c.path(e) != "" {
		return skip
	}
	if id, ok := e.(*ast.Ident); ok && c.handles[id.Name] {
		c.fail(e, "field access on a picker handle")
	}
	return c.effects(e)
}

func (c *fctx) selectorRead(x *ast.SelectorExpr) *node {
	if id, ok := x.X.(*ast.Ident); ok && c.imports[id.Name] && c.roots[id.Name] == "" {
		return skip // package-level constant or variable (params.X, transp.Exact, eval.Coefficients)
	}
	p := c.path(x.X)
	if p == "" {
		return c.prefix(x.X)
	}
	full := p + "." + x.Sel.Name
	if c.path(x) != "" {
		c.fail(x, "tracked object %s used as a value (it could escape the skeleton)", full)
	}
	if full == "s.aborted" {
		c.fail(x, "s.aborted read outside abort(); only the pattern `if s.abort(opts)` is recognised")
	}
	return skip // field read: b.FiftyCnt, s.gen, opts.Depth, opts.Counters.Nodes, ...
}

// call translates a call expression. stmtLevel is true when the call is a statement of its own.
func (c *fctx) call(x *ast.CallExpr, stmtLevel bool) *node {
	args := func(from int) *node {
		var ns []*node
		for _, a := range x.Args[from:] {
			ns = append(ns, c.effects(a))
		}
		return block(ns...)
	}
	switch f := x.Fun.(type) {
	case *ast.Ident:
		if c.roots[f.Name] != "" || c.handles[f.Name] {
			c.fail(x, "call of a tracked object")
		}
		if pureIdents[f.Name] {
			return args(0)
		}
		if _, ok := c.g.funcs[f.Name]; ok {
			return c.localCall(x, f.Name, nil)
		}
		if c.name == "Go" && f.Name == "opt" && len(x.Args) == 1 && c.text(x.Args[0]) == "&options" {
			// functional options: configuration of the request before the search starts. The
			// theorems quantify over every configuration (budget, counters, ponder, ...).
			return skip
		}
		c.fail(x, "call of unknown function %q", f.Name)
	case *ast.ArrayType, *ast.MapType, *ast.StarExpr:
		return args(0) // conversion
	case *ast.ParenExpr:
		c.fail(x, "call through a parenthesised expression")
	case *ast.FuncLit:
		c.fail(x, "function literal")
	case *ast.SelectorExpr:
		// package function
		if id, ok := f.X.(*ast.Ident); ok && c.imports[id.Name] && c.roots[id.Name] == "" {
			return c.pkgCall(x, id.Name, f.Sel.Name)
		}
		if id, ok := f.X.(*ast.Ident); ok && c.handles[id.Name] {
			switch f.Sel.Name {
			case "Next":
				return block(args(0), atom("MsAlloc"))
			case "Move", "YieldedMoves":
				return args(0)
			}
			c.fail(x, "unknown picker method %s", f.Sel.Name)
		}
		p := c.path(f.X)
		if p == "" {
			// method of a local value (m.From(), transpE.Depth(), sb.WriteString ...): a read
			return block(c.effects(f.X), args(0))
		}
		return c.trackedCall(x, p, f.Sel.Name)
	}
	c.fail(x, "unsupported call form %T", x.Fun)
	return nil
}

func (c *fctx) pkgCall(x *ast.CallExpr, pkg, fn string) *node {
	full := pkg + "." + fn
	isMs := func(e ast.Expr) bool { return c.path(e) == "s.ms" }
	isB := func(e ast.Expr) bool { return c.path(e) == "b" }
	switch full {
	case "movegen.GenNoisy", "movegen.GenNotNoisy":
		if len(x.Args) != 2 || !isMs(x.Args[0]) || !isB(x.Args[1]) {
			c.fail(x, "%s expects (s.ms, b)", full)
		}
		return atom("MsAlloc")
	case "eval.Eval":
		if len(x.Args) != 2 || !isB(x.Args[0]) {
			c.fail(x, "eval.Eval expects (b, coefficients)")
		}
		return c.effects(x.Args[1])
	case "picker.New":
		c.fail(x, "picker.New is only recognised as `pck := picker.New(b, hashMove, s.ms, &s.ranker, s.hstack)`")
	}
	if !purePkgs[pkg] && !purePkgFuncs[full] {
		c.fail(x, "call into package %s is not in the table of recognised calls", pkg)
	}
	var ns []*node
	for _, a := range x.Args {
		ns = append(ns, c.effects(a)) // fails if a tracked object is passed
	}
	return block(ns...)
}

func (c *fctx) trackedCall(x *ast.CallExpr, p, m string) *node {
	args := func(from int) *node {
		var ns []*node
		for _, a := range x.Args[from:] {
			ns = append(ns, c.effects(a))
		}
		return block(ns...)
	}
	need := func(n int) {
		if len(x.Args) != n {
			c.fail(x, "%s.%s: expected %d arguments", p, m, n)
		}
	}
	switch p + "." + m {
	case "b.MakeMove", "b.MakeNullMove":
		c.fail(x, "%s.%s is only recognised as `r := b.%s(...)`", p, m, m)
	case "b.UndoMove":
		need(2)
		r, fp := c.movePath(x.Args[0])
		return atom("Undo %s %s %s", q(r), q(fp), q(c.tokenIdent(x.Args[1])))
	case "b.UndoNullMove":
		need(1)
		return atom("UndoNull %s", q(c.tokenIdent(x.Args[0])))
	case "s.tt.LookUp":
		return block(args(0), atom("TTLookup"))
	case "s.tt.Insert":
		tag := "?"
		if len(x.Args) > 0 {
			tag = c.text(x.Args[len(x.Args)-1])
			if i := strings.LastIndexByte(tag, '.'); i >= 0 {
				tag = tag[i+1:]
			}
		}
		return block(args(0), atom("TTInsert %s", q(c.name+"/"+tag)))
	case "s.tt.HashFull":
		return args(0)
	case "s.ranker.FailHigh":
		// arguments: d, b, yielded moves, s.hstack
		var ns []*node
		for _, a := range x.Args {
			if c.path(a) == "b" || c.path(a) == "s.hstack" {
				continue
			}
			ns = append(ns, c.effects(a))
		}
		return block(block(ns...), atom("HistUpdate %s", q(c.name+"/"+m)))
	case "s.ranker.RankNoisy", "s.ranker.RankQuiet":
		var ns []*node
		for _, a := range x.Args {
			if c.path(a) == "b" || c.path(a) == "s.hstack" {
				continue
			}
			ns = append(ns, c.effects(a))
		}
		return block(ns...)
	case "s.ms.Push":
		need(0)
		return atom("MsPush")
	case "s.ms.Pop":
		need(0)
		return atom("MsPop")
	case "s.ms.Clear":
		need(0)
		return atom("MsClear")
	case "s.ms.Alloc":
		return block(args(0), atom("MsAlloc"))
	case "s.ms.Frame":
		need(0)
		return skip
	case "s.hstack.Push":
		return block(args(0), atom("HPush"))
	case "s.hstack.Pop":
		need(0)
		return atom("HPop")
	case "s.hstack.Reset":
		need(0)
		return atom("HReset")
	case "s.hstack.Top":
		return args(0)
	case "s.pv.setNull":
		need(1)
		c.needPly(x.Args[0])
		return atom("PvSetNull")
	case "s.pv.insert":
		need(2)
		c.needPly(x.Args[0])
		r, fp := c.movePath(x.Args[1])
		return atom("PvInsert %s %s", q(r), q(fp))
	case "s.pv.active":
		need(0)
		return skip
	case "s.abort":
		c.fail(x, "s.abort(opts) is only recognised as the whole condition of an if statement")
	case "s.incrementNodes":
		need(1)
		if c.path(x.Args[0]) != "opts" {
			c.fail(x, "incrementNodes expects opts")
		}
		c.g.need("incrementNodes", x, c)
		return atom("IncNodes")
	}
	if p == "b" && pureBoard[m] {
		return args(0)
	}
	if p == "s" || p == "opts" {
		if _, ok := c.g.funcs[m]; ok {
			return c.localCall(x, m, x.Fun.(*ast.SelectorExpr).X)
		}
	}
	c.fail(x, "unrecognised call on tracked object: %s.%s", p, m)
	return nil
}

func (c *fctx) needPly(e ast.Expr) {
	id, ok := e.(*ast.Ident)
	if !ok || c.plyName == "" || id.Name != c.plyName || id.Obj != c.plyObj {
		c.fail(e, "PV region argument must be the parameter `ply`")
	}
}

// localCall: a call of a function or method of package search -> Call f plyarg
func (c *fctx) localCall(x *ast.CallExpr, name string, recv ast.Expr) *node {
	if pinned[name] {
		c.fail(x, "%s may only be called through its recognised pattern", name)
	}
	fd := c.g.funcs[name]
	c.g.need(name, x, c)
	var ns []*node
	plyarg := "PlyKeep"
	i := 0
	for _, fl := range fd.Type.Params.List {
		names := fl.Names
		if len(names) == 0 {
			names = []*ast.Ident{{Name: "_"}}
		}
		for _, pn := range names {
			if i >= len(x.Args) {
				c.fail(x, "argument count")
			}
			a := x.Args[i]
			i++
			if pn.Name == "ply" {
				plyarg = c.plyArg(a)
				continue
			}
			if c.path(a) != "" {
				continue // a tracked object handed to a function of the package that is itself translated
			}
			ns = append(ns, c.effects(a))
		}
	}
	if i != len(x.Args) {
		c.fail(x, "variadic or mismatching call of a local function")
	}
	return block(block(ns...), leaf("Call %s %s", q(name), plyarg))
}

func (c *fctx) plyArg(a ast.Expr) string {
	switch x := a.(type) {
	case *ast.Ident:
		if c.plyName != "" && x.Name == c.plyName && x.Obj == c.plyObj {
			return "(PlyRel 0)"
		}
	case *ast.BasicLit:
		if x.Kind == token.INT {
			if n, err := strconv.Atoi(x.Value); err == nil && n >= 0 && n < 1000 {
				return fmt.Sprintf("(PlyAbs %d)", n)
			}
		}
	case *ast.BinaryExpr:
		if id, ok := x.X.(*ast.Ident); ok && c.plyName != "" && id.Name == c.plyName && id.Obj == c.plyObj && x.Op == token.ADD {
			if l, ok := x.Y.(*ast.BasicLit); ok && l.Kind == token.INT {
				if n, err := strconv.Atoi(l.Value); err == nil && n >= 0 && n < 1000 {
					return fmt.Sprintf("(PlyRel %d)", n)
				}
			}
		}
	}
	c.fail(a, "ply argument must be `ply`, `ply+k` or an integer literal")
	return ""
}

// ---- statements ----------------------------------------------------------------------------------------

func (c *fctx) havoc(id *ast.Ident) *node {
	name := id.Name
	if name == "_" {
		return skip
	}
	if c.roots[name] != "" || c.handles[name] {
		// an alias or a tracked parameter is re-bound: the resolution of paths would be wrong
		skelDie(fmt.Sprintf("%s: in %s: identifier %q bound to a tracked object is assigned", c.g.fset.Position(id.Pos()), c.name, name))
	}
	delete(c.ttEntry, name)
	if k := c.key(id); c.relevant[k] {
		return atom("Havoc %s", q(k))
	}
	return skip
}

func (c *fctx) stmts(l []ast.Stmt) *node {
	var ns []*node
	for _, s := range l {
		ns = append(ns, c.stmt(s))
	}
	return block(ns...)
}

func (c *fctx) stmt(s ast.Stmt) *node {
	switch x := s.(type) {
	case nil:
		return skip
	case *ast.EmptyStmt:
		return skip
	case *ast.BlockStmt:
		return c.stmts(x.List)
	case *ast.ExprStmt:
		if call, ok := x.X.(*ast.CallExpr); ok {
			return c.call(call, true)
		}
		return c.effects(x.X)
	case *ast.AssignStmt:
		return c.assign(x)
	case *ast.IncDecStmt:
		return c.write(x.X, x, true)
	case *ast.DeclStmt:
		gd := x.Decl.(*ast.GenDecl)
		if gd.Tok != token.VAR {
			return skip
		}
		var ns []*node
		for _, sp := range gd.Specs {
			vs := sp.(*ast.ValueSpec)
			for _, v := range vs.Values {
				ns = append(ns, c.effects(v))
			}
			for _, n := range vs.Names {
				ns = append(ns, c.havoc(n))
			}
		}
		return block(ns...)
	case *ast.IfStmt:
		init := c.stmt(x.Init)
		if call, ok := x.Cond.(*ast.CallExpr); ok && c.isAbortCall(call) {
			return block(init, &node{op: "IfAborted", kids: []*node{c.stmt(x.Body), c.stmt(x.Else)}})
		}
		if text, vars, neg, ok := c.condOf(x.Cond); ok {
			a, b := c.stmt(x.Body), c.stmt(x.Else)
			if isSkip(a) && isSkip(b) {
				return init
			}
			return block(init, &node{op: fmt.Sprintf("IfC %s %s %v", q(text), coqStrings(vars), neg), kids: []*node{a, b}})
		}
		cond := c.effects(x.Cond)
		return block(init, cond, choice(c.stmt(x.Body), c.stmt(x.Else)))
	case *ast.ForStmt:
		init := c.stmt(x.Init)
		var test *node = skip
		if x.Cond != nil {
			test = block(c.effects(x.Cond), choice(leaf("Break"), skip))
		}
		body := c.stmt(x.Body)
		post := c.stmt(x.Post)
		return block(init, c.loop(block(test, catch("CatchCont", body), post), isSkip(body) && isSkip(post) && x.Cond != nil && isSkip(c.effects(x.Cond))))
	case *ast.RangeStmt:
		over := c.effects(x.X)
		var hs []*node
		for _, e := range []ast.Expr{x.Key, x.Value} {
			if e == nil {
				continue
			}
			id, ok := e.(*ast.Ident)
			if !ok {
				c.fail(e, "range variable must be an identifier")
			}
			hs = append(hs, c.havoc(id))
		}
		body := c.stmt(x.Body)
		return block(over, c.loop(block(choice(leaf("Break"), skip), block(hs...), catch("CatchCont", body)), isSkip(body) && isSkip(block(hs...))))
	case *ast.SwitchStmt:
		init := c.stmt(x.Init)
		tag := c.effects(x.Tag)
		return block(init, tag, c.clauses(x.Body.List, func(cl ast.Stmt) ([]ast.Stmt, bool, *node) {
			cc := cl.(*ast.CaseClause)
			for _, e := range cc.List {
				if !isSkip(c.effects(e)) {
					c.fail(e, "case expression with effects")
				}
			}
			return cc.Body, cc.List == nil, skip
		}))
	case *ast.SelectStmt:
		return c.clauses(x.Body.List, func(cl ast.Stmt) ([]ast.Stmt, bool, *node) {
			cc := cl.(*ast.CommClause)
			return cc.Body, cc.Comm == nil, c.stmt(cc.Comm)
		})
	case *ast.LabeledStmt:
		return block(leaf("Label %s", q(x.Label.Name)), c.stmt(x.Stmt))
	case *ast.BranchStmt:
		switch x.Tok {
		case token.BREAK, token.CONTINUE:
			if x.Label != nil {
				c.fail(x, "labelled break/continue")
			}
			if x.Tok == token.BREAK {
				return leaf("Break")
			}
			return leaf("Continue")
		case token.GOTO:
			pos, ok := c.labels[x.Label.Name]
			if !ok || pos <= x.Pos() {
				c.fail(x, "only forward goto is supported")
			}
			return leaf("Goto %s", q(x.Label.Name))
		}
		c.fail(x, "unsupported branch statement %s", x.Tok)
	case *ast.ReturnStmt:
		var ns []*node
		for _, r := range x.Results {
			ns = append(ns, c.effects(r))
		}
		return block(block(ns...), leaf("Return"))
	case *ast.DeferStmt:
		var n *node
		if fl, ok := x.Call.Fun.(*ast.FuncLit); ok && len(x.Call.Args) == 0 && len(fl.Body.List) == 1 {
			n = c.stmt(fl.Body.List[0])
		} else {
			n = c.call(x.Call, true)
		}
		if n.op != "leaf" || !strings.HasPrefix(n.text, "Atom (") {
			c.fail(x, "deferred call must be a single effect atom")
		}
		return leaf("Defer (%s)", strings.TrimSuffix(strings.TrimPrefix(n.text, "Atom ("), ")"))
	}
	c.fail(s, "unsupported statement %T", s)
	return nil
}

func catch(op string, n *node) *node {
	if isSkip(n) {
		return skip
	}
	return &node{op: op, kids: []*node{n}}
}

// loop: a loop all of whose parts are effect free does nothing observable (it may not terminate,
// which the partial-correctness statements do not distinguish from stopping there)
func (c *fctx) loop(body *node, effectFree bool) *node {
	if effectFree {
		return skip
	}
	return &node{op: "Loop", kids: []*node{body}}
}

// clauses: switch / select -> CatchBreak (choice of the clause bodies [or nothing])
func (c *fctx) clauses(list []ast.Stmt, get func(ast.Stmt) ([]ast.Stmt, bool, *node)) *node {
	var alts []*node
	hasDefault := false
	for _, cl := range list {
		body, isDefault, pre := get(cl)
		for _, s := range body {
			if b, ok := s.(*ast.BranchStmt); ok && b.Tok == token.FALLTHROUGH {
				c.fail(s, "fallthrough")
			}
		}
		hasDefault = hasDefault || isDefault
		alts = append(alts, block(pre, c.stmts(body)))
	}
	if !hasDefault {
		alts = append(alts, skip)
	}
	var n *node = alts[len(alts)-1]
	for i := len(alts) - 2; i >= 0; i-- {
		n = choice(alts[i], n)
	}
	return catch("CatchBreak", n)
}

func (c *fctx) isAbortCall(call *ast.CallExpr) bool {
	sel, ok := call.Fun.(*ast.SelectorExpr)
	if !ok || sel.Sel.Name != "abort" || c.path(sel.X) != "s" {
		return false
	}
	if len(call.Args) != 1 || c.path(call.Args[0]) != "opts" {
		c.fail(call, "abort expects opts")
	}
	c.g.need("abort", call, c)
	return true
}

func (c *fctx) assign(x *ast.AssignStmt) *node {
	// r := b.MakeMove(m) / rev := b.MakeNullMove()
	if len(x.Lhs) == 1 && len(x.Rhs) == 1 {
		if call, ok := x.Rhs[0].(*ast.CallExpr); ok {
			if sel, ok := call.Fun.(*ast.SelectorExpr); ok && c.path(sel.X) == "b" {
				switch sel.Sel.Name {
				case "MakeMove":
					if len(call.Args) != 1 {
						c.fail(x, "MakeMove expects one argument")
					}
					r, fp := c.movePath(call.Args[0])
					return atom("Make %s %s %s", q(r), q(fp), q(c.tokenIdent(x.Lhs[0])))
				case "MakeNullMove":
					if len(call.Args) != 0 {
						c.fail(x, "MakeNullMove expects no argument")
					}
					return atom("MakeNull %s", q(c.tokenIdent(x.Lhs[0])))
				}
			}
			// pck := picker.New(b, hashMove, s.ms, &s.ranker, s.hstack)
			if sel, ok := call.Fun.(*ast.SelectorExpr); ok {
				if id, ok := sel.X.(*ast.Ident); ok && id.Name == "picker" && c.imports["picker"] && sel.Sel.Name == "New" {
					lhs, ok := x.Lhs[0].(*ast.Ident)
					if !ok || x.Tok != token.DEFINE || len(call.Args) != 5 ||
						c.path(call.Args[0]) != "b" || c.path(call.Args[2]) != "s.ms" ||
						c.path(call.Args[3]) != "s.ranker" || c.path(call.Args[4]) != "s.hstack" {
						c.fail(x, "picker.New is only recognised as `pck := picker.New(b, hashMove, s.ms, &s.ranker, s.hstack)`")
					}
					n := c.effects(call.Args[1])
					c.handles[lhs.Name] = true
					return n
				}
			}
		}
		// alias of a tracked object: transpT := s.tt, cnts := opts.Counters
		if p := c.path(x.Rhs[0]); p != "" {
			lhs, ok := x.Lhs[0].(*ast.Ident)
			if !ok || x.Tok != token.DEFINE || c.relevant[c.key(lhs)] {
				c.fail(x, "a tracked object may only be bound to a fresh identifier with :=")
			}
			if _, isUnary := x.Rhs[0].(*ast.UnaryExpr); isUnary {
				c.fail(x, "address of a tracked object")
			}
			c.roots[lhs.Name] = p
			return skip
		}
	}
	// x := true / x = false for a local boolean that occurs in a recognised condition
	if len(x.Lhs) == 1 && len(x.Rhs) == 1 && (x.Tok == token.DEFINE || x.Tok == token.ASSIGN) {
		if id, ok := x.Lhs[0].(*ast.Ident); ok && c.relevant[c.key(id)] && c.localVar(id) {
			if lit, ok := x.Rhs[0].(*ast.Ident); ok && lit.Obj == nil && (lit.Name == "true" || lit.Name == "false") {
				return block(c.havoc(id), atom("SetC %s %s %v", q(id.Name), coqStrings([]string{c.key(id)}), lit.Name == "true"))
			}
		}
	}
	var ns []*node
	for _, r := range x.Rhs {
		ns = append(ns, c.effects(r))
	}
	// values read from the table are read-only
	if len(x.Rhs) == 1 {
		if call, ok := x.Rhs[0].(*ast.CallExpr); ok {
			if sel, ok := call.Fun.(*ast.SelectorExpr); ok && c.path(sel.X) == "s.tt" && sel.Sel.Name == "LookUp" {
				defer func() {
					if id, ok := x.Lhs[0].(*ast.Ident); ok && id.Name != "_" {
						c.ttEntry[id.Name] = true
					}
				}()
			}
		}
	}
	for _, l := range x.Lhs {
		ns = append(ns, c.write(l, x, false))
	}
	return block(ns...)
}

// write: an assignment target
func (c *fctx) write(l ast.Expr, at ast.Node, incdec bool) *node {
	if id, ok := l.(*ast.Ident); ok {
		return c.havoc(id)
	}
	root := rootIdent(l)
	if root == nil {
		c.fail(at, "unsupported assignment target")
	}
	if c.ttEntry[root.Name] {
		c.fail(at, "write through a value read from the transposition table")
	}
	if c.handles[root.Name] {
		c.fail(at, "write through a picker handle")
	}
	if c.roots[root.Name] == "" {
		// write through a local value (moves[ix].Weight, w.Weight, sb...): contents of the move
		// store or plain data, not tracked
		var idx *node = skip
		if ie, ok := l.(*ast.IndexExpr); ok {
			idx = c.effects(ie.Index)
		}
		return idx
	}
	sel, ok := l.(*ast.SelectorExpr)
	if !ok {
		c.fail(at, "unrecognised write to tracked state")
	}
	full := c.path(sel.X) + "." + sel.Sel.Name
	as, isAssign := at.(*ast.AssignStmt)
	rhsIs := func(s string) bool {
		return isAssign && as.Tok == token.ASSIGN && len(as.Rhs) == 1 && c.text(as.Rhs[0]) == s
	}
	switch {
	case full == "s.aborted" && rhsIs("false"):
		return atom("ClearAbort")
	case full == "opts.PonderHit" && rhsIs("nil"):
		return atom("PonderOff")
	case full == "s.gen" && incdec && at.(*ast.IncDecStmt).Tok == token.INC:
		return atom("GenIncr")
	case strings.HasPrefix(full, "opts.Counters.") && sel.Sel.Name != "Nodes":
		return skip // statistics other than the node counter (ABNodes, Moves, FirstCut, Time)
	case c.name == "Go" && full == "opts.Counters" && rhsIs("&Counters{}"):
		return atom("FreshCounters")
	}
	c.fail(at, "unrecognised write to tracked state %s", full)
	return nil
}

// key names the variable an identifier denotes: the identifier itself when the function declares
// that name once, name#k (k-th declaration in source order) when inner declarations shadow or
// re-use it; the parameter ply is always "ply".
func (c *fctx) key(id *ast.Ident) string {
	if id.Obj == nil {
		return id.Name
	}
	if c.plyObj != nil && id.Obj == c.plyObj {
		return "ply"
	}
	objs := c.nameObjs[id.Name]
	if len(objs) <= 1 && !(id.Name == "ply" && c.plyObj != nil) {
		return id.Name
	}
	var ps []int
	for o := range objs {
		ps = append(ps, int(o.Pos()))
	}
	sort.Ints(ps)
	for i, p := range ps {
		if p == int(id.Obj.Pos()) {
			return fmt.Sprintf("%s#%d", id.Name, i+1)
		}
	}
	return id.Name + "#?"
}

// ---- recognised conditions ----------------------------------------------------------------------

func coqStrings(xs []string) string {
	qs := make([]string, len(xs))
	for i, x := range xs {
		qs[i] = q(x)
	}
	return "[" + strings.Join(qs, "; ") + "]"
}

// localVar: the identifier denotes a variable (or parameter) declared in this function
func (c *fctx) localVar(id *ast.Ident) bool {
	if id.Obj == nil || id.Obj.Kind != ast.Var || c.roots[id.Name] != "" || c.handles[id.Name] {
		return false
	}
	return c.nameObjs[id.Name][id.Obj] && !c.addrTaken[id.Obj]
}

// arith: an expression over local variables, constants and literals only; appends its variables
func (c *fctx) arith(e ast.Expr, vars *[]string) bool {
	switch x := e.(type) {
	case *ast.BasicLit:
		return x.Kind == token.INT
	case *ast.Ident:
		if x.Obj == nil {
			return x.Name != "nil" && x.Name != "_" && c.roots[x.Name] == "" // dot-imported or predeclared constant
		}
		if x.Obj.Kind == ast.Con {
			return true
		}
		if !c.localVar(x) {
			return false
		}
		k := c.key(x)
		for _, v := range *vars {
			if v == k {
				return true
			}
		}
		*vars = append(*vars, k)
		return true
	case *ast.ParenExpr:
		return c.arith(x.X, vars)
	case *ast.UnaryExpr:
		return (x.Op == token.SUB || x.Op == token.ADD) && c.arith(x.X, vars)
	case *ast.BinaryExpr:
		switch x.Op {
		case token.ADD, token.SUB, token.MUL:
			return c.arith(x.X, vars) && c.arith(x.Y, vars)
		}
	}
	return false
}

// condOf recognises `x`, `!x`, `a < b`, `a <= b`, `a > b`, `a >= b`, `a == b`, `a != b` over local
// variables and constants. The text is normalised so that a condition and its negation share it.
func (c *fctx) condOf(e ast.Expr) (text string, vars []string, neg bool, ok bool) {
	for {
		if p, isP := e.(*ast.ParenExpr); isP {
			e = p.X
		} else if u, isU := e.(*ast.UnaryExpr); isU && u.Op == token.NOT {
			e = u.X
			neg = !neg
		} else {
			break
		}
	}
	switch x := e.(type) {
	case *ast.Ident:
		if !c.localVar(x) {
			return "", nil, false, false
		}
		return x.Name, []string{c.key(x)}, neg, true
	case *ast.BinaryExpr:
		op := ""
		switch x.Op {
		case token.LEQ:
			op = "<="
		case token.GTR:
			op, neg = "<=", !neg
		case token.LSS:
			op = "<"
		case token.GEQ:
			op, neg = "<", !neg
		case token.EQL:
			op = "=="
		case token.NEQ:
			op, neg = "==", !neg
		default:
			return "", nil, false, false
		}
		if !c.arith(x.X, &vars) || !c.arith(x.Y, &vars) || len(vars) == 0 {
			return "", nil, false, false
		}
		return c.text(x.X) + " " + op + " " + c.text(x.Y), vars, neg, true
	}
	return "", nil, false, false
}

// ---- functions -------------------------------------------------------------------------------------------

func (g *skelGen) need(name string, at ast.Node, c *fctx) {
	if _, ok := g.funcs[name]; !ok {
		c.fail(at, "function %s not found in search.go / state.go", name)
	}
	for _, q := range g.queue {
		if q == name {
			return
		}
	}
	g.queue = append(g.queue, name)
}

func typeText(fset *token.FileSet, e ast.Expr) string {
	var buf bytes.Buffer
	printer.Fprint(&buf, fset, e)
	return buf.String()
}

func (g *skelGen) translate(name string, imports map[string]bool) *node {
	fd := g.funcs[name]
	c := &fctx{g: g, name: name, fd: fd, roots: map[string]string{}, handles: map[string]bool{},
		ttEntry: map[string]bool{}, relevant: map[string]bool{"ply": true}, labels: map[string]token.Pos{}, imports: imports}
	bind := func(fl *ast.Field) {
		t := typeText(g.fset, fl.Type)
		for _, n := range fl.Names {
			switch t {
			case "*board.Board":
				c.roots[n.Name] = "b"
			case "*Search":
				c.roots[n.Name] = "s"
			case "*Options":
				c.roots[n.Name] = "opts"
			case "board.Board", "Search", "Options", "*move.Store", "*transp.Table", "*heur.MoveRanker", "*pv":
				c.fail(fl, "parameter of tracked type %s", t)
			}
			if n.Name == "ply" {
				c.plyName = "ply"
				c.plyObj = n.Obj
			}
		}
	}
	if fd.Recv != nil {
		for _, fl := range fd.Recv.List {
			bind(fl)
		}
	}
	for _, fl := range fd.Type.Params.List {
		bind(fl)
	}
	c.nameObjs = map[string]map[*ast.Object]bool{}
	c.addrTaken = map[*ast.Object]bool{}
	ast.Inspect(fd, func(n ast.Node) bool {
		if u, ok := n.(*ast.UnaryExpr); ok && u.Op == token.AND {
			if id := rootIdent(u.X); id != nil && id.Obj != nil {
				c.addrTaken[id.Obj] = true
			}
		}
		if id, ok := n.(*ast.Ident); ok && id.Obj != nil && id.Obj.Kind == ast.Var &&
			id.Obj.Pos() >= fd.Pos() && id.Obj.Pos() <= fd.End() {
			if c.nameObjs[id.Name] == nil {
				c.nameObjs[id.Name] = map[*ast.Object]bool{}
			}
			c.nameObjs[id.Name][id.Obj] = true
		}
		return true
	})
	// `options := Options{...}` in Go: a local request record handed down as &options
	ast.Inspect(fd.Body, func(n ast.Node) bool {
		switch x := n.(type) {
		case *ast.AssignStmt:
			if x.Tok == token.DEFINE && len(x.Lhs) == 1 && len(x.Rhs) == 1 {
				if cl, ok := x.Rhs[0].(*ast.CompositeLit); ok && cl.Type != nil && typeText(g.fset, cl.Type) == "Options" {
					c.roots[x.Lhs[0].(*ast.Ident).Name] = "opts"
				}
			}
		case *ast.LabeledStmt:
			c.labels[x.Label.Name] = x.Pos()
		case *ast.CallExpr:
			// identifiers that occur in Make/Undo/insert atoms: their assignments are kept
			if sel, ok := x.Fun.(*ast.SelectorExpr); ok {
				switch sel.Sel.Name {
				case "MakeMove", "UndoMove", "UndoNullMove", "insert":
					for _, a := range x.Args {
						if id := rootIdent(a); id != nil {
							c.relevant[c.key(id)] = true
						}
					}
				}
			}
		}
		return true
	})
	ast.Inspect(fd.Body, func(n ast.Node) bool {
		if x, ok := n.(*ast.AssignStmt); ok && len(x.Rhs) == 1 && len(x.Lhs) == 1 {
			if call, ok := x.Rhs[0].(*ast.CallExpr); ok {
				if sel, ok := call.Fun.(*ast.SelectorExpr); ok && (sel.Sel.Name == "MakeMove" || sel.Sel.Name == "MakeNullMove") {
					if id, ok := x.Lhs[0].(*ast.Ident); ok {
						c.relevant[c.key(id)] = true
					}
				}
			}
		}
		return true
	})
	for r := range c.roots {
		delete(c.relevant, r)
	}
	// variables of recognised conditions: their assignments are kept
	ast.Inspect(fd.Body, func(n ast.Node) bool {
		if x, ok := n.(*ast.IfStmt); ok {
			if _, vars, _, ok := c.condOf(x.Cond); ok {
				for _, v := range vars {
					c.relevant[v] = true
				}
			}
		}
		return true
	})
	// `options := Options{...}` itself is a plain composite literal
	body := c.stmts(c.stripOptionsDecl(fd.Body.List))
	return body
}

// stripOptionsDecl: in Go, `options := Options{...}` declares the request record; its literal is data.
func (c *fctx) stripOptionsDecl(l []ast.Stmt) []ast.Stmt {
	var out []ast.Stmt
	for _, s := range l {
		if x, ok := s.(*ast.AssignStmt); ok && x.Tok == token.DEFINE && len(x.Lhs) == 1 && len(x.Rhs) == 1 {
			if cl, ok := x.Rhs[0].(*ast.CompositeLit); ok && cl.Type != nil && typeText(c.g.fset, cl.Type) == "Options" {
				for _, el := range cl.Elts {
					if !isSkip(c.effects(el)) {
						c.fail(el, "effect in the Options literal")
					}
				}
				continue
			}
		}
		out = append(out, s)
	}
	return out
}

var wsRE = regexp.MustCompile(`\s+`)

func (g *skelGen) pinnedText(name string) string {
	fd := *g.funcs[name]
	fd.Doc = nil
	var buf bytes.Buffer
	printer.Fprint(&buf, g.fset, &fd)
	return strings.TrimSpace(wsRE.ReplaceAllString(buf.String(), " "))
}

// skelFail is the fail-closed outcome of the translator. gen still exits 0 (the other Gen files are
// unaffected); Gen/SearchSkel.v then says translator_error = Some msg and defines none of the
// functions, so that the first lemma of Proofs/SkelInstances.v (translator_succeeded) and with it
// C06/C07/C08 Layer A fail, naming the source position.
type skelFail string

func skelDie(msg string) { panic(skelFail(msg)) }

const skelHeader = "(* control skeleton of search/search.go and search/state.go (harness/cmd/gen/skel.go) *)\n" +
	"From Coq Require Import String List.\nFrom Chess3 Require Import Model.Skel.\nImport ListNotations.\nOpen Scope string_scope.\n"

func genSkel() {
	defer func() {
		if r := recover(); r != nil {
			msg, ok := r.(skelFail)
			if !ok {
				panic(r)
			}
			fmt.Fprintf(os.Stderr, "gen/skel: FAIL CLOSED: %s\n  the control skeleton of search.go contains something the translator does not recognise;\n"+
				"  extend harness/cmd/gen/skel.go (and the Coq model if it is a new effect) before trusting C06/C07/C08 Layer A.\n", string(msg))
			f := newFile("SearchSkel.v", skelHeader)
			f.p("Definition translator_error : option string :=\n  Some %s.\n", q(string(msg)))
		}
	}()
	genSkelBody()
}

func genSkelBody() {
	g := &skelGen{fset: token.NewFileSet(), funcs: map[string]*ast.FuncDecl{}, done: map[string]*node{}}
	imports := map[string]bool{}
	for _, fn := range []string{"search/search.go", "search/state.go"} {
		f, err := parser.ParseFile(g.fset, fn, nil, 0)
		if err != nil {
			skelDie(err.Error())
		}
		for _, im := range f.Imports {
			p, _ := strconv.Unquote(im.Path.Value)
			name := p[strings.LastIndexByte(p, '/')+1:]
			if im.Name != nil {
				name = im.Name.Name
			}
			if name != "." && name != "_" {
				imports[name] = true
			}
		}
		for _, d := range f.Decls {
			if fd, ok := d.(*ast.FuncDecl); ok && fd.Body != nil {
				if _, dup := g.funcs[fd.Name.Name]; dup {
					skelDie(fmt.Sprintf("two functions named %s in package search", fd.Name.Name))
				}
				g.funcs[fd.Name.Name] = fd
			}
		}
	}
	if _, ok := g.funcs["Go"]; !ok {
		skelDie("Search.Go not found")
	}
	g.queue = []string{"Go"}
	for i := 0; i < len(g.queue); i++ {
		name := g.queue[i]
		if pinned[name] {
			continue
		}
		g.done[name] = g.translate(name, imports)
		g.order = append(g.order, name)
	}
	// the search functions must be there even if Go were rewritten not to reach them
	for _, must := range []string{"iterativeDeepen", "alphaBeta", "quiescence", "refresh"} {
		if g.done[must] == nil {
			skelDie(fmt.Sprintf("%s is not reachable from Search.Go any more", must))
		}
	}
	for _, p := range []string{"abort", "incrementNodes"} {
		found := false
		for _, q := range g.queue {
			found = found || q == p
		}
		if !found {
			skelDie(fmt.Sprintf("%s is not used by the search any more", p))
		}
	}

	f := newFile("SearchSkel.v", skelHeader)
	f.p("Definition translator_error : option string := None.\n\n")
	for _, name := range g.order {
		var sb strings.Builder
		g.done[name].print(&sb, "  ")
		pos := g.fset.Position(g.funcs[name].Pos())
		f.p("(* %s:%d *)\nDefinition f_%s : stmt :=\n  %s.\n\n", pos.Filename, pos.Line, name, sb.String())
	}
	names := append([]string(nil), g.order...)
	sort.Strings(names)
	f.p("Definition ftable : list (string * stmt) := [\n")
	for i, name := range names {
		sep := ";"
		if i+1 == len(names) {
			sep = ""
		}
		f.p("  (%s, f_%s)%s\n", q(name), name, sep)
	}
	f.p("].\n\n")
	f.p("(* source text of the functions whose model is written by hand (whitespace normalised) *)\n")
	f.p("Definition abort_src : string :=\n  %s.\n", q(g.pinnedText("abort")))
	f.p("Definition incrementNodes_src : string :=\n  %s.\n", q(g.pinnedText("incrementNodes")))
}
