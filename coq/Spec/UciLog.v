(* What C13 says about the lines the driver has written (stdout), as predicates on a log of
   output items; used by the statements in Properties/C13.v. *)
From Coq Require Import Bool List Arith.
Import ListNotations.
From Chess3 Require Import Model.Uci.

(* Left to right over the log; hi = number of bestmove lines so far. The next bestmove must be the
   one of search hi+1, and an info (or ponderhit acknowledgement) line must belong to search hi+1:
   it comes after bestmove hi and before bestmove hi+1. Result: the number of bestmove lines. *)
Fixpoint scan (hi : nat) (l : list item) : option nat :=
  match l with
  | [] => Some hi
  | IBest i :: r => if i =? S hi then scan (S hi) r else None
  | IInfo i :: r | IAck i :: r => if i =? S hi then scan hi r else None
  | _ :: r => scan hi r
  end.

(* every search 1..n got exactly one bestmove, in order, each after all info lines of its search *)
Definition bestmoves_in_order (log : list item) (n : nat) : Prop := scan 0 log = Some n.

Definition is_best (x : item) : bool := match x with IBest _ => true | _ => false end.
Definition is_readyok (x : item) : bool := match x with IReadyok => true | _ => false end.
Definition is_uciok (x : item) : bool := match x with IUciok => true | _ => false end.
Definition count_item (p : item -> bool) (l : list item) : nat := length (filter p l).

Definition is_go (c : cmd) : bool := match c with CGo _ => true | _ => false end.
Definition is_isready (c : cmd) : bool := match c with CIsready => true | _ => false end.
Definition is_uci (c : cmd) : bool := match c with CUci => true | _ => false end.
Definition count_cmd (p : cmd -> bool) (l : list cmd) : nat := length (filter p l).

(* the property, for a finished run: what stdout holds once Run has returned *)
Definition all_answered (sc : list cmd) (log : list item) : Prop :=
  bestmoves_in_order log (count_cmd is_go sc)
  /\ count_item is_best log = count_cmd is_go sc
  /\ count_item is_readyok log = count_cmd is_isready sc
  /\ count_item is_uciok log = count_cmd is_uci sc.

(* stdout as the harness reports it: a run of option lines is one token *)
Fixpoint collapse_opts (lastopt : bool) (w : list item) : list item :=
  match w with
  | [] => []
  | x :: r => if is_opt x && lastopt then collapse_opts true r else x :: collapse_opts (is_opt x) r
  end.
