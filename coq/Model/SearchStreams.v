(* Correspondence entry point of the closed search model (stream "search").

   input : ttBytes tracePly nReq { hasDepth depth nodes softNodes board-in }*nReq
           One engine (search.New(ttBytes)) serves the requests in order; every request has a fresh
           Counters and its own root board (with hash history).  hasDepth = 0: WithDepth is not passed
           (Options.Depth = MaxPlies); nodes = -1 / softNodes = -1: WithNodes / WithSoftNodes not passed.
   output: per request
             nLines { 1 depth scoreKind scoreMinus scoreNumber nodes hashfull nPv pv.. | 2 depth nodes }*
             score move ponder Counters.Nodes aborted generation boardUntouched
           then the persistent state:
             nBuckets { ix pKeys { move value depth type gen }*4 }*      (non-empty buckets, ascending)
             nHist { ix v }*  nCapt { ix v }*  nCont0 { ix v }*  nCont1 { ix v }*   (non-zero cells, ascending)
           then, when tracePly >= 0, the debugging log of the model (not produced by the engine).
   A Go panic is -1 -1 -1; running out of fuel (never happens) is -2 -2 -2. *)
From Coq Require Import NArith ZArith List Bool FMapPositive.
From Chess3 Require Import Base.Bits Base.Word Model.Types Model.BoardDef Model.Board Model.Search.
From Chess3 Require Model.TT Model.Hist Model.Picker Model.Pv Gen.SearchParams.
Import ListNotations.
Open Scope Z_scope.

Definition zb (b : bool) : Z := if b then 1 else 0.

Definition list_eqb (a b : list Z) : bool :=
  (Nat.eqb (length a) (length b)) && forallb (fun xy => fst xy =? snd xy) (combine a b).

Definition board_same (a b : board) : bool := list_eqb (encode_board a) (encode_board b).

Definition enc_report (r : report) : list Z :=
  match r with
  | RLine d s n hf pv =>
      let '(k, sg, num) := Pv.score_string s in
      [1; d; k; sg; num; n; hf; Z.of_nat (length pv)] ++ pv
  | RAbort d n => [2; d; n]
  end.

(* ---- persistent state ---- *)

Definition entry_nonzero (e : TT.entry) : bool :=
  negb ((TT.e_move e =? 0) && (TT.e_value e =? 0) && (TT.e_packed e =? 0) && (TT.e_gen e =? 0)).

Definition bucket_nonempty (bk : TT.bucket) : bool :=
  negb (TT.b_keys bk =? 0) || existsb entry_nonzero (TT.b_entries bk).

Definition enc_entry (e : TT.entry) : list Z :=
  [TT.e_move e; TT.e_value e; TT.e_depth e; TT.e_type e; TT.e_gen e].

Fixpoint tt_digest (t : TT.table) (ix : Z) (n : Z) (acc : list Z) : Z * list Z :=
  match t with
  | [] => (n, acc)
  | bk :: r =>
      if bucket_nonempty bk
      then tt_digest r (ix + 1) (n + 1) (rev_append (ix :: TT.b_keys bk :: flat_map enc_entry (TT.b_entries bk)) acc)
      else tt_digest r (ix + 1) n acc
  end.

Fixpoint insert_sorted (kv : Z * Z) (l : list (Z * Z)) : list (Z * Z) :=
  match l with
  | [] => [kv]
  | x :: r => if fst kv <? fst x then kv :: l else x :: insert_sorted kv r
  end.

(* non-zero cells of one store, by ascending flat index *)
Definition table_cells (t : Hist.table) : list Z :=
  let cells := fold_left (fun acc pv => if snd pv =? 0 then acc else insert_sorted (Z.pos (fst pv) - 1, snd pv) acc)
                         (PositiveMap.elements t) [] in
  Z.of_nat (length cells) :: flat_map (fun kv => [fst kv; snd kv]) cells.

Definition state_digest (s : sstate) : list Z :=
  let '(n, acc) := tt_digest (s_tt s) 0 0 [] in
  (n :: rev acc) ++ table_cells (Hist.r_hist (s_rk s)) ++ table_cells (Hist.r_capt (s_rk s))
  ++ table_cells (Hist.r_cont0 (s_rk s)) ++ table_cells (Hist.r_cont1 (s_rk s)).

(* ---- requests ---- *)

Inductive outcome := Done (out : list Z) (s : sstate) | Failed (code : Z).

Fixpoint run_requests (n : nat) (s : sstate) (l : list Z) (acc : list Z) : outcome :=
  match n with
  | O => Done acc s
  | S n' =>
      match l with
      | hd :: dep :: nodes :: soft :: rest =>
          match decode_board rest with
          | Some (b, rest') =>
              let o := mkO nodes soft (if hd =? 0 then SearchParams.MaxPlies else wrap8 dep) in
              match go search_fuel o (set_nodes s 0) b with
              | Ok (r, s1, b1) =>
                  let out := [Z.of_nat (length (r_reports r))] ++ flat_map enc_report (r_reports r)
                             ++ [r_score r; r_move r; r_ponder r; s_nodes s1; zb (s_aborted s1); s_gen s1;
                                 zb (board_same b b1)] in
                  run_requests n' s1 rest' (acc ++ out)
              | Panic => Failed (-1)
              | OutOfFuel => Failed (-2)
              end
          | None => Failed (-3)
          end
      | _ => Failed (-3)
      end
  end.

Definition run_search (input : list Z) : list Z :=
  match input with
  | size :: tp :: nreq :: rest =>
      match new_state size with
      | Ok s0 =>
          match run_requests (Z.to_nat nreq) (set_tracing s0 tp) rest [] with
          | Done out s =>
              out ++ state_digest s ++
              (if 0 <=? tp then Z.of_nat (length (s_trace s)) :: rev (s_trace s) else [])
          | Failed c => [c; c; c]
          end
      | _ => [-1; -1; -1]
      end
  | _ => []
  end.
