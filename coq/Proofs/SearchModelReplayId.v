(* Soft / hard replay, part 2 (C08): iterative deepening.  A run of Search.Go that ends NOT aborted
   with N nodes on the counter (in particular: stopped by its soft node limit after some iteration)
   is replayed by the run under the hard budget N without a soft limit: same score, move, ponder
   move, the same reported lines followed by at most one abort line `info depth d+1 nodes N`, and it
   leaves the same table, history tables and generation counter.  The replay starts iteration d+1
   and is cut at its first incrementNodes, before anything persistent is written. *)
From Coq Require Import NArith ZArith List Bool Lia.
From Chess3 Require Import Base.Bits Base.Word Model.Types Model.BoardDef Model.Board Model.Search
  Proofs.SearchModelInv Proofs.SearchModelBudget Proofs.SearchModelReplay Proofs.PvProofs.
From Chess3 Require Model.Movegen Model.Mate Model.Eval Model.TT Model.Hist Model.Picker Model.See
  Model.Pv Model.IterDeepen.
Import ListNotations.
Open Scope Z_scope.

(* ---- the depth array of the PV buffer keeps its length ---- *)
Definition plen (s : sstate) : nat := length (Pv.pv_depth (s_pv s)).

Lemma set_len l i v l' : Pv.set l i v = Some l' -> length l' = length l.
Proof.
  unfold Pv.set. destruct ((0 <=? i) && (i <? Z.of_nat (length l))) eqn:C; [|discriminate].
  injection 1 as <-. apply andb_true_iff in C. destruct C as [C1 C2]. apply write1_length. lia.
Qed.

Lemma set_null_len b ply b' : Pv.set_null b ply = Some b' -> length (Pv.pv_depth b') = length (Pv.pv_depth b).
Proof.
  unfold Pv.set_null. destruct (Pv.set (Pv.pv_depth b) ply 0) as [d|] eqn:E; [|discriminate].
  injection 1 as <-. cbn. eapply set_len. exact E.
Qed.

Lemma insert_len b ply m b' : Pv.insert b ply m = Some b' -> length (Pv.pv_depth b') = length (Pv.pv_depth b).
Proof.
  unfold Pv.insert. destruct (Pv.get _ _); [|discriminate]. destruct (Pv.set (Pv.pv_moves b) _ _); [|discriminate].
  destruct (_ && _); [|discriminate]. destruct (Pv.set (Pv.pv_depth b) ply _) as [d|] eqn:E; [|discriminate].
  injection 1 as <-. cbn. eapply set_len. exact E.
Qed.

Lemma set_null_total b : (0 < length (Pv.pv_depth b))%nat -> exists b', Pv.set_null b 0 = Some b'.
Proof.
  intros H. unfold Pv.set_null, Pv.set. cbn [Z.leb andb].
  destruct (0 <? Z.of_nat (length (Pv.pv_depth b))) eqn:C; [eexists; reflexivity|]. apply Z.ltb_ge in C. lia.
Qed.

Lemma set_null_some_len b ply b' : Pv.set_null b ply = Some b' -> (0 < length (Pv.pv_depth b))%nat.
Proof.
  unfold Pv.set_null, Pv.set. destruct ((0 <=? ply) && (ply <? Z.of_nat (length (Pv.pv_depth b)))) eqn:C; [|discriminate].
  intros _. apply andb_true_iff in C. destruct C as [C1 C2]. apply Z.leb_le in C1. apply Z.ltb_lt in C2. lia.
Qed.

Section Len.
  Variable o : opts.
  Let R (s s' : sstate) : Prop := plen s' = plen s.
  Lemma lR_refl s : R s s. Proof. reflexivity. Qed.
  Lemma lR_trans a b c : R a b -> R b c -> R a c. Proof. unfold R. congruence. Qed.
  Lemma lR_tt s v : R s (set_tt s v). Proof. reflexivity. Qed.
  Lemma lR_rk s v : R s (set_rk s v). Proof. reflexivity. Qed.
  Lemma lR_ms s v : R s (set_ms s v). Proof. reflexivity. Qed.
  Lemma lR_hs s v : R s (set_hs s v). Proof. reflexivity. Qed.
  Lemma lR_trace s v : R s (set_trace s v). Proof. reflexivity. Qed.
  Lemma lR_inc s : R s (inc_nodes o s).
  Proof. unfold R, plen, inc_nodes. destruct (IterDeepen.increment_nodes _ _ _). reflexivity. Qed.
  Lemma lR_null s ply v : Pv.set_null (s_pv s) ply = Some v -> R s (set_pv s v).
  Proof. intros H. unfold R, plen. cbn. eapply set_null_len. exact H. Qed.
  Lemma lR_ins s ply m v : Pv.insert (s_pv s) ply m = Some v -> R s (set_pv s v).
  Proof. intros H. unfold R, plen. cbn. eapply insert_len. exact H. Qed.
  Definition ab_len := alphaBeta_R o R lR_refl lR_trans lR_tt lR_rk lR_ms lR_hs lR_null lR_ins lR_trace lR_inc.
End Len.

Lemma alphaBeta_plen fuel o st b al be d ply nt v st' b' :
  alphaBeta fuel o st b al be d ply nt = Ok (v, st', b') -> plen st' = plen st /\ (0 < plen st)%nat.
Proof.
  intros H. split; [exact (ab_len o fuel _ _ _ _ _ _ _ _ _ _ H)|].
  destruct fuel as [|f]; [discriminate H|]. cbn [alphaBeta] in H. unfold ab_body in H.
  destruct (Pv.set_null (s_pv st) ply) as [pv1|] eqn:E; [|discriminate H]. eapply set_null_some_len. exact E.
Qed.

(* ---- a root call that starts on an exhausted budget is cut at its first node ---- *)
Lemma alphaBeta_cut f o st b al be d : 1 <= d -> o_nodes o = s_nodes st -> s_nodes st <> -1 -> (0 < plen st)%nat ->
  exists st', alphaBeta (S f) o st b al be d 0 SearchParams.PVNode = Ok (SearchParams.Inv, st', b)
    /\ s_aborted st' = true /\ s_tt st' = s_tt st /\ s_rk st' = s_rk st /\ s_gen st' = s_gen st /\ s_nodes st' = s_nodes st
    /\ s_ms st' = s_ms st /\ s_hs st' = s_hs st.
Proof.
  intros Hd Ho Hn Hl. cbn [alphaBeta]. unfold ab_body.
  destruct (set_null_total (s_pv st) Hl) as [pv1 ->]. cbn [of_opt bind].
  assert ((d =? 0) || (SearchParams.MaxPlies - 1 <=? 0) = false) as ->.
  { apply orb_false_iff. split; [apply Z.eqb_neq; lia|reflexivity]. }
  assert (Hinc : inc_nodes o (set_pv st pv1) = set_nodes (set_aborted (set_pv st pv1) true) (s_nodes st)).
  { unfold inc_nodes, IterDeepen.increment_nodes. cbn [s_nodes s_aborted set_pv]. rewrite Ho.
    assert ((s_nodes st =? -1) || (s_nodes st <? s_nodes st) = false) as ->; [|reflexivity].
    apply orb_false_iff. split; [now apply Z.eqb_neq|apply Z.ltb_irrefl]. }
  rewrite Hinc. unfold trace. cbn [s_tracing s_nodes set_nodes set_aborted set_pv].
  destruct (0 <=? s_tracing st); cbn; eexists; (split; [reflexivity|]); cbn; repeat split; reflexivity.
Qed.

(* ---- budget facts for the decision layer ---- *)
Definition aspire_budget o fuel :=
  aspire_R o (budget_rel o) (bR_refl o) (bR_trans o) (bR_tt o) (bR_rk o) (bR_ms o) (bR_hs o) (bR_pv_null o) (bR_pv_ins o)
           (bR_trace o) (bR_inc o) fuel.
Definition fallback_budget := fun o => fallback_R (budget_rel o) (bR_refl o) (bR_trans o) (bR_ms o).

Definition asp_state (a : asp) : sstate := match a with AspOk _ s _ => s | AspAbort s _ => s end.

Lemma aspire_flag fuel o : forall n st b al be f d a, aspire fuel o n st b al be f d = Ok a ->
  s_aborted (asp_state a) = match a with AspOk _ _ _ => false | AspAbort _ _ => true end.
Proof.
  induction n as [|n IH]; intros st b al be f d a H; [discriminate H|].
  cbn [aspire] in H. walk; cbn; eauto.
Qed.

Lemma aspire_plen fuel o : forall n st b al be f d a, aspire fuel o n st b al be f d = Ok a -> (0 < plen (asp_state a))%nat.
Proof.
  induction n as [|n IH]; intros st b al be f d a H; [discriminate H|].
  cbn [aspire] in H.
  destruct (alphaBeta fuel o st b al be d 0 SearchParams.PVNode) as [[[s0 st0] b0]| |] eqn:E; cbn [bind] in H; try discriminate H.
  apply alphaBeta_plen in E. destruct E as [E1 E2].
  walk; cbn; try lia; eauto.
Qed.

Lemma aspire_S fuel o n st b al be f d :
  aspire fuel o (S n) st b al be f d =
  bind (alphaBeta fuel o st b al be d 0 SearchParams.PVNode) (fun x => let '(s, st1, b1) := x in
    if s_aborted st1 then Ok (AspAbort st1 b1) else
    if s <=? al then
      aspire fuel o n st1 b1 (sub16 al (wrap16 (f * wrap16 SearchParams.WindowSize))) be (wrap16 (f * 2)) d
    else if be <=? s then
      aspire fuel o n st1 b1 al (add16 be (wrap16 (f * wrap16 SearchParams.WindowSize))) (wrap16 (f * 2)) d
    else Ok (AspOk s st1 b1)).
Proof. reflexivity. Qed.

Section ReplayId.
  Variable fuel : nat.
  Variable o1 : opts.
  Variable N : Z.
  (* the replaying run: hard budget N, no soft limit, the same depth limit *)
  Definition replay_opts : opts := mkO N (-1) (o_depth o1).
  Notation o2 := replay_opts.

  Lemma o2_budget : o_nodes o2 = N. Proof. reflexivity. Qed.

  Lemma aspire_A : forall n st b al be f d a,
    aspire fuel o1 n st b al be f d = Ok a -> s_aborted (asp_state a) = false -> s_nodes (asp_state a) <= N ->
    aspire fuel o2 n st b al be f d = Ok a.
  Proof.
    induction n as [|n IH]; intros st b al be f d a H1 Hab Hn; [discriminate H1|].
    cbn [aspire] in H1 |- *.
    destruct (alphaBeta fuel o1 st b al be d 0 SearchParams.PVNode) as [[[s0 st0] b0]| |] eqn:E; cbn [bind] in H1; try discriminate H1.
    destruct (s_aborted st0) eqn:Ea.
    { injection H1 as <-. cbn in Hab. congruence. }
    assert (Hn0 : s_nodes st0 <= N).
    { destruct (s0 <=? al); [|destruct (be <=? s0)].
      - pose proof (aspire_budget o1 fuel _ _ _ _ _ _ _ _ H1) as HB. destruct a; cbn in *; destruct HB as (Q & _); lia.
      - pose proof (aspire_budget o1 fuel _ _ _ _ _ _ _ _ H1) as HB. destruct a; cbn in *; destruct HB as (Q & _); lia.
      - injection H1 as <-. exact Hn. }
    rewrite (alphaBeta_A o1 o2 N o2_budget fuel _ _ _ _ _ _ _ _ _ _ E Ea Hn0). cbn [bind]. rewrite Ea.
    destruct (s0 <=? al); [apply IH; assumption|]. destruct (be <=? s0); [apply IH; assumption|]. exact H1.
  Qed.

  (* what the replay shares with the original run *)
  Definition same_outcome (r1 r2 : result) (st1 st2 : sstate) : Prop :=
    r_score r2 = r_score r1 /\ r_move r2 = r_move r1 /\ r_ponder r2 = r_ponder r1
    /\ (r_reports r2 = r_reports r1 \/ exists d, r_reports r2 = r_reports r1 ++ [RAbort d N])
    /\ s_tt st2 = s_tt st1 /\ s_rk st2 = s_rk st1 /\ s_gen st2 = s_gen st1 /\ s_nodes st2 = N.

  Lemma same_refl r st : s_nodes st = N -> same_outcome r r st st.
  Proof. intros H. unfold same_outcome. repeat split; auto. Qed.

  Lemma deepen_replay : forall todo st b d al be sc mv pd reps r1 st1 b1,
    deepen fuel o1 todo st b d al be sc mv pd reps = Ok (r1, st1, b1) ->
    s_aborted st1 = false -> s_nodes st1 = N -> N <> -1 -> 0 <= d ->
    exists r2 st2, deepen fuel o2 todo st b d al be sc mv pd reps = Ok (r2, st2, b1) /\ same_outcome r1 r2 st1 st2.
  Proof.
    induction todo as [|todo IH]; intros st b d al be sc mv pd reps r1 st1 b1 H1 Hab HN Hne Hd; cbn [deepen] in H1 |- *.
    - injection H1 as <- <- <-. eexists _, _. split; [reflexivity|]. now apply same_refl.
    - change (o_depth o2) with (o_depth o1).
      destruct (negb ((d <? SearchParams.MaxPlies) && (d <=? o_depth o1))) eqn:Cd.
      { injection H1 as <- <- <-. eexists _, _. split; [reflexivity|]. now apply same_refl. }
      destruct (aspire fuel o1 64 st b al be 1 d) as [a| |] eqn:Ea; cbn [bind] in H1; [ | discriminate H1 | discriminate H1 ].
      pose proof (aspire_flag _ _ _ _ _ _ _ _ _ _ Ea) as Hflag.
      pose proof (aspire_plen _ _ _ _ _ _ _ _ _ _ Ea) as Hplen.
      destruct a as [s st' b'|st' b']; cbn [asp_state] in Hflag, Hplen.
      2:{ (* the original run was aborted: excluded *)
          exfalso. destruct (mv =? 0).
          - destruct (fallback st' b') as [[[m x] y]| |] eqn:F; cbn [bind] in H1; try discriminate H1.
            injection H1 as <- <- <-. apply fallback_budget with (o := o1) in F. destruct F as (_ & _ & Q & _).
            rewrite (Q Hflag) in Hab. discriminate Hab.
          - injection H1 as <- <- <-. congruence. }
      (* the iteration completed *)
      destruct (IterDeepen.adopt (Pv.active (s_pv st')) mv pd) as [mv1 pd1] eqn:Ead.
      destruct (hashfull (s_tt st') (s_gen st')) as [hf| |] eqn:Eh; cbn [bind] in H1; [ | discriminate H1 | discriminate H1 ].
      destruct (negb (mv1 =? 0) && soft_abort o1 (s_nodes st')) eqn:Cs.
      + (* the original run stops here at its soft limit *)
        injection H1 as <- <- <-.
        rewrite (aspire_A _ _ _ _ _ _ _ _ Ea Hab ltac:(cbn; lia)). cbn [bind]. rewrite Ead, Eh. cbn [bind].
        assert (soft_abort o2 (s_nodes st') = false) as -> by reflexivity. rewrite andb_false_r.
        (* the replay goes on to the next iteration *)
        destruct todo as [|todo'].
        { cbn [deepen]. eexists _, _. split; [reflexivity|]. now apply same_refl. }
        cbn [deepen]. change (o_depth o2) with (o_depth o1).
        destruct (negb ((d + 1 <? SearchParams.MaxPlies) && (d + 1 <=? o_depth o1))).
        { eexists _, _. split; [reflexivity|]. now apply same_refl. }
        (* ... and is cut at the first node of that iteration *)
        assert (Hfuel : exists f, fuel = S f).
        { destruct fuel as [|f]; [|eauto]. exfalso. cbn in Ea. discriminate Ea. }
        destruct Hfuel as [f Hf]. rewrite Hf. rewrite aspire_S.
        destruct (alphaBeta_cut f o2 st' b' (sub16 s (wrap16 SearchParams.WindowSize)) (add16 s (wrap16 SearchParams.WindowSize)) (d + 1))
          as (stc & Ec & Ca & Ctt & Crk & Cgen & Cn & _); [lia|cbn; congruence|congruence|exact Hplen|].
        rewrite Ec. cbn [bind]. rewrite Ca. cbn [bind].
        apply andb_true_iff in Cs. destruct Cs as [Cm _]. apply negb_true_iff in Cm. rewrite Cm.
        eexists _, _. split; [reflexivity|]. unfold same_outcome. cbn [r_score r_move r_ponder r_reports].
        repeat split; auto; [|congruence].
        right. exists (d + 1). cbn [rev]. rewrite Cn, HN. reflexivity.
      + (* the original run goes on *)
        pose proof (deepen_budget o1 fuel _ _ _ _ _ _ _ _ _ _ _ _ _ H1) as (Q1 & _).
        rewrite (aspire_A _ _ _ _ _ _ _ _ Ea Hflag ltac:(cbn; lia)). cbn [bind]. rewrite Ead, Eh. cbn [bind].
        assert (soft_abort o2 (s_nodes st') = false) as -> by reflexivity. rewrite andb_false_r.
        apply IH; auto. lia.
  Qed.

  (* Search.Go *)
  Theorem go_replay st b r1 st1 b1 :
    go fuel o1 st b = Ok (r1, st1, b1) -> s_aborted st1 = false -> s_nodes st1 = N -> N <> -1 ->
    exists r2 st2, go fuel o2 st b = Ok (r2, st2, b1) /\ same_outcome r1 r2 st1 st2.
  Proof.
    intros H1 Hab HN Hne. unfold go, iterative_deepen in H1 |- *.
    match type of H1 with bind ?e _ = _ => destruct e as [[[x1 y1] z1]| |] eqn:E1 end; cbn [bind] in H1; try discriminate H1.
    injection H1 as <- <- <-. cbn [s_aborted s_nodes set_gen] in Hab, HN.
    destruct (deepen_replay _ _ _ _ _ _ _ _ _ _ _ _ _ E1 Hab HN Hne ltac:(lia)) as (r2 & st2 & E2 & Hs).
    rewrite E2. cbn [bind]. eexists _, _. split; [reflexivity|].
    destruct Hs as (A1 & A2 & A3 & A4 & A5 & A6 & A7 & A8). unfold same_outcome. cbn. repeat split; auto. congruence.
  Qed.
End ReplayId.
