(* Legality of everything the closed search model (Model/Search.v) plays, stores and reports.
   One induction over the real recursion (quiescence, alphaBeta with its move loop, null move and
   re-searches) with the invariant

     on a representable valid position b, with a table holding only 15-bit move encodings and a
     well-formed PV buffer:  alphaBeta at ply p returns the board it was given, balanced move store
     and history stack, a table and a PV buffer of the same kind, leaves lines 0..p-1 alone and
     line(p) is a line of playable moves from b.

   The ingredients: the staged picker only yields generated moves (the hash move only once
   IsPseudoLegal accepted it: C05 makes it a generated move); every such move is undone exactly (C03);
   a move that passes the legality filter is playable (C01), the position after it is again
   representable and valid (C02 make_inv), so is the position after a null move out of check;
   pv.insert(p, m) reads the child's line right after the child's last search (Pv refinement). *)
From Coq Require Import NArith ZArith List Bool Lia Permutation.
From Chess3 Require Import Proofs.LayoutNow.
From Chess3 Require Import Base.Bits Base.Word Model.Types Model.BoardDef Model.Board Model.Search
  Spec.Chess Spec.Rep Spec.Applicable Proofs.PickerProofs Proofs.SearchModelInv Proofs.SearchModelPicker
  Proofs.SearchModelBoard Proofs.SearchModelLegalBase.
From Chess3 Require Model.Movegen Model.Mate Model.Eval Model.TT Model.Hist Model.Picker Model.See
  Model.Pv Model.IterDeepen Proofs.PvProofs.
Import ListNotations.
Open Scope Z_scope.

(* ---- updates that leave the table / the PV buffer alone ---- *)
Lemma tt_trace s p e : s_tt (trace s p e) = s_tt s.
Proof. unfold trace. destruct (p <=? s_tracing s); reflexivity. Qed.
Lemma pv_trace s p e : s_pv (trace s p e) = s_pv s.
Proof. unfold trace. destruct (p <=? s_tracing s); reflexivity. Qed.
Lemma tt_inc o s : s_tt (inc_nodes o s) = s_tt s.
Proof. unfold inc_nodes. destruct (IterDeepen.increment_nodes _ _ _). reflexivity. Qed.
Lemma pv_inc o s : s_pv (inc_nodes o s) = s_pv s.
Proof. unfold inc_nodes. destruct (IterDeepen.increment_nodes _ _ _). reflexivity. Qed.
Lemma pv_insert s b d ply sm v t : s_pv (tt_insert s b d ply sm v t) = s_pv s.
Proof. reflexivity. Qed.

Ltac proj2_simpl :=
  repeat (rewrite ?ms_trace, ?hs_trace, ?ms_inc, ?hs_inc, ?ms_insert, ?hs_insert,
                  ?tt_trace, ?pv_trace, ?tt_inc, ?pv_inc, ?pv_insert in *;
          cbn [s_ms s_hs s_tt s_pv set_ms set_hs set_pv set_tt set_rk set_trace set_nodes set_aborted set_gen] in * ).

Lemma mv_ok_0 : mv_ok 0.
Proof. unfold mv_ok. lia. Qed.

Lemma wrap8_succ ply : 0 <= ply <= 62 -> wrap8 (ply + 1) = ply + 1.
Proof. intros H. unfold wrap8. rewrite Z.mod_small; lia. Qed.

Lemma ranked_genmv f b ms l : (forall m, In m ms -> In m (Movegen.gen_all b)) ->
  ranked f ms = Ok l -> Forall (genmv b) l.
Proof.
  intros Hin H. apply map_res_fst in H. apply Forall_forall. intros mw Hmw.
  assert (In (fst mw) (map zN ms)) as Hi by (rewrite <- H; now apply in_map).
  apply in_map_iff in Hi. destruct Hi as (m & Hm & Hi). unfold genmv. rewrite <- Hm. apply in_map. auto.
Qed.

Lemma in_noisy b m : In m (Movegen.gen_noisy b) -> In m (Movegen.gen_all b).
Proof. intros H. unfold Movegen.gen_all. apply in_or_app. now left. Qed.
Lemma in_quiet b m : In m (Movegen.gen_quiet b) -> In m (Movegen.gen_all b).
Proof. intros H. unfold Movegen.gen_all. apply in_or_app. now right. Qed.

(* what the search knows about a move of the picker's frame once it has been made *)
Lemma made_move b y b1 r : good b -> genmv b y -> make zob b (Z.to_N (fst y)) = (b1, r) ->
  undo zob b1 (Z.to_N (fst y)) r = b /\ mv_ok (fst y) /\
  (in_check b1 (flip (stm b1)) = false -> good b1 /\ In (fst y) (map zN (Movegen.playable zob b))).
Proof.
  intros Hg Hy Em. destruct (genmv_elim b y Hy) as (Hin & Hz & Hok).
  split; [eapply good_undo; [exact Hg|now apply good_gen_applicable|exact Em]|]. split; [exact Hok|].
  intros Hc. pose proof (filter_is_playable b _ b1 r Hin Em Hc) as Hp. split.
  - replace b1 with (fst (make zob b (Z.to_N (fst y)))) by now rewrite Em. now apply playable_good.
  - rewrite Hz. now apply in_map.
Qed.

Definition pv_below (ply : Z) (st st' : sstate) : Prop :=
  forall q, 0 <= q < ply -> Pv.line (s_pv st') q = Pv.line (s_pv st) q.

Lemma pv_below_refl ply st : pv_below ply st st.
Proof. intros q _. reflexivity. Qed.
Lemma pv_below_trans ply a b c : pv_below ply a b -> pv_below ply b c -> pv_below ply a c.
Proof. intros H1 H2 q Hq. rewrite (H2 q Hq). apply H1, Hq. Qed.
Lemma pv_below_weaken p p' a b : p' <= p -> pv_below p a b -> pv_below p' a b.
Proof. intros Hle H q Hq. apply H. lia. Qed.
Lemma pv_below_eq ply a b : s_pv b = s_pv a -> pv_below ply a b.
Proof. intros E q _. now rewrite E. Qed.

(* ------------------------------------------------------------------------------------------ *)
(* quiescence: never touches the PV buffer *)

Definition q_leg (f : sstate -> board -> Z -> Z -> Z -> res rt) : Prop :=
  forall st b al be ply v st' b', good b -> tt_ok (s_tt st) -> f st b al be ply = Ok (v, st', b') ->
    b' = b /\ balq st st' /\ tt_ok (s_tt st') /\ s_pv st' = s_pv st.

Section Q.
  Variable qchild : sstate -> board -> Z -> Z -> Z -> res rt.
  Hypothesis Hq : q_leg qchild.

  Lemma qs_loop_leg fr L : forall n st b Y R al be maxim delta ply v st' b',
    good b -> Forall (genmv b) (Y ++ R) -> (exists X, framed (s_ms st) fr L X) -> tt_ok (s_tt st) ->
    qs_loop qchild n st b (Y ++ R) (length Y) al be maxim delta ply = Ok (v, st', b') ->
    b' = b /\ s_hs st' = s_hs st /\ (exists X', framed (s_ms st') fr L X') /\ tt_ok (s_tt st') /\ s_pv st' = s_pv st.
  Proof.
    induction n as [|n IH]; intros st b Y R al be maxim delta ply v st' b' Hg HA [X HX] Ht H; [discriminate H|].
    cbn [qs_loop] in H. rewrite skipn_app_len in H.
    pose proof (scan_swap Y R (wrap16 (- SearchParams.Inf - 1))) as Hs.
    destruct (Picker.scan R (length Y) (wrap16 (- SearchParams.Inf - 1)) None) as [best|].
    2:{ walk. proj2_simpl. splits; eauto. apply tt_insert_ok; [exact Ht|exact mv_ok_0]. }
    destruct Hs as (y & Rm & Hsw & Hperm). rewrite Hsw in H.
    assert (HA' : Forall (genmv b) ((Y ++ [y]) ++ Rm)).
    { rewrite <- app_assoc. cbn [app]. apply Forall_app in HA. destruct HA as [HY HR].
      apply Forall_app. split; [exact HY|]. eapply Permutation_Forall; [apply Permutation_sym; exact Hperm|exact HR]. }
    assert (Hy : nth (length Y) ((Y ++ [y]) ++ Rm) (0, 0) = y).
    { rewrite <- app_assoc. cbn [app]. apply nth_middle. }
    rewrite Hy in H.
    assert (Ay : genmv b y).
    { apply Forall_app in HA'. destruct HA' as [HA' _]. apply Forall_app in HA'. destruct HA' as [_ HA'].
      now inversion HA'. }
    assert (HX' : framed (Picker.store_write_frame (s_ms st) ((Y ++ [y]) ++ Rm)) fr L ((Y ++ [y]) ++ Rm)).
    { eapply framed_write. exact HX. }
    assert (Hlen : S (length Y) = length (Y ++ [y])) by (rewrite app_length; cbn; lia).
    rewrite Hlen in H.
    destruct (snd y <? 0) eqn:Cw.
    { walk. proj2_simpl. splits; eauto. apply tt_insert_ok; [exact Ht|exact mv_ok_0]. }
    destruct (make zob b (Z.to_N (fst y))) as [b1 r] eqn:Em.
    destruct (made_move _ _ _ _ Hg Ay Em) as (Hu & Hok & Hleg).
    destruct (in_check b1 (flip (stm b1))) eqn:Ck.
    { rewrite Hu in H. eapply IH in H; [exact H|exact Hg|exact HA'|proj2_simpl; eauto|exact Ht]. }
    destruct (Hleg eq_refl) as [Hg1 _].
    walk;
      try match goal with E : qchild _ _ _ _ _ = Ok _ |- _ =>
            apply Hq in E; [|exact Hg1|proj2_simpl; exact Ht];
            destruct E as (-> & [QQ1 QQ2] & QQ3 & QQ4); proj2_simpl end;
      rewrite ?Hu in *.
    all: try (match goal with E : qs_loop _ _ _ _ _ _ _ _ _ _ _ = Ok _ |- _ =>
                eapply IH in E; [ | exact Hg | exact HA' | rewrite QQ1; eauto | exact QQ3 ];
                destruct E as (-> & Hh & HX2 & Ht2 & Hp2); rewrite Hh, Hp2, QQ2, QQ4; proj2_simpl; auto end).
    all: proj2_simpl; rewrite ?QQ1, ?QQ2, ?QQ4; splits; eauto.
    all: try (apply tt_insert_ok; [assumption|first [exact mv_ok_0|exact Hok]]).
  Qed.

  Lemma qs_body_leg o : q_leg (qs_body o qchild).
  Proof.
    intros st b al be ply v st' b' Hg Ht H. unfold qs_body, qs_pushed in H. walk; unfold balq; proj2_simpl; auto.
    match goal with E : qs_loop _ _ _ _ _ _ _ _ _ _ _ = Ok _ |- _ =>
      eapply (qs_loop_leg (length (Picker.s_data (s_ms st)) :: Picker.s_frames (s_ms st)) (Picker.s_data (s_ms st))
                           _ _ _ [] _) in E;
      [ destruct E as (-> & Hh & (X' & HX') & Ht' & Hp'); proj2_simpl; splits; auto;
        eapply pop_framed; exact HX'
      | exact Hg
      | cbn [app]; eapply ranked_genmv; [|eassumption]; exact (in_noisy b)
      | proj2_simpl; eexists; eapply framed_write; eapply alloc_all_framed; [eassumption|]; apply push_framed
      | proj2_simpl; exact Ht ] end.
  Qed.
End Q.

Lemma quiescence_leg o : forall fuel, q_leg (quiescence fuel o).
Proof.
  induction fuel as [|f IH]; intros st b al be ply v st' b' Hg Ht H; [discriminate H|].
  cbn [quiescence] in H. exact (qs_body_leg _ IH o _ _ _ _ _ _ _ _ Hg Ht H).
Qed.

(* ------------------------------------------------------------------------------------------ *)
(* the staged picker on a good position only yields generated moves *)

Section PickerLegal.
  Variable b : board.
  Hypothesis Hg : good b.
  Variables (fr : list nat) (L : list Picker.wmove).

  Definition gpost p p' (more : bool) := post (genmv b) fr L p p' more.

  Lemma pnext_quiet_leg rk hs p ipl noisy more p' : pinv (genmv b) fr L p ->
    (ipl = true -> genmv b (Picker.p_hash p, 0)) -> Forall (genmv b) noisy ->
    pnext_quiet rk hs b p ipl noisy = Ok (more, p') -> gpost p p' more.
  Proof.
    intros Hp Hipl HN H. unfold pnext_quiet in H. walk.
    - eapply (next_inv (genmv b) (genmv_w b)); [exact Hp| | | |eassumption]; cbn; auto.
      eapply ranked_genmv; [|eassumption]. exact (in_quiet b).
    - eapply (next_inv (genmv b) (genmv_w b)); [exact Hp| | | |eassumption]; cbn; auto.
  Qed.

  Lemma pnext_noisy_leg rk hs p ipl more p' : pinv (genmv b) fr L p ->
    (ipl = true -> genmv b (Picker.p_hash p, 0)) ->
    pnext_noisy rk hs b p ipl = Ok (more, p') -> gpost p p' more.
  Proof.
    intros Hp Hipl H. unfold pnext_noisy in H. walk.
    eapply pnext_quiet_leg; [exact Hp|exact Hipl| |eassumption].
    eapply ranked_genmv; [|eassumption]. exact (in_noisy b).
  Qed.

  Lemma pnext_leg rk hs p more p' : mv_ok (Picker.p_hash p) -> pinv (genmv b) fr L p ->
    pnext rk hs b p = Ok (more, p') -> gpost p p' more.
  Proof.
    intros Hh Hp H. unfold pnext in H. destruct (Picker.p_state p) eqn:Hst.
    - destruct (Movegen.is_pseudo_legal b (Z.to_N (Picker.p_hash p))) eqn:Ei.
      + walk. eapply (next_inv (genmv b) (genmv_w b)); [exact Hp| | | |eassumption]; cbn; auto.
        intros _. now apply hash_genmv.
      + eapply pnext_noisy_leg; [exact Hp| |exact H]; discriminate.
    - eapply pnext_noisy_leg; [exact Hp| |exact H]; discriminate.
    - eapply pnext_quiet_leg; [exact Hp| |constructor|exact H]; discriminate.
    - eapply pnext_quiet_leg; [exact Hp| |constructor|exact H]; discriminate.
    - walk. eapply (next_inv (genmv b) (genmv_w b)); [exact Hp| | | |eassumption]; cbn; auto. discriminate.
  Qed.
End PickerLegal.

Lemma pinv_framed' A fr L p : pinv A fr L p -> exists X, framed (Picker.p_store p) fr L X.
Proof. intros (Y & Rr & Hf & _). eauto. Qed.

Lemma insert_line pv ply m pv1 : PvProofs.wf pv -> 0 <= ply <= 62 -> Pv.insert pv ply m = Some pv1 ->
  PvProofs.wf pv1 /\ Pv.line pv1 ply = m :: Pv.line pv (ply + 1) /\
  (forall q, 0 <= q <= 63 -> q <> ply -> Pv.line pv1 q = Pv.line pv q).
Proof.
  intros Hw Hp E. destruct (PvProofs.insert_spec pv ply m Hw Hp) as (pv' & E' & W & _ & Hl & Ho).
  rewrite E in E'. injection E' as ->. auto.
Qed.

Lemma set_null_line pv ply pv1 : PvProofs.wf pv -> 0 <= ply <= 63 -> Pv.set_null pv ply = Some pv1 ->
  PvProofs.wf pv1 /\ Pv.line pv1 ply = [] /\
  (forall q, 0 <= q <= 63 -> q <> ply -> Pv.line pv1 q = Pv.line pv q).
Proof.
  intros Hw Hp E. destruct (PvProofs.set_null_spec pv ply Hw Hp) as (pv' & E' & W & _ & Hl & Ho).
  rewrite E in E'. injection E' as ->. auto.
Qed.

(* ------------------------------------------------------------------------------------------ *)
(* alphaBeta *)

Definition ab_leg (f : sstate -> board -> Z -> Z -> Z -> Z -> Z -> res rt) : Prop :=
  forall st b al be d ply nt v st' b', good b -> state_ok st -> 0 <= ply <= 63 ->
    f st b al be d ply nt = Ok (v, st', b') ->
    b' = b /\ balq st st' /\ state_ok st' /\ zline b (Pv.line (s_pv st') ply) /\ pv_below ply st st'.

(* facts about a finished child call, as the callers use them *)
Definition after_child (ply : Z) (b1 : board) (st st' : sstate) : Prop :=
  balq st st' /\ state_ok st' /\ zline b1 (Pv.line (s_pv st') (ply + 1)) /\ pv_below (ply + 1) st st'.

Section Node.
  Variable child : sstate -> board -> Z -> Z -> Z -> Z -> Z -> res rt.
  Variable qs : sstate -> board -> Z -> Z -> Z -> res rt.
  Hypothesis Hc : ab_leg child.
  Hypothesis Hq : q_leg qs.

  Lemma child_call st b1 al be d ply nt v st' b' : good b1 -> state_ok st -> 0 <= ply <= 62 ->
    child st b1 al be d (wrap8 (ply + 1)) nt = Ok (v, st', b') -> b' = b1 /\ after_child ply b1 st st'.
  Proof.
    intros Hg Hs Hp H. rewrite wrap8_succ in H by exact Hp.
    apply Hc in H; [|exact Hg|exact Hs|lia]. destruct H as (-> & HB & HS & HZ & HP). split; [reflexivity|]. unfold after_child. auto.
  Qed.

  Lemma after_child_trans ply b1 a b c : after_child ply b1 a b -> after_child ply b1 b c -> after_child ply b1 a c.
  Proof.
    intros (B1 & S1 & Z1 & P1) (B2 & S2 & Z2 & P2). split; [|split; [exact S2|split; [exact Z2|]]].
    - destruct B1, B2. split; congruence.
    - eapply pv_below_trans; eassumption.
  Qed.

  (* the searches of one move: whenever the value beats alpha the last thing done was a child search *)
  Lemma search_move_leg st b1 al be d ply nt next mc qc ic imp v st' b' : good b1 -> state_ok st -> 0 <= ply <= 62 ->
    search_move child st b1 al be d ply nt next mc qc ic imp = Ok (v, st', b') ->
    b' = b1 /\ balq st st' /\ state_ok st' /\ pv_below (ply + 1) st st' /\
    (al < v -> zline b1 (Pv.line (s_pv st') (ply + 1))).
  Proof.
    intros Hg Hs Hp H. unfold search_move in H. walk.
    all: repeat match goal with E : child _ _ _ _ _ _ _ = Ok _ |- _ =>
           apply child_call in E; [|exact Hg|first [exact Hs|assumption]|exact Hp];
           let A := fresh "A" in destruct E as [-> A]; pose proof A as (_ & ? & _ & _) end.
    all: split; [reflexivity|].
    all: repeat match goal with A : after_child _ _ ?a ?b, B : after_child _ _ ?b ?c |- _ =>
           pose proof (after_child_trans _ _ _ _ _ A B); clear A B end.
    all: try match goal with A : after_child _ _ ?a ?s |- _ /\ _ /\ pv_below _ ?a ?s /\ _ =>
           destruct A as (B & S & Z & P); splits; auto end.
    splits; auto using balq_refl, pv_below_refl.
    match goal with C : (0 <=? al) = true |- _ => apply Z.leb_le in C; lia end.
  Qed.

  Lemma ab_finish_leg st b d ply maxim best ic hl fl v st' b' : tt_ok (s_tt st) -> mv_ok best ->
    ab_finish st b d ply maxim best ic hl fl = Ok (v, st', b') ->
    b' = b /\ balq st st' /\ tt_ok (s_tt st') /\ s_pv st' = s_pv st.
  Proof.
    intros Ht Hb H. unfold ab_finish in H. walk. split; [reflexivity|].
    destruct (if hl then fl else false); (split; [split; reflexivity|]); (split; [|reflexivity]);
      apply tt_insert_ok; auto using mv_ok_0.
  Qed.

  Lemma ab_static_leg st b be d ply e st' b' : good b -> state_ok st -> 0 <= ply <= 62 ->
    ab_static child st b be d ply (in_check b (stm b)) = Ok (e, st', b') ->
    b' = b /\ balq st st' /\ state_ok st' /\ pv_below (ply + 1) st st'.
  Proof.
    intros Hg Hs Hp H. unfold ab_static in H.
    destruct (in_check b (stm b)) eqn:Ic; [walk; splits; auto using balq_refl, pv_below_refl|].
    destruct (make_null zob b) as [b1 rev] eqn:En. destruct (null_good _ _ _ Hg Ic En) as [Hg1 Hu].
    walk.
    all: repeat match goal with E : child _ _ _ _ _ _ _ = Ok _ |- _ =>
           apply child_call in E; [|exact Hg1|exact Hs|exact Hp];
           let A := fresh "A" in destruct E as [-> A]; destruct A as (? & ? & _ & ?) end.
    all: rewrite ?Hu; splits; auto using balq_refl, pv_below_refl.
  Qed.

  Lemma ab_loop_leg fr L : forall n st b p al be d ply nt se maxim best ic imp hl fl mc qc v st' b',
    good b -> state_ok st -> 0 <= ply <= 62 -> pinv (genmv b) fr L (p_with_store p (s_ms st)) ->
    mv_ok (Picker.p_hash p) -> mv_ok best -> zline b (Pv.line (s_pv st) ply) ->
    ab_loop child n st b p al be d ply nt se maxim best ic imp hl fl mc qc = Ok (v, st', b') ->
    b' = b /\ s_hs st' = s_hs st /\ (exists X, framed (s_ms st') fr L X) /\ state_ok st' /\
    zline b (Pv.line (s_pv st') ply) /\ pv_below ply st st'.
  Proof.
    induction n as [|n IH]; intros st b p al be d ply nt se maxim best ic imp hl fl mc qc v st' b' Hg Hs Hply Hp Hh Hb Hz H; [discriminate H|].
    cbn [ab_loop] in H.
    destruct (pnext (s_rk st) (s_hs st) b (p_with_store p (s_ms st))) as [[more p1]| |] eqn:Ep; cbn [bind] in H; try discriminate H.
    destruct (pnext_leg b Hg fr L _ _ (p_with_store p (s_ms st)) _ _ Hh Hp Ep) as (Hp1 & Hh1 & Hcur). cbn [p_with_store Picker.p_hash] in Hh1.
    destruct Hs as [Ht Hw].
    destruct more; cbn [negb] in H.
    2:{ apply ab_finish_leg in H; [|proj2_simpl; exact Ht|exact Hb]. destruct H as (-> & [Q1 Q2] & Q3 & Q4). proj2_simpl.
        unfold state_ok. rewrite Q1, Q2, Q4. splits; auto using pv_below_eq. eapply pinv_framed'; exact Hp1. }
    destruct (Hcur eq_refl) as [Acur Hix1]. clear Hcur.
    destruct (make zob b (Z.to_N (fst (Picker.current p1)))) as [b1 r] eqn:Em.
    destruct (made_move _ _ _ _ Hg Acur Em) as (Hu & Hok & Hleg).
    destruct (in_check b1 (flip (stm b1))) eqn:Ck.
    { rewrite Hu in H. eapply IH in H; [ | exact Hg | split; proj2_simpl; assumption | exact Hply
                                         | proj2_simpl; rewrite pws_id; exact Hp1 | congruence | exact Hb | proj2_simpl; exact Hz ].
      proj2_simpl. exact H. }
    destruct (Hleg eq_refl) as [Hg1 Hplay]. clear Hleg.
    destruct (hs_push _ _) as [hs1| |] eqn:Eh; cbn [bind] in H; try discriminate H.
    apply hs_push_ok in Eh. subst hs1.
    destruct (search_move _ _ _ _ _ _ _ _ _ _ _ _ _) as [[[value st2] b2]| |] eqn:Es; cbn [bind] in H; try discriminate H.
    apply search_move_leg in Es; [|exact Hg1|split; proj2_simpl; assumption|exact Hply].
    destruct Es as (-> & [Q1 Q2] & [Ht2 Hw2] & Hbel & Hzc). proj2_simpl.
    rewrite Hu in H.
    destruct (hs_pop (s_hs st2)) as [hs2| |] eqn:Eo; cbn [bind] in H; try discriminate H.
    rewrite Q2 in Eo. cbn [hs_pop] in Eo. injection Eo as <-.
    rewrite ?Q1, ?pws_id in H.
    destruct (poke_inv (genmv b) (genmv_w b) fr L p1 (Some value) Hp1 Hix1) as [Hp2 Hh2].
    destruct (poke_inv (genmv b) (genmv_w b) fr L p1 (Some (wrap16 (- SearchParams.Inf))) Hp1 Hix1) as [Hp3 Hh3].
    assert (Hl2 : Pv.line (s_pv st2) ply = Pv.line (s_pv st) ply) by (apply Hbel; lia).
    assert (Hz2 : zline b (Pv.line (s_pv st2) ply)) by (rewrite Hl2; exact Hz).
    assert (Hb2 : pv_below ply st st2) by (intros q Hqq; apply Hbel; lia).
    walk.
    all: proj2_simpl; rewrite ?Q1, ?pws_id in *.
    - (* aborted *)
      unfold state_ok, pv_below. proj2_simpl. splits; auto. eapply pinv_framed'; exact Hp1.
    - (* fail high *)
      unfold state_ok, pv_below. proj2_simpl. splits; auto; [eapply pinv_framed'; exact Hp1|].
      apply tt_insert_ok; proj2_simpl; assumption.
    - (* alpha raised, late move pruning ends the loop *)
      destruct (insert_line _ _ _ _ Hw2 Hply E0) as (W0 & L0 & O0). apply Z.ltb_lt in C0.
      assert (Z0 : zline b (Pv.line p0 ply)).
      { rewrite L0. cbn [zline]. rewrite Em. cbn [fst]. split; [exact Hplay|apply Hzc, C0]. }
      assert (B0 : forall q, 0 <= q < ply -> Pv.line p0 q = Pv.line (s_pv st) q).
      { intros q Hqq. rewrite O0 by lia. apply Hb2. exact Hqq. }
      apply ab_finish_leg in H; [|proj2_simpl; exact Ht2|exact Hok].
      destruct H as (-> & [R1 R2] & R3 & R4). proj2_simpl. unfold state_ok, pv_below. rewrite R1, R2, R4.
      splits; auto. eapply pinv_framed'; exact Hp2.
    - (* alpha raised, next move *)
      destruct (insert_line _ _ _ _ Hw2 Hply E0) as (W0 & L0 & O0). apply Z.ltb_lt in C0.
      assert (Z0 : zline b (Pv.line p0 ply)).
      { rewrite L0. cbn [zline]. rewrite Em. cbn [fst]. split; [exact Hplay|apply Hzc, C0]. }
      assert (B0 : forall q, 0 <= q < ply -> Pv.line p0 q = Pv.line (s_pv st) q).
      { intros q Hqq. rewrite O0 by lia. apply Hb2. exact Hqq. }
      eapply IH in H; [ | exact Hg | split; proj2_simpl; assumption | exact Hply
                        | proj2_simpl; rewrite ?pws_id; exact Hp2 | congruence | exact Hok | proj2_simpl; exact Z0 ].
      destruct H as (-> & R1 & R2 & R3 & R4 & R5). proj2_simpl. splits; auto.
      intros q Hqq. rewrite (R5 q Hqq). proj2_simpl. apply B0, Hqq.
    - (* no improvement, late move pruning ends the loop *)
      apply ab_finish_leg in H; [|proj2_simpl; exact Ht2|exact Hb].
      destruct H as (-> & [R1 R2] & R3 & R4). proj2_simpl. unfold state_ok, pv_below. rewrite R1, R2, R4.
      splits; auto. eapply pinv_framed'; exact Hp3.
    - (* no improvement, next move *)
      eapply IH in H; [ | exact Hg | split; proj2_simpl; assumption | exact Hply
                        | proj2_simpl; rewrite ?pws_id; exact Hp3 | congruence | exact Hb | proj2_simpl; exact Hz2 ].
      destruct H as (-> & R1 & R2 & R3 & R4 & R5). proj2_simpl. splits; auto.
      intros q Hqq. rewrite (R5 q Hqq). proj2_simpl. apply Hb2, Hqq.
  Qed.

  Lemma ab_body_leg o : ab_leg (ab_body o child qs).
  Proof.
    intros st b al be d ply nt v st' b' Hg [Ht Hw] Hply H. unfold ab_body in H.
    destruct (Pv.set_null (s_pv st) ply) as [pv1|] eqn:Epv; cbn [of_opt bind] in H; [|discriminate H].
    destruct (set_null_line _ _ _ Hw Hply Epv) as (W1 & L1 & O1).
    assert (B1 : forall s, s_pv s = pv1 -> pv_below ply st s).
    { intros s Es q Hqq. rewrite Es. apply O1; lia. }
    destruct ((d =? 0) || (SearchParams.MaxPlies - 1 <=? ply)) eqn:Cq.
    { apply Hq in H; [|exact Hg|proj2_simpl; exact Ht]. destruct H as (-> & [Q1 Q2] & Q3 & Q4). proj2_simpl.
      unfold state_ok, balq. rewrite Q4, L1. splits; auto. exact I. }
    apply orb_false_iff in Cq. destruct Cq as [_ Cq]. apply Z.leb_gt in Cq. change SearchParams.MaxPlies with 64 in Cq.
    assert (Hp62 : 0 <= ply <= 62) by lia.
    set (st0 := trace (inc_nodes o (set_pv st pv1)) ply [1; ply; d; al; be; nt; s_nodes (inc_nodes o (set_pv st pv1))]) in *.
    assert (M0 : s_ms st0 = s_ms st) by (unfold st0; proj2_simpl; reflexivity).
    assert (H0 : s_hs st0 = s_hs st) by (unfold st0; proj2_simpl; reflexivity).
    assert (T0 : s_tt st0 = s_tt st) by (unfold st0; proj2_simpl; reflexivity).
    assert (P0 : s_pv st0 = pv1) by (unfold st0; proj2_simpl; reflexivity).
    assert (S0 : state_ok st0) by (split; [rewrite T0; exact Ht|rewrite P0; exact W1]).
    assert (Fin0 : b = b /\ balq st st0 /\ state_ok st0 /\ zline b (Pv.line (s_pv st0) ply) /\ pv_below ply st st0).
    { rewrite P0, L1. split; [reflexivity|]. split; [split; assumption|]. split; [exact S0|]. split; [exact I|]. apply B1, P0. }
    destruct (s_aborted st0); [walk; exact Fin0|].
    destruct ((100 <=? fifty b) || (wrap8 (3 - Z.min ply 1) <=? threefold b)); [walk; exact Fin0|].
    assert (Hhm : mv_ok (match TT.lookup (s_tt st0) (zN (cur_hash b)) with Some e => TT.e_move e | None => 0 end)).
    { destruct (TT.lookup (s_tt st0) (zN (cur_hash b))) as [e|] eqn:El; [|exact mv_ok_0].
      eapply tt_ok_lookup; [|exact El]. rewrite T0. exact Ht. }
    match type of H with match ?e with _ => _ end = _ => destruct e end; [walk; exact Fin0|].
    destruct (ab_static child st0 b be d ply (in_check b (stm b))) as [[[e st1] b1]| |] eqn:Es; cbn [bind] in H; try discriminate H.
    apply ab_static_leg in Es; [|exact Hg|exact S0|exact Hp62]. destruct Es as (-> & [M1 H1] & [T1 W1'] & Bel1).
    assert (L1' : Pv.line (s_pv st1) ply = []) by (rewrite (Bel1 ply) by lia; rewrite P0; exact L1).
    assert (B1' : pv_below ply st st1).
    { intros q Hqq. rewrite (Bel1 q) by lia. rewrite P0. apply O1; lia. }
    destruct e as [v0|se imp].
    { walk. rewrite L1'. splits; auto; [split; congruence|split; assumption|exact I]. }
    match type of H with bind ?e _ = _ => destruct e as [[[v1 st2] b2]| |] eqn:El end; cbn [bind] in H; try discriminate H.
    walk.
    eapply (ab_loop_leg (length (Picker.s_data (s_ms st1)) :: Picker.s_frames (s_ms st1)) (Picker.s_data (s_ms st1))) in El;
      [ | exact Hg | split; proj2_simpl; assumption | exact Hp62 | | cbn [Picker.picker_new Picker.p_hash]; exact Hhm
        | exact mv_ok_0 | proj2_simpl; rewrite L1'; exact I ].
    - destruct El as (-> & H2 & (X & HX) & [T2 W2] & Z2 & B2). proj2_simpl. unfold balq, state_ok. proj2_simpl.
      splits; auto; [rewrite (pop_framed _ _ _ HX); congruence|congruence|].
      intros q Hqq. proj2_simpl. rewrite (B2 q Hqq). proj2_simpl. apply B1', Hqq.
    - proj2_simpl. exists [], []. cbn [app]. unfold p_with_store, Picker.picker_new. cbn.
      repeat split; auto. apply push_framed.
  Qed.
End Node.

Lemma alphaBeta_leg o : forall fuel, ab_leg (alphaBeta fuel o).
Proof.
  induction fuel as [|f IH]; intros st b al be d ply nt v st' b' Hg Hs Hp H; [discriminate H|].
  cbn [alphaBeta] in H. exact (ab_body_leg _ _ IH (quiescence_leg o f) o _ _ _ _ _ _ _ _ _ _ Hg Hs Hp H).
Qed.
