(* C20 - Each training position is processed exactly once per tuning epoch.
   Statements only; proofs live in Proofs/ShuffleProofs.v, Proofs/BatchProofs.v and
   Proofs/ChunkerProofs.v. Models: Model/Shuffle.v (shuffleIndex / feistel / roundFunc),
   Model/Batch.v (Batches / Chunks), Model/Chunker.v (ByLines, NewChunker, Open, Read, the schedule).
   Specification vocabulary: Spec/Perm.v (perm_of_range, partitions, nonblank_lines, slice).
   The constants (number of Feistel rounds, key increment, shifts, multiplier, NumLinesInBatch,
   NumChunksInBatch, the line reader's buffer size) come from Gen/TunerConsts.v, regenerated from
   the working tree on every run.

   uint64 values are N with explicit truncation, Go ints are Z with explicit wrap-around, a file is
   its list of bytes. The round function of the Feistel network is a universally quantified
   variable F: nothing below depends on what roundFunc computes. *)
From Coq Require Import ZArith NArith List Permutation.
From Chess3 Require Import Base.Loop Gen.TunerConsts Model.Shuffle Model.Batch Model.Chunker Spec.Perm
  Proofs.ShuffleProofs Proofs.BatchProofs Proofs.ChunkerProofs Proofs.JudgeProofs.
Import ListNotations.

(* ---------------------------------------------------------------------------------------------- *)
(* the shuffle *)

(* the Feistel network is an injection of [0,2^bits) into itself, for every width 0..64 (odd
   widths = unbalanced halves included) and every round function *)
Theorem C20_feistel_injective : forall (F : N -> N -> N) (seed bits x x' : N),
  (bits <= 64 -> x < 2 ^ bits -> x' < 2 ^ bits ->
   feistel_gen F x seed bits = feistel_gen F x' seed bits -> x = x')%N.
Proof. intros F seed bits x x' Hb. exact (feistel_inj F bits Hb feistel_rounds_even x x' seed). Qed.
Print Assumptions C20_feistel_injective.

Theorem C20_feistel_range : forall (F : N -> N -> N) (seed bits x : N),
  (bits <= 64 -> feistel_gen F x seed bits < 2 ^ bits)%N.
Proof. intros F seed bits x Hb. exact (feistel_range F bits Hb feistel_rounds_even x seed). Qed.
Print Assumptions C20_feistel_range.

(* the rejection loop of shuffleIndex ends within its fuel of 2^bits turns (the Go loop has no
   bound; the model's [None] = "fuel exhausted" never happens) and answers below n *)
Theorem C20_shuffle_terminates : forall (F : N -> N -> N) (n seed x : N),
  (1 <= n < 2 ^ 64 -> x < n -> exists y, shuffle_index_gen F x n seed = Some y /\ y < n)%N.
Proof. exact (fun F => shuffle_total F feistel_rounds_even). Qed.
Print Assumptions C20_shuffle_terminates.

(* shuffleIndex(., n, seed) is a permutation of 0..n-1, for every n >= 1 and every seed *)
Theorem C20_shuffle_permutation : forall (F : N -> N -> N) (n seed : N),
  (1 <= n < 2 ^ 64)%N -> perm_of_range (shuffle_value F n seed) n.
Proof. exact (fun F => shuffle_perm F feistel_rounds_even). Qed.
Print Assumptions C20_shuffle_permutation.

(* ... in particular with the code's own round function *)
Theorem C20_shuffle_permutation_code : forall n seed : N,
  (1 <= n < 2 ^ 64)%N ->
  perm_of_range (fun x => match shuffle_index x n seed with Some y => y | None => 0%N end) n.
Proof. exact (shuffle_perm round_func feistel_rounds_even). Qed.
Print Assumptions C20_shuffle_permutation_code.

(* ---------------------------------------------------------------------------------------------- *)
(* batches and chunks *)

Open Scope Z_scope.

(* Batches(n) tiles [0,n) with non-empty ranges, for every positive batch length *)
Theorem C20_batches : forall L n, 0 < L -> 0 <= n -> n + L < 2 ^ 63 -> partitions (batches_gen L n) 0 n.
Proof. intros L n HL Hn Hmax. exact (proj1 (batches_partition L n HL Hn Hmax)). Qed.
Print Assumptions C20_batches.

(* Chunks(batch) tiles the batch, for all positive constants *)
Theorem C20_chunks : forall L C s e, 0 < L -> 0 < C -> L + C < 2 ^ 63 -> - 2 ^ 63 <= s -> e + L < 2 ^ 63 ->
  partitions (chunks_gen L C (s, e)) s e.
Proof. intros L C s e HL HC Hmax Hs He. exact (proj1 (chunks_partition L C s e HL HC Hmax Hs He)). Qed.
Print Assumptions C20_chunks.

(* with the constants of tuning.go as they are in the working tree *)
Theorem C20_batches_chunks_code : forall n, 0 <= n < 2 ^ 62 ->
  partitions (batches n) 0 n /\
  (forall b, In b (batches n) -> partitions (chunks b) (fst b) (snd b)) /\
  partitions (schedule n) 0 n.
Proof. exact batches_chunks_code. Qed.
Print Assumptions C20_batches_chunks_code.

(* ---------------------------------------------------------------------------------------------- *)
(* the file view *)

(* NewChunker: the manifest addresses exactly the non-blank newline-terminated lines, in file order,
   for every byte list on which it succeeds (a blank line costs its byte: F4) *)
Theorem C20_manifest : forall file ck, new_chunker file = Some ck ->
  map (fun a => slice file (fst a) (snd a - 1)) (ck_manifest ck) = nonblank_lines file.
Proof. intros file ck H. exact (proj1 (proj2 (new_chunker_spec file ck H))). Qed.
Print Assumptions C20_manifest.

(* ... and it succeeds exactly when every line fits the line reader *)
Theorem C20_manifest_total : forall file,
  (forall l, In l (terminated_lines file) -> zlen l < LineBufSize) -> zlen (snd (split_nl file)) < LineBufSize ->
  exists ck, new_chunker file = Some ck.
Proof. exact new_chunker_total. Qed.
Print Assumptions C20_manifest_total.

(* Read until EOF returns exactly the addressed bytes: for every list of line addresses (any order,
   repetitions allowed), every buffer size B >= the longest of them, and every state of the buffer
   (mapStart, mapEnd, contents) that a previous refill can have left - i.e. for every refill pattern *)
Theorem C20_read : forall file B lines ms me buf, 0 <= B -> buf_inv file B ms me buf ->
  Forall (addr_ok file) lines -> Forall (fits B) lines ->
  read_all file B lines ms me buf = Ok (map (fun a => slice file (fst a) (snd a - 1)) lines).
Proof. intros file B lines ms me buf HB Hinv Hok Hfit. exact (read_all_spec file B HB lines ms me buf Hinv Hok Hfit). Qed.
Print Assumptions C20_read.

(* ---------------------------------------------------------------------------------------------- *)
(* a whole epoch *)

(* whatever the window boundaries, the round function, the epoch and the buffer size: reading every
   window of a partition of the index range through Open/Read delivers the non-blank lines of the
   file, byte for byte, each exactly once *)
Theorem C20_epoch_any_windows : forall (F : N -> N -> N) file ck B epoch ws,
  new_chunker file = Some ck ->
  (forall l, In l (nonblank_lines file) -> zlen l <= B) ->
  line_count ck < 2 ^ 63 ->
  partitions ws 0 (line_count ck) ->
  exists ls, read_windows_gen F ck B epoch ws = Ok ls /\ Permutation ls (nonblank_lines file).
Proof.
  intros F file ck B epoch ws Hck Hfit Hn Hp.
  exact (epoch_any_partition F feistel_rounds_even file ck Hck B Hfit Hn epoch ws Hp).
Qed.
Print Assumptions C20_epoch_any_windows.

(* the tuner's schedule (every Chunks of every Batches) with the code's round function and constants *)
Theorem C20_epoch : forall file ck B epoch,
  new_chunker file = Some ck ->
  (forall l, In l (nonblank_lines file) -> zlen l <= B) ->
  line_count ck < 2 ^ 62 ->
  exists ls, epoch_read ck B epoch = Ok ls /\ Permutation ls (nonblank_lines file).
Proof. exact epoch_code. Qed.
Print Assumptions C20_epoch.

(* in the documented format (every line newline-terminated, shorter than the line reader) nothing is
   left out: the delivered multiset is the multiset of all non-blank lines, and the production
   buffer is large enough *)
Theorem C20_epoch_documented_format : forall file epoch,
  well_formed_file file ->
  (forall l, In l (terminated_lines file) -> zlen l < LineBufSize) ->
  zlen file < 2 ^ 62 ->
  exists ck ls, new_chunker file = Some ck /\ epoch_read ck BackingBytes epoch = Ok ls /\
                Permutation ls (nonblank_lines file).
Proof. exact epoch_documented. Qed.
Print Assumptions C20_epoch_documented_format.

(* ---------------------------------------------------------------------------------------------- *)
(* the executable judges of the witness search (Spec/Perm.v) compute the specification *)

Theorem C20_judge_permutation : forall n out, is_perm_list n out = true -> Permutation out (zrange 0 n).
Proof. exact is_perm_list_sound. Qed.
Print Assumptions C20_judge_permutation.

Theorem C20_judge_partition : forall fuel s e rs, tiles s e rs fuel = true -> partitions (pairs rs) s e.
Proof. intros fuel s e rs. exact (tiles_sound fuel s e rs). Qed.
Print Assumptions C20_judge_partition.

Theorem C20_judge_lines : forall file, split_fast file [] [] = split_nl file.
Proof. exact split_fast_correct. Qed.
Print Assumptions C20_judge_lines.

(* ---------------------------------------------------------------------------------------------- *)
(* non-vacuity and recorded witnesses *)

(* The examples below are stated so that they do not depend on the values of the round constants
   or batch constants (a retuned constant must not raise an alarm). *)

(* F4's witness: abc\n\ndef\nghij\n\n is read back as abc, def, ghij (it was "abc", "\nde", "\nghi");
   refill buffer of 4 bytes: every line refills *)
Example C20_F4_witness :
  let file := [97; 98; 99; 10; 10; 100; 101; 102; 10; 103; 104; 105; 106; 10; 10] in
  nonblank_lines file = [[97; 98; 99]; [100; 101; 102]; [103; 104; 105; 106]] /\
  well_formed_file file /\
  match new_chunker file with
  | Some ck => ck_manifest ck = [(0, 4); (5, 9); (9, 14)] /\
               match epoch_read ck 4 7 with
               | Ok ls => LineSort.sort ls = [[97; 98; 99]; [100; 101; 102]; [103; 104; 105; 106]]
               | _ => False
               end
  | None => False
  end.
Proof. cbv zeta. split; [reflexivity|]. split; [reflexivity|]. vm_compute. split; reflexivity. Qed.

(* outside the documented format: an unterminated last line is not a line for ByLines; it is dropped *)
Example C20_unterminated_last_line_dropped :
  let file := [97; 98; 99; 10; 100; 101; 102] in
  nonblank_lines file = [[97; 98; 99]] /\ ~ well_formed_file file /\
  match new_chunker file with Some ck => epoch_read ck 4 0 = Ok [[97; 98; 99]] | None => False end.
Proof. cbv zeta. split; [reflexivity|]. split; [discriminate|]. vm_compute. reflexivity. Qed.

(* the hypotheses of the shuffle theorems are met and the judge accepts what the model computes:
   n = 11 (5 bits: unbalanced halves, rejection walk), epoch 3 *)
Example C20_shuffle_nonvacuous :
  (1 <= 11 < 2 ^ 64)%N /\
  is_perm_list 11 (map (fun x => out_opt (shuffle_index x 11 3)) (idx 11)) = true.
Proof. split; [split; [discriminate|reflexivity]|vm_compute; reflexivity]. Qed.

(* Batches / Chunks on small constants: 25 lines, batches of 10, 4 chunks per batch *)
Example C20_batches_chunks_nonvacuous :
  batches_gen 10 25 = [(0, 10); (10, 20); (20, 25)] /\
  chunks_gen 10 4 (10, 20) = [(10, 13); (13, 16); (16, 19); (19, 20)] /\
  chunks_gen 10 4 (20, 25) = [(20, 23); (23, 25)].
Proof. vm_compute. repeat split; reflexivity. Qed.

(* Observation (not part of C20, which it does not contradict): for an odd width the wider right half
   keeps its top bit through every round (the round output is masked to the narrower half), so the
   network never changes bit bits-1: indices below 2^(bits-1) are shuffled among themselves, indices
   above among themselves, and the rejection walk of an index >= 2^(bits-1) only visits the upper
   half (about 2^(bits-1)/(n-2^(bits-1)) turns: shuffleIndex(2^30, 2^30+1, 40) needs 9 s).
   Checked here by computation for widths 3, 5, 7, 9 and seeds 0..7 (it holds for every round
   function: the masks alone cause it). *)
Example C20_observation_odd_width_keeps_top_bit :
  forallb (fun bits =>
    forallb (fun seed =>
      forallb (fun x => Bool.eqb (N.testbit (feistel x seed bits) (bits - 1)) (N.testbit x (bits - 1)))
              (idx (2 ^ bits)))
      (idx 8))
    [3; 5; 7; 9]%N = true.
Proof. vm_compute. reflexivity. Qed.
