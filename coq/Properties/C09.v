(* C09 - Fast checkmate and stalemate tests agree with the absence of legal moves.
   Statements only; proofs live in Proofs/Mate*.v and Proofs/StaleConv*.v.
   Model: Model/Mate.v (line-by-line transliteration of board/attacks.go: Attackers, Block, IsCheckmate,
   IsStalemate), tied to the code by the exact correspondence streams c09 / c09sweep / c09ab on every run.
   Spec: Spec/Chess.v (legal_spec, legal_moves, valid, normal_ep, abs), Spec/Rep.v (Rep).

   The property is proved at FULL strength: theorem [C09] below is [C09_statement], for every board
   that satisfies the representation invariant and whose position is valid with the engine's normal
   en-passant state:
       in check      ->  (IsCheckmate answers true  <->  there is no legal move)
       not in check  ->  (IsStalemate answers true  <->  there is no legal move)
   Direction "answers false -> a legal move exists" (C09_mate_sound, C09_stale_sound): every `return
   false` exhibits a legal move - king step with the king lifted from the occupancy (x-ray), capture of
   the single checker by a defender that passes the pin test (promotion captures, the idempotent
   `opp &= ^attacker`), en-passant capture of the checking pawn, interposition (pieces, single and double
   pawn pushes, pin test with ALL blocked squares filled, occNoPawn trick); pawns guaranteed not to be
   pinned, queens / bishops / rooks (a piece pinned along its own line takes the pinner), knights,
   maybe-pinned pawns (push with the target filled; capture with the pinner on a target forgiven), en
   passant.
   Direction "answers true -> no legal move" (the direction in which a defect would be a false mate or
   stalemate): every candidate move is refuted - king moves by the king-step loop (castling included),
   any other move because a checker survives it, or because the loops found the mover pinned; double
   check cannot be answered by one move; an en-passant capture cannot block a check in a valid position
   (the line would pass the pawn's origin square, DESIGN.md 4.3) so with a recorded target the tests
   answer false.
   Finite geometric facts (ray symmetry, prefixes, pins) are discharged by vm_compute over all squares. *)
From Coq Require Import NArith ZArith List Bool.
From Chess3 Require Import Base.Bits Model.Types Model.BoardDef Model.Board Model.Movegen Model.Mate
     Spec.Chess Spec.Rep Proofs.MateKing Proofs.MateSound Proofs.MateExamples.
Import ListNotations.

(* the property at full strength (with the spec's legal moves; C01 identifies them with the engine's
   playable moves [playable z b] for every valid position) *)
Definition C09_statement : Prop :=
  forall b : board, Rep b -> valid (abs b) = true -> normal_ep (abs b) = true ->
    (in_check b (stm b) = true -> (is_checkmate b = true <-> legal_moves (abs b) = [])) /\
    (in_check b (stm b) = false -> (is_stalemate b = true <-> legal_moves (abs b) = [])).

(* the same against the engine's own move generator, for any Zobrist tables *)
Definition C09_statement_playable : Prop :=
  forall (z : zobrist) (b : board), Rep b -> valid (abs b) = true -> normal_ep (abs b) = true ->
    (in_check b (stm b) = true -> (is_checkmate b = true <-> playable z b = [])) /\
    (in_check b (stm b) = false -> (is_stalemate b = true <-> playable z b = [])).

(* the verdicts are determined by the return statement taken *)
Theorem C09_mate_exits : forall b,
  is_checkmate b = match mate_exit b with MDoubleCheck | MMate => true | _ => false end.
Proof. exact is_checkmate_exit. Qed.
Print Assumptions C09_mate_exits.

Theorem C09_stale_exits : forall b,
  is_stalemate b = match stale_exit b with SStale => true | _ => false end.
Proof. exact is_stalemate_exit. Qed.
Print Assumptions C09_stale_exits.

(* king step: the loop over KingMoves(kingSq) & ^own with IsAttacked(them, occ &^ king, to) finds a
   square  ->  stepping there is legal by the rules *)
Theorem C09_king_step_sound : forall b, Rep b -> valid (abs b) = true ->
  let king := band (pieces b King) (colors b (stm b)) in
  king_can_step b (lsb king) king (bor (colors b White) (colors b Black)) (colors b (stm b)) = true ->
  exists to, (to < 64)%N /\ legal_spec (abs b) (mk_move (lsb king) to 0) = true.
Proof. exact king_step_sound. Qed.
Print Assumptions C09_king_step_sound.

(* the soundness direction of the checkmate test, complete *)
Theorem C09_mate_sound : forall b, Rep b -> valid (abs b) = true -> normal_ep (abs b) = true ->
  in_check b (stm b) = true -> is_checkmate b = false -> legal_moves (abs b) <> [].
Proof. exact mate_sound. Qed.
Print Assumptions C09_mate_sound.

(* IsCheckmate, both directions: the first half of the property at full strength *)
Theorem C09_mate : forall b, Rep b -> valid (abs b) = true -> normal_ep (abs b) = true ->
  in_check b (stm b) = true -> (is_checkmate b = true <-> legal_moves (abs b) = []).
Proof. exact mate_iff. Qed.
Print Assumptions C09_mate.

(* the same as one half of the equivalence of C09_statement *)
Theorem C09_mate_no_move_implies_mate : forall b, Rep b -> valid (abs b) = true -> normal_ep (abs b) = true ->
  in_check b (stm b) = true -> legal_moves (abs b) = [] -> is_checkmate b = true.
Proof. exact mate_complete_half. Qed.
Print Assumptions C09_mate_no_move_implies_mate.

(* the soundness direction of the stalemate test, complete *)
Theorem C09_stale_sound : forall b, Rep b -> valid (abs b) = true -> normal_ep (abs b) = true ->
  in_check b (stm b) = false -> is_stalemate b = false -> legal_moves (abs b) <> [].
Proof. exact stale_sound. Qed.
Print Assumptions C09_stale_sound.

Theorem C09_stale_no_move_implies_stale : forall b, Rep b -> valid (abs b) = true -> normal_ep (abs b) = true ->
  in_check b (stm b) = false -> legal_moves (abs b) = [] -> is_stalemate b = true.
Proof. exact stale_complete_half. Qed.
Print Assumptions C09_stale_no_move_implies_stale.

(* IsStalemate, both directions *)
Theorem C09_stale : forall b, Rep b -> valid (abs b) = true -> normal_ep (abs b) = true ->
  in_check b (stm b) = false -> (is_stalemate b = true <-> legal_moves (abs b) = []).
Proof. exact stale_iff. Qed.
Print Assumptions C09_stale.

(* the property *)
Theorem C09 : C09_statement.
Proof. exact c09_full. Qed.
Print Assumptions C09.

(* ------------------------------------------------------------------------------------------ *)
(* non-vacuity: concrete boards meet the hypotheses and take the exits the theorems talk about *)

(* 7k/8/8/4pP2/3K4/8/8/8 w - e6 : in check by the pawn that has just moved two squares; the king can step *)
Definition ex_king_step : board := board_of
  [206158430208; 0; 0; 0; 0; 9223372036988993536; 137573171200; 9223372105574252544; 0; 44; 0; 0; 1; 1; 3996148791493260440]%Z.
Example C09_ex_king_step :
  Rep ex_king_step /\ valid (abs ex_king_step) = true /\ normal_ep (abs ex_king_step) = true /\
  in_check ex_king_step (stm ex_king_step) = true /\ mate_exit ex_king_step = MKingStep /\
  is_checkmate ex_king_step = false.
Proof. vm_compute. repeat split. Qed.

(* 7k/8/p7/Ppp5/K7/7r/8/8 w - b6 : the only legal move is a5xb6 en passant *)
Definition ex_mate_ep : board := board_of
  [1129576398848; 0; 0; 8388608; 0; 9223372036871553024; 4311744512; 9223373162144595968; 0; 41; 0; 0; 1; 1; 14242408366378586849]%Z.
Example C09_ex_mate_ep :
  Rep ex_mate_ep /\ valid (abs ex_mate_ep) = true /\ normal_ep (abs ex_mate_ep) = true /\
  in_check ex_mate_ep (stm ex_mate_ep) = true /\ mate_exit ex_mate_ep = MEnPassant /\
  is_checkmate ex_mate_ep = false.
Proof. vm_compute. repeat split. Qed.

(* 5rrk/5Npp/8/8/8/8/8/K7 b : smothered, but Rf8xf7 takes the knight *)
Definition ex_mate_capture : board := board_of
  [54043195528445952; 9007199254740992; 0; 6917529027641081856; 0; 9223372036854775809; 9007199254740993; 16194944260024303616; 1; 0; 0; 0; 1; 1; 6742224531222465736]%Z.
Example C09_ex_mate_capture :
  Rep ex_mate_capture /\ valid (abs ex_mate_capture) = true /\ normal_ep (abs ex_mate_capture) = true /\
  in_check ex_mate_capture (stm ex_mate_capture) = true /\ mate_exit ex_mate_capture = MCapture /\
  is_checkmate ex_mate_capture = false.
Proof. vm_compute. repeat split. Qed.

(* R5k1/5ppp/8/8/8/8/3r4/4K3 b : back-rank check, Rd2-d8 interposes *)
Definition ex_mate_block : board := board_of
  [63050394783186944; 0; 0; 72057594037929984; 0; 4611686018427387920; 72057594037927952; 4674736413210576896; 1; 0; 0; 0; 1; 1; 9425363245369988964]%Z.
(* 7k/8/8/6r1/K6r/6r1/4P3/8 w : the only legal move is the double push e2-e4 *)
Definition ex_mate_block2 : board := board_of
  [4096; 0; 0; 277029584896; 0; 9223372036871553024; 16781312; 9223372313884360704; 0; 0; 0; 0; 1; 1; 12858067754401828479]%Z.
Example C09_ex_mate_block :
  Rep ex_mate_block /\ valid (abs ex_mate_block) = true /\ normal_ep (abs ex_mate_block) = true /\
  in_check ex_mate_block (stm ex_mate_block) = true /\ mate_exit ex_mate_block = MBlock /\
  Rep ex_mate_block2 /\ valid (abs ex_mate_block2) = true /\ normal_ep (abs ex_mate_block2) = true /\
  in_check ex_mate_block2 (stm ex_mate_block2) = true /\ mate_exit ex_mate_block2 = MBlock /\
  is_checkmate ex_mate_block2 = false.
Proof. vm_compute. repeat split. Qed.

(* 4k3/8/8/8/8/8/8/4K3 w : bare kings *)
Definition ex_stale_king : board := board_of
  [0; 0; 0; 0; 0; 1152921504606846992; 16; 1152921504606846976; 0; 0; 0; 0; 1; 1; 1]%Z.
Example C09_ex_stale_king :
  Rep ex_stale_king /\ valid (abs ex_stale_king) = true /\ normal_ep (abs ex_stale_king) = true /\
  in_check ex_stale_king (stm ex_stale_king) = false /\ stale_exit ex_stale_king = SKingStep /\
  is_stalemate ex_stale_king = false.
Proof. vm_compute. repeat split. Qed.

(* 7k/8/4p3/3pP3/8/6q1/8/7K w - d6 : stalemate but for e5xd6 en passant *)
Definition ex_stale_ep : board := board_of
  [17695265259520; 0; 0; 0; 4194304; 9223372036854775936; 68719476864; 9223389663404752896; 0; 43; 0; 0; 1; 1; 6417121534009120769]%Z.
Example C09_ex_stale_ep :
  Rep ex_stale_ep /\ valid (abs ex_stale_ep) = true /\ normal_ep (abs ex_stale_ep) = true /\
  in_check ex_stale_ep (stm ex_stale_ep) = false /\ stale_exit ex_stale_ep = SEnPassant /\
  is_stalemate ex_stale_ep = false.
Proof. vm_compute. repeat split. Qed.

(* R5k1/5pqp/8/8/8/8/8/4K1R1 b : back-rank mate, the only interposer is pinned (exit MMate);
   7k/7b/4b3/8/3b4/8/1P6/K7 w : stalemate with a pinned pawn (exit SStale): the verdicts the unproved
   converse direction is about, evaluated on the model and on the spec (Proofs/MateExamples.v) *)
Example C09_ex_verdicts :
  Rep ex_mate /\ valid (abs ex_mate) = true /\ in_check ex_mate (stm ex_mate) = true /\
  mate_exit ex_mate = MMate /\ legal_moves (abs ex_mate) = [] /\
  Rep ex_stale /\ valid (abs ex_stale) = true /\ in_check ex_stale (stm ex_stale) = false /\
  stale_exit ex_stale = SStale /\ legal_moves (abs ex_stale) = [].
Proof. exact ex_verdicts. Qed.
