(* The moves properties C03 / C04 quantify over.

   [applicable b m] is an explicit, executable and deliberately WEAK condition: it holds for every
   move accepted by IsPseudoLegal and for every generated move on a valid position, and it is all that
   MakeMove / UndoMove need in order to be inverse to each other:
     - the from-square holds a piece of the side to move;
     - the to-square does not hold an own piece (an enemy king is not excluded: IsPseudoLegal
       accepts such moves and undo handles them);
     - the square the capture is taken from (CaptureSq: the to-square, or for an en-passant shaped
       move the square beside the pawn) does not hold an own piece, and an en-passant shaped move
       lands on an empty square;
     - a promotion code is only present on pawn moves and is a piece code (1..6);
     - a castling shaped king move (E1G1, E1C1, E8G8, E8C8) has an own rook on the corner and the
       rook's destination is empty.
   Nothing is demanded about geometry, blockers, checks or rights.

   An [op] is what the search does to the board: a move or a null move. *)
From Coq Require Import NArith ZArith List Bool.
From Chess3 Require Import Base.Bits Model.Types Model.BoardDef Model.Board.
Import ListNotations.
Open Scope N_scope.

Definition rook_sqs (piece from to : N) : option (N * N) := if piece =? King then castle_rook from to else None.

Definition applicable (b : board) (m : N) : bool :=
  let from := mv_from m in
  let to := mv_to m in
  let me := stm b in
  let piece := piece_at b from in
  let csq := capture_sq b m in
  N.testbit (colors b me) from
  && negb (N.testbit (colors b me) to)
  && negb (N.testbit (colors b me) csq)
  && ((csq =? to) || (piece_at b to =? NoPiece))
  && ((mv_promo m =? NoPiece) || ((piece =? Pawn) && (mv_promo m <=? King)))
  && match rook_sqs piece from to with
     | Some (rf, rt) => (piece_at b rf =? Rook) && N.testbit (colors b me) rf && (piece_at b rt =? NoPiece)
     | None => true
     end.

Inductive op := OpMove (m : N) | OpNull.

Definition op_applicable (b : board) (o : op) : bool :=
  match o with OpMove m => applicable b m | OpNull => true end.

(* [l] is the layout of the reverse token (Model/TokLayout.v), [z] the Zobrist table *)
Section Ops.
Variable l : tok_layout.
Variable z : zobrist.

Definition step (b : board) (o : op) : board * N :=
  match o with OpMove m => make_l l z b m | OpNull => make_null_l l z b end.

Definition unstep (b : board) (o : op) (r : N) : board :=
  match o with OpMove m => undo_l l z b m r | OpNull => undo_null_l l b r end.

(* make a list of operations; the stack holds them with their tokens, latest first *)
Fixpoint make_all (b : board) (ops : list op) (st : list (op * N)) : board * list (op * N) :=
  match ops with
  | [] => (b, st)
  | o :: rest => let '(b', r) := step b o in make_all b' rest ((o, r) :: st)
  end.

Fixpoint undo_all (b : board) (st : list (op * N)) : board :=
  match st with
  | [] => b
  | (o, r) :: rest => undo_all (unstep b o r) rest
  end.

Fixpoint run (b : board) (ops : list op) : board :=
  match ops with
  | [] => b
  | o :: rest => run (fst (step b o)) rest
  end.

Fixpoint applicable_all (b : board) (ops : list op) : Prop :=
  match ops with
  | [] => True
  | o :: rest => op_applicable b o = true /\ applicable_all (fst (step b o)) rest
  end.

(* the search's walk: operations and undos of the latest operation interleaved (depth first) *)
Inductive ev := Do (o : op) | Back.

Fixpoint walk (b : board) (st : list (op * N)) (evs : list ev) : board * list (op * N) :=
  match evs with
  | [] => (b, st)
  | Do o :: rest => let '(b', r) := step b o in walk b' ((o, r) :: st) rest
  | Back :: rest =>
      match st with
      | (o, r) :: st' => walk (unstep b o r) st' rest
      | [] => walk b st rest
      end
  end.

(* every operation of the walk is applicable in the position in which it is made *)
Fixpoint walk_ok (b : board) (st : list (op * N)) (evs : list ev) : Prop :=
  match evs with
  | [] => True
  | Do o :: rest => op_applicable b o = true /\ let '(b', r) := step b o in walk_ok b' ((o, r) :: st) rest
  | Back :: rest =>
      match st with
      | (o, r) :: st' => walk_ok (unstep b o r) st' rest
      | [] => walk_ok b st rest
      end
  end.
End Ops.
