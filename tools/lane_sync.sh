#!/bin/bash
# tools/lane_sync.sh : copy /verif (incl. build output) to the admission lanes /root/scratch/lane{1,2}
for l in lane1 lane2 lane3 lane4; do rsync -a --delete /verif/ /root/scratch/$l/; done
