(* C01: top-level theorems for a [Rep] board with a valid abstraction. *)
From Coq Require Import NArith ZArith List Bool Lia Permutation.
From Chess3 Require Import Base.Bits Model.Types Spec.Geometry Model.Att Model.BoardDef Model.Board
  Model.Movegen Spec.Chess Spec.Rep Spec.Play Proofs.GenBase Proofs.GenRep Proofs.GenLegal Proofs.GenSpec.
Import ListNotations.
Open Scope N_scope.

Theorem playable_legal : forall z b, Rep b -> valid (abs b) = true ->
  (forall m, In m (playable z b) <-> (m < 32768 /\ legal_spec (abs b) m = true)) /\ NoDup (playable z b).
Proof. intros z b HR. apply playable_legal_M. apply Rep_MRep. exact HR. Qed.

Corollary playable_legal_bounded : forall z b, Rep b -> valid (abs b) = true ->
  (forall m, m < 32768 -> (In m (playable z b) <-> legal_spec (abs b) m = true)) /\ NoDup (playable z b).
Proof.
  intros z b HR HV. destruct (playable_legal z b HR HV) as [A B]. split; [|exact B].
  intros m Hm. rewrite A. tauto.
Qed.

(* every candidate encoding: from, to any square, promotion none or N/B/R/Q *)
Lemma in_candidates m : In m candidates <->
  (m < 32768 /\ (mv_promo m = 0 \/ is_promo_piece (mv_promo m) = true)).
Proof.
  unfold candidates. rewrite in_flat_map. split.
  - intros [from [Hf H]]. apply in_flat_map in H. destruct H as [to [Ht H]].
    apply in_map_iff in H. destruct H as [pr [<- Hp]].
    apply in_squares64 in Hf, Ht.
    assert (L : pr < 8) by (cbn [In] in Hp; unfold Knight, Bishop, Rook, Queen in Hp; lia).
    split; [apply mk_move_lt; assumption|]. rewrite mk_move_promo by assumption.
    cbn [In] in Hp. unfold is_promo_piece. rewrite !orb_true_iff, !N.eqb_eq. intuition.
  - intros [Hm Hp]. exists (mv_from m). split; [apply in_squares64, mv_from_lt|].
    apply in_flat_map. exists (mv_to m). split; [apply in_squares64, mv_to_lt|].
    apply in_map_iff. exists (mv_promo m). split; [symmetry; apply move_decode; exact Hm|].
    cbn [In]. unfold is_promo_piece in Hp. rewrite !orb_true_iff, !N.eqb_eq in Hp. intuition.
Qed.

Lemma pseudo_promo p m : pseudo_spec p m = true -> mv_promo m = 0 \/ is_promo_piece (mv_promo m) = true.
Proof.
  unfold pseudo_spec. destruct (who p (mv_from m)) as [[c' k]|]; [|discriminate].
  rewrite !andb_true_iff. intros [_ H].
  destruct (k =? Pawn).
  - apply andb_true_iff in H. destruct H as [H _].
    destruct (rank_n (mv_to m) =? last_rank (turn p)); [right; exact H|left; apply N.eqb_eq; exact H].
  - destruct (k =? King); apply andb_true_iff in H; destruct H as [H _]; left; apply N.eqb_eq; exact H.
Qed.

Lemma in_legal_moves p m : In m (legal_moves p) <-> (m < 32768 /\ legal_spec p m = true).
Proof.
  unfold legal_moves. rewrite filter_In, in_candidates. split; [tauto|].
  intros [Hm HL]. split; [|exact HL]. split; [exact Hm|].
  unfold legal_spec in HL. apply andb_true_iff in HL. apply (pseudo_promo p m). tauto.
Qed.

Theorem playable_legal_moves : forall z b, Rep b -> valid (abs b) = true ->
  (forall m, In m (playable z b) <-> In m (legal_moves (abs b))) /\ NoDup (playable z b).
Proof.
  intros z b HR HV. destruct (playable_legal z b HR HV) as [A B]. split; [|exact B].
  intros m. rewrite in_legal_moves. apply A.
Qed.


(* both lists are duplicate free, so they are permutations of each other *)
Lemma candidates_NoDup : NoDup candidates.
Proof.
  unfold candidates. apply NoDup_flat_map with (key := mv_from); [apply squares64_NoDup| |].
  - intros from Hf. apply in_squares64 in Hf.
    apply NoDup_flat_map with (key := mv_to); [apply squares64_NoDup| |].
    + intros to Ht. apply in_squares64 in Ht. cbn [map].
      assert (P : forall a c, a < 8 -> c < 8 -> mk_move from to a = mk_move from to c -> a = c).
      { intros a c Ha Hc E. apply (f_equal mv_promo) in E. rewrite !mk_move_promo in E by assumption. exact E. }
      unfold Knight, Bishop, Rook, Queen.
      repeat constructor; cbn [In]; intros H;
        repeat (destruct H as [H|H]; [apply P in H; [discriminate|reflexivity|reflexivity]|]); exact H.
    + intros to m Ht Hin. apply in_squares64 in Ht. apply in_map_iff in Hin. destruct Hin as [pr [<- Hp]].
      apply mk_move_to; [exact Hf|exact Ht|]. cbn [In] in Hp. unfold Knight, Bishop, Rook, Queen in Hp. lia.
  - intros from m Hf Hin. apply in_squares64 in Hf. apply in_flat_map in Hin. destruct Hin as [to [Ht Hin]].
    apply in_squares64 in Ht. apply in_map_iff in Hin. destruct Hin as [pr [<- Hp]].
    apply mk_move_from; [exact Hf|exact Ht|]. cbn [In] in Hp. unfold Knight, Bishop, Rook, Queen in Hp. lia.
Qed.

Lemma legal_moves_NoDup p : NoDup (legal_moves p).
Proof. unfold legal_moves. apply NoDup_filter. apply candidates_NoDup. Qed.

Theorem playable_perm : forall z b, Rep b -> valid (abs b) = true ->
  Permutation (playable z b) (legal_moves (abs b)).
Proof.
  intros z b HR HV. destruct (playable_legal_moves z b HR HV) as [A B].
  apply NoDup_Permutation; [exact B|apply legal_moves_NoDup|exact A].
Qed.
