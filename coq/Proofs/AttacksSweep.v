(* C12, sliders: the shards of the finite sweep put together with the general lemmas. *)
From Coq Require Import NArith ZArith List Bool Lia.
From Chess3 Require Import Base.Bits Base.BitsLemmas Model.Types Spec.Geometry Gen.AttackTables Model.Attacks
  Proofs.AttacksSweepDefs Proofs.AttacksSliders
  Proofs.AttacksSweepR0 Proofs.AttacksSweepR1 Proofs.AttacksSweepR2 Proofs.AttacksSweepR3
  Proofs.AttacksSweepR4 Proofs.AttacksSweepR5 Proofs.AttacksSweepR6 Proofs.AttacksSweepR7
  Proofs.AttacksSweepB0 Proofs.AttacksSweepB1.
Import ListNotations.
Open Scope N_scope.

Definition rook_squares : list N :=
  rook_squares_0 ++ rook_squares_1 ++ rook_squares_2 ++ rook_squares_3 ++
  rook_squares_4 ++ rook_squares_5 ++ rook_squares_6 ++ rook_squares_7.
Definition bishop_squares : list N := bishop_squares_0 ++ bishop_squares_1.

Lemma rook_sweep_all : forallb rook_sweep_sq rook_squares = true.
Proof.
  unfold rook_squares. rewrite !forallb_app.
  rewrite rook_sweep_0, rook_sweep_1, rook_sweep_2, rook_sweep_3, rook_sweep_4, rook_sweep_5, rook_sweep_6, rook_sweep_7.
  reflexivity.
Qed.

Lemma bishop_sweep_all : forallb bishop_sweep_sq bishop_squares = true.
Proof. unfold bishop_squares. rewrite !forallb_app. rewrite bishop_sweep_0, bishop_sweep_1. reflexivity. Qed.

Lemma rook_squares_cover : forall_below 64 (fun s => existsb (N.eqb s) rook_squares) = true.
Proof. vm_compute. reflexivity. Qed.
Lemma bishop_squares_cover : forall_below 64 (fun s => existsb (N.eqb s) bishop_squares) = true.
Proof. vm_compute. reflexivity. Qed.

(* squares outside the mask never influence the geometric result (64 squares x 4 rays) *)
Lemma rook_mask_covers : forall_below 64 (mask_covers rook_dirs rook_masks) = true.
Proof. vm_compute. reflexivity. Qed.
Lemma bishop_mask_covers : forall_below 64 (mask_covers bishop_dirs bishop_masks) = true.
Proof. vm_compute. reflexivity. Qed.

Lemma rook_mask_irrelevant sq occ : sq < 64 -> rook_attacks sq (N.land occ (rook_mask sq)) = rook_attacks sq occ.
Proof. intros H. apply slide_mask. exact (forall_below_spec _ _ rook_mask_covers sq H). Qed.
Lemma bishop_mask_irrelevant sq occ : sq < 64 -> bishop_attacks sq (N.land occ (bishop_mask sq)) = bishop_attacks sq occ.
Proof. intros H. apply slide_mask. exact (forall_below_spec _ _ bishop_mask_covers sq H). Qed.

Theorem rook_moves_correct sq occ : sq < 64 -> engine_rook_moves sq occ = rook_attacks sq occ.
Proof.
  intros H.
  exact (proj2 (slider_correct _ _ _ _ _ _ _ rook_sweep_all rook_squares_cover rook_mask_covers sq occ H)).
Qed.

Theorem bishop_moves_correct sq occ : sq < 64 -> engine_bishop_moves sq occ = bishop_attacks sq occ.
Proof.
  intros H.
  exact (proj2 (slider_correct _ _ _ _ _ _ _ bishop_sweep_all bishop_squares_cover bishop_mask_covers sq occ H)).
Qed.

(* the lookups never index outside the Go arrays, for any occupancy *)
Theorem rook_index_in_range sq occ : sq < 64 -> rook_index sq occ < rook_table_size.
Proof.
  intros H.
  exact (proj1 (slider_correct _ _ _ _ _ _ _ rook_sweep_all rook_squares_cover rook_mask_covers sq occ H)).
Qed.
Theorem bishop_index_in_range sq occ : sq < 64 -> bishop_index sq occ < bishop_table_size.
Proof.
  intros H.
  exact (proj1 (slider_correct _ _ _ _ _ _ _ bishop_sweep_all bishop_squares_cover bishop_mask_covers sq occ H)).
Qed.

(* the init loops leave through their break after exactly the subsets of the mask (the fuel of the
   model is not what stops them) *)
Theorem rook_init_terminates sq : sq < 64 -> snd (fill calc_rook_attacks rook_masks rook_magics rook_shifts sq) = true.
Proof. exact (slider_init_terminates _ _ _ _ _ _ _ rook_sweep_all rook_squares_cover sq). Qed.
Theorem bishop_init_terminates sq : sq < 64 -> snd (fill calc_bishop_attacks bishop_masks bishop_magics bishop_shifts sq) = true.
Proof. exact (slider_init_terminates _ _ _ _ _ _ _ bishop_sweep_all bishop_squares_cover sq). Qed.

(* Model/Att.v (what the board-level models use) computes what the engine's tables compute *)
From Chess3 Require Import Model.Att Proofs.AttacksSmall.
Theorem att_interface sq occ : sq < 64 ->
  Att.rook_moves sq occ = engine_rook_moves sq occ /\
  Att.bishop_moves sq occ = engine_bishop_moves sq occ /\
  Att.king_moves sq = engine_king_moves sq /\
  Att.knight_moves sq = engine_knight_moves sq /\
  (forall b, b < 64 -> Att.in_between sq b = engine_in_between sq b).
Proof.
  intros H. unfold rook_moves, bishop_moves, king_moves, knight_moves.
  rewrite rook_moves_correct, bishop_moves_correct, king_moves_correct, knight_moves_correct by exact H.
  repeat split. intros b Hb. symmetry. exact (proj2 (proj2 (between_correct sq b H Hb))).
Qed.
