package streams

// C08 streams (implementation side; judged by the extracted judge_c08 / judge_c08budget):
//
//	c08        a game of searches played by two fresh engines A and B concurrently under CPU load
//	           (same requests: soft node limit S per move, optional depth limit), then replayed by a
//	           third fresh engine C with the hard budgets N_i = nodes A used at move i.
//	c08budget  the request sweep of c06 (every hard budget k): nodes used vs. budget
//
//	c08par     >= 4 fresh engines serve the same request at the same time WITHOUT WithCounters (the way
//	           uci and datagen call Search.Go), compared with a solo run of the same request; node
//	           counts are read from the printed lines. See runC08par.
//
//	c08clear   an engine that served k tiny searches and was then cleared (Clear / ucinewgame) must be
//	           indistinguishable from a fresh engine. See runC08clear.
//
// Request fields used by c08: TTKB, HasDepth/Depth, SoftNodes = S, StopArg = number of plies to play,
// Warm = number of busy goroutines (load), Nodes = hard cap given together with the soft limit
// (-1: none).
//
// Observation (c08):
//
//	plies abStep abWhat shStep shWhat overBudget stateEq followEq
//
// abStep / shStep: first ply at which A and B (resp. A and C) differ, -1 when they never do; *What
// says in which observable (1 move, 2 score, 3 ponder, 4 nodes, 5 printed lines, 6 number of plies).
// overBudget: number of C searches whose counter passed the budget. stateEq: 1 when table content
// (every bucket), history tables and generation counter of A and C are equal after the game, 0 when
// they differ, 2 when the engine's fields could not be reached. followEq: an identical follow-up
// search on A and C gave identical results.

import (
	"fmt"
	"hash/fnv"
	"reflect"
	"runtime"
	"strings"
	"sync"
	"sync/atomic"

	"github.com/paulsonkoly/chess-3/board"
	. "github.com/paulsonkoly/chess-3/chess"
	"github.com/paulsonkoly/chess-3/move"
	"github.com/paulsonkoly/chess-3/search"
	"github.com/paulsonkoly/chess-3/transp"

	"verifharness/hx"
)

func init() {
	hx.Register(&hx.Stream{Name: "c08", Gen: genC08, Run: runC08})
	hx.Register(&hx.Stream{Name: "c08budget", Gen: genC06, Run: runC06})
	hx.Register(&hx.Stream{Name: "c08par", Gen: genC08par, Run: runC08par})
	hx.Register(&hx.Stream{Name: "c08clear", Gen: genC08clear, Run: runC08clear, Shrink: shrinkC08Clear, Describe: describeC08Clear})
}

type sbStep struct {
	Score  Score
	Move   move.Move
	Ponder move.Move
	Nodes  int
	Lines  []string // time stripped
	// largest node count / depth on any printed line (filled by sbPlayNC only)
	MaxNodes, MaxDepth int
}

// sbPlay plays a game of searches on engine s from the root. limit(i) gives the options of ply i.
func sbPlay(s *search.Search, root sbRoot, plies int, limit func(i int) (opts []search.Option, ok bool)) []sbStep {
	b := sbBoard(root)
	var steps []sbStep
	for i := 0; i < plies; i++ {
		lo, ok := limit(i)
		if !ok {
			break
		}
		cnt := search.Counters{}
		w := &sbWriter{}
		opts := append([]search.Option{search.WithCounters(&cnt), search.WithOutput(w)}, lo...)
		sc, m, p := s.Go(b, opts...)
		st := sbStep{Score: sc, Move: m, Ponder: p, Nodes: cnt.Nodes}
		for _, l := range w.lines() {
			st.Lines = append(st.Lines, sbStripTime(l))
		}
		steps = append(steps, st)
		if m == 0 || !sbIsLegal(b, m) {
			break
		}
		b.MakeMove(m)
	}
	return steps
}

func sbCompareSteps(x, y []sbStep, dropAbortLine bool) (step, what int) {
	n := len(x)
	if len(y) < n {
		n = len(y)
	}
	for i := 0; i < n; i++ {
		a, c := x[i], y[i]
		switch {
		case a.Move != c.Move:
			return i, 1
		case a.Score != c.Score:
			return i, 2
		case a.Ponder != c.Ponder:
			return i, 3
		case a.Nodes != c.Nodes:
			return i, 4
		}
		cl := c.Lines
		aAborted := len(a.Lines) > 0 && sbParseInfo(a.Lines[len(a.Lines)-1]).Kind == 2
		if dropAbortLine && !aAborted && len(cl) > 0 && sbParseInfo(cl[len(cl)-1]).Kind == 2 {
			// the hard-budget run starts the next iteration and is cut at its first node
			cl = cl[:len(cl)-1]
		}
		if strings.Join(a.Lines, "\n") != strings.Join(cl, "\n") {
			return i, 5
		}
	}
	if len(x) != len(y) {
		return n, 6
	}
	return -1, 0
}

// sbDeepHash folds every number reachable from v (unexported fields included) into h.
func sbDeepHash(v reflect.Value, h *uint64, budget *int) bool {
	if *budget <= 0 {
		return false
	}
	mix := func(x uint64) { *h = (*h ^ x) * 0x100000001b3 }
	switch v.Kind() {
	case reflect.Ptr:
		if v.IsNil() {
			mix(0)
			return true
		}
		return sbDeepHash(v.Elem(), h, budget)
	case reflect.Struct:
		for i := 0; i < v.NumField(); i++ {
			if !sbDeepHash(v.Field(i), h, budget) {
				return false
			}
		}
		return true
	case reflect.Array, reflect.Slice:
		n := v.Len()
		mix(uint64(n))
		for i := 0; i < n; i++ {
			if !sbDeepHash(v.Index(i), h, budget) {
				return false
			}
		}
		return true
	case reflect.Int, reflect.Int8, reflect.Int16, reflect.Int32, reflect.Int64:
		*budget--
		mix(uint64(v.Int()))
		return true
	case reflect.Uint, reflect.Uint8, reflect.Uint16, reflect.Uint32, reflect.Uint64:
		*budget--
		mix(v.Uint())
		return true
	case reflect.Bool:
		if v.Bool() {
			mix(1)
		} else {
			mix(2)
		}
		return true
	}
	return false
}

// sbStateHash hashes what a search leaves behind for the next one: table buckets, move ranker
// (history tables), generation counter. ok=false when the fields are not where they are expected.
func sbStateHash(s *search.Search) (sum uint64, ok bool) {
	defer func() {
		if recover() != nil {
			sum, ok = 0, false
		}
	}()
	v := reflect.ValueOf(s).Elem()
	ttf, rk := v.FieldByName("tt"), v.FieldByName("ranker")
	if !ttf.IsValid() || !rk.IsValid() || ttf.Kind() != reflect.Ptr || ttf.Type() != reflect.TypeOf((*transp.Table)(nil)) {
		return 0, false
	}
	tt := (*transp.Table)(ttf.UnsafePointer())
	h := fnv.New64a()
	for ix := 0; ix < tt.VerifLen(); ix++ {
		pk, es := tt.VerifBucket(ix)
		fmt.Fprintf(h, "%x", pk)
		for _, e := range es {
			fmt.Fprintf(h, ".%x.%x.%x.%x.%x", e.Move, e.Value, e.Depth, e.Type, e.Gen)
		}
	}
	sum = h.Sum64()
	budget := 4_000_000
	if !sbDeepHash(rk, &sum, &budget) {
		return 0, false
	}
	sum = (sum ^ uint64(s.VerifGen())) * 0x100000001b3
	return sum, true
}

func sbLimitOpts(r sbReq) []search.Option {
	var o []search.Option
	if r.HasDepth {
		o = append(o, search.WithDepth(Depth(r.Depth)))
	}
	return o
}

func runC08(a hx.Args) string {
	r, _, ok := sbDecode(a, 0)
	if !ok {
		return "badinput"
	}
	if sbBoard(r.Root) == nil {
		return "badroot"
	}
	plies := r.StopArg
	if plies < 1 {
		plies = 1
	}
	if plies > 200 {
		plies = 200
	}
	tt := r.TTKB
	if tt < 32 {
		tt = 32
	}
	soft := func(i int) ([]search.Option, bool) {
		o := append(sbLimitOpts(r), search.WithSoftNodes(r.SoftNodes))
		if r.Nodes >= 0 {
			o = append(o, search.WithNodes(r.Nodes))
		}
		return o, true
	}
	// A and B concurrently, with busy goroutines competing for the processors
	var stopLoad atomic.Bool
	var lwg sync.WaitGroup
	load := r.Warm
	if load > 4*runtime.NumCPU() {
		load = 4 * runtime.NumCPU()
	}
	for i := 0; i < load; i++ {
		lwg.Add(1)
		go func(seed uint64) {
			defer lwg.Done()
			x := seed
			for k := 0; !stopLoad.Load(); k++ {
				x = x*6364136223846793005 + 1442695040888963407
				if k&0xfff == 0 {
					runtime.Gosched()
				}
			}
			_ = x
		}(uint64(i) + 1)
	}
	engines := [2]*search.Search{search.New(tt * 1024), search.New(tt * 1024)}
	var games [2][]sbStep
	var pan [2]any
	var wg sync.WaitGroup
	for e := 0; e < 2; e++ {
		wg.Add(1)
		go func(e int) {
			defer wg.Done()
			defer func() { pan[e] = recover() }()
			games[e] = sbPlay(engines[e], r.Root, plies, soft)
		}(e)
	}
	wg.Wait()
	stopLoad.Store(true)
	lwg.Wait()
	for _, p := range pan {
		if p != nil {
			panic(p)
		}
	}
	A, B := games[0], games[1]
	abStep, abWhat := sbCompareSteps(A, B, false)
	// C: hard budgets
	c := search.New(tt * 1024)
	over := 0
	C := sbPlay(c, r.Root, plies, func(i int) ([]search.Option, bool) {
		if i >= len(A) {
			return nil, false
		}
		return append(sbLimitOpts(r), search.WithNodes(A[i].Nodes)), true
	})
	for i := range C {
		if C[i].Nodes > A[i].Nodes {
			over++
		}
	}
	shStep, shWhat := sbCompareSteps(A, C, true)
	stateEq := 2
	ha, oka := sbStateHash(engines[0])
	hc, okc := sbStateHash(c)
	if oka && okc {
		stateEq = 0
		if ha == hc {
			stateEq = 1
		}
	}
	// identical follow-up on A and C: the root again, twice the soft limit
	follow := func(s *search.Search) []sbStep {
		return sbPlay(s, r.Root, 2, func(i int) ([]search.Option, bool) {
			return []search.Option{search.WithSoftNodes(2*r.SoftNodes + 100), search.WithNodes(8*r.SoftNodes + 4000)}, true
		})
	}
	fs, _ := sbCompareSteps(follow(engines[0]), follow(c), false)
	out := &hx.Nums{}
	out.Int(len(A), abStep, abWhat, shStep, shWhat, over, stateEq).B(fs == -1)
	return out.String()
}

func genC08(rng *hx.Rng, n int, tier string, emit func(hx.Input)) {
	roots := sbRoots()
	epd := sbEpdRoots()
	for c := 0; c < n; c++ {
		var root sbRoot
		switch {
		case c < len(roots):
			root = roots[c]
		case len(epd) > 0 && rng.Chance(0.6):
			root = epd[rng.Intn(len(epd))]
		default:
			root = sbRandomWalk(rng, roots[rng.Intn(len(roots))], rng.Intn(10))
		}
		r := sbReq{TTKB: 32, Nodes: -1, Root: root}
		if rng.Chance(0.4) {
			r.TTKB = 1024
		}
		r.SoftNodes = 20 + rng.Intn(1500)
		if tier == "thorough" && rng.Chance(0.3) {
			r.SoftNodes = 1000 + rng.Intn(30000)
		}
		r.StopArg = 4 + rng.Intn(14)
		if tier == "thorough" {
			r.StopArg = 10 + rng.Intn(80)
		}
		r.Warm = rng.Intn(2 * runtime.NumCPU())
		tags := []string{"game"}
		if rng.Chance(0.25) {
			r.HasDepth, r.Depth = true, 1+rng.Intn(6)
			tags = append(tags, "+depth")
		}
		if rng.Chance(0.2) {
			// a hard cap next to the soft limit: some moves end by abort in A and B as well
			r.Nodes = r.SoftNodes/2 + rng.Intn(r.SoftNodes+1)
			tags = append(tags, "+hard-cap")
		}
		b := sbBoard(root)
		emit(hx.Input{In: r.encode().String(), Desc: r.desc() + " (softnodes per move, stop-arg = plies, warm = load goroutines)",
			Tags: tags, NonTrivial: sbFinal(b) == 0})
	}
}

var _ = board.StartPos

// ---------------------------------------------------------------------------------------------
// c08par: engines that share nothing but the process
//
// Request fields: TTKB, Warm = number of concurrent engines (at least 4), HasDepth/Depth, Nodes = hard
// budget (-1 none), SoftNodes (-1 none), StopArg = plies each engine plays (1..4). No WithCounters is
// passed anywhere: scores, moves and ponder moves are the return values, depths / node counts / PVs
// come from the printed lines (time field stripped).
//
// Observation:
//
//	engines plies soloAgree badEngine badStep badWhat maxNodes budget refNodes refDepth
//
// soloAgree: two solo runs (one after the other, nothing else searching) agree. badEngine: first
// concurrently running engine that did not reproduce the solo run (-1: all did), badStep/badWhat as in
// c08 (1 move, 2 score, 3 ponder, 4 nodes of the last line, 5 printed lines, 6 number of plies).
// maxNodes: largest node count printed by any run; budget: the hard budget (-1 none).

// sbPlayNC plays a game of searches without WithCounters.
func sbPlayNC(s *search.Search, root sbRoot, plies int, r sbReq) []sbStep {
	b := sbBoard(root)
	var steps []sbStep
	for i := 0; i < plies; i++ {
		w := &sbWriter{}
		opts := []search.Option{search.WithOutput(w)}
		if r.HasDepth {
			opts = append(opts, search.WithDepth(Depth(r.Depth)))
		}
		if r.Nodes >= 0 {
			opts = append(opts, search.WithNodes(r.Nodes))
		}
		if r.SoftNodes >= 0 {
			opts = append(opts, search.WithSoftNodes(r.SoftNodes))
		}
		sc, m, p := s.Go(b, opts...)
		st := sbStep{Score: sc, Move: m, Ponder: p, Nodes: -1}
		for _, l := range w.lines() {
			st.Lines = append(st.Lines, sbStripTime(l))
			if in := sbParseInfo(l); in.Kind != 0 {
				st.Nodes = in.Nodes // nodes of the last line
				st.MaxNodes, st.MaxDepth = max(st.MaxNodes, in.Nodes), max(st.MaxDepth, in.Depth)
			}
		}
		steps = append(steps, st)
		if m == 0 || !sbIsLegal(b, m) {
			break
		}
		b.MakeMove(m)
	}
	return steps
}

func sbMaxNodes(steps []sbStep, depth *int) int {
	mx := 0
	for _, st := range steps {
		mx = max(mx, st.MaxNodes)
		if depth != nil {
			*depth = max(*depth, st.MaxDepth)
		}
	}
	return mx
}

func runC08par(a hx.Args) string {
	r, _, ok := sbDecode(a, 0)
	if !ok {
		return "badinput"
	}
	if sbBoard(r.Root) == nil {
		return "badroot"
	}
	if r.Nodes < 0 && r.SoftNodes <= 0 && !(r.HasDepth && r.Depth <= 8) && sbFinal(sbBoard(r.Root)) == 0 {
		return "badinput" // would never stop
	}
	engines := r.Warm
	if engines < 4 {
		engines = 4
	}
	if engines > 64 {
		engines = 64
	}
	plies := r.StopArg
	if plies < 1 {
		plies = 1
	}
	if plies > 4 {
		plies = 4
	}
	tt := r.TTKB
	if tt < 32 {
		tt = 32
	}
	if tt > 4096 {
		tt = 4096
	}
	ref := sbPlayNC(search.New(tt*1024), r.Root, plies, r)
	ref2 := sbPlayNC(search.New(tt*1024), r.Root, plies, r)
	soloStep, _ := sbCompareSteps(ref, ref2, false)
	refDepth := 0
	maxNodes := sbMaxNodes(ref, &refDepth)
	if m := sbMaxNodes(ref2, nil); m > maxNodes {
		maxNodes = m
	}
	// the concurrent engines: all built first, released together
	es := make([]*search.Search, engines)
	for i := range es {
		es[i] = search.New(tt * 1024)
	}
	games := make([][]sbStep, engines)
	pan := make([]any, engines)
	start := make(chan struct{})
	var wg sync.WaitGroup
	for e := 0; e < engines; e++ {
		wg.Add(1)
		go func(e int) {
			defer wg.Done()
			defer func() { pan[e] = recover() }()
			<-start
			games[e] = sbPlayNC(es[e], r.Root, plies, r)
		}(e)
	}
	close(start)
	wg.Wait()
	for _, p := range pan {
		if p != nil {
			panic(p)
		}
	}
	badE, badStep, badWhat := -1, 0, 0
	for e := range games {
		if m := sbMaxNodes(games[e], nil); m > maxNodes {
			maxNodes = m
		}
		if st, wh := sbCompareSteps(ref, games[e], false); st != -1 && badE == -1 {
			badE, badStep, badWhat = e, st, wh
		}
	}
	refNodes := 0
	if len(ref) > 0 {
		refNodes = ref[0].Nodes
	}
	out := &hx.Nums{}
	out.Int(engines, len(ref)).B(soloStep == -1).Int(badE, badStep, badWhat, maxNodes, r.Nodes, refNodes, refDepth)
	return out.String()
}

func genC08par(rng *hx.Rng, n int, tier string, emit func(hx.Input)) {
	roots := sbRoots()
	epd := sbEpdRoots()
	// roots on which a search of some ten thousand nodes is real work (engines must overlap in time)
	var busy []sbRoot
	for _, root := range roots {
		if b := sbBoard(root); sbFinal(b) == 0 && len(sbLegalMoves(b)) >= 8 {
			busy = append(busy, root)
		}
	}
	for c := 0; c < n; c++ {
		var root sbRoot
		switch {
		case c < 3:
			root = busy[c%len(busy)]
		case len(epd) > 0 && rng.Chance(0.5):
			root = epd[rng.Intn(len(epd))]
		case rng.Chance(0.15):
			root = roots[rng.Intn(len(roots))] // final and tiny roots too
		default:
			root = sbRandomWalk(rng, busy[rng.Intn(len(busy))], rng.Intn(8))
		}
		r := sbReq{TTKB: 32, Nodes: -1, SoftNodes: -1, Root: root}
		if rng.Chance(0.5) {
			r.TTKB = 1024
		}
		r.Warm = 4 + rng.Intn(2*runtime.NumCPU())
		r.StopArg = 1 + rng.Intn(2)
		scale := 1
		if tier == "thorough" {
			scale = 4
		}
		var tags []string
		switch c % 3 {
		case 0: // go nodes N
			r.Nodes = scale * (8000 + rng.Intn(30000))
			tags = []string{"hard-budget"}
		case 1: // datagen style: soft limit with a hard cap
			r.SoftNodes = scale * (4000 + rng.Intn(15000))
			r.Nodes = 10 * r.SoftNodes
			tags = []string{"soft+hard-cap"}
		default:
			r.SoftNodes = scale * (4000 + rng.Intn(15000))
			tags = []string{"soft-only"}
			if rng.Chance(0.3) {
				r.HasDepth, r.Depth = true, 4+rng.Intn(5)
				tags = append(tags, "+depth")
			}
		}
		b := sbBoard(root)
		emit(hx.Input{In: r.encode().String(),
			Desc:       r.desc() + " (no WithCounters; warm = concurrent engines, stop-arg = plies)",
			Tags:       tags,
			NonTrivial: sbFinal(b) == 0})
	}
}

// ---------------------------------------------------------------------------------------------
// c08clear: "after Clear the engine behaves like a fresh one"
//
// Request fields: TTKB, Warm = k = number of tiny searches served before the clear, StopKind = how the
// clear arrives (0 Search.Clear, 1 `ucinewgame` through a UCI driver owning the engine), StopArg =
// selector of the tiny requests (which roots, which limits), Nodes / SoftNodes / HasDepth+Depth = the
// follow-up request, root = the follow-up root.
// Tiny request i: root number (StopArg + 7 i) of the fixed + epd roots, limit depth 1 when
// (StopArg + i) is divisible by 3, otherwise WithNodes(1 + (StopArg + 13 i) mod 50).
//
// Observation:
//
//	k viaUCI digestEq followStep followWhat followNodes gen
//
// digestEq: 1 when every table bucket, every history / capture history / continuation cell and the
// generation counter of the cleared engine equal those of a fresh engine of the same table size, 0
// when they differ, 2 when the engine's fields could not be reached. followStep: -1 when the
// follow-up search gave identical move, score, ponder, nodes and printed lines (time excluded) on the
// cleared and on the fresh engine (followWhat as in c08). gen: generation counter right after the clear.

func sbTinyRoots() []sbRoot {
	return append(append([]sbRoot(nil), sbRoots()...), sbEpdRoots()...)
}

func runC08clear(a hx.Args) string {
	r, _, ok := sbDecode(a, 0)
	if !ok {
		return "badinput"
	}
	if sbBoard(r.Root) == nil {
		return "badroot"
	}
	if r.Nodes < 0 && r.SoftNodes <= 0 && !(r.HasDepth && r.Depth <= 6) && sbFinal(sbBoard(r.Root)) == 0 {
		return "badinput" // the follow-up would never stop
	}
	k := r.Warm
	if k < 0 {
		k = 0
	}
	if k > 5000 {
		k = 5000
	}
	tt := r.TTKB
	if tt < 32 {
		tt = 32
	}
	if tt > 4096 {
		tt = 4096
	}
	roots := sbTinyRoots()
	sel := r.StopArg
	if sel < 0 {
		sel = -sel
	}
	e := search.New(tt * 1024)
	for i := 0; i < k; i++ {
		b := sbBoard(roots[(sel+7*i)%len(roots)])
		if (sel+i)%3 == 0 {
			e.Go(b, search.WithDepth(1), search.WithOutput(nil))
		} else {
			e.Go(b, search.WithNodes(1+(sel+13*i)%50), search.WithOutput(nil))
		}
	}
	if r.StopKind == 1 {
		sbUCI(e, []string{"ucinewgame"})
	} else {
		e.Clear()
	}
	gen := e.VerifGen()
	f := search.New(tt * 1024)
	digestEq := 2
	he, oke := sbStateHash(e)
	hf, okf := sbStateHash(f)
	if oke && okf {
		digestEq = 0
		if he == hf {
			digestEq = 1
		}
	}
	follow := func(s *search.Search) []sbStep {
		return sbPlay(s, r.Root, 1, func(i int) ([]search.Option, bool) {
			o := sbLimitOpts(r)
			if r.Nodes >= 0 {
				o = append(o, search.WithNodes(r.Nodes))
			}
			if r.SoftNodes >= 0 {
				o = append(o, search.WithSoftNodes(r.SoftNodes))
			}
			return o, true
		})
	}
	fe, ff := follow(e), follow(f)
	st, wh := sbCompareSteps(ff, fe, false)
	nodes := 0
	if len(ff) > 0 {
		nodes = ff[0].Nodes
	}
	out := &hx.Nums{}
	out.Int(k, r.StopKind, digestEq, st, wh, nodes, gen)
	return out.String()
}

func genC08clear(rng *hx.Rng, n int, tier string, emit func(hx.Input)) {
	roots := sbRoots()
	epd := sbEpdRoots()
	var busy []sbRoot
	for _, root := range roots {
		if b := sbBoard(root); sbFinal(b) == 0 && len(sbLegalMoves(b)) >= 8 {
			busy = append(busy, root)
		}
	}
	ks := []int{0, 1, 2, 255, 256, 257, 511, 512, 513}
	if tier == "thorough" {
		ks = append(ks, 767, 768, 769, 1023, 1024, 1025, 2048)
	}
	cnt := 0
	one := func(k, via int) {
		var root sbRoot
		if len(epd) > 0 && rng.Chance(0.5) {
			root = epd[rng.Intn(len(epd))]
		} else {
			root = busy[rng.Intn(len(busy))]
		}
		r := sbReq{TTKB: 32, Warm: k, Nodes: -1, SoftNodes: -1, StopKind: via, StopArg: rng.Intn(1000), Root: root}
		if rng.Chance(0.25) {
			r.TTKB = 1024
		}
		tags := []string{"clear"}
		if via == 1 {
			tags = []string{"ucinewgame"}
		}
		switch rng.Intn(3) {
		case 0:
			r.Nodes = 1500 + rng.Intn(4000)
			tags = append(tags, "follow:hard")
		case 1:
			r.SoftNodes = 1000 + rng.Intn(3000)
			r.Nodes = 10 * r.SoftNodes
			tags = append(tags, "follow:soft")
		default:
			r.HasDepth, r.Depth, r.Nodes = true, 3+rng.Intn(3), 20000
			tags = append(tags, "follow:depth")
		}
		switch {
		case k == 0:
			tags = append(tags, "k=0")
		case k%256 == 0:
			tags = append(tags, "k=multiple-of-256")
		default:
			tags = append(tags, "k=other")
		}
		emit(hx.Input{In: r.encode().String(),
			Desc: r.desc() + " (warm = k tiny searches before the clear, stop = 0 Clear / 1 ucinewgame, stop-arg = selector)",
			Tags: tags, NonTrivial: k > 0, Key: fmt.Sprintf("%d/%d/%d/%s", k, via, r.StopArg, root.Fen)})
		cnt++
	}
	for _, k := range ks {
		one(k, 0)
	}
	for _, k := range ks {
		if cnt >= n {
			return
		}
		one(k, 1)
	}
	for cnt < n {
		k := rng.Intn(601)
		if rng.Chance(0.2) {
			k = 256 * (1 + rng.Intn(2)) // the generation counter is a byte
		}
		one(k, rng.Intn(2))
	}
}
