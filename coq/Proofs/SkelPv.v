(* Layer A, domain 3 (PV), C07: every s.pv.insert(ply, m) finds in region ply+1 exactly the line
   that the most recently returned search call left there, and that call was the child searched at
   ply+1 with m made on top of the current position (no search call between the child's return and
   the insert); a function with a ply parameter leaves the regions below its ply untouched. *)
From Coq Require Import String List ZArith Bool Lia.
From Chess3 Require Import Model.Skel Model.SkelCheck Proofs.SkelProofs Proofs.SkelBalance.
Import ListNotations.
Open Scope string_scope.
Open Scope list_scope.

Lemma mexp_eqb_eq a b : mexp_eqb a b = true -> a = b.
Proof. destruct a, b. unfold mexp_eqb. cbn. intros H. eqb_tac. reflexivity. Qed.
Lemma mexp_eqb_refl a : mexp_eqb a a = true.
Proof. unfold mexp_eqb. rewrite !String.eqb_refl. reflexivity. Qed.
Lemma omexp_eqb_eq a b : omexp_eqb a b = true -> a = b.
Proof. destruct a, b; cbn; intros H; try discriminate; [apply mexp_eqb_eq in H; subst|]; reflexivity. Qed.
Lemma omexp_eqb_refl a : omexp_eqb a a = true.
Proof. destruct a; cbn; [apply mexp_eqb_refl | reflexivity]. Qed.
Lemma fresh_eqb_eq a b : fresh_eqb a b = true -> a = b.
Proof.
  destruct a as [[x r]|], b as [[y r']|]; cbn; intros H; try discriminate; [|reflexivity].
  apply andb_true_iff in H as [H1 H2]. apply mexp_eqb_eq in H1. apply (list_eqb_eq _ omexp_eqb_eq) in H2.
  subst. reflexivity.
Qed.
Lemma fresh_eqb_refl a : fresh_eqb a a = true.
Proof. destruct a as [[x r]|]; cbn; [|reflexivity]. rewrite mexp_eqb_refl, (list_eqb_refl _ omexp_eqb_refl). reflexivity. Qed.
Lemma cond_eqb_eq a b : cond_eqb a b = true -> a = b.
Proof. destruct a, b. unfold cond_eqb. cbn. intros H. eqb_tac. reflexivity. Qed.
Lemma cond_eqb_refl a : cond_eqb a a = true.
Proof. unfold cond_eqb. rewrite String.eqb_refl, (list_eqb_refl _ String.eqb_refl). reflexivity. Qed.
Lemma known_eqb_eq a b : known_eqb a b = true -> a = b.
Proof.
  apply list_eqb_eq. intros [c v] [c' v']. cbn. intros H. apply andb_true_iff in H as [H1 H2].
  apply cond_eqb_eq in H1. apply Bool.eqb_prop in H2. subst. reflexivity.
Qed.
Lemma known_eqb_refl a : known_eqb a a = true.
Proof. apply list_eqb_refl. intros [c v]. cbn. rewrite cond_eqb_refl, Bool.eqb_reflx. reflexivity. Qed.
Lemma pvs_eqb_eq a b : pvs_eqb a b = true -> a = b.
Proof.
  destruct a, b. unfold pvs_eqb. cbn. intros H.
  apply andb_true_iff in H as [H H4]. apply andb_true_iff in H as [H H3]. apply andb_true_iff in H as [H1 H2].
  apply (list_eqb_eq _ omexp_eqb_eq) in H1. apply fresh_eqb_eq in H2. apply Bool.eqb_prop in H3.
  apply known_eqb_eq in H4. subst. reflexivity.
Qed.
Lemma pvs_eqb_refl a : pvs_eqb a a = true.
Proof.
  destruct a. unfold pvs_eqb. cbn.
  rewrite (list_eqb_refl _ omexp_eqb_refl), fresh_eqb_refl, Bool.eqb_reflx, known_eqb_refl. reflexivity.
Qed.

Lemma known_get_In c k v : known_get c k = Some v -> In (c, v) k.
Proof.
  induction k as [|[c' v'] k IH]; cbn; [discriminate|].
  destruct (cond_eqb c c') eqn:E.
  - apply cond_eqb_eq in E. subst. intros H. inversion H. left. reflexivity.
  - intros H. right. apply IH, H.
Qed.

Section Pv.
Variables B M T : Type.
Variable make : M -> B -> B * T.
Variable undo : M -> T -> B -> B.
Variable make_null : B -> B * T.
Variable undo_null : T -> B -> B.
Variable ftable : list (string * stmt).
Variable unframed : list string.
Variable tracked : list cond.

Notation glob := (glob B M).
Notation locals := (locals M T).
Notation cstate := (cstate B M T).
Notation astep := (astep B M T make undo make_null undo_null).
Notation exec := (exec B M T make undo make_null undo_null ftable).
Notation D := (pvs_dom unframed tracked).

Definition evalm (l : locals) (o : option mexp) : option M :=
  match o with Some m => Some (menv M T l (fst m) (snd m)) | None => None end.
Definition evals (l : locals) (s : list (option mexp)) : list (option M) := map (evalm l) s.

Definition known_ok (l : locals) (k : known_t) : Prop :=
  forall c vs v, In ((c, vs), v) k -> cenv M T l c vs = v.

Definition env := (nat * list (option M) * (nat -> list M))%type.   (* entry ply, made, pv *)

Definition Gpv (e : env) (x : pvs) (c : cstate) : Prop :=
  pv_bad B M (fst c) = false
  /\ ply M T (snd c) = fst (fst e)
  /\ made B M (fst c) = evals (snd c) (mstack x) ++ snd (fst e)
  /\ (frame x = true -> forall j, j < fst (fst e) -> pv B M (fst c) j = snd e j)
  /\ (forall m rest, fresh x = Some (m, rest) ->
        lastret B M (fst c) =
        Some (S (ply M T (snd c)),
              Some (menv M T (snd c) (fst m) (snd m)) :: evals (snd c) rest ++ snd (fst e),
              pv B M (fst c) (S (ply M T (snd c)))))
  /\ known_ok (snd c) (known x).

Definition pv_Inv (c : cstate) : Prop := pv_bad B M (fst c) = false.

Lemma evals_ext l l' s :
  (forall o, In o s -> evalm l' o = evalm l o) -> evals l' s = evals l s.
Proof. intros H. apply map_ext_in. exact H. Qed.

Lemma evalm_menv l l' o : (forall x p, menv M T l' x p = menv M T l x p) -> evalm l' o = evalm l o.
Proof. intros H. destruct o as [m|]; cbn; [rewrite H|]; reflexivity. Qed.

(* atoms that change neither the made stack, nor the PV, nor the locals *)
Lemma Gpv_same_fields e x g g' l :
  pv_bad B M g' = pv_bad B M g -> made B M g' = made B M g -> pv B M g' = pv B M g ->
  lastret B M g' = lastret B M g -> Gpv e x (g, l) -> Gpv e x (g', l).
Proof.
  intros H1 H2 H3 H4 [A [Bq [C [Dq [Eq Fq]]]]]. unfold Gpv. cbn [fst snd] in *.
  rewrite H1, H2, H3, H4. auto 10.
Qed.

Lemma upd_pv_other (f : nat -> list M) k v j : j <> k -> upd_pv M f k v j = f j.
Proof. intros H. unfold upd_pv. apply Nat.eqb_neq in H. rewrite H. reflexivity. Qed.

Lemma filter_known_ok l k P : known_ok l k -> known_ok l (filter P k).
Proof. intros H c vs v Hin. apply filter_In in Hin as [Hin _]. apply H, Hin. Qed.

Lemma pvs_atom_sound e a ax ay c c' :
  pvs_atom tracked a ax = Some ay -> Gpv e ax c -> astep a c c' -> Gpv e ay c'.
Proof.
  intros Htf HG Hst.
  inversion Hst; subst; cbn in Htf;
    try (injection Htf as <-; eapply Gpv_same_fields; [..|exact HG]; reflexivity).
  - (* Make *) injection Htf as <-. destruct HG as [A1 [A2 [A3 [A4 [A5 A6]]]]]. unfold Gpv. cbn [fst snd] in *.
    assert (Ev : forall s, evals (set_tenv M T l r t) s = evals l s)
      by (intros s; apply evals_ext; intros o _; apply evalm_menv; reflexivity).
    unfold evals in *.
    repeat split; auto.
    all: try (cbn; rewrite ?Ev, ?A3; reflexivity).
    all: try (intros m rest Hf; cbn; rewrite ?Ev; apply A5, Hf).
  - (* Undo *) destruct (mstack ax) as [|o rest] eqn:Ms; [discriminate|]. injection Htf as <-.
    destruct HG as [A1 [A2 [A3 [A4 [A5 A6]]]]]. unfold Gpv. cbn [fst snd] in *. rewrite Ms in A3.
    repeat split; auto. cbn. rewrite A3. reflexivity.
  - (* MakeNull *) injection Htf as <-. destruct HG as [A1 [A2 [A3 [A4 [A5 A6]]]]]. unfold Gpv. cbn [fst snd] in *.
    assert (Ev : forall s, evals (set_tenv M T l r t) s = evals l s)
      by (intros s; apply evals_ext; intros o _; apply evalm_menv; reflexivity).
    unfold evals in *.
    repeat split; auto.
    all: try (cbn; rewrite ?Ev, ?A3; reflexivity).
    all: try (intros m rest Hf; cbn; rewrite ?Ev; apply A5, Hf).
  - (* UndoNull *) destruct (mstack ax) as [|o rest] eqn:Ms; [discriminate|]. injection Htf as <-.
    destruct HG as [A1 [A2 [A3 [A4 [A5 A6]]]]]. unfold Gpv. cbn [fst snd] in *. rewrite Ms in A3.
    repeat split; auto. cbn. rewrite A3. reflexivity.
  - (* Havoc *)
    destruct (String.eqb x "ply" || existsb (omexp_uses x) (mstack ax)) eqn:Bad; [discriminate|].
    apply orb_false_iff in Bad as [Np Nu]. apply String.eqb_neq in Np.
    assert (Evo : forall o, omexp_uses x o = false -> evalm l' o = evalm l o).
    { intros [m|] Hu; cbn in *; [|reflexivity]. apply String.eqb_neq in Hu.
      rewrite (proj1 (H (fst m) ltac:(congruence))). reflexivity. }
    assert (Evs : forall s, existsb (omexp_uses x) s = false -> evals l' s = evals l s).
    { intros s Hs. apply evals_ext. intros o Ho. apply Evo.
      destruct (omexp_uses x o) eqn:E; [|reflexivity].
      assert (existsb (omexp_uses x) s = true) by (apply existsb_exists; exists o; auto). congruence. }
    destruct HG as [A1 [A2 [A3 [A4 [A5 A6]]]]]. injection Htf as <-. unfold Gpv. cbn [fst snd] in *.
    unfold evals in *.
    assert (Kn : known_ok l' (known_drop x (known ax))).
    { intros c vs v Hin. unfold known_drop in Hin. apply filter_In in Hin as [Hin Hm].
      cbn [fst snd] in Hm. apply negb_true_iff in Hm.
      rewrite H0; [apply A6, Hin|]. intros Hc. apply mem_In in Hc. congruence. }
    destruct (fresh_uses x (fresh ax)) eqn:Fu; cbn [mstack fresh frame known set_known set_fresh].
    + repeat split; auto; try (rewrite H1 by exact Np; exact A2).
      * rewrite Evs by exact Nu. exact A3.
      * intros m rest Hf. discriminate.
    + repeat split; auto; try (rewrite H1 by exact Np; exact A2).
      * rewrite Evs by exact Nu. exact A3.
      * intros m rest Hf. rewrite Hf in Fu. cbn in Fu. apply orb_false_iff in Fu as [F1 F2].
        apply String.eqb_neq in F1. rewrite (H1 Np), (Evs _ F2), (proj1 (H (fst m) ltac:(congruence))).
        apply A5, Hf.
  - (* MsPop *) injection Htf as <-. eapply Gpv_same_fields; [..|exact HG];
      destruct (ms_frames B M g); reflexivity.
  - (* IncNodes *) injection Htf as <-. eapply Gpv_same_fields; [..|exact HG]; unfold inc_nodes;
      destruct ((budget B M g =? -1)%Z || (nodes B M g <? budget B M g)%Z); try reflexivity;
      destruct (ponder B M g); reflexivity.
  - (* PvSetNull *) injection Htf as <-. destruct HG as [A1 [A2 [A3 [A4 [A5 A6]]]]]. unfold Gpv. cbn [fst snd] in *.
    repeat split; auto.
    + intros Hf j Hj. cbn. rewrite upd_pv_other by lia. apply A4; assumption.
    + intros m rest Hf. cbn. rewrite upd_pv_other by lia. apply A5, Hf.
  - (* PvInsert, fresh *)
    destruct (fresh_eqb (fresh ax) (Some ((x, p), mstack ax))) eqn:Fe; [|discriminate]. injection Htf as <-.
    destruct HG as [A1 [A2 [A3 [A4 [A5 A6]]]]]. unfold Gpv. cbn [fst snd] in *.
    repeat split; auto.
    + intros Hf j Hj. cbn. rewrite upd_pv_other by lia. apply A4; assumption.
    + intros m rest Hf. cbn. rewrite upd_pv_other by lia. apply A5, Hf.
  - (* PvInsert, stale: excluded *)
    destruct (fresh_eqb (fresh ax) (Some ((x, p), mstack ax))) eqn:Fe; [|discriminate].
    apply fresh_eqb_eq in Fe. destruct HG as [A1 [A2 [A3 [A4 [A5 A6]]]]]. cbn [fst snd] in *.
    exfalso. apply H. unfold pv_fresh. rewrite (A5 _ _ Fe), A3. reflexivity.
  - (* SetC *) injection Htf as <-. destruct HG as [A1 [A2 [A3 [A4 [A5 A6]]]]]. unfold Gpv. cbn [fst snd] in *.
    assert (Ev : forall s, evals (set_cenv M T l c0 vs v) s = evals l s)
      by (intros s; apply evals_ext; intros o _; apply evalm_menv; reflexivity).
    unfold evals in *.
    assert (Other : known_ok (set_cenv M T l c0 vs v)
                      (filter (fun e0 => negb (cond_eqb (c0, vs) (fst e0))) (known ax))).
    { intros c1 vs1 v1 Hin. apply filter_In in Hin as [Hin Hne]. cbn in Hne.
      apply negb_true_iff in Hne. cbn.
      destruct (String.eqb c1 c0 && list_eqb String.eqb vs1 vs) eqn:E; [|apply A6, Hin].
      apply andb_true_iff in E as [E1 E2]. apply String.eqb_eq in E1. apply strs_eqb_eq in E2. subst.
      rewrite cond_eqb_refl in Hne. discriminate. }
    repeat split; auto.
    all: try (rewrite ?Ev; exact A3).
    all: try (intros m rest Hf; rewrite ?Ev; apply A5, Hf).
    cbn [known set_known]. destruct (is_tracked tracked (c0, vs)); [|exact Other].
      unfold known_set. intros c1 vs1 v1 [Heq|Hin]; [|apply Other, Hin].
      inversion Heq; subst. cbn. rewrite String.eqb_refl, (list_eqb_refl _ String.eqb_refl). reflexivity.
Qed.

Lemma pvs_call_sound e x c f p xin xout me te ce :
  pvs_call unframed f p x = Some (xin, xout) -> Gpv e x c ->
  exists e', Gpv e' xin (enter B M T p c me te ce) /\
             forall xe c2, Gpv e' xe c2 -> pvs_exit unframed f xin xe = true -> Gpv e xout (leave B M T p c c2).
Proof.
  intros Hcp [A1 [A2 [A3 [A4 [A5 A6]]]]]. unfold pvs_call in Hcp. injection Hcp as <- <-.
  destruct c as [g l]. cbn [fst snd] in *.
  exists (callee_ply p (ply M T l), made B M g, pv B M g).
  split.
  { unfold Gpv, enter. cbn [fst snd pvs_zero mstack fresh frame known evals map app].
    destruct (is_search_call p); cbn; repeat split; auto; try discriminate; intros ? ? ? []. }
  intros xe [g2 l2] [C1 [C2 [C3 [C4 [C5 C6]]]]] Hex. cbn [fst snd] in *.
  unfold pvs_exit in Hex. apply andb_true_iff in Hex as [Hms Hfr].
  destruct (mstack xe) eqn:Ms; [|discriminate]. cbn in C3.
  assert (Lf : forall (P : glob -> Prop), P g2 ->
            (forall lr, P (set_lastret B M g2 lr)) -> P (fst (leave B M T p (g, l) (g2, l2)))).
  { intros P P1 P2. unfold leave. cbn [fst snd]. destruct (is_search_call p); auto. }
  unfold Gpv. cbn [snd leave]. cbn [fst].
  assert (Hpb : pv_bad B M (fst (leave B M T p (g, l) (g2, l2))) = false) by (apply Lf; auto).
  assert (Hmd : made B M (fst (leave B M T p (g, l) (g2, l2))) = made B M g2) by (apply Lf; auto).
  assert (Hpv : pv B M (fst (leave B M T p (g, l) (g2, l2))) = pv B M g2) by (apply Lf; auto).
  cbn [fst] in Hpb, Hmd, Hpv. rewrite Hpb, Hmd, Hpv.
  cbn [mstack fresh frame known set_frame set_fresh].
  split; [reflexivity|]. split; [exact A2|]. split; [rewrite C3; exact A3|]. split; [|split; [|exact A6]].
  - intros Hf j Hj. apply andb_true_iff in Hf as [Hf Hp]. apply andb_true_iff in Hf as [Hf Hu].
    apply negb_true_iff in Hu. rewrite Hu in Hfr. cbn in Hfr.
    rewrite (C4 Hfr j); [apply A4; assumption|].
    destruct p; cbn in Hp |- *; try discriminate; lia.
  - intros m rest Hf.
    destruct p as [k| |]; try discriminate. destruct k as [|[|k]]; try discriminate.
    destruct (mstack x) as [|[m0|] rest0] eqn:Mx; try discriminate. injection Hf as <- <-.
    unfold leave. cbn [is_search_call fst snd]. cbn.
    rewrite C2. cbn. replace (ply M T l + 1) with (S (ply M T l)) by lia.
    rewrite C3, A3. reflexivity.
Qed.

Hypothesis table_checked : table_ok D ftable = true.

Lemma pvs_call_checked f p c o c' e x xin xout :
  exec (Call f p) c o c' -> pvs_call unframed f p x = Some (xin, xout) -> In xin [pvs_zero] -> Gpv e x c ->
  match o with OHalt => pv_Inv c' | ONormal => Gpv e xout c' | _ => False end.
Proof.
  apply (call_checked B M T make undo make_null undo_null ftable D env Gpv pv_Inv).
  - exact pvs_eqb_eq.
  - (* le *) intros e0 x0 y c0 Hle [A1 [A2 [A3 [A4 [A5 A6]]]]]. cbn in Hle. unfold pvs_le in Hle.
    apply andb_true_iff in Hle as [Hle H4]. apply andb_true_iff in Hle as [Hle H3].
    apply andb_true_iff in Hle as [H1 H2]. apply (list_eqb_eq _ omexp_eqb_eq) in H1.
    unfold Gpv. rewrite <- H1. repeat split; auto.
    + intros Hf. apply orb_true_iff in H3 as [H3|H3]; [apply Bool.eqb_prop in H3; rewrite H3 in A4; auto|].
      rewrite Hf in H3. discriminate.
    + intros m rest Hf. rewrite Hf in H2. apply fresh_eqb_eq in H2. apply A5, H2.
    + intros c1 vs1 v1 Hin. unfold known_le in H4. rewrite forallb_forall in H4. specialize (H4 _ Hin).
      cbn in H4. destruct (known_get (c1, vs1) (known x0)) as [v2|] eqn:Kg; [|discriminate].
      apply Bool.eqb_prop in H4. subst v2. apply known_get_In in Kg. apply A6, Kg.
  - (* widen *) intros e0 x0 c0 [A1 [A2 [A3 [A4 [A5 A6]]]]]. cbn [a_widen pvs_dom]. unfold pvs_widen.
    destruct (fresh x0) as [fr|] eqn:Fr.
    + unfold Gpv; cbn; repeat split; auto; try discriminate; try (intros ? ? ? []).
    + destruct (known x0) eqn:Kn.
      * unfold Gpv; cbn. rewrite ?Fr, ?Kn. repeat split; auto; try discriminate; try (intros ? ? ? []).
      * unfold Gpv; cbn. repeat split; auto; try discriminate; try (intros ? ? ? []).
  - intros e0 x0 c0 [A1 _]. exact A1.
  - exact pvs_atom_sound.
  - intros e0 x0 g l HG. exact HG.
  - intros e0 x0 g l HG _. exists x0. split; [reflexivity | exact HG].
  - (* test *) intros e0 x0 g l c0 vs v [A1 [A2 [A3 [A4 [A5 A6]]]]] Hc. cbn. unfold pvs_test.
    destruct (known_get (c0, vs) (known x0)) as [v'|] eqn:Kg.
    + apply known_get_In in Kg. apply A6 in Kg. cbn [snd] in Kg. rewrite Hc in Kg. subst v'.
      rewrite Bool.eqb_reflx. exists x0. split; [reflexivity|]. unfold Gpv. auto 10.
    + eexists. split; [reflexivity|]. destruct (is_tracked tracked (c0, vs)); unfold Gpv; cbn; auto 10.
      repeat split; auto. unfold known_set. intros c1 vs1 v1 [Heq|Hin].
      * inversion Heq; subst. reflexivity.
      * apply filter_In in Hin as [Hin _]. apply A6, Hin.
  - intros e0 x0 g l a HG. exact HG.
  - exact pvs_call_sound.
  - apply table_ok_lookup. exact table_checked.
  - exact pvs_eqb_refl.
Qed.

(* (d) the monitor never fires: no s.pv.insert reads a stale or foreign line *)
Theorem pv_monitor f p c o c' :
  exec (Call f p) c o c' -> pv_bad B M (fst c) = false -> pv_bad B M (fst c') = false.
Proof.
  intros Hex Hb.
  assert (HG : Gpv (ply M T (snd c), made B M (fst c), pv B M (fst c)) pvs_zero c).
  { unfold Gpv. cbn. repeat split; auto; try discriminate. intros ? ? ? []. }
  pose proof (pvs_call_checked f p c o c' _ pvs_zero _ _ Hex eq_refl (or_introl eq_refl) HG) as P.
  inversion Hex; subst; cbn in P; try exact P. destruct P as [P _]. exact P.
Qed.

(* a function with a ply parameter, run at the caller's ply, leaves the regions below it untouched *)
Theorem pv_frame f p c c' :
  exec (Call f p) c ONormal c' -> pv_bad B M (fst c) = false ->
  mem f unframed = false -> (match p with PlyAbs _ => False | _ => True end) ->
  forall j, j < ply M T (snd c) -> pv B M (fst c') j = pv B M (fst c) j.
Proof.
  intros Hex Hb Hu Hp j Hj.
  assert (HG : Gpv (ply M T (snd c), made B M (fst c), pv B M (fst c)) pvs_zero c).
  { unfold Gpv. cbn. repeat split; auto; try discriminate. intros ? ? ? []. }
  pose proof (pvs_call_checked f p c ONormal c' _ pvs_zero _ _ Hex eq_refl (or_introl eq_refl) HG) as P.
  destruct P as [_ [_ [_ [P _]]]]. cbn in P. rewrite Hu in P. cbn in P.
  apply P; [destruct p; try reflexivity; contradiction | exact Hj].
Qed.

End Pv.
