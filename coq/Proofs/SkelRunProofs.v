(* The interpreter of Model/SkelRun.v only produces executions of the semantics of Model/Skel.v. *)
From Coq Require Import String List ZArith Bool.
From Chess3 Require Import Model.Skel Model.SkelCheck Model.SkelRun Proofs.SkelProofs.
Import ListNotations.
Open Scope string_scope.

Section RunSound.
Variables B M T : Type.
Variable make : M -> B -> B * T.
Variable undo : M -> T -> B -> B.
Variable make_null : B -> B * T.
Variable undo_null : T -> B -> B.
Variable ftable : list (string * stmt).
Variable mk : nat -> M.
Variable t0 : T.
Variable M_eq_dec : forall a b : M, {a = b} + {a <> b}.

Notation astep := (astep B M T make undo make_null undo_null).
Notation exec := (exec B M T make undo make_null undo_null ftable).
Notation arun := (arun B M T make undo make_null undo_null mk M_eq_dec).
Notation run := (run B M T make undo make_null undo_null ftable mk t0 M_eq_dec).

Lemma arun_sound a c orc c' orc' : arun a c orc = (c', orc') -> astep a c c'.
Proof.
  destruct c as [g l]. destruct a; cbn; intros H;
    try (injection H as <- <-; constructor; fail).
  - destruct (make (menv M T l x p) (board B M g)) as [b' t] eqn:Mk. injection H as <- <-.
    constructor. exact Mk.
  - destruct (make_null (board B M g)) as [b' t] eqn:Mk. injection H as <- <-. constructor. exact Mk.
  - injection H as <- <-. constructor; cbn; auto.
    + intros y Hy. apply String.eqb_neq in Hy. rewrite Hy. auto.
    + intros c vs Hn. destruct (mem x vs) eqn:E; [apply mem_In in E; contradiction | reflexivity].
  - injection H as <- <-.
    destruct (fresh_dec B M T M_eq_dec g l (menv M T l x p)) as [F|F]; constructor; exact F.
Qed.

Theorem run_sound : forall fuel s c orc o c' orc', run fuel s c orc = (o, c', orc') -> exec s c o c'.
Proof.
  induction fuel as [|fuel IH]; intros s c orc o c' orc' H; cbn in H.
  { injection H as <- <- <-. constructor. }
  destruct s.
  - injection H as <- <- <-. constructor.
  - destruct (arun a c orc) as [c1 orc1] eqn:A. injection H as <- <- <-. constructor. eapply arun_sound, A.
  - (* Seq *) destruct (run fuel s1 c orc) as [[o1 c1] orc1] eqn:R1. apply IH in R1.
    destruct o1; try (injection H as <- <- <-; eapply E_SeqOut; [exact R1 | exact I]).
    + eapply E_Seq; [exact R1 | eapply IH, H].
    + destruct (seek l s2) as [k|] eqn:Sk.
      * eapply E_SeqJump; [exact R1 | exact Sk | eapply IH, H].
      * injection H as <- <- <-. eapply E_SeqMiss; [exact R1 | exact Sk].
  - (* If *) destruct (bit (hd 0 orc)); [apply E_IfL | apply E_IfR]; eapply IH, H.
  - (* IfAborted *) destruct c as [g l]. cbn [fst snd] in H. destruct (aborted B M g) eqn:Ab.
    + apply E_AbortT. eapply IH, H.
    + destruct (Nat.eqb (hd 0 orc) 7); [apply E_AbortT | apply E_AbortF; [exact Ab|]]; eapply IH, H.
  - (* IfC *) destruct c as [g l]. cbn [fst snd] in H.
    destruct (Bool.eqb (cenv M T l c0 vars) (negb neg)) eqn:E.
    + apply Bool.eqb_prop in E. apply E_IfCT; [exact E | eapply IH, H].
    + apply E_IfCF; [|eapply IH, H].
      destruct (cenv M T l c0 vars), neg; cbn in E; try discriminate; reflexivity.
  - (* Loop *) destruct (run fuel s c orc) as [[o1 c1] orc1] eqn:R1. apply IH in R1.
    destruct o1.
    + eapply E_LoopIter; [exact R1 | reflexivity | eapply IH, H].
    + injection H as <- <- <-. eapply E_LoopOut; [exact R1 | exact I].
    + injection H as <- <- <-. eapply E_LoopBreak. exact R1.
    + eapply E_LoopIter; [exact R1 | reflexivity | eapply IH, H].
    + injection H as <- <- <-. eapply E_LoopOut; [exact R1 | exact I].
    + injection H as <- <- <-. eapply E_LoopOut; [exact R1 | exact I].
  - destruct (run fuel s c orc) as [[o1 c1] orc1] eqn:R1. apply IH in R1. injection H as <- <- <-.
    apply (E_CatchCont _ _ _ _ _ _ _ _ _ _ _ _ R1).
  - destruct (run fuel s c orc) as [[o1 c1] orc1] eqn:R1. apply IH in R1. injection H as <- <- <-.
    apply (E_CatchBreak _ _ _ _ _ _ _ _ _ _ _ _ R1).
  - destruct c as [g l]. injection H as <- <- <-. constructor.
  - (* Call *) destruct (lookup f ftable) as [b|] eqn:L; [|injection H as <- <- <-; constructor].
    set (n := hd 0 orc) in *.
    destruct (run fuel b (enter B M T p c (fun _ _ => mk n) (fun _ => t0) (fun _ _ => bit n)) (tl orc))
      as [[o1 c1] orc1] eqn:R1. apply IH in R1.
    assert (HaltHere : exec (Call f p) c OHalt c) by constructor.
    destruct o1; cbn [is_exit] in H;
      try (injection H as <- <- <-; first [exact HaltHere | eapply E_CallHalt; [exact L | exact R1]]).
    + destruct (run fuel (defer_stmt (defers M T (snd c1))) c1 orc1) as [[o2 c2] orc2] eqn:R2. apply IH in R2.
      destruct o2; injection H as <- <- <-; try exact HaltHere.
      * eapply E_Call; [exact L | exact R1 | reflexivity | exact R2].
      * eapply E_CallHaltD; [exact L | exact R1 | reflexivity | exact R2].
    + destruct (run fuel (defer_stmt (defers M T (snd c1))) c1 orc1) as [[o2 c2] orc2] eqn:R2. apply IH in R2.
      destruct o2; injection H as <- <- <-; try exact HaltHere.
      * eapply E_Call; [exact L | exact R1 | reflexivity | exact R2].
      * eapply E_CallHaltD; [exact L | exact R1 | reflexivity | exact R2].
  - injection H as <- <- <-. constructor.
  - injection H as <- <- <-. constructor.
  - injection H as <- <- <-. constructor.
  - injection H as <- <- <-. constructor.
  - injection H as <- <- <-. constructor.
Qed.

End RunSound.
