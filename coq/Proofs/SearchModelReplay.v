(* Soft / hard replay on the closed search model (C08).

   Part 1 (this file, alphaBeta level): a run under limits o1 that returns NOT aborted with the node
   counter at most N is reproduced exactly - value, state, board - by the run under any limits o2 whose
   hard budget is N.  The two runs are walked in lockstep; they only differ at incrementNodes, which
   under budget N behaves like under o1 as long as the counter stays below N; a sub-call that would
   pass N or abort contradicts the assumption on the final state because the counter never decreases
   and the abort flag is sticky (Proofs/SearchModelBudget.v) through the rest of the run.
   Part 2: iterative deepening (the C08 replay clause). *)
From Coq Require Import NArith ZArith List Bool Lia.
From Chess3 Require Import Base.Bits Base.Word Model.Types Model.BoardDef Model.Board Model.Search
  Proofs.SearchModelInv Proofs.SearchModelBudget.
From Chess3 Require Model.Movegen Model.Mate Model.Eval Model.TT Model.Hist Model.Picker Model.See
  Model.Pv Model.IterDeepen.
Import ListNotations.
Open Scope Z_scope.

Section Replay.
  Variable o1 o2 : opts.
  Variable N : Z.
  Hypothesis o2_budget : o_nodes o2 = N.

  Notation B := (budget_rel o1).

  Lemma inc_same st : s_aborted st = false -> s_aborted (inc_nodes o1 st) = false -> s_nodes (inc_nodes o1 st) <= N ->
    inc_nodes o2 st = inc_nodes o1 st.
  Proof.
    unfold inc_nodes, IterDeepen.increment_nodes. rewrite o2_budget. intros Ha.
    destruct ((o_nodes o1 =? -1) || (s_nodes st <? o_nodes o1)); cbn [s_nodes s_aborted set_nodes set_aborted].
    - intros _ Hn. assert ((N =? -1) || (s_nodes st <? N) = true) as ->; [|reflexivity].
      apply orb_true_iff. right. apply Z.ltb_lt. lia.
    - intros Hc. discriminate Hc.
  Qed.

  (* chains of budget_rel facts *)
  Ltac solveB :=
    repeat first
      [ apply (bR_refl o1)
      | match goal with
        | |- B ?a (set_tt ?s _) => apply (bR_trans o1 a s); [ | apply bR_tt ]
        | |- B ?a (set_rk ?s _) => apply (bR_trans o1 a s); [ | apply bR_rk ]
        | |- B ?a (set_ms ?s _) => apply (bR_trans o1 a s); [ | apply bR_ms ]
        | |- B ?a (set_hs ?s _) => apply (bR_trans o1 a s); [ | apply bR_hs ]
        | |- B ?a (set_pv ?s _) => apply (bR_trans o1 a s); [ | apply bR_pv ]
        | |- B ?a (set_trace ?s _) => apply (bR_trans o1 a s); [ | apply bR_trace ]
        | |- B ?a (trace ?s _ _) => apply (bR_trans o1 a s); [ | apply (R_tracef (budget_rel o1) (bR_refl o1) (bR_trace o1)) ]
        | |- B ?a (tt_insert ?s _ _ _ _ _ _) => apply (bR_trans o1 a s); [ | apply (R_insert (budget_rel o1) (bR_tt o1)) ]
        | |- B ?a (inc_nodes o1 ?s) => apply (bR_trans o1 a s); [ | apply bR_inc ]
        | |- B _ (if ?c then _ else _) => destruct c
        | Hc : B ?s0 ?s |- B ?a ?s => apply (bR_trans o1 a s0); [ | exact Hc ]
        end ].

  (* the final state is fine, an earlier one was not: contradiction through the chain *)
  Definition bad (s : sstate) : Prop := s_aborted s = true \/ N < s_nodes s.

  Lemma bad_contra s s' : bad s -> B s s' -> s_aborted s' = false -> s_nodes s' <= N -> False.
  Proof. intros [Hb|Hb] (H1 & _ & H3 & _) Ha Hn; [rewrite (H3 Hb) in Ha; discriminate Ha|lia]. Qed.

  Lemma good_or_bad s : (s_aborted s = false /\ s_nodes s <= N) \/ bad s.
  Proof. unfold bad. destruct (s_aborted s); [right; now left|]. destruct (Z_le_gt_dec (s_nodes s) N); [left; auto|right; right; lia]. Qed.

  Definition qA (f1 f2 : sstate -> board -> Z -> Z -> Z -> res rt) : Prop :=
    forall st b al be ply v st' b', f1 st b al be ply = Ok (v, st', b') -> s_aborted st' = false -> s_nodes st' <= N ->
      f2 st b al be ply = Ok (v, st', b').
  Definition abA (f1 f2 : sstate -> board -> Z -> Z -> Z -> Z -> Z -> res rt) : Prop :=
    forall st b al be d ply nt v st' b', f1 st b al be d ply nt = Ok (v, st', b') -> s_aborted st' = false -> s_nodes st' <= N ->
      f2 st b al be d ply nt = Ok (v, st', b').

  Section Q.
    Variable qchild1 qchild2 : sstate -> board -> Z -> Z -> Z -> res rt.
    Hypothesis HqA : qA qchild1 qchild2.
    Hypothesis HqB : q_ok B qchild1.

    Definition qs_loop_B := qs_loop_R B (bR_refl o1) (bR_trans o1) (bR_tt o1) (bR_ms o1) qchild1 HqB.

    (* a step of the lockstep walk: H1 drives, the goal follows *)
    Ltac follow := cbn [bind of_opt]; cbn beta.
    Ltac facts :=
      repeat match goal with E : qchild1 _ _ _ _ _ = Ok (_, ?s, _) |- _ =>
               lazymatch goal with Hc : B _ s |- _ => fail | _ => pose proof (HqB _ _ _ _ _ _ _ _ E) end end;
      repeat match goal with E : qs_loop qchild1 _ _ _ _ _ _ _ _ _ _ = Ok (_, ?s, _) |- _ =>
               lazymatch goal with Hc : B _ s |- _ => fail | _ => pose proof (qs_loop_B _ _ _ _ _ _ _ _ _ _ _ _ _ E) end end.
    (* leaf of a branch in which an intermediate state was bad *)
    Ltac dead Hbad Hab Hn :=
      exfalso; walk; facts;
      match type of Hbad with bad ?s => eapply (bad_contra s _ Hbad); [ | exact Hab | exact Hn ]; solveB end.

    Lemma qs_loop_A : forall n st b moves nx al be maxim delta ply v st' b',
      qs_loop qchild1 n st b moves nx al be maxim delta ply = Ok (v, st', b') ->
      s_aborted st' = false -> s_nodes st' <= N ->
      qs_loop qchild2 n st b moves nx al be maxim delta ply = Ok (v, st', b').
    Proof.
      induction n as [|n IH]; intros st b moves nx al be maxim delta ply v st' b' H1 Hab Hn; [discriminate H1|].
      cbn [qs_loop] in H1 |- *.
      repeat (first
        [ match goal with
          | E : qchild1 ?s ?bb ?x1 ?x2 ?x3 = Ok (?vv, ?ss, ?b2) |- context [qchild2 ?s ?bb ?x1 ?x2 ?x3] =>
              let Hga := fresh "Hga" in let Hgn := fresh "Hgn" in let Hbad := fresh "Hbad" in
              destruct (good_or_bad ss) as [[Hga Hgn]|Hbad];
              [ rewrite (HqA _ _ _ _ _ _ _ _ E Hga Hgn); follow | dead Hbad Hab Hn ]
          end
        | match type of H1 with
          | qs_loop qchild1 _ _ _ _ _ _ _ _ _ _ = Ok _ => fail 1
          | _ => walk1 H1; follow
          end ]).
      all: try reflexivity.
      all: try (apply IH; assumption).
    Qed.

    Definition qs_body_B_after := qs_body_R_after o1 B (bR_refl o1) (bR_trans o1) (bR_tt o1) (bR_ms o1) (bR_trace o1) qchild1 HqB.

    Lemma qs_body_A : qA (qs_body o1 qchild1) (qs_body o2 qchild2).
    Proof.
      intros st b al be ply v st' b' H1 Hab Hn.
      pose proof (qs_body_B_after _ _ _ _ _ _ _ _ H1) as HB0.
      assert (Hinc : inc_nodes o2 st = inc_nodes o1 st).
      { destruct HB0 as (Q1 & _ & Q3 & _).
        destruct (s_aborted st) eqn:Ea.
        - exfalso. pose proof (bR_inc o1 st) as (_ & _ & Q & _). rewrite (Q3 (Q Ea)) in Hab. discriminate Hab.
        - apply inc_same; [exact Ea| |lia].
          destruct (s_aborted (inc_nodes o1 st)) eqn:Eb; [|reflexivity]. rewrite (Q3 eq_refl) in Hab. discriminate Hab. }
      unfold qs_body, qs_pushed in H1 |- *. rewrite Hinc. clear Hinc HB0.
      repeat (first
        [ match goal with
          | E : qs_loop qchild1 ?n ?s ?bb ?m ?nx ?x1 ?x2 ?x3 ?x4 ?x5 = Ok (?vv, ?ss, ?b2) |- context [qs_loop qchild2 ?n ?s ?bb ?m ?nx ?x1 ?x2 ?x3 ?x4 ?x5] =>
              let Hga := fresh "Hga" in let Hgn := fresh "Hgn" in let Hbad := fresh "Hbad" in
              destruct (good_or_bad ss) as [[Hga Hgn]|Hbad];
              [ rewrite (qs_loop_A _ _ _ _ _ _ _ _ _ _ _ _ _ E Hga Hgn); follow | dead Hbad Hab Hn ]
          end
        | match goal with H : _ = Ok _ |- _ => walk1 H; follow end ]).
      all: try reflexivity.
    Qed.
  End Q.

  Lemma quiescence_A : forall fuel, qA (quiescence fuel o1) (quiescence fuel o2).
  Proof.
    induction fuel as [|f IH]; intros st b al be ply v st' b' H1 Hab Hn; [discriminate H1|].
    cbn [quiescence] in H1 |- *.
    exact (qs_body_A _ _ IH (fun st b al be ply v st' b' H => quiescence_budget f o1 st b al be ply v st' b' H) _ _ _ _ _ _ _ _ H1 Hab Hn).
  Qed.

  Section Node.
    Variable child1 child2 : sstate -> board -> Z -> Z -> Z -> Z -> Z -> res rt.
    Variable qs1 qs2 : sstate -> board -> Z -> Z -> Z -> res rt.
    Hypothesis HcA : abA child1 child2.
    Hypothesis HcB : ab_ok B child1.
    Hypothesis HqA : qA qs1 qs2.
    Hypothesis HqB : q_ok B qs1.

    Definition search_move_B := search_move_R B (bR_refl o1) (bR_trans o1) child1 HcB.
    Definition ab_finish_B := ab_finish_R B (bR_refl o1) (bR_trans o1) (bR_tt o1).
    Definition ab_loop_B := ab_loop_R B (bR_refl o1) (bR_trans o1) (bR_tt o1) (bR_rk o1) (bR_ms o1) (bR_hs o1) (bR_pv_ins o1) (bR_trace o1) child1 HcB.
    Definition ab_static_B := ab_static_R B (bR_refl o1) (bR_trans o1) child1 HcB.

    Ltac follow := cbn [bind of_opt]; cbn beta.
    Ltac nfact E s tac := lazymatch goal with Hc : B _ s |- _ => fail | _ => pose proof tac end.
    Ltac facts :=
      repeat match goal with
             | E : child1 _ _ _ _ _ _ _ = Ok (_, ?s, _) |- _ => nfact E s (HcB _ _ _ _ _ _ _ _ _ _ E)
             | E : qs1 _ _ _ _ _ = Ok (_, ?s, _) |- _ => nfact E s (HqB _ _ _ _ _ _ _ _ E)
             | E : search_move child1 _ _ _ _ _ _ _ _ _ _ _ _ = Ok (_, ?s, _) |- _ => nfact E s (search_move_B _ _ _ _ _ _ _ _ _ _ _ _ _ _ _ E)
             | E : ab_finish _ _ _ _ _ _ _ _ _ = Ok (_, ?s, _) |- _ => nfact E s (ab_finish_B _ _ _ _ _ _ _ _ _ _ _ _ E)
             | E : ab_loop child1 _ _ _ _ _ _ _ _ _ _ _ _ _ _ _ _ _ _ = Ok (_, ?s, _) |- _ =>
                 nfact E s (ab_loop_B _ _ _ _ _ _ _ _ _ _ _ _ _ _ _ _ _ _ _ _ _ E)
             | E : ab_static child1 _ _ _ _ _ _ = Ok (_, ?s, _) |- _ => nfact E s (ab_static_B _ _ _ _ _ _ _ _ _ E)
             end.
    Ltac dead Hbad Hab Hn :=
      exfalso; walk; facts;
      match type of Hbad with bad ?s => eapply (bad_contra s _ Hbad); [ | exact Hab | exact Hn ]; solveB end.
    Ltac step_any :=
      first [ match goal with C : ?c = _ |- context [if ?c then _ else _] => rewrite C; follow end
            | match goal with H : _ = Ok _ |- _ => walk1 H; follow end ].

    Lemma search_move_A st b1 al be d ply nt next mc qc ic imp v st' b' :
      search_move child1 st b1 al be d ply nt next mc qc ic imp = Ok (v, st', b') ->
      s_aborted st' = false -> s_nodes st' <= N ->
      search_move child2 st b1 al be d ply nt next mc qc ic imp = Ok (v, st', b').
    Proof.
      intros H1 Hab Hn. unfold search_move in H1 |- *.
      repeat (first
        [ match goal with
          | E : child1 ?s ?bb ?x1 ?x2 ?x3 ?x4 ?x5 = Ok (?vv, ?ss, ?b2) |- context [child2 ?s ?bb ?x1 ?x2 ?x3 ?x4 ?x5] =>
              let Hga := fresh "Hga" in let Hgn := fresh "Hgn" in let Hbad := fresh "Hbad" in
              destruct (good_or_bad ss) as [[Hga Hgn]|Hbad];
              [ rewrite (HcA _ _ _ _ _ _ _ _ _ _ E Hga Hgn); follow | dead Hbad Hab Hn ]
          end
        | step_any ]).
      all: try reflexivity.
    Qed.

    Lemma ab_loop_A : forall n st b p al be d ply nt se maxim best ic imp hl fl mc qc v st' b',
      ab_loop child1 n st b p al be d ply nt se maxim best ic imp hl fl mc qc = Ok (v, st', b') ->
      s_aborted st' = false -> s_nodes st' <= N ->
      ab_loop child2 n st b p al be d ply nt se maxim best ic imp hl fl mc qc = Ok (v, st', b').
    Proof.
      induction n as [|n IH]; intros st b p al be d ply nt se maxim best ic imp hl fl mc qc v st' b' H1 Hab Hn; [discriminate H1|].
      cbn [ab_loop] in H1 |- *.
      repeat (first
        [ match goal with
          | E : search_move child1 ?s ?bb ?x1 ?x2 ?x3 ?x4 ?x5 ?x6 ?x7 ?x8 ?x9 ?x10 = Ok (?vv, ?ss, ?b2)
            |- context [search_move child2 ?s ?bb ?x1 ?x2 ?x3 ?x4 ?x5 ?x6 ?x7 ?x8 ?x9 ?x10] =>
              let Hga := fresh "Hga" in let Hgn := fresh "Hgn" in let Hbad := fresh "Hbad" in
              destruct (good_or_bad ss) as [[Hga Hgn]|Hbad];
              [ rewrite (search_move_A _ _ _ _ _ _ _ _ _ _ _ _ _ _ _ E Hga Hgn); follow | dead Hbad Hab Hn ]
          end
        | step_any ]).
      all: try reflexivity.
      all: try assumption.
      all: try (apply IH; assumption).
    Qed.

    Lemma ab_static_A st b be d ply ic e st' b' :
      ab_static child1 st b be d ply ic = Ok (e, st', b') ->
      s_aborted st' = false -> s_nodes st' <= N ->
      ab_static child2 st b be d ply ic = Ok (e, st', b').
    Proof.
      intros H1 Hab Hn. unfold ab_static in H1 |- *.
      repeat (first
        [ match goal with
          | E : child1 ?s ?bb ?x1 ?x2 ?x3 ?x4 ?x5 = Ok (?vv, ?ss, ?b2) |- context [child2 ?s ?bb ?x1 ?x2 ?x3 ?x4 ?x5] =>
              let Hga := fresh "Hga" in let Hgn := fresh "Hgn" in let Hbad := fresh "Hbad" in
              destruct (good_or_bad ss) as [[Hga Hgn]|Hbad];
              [ rewrite (HcA _ _ _ _ _ _ _ _ _ _ E Hga Hgn); follow | dead Hbad Hab Hn ]
          end
        | step_any ]).
      all: try reflexivity.
    Qed.

    Definition ab_body_B_after := ab_body_R_after o1 B (bR_refl o1) (bR_trans o1) (bR_tt o1) (bR_rk o1) (bR_ms o1) (bR_hs o1)
                                                   (bR_pv_ins o1) (bR_trace o1) child1 qs1 HcB.

    Lemma ab_body_A : abA (ab_body o1 child1 qs1) (ab_body o2 child2 qs2).
    Proof.
      intros st b al be d ply nt v st' b' H1 Hab Hn.
      destruct ((d =? 0) || (SearchParams.MaxPlies - 1 <=? ply)) eqn:Hd.
      - unfold ab_body in H1 |- *. rewrite Hd in H1 |- *.
        destruct (Pv.set_null (s_pv st) ply) as [pv1|]; cbn [of_opt bind] in H1 |- *; [|discriminate H1].
        exact (HqA _ _ _ _ _ _ _ _ H1 Hab Hn).
      - destruct (ab_body_B_after _ _ _ _ _ _ _ _ _ _ H1 Hd) as (pv1 & Ep & HB0).
        assert (Hinc : inc_nodes o2 (set_pv st pv1) = inc_nodes o1 (set_pv st pv1)).
        { destruct HB0 as (Q1 & _ & Q3 & _).
          destruct (s_aborted (set_pv st pv1)) eqn:Ea.
          - exfalso. pose proof (bR_inc o1 (set_pv st pv1)) as (_ & _ & Q & _). rewrite (Q3 (Q Ea)) in Hab. discriminate Hab.
          - apply inc_same; [exact Ea| |lia].
            destruct (s_aborted (inc_nodes o1 (set_pv st pv1))) eqn:Eb; [|reflexivity]. rewrite (Q3 eq_refl) in Hab. discriminate Hab. }
        unfold ab_body in H1 |- *. rewrite Hd, Ep in H1 |- *. cbn [of_opt bind] in H1 |- *. rewrite Hinc. clear Hinc HB0.
        repeat (first
          [ match goal with
            | E : ab_static child1 ?s ?bb ?x1 ?x2 ?x3 ?x4 = Ok (?ee, ?ss, ?b2) |- context [ab_static child2 ?s ?bb ?x1 ?x2 ?x3 ?x4] =>
                let Hga := fresh "Hga" in let Hgn := fresh "Hgn" in let Hbad := fresh "Hbad" in
                destruct (good_or_bad ss) as [[Hga Hgn]|Hbad];
                [ rewrite (ab_static_A _ _ _ _ _ _ _ _ _ E Hga Hgn); follow | dead Hbad Hab Hn ]
            | E : ab_loop child1 ?n ?s ?bb ?p ?x1 ?x2 ?x3 ?x4 ?x5 ?x6 ?x7 ?x8 ?x9 ?x10 ?x11 ?x12 ?x13 ?x14 = Ok (?vv, ?ss, ?b2)
              |- context [ab_loop child2 ?n ?s ?bb ?p ?x1 ?x2 ?x3 ?x4 ?x5 ?x6 ?x7 ?x8 ?x9 ?x10 ?x11 ?x12 ?x13 ?x14] =>
                let Hga := fresh "Hga" in let Hgn := fresh "Hgn" in let Hbad := fresh "Hbad" in
                destruct (good_or_bad ss) as [[Hga Hgn]|Hbad];
                [ rewrite (ab_loop_A _ _ _ _ _ _ _ _ _ _ _ _ _ _ _ _ _ _ _ _ _ E Hga Hgn); follow | dead Hbad Hab Hn ]
            end
          | step_any ]).
        all: try reflexivity.
    Qed.
  End Node.

  Theorem alphaBeta_A : forall fuel, abA (alphaBeta fuel o1) (alphaBeta fuel o2).
  Proof.
    induction fuel as [|f IH]; intros st b al be d ply nt v st' b' H1 Hab Hn; [discriminate H1|].
    cbn [alphaBeta] in H1 |- *.
    eapply ab_body_A; try eassumption; try (exact IH); try (apply quiescence_A);
      try (intros ? ? ? ? ? ? ? ? ? ? E; exact (alphaBeta_budget _ _ _ _ _ _ _ _ _ _ _ _ E));
      try (intros ? ? ? ? ? ? ? ? E; exact (quiescence_budget _ _ _ _ _ _ _ _ _ _ E)).
  Qed.
End Replay.