package streams

// c13: trace validation of the UCI driver (uci/uci.go) against the transition system of
// coq/Model/Uci.v and the direct oracle of coq/Spec/UciSpec.v.
//
// One case = a conforming command script + a delay before every line + the behaviour of the search
// (a controllable blocking mock injected with uci.WithSearch, or the real search). The REAL
// uci.Driver runs in-process over OS pipes; a GUI thread sends the lines (a guarded line only
// after it has seen the bestmove of every earlier go), another one reads stdout and classifies
// every line. Observable: the sequence of output line kinds, "Run returned before the deadline",
// "goroutine count back to the baseline", and crash / data race (the cases run in a worker child
// process so that a panic in a driver goroutine or a race report (GORACE=halt_on_error) is
// attributed to the case that caused it).
//
// The mock search prints info lines of very different lengths (up to ~1.2 kB: a long principal
// variation of well-formed moves, one Write call per line like the real search) and a share of the
// cases has a SLOW CONSUMER of stdout (the io.Writer handed to the driver sleeps / stalls before it
// passes the bytes on, as a GUI that is not reading does), so that the output channel fills up and
// concurrent writers (search, interrupter) queue on it; isready bursts are sent meanwhile. Every
// stdout line must still be a complete line of a known kind.
//
// input  = n :: mode :: unit_us :: tail :: n records [code; a; b; c; delay; dur]
//          mode = real + 2*slow (real: 0 mock search, 1 real search; slow: 0 prompt consumer,
//          1 / 2 every write delayed by 300 us / 1 ms, 3 stalls of 5 ms at the 2nd, 5th, 8th ... write)
// output = ret :: gor :: crash :: nout :: tokens... :: nseen :: seen...
// (see coq/Spec/UciSpec.v for the meaning of the numbers)

import (
	"bufio"
	"bytes"
	"fmt"
	"io"
	"os"
	"os/exec"
	"path/filepath"
	"regexp"
	"runtime"
	"strconv"
	"strings"
	"sync"
	"time"

	"github.com/paulsonkoly/chess-3/board"
	. "github.com/paulsonkoly/chess-3/chess"
	"github.com/paulsonkoly/chess-3/move"
	"github.com/paulsonkoly/chess-3/search"
	"github.com/paulsonkoly/chess-3/uci"

	"verifharness/hx"
)

const (
	c13Uci = 1 + iota
	c13Isready
	c13Stop
	c13Ponderhit
	c13Quit
	c13Go
	c13Idle
	c13SetPonder
	c13Nop
)

const (
	gfPonder  = 1
	gfTimed   = 2
	gfSelffin = 4
	gfPhgate  = 8
	gfAck     = 16
	gfLong    = 32 // (mock, harness only) info lines with principal variations of up to 230 moves
	gfDeaf    = 64 // (mock, harness only) the search never looks at its ponderhit channel (as the real search does not inside an iteration): the driver's hand-over of the ponderhit must not wait for it
)

const (
	c13Deadline    = 8 * time.Second  // waiting for a bestmove / for Run to return
	c13LeakWait    = 3 * time.Second  // goroutine count back to baseline
	c13ParentLimit = 60 * time.Second // one case in the worker, seen from the parent
	c13RealInfos   = 70               // MaxPlies iterations + the abort line
)

type c13Line struct {
	code, a, b, c, delay, dur int64
}

type c13Case struct {
	mode, unit, tail int64 // mode = real + 2*slow; unit in microseconds; tail = delay before end of input
	lines            []c13Line
}

func (c *c13Case) real() bool { return c.mode&1 == 1 }
func (c *c13Case) slow() int  { return int(c.mode>>1) & 7 }

// bulk (mode bit 16, harness only): the GUI side writes every run of lines that need no waiting (no
// guard to wait for, no delay) with ONE Write call, the way `engine < script` or a GUI flushing a batch
// of commands does - several kilobytes of commands are then queued in the pipe while the driver works
// through them (seeded change C13-G aliased the scanner's buffer: only visible when input is queued).
func (c *c13Case) bulk() bool { return c.mode&16 != 0 }

// c13PvLen is the number of moves in the principal variation of the k-th info line of a mock
// search with the gfLong flag (5 bytes per move: 190 .. 1150 bytes, and short lines in between).
func c13PvLen(c, k int64) int {
	return []int{38, 0, 120, 60, 230, 0, 45, 100}[int((k+c/16)%8+8)%8]
}

var c13PvMoves = []string{"e2e4", "e7e5", "g1f3", "b8c6", "f1b5", "a7a6", "b5a4", "g8f6", "e1g1", "f8e7", "a7a8q", "h2h1n"}

// c13SlowWriter is the GUI side of stdout being slow: the driver's writer goroutine is held up
// before the bytes reach the pipe.
type c13SlowWriter struct {
	w    io.Writer
	kind int
	n    int
}

func (s *c13SlowWriter) Write(p []byte) (int, error) {
	s.n++
	switch s.kind {
	case 1:
		time.Sleep(300 * time.Microsecond)
	case 2:
		time.Sleep(time.Millisecond)
	case 3:
		if s.n%3 == 2 {
			time.Sleep(5 * time.Millisecond)
		}
	}
	return s.w.Write(p)
}

func init() {
	if os.Getenv("VERIF_C13_WORKER") == "1" {
		c13Worker()
		os.Exit(0)
	}
	hx.Register(&hx.Stream{Name: "c13", Gen: genC13, Run: runC13, Shrink: shrinkC13, Describe: describeC13})
}

// ------------------------------------------------------------------------------------------------
// script text

var c13IdleText = []string{
	"ucinewgame",
	"position startpos",
	"position startpos moves e2e4 e7e5 g1f3",
	"position fen 6k1/5ppp/8/8/8/8/8/R5K1 w - - 0 1", // mate in one
	"position fen r1bq1rk1/pp2bppp/2n1pn2/3p4/3P4/2NBPN2/PP3PPP/R1BQ1RK1 w - - 0 9 moves a2a3",
	"setoption name Hash value 2",
	"position fen 7k/5Q2/6K1/8/8/8/8/8 b - - 0 1",                                   // stalemate: no legal move
	"position fen r1bqkbnr/pppp1Qpp/2n5/4p3/2B1P3/8/PPPP1PPP/RNB1K1NR b KQkq - 0 4", // checkmated
	// near-final roots (index c13NearFinal ..): every line ends after a few plies (fifty-move rule,
	// repetition, mate, stalemate), so that even a deep iterative deepening takes milliseconds
	"position fen 8/8/4k3/8/8/3K4/8/8 w - - 99 80", // K v K
	"position fen 8/8/4k3/8/8/3K4/8/8 b - - 97 79",
	"position fen 8/8/4k3/8/8/3K4/8/8 w - - 92 70",
	"position fen 8/8/4k3/8/8/3K4/8/8 b - - 88 65",
	"position fen 4k3/7r/8/8/8/8/R7/4K3 w - - 98 90", // KR v KR
	"position fen 4k3/7r/8/8/8/8/R7/4K3 b - - 96 90",
	"position fen 8/8/4k3/8/8/2BNK3/8/8 w - - 97 90", // KBN v K
	"position fen 8/8/4k3/8/8/2BNK3/8/8 b - - 99 90",
	"position fen 8/8/4k3/8/8/3QK3/8/8 w - - 98 90", // KQ v K
	"position fen 8/8/4k3/8/8/3QK3/8/8 b - - 95 90",
	"position fen 8/8/4k3/8/8/3K4/8/8 w - - 98 80 moves d3d4",    // clock 99 after the move
	"position fen 8/8/4k3/8/8/3K4/8/8 w - - 100 80",              // the fifty-move draw is already there
	"position startpos moves g1f3 g8f6 f3g1 f6g8 g1f3 g8f6 f3g1", // f6g8 repeats the start position a third time
	"position fen 7k/8/4Q1K1/8/8/8/8/8 w - - 94 80",              // Qf7 stalemates, Qe8 mates
	"position fen 6k1/5ppp/8/8/8/8/8/R5K1 w - - 90 60",           // mate in one
	"position fen 7k/5Q2/6K1/8/8/8/8/8 b - - 93 70",              // stalemate: no legal move
	// long command lines (2 kB and 6 kB): the start position shuffled back and forth (a final root: repeated)
	"position startpos moves" + strings.Repeat(" g1f3 g8f6 f3g1 f6g8", 100),
	"position startpos moves" + strings.Repeat(" b1c3 b8c6 c3b1 c6b8 g1f3 g8f6 f3g1 f6g8", 150),
}

const c13NearFinal = 8 // first near-final root in c13IdleText

func (l c13Line) text() string {
	switch l.code {
	case c13Uci:
		return "uci"
	case c13Isready:
		return "isready"
	case c13Stop:
		return "stop"
	case c13Ponderhit:
		return "ponderhit"
	case c13Quit:
		return "quit"
	case c13Go:
		s := "go"
		if l.a&gfPonder != 0 {
			s += " ponder"
		}
		p := l.c / 16
		switch l.c % 16 {
		case 0:
			s += " infinite"
		case 1:
			s += fmt.Sprintf(" depth %d", p)
		case 2:
			s += fmt.Sprintf(" nodes %d", p)
		case 3:
			s += fmt.Sprintf(" movetime %d", p)
		case 4:
			s += fmt.Sprintf(" wtime %d btime %d", p, p)
		case 5:
			s += fmt.Sprintf(" wtime %d btime %d winc %d binc %d", p, p, p/10, p/10)
		}
		return s
	case c13Idle:
		return c13IdleText[int(l.c)%len(c13IdleText)]
	case c13SetPonder:
		if l.a != 0 {
			return "setoption name Ponder value true"
		}
		return "setoption name Ponder value false"
	default:
		// lines without any effect on the protocol state: debug on / off, an EMPTY line and a line of blanks
		// (seeded change C13-I indexed the first word of a line received during a search without a guard)
		switch l.c % 4 {
		case 0:
			return "debug on"
		case 1:
			return "debug off"
		case 2:
			return ""
		}
		return "  \t "
	}
}

func (l c13Line) guarded() bool {
	return l.code == c13Uci || l.code == c13Go || l.code == c13Idle || l.code == c13SetPonder
}

func (c *c13Case) encode() string {
	n := &hx.Nums{}
	n.I(int64(len(c.lines)), c.mode, c.unit, c.tail)
	for _, l := range c.lines {
		n.I(l.code, l.a, l.b, l.c, l.delay, l.dur)
	}
	return n.String()
}

func c13Parse(a hx.Args) (*c13Case, bool) {
	if a.Len() < 4 {
		return nil, false
	}
	n := a.Int(0)
	if n < 0 || n > 1000 || a.Len() != 4+6*n {
		return nil, false
	}
	c := &c13Case{mode: a.I64(1), unit: a.I64(2), tail: a.I64(3)}
	for i := 0; i < n; i++ {
		o := 4 + 6*i
		c.lines = append(c.lines, c13Line{a.I64(o), a.I64(o + 1), a.I64(o + 2), a.I64(o + 3), a.I64(o + 4), a.I64(o + 5)})
	}
	if c.unit < 1 || c.unit > 1000000 {
		return nil, false
	}
	return c, true
}

func (c *c13Case) desc() string {
	var sb strings.Builder
	if !c.real() {
		fmt.Fprintf(&sb, "mock search, unit %dus:", c.unit)
	} else {
		fmt.Fprintf(&sb, "real search, unit %dus:", c.unit)
	}
	if c.slow() != 0 {
		fmt.Fprintf(&sb, " [slow stdout consumer %d]", c.slow())
	}
	for _, l := range c.lines {
		fmt.Fprintf(&sb, " +%d %q", l.delay, l.text())
		if l.code == c13Go && !c.real() {
			if l.dur < 0 {
				fmt.Fprintf(&sb, "[runs until stopped, <=%d infos", l.b)
			} else {
				fmt.Fprintf(&sb, "[runs %d, <=%d infos", l.dur, l.b)
			}
			if l.a&gfPhgate != 0 {
				sb.WriteString(", counted from ponderhit")
			}
			if l.a&gfLong != 0 {
				sb.WriteString(", long pv lines")
			}
			sb.WriteString("]")
		}
	}
	fmt.Fprintf(&sb, " +%d EOF", c.tail)
	return sb.String()
}

// ------------------------------------------------------------------------------------------------
// the controllable search

type c13Mock struct {
	cfgs []c13Line
	n    int
	unit time.Duration
}

func (m *c13Mock) Clear()       {}
func (m *c13Mock) ResizeTT(int) {}

func (m *c13Mock) Go(_ *board.Board, opts ...search.Option) (Score, move.Move, move.Move) {
	var o search.Options
	for _, f := range opts {
		f(&o)
	}
	m.n++
	i := m.n
	cfg := c13Line{}
	if i-1 < len(m.cfgs) {
		cfg = m.cfgs[i-1]
	}
	bm := move.From(Square(i%56)) | move.To(Square(i%56+8))
	left, k := cfg.b, 0
	info := func() {
		if left > 0 && o.Output != nil {
			left--
			k++
			pv := ""
			if cfg.a&gfLong != 0 {
				if n := c13PvLen(cfg.c, int64(k)); n > 0 {
					var sb strings.Builder
					sb.WriteString(" pv")
					for j := 0; j < n; j++ {
						sb.WriteByte(' ')
						sb.WriteString(c13PvMoves[(j+k)%len(c13PvMoves)])
					}
					pv = sb.String()
				}
			}
			fmt.Fprintf(o.Output, "info string mock %d %d%s\n", i, k, pv) // one Write call per line
		}
	}
	for j := int64(0); j < cfg.b/2; j++ {
		info()
	}
	ph := o.PonderHit
	if cfg.a&gfDeaf != 0 {
		ph = nil
	}
	gate := ph != nil && cfg.a&gfPhgate != 0
	var endC <-chan time.Time
	arm := func() {
		if cfg.dur >= 0 {
			endC = time.After(time.Duration(cfg.dur) * m.unit)
		}
	}
	if !gate {
		arm()
	}
	tk := m.unit / 2
	if tk < 100*time.Microsecond {
		tk = 100 * time.Microsecond
	}
	tick := time.NewTicker(tk)
	defer tick.Stop()
	for {
		select {
		case <-o.Stop:
			info() // like the real search: one more line when aborted
			return 0, bm, 0
		case <-ph:
			ph = nil
			if cfg.a&gfAck != 0 && o.Output != nil {
				fmt.Fprintf(o.Output, "info string ponderhit %d\n", i)
			}
			if gate {
				arm()
			}
		case <-endC:
			return 0, bm, 0
		case <-tick.C:
			info()
		}
	}
}

// ------------------------------------------------------------------------------------------------
// one case, in this process

var (
	reSq       = `[a-h][1-8]`
	reMv       = reSq + reSq + `[qrbn]?`
	reIdName   = regexp.MustCompile(`^id name chess-3 \S+$`)
	reIdAuthor = regexp.MustCompile(`^id author Paul Sonkoly$`)
	// any option declaration of the UCI grammar (names may contain spaces; the set and order of options is not
	// constrained by the property)
	reOption   = regexp.MustCompile(`^option name \S+( \S+)* type (spin default -?\d+ min -?\d+ max -?\d+|check default (true|false)|button|string default .*|combo default \S+( var \S+)+)$`)
	reMockInfo = regexp.MustCompile(`^info string mock (\d+) (\d+)( pv( ` + reMv + `)+)?$`)
	reMockAck  = regexp.MustCompile(`^info string ponderhit (\d+)$`)
	// an info line of the real search: `info`, then fields `<key> <integer>` (score: cp / mate and an integer) in
	// any order and number, then optionally `pv` with well-formed moves. The property asks for lines that are
	// not torn, not for a fixed set of fields: a version that also prints seldepth or nps is still well formed.
	// A torn line (bytes of another line in the middle) leaves a key without its integer or starts a new
	// `info` / `readyok` / `bestmove` inside the line, which this shape rejects.
	reInfo     = regexp.MustCompile(`^info( (depth|nodes|time|hashfull|seldepth|nps|multipv|tbhits|currmovenumber|cpuload) -?\d+| score (cp -?\d+|mate -?\d+|Inv))+ pv( ` + reMv + `)* ?$`)
	reInfoEnd  = regexp.MustCompile(`^info( (depth|nodes|time|hashfull|seldepth|nps) -?\d+)+$`)
	reBest     = regexp.MustCompile(`^bestmove (` + reMv + `|0000)( ponder ` + reMv + `)?$`)
)

type c13Obs struct {
	ret, gor, crash int
	toks            []int64
	seen            []int64
	mustExit        bool
}

func (o *c13Obs) String() string {
	n := &hx.Nums{}
	n.Int(o.ret, o.gor, o.crash, len(o.toks)).I(o.toks...)
	n.Int(len(o.seen)).I(o.seen...)
	return n.String()
}

type c13Sink struct {
	mu      sync.Mutex
	cond    *sync.Cond
	toks    []int64
	best    int
	lastOpt bool
	closed  bool
	mock    bool
}

func (s *c13Sink) add(line string) {
	kind, idx := int64(8), int64(0)
	switch {
	case reIdName.MatchString(line), reIdAuthor.MatchString(line):
		kind = 1
	case reOption.MatchString(line):
		kind = 2
	case line == "uciok":
		kind = 3
	case line == "readyok":
		kind = 4
	case reBest.MatchString(line):
		kind = 6
	default:
		if m := reMockInfo.FindStringSubmatch(line); m != nil && s.mock {
			kind = 5
			idx, _ = strconv.ParseInt(m[1], 10, 32)
		} else if m := reMockAck.FindStringSubmatch(line); m != nil && s.mock {
			kind = 7
			idx, _ = strconv.ParseInt(m[1], 10, 32)
		} else if !s.mock && (reInfo.MatchString(line) || reInfoEnd.MatchString(line)) {
			kind = 5
		}
	}
	s.mu.Lock()
	defer s.mu.Unlock()
	switch kind {
	case 6:
		if s.mock {
			// the mock's move names its search: from-square index
			idx = int64(line[9]-'a') + 8*int64(line[10]-'1')
		} else {
			idx = int64(s.best + 1)
		}
		s.best++
	case 5:
		if !s.mock {
			idx = int64(s.best + 1)
		}
	case 2:
		if s.lastOpt {
			return // a run of option lines is one token
		}
	}
	s.lastOpt = kind == 2
	s.toks = append(s.toks, kind+16*idx)
	s.cond.Broadcast()
}

func c13RunCase(c *c13Case) *c13Obs {
	obs := &c13Obs{}
	base := runtime.NumGoroutine()
	inR, inW, err := os.Pipe()
	if err != nil {
		panic(err)
	}
	outR, outW, err := os.Pipe()
	if err != nil {
		panic(err)
	}
	unit := time.Duration(c.unit) * time.Microsecond
	var stdout io.Writer = outW
	if c.slow() != 0 {
		stdout = &c13SlowWriter{w: outW, kind: c.slow()}
	}
	opts := []uci.DriverOpt{uci.WithInput(inR), uci.WithOutput(stdout), uci.WithError(io.Discard)}
	if !c.real() {
		m := &c13Mock{unit: unit}
		for _, l := range c.lines {
			if l.code == c13Go {
				m.cfgs = append(m.cfgs, l)
			}
		}
		opts = append(opts, uci.WithSearch(m))
	}
	d := uci.NewDriver(opts...)
	sink := &c13Sink{mock: !c.real()}
	sink.cond = sync.NewCond(&sink.mu)

	var wg sync.WaitGroup
	done := make(chan struct{})
	wg.Add(2)
	go func() {
		defer wg.Done()
		d.Run()
		close(done)
		outW.Close()
	}()
	go func() {
		defer wg.Done()
		sc := bufio.NewScanner(outR)
		sc.Buffer(make([]byte, 1<<16), 1<<22)
		for sc.Scan() {
			sink.add(sc.Text())
		}
		sink.mu.Lock()
		sink.closed = true
		sink.cond.Broadcast()
		sink.mu.Unlock()
	}()

	// the GUI
	stuck := false
	goSent := 0
	var batch []byte // bulk mode: lines collected for one Write
	flush := func() bool {
		if len(batch) == 0 {
			return true
		}
		_, err := inW.Write(batch)
		batch = batch[:0]
		return err == nil
	}
	for _, l := range c.lines {
		if c.bulk() && (l.delay > 0 || (l.guarded() && goSent > 0)) {
			// this line has to wait: what was collected goes out first
			if !flush() {
				break
			}
		}
		if l.guarded() {
			// wait for the bestmove of every go sent so far
			t := time.AfterFunc(c13Deadline, func() { sink.mu.Lock(); sink.cond.Broadcast(); sink.mu.Unlock() })
			start := time.Now()
			sink.mu.Lock()
			for sink.best < goSent && !sink.closed && time.Since(start) < c13Deadline {
				sink.cond.Wait()
			}
			ok := sink.best >= goSent
			sink.mu.Unlock()
			t.Stop()
			if !ok {
				stuck = true
				break
			}
		}
		if l.delay > 0 {
			time.Sleep(time.Duration(l.delay) * unit)
		}
		sink.mu.Lock()
		obs.seen = append(obs.seen, int64(len(sink.toks)))
		sink.mu.Unlock()
		if l.code == c13Go {
			goSent++
		}
		if c.bulk() {
			batch = append(batch, l.text()+"\n"...)
			continue
		}
		if _, err := inW.Write([]byte(l.text() + "\n")); err != nil {
			break // the driver is gone (stdin closed on its side): nothing more to send
		}
	}
	flush()
	if c.tail > 0 && !stuck {
		time.Sleep(time.Duration(c.tail) * unit)
	}
	inW.Close()
	select {
	case <-done:
		obs.ret = 1
	case <-time.After(c13Deadline):
		obs.ret = 0
	}
	if obs.ret == 1 && !stuck {
		wg.Wait()
		inR.Close()
		outR.Close()
		// goroutines of the driver must be gone
		deadline := time.Now().Add(c13LeakWait)
		for runtime.NumGoroutine() > base && time.Now().Before(deadline) {
			time.Sleep(2 * time.Millisecond)
		}
		if runtime.NumGoroutine() <= base || !c13DriverGoroutines() {
			obs.gor = 1
		} else {
			obs.mustExit = true
		}
	} else {
		obs.ret = 0
		obs.mustExit = true // goroutines are left behind; this process is no longer clean
	}
	sink.mu.Lock()
	obs.toks = append([]int64(nil), sink.toks...)
	sink.mu.Unlock()
	for len(obs.seen) < len(c.lines) {
		obs.seen = append(obs.seen, int64(len(obs.toks)))
	}
	return obs
}

// c13DriverGoroutines reports whether some goroutine still has a frame of the engine on its stack
// (a count above the baseline that is made up of runtime-internal goroutines is not a leak).
func c13DriverGoroutines() bool {
	buf := make([]byte, 1<<20)
	n := runtime.Stack(buf, true)
	return bytes.Contains(buf[:n], []byte("github.com/paulsonkoly/chess-3/"))
}

// ------------------------------------------------------------------------------------------------
// worker child: one case per input line, one observation per output line

func c13Worker() {
	in := bufio.NewScanner(os.Stdin)
	in.Buffer(make([]byte, 1<<20), 1<<26)
	out := bufio.NewWriter(os.Stdout)
	for in.Scan() {
		a, err := hx.ParseArgs(in.Text())
		var res string
		exit := false
		if err != nil {
			res = "badinput"
		} else if c, ok := c13Parse(a); !ok {
			res = "badinput"
		} else {
			o := c13RunCase(c)
			res, exit = o.String(), o.mustExit
		}
		fmt.Fprintln(out, res)
		out.Flush()
		if exit {
			return
		}
	}
}

type c13WorkerProc struct {
	cmd    *exec.Cmd
	stdin  io.WriteCloser
	lines  chan string
	stderr *bytes.Buffer
	waited chan struct{}
	err    error
}

var (
	c13W       *c13WorkerProc
	c13Crashes int
	c13Stuck   int // cases in which Run did not return or left goroutines behind (each costs seconds)
)

func c13Spawn() *c13WorkerProc {
	exe, err := os.Executable()
	if err != nil {
		panic(err)
	}
	cmd := exec.Command(exe, "worker")
	cmd.Env = append(os.Environ(), "VERIF_C13_WORKER=1", "GORACE=halt_on_error=1 exitcode=66")
	w := &c13WorkerProc{cmd: cmd, stderr: &bytes.Buffer{}, lines: make(chan string, 1), waited: make(chan struct{})}
	cmd.Stderr = w.stderr
	w.stdin, err = cmd.StdinPipe()
	if err != nil {
		panic(err)
	}
	so, err := cmd.StdoutPipe()
	if err != nil {
		panic(err)
	}
	if err := cmd.Start(); err != nil {
		panic(err)
	}
	go func() {
		sc := bufio.NewScanner(so)
		sc.Buffer(make([]byte, 1<<20), 1<<26)
		for sc.Scan() {
			w.lines <- sc.Text()
		}
		close(w.lines)
		w.err = cmd.Wait()
		close(w.waited)
	}()
	return w
}

func (w *c13WorkerProc) kill() {
	w.stdin.Close()
	w.cmd.Process.Kill()
	<-w.waited
}

// runC13 hands the case to the worker child. A child that dies while it runs the case is
// recorded as crash (1) or data race (2, exit code 66 of the race detector).
func runC13(a hx.Args) string {
	c, ok := c13Parse(a)
	if !ok {
		return "badinput"
	}
	for attempt := 0; attempt < 2; attempt++ {
		if c13W == nil {
			c13W = c13Spawn()
		}
		w := c13W
		if _, err := io.WriteString(w.stdin, c.encode()+"\n"); err != nil {
			// died between two cases (it leaves after a stuck case): start a fresh one
			w.kill()
			c13W = nil
			continue
		}
		t0 := time.Now()
		select {
		case line, ok := <-w.lines:
			if ok {
				if el := time.Since(t0); el > 2*time.Second {
					if f, err := os.OpenFile("c13-slow.log", os.O_APPEND|os.O_CREATE|os.O_WRONLY, 0o644); err == nil {
						fmt.Fprintf(f, "%v %s\n   %s\n   -> %s\n", el, c.desc(), c.encode(), line)
						f.Close()
					}
				}
				if strings.HasPrefix(line, "0 ") || strings.HasPrefix(line, "1 0 ") {
					c13Stuck++ // Run did not return, or goroutines were left behind
				}
				return line
			}
			<-w.waited
			c13W = nil
			if attempt == 0 && w.cmd.ProcessState != nil && w.cmd.ProcessState.ExitCode() == 0 {
				continue // it had left cleanly before it saw this case
			}
			crash := 1
			if w.cmd.ProcessState != nil && w.cmd.ProcessState.ExitCode() == 66 {
				crash = 2
			}
			c13Crashes++
			if c13Crashes <= 20 {
				tail := w.stderr.String()
				if len(tail) > 6000 {
					tail = tail[:6000]
				}
				os.WriteFile(fmt.Sprintf("c13-crash-%d.log", c13Crashes),
					[]byte(c.desc()+"\n"+c.encode()+"\n\n"+tail), 0o644)
			}
			return (&c13Obs{crash: crash}).String()
		case <-time.After(c13ParentLimit):
			w.kill()
			c13W = nil
			return (&c13Obs{}).String()
		}
	}
	return (&c13Obs{crash: 1}).String()
}

// ------------------------------------------------------------------------------------------------
// generator

const (
	needNone = iota
	needPh
	needStop
)

func c13NeedOf(l c13Line) int {
	switch {
	case l.a&gfSelffin != 0:
		if l.a&gfPhgate != 0 && l.a&gfPonder != 0 {
			return needPh
		}
		return needNone
	case l.a&gfTimed != 0:
		if l.a&gfPonder != 0 {
			return needPh
		}
		return needNone
	}
	return needStop
}

// mirror of Model/Uci.v conf: the generator only emits conforming scripts
func c13Conforming(ls []c13Line) bool {
	need := needNone
	for i, l := range ls {
		switch l.code {
		case c13Quit:
			return i == len(ls)-1
		case c13Stop:
			need = needNone
		case c13Ponderhit:
			if need == needPh {
				need = needNone
			}
		case c13Isready, c13Nop:
		case c13Go:
			if need != needNone {
				return false
			}
			need = c13NeedOf(l)
		default:
			if need != needNone {
				return false
			}
		}
	}
	return true
}

func c13Delay(rng *hx.Rng) int64 {
	switch rng.Intn(20) {
	case 0, 1, 2, 3, 4, 5, 6, 7, 8, 9:
		return 0
	case 10, 11, 12, 13:
		return 1
	case 14, 15:
		return 2
	case 16, 17:
		return 3
	case 18:
		return 5
	}
	return 8
}

func c13GenGo(rng *hx.Rng, mode int64) c13Line {
	l := c13Line{code: c13Go}
	if rng.Chance(0.35) {
		l.a |= gfPonder
	}
	if mode == 0 {
		l.a |= gfAck
		switch rng.Intn(8) {
		case 0, 1, 2:
			l.c = 0 // infinite
		case 3:
			l.c = 1 + 16*int64(1+rng.Intn(6))
		case 4:
			l.c = 2 + 16*int64(1+rng.Intn(5000))
		case 5:
			l.c = 3 + 16*int64([]int{1, 2, 4, 8, 15}[rng.Intn(5)])
			l.a |= gfTimed
		case 6:
			l.c = 4 + 16*int64([]int{1, 20, 31, 60, 100}[rng.Intn(5)])
			l.a |= gfTimed
		default:
			l.c = 5 + 16*int64([]int{20, 40, 100}[rng.Intn(3)])
			l.a |= gfTimed
		}
		l.dur = []int64{-1, -1, 0, 0, 1, 2, 3, 5}[rng.Intn(8)]
		if l.dur >= 0 {
			l.a |= gfSelffin
		}
		if l.a&gfPonder != 0 && rng.Chance(0.6) {
			l.a |= gfPhgate
		} else if l.a&gfPonder != 0 && rng.Chance(0.6) {
			l.a |= gfDeaf
			l.a &^= gfAck
		}
		l.b = []int64{0, 0, 1, 2, 3, 6, 10}[rng.Intn(7)]
		if rng.Chance(0.3) {
			l.a |= gfLong
		}
	} else {
		l.a |= gfSelffin // MaxPlies is always a limit
		switch rng.Intn(8) {
		case 0, 1:
			l.c = 0
		case 2, 3:
			l.c = 1 + 16*int64(1+rng.Intn(4))
		case 4:
			l.c = 2 + 16*int64([]int{1, 200, 3000}[rng.Intn(3)])
		case 5:
			l.c = 3 + 16*int64([]int{1, 3, 10}[rng.Intn(3)])
			l.a |= gfTimed
		case 6:
			l.c = 4 + 16*int64([]int{1, 31, 90}[rng.Intn(3)])
			l.a |= gfTimed
		default:
			l.c = 5 + 16*int64([]int{40, 100}[rng.Intn(2)])
			l.a |= gfTimed
		}
		l.b = c13RealInfos
	}
	return l
}

// does the GUI have to stop this search before it may wait for the bestmove? (generator's view:
// the real search is only left alone when it has a depth / node / time limit and is not pondering)
func c13GenNeed(l c13Line, mode int64) int {
	if mode == 0 {
		return c13NeedOf(l)
	}
	v := l.c % 16
	if l.a&gfPonder != 0 {
		if v == 0 {
			return needStop
		}
		return needPh
	}
	if v == 0 {
		return needStop
	}
	return needNone
}

func c13GenScript(rng *hx.Rng, mode int64) []c13Line {
	var ls []c13Line
	add := func(code, a, c int64) { ls = append(ls, c13Line{code: code, a: a, c: c, delay: c13Delay(rng)}) }
	if rng.Chance(0.5) {
		add(c13Uci, 0, 0)
	}
	if rng.Chance(0.5) {
		add(c13SetPonder, 1, 0)
	}
	if rng.Chance(0.3) {
		add(c13Isready, 0, 0)
	}
	if rng.Chance(0.1) {
		add(c13Stop, 0, 0) // stop with nothing to stop
	}
	games := 1 + rng.Intn(3)
	if mode == 1 {
		games = 1 + rng.Intn(2)
	}
	for g := 0; g < games; g++ {
		last := g == games-1
		if rng.Chance(0.25) {
			add(c13Idle, 0, 0)
		}
		if rng.Chance(0.6) {
			if rng.Chance(0.1) {
				add(c13Idle, 0, int64(c13NearFinal+rng.Intn(len(c13IdleText)-c13NearFinal)))
			} else {
				add(c13Idle, 0, int64(1+rng.Intn(c13NearFinal-1)))
			}
		}
		if rng.Chance(0.1) {
			add(c13SetPonder, int64(rng.Intn(2)), 0)
		}
		gl := c13GenGo(rng, mode)
		gl.delay = c13Delay(rng)
		ls = append(ls, gl)
		need := c13GenNeed(gl, mode)
		for k := rng.Intn(4); k > 0; k-- {
			switch r := rng.Intn(10); {
			case r < 4:
				add(c13Isready, 0, 0)
			case r < 7:
				if gl.a&gfPonder != 0 || rng.Chance(0.15) {
					add(c13Ponderhit, 0, 0)
					if need == needPh {
						need = needNone
					}
				} else {
					add(c13Isready, 0, 0)
				}
			case r < 9:
				add(c13Stop, 0, 0)
				need = needNone
			default:
				add(c13Nop, 0, int64(rng.Intn(4)))
			}
		}
		if last && rng.Chance(0.5) {
			break // quit / end of input while the search may still be running
		}
		if need == needPh && rng.Chance(0.7) {
			add(c13Ponderhit, 0, 0)
			need = needNone
		}
		if need != needNone {
			add(c13Stop, 0, 0)
		}
		if rng.Chance(0.3) {
			add(c13Isready, 0, 0)
		}
		if rng.Chance(0.15) {
			add(c13Stop, 0, 0) // late stop
		}
		if rng.Chance(0.1) {
			add(c13Ponderhit, 0, 0)
		}
	}
	if rng.Chance(0.6) {
		add(c13Quit, 0, 0)
	}
	return ls
}

func c13Input(c *c13Case, sweep string) hx.Input {
	if !c13Conforming(c.lines) {
		panic("c13 generator produced a non-conforming script: " + c.desc())
	}
	tags := []string{"search:" + []string{"mock", "real"}[c.mode&1], "timing:" + sweep}
	if c.slow() != 0 {
		tags = append(tags, "stdout:slow-consumer")
	}
	if c.bulk() {
		nb := 0
		for _, l := range c.lines {
			nb += len(l.text()) + 1
		}
		switch {
		case nb >= 8192:
			tags = append(tags, "stdin:bulk>=8k")
		case nb >= 4096:
			tags = append(tags, "stdin:bulk>=4k")
		default:
			tags = append(tags, "stdin:bulk<4k")
		}
	}
	for _, l := range c.lines {
		if l.code == c13Go && l.a&gfLong != 0 {
			tags = append(tags, "info:long-lines")
			break
		}
	}
	for _, l := range c.lines {
		if l.code == c13Go && l.a&gfDeaf != 0 {
			tags = append(tags, "search:deaf-to-ponderhit")
			break
		}
	}
	racing, inSearch := false, false
	kinds := map[string]bool{}
	for i, l := range c.lines {
		switch l.code {
		case c13Go:
			inSearch = true
			v := []string{"infinite", "depth", "nodes", "movetime", "clock", "clock+inc"}[l.c%16]
			if l.a&gfPonder != 0 {
				v += "+ponder"
			}
			kinds["go:"+v] = true
		case c13Stop, c13Isready, c13Ponderhit, c13Quit, c13Nop:
			if inSearch {
				racing = true
				kinds["during-or-after-search:"+(l.text() + "(blank)")[:4]] = true
			}
		default:
			inSearch = false
		}
		if i == len(c.lines)-1 {
			if l.code == c13Quit {
				kinds["end:quit"] = true
			} else {
				kinds["end:eof"] = true
				if inSearch {
					racing = true
				}
			}
		}
	}
	for k := range kinds {
		tags = append(tags, k)
	}
	return hx.Input{In: c.encode(), Desc: c.desc(), Tags: tags, NonTrivial: racing}
}

func genC13(rng *hx.Rng, n int, tier string, emit func(hx.Input)) {
	defer func() {
		if c13W != nil {
			c13W.kill()
			c13W = nil
		}
	}()
	if old, err := filepath.Glob("c13-crash-*.log"); err == nil {
		for _, f := range old {
			os.Remove(f) // crash logs of an earlier run
		}
	}
	os.Remove("c13-slow.log")
	cnt := 0
	// pondering left alone: Ponder on, a near-final root, go ponder with the REAL search, nothing for
	// 100..400 ms (the search runs through all its iterations meanwhile), then ponderhit / stop /
	// isready+stop / quit / end of input. A handful of cases per 1000 (each costs its wait).
	np := n / 250
	if tier != "quick" {
		np = n / 100
	}
	for j := 0; j < np && c13Stuck < 4 && c13Crashes < 40; j, cnt = j+1, cnt+1 {
		c := &c13Case{mode: 1, unit: 1000}
		if rng.Chance(0.3) {
			c.lines = append(c.lines, c13Line{code: c13Uci})
		}
		c.lines = append(c.lines, c13Line{code: c13SetPonder, a: 1})
		root := c13NearFinal + rng.Intn(len(c13IdleText)-c13NearFinal)
		if j < 3 || rng.Chance(0.4) {
			root = c13NearFinal + []int{0, 4, 6, 1, 8, 7}[rng.Intn(6)] // the fastest ones
		}
		c.lines = append(c.lines, c13Line{code: c13Idle, c: int64(root)})
		if rng.Chance(0.3) {
			c.lines = append(c.lines, c13Line{code: c13Isready})
		}
		g := c13Line{code: c13Go, a: gfPonder | gfSelffin, b: c13RealInfos}
		switch rng.Intn(5) {
		case 0:
			g.c = 0 // infinite
		case 1:
			g.c = 1 + 16*int64(100+rng.Intn(100)) // depth >= 100
		case 2:
			g.c = 3 + 16*100000 // movetime
			g.a |= gfTimed
		default:
			g.c = 4 + 16*60000 // clocks
			g.a |= gfTimed
		}
		c.lines = append(c.lines, g)
		wait := int64(100 + rng.Intn(300))
		switch rng.Intn(6) {
		case 0:
			c.lines = append(c.lines, c13Line{code: c13Ponderhit, delay: wait}, c13Line{code: c13Stop, delay: int64(rng.Intn(3))})
		case 1:
			c.lines = append(c.lines, c13Line{code: c13Stop, delay: wait})
		case 2:
			c.lines = append(c.lines, c13Line{code: c13Isready, delay: wait}, c13Line{code: c13Stop, delay: int64(rng.Intn(3))})
		case 3:
			c.lines = append(c.lines, c13Line{code: c13Quit, delay: wait})
		case 4:
			c.tail = wait // end of input
		default:
			c.lines = append(c.lines, c13Line{code: c13Ponderhit, delay: wait})
		}
		if last := c.lines[len(c.lines)-1]; last.code == c13Stop && rng.Bool() {
			c.lines = append(c.lines, c13Line{code: c13Isready}, c13Line{code: c13Quit})
		}
		emit(c13Input(c, "ponder-left-alone"))
	}
	// pondering with a node limit on an ordinary root (the limit is reached, the search goes on
	// pondering with a frozen node counter), then stop / quit / end of input must still end it
	for j := 0; j < n/200 && c13Stuck < 4 && c13Crashes < 40; j, cnt = j+1, cnt+1 {
		c := &c13Case{mode: 1, unit: 1000}
		c.lines = append(c.lines, c13Line{code: c13SetPonder, a: 1})
		c.lines = append(c.lines, c13Line{code: c13Idle, c: int64([]int{1, 2, 4}[rng.Intn(3)])})
		nodes := []int64{1, 50, 200, 1000, 3000, 5000}[rng.Intn(6)]
		c.lines = append(c.lines, c13Line{code: c13Go, a: gfPonder | gfSelffin, b: c13RealInfos, c: 2 + 16*nodes})
		wait := int64(5 + rng.Intn(40))
		switch rng.Intn(4) {
		case 0:
			c.lines = append(c.lines, c13Line{code: c13Stop, delay: wait})
		case 1:
			c.lines = append(c.lines, c13Line{code: c13Isready, delay: wait}, c13Line{code: c13Stop, delay: int64(rng.Intn(3))}, c13Line{code: c13Isready})
		case 2:
			c.lines = append(c.lines, c13Line{code: c13Quit, delay: wait})
		default:
			c.tail = wait
		}
		emit(c13Input(c, "ponder-node-limit"))
	}
	// back-to-back: searches that end at once, the next guarded line sent the moment the bestmove is
	// seen (hits the window between printing bestmove and the end of handleGo)
	for ; cnt < 7*n/20 && c13Stuck < 4 && c13Crashes < 40; cnt++ {
		c := &c13Case{mode: 0, unit: 100}
		k := 6 + rng.Intn(10)
		for j := 0; j < k; j++ {
			g := c13Line{code: c13Go, a: gfAck | gfSelffin, c: 1 + 16*int64(1+rng.Intn(5)), b: int64(rng.Intn(3))}
			if rng.Chance(0.3) {
				g.c = 3 + 16*int64(1+rng.Intn(3))
				g.a |= gfTimed
			}
			c.lines = append(c.lines, g)
			switch rng.Intn(6) {
			case 0:
				c.lines = append(c.lines, c13Line{code: c13Isready})
			case 1:
				c.lines = append(c.lines, c13Line{code: c13Idle, c: int64(rng.Intn(3))})
			case 2:
				c.lines = append(c.lines, c13Line{code: c13Stop})
			}
		}
		if rng.Bool() {
			c.lines = append(c.lines, c13Line{code: c13Quit})
		}
		emit(c13Input(c, "back-to-back"))
	}
	// bulk input: hundreds of commands (4..30 kB) handed to the driver in a few large writes - a script
	// piped in, a GUI flushing its queue; long position lines right behind short commands; every
	// isready must still get its readyok, every go its bestmove. Mock search; 8 % of the cases.
	for j := 0; j < (n+11)/12 && c13Stuck < 4 && c13Crashes < 40; j, cnt = j+1, cnt+1 {
		c := &c13Case{mode: 16, unit: 100}
		if rng.Chance(0.2) {
			c.mode += 2 * int64(1+rng.Intn(3))
		}
		if rng.Chance(0.4) {
			c.lines = append(c.lines, c13Line{code: c13Uci})
		}
		long := int64(len(c13IdleText) - 1 - rng.Intn(2))
		burst := func(k int) {
			for ; k > 0; k-- {
				switch r := rng.Intn(20); {
				case r < 11:
					c.lines = append(c.lines, c13Line{code: c13Isready})
				case r < 14:
					c.lines = append(c.lines, c13Line{code: c13Nop, c: int64(rng.Intn(4))})
				case r < 15:
					c.lines = append(c.lines, c13Line{code: c13Stop}) // nothing to stop
				default:
					c.lines = append(c.lines, c13Line{code: c13Isready}) // after a search: still unguarded
				}
			}
		}
		idle := func(k int) {
			for ; k > 0; k-- {
				switch r := rng.Intn(20); {
				case r < 9:
					c.lines = append(c.lines, c13Line{code: c13Isready})
				case r < 11:
					c.lines = append(c.lines, c13Line{code: c13Nop, c: int64(rng.Intn(4))})
				case r < 13:
					c.lines = append(c.lines, c13Line{code: c13Idle, c: long})
				case r < 14:
					c.lines = append(c.lines, c13Line{code: c13SetPonder, a: int64(rng.Intn(2))})
				default:
					c.lines = append(c.lines, c13Line{code: c13Idle, c: int64(rng.Intn(len(c13IdleText) - 2))})
				}
			}
		}
		idle(40 + rng.Intn(300))
		for g := rng.Intn(3); g > 0; g-- {
			gl := c13Line{code: c13Go, a: gfAck | gfSelffin, c: 1 + 16*int64(1+rng.Intn(5)), b: int64(rng.Intn(3)), dur: int64(rng.Intn(3))}
			c.lines = append(c.lines, gl)
			burst(5 + rng.Intn(60))
			if rng.Chance(0.5) {
				c.lines = append(c.lines, c13Line{code: c13Stop})
				burst(rng.Intn(20))
			}
			if g > 1 || rng.Chance(0.6) {
				idle(10 + rng.Intn(120)) // guarded lines: sent once the bestmove was seen, again in one piece
			}
		}
		if rng.Chance(0.6) {
			c.lines = append(c.lines, c13Line{code: c13Quit})
		}
		emit(c13Input(c, "bulk"))
	}
	// congested output: a slow consumer of stdout, a search that prints many info lines of very
	// different lengths at once (the output channel fills, the search blocks in the middle of its
	// burst), and a burst of isready meanwhile (the interrupter queues on the same channel)
	for ; cnt < 11*n/20 && c13Stuck < 4 && c13Crashes < 40; cnt++ {
		c := &c13Case{mode: 2 * int64(1+rng.Intn(3)), unit: []int64{100, 300}[rng.Intn(2)], tail: int64(rng.Intn(3))}
		if rng.Chance(0.3) {
			c.lines = append(c.lines, c13Line{code: c13Uci})
		}
		for g := 1 + rng.Intn(2); g > 0; g-- {
			gl := c13Line{code: c13Go, a: gfAck | gfLong, b: int64(8 + rng.Intn(10)), dur: -1, delay: int64(rng.Intn(2))}
			gl.c = 16 * int64(rng.Intn(8)) // go infinite; the parameter only shifts the line lengths
			if rng.Chance(0.4) {
				gl.dur = int64(2 + rng.Intn(6))
				gl.a |= gfSelffin
				gl.c += 1 + 16*8 // go depth
			}
			c.lines = append(c.lines, gl)
			for k := 2 + rng.Intn(5); k > 0; k-- {
				c.lines = append(c.lines, c13Line{code: c13Isready, delay: int64([]int{0, 0, 0, 1, 2}[rng.Intn(5)])})
			}
			if gl.dur < 0 || rng.Bool() {
				c.lines = append(c.lines, c13Line{code: c13Stop, delay: int64(rng.Intn(4))})
			}
			if rng.Chance(0.3) {
				c.lines = append(c.lines, c13Line{code: c13Isready})
			}
		}
		if rng.Chance(0.7) {
			c.lines = append(c.lines, c13Line{code: c13Quit})
		}
		emit(c13Input(c, "congested"))
	}
	for cnt < n && c13Stuck < 4 && c13Crashes < 40 {
		mode := int64(0)
		if rng.Chance(0.25) {
			mode = 1
		}
		unit := []int64{300, 1000}[rng.Intn(2)]
		lines := c13GenScript(rng, mode)
		cmode := mode
		if rng.Chance(0.15) {
			cmode += 2 * int64(1+rng.Intn(3)) // slow consumer of stdout
		}
		base := &c13Case{mode: cmode, unit: unit, tail: c13Delay(rng), lines: lines}
		emit(c13Input(base, "random"))
		cnt++
		// sweep: the first line after the first go against the duration of that search
		gi := -1
		for i, l := range base.lines {
			if l.code == c13Go {
				gi = i
				break
			}
		}
		if gi < 0 || cnt >= n {
			continue
		}
		d := base.lines[gi].dur
		if mode == 1 || d < 0 {
			d = 2
		}
		var sweep []int64
		if gi+1 < len(base.lines) {
			sweep = []int64{0, d, d, d + 1}
			if d > 1 {
				sweep = append(sweep, d-1)
			}
		}
		for _, v := range sweep {
			if cnt >= n {
				break
			}
			c := &c13Case{mode: cmode, unit: unit, lines: append([]c13Line(nil), base.lines...)}
			if rng.Bool() {
				c.tail = v
			}
			for i := range c.lines {
				c.lines[i].delay = 0
			}
			c.lines[gi+1].delay = v
			// everything else at once, or with the random delays kept after the swept line
			if rng.Bool() {
				for i := gi + 2; i < len(c.lines); i++ {
					c.lines[i].delay = base.lines[i].delay
				}
			}
			emit(c13Input(c, "sweep"))
			cnt++
		}
	}
}
