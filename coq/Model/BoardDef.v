(* The board record shared by every board-level model, and its wire format for the
   correspondence streams.

   Go: type Board struct { SquaresToPiece [64]Piece; Pieces [7]BitBoard; Colors [2]BitBoard;
                           hashes []Hash; fullMoves int; STM Color; EnPassant Square;
                           Castles Castles; FiftyCnt int16 }
   [hashes] is kept NEWEST FIRST here (Go appends at the end; [Hash()] is the last element there,
   the head here); the wire format is oldest first, as Go stores it. *)
From Coq Require Import NArith ZArith List Bool.
From Chess3 Require Import Base.Bits Model.Types.
Import ListNotations.
Open Scope N_scope.

Record board := mkBoard {
  sq2p : list N;      (* 64 piece codes, index = square *)
  pcs : list N;       (* 7 bitboards, index = piece code; pcs[NoPiece] is never written *)
  cols : list N;      (* 2 bitboards, index = colour *)
  hashes : list N;    (* hash history, newest first *)
  full : Z;           (* fullMoves (Go int) *)
  stm : color;
  ep : N;             (* en-passant target square, 0 = none *)
  castles : N;        (* 4-bit set *)
  fifty : Z           (* halfmove clock (Go int16) *)
}.

Definition piece_at (b : board) (s : N) : N := nthN (sq2p b) s 0.
Definition pieces (b : board) (p : N) : N := nthN (pcs b) p 0.
Definition colors (b : board) (c : color) : N := nthN (cols b) (cix c) 0.
Definition occupancy (b : board) : N := bor (colors b White) (colors b Black).
Definition cur_hash (b : board) : N := hd 0 (hashes b).

Definition set_sq2p (b : board) v := mkBoard v (pcs b) (cols b) (hashes b) (full b) (stm b) (ep b) (castles b) (fifty b).
Definition set_pcs (b : board) v := mkBoard (sq2p b) v (cols b) (hashes b) (full b) (stm b) (ep b) (castles b) (fifty b).
Definition set_cols (b : board) v := mkBoard (sq2p b) (pcs b) v (hashes b) (full b) (stm b) (ep b) (castles b) (fifty b).
Definition set_hashes (b : board) v := mkBoard (sq2p b) (pcs b) (cols b) v (full b) (stm b) (ep b) (castles b) (fifty b).
Definition set_full (b : board) v := mkBoard (sq2p b) (pcs b) (cols b) (hashes b) v (stm b) (ep b) (castles b) (fifty b).
Definition set_stm (b : board) v := mkBoard (sq2p b) (pcs b) (cols b) (hashes b) (full b) v (ep b) (castles b) (fifty b).
Definition set_ep (b : board) v := mkBoard (sq2p b) (pcs b) (cols b) (hashes b) (full b) (stm b) v (castles b) (fifty b).
Definition set_castles (b : board) v := mkBoard (sq2p b) (pcs b) (cols b) (hashes b) (full b) (stm b) (ep b) v (fifty b).
Definition set_fifty (b : board) v := mkBoard (sq2p b) (pcs b) (cols b) (hashes b) (full b) (stm b) (ep b) (castles b) v.

(* ------------------------------------------------------------------------------------------ *)
(* wire format

   board-in  = P1 P2 P3 P4 P5 P6  C0 C1  stm ep castles fifty full  nh h_1 .. h_nh   (oldest hash first)
   The per-square map is rebuilt from the six piece sets (inputs are produced by the harness from
   real engine boards, whose three encodings agree; the OUTPUT format below carries the per-square
   map separately so that a drift between the encodings is visible).

   board-out = P0 P1 .. P6  C0 C1  stm ep castles fifty full  SQ  nh h_1 .. h_nh
   where SQ = sum over squares s of piece(s) * 8^s  (one big integer). *)

Definition piece_on (ps : list N) (s : N) : N :=
  (* the code of the first piece set (1..6) that holds s, 0 if none *)
  let fix go (l : list N) (code : N) : N :=
    match l with
    | [] => 0
    | x :: r => if N.testbit x s then code else go r (N.succ code)
    end in go ps 1.

Definition squares64 : list N := map N.of_nat (seq 0 64).

Definition sq2p_of_sets (ps : list N) : list N := map (piece_on ps) squares64.

Definition color_of_Z (z : Z) : color := if (z =? 0)%Z then White else Black.

Definition take_n {A} (n : nat) (l : list A) : list A := firstn n l.

(* returns the board and the rest of the input *)
Definition decode_board (l : list Z) : option (board * list Z) :=
  match l with
  | p1 :: p2 :: p3 :: p4 :: p5 :: p6 :: c0 :: c1 :: st :: e :: ca :: fi :: fu :: nh :: rest =>
      let ps := map Z.to_N [p1; p2; p3; p4; p5; p6] in
      let n := Z.to_nat nh in
      let hs := map Z.to_N (firstn n rest) in
      Some (mkBoard (sq2p_of_sets ps) (0 :: ps) [Z.to_N c0; Z.to_N c1] (rev hs) fu
                    (color_of_Z st) (Z.to_N e) (Z.to_N ca) fi,
            skipn n rest)
  | _ => None
  end.

Definition pack_sq2p (l : list N) : N :=
  fold_right (fun p acc => p + 8 * acc) 0 l.

Definition encode_board (b : board) : list Z :=
  map Z.of_N (pcs b) ++ map Z.of_N (cols b) ++
  [Z.of_N (cix (stm b)); Z.of_N (ep b); Z.of_N (castles b); fifty b; full b; Z.of_N (pack_sq2p (sq2p b))] ++
  [Z.of_nat (length (hashes b))] ++ map Z.of_N (rev (hashes b)).

(* the same without the hash history (for observables that do not involve it) *)
Definition encode_board_nohist (b : board) : list Z :=
  map Z.of_N (pcs b) ++ map Z.of_N (cols b) ++
  [Z.of_N (cix (stm b)); Z.of_N (ep b); Z.of_N (castles b); fifty b; full b; Z.of_N (pack_sq2p (sq2p b))].

(* stream "pos": decode then encode (self-test of the wire format against the engine's snapshot) *)
Definition run_pos (l : list Z) : list Z :=
  match decode_board l with Some (b, _) => encode_board b | None => [] end.
