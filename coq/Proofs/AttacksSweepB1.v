(* C12 finite sweep, shard B1: by vm_compute, for each listed square, over EVERY subset of its
   relevant-occupancy mask (see Proofs/AttacksSweepDefs.v for what is checked). Re-checked whenever
   Gen/AttackTables.v (masks, magics, shifts read from the working tree) changes. *)
From Coq Require Import NArith List Bool.
From Chess3 Require Import Proofs.AttacksSweepDefs.
Import ListNotations.
Open Scope N_scope.
Definition bishop_squares_1 : list N := [1; 3; 5; 7; 9; 11; 13; 15; 17; 19; 21; 23; 25; 27; 29; 31; 33; 35; 37; 39; 41; 43; 45; 47; 49; 51; 53; 55; 57; 59; 61; 63].
Lemma bishop_sweep_1 : forallb bishop_sweep_sq bishop_squares_1 = true.
Proof. vm_cast_no_check (@eq_refl bool true). Qed.
