(* Executable model of /repo/movegen/movegen.go (GenNoisy, GenNotNoisy) and of
   Board.IsPseudoLegal (/repo/board/board.go): line-by-line transliterations, definitions only.
   Generated moves are produced in the order in which the Go code allocates them in the store. *)
From Coq Require Import NArith ZArith List Bool.
From Chess3 Require Import Base.Bits Model.Types Model.Att Model.BoardDef Model.Board.
Import ListNotations.
Open Scope N_scope.

Definition Full : N := ones64.

(* for ; x != 0; x &= x - 1 { sq := x.LowestSet(); ... } *)
Definition for_bits {A} (x : N) (f : N -> list A) : list A := flat_map f (bits_of x).

Definition mv (from to : N) : N := mk_move from to 0.
Definition mvp (from to promo : N) : N := mk_move from to promo.

Record generator := mkGen { g_self : N; g_them : N; g_occ : N }.

Definition gen_of (b : board) : generator :=
  mkGen (colors b (stm b)) (colors b (flip (stm b))) (bor (colors b White) (colors b Black)).

(* tSqrs loop shared by the piece generators *)
Definition to_loop (from tsqrs : N) : list N := for_bits tsqrs (fun to => [mv from to]).

Definition gen_king_moves (g : generator) (b : board) (fromMsk toMsk : N) : list N :=
  let piece := band (band (g_self g) (pieces b King)) fromMsk in
  if piece =? 0 then [] else
  let from := lsb piece in
  to_loop from (band (band (king_moves from) (bnot (g_self g))) toMsk).

Definition gen_knight_moves (g : generator) (b : board) (fromMsk toMsk : N) : list N :=
  for_bits (band (band (g_self g) (pieces b Knight)) fromMsk) (fun from =>
    to_loop from (band (band (knight_moves from) (bnot (g_self g))) toMsk)).

Definition gen_bishop_moves (g : generator) (b : board) (fromMsk toMsk : N) : list N :=
  for_bits (band (band (g_self g) (pieces b Bishop)) fromMsk) (fun from =>
    to_loop from (band (band (bishop_moves from (g_occ g)) (bnot (g_self g))) toMsk)).

Definition gen_rook_moves (g : generator) (b : board) (fromMsk toMsk : N) : list N :=
  for_bits (band (band (g_self g) (pieces b Rook)) fromMsk) (fun from =>
    to_loop from (band (band (rook_moves from (g_occ g)) (bnot (g_self g))) toMsk)).

Definition gen_queen_moves (g : generator) (b : board) (fromMsk toMsk : N) : list N :=
  for_bits (band (band (g_self g) (pieces b Queen)) fromMsk) (fun from =>
    to_loop from (band (band (bor (bishop_moves from (g_occ g)) (rook_moves from (g_occ g))) (bnot (g_self g))) toMsk)).

(* shifts = [2]Square{8, -8}; from + shift on int8, results stay inside 0..63 for pawns that may push *)
Definition sq_add (s : N) (d : Z) : N := Z.to_N (Z.of_N s + d).
Definition pshift (c : color) : Z := match c with White => 8%Z | Black => (-8)%Z end.

(* RankBB(r.FromPerspectiveOf(c)) *)
Definition rank_from (c : color) (r : N) : N := rank_bb (match c with White => r | Black => 7 - r end).
Definition SecondRank : N := 1.
Definition SeventhRank : N := 6.

Definition gen_single_push (g : generator) (b : board) (fromMsk : N) : list N :=
  let occ1 := shl (shr (g_occ g) 8) (N.shiftl (cix (stm b)) 4) in
  let pushable := band (band (g_self g) (pieces b Pawn)) (bnot occ1) in
  let shift := pshift (stm b) in
  let my7 := rank_from (stm b) SeventhRank in
  for_bits (band (band pushable fromMsk) (bnot my7)) (fun from => [mv from (sq_add from shift)]).

Definition promo_list (from to : N) : list N :=
  [mvp from to Queen; mvp from to Rook; mvp from to Bishop; mvp from to Knight].

Definition gen_promo_push (g : generator) (b : board) (fromMsk : N) : list N :=
  let occ1 := bor (shl (shr (g_occ g) 8) (N.shiftl (cix (stm b)) 4))
                  (shr (shl (g_occ g) 8) (N.shiftl (cix (flip (stm b))) 4)) in
  let pushable := band (band (g_self g) (pieces b Pawn)) (bnot occ1) in
  let shift := pshift (stm b) in
  let my7 := rank_from (stm b) SeventhRank in
  for_bits (band (band pushable fromMsk) my7) (fun from => promo_list from (sq_add from shift)).

Definition gen_double_push (g : generator) (b : board) (fromMsk : N) : list N :=
  let occ1 := shl (shr (g_occ g) 8) (N.shiftl (cix (stm b)) 4) in
  let occ2 := shl (shr (g_occ g) 16) (N.shiftl (cix (stm b)) 5) in
  let pushable := band (band (g_self g) (pieces b Pawn)) (bnot occ1) in
  let shift := pshift (stm b) in
  let my2 := rank_from (stm b) SecondRank in
  for_bits (band (band (band pushable (bnot occ2)) fromMsk) my2) (fun from => [mv from (sq_add from (2 * shift))]).

Definition cap_occ (g : generator) (b : board) : N :=
  match stm b with
  | White => bor (shr (bandn (g_them g) HFileBB) 7) (shr (bandn (g_them g) AFileBB) 9)
  | Black => bor (shl (bandn (g_them g) AFileBB) 7) (shl (bandn (g_them g) HFileBB) 9)
  end.

Definition gen_pawn_captures (g : generator) (b : board) : list N :=
  let my7 := rank_from (stm b) SeventhRank in
  for_bits (band (band (band (g_self g) (pieces b Pawn)) (bnot my7)) (cap_occ g b)) (fun from =>
    for_bits (band (pawn_capture_moves (bit from) (stm b)) (g_them g)) (fun to => [mv from to])).

Definition gen_pawn_capture_promos (g : generator) (b : board) : list N :=
  let my7 := rank_from (stm b) SeventhRank in
  for_bits (band (band (band (g_self g) (pieces b Pawn)) my7) (cap_occ g b)) (fun from =>
    for_bits (band (pawn_capture_moves (bit from) (stm b)) (g_them g)) (fun to => promo_list from to)).

Definition gen_en_passant (g : generator) (b : board) : list N :=
  if ep b =? 0 then [] else
  let e := pawn_capture_moves (bit (ep b)) (flip (stm b)) in
  for_bits (band (band e (g_self g)) (pieces b Pawn)) (fun from => [mv from (ep b)]).

Definition bb3 (a b c : N) : N := bor (bor (bit a) (bit b)) (bit c).

Definition gen_short_castle (g : generator) (b : board) (rChkMsk : N) : list N :=
  let castleMask := match stm b with White => bb3 E1 F1 G1 | Black => bb3 E8 F8 G8 end in
  if negb (band (castles b) (castle_bit (stm b) false) =? 0) &&
     (band (g_occ g) castleMask =? band (g_self g) (pieces b King)) then
    if negb (band castleMask rChkMsk =? 0) then
      if negb (is_attacked b (flip (stm b)) (g_occ g) castleMask) then
        let from := lsb (band (g_self g) (pieces b King)) in [mv from (from + 2)]
      else []
    else []
  else [].

Definition gen_long_castle (g : generator) (b : board) (rChkMsk : N) : list N :=
  let castleMask := match stm b with White => bb3 E1 D1 C1 | Black => bb3 E8 D8 C8 end in
  if negb (band (castles b) (castle_bit (stm b) true) =? 0) &&
     (band (g_occ g) (shr castleMask 1) =? 0) then
    if negb (band castleMask rChkMsk =? 0) then
      if negb (is_attacked b (flip (stm b)) (g_occ g) castleMask) then
        let from := lsb (band (g_self g) (pieces b King)) in [mv from (from - 2)]
      else []
    else []
  else [].

Definition gen_noisy (b : board) : list N :=
  let g := gen_of b in
  let them := g_them g in
  gen_king_moves g b Full them ++ gen_knight_moves g b Full them ++ gen_bishop_moves g b Full them ++
  gen_rook_moves g b Full them ++ gen_queen_moves g b Full them ++
  gen_promo_push g b Full ++ gen_pawn_captures g b ++ gen_pawn_capture_promos g b ++ gen_en_passant g b.

Definition gen_quiet (b : board) : list N :=
  let g := gen_of b in
  let nthem := bnot (g_them g) in
  gen_king_moves g b Full nthem ++ gen_knight_moves g b Full nthem ++ gen_bishop_moves g b Full nthem ++
  gen_rook_moves g b Full nthem ++ gen_queen_moves g b Full nthem ++
  gen_single_push g b Full ++ gen_double_push g b Full ++
  gen_short_castle g b Full ++ gen_long_castle g b Full.

Definition gen_all (b : board) : list N := gen_noisy b ++ gen_quiet b.

(* the moves the engine treats as playable: generated moves that do not leave the mover's king attacked
   (search.go: MakeMove; if b.InCheck(me) { UndoMove; continue }) *)
Definition playable (z : zobrist) (b : board) : list N :=
  filter (fun m => negb (in_check (fst (make z b m)) (stm b))) (gen_all b).

(* ------------------------------------------------------------------------------------------ *)
(* Board.IsPseudoLegal *)

Definition ipl_castle (b : board) (occ right empty_sqs safe_sqs : N) : bool :=
  negb ((band (castles b) right =? 0) || negb (band empty_sqs occ =? 0) ||
        is_attacked b (flip (stm b)) occ safe_sqs).

Definition is_pseudo_legal (b : board) (m : N) : bool :=
  let from := mv_from m in
  let fromBB := bit from in
  let to := mv_to m in
  let toBB := bit to in
  let me := stm b in
  if band (colors b me) fromBB =? 0 then false else
  if negb (band (colors b me) toBB =? 0) then false else
  let piece := piece_at b from in
  let occ := bor (colors b White) (colors b Black) in
  let promo := mv_promo m in
  if negb (promo =? NoPiece) && negb (piece =? Pawn) then false else
  if piece =? Knight then negb (band (knight_moves from) toBB =? 0)
  else if piece =? Bishop then negb (band (bishop_moves from occ) toBB =? 0)
  else if piece =? Rook then negb (band (rook_moves from occ) toBB =? 0)
  else if piece =? Queen then negb (band (bor (rook_moves from occ) (bishop_moves from occ)) toBB =? 0)
  else if piece =? King then
    if (from =? E1) && (to =? G1) && color_eqb me White then
      ipl_castle b occ ShortWhite (bor (bit F1) (bit G1)) (bb3 E1 F1 G1)
    else if (from =? E1) && (to =? C1) && color_eqb me White then
      ipl_castle b occ LongWhite (bb3 D1 C1 B1) (bb3 E1 D1 C1)
    else if (from =? E8) && (to =? G8) && color_eqb me Black then
      ipl_castle b occ ShortBlack (bor (bit F8) (bit G8)) (bb3 E8 F8 G8)
    else if (from =? E8) && (to =? C8) && color_eqb me Black then
      ipl_castle b occ LongBlack (bb3 D8 C8 B8) (bb3 E8 D8 C8)
    else negb (band (king_moves from) toBB =? 0)
  else if piece =? Pawn then
    if ((from <? to) && color_eqb me Black) || ((to <? from) && color_eqb me White) then false else
    let on7 := negb (band (rank_from me SeventhRank) fromBB =? 0) in
    if on7 && ((promo <? Knight) || (Queen <? promo)) then false else
    if negb on7 && negb (promo =? NoPiece) then false else
    let fd := abs_diff (sq_file from) (sq_file to) in
    let rd := abs_diff (sq_rank from) (sq_rank to) in
    if fd =? 0 then
      if rd =? 1 then band occ toBB =? 0
      else if rd =? 2 then
        if band fromBB (rank_from me SecondRank) =? 0 then false
        else band occ (bor toBB (bit ((from + to) / 2))) =? 0
      else false
    else if fd =? 1 then
      if negb (rd =? 1) then false else
      let enp := if negb (ep b =? 0) then bit (ep b) else 0 in
      negb (band (bor (colors b (flip me)) enp) toBB =? 0)
    else false
  else true.
