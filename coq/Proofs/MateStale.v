(* C09, soundness of IsStalemate exits for men that are not pinned: the knight loop and the
   "pawns guaranteed not to be pinned" shortcut.  The side to move is not in check; a man that is not
   the first thing seen from the king along a line (maybePinned), or that passes the slider test with
   itself lifted from the occupancy, may move anywhere its movement allows. *)
From Coq Require Import NArith ZArith List Bool Lia.
From Chess3 Require Import Base.Bits Model.Types Spec.Geometry Model.Att Model.BoardDef Model.Board
     Model.Movegen Model.Mate Spec.Chess Spec.Rep Proofs.MateGeom Proofs.MateAbs Proofs.MateKing
     Proofs.MateMove Proofs.MateCapture Proofs.MateBlockGeom Proofs.MateBlock.
Import ListNotations.
Open Scope N_scope.

(* ------------------------------------------------------------------------------------------ *)
(* rays: monotonicity and the first blocker *)

Lemma hit_mono dirs s occ1 occ2 t :
  (forall x, N.testbit occ1 x = true -> N.testbit occ2 x = true) ->
  hit dirs s occ2 t = true -> hit dirs s occ1 t = true.
Proof.
  intros Hsub H. destruct (hit_prefix _ _ _ _ H) as (dir & pre & Hd & Hp & Hc).
  unfold hit. apply existsb_exists. exists dir. split; [exact Hd|]. rewrite Hp.
  unfold all_clear. apply forallb_forall. intros x Hx. apply negb_true_iff.
  pose proof (all_clear_in occ2 pre x Hc Hx) as F.
  destruct (N.testbit occ1 x) eqn:E; [|reflexivity]. rewrite (Hsub x E) in F. discriminate.
Qed.

Lemma prefix_split l u pre d : prefix_to l u = Some pre -> In d pre ->
  exists pre1, prefix_to l d = Some pre1 /\ forall x, In x pre1 -> In x pre /\ x <> d.
Proof.
  revert pre. induction l as [|s r IH]; cbn [prefix_to]; intros pre Hp Hd; [discriminate|].
  destruct (N.eqb_spec s u) as [E|E].
  - injection Hp as <-. destruct Hd.
  - destruct (prefix_to r u) as [p'|] eqn:Ep; [|discriminate]. injection Hp as <-.
    destruct (N.eqb_spec s d) as [Esd|Esd].
    + exists []. split; [reflexivity|]. intros x [].
    + destruct Hd as [Hd|Hd]; [congruence|].
      destruct (IH p' eq_refl Hd) as [pre1 [H1 H2]]. exists (s :: pre1). rewrite H1. split; [reflexivity|].
      intros x [<-|Hx]; [split; [left; reflexivity|exact Esd]|].
      destruct (H2 x Hx) as [A B]. split; [right; exact A|exact B].
Qed.

Lemma first_blocker dirs s occ d u : (forall x, 64 <= x -> N.testbit occ x = false) ->
  hit dirs s (band occ (bnot (bit d))) u = true -> hit dirs s occ u = true \/ hit dirs s occ d = true.
Proof.
  intros Hhigh H. destruct (hit_prefix _ _ _ _ H) as (dir & pre & Hd & Hp & Hc).
  assert (Hx : forall x, In x pre -> x <> d -> N.testbit occ x = false).
  { intros x Hx Hne. pose proof (all_clear_in _ pre x Hc Hx) as F. unfold band in F.
    rewrite N.land_spec, bnot_testbit, bit_testbit in F.
    destruct (N.testbit occ x) eqn:E; [|reflexivity]. cbn [andb] in F.
    destruct (N.eqb_spec d x); [congruence|]. rewrite andb_true_r in F.
    destruct (N.ltb_spec x 64) as [L|L]; [discriminate|]. rewrite (Hhigh x L) in E. discriminate. }
  destruct (in_dec N.eq_dec d pre) as [Hin|Hnin].
  - right. destruct (prefix_split _ _ _ d Hp Hin) as [pre1 [H1 H2]].
    unfold hit. apply existsb_exists. exists dir. split; [exact Hd|]. rewrite H1.
    unfold all_clear. apply forallb_forall. intros x Hx1. apply negb_true_iff.
    destruct (H2 x Hx1) as [A B]. apply Hx; assumption.
  - left. unfold hit. apply existsb_exists. exists dir. split; [exact Hd|]. rewrite Hp.
    unfold all_clear. apply forallb_forall. intros x Hx1. apply negb_true_iff. apply Hx; [exact Hx1|].
    intros ->. contradiction.
Qed.

(* ------------------------------------------------------------------------------------------ *)
(* a move of an unpinned man when the king is not in check *)

Section Quiet.
Variable b : board.
Hypothesis HR : Rep b.
Hypothesis HV : valid (abs b) = true.
Hypothesis Hchk : in_check b (stm b) = false.
Let me := stm b.
Let them := flip me.
Let occ := occupancy b.

Variable k0 : N.
Hypothesis Hk0 : k0 < 64.
Hypothesis Hkbit : band (pieces b King) (colors b me) = bit k0.
Hypothesis Hking : forall s, s < 64 -> holds (abs b) s me King = (s =? k0).

Lemma not_attacked u ku occ2 : u < 64 -> who (abs b) u = Some (them, ku) ->
  mem (attacks_from them ku u occ2) k0 = true ->
  (forall x, x <> u -> x <> k0 -> N.testbit occ2 x = N.testbit occ x) -> False.
Proof.
  intros Hu Hw Hm Hext.
  assert (is_attacked b them occ (bit k0) = true) as Hia
    by (apply (is_attacked_complete b them ku u k0 occ2 occ HR Hu Hk0 Hw Hm Hext)).
  unfold in_check in Hchk. fold me in Hchk. fold them in Hchk.
  replace (band (colors b me) (pieces b King)) with (bit k0) in Hchk by (rewrite <- Hkbit; apply N.land_comm).
  fold occ in Hchk. congruence.
Qed.

Variables d t kd pr : N.
Hypothesis Hd : d < 64.
Hypothesis Ht : t < 64.
Hypothesis Hwd : who (abs b) d = Some (me, kd).
Hypothesis Hkd : kd <> King.
Hypothesis Hpr : In pr [0; Knight; Bishop; Rook; Queen].
Hypothesis Hdt : d <> t.
Hypothesis Htk : t <> k0.
Hypothesis Hnep : is_ep_capture (abs b) (mk_move d t pr) = false.
Hypothesis Hps : pseudo_spec (abs b) (mk_move d t pr) = true.
Hypothesis Hfree :
  slider_hits b k0 (band occ (bnot (bit d))) (colors b them) = false \/
  (N.testbit (bishop_moves k0 occ) d = false /\ N.testbit (rook_moves k0 occ) d = false).

Lemma occ_high x : 64 <= x -> N.testbit occ x = false.
Proof. intros L. unfold occ. rewrite (occupancy_testbit b), (colors_high b HR), (colors_high b HR) by exact L. reflexivity. Qed.

Lemma quiet_legal : legal_spec (abs b) (mk_move d t pr) = true.
Proof.
  apply (move_legal b d t kd pr k0 Hd Ht Hk0 Hking Hwd Hkd Hpr Hdt Htk Hnep Hps).
  intros u ku Hu Hut Hwu Hmem. fold me in Hwu. fold them in Hwu, Hmem.
  destruct (who_abs_inv b HR u them ku Hu Hwu) as (Hku & Hpu & Hcu & _).
  set (occ' := occ_of _) in Hmem.
  assert (Hocc' : forall i, N.testbit occ' i = (i <? 64) && ((t =? i) || (negb (d =? i) && N.testbit occ i))).
  { intros i. unfold occ'. apply (move_occ b HR d t kd pr k0 Hd Ht Hk0 Hwd Hkd Hpr Hdt Htk Hnep i). }
  set (nocc := band occ (bnot (bit d))).
  assert (Hsub : forall x, N.testbit nocc x = true -> N.testbit occ' x = true).
  { intros x Hx. unfold nocc, band in Hx. rewrite N.land_spec, bnot_testbit, bit_testbit in Hx.
    apply andb_prop in Hx. destruct Hx as [H1 H2]. apply andb_prop in H2. destruct H2 as [H2 H3].
    rewrite Hocc', H1, H2, H3. cbn [andb]. apply orb_true_r. }
  (* an enemy slider that attacks after the move: seen from the king with d lifted *)
  assert (Hslide : forall dirs,
            (forall s t, s < 64 -> t < 64 -> sym_check dirs s t = true) ->
            hit dirs u occ' k0 = true ->
            (hit dirs k0 nocc u = true) /\ (hit dirs k0 occ d = true \/ hit dirs u occ k0 = true)).
  { intros dirs Hsym Hh. apply (hit_sym_gen dirs Hsym u k0 occ' Hu Hk0) in Hh.
    apply (hit_mono dirs k0 nocc occ' u Hsub) in Hh. split; [exact Hh|].
    destruct (first_blocker dirs k0 occ d u occ_high Hh) as [F|F]; [right|left; exact F].
    apply (hit_sym_gen dirs Hsym k0 u occ Hk0 Hu F). }
  unfold mem in Hmem.
  assert (Hleap : mem (attacks_from them ku u occ) k0 = true -> False).
  { intros Hm. apply (not_attacked u ku occ Hu Hwu Hm). intros; reflexivity. }
  assert (ku = 1 \/ ku = 2 \/ ku = 3 \/ ku = 4 \/ ku = 5 \/ ku = 6) as [->|[->|[->|[->|[->| ->]]]]] by lia.
  - apply Hleap. exact Hmem.
  - apply Hleap. exact Hmem.
  - assert (Hh : hit bishop_dirs u occ' k0 = true) by (rewrite <- bishop_testbit; exact Hmem).
    destruct (Hslide bishop_dirs bishop_sym_check Hh) as [H1 H2].
    destruct Hfree as [Hpin|[Hb Hr]].
    + destruct (slider_hits_false b k0 _ _ u Hpin Hcu) as [Hdiag _].
      rewrite <- bishop_testbit in H1. apply (Hdiag H1). change Bishop with 3. rewrite Hpu. reflexivity.
    + destruct H2 as [H2|H2].
      * unfold bishop_moves in Hb. rewrite bishop_testbit in Hb. congruence.
      * apply Hleap. unfold mem. change (attacks_from them 3 u occ) with (bishop_attacks u occ). rewrite bishop_testbit. exact H2.
  - assert (Hh : hit rook_dirs u occ' k0 = true) by (rewrite <- rook_testbit; exact Hmem).
    destruct (Hslide rook_dirs rook_sym_check Hh) as [H1 H2].
    destruct Hfree as [Hpin|[Hb Hr]].
    + destruct (slider_hits_false b k0 _ _ u Hpin Hcu) as [_ Hline].
      rewrite <- rook_testbit in H1. apply (Hline H1). change Rook with 4. rewrite Hpu. reflexivity.
    + destruct H2 as [H2|H2].
      * unfold rook_moves in Hr. rewrite rook_testbit in Hr. congruence.
      * apply Hleap. unfold mem. change (attacks_from them 4 u occ) with (rook_attacks u occ). rewrite rook_testbit. exact H2.
  - assert (Hq : N.testbit (N.lor (rook_attacks u occ') (bishop_attacks u occ')) k0 = true) by exact Hmem.
    rewrite N.lor_spec in Hq. apply orb_true_iff in Hq. destruct Hq as [Hq|Hq].
    + rewrite rook_testbit in Hq. destruct (Hslide rook_dirs rook_sym_check Hq) as [H1 H2].
      destruct Hfree as [Hpin|[Hb Hr]].
      * destruct (slider_hits_false b k0 _ _ u Hpin Hcu) as [_ Hline].
        rewrite <- rook_testbit in H1. apply (Hline H1). change Queen with 5. rewrite Hpu. apply orb_true_r.
      * destruct H2 as [H2|H2].
        -- unfold rook_moves in Hr. rewrite rook_testbit in Hr. congruence.
        -- apply Hleap. unfold mem.
           change (attacks_from them 5 u occ) with (N.lor (rook_attacks u occ) (bishop_attacks u occ)).
           rewrite N.lor_spec, rook_testbit, H2. reflexivity.
    + rewrite bishop_testbit in Hq. destruct (Hslide bishop_dirs bishop_sym_check Hq) as [H1 H2].
      destruct Hfree as [Hpin|[Hb Hr]].
      * destruct (slider_hits_false b k0 _ _ u Hpin Hcu) as [Hdiag _].
        rewrite <- bishop_testbit in H1. apply (Hdiag H1). change Queen with 5. rewrite Hpu. apply orb_true_r.
      * destruct H2 as [H2|H2].
        -- unfold bishop_moves in Hb. rewrite bishop_testbit in Hb. congruence.
        -- apply Hleap. unfold mem.
           change (attacks_from them 5 u occ) with (N.lor (rook_attacks u occ) (bishop_attacks u occ)).
           rewrite N.lor_spec, bishop_testbit, H2. apply orb_true_r.
  - apply Hleap. exact Hmem.
Qed.

End Quiet.

(* ------------------------------------------------------------------------------------------ *)
(* additive set operations are unions over the members *)

Lemma additive_member (F : N -> N) : F 0 = 0 -> (forall x y, F (N.lor x y) = N.lor (F x) (F y)) ->
  forall x i, N.testbit (F x) i = true -> exists s, N.testbit x s = true /\ N.testbit (F (bit s)) i = true.
Proof.
  intros F0 Fadd x i. rewrite <- (set_of_bits_of x) at 1.
  assert (G : forall l, N.testbit (F (set_of l)) i = existsb (fun s => N.testbit (F (bit s)) i) l).
  { induction l as [|s r IH]; cbn [set_of fold_right existsb]; [rewrite F0; apply N.bits_0|].
    fold (set_of r). rewrite Fadd, N.lor_spec, IH. reflexivity. }
  rewrite G. intros H. apply existsb_exists in H. destruct H as [s [Hs H]].
  exists s. split; [apply bits_of_spec; exact Hs|exact H].
Qed.

Definition push_of (c : color) (x : N) : N := match c with White => shl x 8 | Black => shr x 8 end.
Definition caps_of (c : color) (x : N) : N :=
  match c with
  | White => bor (shl (band x (bnot AFileBB)) 7) (shl (band x (bnot HFileBB)) 9)
  | Black => bor (shr (band x (bnot HFileBB)) 7) (shr (band x (bnot AFileBB)) 9)
  end.

Lemma band_lor_l x y m : band (N.lor x y) m = N.lor (band x m) (band y m).
Proof. unfold band. apply N.land_lor_distr_l. Qed.

Lemma push_of_member c x i : N.testbit (push_of c x) i = true ->
  exists s, N.testbit x s = true /\ N.testbit (push_of c (bit s)) i = true.
Proof.
  apply (additive_member (push_of c)).
  - destruct c; reflexivity.
  - intros a b'. destruct c; cbn [push_of]; [apply shl_lor|apply shr_lor].
Qed.

Lemma caps_of_member c x i : N.testbit (caps_of c x) i = true ->
  exists s, N.testbit x s = true /\ N.testbit (caps_of c (bit s)) i = true.
Proof.
  apply (additive_member (caps_of c)).
  - destruct c; reflexivity.
  - intros a b'. destruct c; cbn [caps_of]; unfold bor; rewrite !band_lor_l, ?shl_lor, ?shr_lor;
      apply N.bits_inj; intro j; rewrite !N.lor_spec;
      repeat match goal with |- context [N.testbit ?x ?jj] => generalize (N.testbit x jj); intro end;
      repeat match goal with v : bool |- _ => destruct v end; reflexivity.
Qed.

Definition push_of_check (c : color) (d : N) : bool :=
  forallb (fun t => (t <? 64) && (t =? fwd c d) && negb (rank_n d =? last_rank c) && negb (t =? d)) (bits_of (push_of c (bit d))).
Definition caps_of_check (c : color) (d : N) : bool :=
  forallb (fun t => (t <? 64) && N.testbit (pawn_attacks c d) t && negb (t =? d)) (bits_of (caps_of c (bit d))).

Lemma push_of_fact c d t : d < 64 -> N.testbit (push_of c (bit d)) t = true ->
  t < 64 /\ t = fwd c d /\ rank_n d <> last_rank c /\ t <> d.
Proof.
  intros Hd H.
  assert (C : push_of_check c d = true).
  { clear H. revert d Hd. destruct c; [apply (forall_sq (push_of_check White))|apply (forall_sq (push_of_check Black))]; vm_compute; reflexivity. }
  unfold push_of_check in C. rewrite forallb_forall in C. specialize (C t (proj2 (bits_of_spec _ _) H)).
  repeat (apply andb_prop in C; destruct C as [C ?]).
  repeat match goal with H : negb _ = true |- _ => apply negb_true_iff, N.eqb_neq in H end.
  apply N.ltb_lt in C. match goal with H : (t =? fwd c d) = true |- _ => apply N.eqb_eq in H end. tauto.
Qed.

Lemma caps_of_fact c d t : d < 64 -> N.testbit (caps_of c (bit d)) t = true ->
  t < 64 /\ N.testbit (pawn_attacks c d) t = true /\ t <> d.
Proof.
  intros Hd H.
  assert (C : caps_of_check c d = true).
  { clear H. revert d Hd. destruct c; [apply (forall_sq (caps_of_check White))|apply (forall_sq (caps_of_check Black))]; vm_compute; reflexivity. }
  unfold caps_of_check in C. rewrite forallb_forall in C. specialize (C t (proj2 (bits_of_spec _ _) H)).
  repeat (apply andb_prop in C; destruct C as [C ?]).
  repeat match goal with H : negb _ = true |- _ => apply negb_true_iff, N.eqb_neq in H end.
  apply N.ltb_lt in C. tauto.
Qed.

Lemma stale_free_pawn_eq c pawns occ opp :
  stale_free_pawn c pawns occ opp =
  negb (band (push_of c pawns) (bnot occ) =? 0) || negb (band (caps_of c pawns) opp =? 0).
Proof. destruct c; reflexivity. Qed.

Lemma band_some x y : negb (band x y =? 0) = true -> exists u, N.testbit x u = true /\ N.testbit y u = true.
Proof.
  intros H. apply negb_true_iff, N.eqb_neq in H. pose proof (lsb_testbit _ H) as T.
  unfold band in T. rewrite N.land_spec in T. apply andb_prop in T. eexists. exact T.
Qed.

(* ------------------------------------------------------------------------------------------ *)
(* the exits *)

Section StaleExits.
Variable b : board.
Hypothesis HR : Rep b.
Hypothesis HV : valid (abs b) = true.
Hypothesis Hchk : in_check b (stm b) = false.
Let me := stm b.
Let own := colors b me.
Let opp := colors b (flip me).
Let occ := occupancy b.
Variable k0 : N.
Hypothesis Hk0 : k0 < 64.
Hypothesis Hkbit : band (pieces b King) own = bit k0.
Hypothesis Hking : forall s, s < 64 -> holds (abs b) s me King = (s =? k0).
Let maybePinned := band (bor (bishop_moves k0 occ) (rook_moves k0 occ)) own.

Lemma own_lt s : N.testbit own s = true -> s < 64.
Proof. intros H. destruct (N.lt_ge_cases s 64) as [L|L]; [exact L|]. unfold own in H. rewrite (colors_high b HR _ s L) in H. discriminate. Qed.

Lemma king_own : N.testbit own k0 = true.
Proof.
  assert (N.testbit (bit k0) k0 = true) as H by (rewrite bit_testbit; apply N.eqb_refl).
  rewrite <- Hkbit in H. unfold band in H. rewrite N.land_spec in H. apply andb_prop in H. tauto.
Qed.

Lemma not_maybe_pinned d : N.testbit own d = true -> N.testbit maybePinned d = false ->
  N.testbit (bishop_moves k0 occ) d = false /\ N.testbit (rook_moves k0 occ) d = false.
Proof.
  intros Ho H. unfold maybePinned, band, bor in H. rewrite N.land_spec, N.lor_spec, Ho, andb_true_r in H.
  apply orb_false_elim in H. exact H.
Qed.

Theorem knight_exit_sound :
  stale_knight b k0 occ own opp maybePinned = true -> legal_moves (abs b) <> [].
Proof.
  intros H. unfold stale_knight in H. apply existsb_exists in H. destruct H as [d [Hdin H]].
  apply bits_of_spec in Hdin. unfold band in Hdin. rewrite N.land_spec in Hdin. apply andb_prop in Hdin.
  destruct Hdin as [Hkn Hdown]. pose proof (own_lt d Hdown) as Hd.
  apply andb_prop in H. destruct H as [Hpin Htg]. apply negb_true_iff in Hpin.
  apply band_some in Htg. destruct Htg as [t [Hatt Hnown]]. rewrite bnot_testbit in Hnown.
  apply andb_prop in Hnown. destruct Hnown as [Ht Hnown]. apply N.ltb_lt in Ht. apply negb_true_iff in Hnown.
  destruct (knight_range d t Hd Hatt) as [_ Htd].
  assert (Hw : who (abs b) d = Some (me, Knight)) by (apply (who_abs_intro b HR); try assumption; unfold Knight; lia).
  assert (Htk : t <> k0) by (intros ->; rewrite king_own in Hnown; discriminate).
  assert (Hfree : slider_hits b k0 (band occ (bnot (bit d))) (colors b (flip me)) = false \/
                  (N.testbit (bishop_moves k0 occ) d = false /\ N.testbit (rook_moves k0 occ) d = false)).
  { apply andb_false_iff in Hpin. destruct Hpin as [Hp|Hp].
    - right. apply negb_false_iff in Hp. apply not_maybe_pinned; [exact Hdown|].
      apply (band_zero_testbit _ _ d Hp). rewrite bit_testbit. apply N.eqb_refl.
    - left. exact Hp. }
  apply (legal_moves_nonempty _ d t 0 Hd Ht (or_introl eq_refl)).
  apply (quiet_legal b HR Hchk k0 Hk0 Hkbit Hking d t Knight 0 Hd Ht Hw); try assumption.
  - unfold Knight, King. lia.
  - left. reflexivity.
  - congruence.
  - apply (not_ep_piece b d t Knight 0 Hd Ht (or_introl eq_refl) Hw). unfold Knight, Pawn. lia.
  - apply (pseudo_piece b HR d t Knight Hd Ht Hw); try (unfold Knight, Pawn, King; lia); [exact Hnown|exact Hatt].
Qed.

Theorem free_pawn_exit_sound :
  stale_free_pawn me (band (band (pieces b Pawn) own) (bnot maybePinned)) occ opp = true ->
  legal_moves (abs b) <> [].
Proof.
  intros H. rewrite stale_free_pawn_eq in H.
  assert (Hpawn : forall d, N.testbit (band (band (pieces b Pawn) own) (bnot maybePinned)) d = true ->
            d < 64 /\ who (abs b) d = Some (me, Pawn) /\
            (N.testbit (bishop_moves k0 occ) d = false /\ N.testbit (rook_moves k0 occ) d = false)).
  { intros d Hd. unfold band in Hd at 1 2. rewrite !N.land_spec, bnot_testbit in Hd.
    apply andb_prop in Hd. destruct Hd as [Hd Hmp]. apply andb_prop in Hd. destruct Hd as [Hp Ho].
    apply andb_prop in Hmp. destruct Hmp as [_ Hmp]. apply negb_true_iff in Hmp.
    pose proof (own_lt d Ho) as L. split; [exact L|]. split.
    - apply (who_abs_intro b HR); try assumption. unfold Pawn; lia.
    - apply not_maybe_pinned; assumption. }
  apply orb_true_iff in H. destruct H as [H|H].
  - (* a push *)
    apply band_some in H. destruct H as [t [Hpush Hemp]]. rewrite bnot_testbit in Hemp.
    apply andb_prop in Hemp. destruct Hemp as [_ Hemp]. apply negb_true_iff in Hemp.
    apply push_of_member in Hpush. destruct Hpush as [d [Hdp Hpush]].
    destruct (Hpawn d Hdp) as (Hd & Hw & Hfree).
    destruct (push_of_fact me d t Hd Hpush) as (Ht & Et & Hrk & Htd). subst t.
    assert (Htk : fwd me d <> k0).
    { intros E. rewrite E in Hemp. unfold occ in Hemp. rewrite (occupancy_of_color b me k0 king_own) in Hemp. discriminate. }
    apply (legal_moves_nonempty _ d (fwd me d) (promo_for b (fwd me d)) Hd Ht (promo_for_in b _)).
    apply (quiet_legal b HR Hchk k0 Hk0 Hkbit Hking d (fwd me d) Pawn _ Hd Ht Hw); try assumption.
    + unfold Pawn, King. lia.
    + apply promo_for_in.
    + congruence.
    + apply (not_ep_push1 b d _ HR HV Hd Ht (promo_for_in b _) Hw Hrk).
    + apply (pseudo_push1 b HR d Hd Ht Hw Hrk Hemp).
    + right. exact Hfree.
  - (* a capture *)
    apply band_some in H. destruct H as [t [Hcap Hopp]].
    apply caps_of_member in Hcap. destruct Hcap as [d [Hdp Hcap]].
    destruct (Hpawn d Hdp) as (Hd & Hw & Hfree).
    destruct (caps_of_fact me d t Hd Hcap) as (Ht & Hatt & Htd).
    assert (Htk : t <> k0).
    { intros ->. pose proof king_own as Hko. unfold own in Hko. unfold opp in Hopp.
      rewrite (colors_disjoint b HR me k0 Hk0 Hopp) in Hko. discriminate. }
    apply (legal_moves_nonempty _ d t (promo_for b t) Hd Ht (promo_for_in b _)).
    apply (quiet_legal b HR Hchk k0 Hk0 Hkbit Hking d t Pawn _ Hd Ht Hw); try assumption.
    + unfold Pawn, King. lia.
    + apply promo_for_in.
    + congruence.
    + apply (not_ep_occupied b d t _ HR HV Hd Ht (promo_for_in b _)). apply (occupancy_of_color b (flip me) t Hopp).
    + apply (pseudo_pawn_capture b HR d t Hd Ht Hw Hopp Hatt).
    + right. exact Hfree.
Qed.

End StaleExits.
