package streams

// C06 streams (implementation side; judged by the extracted judge_c06):
//
//	c06     request (see sb_common.go) -> observation of one Search.Go call
//	c06uci  the same through the UCI driver: `go depth <text> [nodes N]` with arbitrary argument text
//	c06arg  `go depth <text>` against a recording search: which depth reaches the engine
//	        (model stream: Model/IterDeepen.v uci_go_depth)
//
// Observation layout (c06 and c06uci):
//
//	move score ponder aborted nodes nLegal legal... fifty threefold inCheck snapEq second pseudoOK watchdog
//
// second: 1 when a follow-up search (depth 1, no other limit) on the same instance returned
// normally, not aborted, with a legal move (or null on a final root) and left the board untouched;
// otherwise a small error code.

import (
	"bytes"
	"fmt"
	"io"
	"strings"
	"sync"
	"time"

	"github.com/paulsonkoly/chess-3/board"
	. "github.com/paulsonkoly/chess-3/chess"
	"github.com/paulsonkoly/chess-3/move"
	"github.com/paulsonkoly/chess-3/search"
	"github.com/paulsonkoly/chess-3/uci"

	"verifharness/hx"
)

func init() {
	hx.Register(&hx.Stream{Name: "c06", Gen: genC06, Run: runC06})
	hx.Register(&hx.Stream{Name: "c06uci", Gen: genC06uci, Run: runC06uci})
	hx.Register(&hx.Stream{Name: "c06arg", Gen: genC06arg, Run: runC06arg})
}

func sbContains(ls []move.Move, m move.Move) bool {
	for _, l := range ls {
		if l == m {
			return true
		}
	}
	return false
}

// sbSecond runs the follow-up search of the "engine can be searched again" clause.
func sbSecond(s *search.Search, b *board.Board, legal []move.Move, final bool) int {
	before := b.VerifSnapshot()
	_, m2, _ := s.Go(b, search.WithDepth(1), search.WithOutput(nil))
	switch {
	case s.VerifAborted():
		return 2
	case !sbSnapEqual(before, b.VerifSnapshot()):
		return 3
	case m2 == 0 && !final:
		return 4
	case m2 != 0 && !sbContains(legal, m2):
		return 5
	}
	return 1
}

func runC06(a hx.Args) string {
	r, _, ok := sbDecode(a, 0)
	if !ok {
		return "badinput"
	}
	b := sbBoard(r.Root)
	if b == nil {
		return "badroot"
	}
	s := sbEngine(r.TTKB, r.Warm, b)
	legal := sbLegalMoves(b)
	final := sbFinal(b) != 0
	before := b.VerifSnapshot()
	res := sbRun(s, b, r)
	after := b.VerifSnapshot()
	second := sbSecond(s, b, legal, final)
	// the observation reports the board as the first search left it
	out := &hx.Nums{}
	out.U(hx.M2U(res.Move)).I(int64(res.Score)).U(uint64(res.Ponder)).B(res.Aborted).Int(res.Nodes)
	out.Int(len(legal)).U(sbSortedMoves(legal)...)
	out.Int(int(before.FiftyCnt), int(b.Threefold())).B(b.InCheck(b.STM))
	out.B(sbSnapEqual(before, after))
	out.Int(second)
	out.B(res.Move == 0 || b.IsPseudoLegal(res.Move)).B(res.Watchdog)
	return out.String()
}

func genC06(rng *hx.Rng, n int, tier string, emit func(hx.Input)) {
	sbRequests(rng, n, tier, func(r sbReq, tags []string) {
		b := sbBoard(r.Root)
		f := sbFinal(b)
		switch {
		case f&1 != 0 && b.InCheck(b.STM):
			tags = append(tags, "final:checkmate")
		case f&1 != 0:
			tags = append(tags, "final:stalemate")
		case f&2 != 0:
			tags = append(tags, "final:clock")
		case f&4 != 0:
			tags = append(tags, "final:repetition")
		default:
			tags = append(tags, "non-final")
		}
		emit(hx.Input{In: r.encode().String(), Desc: r.desc(), Tags: tags,
			NonTrivial: !r.HasDepth || r.Depth >= 1})
	})
}

// ---------------------------------------------------------------------------------------------
// UCI

// sbLineSink is the driver's output: complete lines are handed to a channel.
type sbLineSink struct {
	mu    sync.Mutex
	part  []byte
	lines chan string
}

func (w *sbLineSink) Write(p []byte) (int, error) {
	w.mu.Lock()
	defer w.mu.Unlock()
	w.part = append(w.part, p...)
	for {
		i := bytes.IndexByte(w.part, '\n')
		if i < 0 {
			break
		}
		w.lines <- string(w.part[:i])
		w.part = w.part[i+1:]
	}
	return len(p), nil
}

// sbUCI feeds commands to a real driver one at a time: after a `go` it waits for the bestmove line,
// after anything else for the answer to an `isready` (the driver drops most commands that arrive
// while a search runs, so an unsynchronised script would make the transcript timing dependent).
func sbUCI(s uci.Search, cmds []string) []string {
	pr, pw := io.Pipe()
	sink := &sbLineSink{lines: make(chan string, 1<<16)}
	var errb bytes.Buffer
	opts := []uci.DriverOpt{uci.WithInput(pr), uci.WithOutput(sink), uci.WithError(&errb)}
	if s != nil {
		opts = append(opts, uci.WithSearch(s))
	}
	d := uci.NewDriver(opts...)
	fin := make(chan struct{})
	go func() { d.Run(); close(fin) }()
	var ls []string
	waitFor := func(prefix string, keep bool) {
		t := time.After(20 * time.Second)
		for {
			select {
			case l := <-sink.lines:
				hit := strings.HasPrefix(l, prefix)
				if strings.TrimSpace(l) != "" && (keep || !hit) {
					ls = append(ls, l)
				}
				if hit {
					return
				}
			case <-t:
				panic("uci driver did not answer")
			}
		}
	}
	for _, c := range cmds {
		fmt.Fprintln(pw, c)
		if strings.HasPrefix(c, "go") {
			waitFor("bestmove", true)
		} else {
			fmt.Fprintln(pw, "isready")
			waitFor("readyok", false)
		}
	}
	fmt.Fprintln(pw, "quit")
	pw.Close()
	select {
	case <-fin:
	case <-time.After(60 * time.Second):
		panic("uci driver did not quit")
	}
	return ls
}

func sbPositionCmd(r sbRoot) string {
	sb := strings.Builder{}
	sb.WriteString("position fen " + r.Fen)
	if len(r.Moves) > 0 {
		sb.WriteString(" moves")
		for _, m := range r.Moves {
			sb.WriteString(" " + m.String())
		}
	}
	return sb.String()
}

// c06uci input: ttKB(ignored: the driver's own 1 MB table unless hashMB>0) nodes nArg arg-bytes... nFen fen... nMoves moves...
// encoded as a request whose Depth field is unused, followed by the argument text.
func sbArgOK(arg string) bool {
	// the driver's own keywords in argument position make it answer "argument missing" without searching
	for _, k := range []string{"wtime", "btime", "winc", "binc", "depth", "nodes", "movetime"} {
		if arg == k {
			return false
		}
	}
	return arg != "" && !strings.ContainsAny(arg, " \t\r\n") && len(arg) < 64
}

func runC06uci(a hx.Args) string {
	r, at, ok := sbDecode(a, 0)
	if !ok || at >= a.Len() {
		return "badinput"
	}
	na := a.Int(at)
	arg := string(a.Bytes(at+1, at+1+na))
	if !sbArgOK(arg) {
		return "badinput"
	}
	b := sbBoard(r.Root)
	if b == nil {
		return "badroot"
	}
	legal := sbLegalMoves(b)
	before := b.VerifSnapshot()
	goCmd := "go depth " + arg
	if r.Nodes >= 0 {
		goCmd += fmt.Sprintf(" nodes %d", r.Nodes)
	}
	lines := sbUCI(nil, []string{"setoption name Ponder value true", sbPositionCmd(r.Root), goCmd, "fen", goCmd})
	// expected: info..., bestmove, fen line, info..., bestmove
	var best []string
	fenLine := ""
	score := int64(12345) // unknown
	for _, l := range lines {
		switch {
		case strings.HasPrefix(l, "info") && len(best) == 0:
			if in := sbParseInfo(l); in.Kind == 1 {
				f := strings.Fields(l)
				switch {
				case in.ScoreKind == 1:
					score = int64(in.ScoreVal)
				case in.ScoreKind == 2 && f[5] == "-0":
					score = -int64(Inf)
				default:
					score = 12345
				}
			}
		case strings.HasPrefix(l, "bestmove"):
			best = append(best, l)
		case !strings.HasPrefix(l, "info") && strings.Count(l, "/") == 7:
			fenLine = l
		}
	}
	parse := func(l string) (move.Move, move.Move, bool) {
		f := strings.Fields(l)
		if len(f) != 2 && !(len(f) == 4 && f[2] == "ponder") {
			return 0, 0, false
		}
		var m, p move.Move
		if f[1] != "0000" {
			var err error
			if m, err = uci.VerifParseUCIMove(b, f[1]); err != nil {
				return 0xffff, 0, true // not even pseudo-legal: reported as an unknown move
			}
		}
		if len(f) == 4 {
			p = 1 // ponder legality is C07's business; only its presence is noted here
		}
		return m, p, true
	}
	var m, p move.Move
	second := 6
	if len(best) == 2 {
		var ok1 bool
		if m, p, ok1 = parse(best[0]); !ok1 {
			return "badoutput"
		}
		m2, _, ok2 := parse(best[1])
		final := sbFinal(b) != 0
		switch {
		case !ok2:
			second = 6
		case m2 == 0 && !final:
			second = 4
		case m2 != 0 && !sbContains(legal, m2):
			second = 5
		default:
			second = 1
		}
	}
	// the driver's board is private to it; what it prints for `fen` after the search is compared
	// with the FEN of the root it was given
	snapEq := fenLine == b.FEN()
	out := &hx.Nums{}
	out.U(hx.M2U(m)).I(score).U(uint64(p)).B(r.Nodes >= 0).Int(0)
	out.Int(len(legal)).U(sbSortedMoves(legal)...)
	out.Int(int(before.FiftyCnt), int(b.Threefold())).B(b.InCheck(b.STM))
	out.B(snapEq).Int(second).B(m != 0xffff).B(false)
	return out.String()
}

var sbDepthArgs = []string{"0", "-0", "+0", "-1", "-5", "-127", "-128", "-129", "-255", "-256", "1", "+1", "01", "2", "3",
	"63", "64", "65", "100", "126", "127", "128", "129", "191", "192", "255", "256", "257", "320", "383", "384", "511", "512",
	"32767", "32768", "65535", "65536", "65537", "2147483647", "2147483648", "4294967295", "4294967296", "4294967297",
	"9223372036854775807", "9223372036854775808", "-9223372036854775808", "-9223372036854775809",
	"18446744073709551615", "18446744073709551616", "99999999999999999999999", "x", "1x", "x1", "1.5", "1e3", "0x10", "1_0",
	"--1", "+-1", "-", "+", "depth", "nodes", "infinite", "١", "1\x00"}

func genC06uci(rng *hx.Rng, n int, tier string, emit func(hx.Input)) {
	roots := sbRoots()
	cnt := 0
	one := func(root sbRoot, arg string, nodes int) {
		r := sbReq{TTKB: 1024, Nodes: nodes, SoftNodes: -1, Root: root}
		in := r.encode().Int(len(arg)).Bytes([]byte(arg))
		b := sbBoard(root)
		tag := "non-final"
		if sbFinal(b) != 0 {
			tag = "final"
		}
		emit(hx.Input{In: in.String(), Desc: fmt.Sprintf("%s | go depth %q nodes %d", r.desc(), arg, nodes),
			Tags: []string{tag, "arg"}, NonTrivial: true, Key: root.Name + "|" + arg})
		cnt++
	}
	// every listed argument on the start position and on a final root; then random pairs
	for _, arg := range sbDepthArgs {
		if !sbArgOK(arg) {
			continue
		}
		one(roots[0], arg, 300)
		if cnt >= n {
			return
		}
	}
	for cnt < n {
		root := roots[rng.Intn(len(roots))]
		var arg string
		switch rng.Intn(4) {
		case 0:
			arg = sbDepthArgs[rng.Intn(len(sbDepthArgs))]
		case 1:
			arg = fmt.Sprint(rng.Range(-600, 600))
		case 2:
			arg = fmt.Sprint(int64(rng.U64()))
		default:
			arg = fmt.Sprint(rng.Range(-3, 70))
		}
		if !sbArgOK(arg) {
			continue
		}
		nodes := 50 + rng.Intn(400)
		b := sbBoard(root)
		if sbFinal(b) != 0 && rng.Chance(0.5) {
			nodes = -1 // a final root needs no budget to terminate
		}
		one(root, arg, nodes)
	}
}

// ---------------------------------------------------------------------------------------------
// c06arg: which depth does `go depth <text>` hand to the search

type sbRecorder struct {
	opts search.Options
	seen bool
}

func (r *sbRecorder) Go(b *board.Board, os ...search.Option) (Score, move.Move, move.Move) {
	o := search.Options{Depth: MaxPlies, Nodes: -1, SoftNodes: -1}
	for _, f := range os {
		f(&o)
	}
	r.opts, r.seen = o, true
	return 0, 0, 0
}
func (r *sbRecorder) Clear()       {}
func (r *sbRecorder) ResizeTT(int) {}

// input: arg bytes; output: [seen depth nodes] where nodes is the value given after a second `nodes <text>` argument
func runC06arg(a hx.Args) string {
	arg := string(a.Bytes(0, a.Len()))
	if !sbArgOK(arg) {
		return "badinput"
	}
	rec := &sbRecorder{}
	sbUCI(rec, []string{"go depth " + arg})
	return (&hx.Nums{}).B(rec.seen).Int(int(rec.opts.Depth)).String()
}

func genC06arg(rng *hx.Rng, n int, tier string, emit func(hx.Input)) {
	cnt := 0
	one := func(arg, tag string) {
		if !sbArgOK(arg) {
			return
		}
		emit(hx.Input{In: (&hx.Nums{}).Bytes([]byte(arg)).String(), Desc: fmt.Sprintf("go depth %q", arg),
			Tags: []string{tag}, NonTrivial: true})
		cnt++
	}
	for _, arg := range sbDepthArgs {
		one(arg, "listed")
	}
	for v := int64(-700); v <= 700; v++ {
		one(fmt.Sprint(v), "dense")
	}
	for _, p := range []uint{7, 8, 15, 16, 31, 32, 62, 63} {
		for d := int64(-70); d <= 70; d++ {
			// around +-2^p, printed from big arithmetic by hand for p = 63
			if p == 63 {
				continue
			}
			one(fmt.Sprint(int64(1)<<p+d), "power-of-two")
			one(fmt.Sprint(-(int64(1)<<p)+d), "power-of-two")
		}
	}
	digits := "0123456789"
	junk := "+-_xe. aA"
	for cnt < n {
		switch rng.Intn(4) {
		case 0:
			one(fmt.Sprint(int64(rng.U64())), "random-int64")
		case 1:
			// long digit strings (overflow of int64)
			l := 1 + rng.Intn(30)
			sb := strings.Builder{}
			if rng.Chance(0.3) {
				sb.WriteByte("+-"[rng.Intn(2)])
			}
			for i := 0; i < l; i++ {
				sb.WriteByte(digits[rng.Intn(10)])
			}
			one(sb.String(), "digit-string")
		case 2:
			l := 1 + rng.Intn(6)
			sb := strings.Builder{}
			for i := 0; i < l; i++ {
				if rng.Chance(0.7) {
					sb.WriteByte(digits[rng.Intn(10)])
				} else {
					sb.WriteByte(junk[rng.Intn(len(junk))])
				}
			}
			one(strings.ReplaceAll(sb.String(), " ", "_"), "garbage")
		default:
			one(fmt.Sprint(rng.Range(-300, 300)), "small")
		}
	}
}
