package main

import (
	. "github.com/paulsonkoly/chess-3/chess"
	"github.com/paulsonkoly/chess-3/move"
	"github.com/paulsonkoly/chess-3/params"
	"github.com/paulsonkoly/chess-3/search"
)

// Constants of the search's decision layer (iterativeDeepen, PV buffer, UCI depth clamp): C06/C07/C08.
func init() {
	generators = append(generators, func() {
		f := newFile("IdConsts.v", "From Coq Require Import ZArith.\nOpen Scope Z_scope.")
		f.p("Definition ScoreInf : Z := %d.\n", int64(Inf))
		f.p("Definition ScoreInv : Z := %d.\n", int64(Inv))
		f.p("Definition MaxPlies : Z := %d.\n", int64(MaxPlies))
		f.p("Definition WindowSize : Z := %d.\n", int64(params.WindowSize))
		f.p("Definition PVSize : Z := %d.\n", int64(search.VerifPVSize()))
		f.p("Definition MoveStoreSize : Z := %d.\n", int64(move.StoreSize))
	})
}
