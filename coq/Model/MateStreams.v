(* Correspondence entry point for the mate/stalemate model (stream "c09"). *)
From Coq Require Import NArith ZArith List Bool.
From Chess3 Require Import Base.Bits Model.Types Model.Att Model.BoardDef Model.Board Model.Movegen
     Model.Mate Gen.Zobrist.
Import ListNotations.
Open Scope Z_scope.

(* stream "c09": board-in -> [InCheck(stm); IsCheckmate; IsStalemate; number of playable moves]
   The engine calls IsCheckmate only when the side to move is in check and IsStalemate only when it is
   not (search.go, quiescence); outside its domain IsCheckmate indexes InBetween[kingSq][64] and
   panics.  The harness therefore calls each function only inside its domain and reports 2 ("not
   called") for the other one; so does this model. *)
Definition run_c09 (l : list Z) : list Z :=
  match decode_board l with
  | Some (b, _) =>
      let chk := in_check b (stm b) in
      [ if chk then 1 else 0;
        if chk then (if is_checkmate b then 1 else 0) else 2;
        if chk then 2 else (if is_stalemate b then 1 else 0);
        Z.of_nat (length (playable zob_real b)) ]
  | None => []
  end.

(* stream "c09ab": board-in ++ [squares; colour] -> [Attackers(squares, occ, colour); Block(squares, colour)]
   (the two exported helpers, observed separately so that the early returns of IsCheckmate do not hide
   a difference between the model and the code) *)
Definition run_c09ab (l : list Z) : list Z :=
  match decode_board l with
  | Some (b, sq :: c :: _) =>
      let c := color_of_Z c in
      [ Z.of_N (attackers b (Z.to_N sq) (occupancy b) c); Z.of_N (block b (Z.to_N sq) c) ]
  | _ => []
  end.
