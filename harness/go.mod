module verifharness

go 1.25.4

require (
	github.com/paulsonkoly/chess-3 v0.0.0
	github.com/paulsonkoly/chess-3/tools/tuner v0.0.0
)

require golang.org/x/exp v0.0.0-20250218142911-aa4b98e5adaa // indirect

replace github.com/paulsonkoly/chess-3 => /repo

replace github.com/paulsonkoly/chess-3/tools/tuner => /var/tmp/chess3-verif-tuner
