#!/usr/bin/env python3
"""Resolve a conflict in lib/props.py where both sides appended registration blocks: keep both."""
import re
p = "lib/props.py"
s = open(p).read()
s = re.sub(r"^<<<<<<< .*\n", "", s, flags=re.M)
s = re.sub(r"^=======\n", "\n", s, flags=re.M)
s = re.sub(r"^>>>>>>> .*\n", "", s, flags=re.M)
open(p, "w").write(s)
import subprocess, sys
sys.exit(subprocess.call([sys.executable, "-c", "import sys; sys.path.insert(0,'lib'); import props"]))
