(* Executable model of /repo/board/fen.go (ParseFEN, FromFEN, Board.FEN), board/board.go
   InvalidPieceCount, tools/tuner/epd/parser.go Parse and the board-installing part of
   uci/uci.go handlePosition.  Definitions only; a line-by-line transliteration.

   EXPLICIT BOUNDS.  The input is a list of bytes (N below 256).  Every Go expression
   [fp.fen[i]] is [nth_error s i]; when the index is out of range the model yields the
   distinguished outcome [Panic] (Go: "index out of range" run-time panic).  Writes to the
   fixed-size arrays SquaresToPiece[64] / Pieces[7] / Colors[2] go through [arr_set n], which
   yields [Panic] when the index is not below the array size n.  "ParseFEN never crashes" is
   therefore a theorem about the control flow of this model (Proofs/FenSafe.v), not an artefact
   of a totalised [nth].

   Go's [int] is 64 bits wide: rank, file, sq and the counter accumulate with [wrap64] written
   out.  The parser index [fp.ix] and [fp.l = len(fen)] are [nat]: the index only ever grows by
   one per step from 0 and stops at most one past [len(fen)], and a Go slice is shorter than
   2^63 - 1 bytes, so no wrap-around of the index can occur.

   The loops of the parser recurse on [fuel]; running out of fuel is the distinguished outcome
   [Diverge] (proved unreachable with the fuel [S (length s)] that [parse_fen] supplies). *)
From Coq Require Import NArith ZArith List Bool.
From Chess3 Require Import Base.Bits Base.Word Model.Types Model.BoardDef Model.Board.
Import ListNotations.
Open Scope N_scope.

(* error classes: which check of fen.go fired *)
Inductive ferr :=
| EPremature     (* "premature end of fen" *)
| EInvalidPos    (* "invalid position" *)
| EInvalidChar   (* "invalid char %c" *)
| EStm           (* "w or b expected, got %c" *)
| ECastle        (* "expecting K, Q, k, q or - got %c" *)
| ESquare        (* "square expected got %c%c" *)
| EDigit         (* "digit expected got %c" *)
| EFiftyRange    (* "fifty move count out of range %d" *)
| EFullRange.    (* "full move count out of range %d" *)

Inductive outcome (A : Type) :=
| Ok (a : A)
| Err (e : ferr)
| Panic          (* run-time panic: index out of range *)
| Diverge.       (* a model loop ran out of fuel *)
Arguments Ok {A} a.
Arguments Err {A} e.
Arguments Panic {A}.
Arguments Diverge {A}.

Definition bind {A B} (x : outcome A) (f : A -> outcome B) : outcome B :=
  match x with Ok a => f a | Err e => Err e | Panic => Panic | Diverge => Diverge end.

(* bytes *)
Definition c_space : N := 32.   Definition c_minus : N := 45.   Definition c_slash : N := 47.
Definition c_0 : N := 48.       Definition c_1 : N := 49.       Definition c_8 : N := 56.
Definition c_9 : N := 57.       Definition c_a : N := 97.       Definition c_h : N := 104.
Definition c_z : N := 122.      Definition c_w : N := 119.      Definition c_b : N := 98.
Definition c_K : N := 75.       Definition c_Q : N := 81.       Definition c_k : N := 107.
Definition c_q : N := 113.

(* var cToP = map[byte]Piece{...}; a missing key yields the zero value NoPiece *)
Definition c_to_p (c : N) : N :=
  if (c =? 112) || (c =? 80) then Pawn
  else if (c =? 114) || (c =? 82) then Rook
  else if (c =? 110) || (c =? 78) then Knight
  else if (c =? 98) || (c =? 66) then Bishop
  else if (c =? 113) || (c =? 81) then Queen
  else if (c =? 107) || (c =? 75) then King
  else NoPiece.

(* case 'p', 'r', 'n', 'b', 'q', 'k', 'P', 'R', 'N', 'B', 'Q', 'K' *)
Definition is_piece_char (c : N) : bool :=
  (c =? 112) || (c =? 114) || (c =? 110) || (c =? 98) || (c =? 113) || (c =? 107) ||
  (c =? 80) || (c =? 82) || (c =? 78) || (c =? 66) || (c =? 81) || (c =? 75).

(* case '1', ..., '8' *)
Definition is_digit18 (c : N) : bool := (c_1 <=? c) && (c <=? c_8).

(* a[i] = x on a Go array of static size n *)
Definition arr_set {A} (n : N) (l : list A) (i : N) (x : A) : option (list A) :=
  if i <? n then Some (updN l i x) else None.

(* Board{} *)
Definition empty_board : board :=
  mkBoard (repeat 0 64) (repeat 0 7) [0; 0] [] 0%Z White 0 0 0%Z.

(* the three array writes of the piece case *)
Definition place (b : board) (c : N) (sq : N) : outcome board :=
  let bb := bit sq in
  let color := if (c_a <? c) && (c <? c_z) then Black else White in
  let piece := c_to_p c in
  match arr_set 7 (pcs b) piece (bor (pieces b piece) bb) with
  | None => Panic
  | Some pcs' =>
    match arr_set 2 (cols b) (cix color) (bor (colors b color) bb) with
    | None => Panic
    | Some cols' =>
      match arr_set 64 (sq2p b) sq piece with
      | None => Panic
      | Some sq2p' => Ok (set_sq2p (set_cols (set_pcs b pcs') cols') sq2p')
      end
    end
  end.

(* func (fp *fenParser) position() error; returns the new index and the board *)
Fixpoint position_loop (fuel : nat) (s : list N) (l ix : nat) (rank file : Z) (b : board)
  : outcome (nat * board) :=
  match fuel with
  | O => Diverge
  | S fuel' =>
    if (ix <? l)%nat then
      let sq := wrap64 (wrap64 (8 * rank) + file) in
      match nth_error s ix with
      | None => Panic
      | Some c =>
        if is_digit18 c then
          position_loop fuel' s l (S ix) rank (wrap64 (file + Z.of_N (c - c_0))) b
        else if c =? c_slash then
          let rank' := wrap64 (rank - 1) in
          if (rank' <? 0)%Z then Err EInvalidPos
          else position_loop fuel' s l (S ix) rank' 0%Z b
        else if is_piece_char c then
          if (sq <? 0)%Z || (63 <? sq)%Z then Err EInvalidPos
          else
            match place b c (Z.to_N sq) with
            | Ok b' => position_loop fuel' s l (S ix) rank (wrap64 (file + 1)) b'
            | Err e => Err e
            | Panic => Panic
            | Diverge => Diverge
            end
        else if c =? c_space then Ok (ix, b)
        else Err EInvalidChar
      end
    else Ok (S ix, b)          (* fp.ix++ after the loop *)
  end.

(* func (fp *fenParser) stm() error *)
Definition stm_field (s : list N) (ix : nat) (b : board) : outcome (nat * board) :=
  match nth_error s ix with
  | None => Panic
  | Some c =>
    if c =? c_w then Ok (S ix, set_stm b White)
    else if c =? c_b then Ok (S ix, set_stm b Black)
    else Err EStm
  end.

(* func (fp *fenParser) cRights() error *)
Fixpoint crights_loop (fuel : nat) (s : list N) (l ix : nat) (b : board) : outcome (nat * board) :=
  match fuel with
  | O => Diverge
  | S fuel' =>
    if (ix <? l)%nat then
      match nth_error s ix with
      | None => Panic
      | Some c =>
        if c =? c_space then Ok (ix, b)
        else if c =? c_K then crights_loop fuel' s l (S ix) (set_castles b (bor (castles b) ShortWhite))
        else if c =? c_Q then crights_loop fuel' s l (S ix) (set_castles b (bor (castles b) LongWhite))
        else if c =? c_k then crights_loop fuel' s l (S ix) (set_castles b (bor (castles b) ShortBlack))
        else if c =? c_q then crights_loop fuel' s l (S ix) (set_castles b (bor (castles b) LongBlack))
        else if c =? c_minus then crights_loop fuel' s l (S ix) b
        else Err ECastle
      end
    else Ok (ix, b)
  end.

(* func (fp *fenParser) enPassant() error.  The second byte is read on every path that passes the
   length test (the condition or the error message reads it). *)
Definition ep_field (s : list N) (l ix : nat) (b : board) : outcome (nat * board) :=
  match nth_error s ix with
  | None => Panic
  | Some c0 =>
    if negb (c0 =? c_minus) then
      if (l <=? ix + 1)%nat then Err EPremature
      else
        match nth_error s (ix + 1) with
        | None => Panic
        | Some c1 =>
          if (c0 <? c_a) || (c_h <? c0) || (c1 <? c_1) || (c_8 <? c1) then Err ESquare
          else
            let file := c0 - c_a in
            let rank := c1 - c_1 in
            Ok (S (S ix), set_ep b (rank * 8 + file))
        end
    else Ok (S ix, b)
  end.

(* func (fp *fenParser) counter() (int, error) *)
Fixpoint counter_loop (fuel : nat) (s : list N) (l ix : nat) (cnt : Z) : outcome (nat * Z) :=
  match fuel with
  | O => Diverge
  | S fuel' =>
    if (ix <? l)%nat then
      match nth_error s ix with
      | None => Panic
      | Some c =>
        if c =? c_space then Ok (ix, cnt)
        else if (c <? c_0) || (c_9 <? c) then Err EDigit
        else counter_loop fuel' s l (S ix) (wrap64 (wrap64 (cnt * 10) + Z.of_N (c - c_0)))
      end
    else Ok (ix, cnt)
  end.

Definition fifty_field (fuel : nat) (s : list N) (l ix : nat) (b : board) : outcome (nat * board) :=
  bind (counter_loop fuel s l ix 0%Z) (fun '(ix', cnt) =>
    if (cnt <? 0)%Z || (100 <? cnt)%Z then Err EFiftyRange
    else Ok (ix', set_fifty b (wrap16 cnt))).

Definition full_field (fuel : nat) (s : list N) (l ix : nat) (b : board) : outcome (nat * board) :=
  bind (counter_loop fuel s l ix 0%Z) (fun '(ix', cnt) =>
    if (cnt <? 1)%Z then Err EFullRange
    else Ok (ix', set_full b cnt)).

(* seq: between two field parsers
     for fp.ix < fp.l && fp.fen[fp.ix] == ' ' { fp.ix++ }
     if fp.ix >= fp.l { return errors.New("premature end of fen") } *)
Fixpoint skip_spaces (fuel : nat) (s : list N) (l ix : nat) : outcome nat :=
  match fuel with
  | O => Diverge
  | S fuel' =>
    if (ix <? l)%nat then
      match nth_error s ix with
      | None => Panic
      | Some c => if c =? c_space then skip_spaces fuel' s l (S ix) else Ok ix
      end
    else Ok ix
  end.

Definition sep (fuel : nat) (s : list N) (l ix : nat) : outcome nat :=
  bind (skip_spaces fuel s l ix) (fun ix' => if (l <=? ix')%nat then Err EPremature else Ok ix').

(* ParseFEN: *b = Board{}; seq(position, stm, cRights, enPassant, fifty, fullMoves) *)
Definition parse_fen (s : list N) : outcome board :=
  let l := length s in
  let fuel := S l in
  bind (position_loop fuel s l 0 7%Z 0%Z empty_board) (fun '(i1, b1) =>
  bind (sep fuel s l i1) (fun i1' =>
  bind (stm_field s i1' b1) (fun '(i2, b2) =>
  bind (sep fuel s l i2) (fun i2' =>
  bind (crights_loop fuel s l i2' b2) (fun '(i3, b3) =>
  bind (sep fuel s l i3) (fun i3' =>
  bind (ep_field s l i3' b3) (fun '(i4, b4) =>
  bind (sep fuel s l i4) (fun i4' =>
  bind (fifty_field fuel s l i4' b4) (fun '(i5, b5) =>
  bind (sep fuel s l i5) (fun i5' =>
  bind (full_field fuel s l i5' b5) (fun '(_, b6) => Ok b6))))))))))).

(* FromFEN: ParseFEN then ResetHash *)
Definition from_fen (z : zobrist) (s : list N) : outcome board :=
  bind (parse_fen s) (fun b => Ok (reset_hash z b)).

(* ------------------------------------------------------------------------------------------ *)
(* Board.FEN() *)

(* strconv.Itoa / fmt "%d" *)
Fixpoint dec_digits (fuel : nat) (n : N) (acc : list N) : list N :=
  match fuel with
  | O => acc
  | S f => let acc' := (c_0 + n mod 10) :: acc in
           if n / 10 =? 0 then acc' else dec_digits f (n / 10) acc'
  end.
Definition itoa_N (n : N) : list N := dec_digits (S (N.size_nat n)) n [].
Definition itoa (z : Z) : list N :=
  match z with
  | Zneg p => c_minus :: itoa_N (Npos p)
  | _ => itoa_N (Z.to_N z)
  end.

(* s := " PNBRQK pnbrqk"; s[int(7*c)+int(p)] *)
Definition piece_letters : list N := [32; 80; 78; 66; 82; 81; 75; 32; 112; 110; 98; 114; 113; 107].
Definition piece_char (c : color) (p : N) : N := nthN piece_letters (7 * cix c + p) 0.

Definition flush_count (count : Z) : list N := if (0 <? count)%Z then itoa count else [].

(* the inner loop over the files of one rank *)
Fixpoint print_squares (b : board) (sqs : list N) (count : Z) : list N :=
  match sqs with
  | [] => flush_count count
  | sq :: r =>
    let p := piece_at b sq in
    if negb (p =? NoPiece) then
      let c := if negb (band (colors b White) (bit sq) =? 0) then White else Black in
      flush_count count ++ [piece_char c p] ++ print_squares b r 0%Z
    else print_squares b r (count + 1)%Z
  end.

Definition rank_squares (r : N) : list N := map (fun f => r * 8 + f) [0; 1; 2; 3; 4; 5; 6; 7].

Definition print_placement (b : board) : list N :=
  concat (map (fun r => print_squares b (rank_squares r) 0%Z ++ (if r =? 0 then [] else [c_slash]))
              [7; 6; 5; 4; 3; 2; 1; 0]).

(* Square.String(): fmt.Sprintf("%c%c", s%8+'a', s/8+'1') *)
Definition square_string (s : N) : list N := [s mod 8 + c_a; s / 8 + c_1].

Definition print_castles (c : N) : list N :=
  (if negb (band c ShortWhite =? 0) then [c_K] else []) ++
  (if negb (band c LongWhite =? 0) then [c_Q] else []) ++
  (if negb (band c ShortBlack =? 0) then [c_k] else []) ++
  (if negb (band c LongBlack =? 0) then [c_q] else []) ++
  (if c =? 0 then [c_minus] else []).

Definition print_fen (b : board) : list N :=
  print_placement b ++
  [c_space; match stm b with White => c_w | Black => c_b end; c_space] ++
  print_castles (castles b) ++ [c_space] ++
  (if ep b =? 0 then [c_minus] else square_string (ep b)) ++ [c_space] ++
  itoa (fifty b) ++ [c_space] ++ itoa (full b).

(* ------------------------------------------------------------------------------------------ *)
(* Board.InvalidPieceCount *)

Definition invalid_side (b : board) (c : color) : bool :=
  let own := colors b c in
  if negb (is_pow2 (band own (pieces b King))) then true
  else
    let cnt (p : N) : Z := Z.of_N (popcount (band own (pieces b p))) in
    let knights := cnt Knight in
    let bishops := cnt Bishop in
    let rooks := cnt Rook in
    let queens := cnt Queen in
    let pawns := cnt Pawn in
    let pknights := (Z.max 2 knights - 2)%Z in
    let pbishops := (Z.max 2 bishops - 2)%Z in
    let prooks := (Z.max 2 rooks - 2)%Z in
    let pqueens := (Z.max 1 queens - 1)%Z in
    let promoted := (pknights + pbishops + prooks + pqueens)%Z in
    let pawns := (pawns + promoted)%Z in
    ((8 <? pawns) || (10 <? knights + pawns - pknights) || (10 <? bishops + pawns - pbishops) ||
     (10 <? rooks + pawns - prooks) || (9 <? queens + pawns - pqueens))%Z.

Definition invalid_piece_count (b : board) : bool := invalid_side b White || invalid_side b Black.

(* ------------------------------------------------------------------------------------------ *)
(* epd.Parse(line, b, res): returns the board and 2 * result on success *)

Definition epd_suffix (r : N) : list N :=   (* "; 1.0" "; 0.5" "; 0.0" *)
  [59; 32] ++ (if r =? 2 then [49; 46; 48] else if r =? 1 then [48; 46; 53] else [48; 46; 48]).

Definition list_eqb (a b : list N) : bool :=
  (length a =? length b)%nat && forallb (fun p => fst p =? snd p) (combine a b).

Inductive epd_result := EpdOk (b : board) (res2 : N) | EpdInvalid | EpdPanic.

Definition epd_parse (line : list N) : epd_result :=
  if (length line <? 5)%nat then EpdInvalid
  else
    let split := (length line - 5)%nat in
    match parse_fen (firstn split line) with
    | Ok b =>
      let tail := skipn split line in
      if list_eqb tail (epd_suffix 2) then EpdOk b 2
      else if list_eqb tail (epd_suffix 1) then EpdOk b 1
      else if list_eqb tail (epd_suffix 0) then EpdOk b 0
      else EpdInvalid
    | Err _ => EpdInvalid
    | _ => EpdPanic
    end.

(* ------------------------------------------------------------------------------------------ *)
(* uci handlePosition, up to the installation of the board ([moves] are applied afterwards by
   applyMoves, which is the subject of C02/C05).  [args] are the tokens after "position", as
   strings.Fields produced them.  Returns the driver's board after the command and what was
   written to the error stream: 0 nothing, 1 "not enough arguments", 2 "invalid fen",
   3 "invalid piece counts". *)

Definition tok_startpos : list N := [115; 116; 97; 114; 116; 112; 111; 115].
Definition tok_fen : list N := [102; 101; 110].
(* chess.StartPosFEN *)
Definition startpos_fen : list N :=
  [114;110;98;113;107;98;110;114;47;112;112;112;112;112;112;112;112;47;56;47;56;47;56;47;56;47;
   80;80;80;80;80;80;80;80;47;82;78;66;81;75;66;78;82;32;119;32;75;81;107;113;32;45;32;48;32;49].

(* strings.Join(args, " ") *)
Fixpoint join_sp (ts : list (list N)) : list N :=
  match ts with
  | [] => []
  | [t] => t
  | t :: r => t ++ c_space :: join_sp r
  end.

Definition handle_position (z : zobrist) (d : board) (args : list (list N)) : outcome (board * N) :=
  match args with
  | [] => Ok (d, 0)
  | a0 :: rest =>
    if list_eqb a0 tok_startpos then
      (* board.StartPos() = Must(FromFEN(StartPosFEN)): Must panics on an error *)
      match from_fen z startpos_fen with
      | Ok b => Ok (b, 0)
      | Diverge => Diverge
      | _ => Panic
      end
    else if list_eqb a0 tok_fen then
      if (length args <? 7)%nat then Ok (d, 1)
      else
        let fen := join_sp (firstn 6 rest) in
        match from_fen z fen with
        | Ok b => if invalid_piece_count b then Ok (d, 3) else Ok (b, 0)
        | Err _ => Ok (d, 2)
        | Panic => Panic
        | Diverge => Diverge
        end
    else Ok (d, 0)
  end.
