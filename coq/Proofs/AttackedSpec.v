(* Board.IsAttacked against the rules: some square of the target set is attacked by the given side
   (Spec/Chess.v [attacked_by]) iff the engine's reverse look-ups say so.

   Ingredients: the pawn shift formula distributes over unions and equals the geometric pawn attack
   for one square; leaper attacks are symmetric (finite check); slider attacks are symmetric for
   EVERY occupancy (a ray walk hits t iff the squares strictly before t on that ray are empty, and the
   squares between a and t are the same seen from either end: finite check on the paths). *)
From Coq Require Import NArith ZArith List Bool Lia.
From Chess3 Require Import Base.Bits Model.Types Spec.Geometry Model.Att Model.BoardDef Model.Board
  Model.Movegen Spec.Chess Spec.Rep Proofs.GenBase Proofs.IplBase.
Import ListNotations.
Open Scope N_scope.

(* ------------------------------------------------------------------------------------------ *)
(* unions *)

Definition lor_over (f : N -> N) (l : list N) : N := fold_right (fun t acc => N.lor (f t) acc) 0 l.

Lemma lor_over_tb f l s : N.testbit (lor_over f l) s = existsb (fun t => N.testbit (f t) s) l.
Proof.
  induction l as [|t r IH]; cbn [lor_over fold_right existsb]; [apply N.bits_0|].
  fold (lor_over f r). rewrite N.lor_spec, IH. reflexivity.
Qed.

Lemma set_of_bits_of x : set_of (bits_of x) = x.
Proof.
  apply bits_ext. intros i. rewrite set_of_tb.
  destruct (N.testbit x i) eqn:E.
  - apply existsb_exists. exists i. split; [apply bits_of_spec; exact E|apply N.eqb_refl].
  - destruct (existsb _ _) eqn:X; [|reflexivity].
    apply existsb_exists in X. destruct X as [s [Hin Hs]]. apply N.eqb_eq in Hs. subst s.
    apply bits_of_spec in Hin. congruence.
Qed.

Lemma existsb_ext_in {A} (f g : A -> bool) l : (forall x, In x l -> f x = g x) -> existsb f l = existsb g l.
Proof.
  induction l as [|a l IH]; intros H; cbn [existsb]; [reflexivity|].
  rewrite (H a) by (left; reflexivity). rewrite IH; [reflexivity|]. intros x Hx. apply H. right. exact Hx.
Qed.

(* ------------------------------------------------------------------------------------------ *)
(* pawns: attacks.PawnCaptureMoves distributes over unions *)

Lemma bandn_lor x y m : bandn (N.lor x y) m = N.lor (bandn x m) (bandn y m).
Proof. apply bits_ext. intros i. rewrite N.lor_spec, !bandn_tb, N.lor_spec. destruct (N.testbit x i), (N.testbit y i), (N.testbit m i); reflexivity. Qed.
Lemma shl_lor x y k : shl (N.lor x y) k = N.lor (shl x k) (shl y k).
Proof. apply bits_ext. intros i. rewrite N.lor_spec, !shl_tb, N.lor_spec. destruct (i <? 64), (k <=? i), (N.testbit x (i - k)), (N.testbit y (i - k)); reflexivity. Qed.
Lemma shr_lor x y k : shr (N.lor x y) k = N.lor (shr x k) (shr y k).
Proof. apply bits_ext. intros i. rewrite N.lor_spec, !shr_tb, N.lor_spec. reflexivity. Qed.

Lemma pcm_lor x y c : pawn_capture_moves (N.lor x y) c = N.lor (pawn_capture_moves x c) (pawn_capture_moves y c).
Proof.
  unfold pawn_capture_moves, bor. repeat (rewrite ?bandn_lor, ?shl_lor, ?shr_lor).
  apply bits_ext. intros i. rewrite !N.lor_spec.
  repeat match goal with |- context [N.testbit ?a i] => is_var a; fail 1 | |- context [N.testbit ?a i] =>
    let v := fresh "v" in generalize (N.testbit a i); intros v end.
  repeat match goal with v : bool |- _ => destruct v end; reflexivity.
Qed.

Lemma pcm_0 c : pawn_capture_moves 0 c = 0.
Proof. destruct c; reflexivity. Qed.

Lemma pcm_set_of l c : pawn_capture_moves (set_of l) c = lor_over (fun t => pawn_capture_moves (bit t) c) l.
Proof.
  induction l as [|t r IH]; cbn [set_of lor_over fold_right]; [apply pcm_0|].
  fold (set_of r). fold (lor_over (fun t => pawn_capture_moves (bit t) c) r). rewrite pcm_lor, IH. reflexivity.
Qed.

Lemma pcm_bit_all :
  forallb (fun c => forallb (fun t => pawn_capture_moves (bit t) c =? pawn_attacks c t) squares64) [White; Black] = true.
Proof. vm_compute. reflexivity. Qed.

Lemma pcm_bit c t : t < 64 -> pawn_capture_moves (bit t) c = pawn_attacks c t.
Proof.
  intros Ht. pose proof pcm_bit_all as H. rewrite forallb_forall in H.
  specialize (H c ltac:(destruct c; cbn; auto)). apply N.eqb_eq. apply (all64 _ H). exact Ht.
Qed.

(* the engine's pawn-attack set of a set of pawns, square by square *)
Lemma pcm_tb x c s : w64p x ->
  N.testbit (pawn_capture_moves x c) s = existsb (fun t => N.testbit (pawn_attacks c t) s) (bits_of x).
Proof.
  intros Hx. rewrite <- (set_of_bits_of x) at 1. rewrite pcm_set_of, lor_over_tb.
  apply existsb_ext_in. intros t Ht. rewrite pcm_bit; [reflexivity|]. apply (bits_of_lt x); assumption.
Qed.

(* ------------------------------------------------------------------------------------------ *)
(* leapers are symmetric *)

Lemma leaper_sym_all :
  forallb (fun a => forallb (fun t =>
    Bool.eqb (N.testbit (king_attacks a) t) (N.testbit (king_attacks t) a) &&
    Bool.eqb (N.testbit (knight_attacks a) t) (N.testbit (knight_attacks t) a)) squares64) squares64 = true.
Proof. vm_compute. reflexivity. Qed.

Lemma king_sym a t : a < 64 -> t < 64 -> N.testbit (king_attacks a) t = N.testbit (king_attacks t) a.
Proof.
  intros Ha Ht. pose proof (all64_2 _ leaper_sym_all a t Ha Ht) as H. cbv beta in H.
  apply andb_prop in H. destruct H as [H _]. apply eqb_prop. exact H.
Qed.

Lemma knight_sym a t : a < 64 -> t < 64 -> N.testbit (knight_attacks a) t = N.testbit (knight_attacks t) a.
Proof.
  intros Ha Ht. pose proof (all64_2 _ leaper_sym_all a t Ha Ht) as H. cbv beta in H.
  apply andb_prop in H. destruct H as [_ H]. apply eqb_prop. exact H.
Qed.

Lemma leaper_lt_all :
  forallb (fun a => (king_attacks a <? two64) && (knight_attacks a <? two64)) squares64 = true.
Proof. vm_compute. reflexivity. Qed.

(* ------------------------------------------------------------------------------------------ *)
(* sliders: a walk hits t iff t is on the ray and everything before it is empty *)

Fixpoint path (l : list N) (t : N) : option (list N) :=
  match l with
  | [] => None
  | s :: r => if s =? t then Some [] else option_map (cons s) (path r t)
  end.

Definition clear_path (occ : N) (o : option (list N)) : bool :=
  match o with Some pre => forallb (fun s => negb (N.testbit occ s)) pre | None => false end.

Lemma walk_tb l occ t : N.testbit (walk l occ) t = clear_path occ (path l t).
Proof.
  induction l as [|s r IH]; cbn [walk path]; [apply N.bits_0|].
  rewrite N.lor_spec, bit_testbit.
  destruct (s =? t); cbn [orb]; [reflexivity|].
  destruct (N.testbit occ s) eqn:E.
  - rewrite N.bits_0. destruct (path r t); cbn [option_map clear_path forallb]; [rewrite E|]; reflexivity.
  - rewrite IH. destruct (path r t); cbn [option_map clear_path forallb]; [rewrite E|]; reflexivity.
Qed.

Lemma forallb_rev {A} (f : A -> bool) l : forallb f (rev l) = forallb f l.
Proof.
  induction l as [|a l IH]; cbn [rev forallb]; [reflexivity|].
  rewrite forallb_app, IH. cbn [forallb]. rewrite andb_true_r. apply andb_comm.
Qed.

Lemma clear_path_rev occ o : clear_path occ (option_map (@rev N) o) = clear_path occ o.
Proof. destruct o; cbn [option_map clear_path]; [apply forallb_rev|reflexivity]. Qed.

Fixpoint leqb (a b : list N) : bool :=
  match a, b with
  | [], [] => true
  | x :: r, y :: s => (x =? y) && leqb r s
  | _, _ => false
  end.
Lemma leqb_eq a : forall b, leqb a b = true -> a = b.
Proof.
  induction a as [|x r IH]; intros [|y s] H; cbn [leqb] in H; try discriminate; [reflexivity|].
  apply andb_prop in H. destruct H as [H1 H2]. apply N.eqb_eq in H1. subst y. f_equal. apply IH. exact H2.
Qed.
Definition oleqb (a b : option (list N)) : bool :=
  match a, b with Some x, Some y => leqb x y | None, None => true | _, _ => false end.
Lemma oleqb_eq a b : oleqb a b = true -> a = b.
Proof. destruct a, b; cbn [oleqb]; intros H; try discriminate; [f_equal; apply leqb_eq; exact H|reflexivity]. Qed.

(* the squares between a and t are the same seen from either end *)
Definition path_sym_check (d d' : Z * Z) (a t : N) : bool :=
  oleqb (path (ray a d) t) (option_map (@rev N) (path (ray t d') a)).

Lemma path_sym_all :
  forallb (fun dd : (Z * Z) * (Z * Z) => forallb (fun a => forallb (path_sym_check (fst dd) (snd dd) a) squares64) squares64)
    [((0, 1), (0, -1)); ((0, -1), (0, 1)); ((1, 0), (-1, 0)); ((-1, 0), (1, 0));
     ((1, 1), (-1, -1)); ((-1, -1), (1, 1)); ((-1, 1), (1, -1)); ((1, -1), (-1, 1))]%Z = true.
Proof. vm_compute. reflexivity. Qed.

Lemma walk_sym d d' occ a t :
  In (d, d') [((0, 1), (0, -1)); ((0, -1), (0, 1)); ((1, 0), (-1, 0)); ((-1, 0), (1, 0));
              ((1, 1), (-1, -1)); ((-1, -1), (1, 1)); ((-1, 1), (1, -1)); ((1, -1), (-1, 1))]%Z ->
  a < 64 -> t < 64 -> N.testbit (walk (ray a d) occ) t = N.testbit (walk (ray t d') occ) a.
Proof.
  intros Hin Ha Ht. pose proof path_sym_all as H. rewrite forallb_forall in H.
  specialize (H _ Hin). cbn [fst snd] in H.
  pose proof (all64_2 _ H a t Ha Ht) as E. unfold path_sym_check in E. apply oleqb_eq in E.
  rewrite !walk_tb, E. apply clear_path_rev.
Qed.

Lemma rook_sym occ a t : a < 64 -> t < 64 -> N.testbit (rook_attacks a occ) t = N.testbit (rook_attacks t occ) a.
Proof.
  intros Ha Ht. unfold rook_attacks, slide, rook_dirs. cbn [fold_right]. rewrite !N.lor_spec, !N.bits_0.
  rewrite (walk_sym (0, 1)%Z (0, -1)%Z occ a t), (walk_sym (0, -1)%Z (0, 1)%Z occ a t),
          (walk_sym (1, 0)%Z (-1, 0)%Z occ a t), (walk_sym (-1, 0)%Z (1, 0)%Z occ a t); try assumption;
    try (cbn [In]; tauto).
  destruct (N.testbit (walk (ray t (0, 1)%Z) occ) a), (N.testbit (walk (ray t (0, -1)%Z) occ) a),
           (N.testbit (walk (ray t (1, 0)%Z) occ) a), (N.testbit (walk (ray t (-1, 0)%Z) occ) a); reflexivity.
Qed.

Lemma bishop_sym occ a t : a < 64 -> t < 64 -> N.testbit (bishop_attacks a occ) t = N.testbit (bishop_attacks t occ) a.
Proof.
  intros Ha Ht. unfold bishop_attacks, slide, bishop_dirs. cbn [fold_right]. rewrite !N.lor_spec, !N.bits_0.
  rewrite (walk_sym (1, 1)%Z (-1, -1)%Z occ a t), (walk_sym (-1, 1)%Z (1, -1)%Z occ a t),
          (walk_sym (1, -1)%Z (-1, 1)%Z occ a t), (walk_sym (-1, -1)%Z (1, 1)%Z occ a t); try assumption;
    try (cbn [In]; tauto).
  destruct (N.testbit (walk (ray t (1, 1)%Z) occ) a), (N.testbit (walk (ray t (-1, 1)%Z) occ) a),
           (N.testbit (walk (ray t (1, -1)%Z) occ) a), (N.testbit (walk (ray t (-1, -1)%Z) occ) a); reflexivity.
Qed.

(* ------------------------------------------------------------------------------------------ *)
(* one target square *)

Lemma nz3 X P O : negb (band (band X P) O =? 0) = true <->
  exists t, N.testbit X t = true /\ N.testbit P t = true /\ N.testbit O t = true.
Proof.
  rewrite negb_true_iff, eqb0_false_iff. split; intros [t H]; exists t.
  - rewrite !band_tb in H. apply andb_prop in H. destruct H as [H H3]. apply andb_prop in H. tauto.
  - destruct H as [H1 [H2 H3]]. rewrite !band_tb, H1, H2, H3. reflexivity.
Qed.

Section Attacked.
  Variable b : board.
  Hypothesis HR : Rep b.
  Variable c : color.

  Let occ := occupancy b.
  Let other := colors b c.

  (* what the spec's existential says about one attacker square *)
  Lemma attacker_abs s t : t < 64 ->
    match who (abs b) t with
    | Some (c', k) => color_eqb c c' && mem (attacks_from c k t (occ_of (abs b))) s
    | None => false
    end = N.testbit other t && N.testbit (attacks_from c (piece_at b t) t occ) s.
  Proof.
    intros Ht. rewrite (occ_of_abs b HR). fold occ. unfold other.
    rewrite <- (owned_by_abs b HR t c Ht), <- (kind_at_abs b t Ht). unfold owned_by, kind_at, mem.
    destruct (who (abs b) t) as [[c' k]|]; reflexivity.
  Qed.

  Lemma attacked_by_iff s :
    attacked_by (abs b) c s = true <->
    exists t, t < 64 /\ N.testbit other t = true /\ N.testbit (attacks_from c (piece_at b t) t occ) s = true.
  Proof.
    unfold attacked_by. rewrite existsb64. split; intros [t [Ht H]]; exists t; (split; [exact Ht|]).
    - rewrite (attacker_abs s t Ht) in H. apply andb_prop in H. exact H.
    - rewrite (attacker_abs s t Ht). destruct H as [H1 H2]. rewrite H1, H2. reflexivity.
  Qed.

  Definition engine_sq (s : N) : bool :=
    N.testbit (pawn_capture_moves (band (pieces b Pawn) other) c) s ||
    (negb (band (band (king_moves s) (pieces b King)) other =? 0) ||
     negb (band (band (knight_moves s) (pieces b Knight)) other =? 0) ||
     negb (band (band (bishop_moves s occ) (bor (pieces b Queen) (pieces b Bishop))) other =? 0) ||
     negb (band (band (rook_moves s occ) (bor (pieces b Rook) (pieces b Queen))) other =? 0)).

  Lemma other_lt t : N.testbit other t = true -> t < 64.
  Proof. apply colors_tb_lt. exact HR. Qed.

  Lemma kind_tb t p : t < 64 -> 1 <= p <= 6 -> N.testbit (pieces b p) t = true -> piece_at b t = p.
  Proof. intros Ht Hp H. rewrite (rep_pieces_tb b HR t p Ht Hp) in H. apply N.eqb_eq. exact H. Qed.

  Lemma engine_sq_spec s : s < 64 -> engine_sq s = attacked_by (abs b) c s.
  Proof.
    intros Hs. apply eq_true_iff_eq. rewrite attacked_by_iff. unfold engine_sq.
    rewrite !orb_true_iff, !nz3.
    rewrite pcm_tb.
    2:{ unfold w64p. apply testbit_lt_two64. intros i Hi. rewrite band_tb. unfold other.
        rewrite (w64p_high _ _ (rep_colors_w64 b HR c) Hi). apply andb_false_r. }
    rewrite existsb_exists.
    unfold king_moves, knight_moves, bishop_moves, rook_moves.
    split.
    - intros [[t [Hin Ht]]|[[[[t [H1 [H2 H3]]]|[t [H1 [H2 H3]]]]|[t [H1 [H2 H3]]]]|[t [H1 [H2 H3]]]]].
      + apply bits_of_spec in Hin. rewrite band_tb in Hin. apply andb_prop in Hin. destruct Hin as [Hp Ho].
        pose proof (other_lt t Ho) as L. exists t. repeat split; try assumption.
        rewrite (kind_tb t Pawn L ltac:(unfold Pawn; lia) Hp). exact Ht.
      + pose proof (other_lt t H3) as L. exists t. repeat split; try assumption.
        rewrite (kind_tb t King L ltac:(unfold King; lia) H2).
        change (attacks_from c King t occ) with (king_attacks t). rewrite <- (king_sym s t Hs L). exact H1.
      + pose proof (other_lt t H3) as L. exists t. repeat split; try assumption.
        rewrite (kind_tb t Knight L ltac:(unfold Knight; lia) H2).
        change (attacks_from c Knight t occ) with (knight_attacks t). rewrite <- (knight_sym s t Hs L). exact H1.
      + pose proof (other_lt t H3) as L. exists t. repeat split; try assumption.
        rewrite bor_tb in H2. apply orb_prop in H2. destruct H2 as [H2|H2].
        * rewrite (kind_tb t Queen L ltac:(unfold Queen; lia) H2).
          change (attacks_from c Queen t occ) with (N.lor (rook_attacks t occ) (bishop_attacks t occ)).
          rewrite N.lor_spec, <- (bishop_sym occ s t Hs L), H1. apply orb_true_r.
        * rewrite (kind_tb t Bishop L ltac:(unfold Bishop; lia) H2).
          change (attacks_from c Bishop t occ) with (bishop_attacks t occ). rewrite <- (bishop_sym occ s t Hs L). exact H1.
      + pose proof (other_lt t H3) as L. exists t. repeat split; try assumption.
        rewrite bor_tb in H2. apply orb_prop in H2. destruct H2 as [H2|H2].
        * rewrite (kind_tb t Rook L ltac:(unfold Rook; lia) H2).
          change (attacks_from c Rook t occ) with (rook_attacks t occ). rewrite <- (rook_sym occ s t Hs L). exact H1.
        * rewrite (kind_tb t Queen L ltac:(unfold Queen; lia) H2).
          change (attacks_from c Queen t occ) with (N.lor (rook_attacks t occ) (bishop_attacks t occ)).
          rewrite N.lor_spec, <- (rook_sym occ s t Hs L), H1. reflexivity.
    - intros [t [L [Ho Ha]]].
      pose proof (rep_piece_le b HR t L) as Hle.
      pose proof (own_piece_nonzero b HR c t Ho) as Hnz.
      assert (K : forall p, 1 <= p <= 6 -> piece_at b t = p -> N.testbit (pieces b p) t = true).
      { intros p Hp E. rewrite (rep_pieces_tb b HR t p L Hp), E. apply N.eqb_refl. }
      assert (C : piece_at b t = Pawn \/ piece_at b t = Knight \/ piece_at b t = Bishop \/ piece_at b t = Rook \/
                  piece_at b t = Queen \/ piece_at b t = King) by (unfold Pawn, Knight, Bishop, Rook, Queen, King; lia).
      destruct C as [E|[E|[E|[E|[E|E]]]]]; rewrite E in Ha.
      + left. exists t. split; [|exact Ha]. apply bits_of_spec. rewrite band_tb, Ho, (K Pawn); [reflexivity|unfold Pawn; lia|exact E].
      + right. left. left. right. exists t.
        change (attacks_from c Knight t occ) with (knight_attacks t) in Ha.
        rewrite (knight_sym s t Hs L), Ha, Ho, (K Knight); [auto|unfold Knight; lia|exact E].
      + right. left. right. exists t.
        change (attacks_from c Bishop t occ) with (bishop_attacks t occ) in Ha.
        rewrite (bishop_sym occ s t Hs L), Ha, Ho, bor_tb, (K Bishop); [rewrite orb_true_r; auto|unfold Bishop; lia|exact E].
      + right. right. exists t.
        change (attacks_from c Rook t occ) with (rook_attacks t occ) in Ha.
        rewrite (rook_sym occ s t Hs L), Ha, Ho, bor_tb, (K Rook); [auto|unfold Rook; lia|exact E].
      + change (attacks_from c Queen t occ) with (N.lor (rook_attacks t occ) (bishop_attacks t occ)) in Ha.
        rewrite N.lor_spec in Ha. apply orb_prop in Ha. destruct Ha as [Ha|Ha].
        * right. right. exists t.
          rewrite (rook_sym occ s t Hs L), Ha, Ho, bor_tb, (K Queen); [rewrite orb_true_r; auto|unfold Queen; lia|exact E].
        * right. left. right. exists t.
          rewrite (bishop_sym occ s t Hs L), Ha, Ho, bor_tb, (K Queen); [auto|unfold Queen; lia|exact E].
      + right. left. left. left. exists t.
        change (attacks_from c King t occ) with (king_attacks t) in Ha.
        rewrite (king_sym s t Hs L), Ha, Ho, (K King); [auto|unfold King; lia|exact E].
  Qed.
End Attacked.

Lemma existsb_orb {A} (f g : A -> bool) l : existsb f l || existsb g l = existsb (fun x => f x || g x) l.
Proof.
  induction l as [|a l IH]; cbn [existsb]; [reflexivity|]. rewrite <- IH.
  destruct (f a), (g a), (existsb f l), (existsb g l); reflexivity.
Qed.

(* Board.IsAttacked(by, occupancy, target): some square of the target set is attacked by side [c] *)
Theorem is_attacked_spec : forall b c tgt, Rep b -> w64p tgt ->
  is_attacked b c (occupancy b) tgt = existsb (attacked_by (abs b) c) (bits_of tgt).
Proof.
  intros b c tgt HR Ht. unfold is_attacked. cbv zeta.
  set (PC := pawn_capture_moves (band (pieces b Pawn) (colors b c)) c).
  assert (E : negb (band PC tgt =? 0) = existsb (fun s => N.testbit PC s) (bits_of tgt)).
  { apply eq_true_iff_eq. rewrite negb_true_iff, eqb0_false_iff, existsb_exists. split.
    - intros [i Hi]. rewrite band_tb in Hi. apply andb_prop in Hi. destruct Hi as [H1 H2].
      exists i. split; [apply bits_of_spec; exact H2|exact H1].
    - intros [i [H2 H1]]. exists i. apply bits_of_spec in H2. rewrite band_tb, H1, H2. reflexivity. }
  rewrite E.
  match goal with |- (if ?x then true else ?y) = _ => transitivity (x || y); [destruct x; reflexivity|] end.
  rewrite existsb_orb. apply existsb_ext_in. intros s Hs.
  apply (engine_sq_spec b HR c s). apply (bits_of_lt tgt); assumption.
Qed.
