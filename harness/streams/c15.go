package streams

import (
	"fmt"
	"strings"

	"github.com/paulsonkoly/chess-3/board"
	. "github.com/paulsonkoly/chess-3/chess"
	"github.com/paulsonkoly/chess-3/move"
	"github.com/paulsonkoly/chess-3/transp"

	"verifharness/hx"
)

// c15: operation sequences on a transposition table.
//
//	input : size0 npool pool... nops (kind hash gen depth ply move value type)*
//	        kind 0 store, 1 probe, 2 clear, 3 resize(to `hash` bytes)+clear, 4 resize only
//	output: per probe (hit depth type value(ply) move); every mutating op is followed by a probe
//	        of all pool keys at the op's ply.
//
// m64: [w key] -> [ok ix] through the VerifMatch64 hook.
func init() {
	hx.Register(&hx.Stream{Name: "c15", Gen: genC15, Run: runC15})
	hx.Register(&hx.Stream{Name: "m64", Gen: genM64, Run: runM64})
}

func c15Probe(out *hx.Nums, t *transp.Table, h uint64, ply Depth) {
	e, ok := t.LookUp(board.Hash(h))
	if !ok {
		out.U(0, 0, 0, 0, 0)
		return
	}
	out.U(1).I(int64(e.Depth()), int64(e.Type()), int64(e.Value(ply)), int64(e.Move))
}

func runC15(a hx.Args) string {
	size0 := a.Int(0)
	np := a.Int(1)
	if np < 0 {
		np = 0
	}
	if 2+np >= a.Len() {
		return ""
	}
	pool := make([]uint64, np)
	for i := range pool {
		pool[i] = a.U64(2 + i)
	}
	nops := a.Int(2 + np)
	base := 3 + np
	t := transp.New(size0)
	out := &hx.Nums{}
	snap := func(ply Depth) {
		for _, h := range pool {
			c15Probe(out, t, h, ply)
		}
	}
	for j := 0; j < nops && base+8*j+7 < a.Len(); j++ {
		o := base + 8*j
		kind := a.I64(o)
		ply := Depth(a.I64(o + 4))
		switch kind {
		case 0:
			t.Insert(board.Hash(a.U64(o+1)), transp.Gen(a.I64(o+2)), Depth(a.I64(o+3)), ply,
				move.Move(a.I64(o+5)), Score(a.I64(o+6)), transp.Type(a.I64(o+7)))
			snap(ply)
		case 1:
			c15Probe(out, t, a.U64(o+1), ply)
		case 2:
			t.Clear()
			snap(ply)
		case 3:
			t.Resize(a.Int(o + 1))
			t.Clear()
			snap(ply)
		case 4:
			t.Resize(a.Int(o + 1))
			snap(ply)
		}
	}
	return out.String()
}

type c15op struct {
	kind               int
	hash               uint64
	gen, d, ply, m, v  int64
	typ                int64
}

// hashFor builds a hash that falls into bucket b of nb buckets with signature sig.
func hashFor(rng *hx.Rng, nb, b uint64, sig uint64) uint64 {
	lo := (b<<32 + nb - 1) / nb // smallest low word with low*nb>>32 == b
	hi := ((b+1)<<32 + nb - 1) / nb
	if hi > 1<<32 {
		hi = 1 << 32
	}
	low := lo
	if hi > lo {
		low = lo + rng.U64()%(hi-lo)
	}
	mid := rng.U64() & 0xffff
	return sig<<48 | mid<<32 | low
}

var c15Sizes = []int{1, 1, 2, 3, 4, 5, 7, 8, 16, 33, 64, 100}

func c15Value(rng *hx.Rng) int64 {
	inf, inv := int64(Inf), int64(Inv)
	switch rng.Intn(9) {
	case 0:
		return rng.Range(-300, 300)
	case 1:
		return rng.Range(inf-64-4, inf+4)
	case 2:
		return -rng.Range(inf-64-4, inf+4)
	case 3:
		return rng.Range(inf-4, inf+64+4)
	case 4:
		return -rng.Range(inf-4, inf+64+4)
	case 5:
		if rng.Bool() {
			return inv
		}
		return -inv
	case 6:
		return rng.Range(-inf, inf)
	case 7:
		return rng.Range(inf-2*64, inf-64+2) * (2*int64(rng.Intn(2)) - 1)
	default:
		return rng.Range(-3000, 3000)
	}
}

func genC15(rng *hx.Rng, n int, tier string, emit func(hx.Input)) {
	for cnt := 0; cnt < n; cnt++ {
		nb := uint64(c15Sizes[rng.Intn(len(c15Sizes))])
		switch {
		case rng.Chance(0.02):
			nb = 1000 + uint64(rng.Intn(200))
		case rng.Chance(0.001) || (tier == "thorough" && rng.Chance(0.02)):
			nb = 32768 // 1 MB (the list model pays O(buckets) per access: kept rare and short)
		}
		malformed := rng.Chance(0.06)
		// key pool: a main bucket with more signatures than lanes, the same signatures in another
		// bucket, the same (bucket, signature) under another hash, signature 0
		nsig := 3 + rng.Intn(5)
		sigs := make([]uint64, nsig)
		for i := range sigs {
			sigs[i] = 1 + rng.U64()%0xffff
			if rng.Chance(0.15) { // near misses of the lane trick: low/high bit patterns
				sigs[i] = []uint64{1, 0x8000, 0x7fff, 0xffff, 0x0100, 0x00ff, 0x8001}[rng.Intn(7)]
			}
		}
		if rng.Chance(0.5) {
			sigs[rng.Intn(nsig)] = 0
		}
		b1 := rng.U64() % nb
		b2 := rng.U64() % nb
		var pool []uint64
		for _, s := range sigs {
			pool = append(pool, hashFor(rng, nb, b1, s))
		}
		pool = append(pool, hashFor(rng, nb, b1, sigs[0]))   // same bucket + signature, other hash
		pool = append(pool, hashFor(rng, nb, b2, sigs[0]))   // other bucket (if nb > 1), same signature
		pool = append(pool, hashFor(rng, nb, b2, sigs[nsig-1]))
		if rng.Bool() {
			pool = append(pool, rng.U64())
		}
		np := len(pool)

		nops := 5 + rng.Intn(60)
		if rng.Chance(0.05) {
			nops = 200 + rng.Intn(201)
		}
		if nb > 10000 {
			nops = 5 + rng.Intn(20)
		}
		gen := []int64{0, 0, 253, 254, 255, int64(rng.Intn(256))}[rng.Intn(6)]
		wrapped, resized, keepDeeper := false, false, false
		curNb := nb
		stores := 0
		ops := make([]c15op, 0, nops)
		lastDepth := map[uint64]int64{}
		for j := 0; j < nops; j++ {
			if rng.Chance(0.12) {
				gen = (gen + 1) & 255
				if gen == 0 {
					wrapped = true
				}
			}
			h := pool[rng.Intn(np)]
			o := c15op{hash: h, gen: gen, d: int64(rng.Intn(64)), ply: int64(rng.Intn(64)), typ: int64(rng.Intn(3)), v: c15Value(rng)}
			if !rng.Chance(0.35) {
				o.m = 1 + int64(rng.U64()%0xffff)
			}
			r := rng.Intn(100)
			switch {
			case r < 62:
				o.kind = 0
				stores++
				// provoke the keep-deeper rule: shallow bound after a deep entry of the same key
				if ld, ok := lastDepth[h]; ok && rng.Chance(0.3) && ld >= 3 {
					o.d = rng.Range(max(0, ld-5), ld-1)
					o.typ = int64(rng.Intn(2))
					keepDeeper = true
				}
				lastDepth[h] = o.d
				if malformed && rng.Chance(0.2) {
					switch rng.Intn(5) {
					case 0:
						o.d = rng.Range(-128, 127)
					case 1:
						o.ply = rng.Range(-128, 127)
					case 2:
						o.typ = rng.Range(3, 255)
					case 3:
						o.v = rng.Range(-32768, 32767)
					default:
						o.gen = rng.Range(-3, 300)
					}
				}
			case r < 90:
				o.kind = 1
				if rng.Chance(0.1) {
					o.hash = rng.U64()
				}
			case r < 93:
				o.kind = 2
				lastDepth = map[uint64]int64{}
			case r < 97:
				o.kind = 3
				nnb := uint64(c15Sizes[rng.Intn(len(c15Sizes))])
				if rng.Chance(0.5) {
					nnb = nb
				}
				o.hash = nnb * 32
				curNb = nnb
				resized = true
				lastDepth = map[uint64]int64{}
				if malformed && rng.Chance(0.3) {
					o.hash = []uint64{0, 31, 33, 48, ^uint64(0) - 31}[rng.Intn(5)]
				}
			case r < 98:
				o.kind = 4
				o.hash = uint64(c15Sizes[rng.Intn(len(c15Sizes))]) * 32
				resized = true
			default:
				o.kind = 2
			}
			ops = append(ops, o)
		}
		_ = curNb
		size0 := int64(nb * 32)
		if malformed && rng.Chance(0.1) {
			size0 = []int64{0, 16, 40, -32}[rng.Intn(4)]
		}
		in := (&hx.Nums{}).I(size0).Int(np).U(pool...).Int(len(ops))
		var desc strings.Builder
		fmt.Fprintf(&desc, "New(%d) pool=%x ops:", size0, pool)
		for _, o := range ops {
			in.Int(o.kind).U(o.hash).I(o.gen, o.d, o.ply, o.m, o.v, o.typ)
			switch o.kind {
			case 0:
				fmt.Fprintf(&desc, " Insert(%#x,gen=%d,d=%d,ply=%d,m=%d,v=%d,typ=%d)", o.hash, o.gen, o.d, o.ply, o.m, o.v, o.typ)
			case 1:
				fmt.Fprintf(&desc, " LookUp(%#x).Value(%d)", o.hash, o.ply)
			case 2:
				desc.WriteString(" Clear()")
			case 3:
				fmt.Fprintf(&desc, " Resize(%d)+Clear()", int64(o.hash))
			case 4:
				fmt.Fprintf(&desc, " Resize(%d)", int64(o.hash))
			}
		}
		tags := []string{}
		switch {
		case nb == 1:
			tags = append(tags, "buckets=1")
		case nb <= 8:
			tags = append(tags, "buckets=2..8")
		case nb <= 100:
			tags = append(tags, "buckets=16..100")
		default:
			tags = append(tags, "buckets>=1000")
		}
		if nsig > 4 {
			tags = append(tags, "bucket-overflow")
		}
		if wrapped {
			tags = append(tags, "gen-wrap")
		}
		if resized {
			tags = append(tags, "resize")
		}
		if keepDeeper {
			tags = append(tags, "keep-deeper-candidate")
		}
		if malformed {
			tags = append(tags, "malformed")
		}
		if nops >= 200 {
			tags = append(tags, "long")
		}
		emit(hx.Input{In: in.String(), Desc: desc.String(), Tags: tags, NonTrivial: stores >= 3})
	}
}

func runM64(a hx.Args) string {
	ix, ok := transp.VerifMatch64(a.U64(0), uint16(a.U64(1)))
	return (&hx.Nums{}).B(ok).Int(ix).String()
}

func genM64(rng *hx.Rng, n int, tier string, emit func(hx.Input)) {
	special := []uint64{0, 1, 0x7fff, 0x8000, 0x8001, 0xffff, 0xfffe, 0x0100, 0x00ff, 0x8080}
	for cnt := 0; cnt < n; cnt++ {
		var key uint64
		if rng.Chance(0.4) {
			key = special[rng.Intn(len(special))]
		} else {
			key = rng.U64() & 0xffff
		}
		var lanes [4]uint64
		matches := 0
		for i := range lanes {
			switch rng.Intn(6) {
			case 0:
				lanes[i] = key
			case 1:
				lanes[i] = key ^ (1 << uint(rng.Intn(16))) // one bit off
			case 2:
				lanes[i] = (key + 1) & 0xffff // the borrow neighbour
			case 3:
				lanes[i] = (key ^ 0x8000)
			case 4:
				lanes[i] = special[rng.Intn(len(special))]
			default:
				lanes[i] = rng.U64() & 0xffff
			}
			if lanes[i] == key {
				matches++
			}
		}
		w := lanes[0] | lanes[1]<<16 | lanes[2]<<32 | lanes[3]<<48
		tag := fmt.Sprintf("matching-lanes=%d", matches)
		emit(hx.Input{In: (&hx.Nums{}).U(w, key).String(), Desc: fmt.Sprintf("match64(%#016x, %#04x)", w, key),
			Tags: []string{tag}, NonTrivial: true})
	}
}
