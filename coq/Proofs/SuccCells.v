(* Pointwise view of a board ([cell]: what stands on a square, read as FEN() and [abs] read it) and
   how addPiece / removePiece change it. *)
From Coq Require Import NArith ZArith List Bool Lia.
From Chess3 Require Import Base.Bits Base.Word Model.Types Model.Att Model.BoardDef Model.Board.
From Chess3 Require Import Spec.Geometry Spec.Chess Spec.Rep.
From Chess3 Require Import Proofs.SuccLists Proofs.SuccCore.
Import ListNotations.
Open Scope N_scope.

Definition wbit (b : board) (s : N) : bool := N.testbit (colors b White) s.
Definition cell (b : board) (s : N) : option (color * N) :=
  let k := piece_at b s in
  if k =? 0 then None else Some (if wbit b s then White else Black, k).

Lemma abs_at b : at_ (abs b) = map (cell b) squares64.
Proof. reflexivity. Qed.

Lemma abs_at_length b : length (at_ (abs b)) = 64%nat.
Proof. rewrite abs_at, map_length. reflexivity. Qed.

Lemma who_abs b s : s < 64 -> who (abs b) s = cell b s.
Proof. intros Hs. unfold who. rewrite abs_at. apply nthN_map_squares64. exact Hs. Qed.

(* array well-formedness, kept by every step of MakeMove *)
Definition WF (b : board) : Prop := length (sq2p b) = 64%nat /\ length (cols b) = 2%nat.

Lemma WF_rm b c p sq : WF b -> WF (rm b c p sq).
Proof.
  intros [H1 H2]. unfold rm. destruct (p =? NoPiece); [split; assumption|].
  split; cbn [sq2p cols set_sq2p set_pcs set_cols]; rewrite length_updN; assumption.
Qed.
Lemma WF_ad b c p sq : WF b -> WF (ad b c p sq).
Proof.
  intros [H1 H2]. unfold ad. destruct (p =? NoPiece); [split; assumption|].
  split; cbn [sq2p cols set_sq2p set_pcs set_cols]; rewrite length_updN; assumption.
Qed.

Lemma piece_at_rm b c p sq s : WF b -> sq < 64 ->
  piece_at (rm b c p sq) s = if p =? 0 then piece_at b s else if s =? sq then 0 else piece_at b s.
Proof.
  intros [H1 H2] Hsq. unfold rm. change NoPiece with 0. destruct (p =? 0); [reflexivity|].
  unfold piece_at. cbn [sq2p set_sq2p set_pcs set_cols]. apply nthN_updN. lia.
Qed.
Lemma piece_at_ad b c p sq s : WF b -> sq < 64 ->
  piece_at (ad b c p sq) s = if p =? 0 then piece_at b s else if s =? sq then p else piece_at b s.
Proof.
  intros [H1 H2] Hsq. unfold ad. change NoPiece with 0. destruct (p =? 0); [reflexivity|].
  unfold piece_at. cbn [sq2p set_sq2p set_pcs set_cols]. apply nthN_updN. lia.
Qed.

Lemma wbit_rm b c p sq s : WF b ->
  wbit (rm b c p sq) s = if p =? 0 then wbit b s else
                         match c with White => wbit b s && negb (sq =? s) | Black => wbit b s end.
Proof.
  intros [H1 H2]. unfold rm. change NoPiece with 0. destruct (p =? 0); [reflexivity|].
  unfold wbit, colors. cbn [cols set_sq2p set_pcs set_cols]. rewrite nthN_updN by (destruct c; cbn; lia).
  destruct c; cbn [cix N.eqb].
  - unfold bandn. rewrite N.ldiff_spec, bit_testbit. reflexivity.
  - reflexivity.
Qed.
Lemma wbit_ad b c p sq s : WF b ->
  wbit (ad b c p sq) s = if p =? 0 then wbit b s else
                         match c with White => wbit b s || (sq =? s) | Black => wbit b s end.
Proof.
  intros [H1 H2]. unfold ad. change NoPiece with 0. destruct (p =? 0); [reflexivity|].
  unfold wbit, colors. cbn [cols set_sq2p set_pcs set_cols]. rewrite nthN_updN by (destruct c; cbn; lia).
  destruct c; cbn [cix N.eqb].
  - unfold bor. rewrite N.lor_spec, bit_testbit. reflexivity.
  - reflexivity.
Qed.

(* what Rep says about one square *)
Lemma Rep_WF b : Rep b -> WF b.
Proof.
  unfold Rep, rep_ok. intros H. repeat (apply andb_true_iff in H; destruct H as [H ?]).
  split; apply Nat.eqb_eq; assumption.
Qed.

Lemma Rep_sq_ok b s : Rep b -> s < 64 -> sq_ok b s = true.
Proof.
  unfold Rep, rep_ok. intros H Hs. repeat (apply andb_true_iff in H; destruct H as [H ?]).
  match goal with H : forallb (sq_ok b) squares64 = true |- _ => exact (proj1 (forallb_squares64 _) H s Hs) end.
Qed.

Lemma Rep_empty_wbit b s : Rep b -> s < 64 -> piece_at b s = 0 -> wbit b s = false.
Proof.
  intros HR Hs Hk. pose proof (Rep_sq_ok b s HR Hs) as H. unfold sq_ok in H.
  repeat (apply andb_true_iff in H; destruct H as [H ?]).
  rewrite Hk in *. cbn in H1. unfold wbit. destruct (N.testbit (colors b White) s); [|reflexivity].
  cbn in H1. discriminate.
Qed.

Lemma Rep_piece_le b s : Rep b -> s < 64 -> piece_at b s <= 6.
Proof.
  intros HR Hs. pose proof (Rep_sq_ok b s HR Hs) as H. unfold sq_ok in H.
  repeat (apply andb_true_iff in H; destruct H as [H ?]). apply N.leb_le. exact H.
Qed.

(* colour bits of an occupied square: exactly one *)
Lemma Rep_colors b s : Rep b -> s < 64 ->
  (N.testbit (colors b White) s || N.testbit (colors b Black) s = negb (piece_at b s =? 0)) /\
  (N.testbit (colors b White) s && N.testbit (colors b Black) s = false).
Proof.
  intros HR Hs. pose proof (Rep_sq_ok b s HR Hs) as H. unfold sq_ok in H.
  repeat (apply andb_true_iff in H; destruct H as [H ?]).
  split; [apply eqb_prop; assumption|]. apply negb_true_iff. assumption.
Qed.

Lemma Rep_pieces b s p : Rep b -> s < 64 -> 1 <= p <= 6 -> N.testbit (pieces b p) s = (piece_at b s =? p).
Proof.
  intros HR Hs Hp. pose proof (Rep_sq_ok b s HR Hs) as H. unfold sq_ok in H.
  repeat (apply andb_true_iff in H; destruct H as [H ?]).
  match goal with H : forallb _ [1; 2; 3; 4; 5; 6] = true |- _ => rename H into HF end.
  rewrite forallb_forall in HF. apply eqb_prop. apply HF.
  assert (p = 1 \/ p = 2 \/ p = 3 \/ p = 4 \/ p = 5 \/ p = 6) as D by lia.
  cbn [In]. intuition.
Qed.

Lemma Rep_words b : Rep b -> (forall p, pieces b p < two64) /\ (forall c, colors b c < two64).
Proof.
  unfold Rep, rep_ok. intros H. repeat (apply andb_true_iff in H; destruct H as [H ?]).
  match goal with H : forallb _ (pcs b) = true |- _ => rename H into HP end.
  match goal with H : forallb _ (cols b) = true |- _ => rename H into HC end.
  rewrite forallb_forall in HP, HC. split.
  - intros p. unfold pieces, nthN. destruct (Nat.lt_ge_cases (N.to_nat p) (length (pcs b))) as [L|L].
    + apply N.ltb_lt. apply HP. apply nth_In. exact L.
    + rewrite nth_overflow by exact L. reflexivity.
  - intros c. unfold colors, nthN. destruct (Nat.lt_ge_cases (N.to_nat (cix c)) (length (cols b))) as [L|L].
    + apply N.ltb_lt. apply HC. apply nth_In. exact L.
    + rewrite nth_overflow by exact L. reflexivity.
Qed.

Lemma Rep_ep_lt b : Rep b -> ep b < 64.
Proof.
  unfold Rep, rep_ok. intros H. repeat (apply andb_true_iff in H; destruct H as [H ?]).
  apply N.ltb_lt. assumption.
Qed.

(* the colour standing on an occupied square, from either colour set *)
Lemma Rep_color_of b s c : Rep b -> s < 64 -> piece_at b s <> 0 ->
  N.testbit (colors b c) s = color_eqb c (if wbit b s then White else Black).
Proof.
  intros HR Hs Hk. destruct (Rep_colors b s HR Hs) as [H1 H2].
  apply N.eqb_neq in Hk. rewrite Hk in H1. cbn in H1. unfold wbit.
  destruct c; destruct (N.testbit (colors b White) s); destruct (N.testbit (colors b Black) s); cbn in *; congruence.
Qed.
