(* C11 round trip, assembly: parse_fen (print_fen b) for a board whose placement encodings agree,
   clock 0..100, fullmove number 1..2^63-1. *)
From Coq Require Import NArith ZArith List Bool Lia PeanoNat.
From Chess3 Require Import Base.Bits Base.Word Model.Types Model.BoardDef Model.Board Model.Fen
  Spec.FenSpec Proofs.FenSafe Proofs.FenFields Proofs.FenPlacement Proofs.FenBoard.
Import ListNotations.

Definition tail5 (b : board) : list N := itoa (full b).
Definition tail4 (b : board) : list N := itoa (fifty b) ++ c_space :: tail5 b.
Definition tail3 (b : board) : list N := ep_text (ep b) ++ c_space :: tail4 b.
Definition tail2 (b : board) : list N := print_castles (castles b) ++ c_space :: tail3 b.
Definition tail1 (b : board) : list N := stm_char (stm b) :: c_space :: tail2 b.

Lemma print_fen_shape b : print_fen b = print_ranks b (desc 7) ++ c_space :: tail1 b.
Proof.
  unfold print_fen, tail1, tail2, tail3, tail4, tail5, ep_text. rewrite print_placement_ranks.
  f_equal.
Qed.

Theorem parse_print b : wf b -> (0 <= fifty b <= 100)%Z -> (1 <= full b < 9223372036854775808)%Z ->
  parse_fen (print_fen b) = Ok (set_hashes b []).
Proof.
  intros W Hfifty Hfull.
  pose proof (wf_ep b W) as Hep. pose proof (wf_castles b W) as Hca.
  unfold parse_fen. set (s := print_fen b). set (l := length s).
  assert (F : forall ix, (l - ix < S l)%nat) by (intros; lia).
  assert (S0 : skipn 0 s = print_ranks b (desc 7) ++ c_space :: tail1 b) by (unfold s; rewrite print_fen_shape; reflexivity).
  (* placement *)
  destruct (parse_ranks s b (wf_codes_ok b W) 7 empty_board (S l) 0 (tail1 b) ltac:(lia) S0 (F 0%nat)) as (i1 & R1 & S1).
  change (Z.of_nat 7) with 7%Z in R1. fold l in R1. rewrite R1. cbn [bind].
  change (all_squares (desc 7)) with fen_squares. rewrite (replay_rebuilds b W).
  set (b1 := mkBoard (sq2p b) (pcs b) (cols b) [] 0%Z White 0%N 0%N 0%Z).
  (* blank, side to move *)
  unfold tail1 in S1.
  destruct (sep_one s (S l) i1 (stm_char (stm b)) _ S1 ltac:(destruct (stm b); discriminate) (F i1)) as (R2 & S2).
  fold l in R2. rewrite R2. cbn [bind].
  destruct (stm_run s (S i1) (stm b) _ b1 S2) as (R3 & S3). rewrite R3. cbn [bind].
  (* blank, castling rights *)
  destruct (print_castles_ok (castles b) Hca) as (Fc & Vc & (d & r & Ec & Nc)).
  unfold tail2 in S3. rewrite Ec in S3. cbn [app] in S3.
  destruct (sep_one s (S l) (S (S i1)) d _ S3 Nc (F _)) as (R4 & S4). fold l in R4. rewrite R4. cbn [bind].
  change (d :: r ++ c_space :: tail3 b) with ((d :: r) ++ c_space :: tail3 b) in S4. rewrite <- Ec in S4.
  destruct (crights_run s (tail3 b) (print_castles (castles b)) (S l) (S (S (S i1))) (set_stm b1 (stm b)) Fc S4 (F _))
    as (i3 & R5 & S5).
  fold l in R5. rewrite R5. cbn [bind].
  change (castles (set_stm b1 (stm b))) with 0%N. rewrite Vc.
  (* blank, en passant *)
  destruct (ep_text_head (ep b)) as (d2 & r2 & Ee & Ne).
  unfold tail3 in S5. rewrite Ee in S5. cbn [app] in S5.
  destruct (sep_one s (S l) i3 d2 _ S5 Ne (F _)) as (R6 & S6). fold l in R6. rewrite R6. cbn [bind].
  change (d2 :: r2 ++ c_space :: tail4 b) with ((d2 :: r2) ++ c_space :: tail4 b) in S6. rewrite <- Ee in S6.
  destruct (ep_run s (S i3) (ep b) (tail4 b) (set_castles (set_stm b1 (stm b)) (castles b)) Hep eq_refl S6) as (i4 & R7 & S7).
  fold l in R7. rewrite R7. cbn [bind].
  (* blank, halfmove clock *)
  destruct (itoa_head (fifty b) ltac:(lia)) as (d3 & r3 & Ef & Nf).
  unfold tail4 in S7. rewrite Ef in S7. cbn [app] in S7.
  destruct (sep_one s (S l) i4 d3 _ S7 Nf (F _)) as (R8 & S8). fold l in R8. rewrite R8. cbn [bind].
  change (d3 :: r3 ++ c_space :: tail5 b) with ((d3 :: r3) ++ c_space :: tail5 b) in S8. rewrite <- Ef in S8.
  destruct (counter_itoa s (c_space :: tail5 b) (fifty b) (S l) (S i4) ltac:(right; eauto) ltac:(lia) S8 (F _)) as (i5 & R9 & S9).
  unfold fifty_field. fold l in R9. rewrite R9. cbn [bind].
  destruct (Z.ltb_spec (fifty b) 0) as [?|_]; [lia|]. destruct (Z.ltb_spec 100 (fifty b)) as [?|_]; [lia|]. cbn [orb].
  rewrite wrap16_id by lia. cbn [bind].
  (* blank, fullmove number *)
  destruct (itoa_head (full b) ltac:(lia)) as (d4 & r4 & Em & Nm).
  unfold tail5 in S9. rewrite Em in S9.
  destruct (sep_one s (S l) i5 d4 _ S9 Nm (F _)) as (R10 & S10). fold l in R10. rewrite R10. cbn [bind].
  rewrite <- Em in S10. rewrite <- (app_nil_r (itoa (full b))) in S10.
  destruct (counter_itoa s [] (full b) (S l) (S i5) ltac:(left; reflexivity) ltac:(lia) S10 (F _)) as (i6 & R11 & S11).
  unfold full_field. fold l in R11. rewrite R11. cbn [bind].
  destruct (Z.ltb_spec (full b) 1) as [?|_]; [lia|]. cbn [bind].
  destruct b; reflexivity.
Qed.

Lemma calc_hash_hashes z b hs : calc_hash z (set_hashes b hs) = calc_hash z b.
Proof. destruct b; reflexivity. Qed.

Theorem from_fen_print z b : wf b -> (0 <= fifty b <= 100)%Z -> (1 <= full b < 9223372036854775808)%Z ->
  from_fen z (print_fen b) = Ok (reset_hash z b).
Proof.
  intros W H1 H2. unfold from_fen. rewrite (parse_print b W H1 H2). cbn [bind].
  unfold reset_hash. rewrite calc_hash_hashes. destruct b; reflexivity.
Qed.

(* the printer does not look at the hash history *)
Lemma print_fen_hashes b hs : print_fen (set_hashes b hs) = print_fen b.
Proof. destruct b; reflexivity. Qed.

(* canonical text: printing what was parsed from a printed text gives the text back *)
Theorem print_parse_print b : wf b -> (0 <= fifty b <= 100)%Z -> (1 <= full b < 9223372036854775808)%Z ->
  exists b', parse_fen (print_fen b) = Ok b' /\ print_fen b' = print_fen b.
Proof.
  intros W H1 H2. exists (set_hashes b []). split; [apply parse_print; assumption|apply print_fen_hashes].
Qed.
