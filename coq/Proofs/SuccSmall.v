(* C02, the small clauses: castling rights, halfmove clock, fullmove number, side to move. *)
From Coq Require Import NArith ZArith List Bool Lia.
From Chess3 Require Import Base.Bits Base.Word Model.Types Model.Att Model.BoardDef Model.Board.
From Chess3 Require Import Spec.Geometry Spec.Chess Spec.Rep.
From Chess3 Require Import Proofs.SuccLists Proofs.SuccCore Proofs.SuccCells Proofs.SuccFacts Proofs.SuccPlace.
Import ListNotations.
Open Scope N_scope.

Section Small.
Variable b : board.
Variable m : N.
Hypothesis HR : Rep b.
Hypothesis HV : valid_core (abs b) = true.
Hypothesis HL : legal_spec (abs b) m = true.

Let from := mv_from m.
Let to := mv_to m.
Let me := stm b.

(* castling rights *)
Lemma core_rights : new_castles b m = rights_after (abs b) m.
Proof.
  destruct (facts b m HL) as [k [Hc _]]. fold from me in Hc.
  destruct (cell_Some _ _ _ _ Hc) as [Hp _].
  unfold rights_after, new_castles. fold from to. cbn [turn abs rights]. fold me.
  rewrite !holds_abs by apply from_lt. fold from. rewrite Hc, Hp.
  change (rook_home White false) with 7. change (rook_home White true) with 0.
  change (rook_home Black false) with 63. change (rook_home Black true) with 56.
  unfold A1, H1, A8, H8, ShortWhite, LongWhite, ShortBlack, LongBlack, bandn, bor.
  rewrite (N.eqb_sym King k).
  destruct me; cbn [color_eqb andb orb]; rewrite ?andb_false_r, ?andb_true_r; cbn [orb];
    destruct (k =? King); destruct (from =? 0); destruct (to =? 0); destruct (from =? 7); destruct (to =? 7);
    destruct (from =? 56); destruct (to =? 56); destruct (from =? 63); destruct (to =? 63);
    cbn [orb]; rewrite ?N.ldiff_ldiff_l, ?N.ldiff_0_r; reflexivity.
Qed.

(* a move of a non-pawn is never an en-passant capture; a pawn move always resets the clock *)
Lemma core_fifty : (0 <= fifty b < 32767)%Z ->
  new_fifty b m = (if holds (abs b) from me Pawn || is_capture (abs b) m then 0 else fifty b + 1)%Z.
Proof.
  intros Hf. destruct (facts b m HL) as [k [Hc _]]. fold from me in Hc.
  destruct (cell_Some _ _ _ _ Hc) as [Hp _].
  unfold new_fifty, is_capture. fold from to. rewrite (is_ep_eq b m k Hc).
  rewrite holds_abs by apply from_lt. rewrite Hc, Hp, color_eqb_refl. cbn [andb].
  rewrite (N.eqb_sym Pawn k).
  destruct (k =? Pawn) eqn:EP; [reflexivity|]. cbn [orb].
  assert (He : is_en_passant b m = false).
  { unfold is_en_passant. fold from. rewrite Hp, EP. apply andb_false_r. }
  unfold capture_sq. rewrite He. cbn [orb]. fold to. rewrite orb_false_r.
  rewrite empty_abs by apply to_lt. change NoPiece with 0.
  destruct (piece_at b to =? 0); cbn [negb]; [|reflexivity].
  apply wrap16_id. lia.
Qed.

Lemma core_full : (full b + Z.of_N (cix me))%Z = match me with Black => (full b + 1)%Z | White => full b end.
Proof. destruct me; cbn [cix Z.of_N]; lia. Qed.

End Small.
