(* C09, converse direction of IsCheckmate when an en-passant target is recorded.  With the engine's
   normal form (normal_ep) a legal en-passant capture exists, so what has to be shown is that
   IsCheckmate answers FALSE.  A legal en-passant capture answers every check; it cannot block one
   (DESIGN.md 4.3: in a valid position the side to move was not in check before the double step, so a
   line of check that passes the target square passes the pawn's origin square as well, hence runs
   along the file, where the pawn itself still stands); so the only checker is the pawn that has just
   moved, and IsCheckmate's en-passant exit (or an earlier one) fires. *)
From Coq Require Import NArith ZArith List Bool Lia.
From Chess3 Require Import Base.Bits Model.Types Spec.Geometry Model.Att Model.BoardDef Model.Board
     Model.Movegen Model.Mate Spec.Chess Spec.Rep Proofs.MateGeom Proofs.MateAbs Proofs.MateKing
     Proofs.MateMove Proofs.MateCapture Proofs.MateBlockGeom Proofs.MateBlock Proofs.MateStale
     Proofs.MatePinGeom Proofs.MatePin Proofs.MateConv Proofs.MateConvMove Proofs.MateConv2 Proofs.MateConv3
     Proofs.MateConv4.
Import ListNotations.
Open Scope N_scope.

(* ------------------------------------------------------------------------------------------ *)
(* finite facts about the three squares of a double step *)

(* if the target e and the origin are both strictly between k and a, so is the pawn's square - or it is an end *)
Definition ep_line_check (c : color) (k a e : N) : bool :=
  let bl := blocked_of k a in
  negb (N.testbit bl e && N.testbit bl (fwd c e)) ||
  N.testbit bl (fwd (flip c) e) || (fwd (flip c) e =? a) || (fwd (flip c) e =? k).
Definition ep_rank_ok (c : color) (e : N) : bool := rank_n e =? match c with White => 5 | Black => 2 end.
Definition ep_line_all (c : color) : bool :=
  forallb (fun e => negb (ep_rank_ok c e) ||
    forallb (fun k => forallb (fun a => ep_line_check c k a e) squares64) squares64) squares64.
Lemma ep_line_white : ep_line_all White = true. Proof. vm_cast_no_check (eq_refl true). Qed.
Lemma ep_line_black : ep_line_all Black = true. Proof. vm_cast_no_check (eq_refl true). Qed.
Lemma ep_line c k a e : k < 64 -> a < 64 -> e < 64 -> ep_rank_ok c e = true ->
  N.testbit (blocked_of k a) e = true -> N.testbit (blocked_of k a) (fwd c e) = true ->
  N.testbit (blocked_of k a) (fwd (flip c) e) = true \/ fwd (flip c) e = a \/ fwd (flip c) e = k.
Proof.
  intros Hk Ha He Hr H1 H2.
  assert (C : ep_line_all c = true) by (destruct c; [exact ep_line_white|exact ep_line_black]).
  unfold ep_line_all in C. pose proof (forall_sq _ C e He) as C1. cbv beta in C1. rewrite Hr in C1. cbn [negb orb] in C1.
  pose proof (forall_sq2 (fun k a => ep_line_check c k a e) C1 k a Hk Ha) as C2. cbv beta in C2.
  unfold ep_line_check in C2. cbv zeta in C2. rewrite H1, H2 in C2. cbn [andb negb orb] in C2.
  apply orb_true_iff in C2. destruct C2 as [C2|C2]; [apply orb_true_iff in C2; destruct C2 as [C2|C2]|].
  - left. exact C2.
  - right. left. apply N.eqb_eq. exact C2.
  - right. right. apply N.eqb_eq. exact C2.
Qed.

(* the captured pawn's square, and the engine's way of writing it *)
Definition ep_sq_check (c : color) (d e : N) : bool :=
  negb (ep_rank_ok c e && N.testbit (pawn_attacks c d) e) ||
  ((sqfr (file_n e) (rank_n d) =? fwd (flip c) e) && (fwd (flip c) e <? 64) && (fwd c e <? 64) &&
   (pawn_single_push_moves (bit e) (flip c) =? bit (fwd (flip c) e))).
Lemma ep_sq c d e : d < 64 -> e < 64 -> ep_rank_ok c e = true -> N.testbit (pawn_attacks c d) e = true ->
  sqfr (file_n e) (rank_n d) = fwd (flip c) e /\ fwd (flip c) e < 64 /\ fwd c e < 64 /\
  pawn_single_push_moves (bit e) (flip c) = bit (fwd (flip c) e).
Proof.
  intros Hd He Hr Hp.
  assert (C : ep_sq_check c d e = true).
  { clear Hr Hp. revert d e Hd He. destruct c; [apply (forall_sq2 (ep_sq_check White))|apply (forall_sq2 (ep_sq_check Black))]; vm_compute; reflexivity. }
  unfold ep_sq_check in C. rewrite Hr, Hp in C. cbn [andb negb orb] in C.
  repeat (apply andb_prop in C; destruct C as [C ?]).
  apply N.eqb_eq in C. repeat match goal with H : (_ <? _) = true |- _ => apply N.ltb_lt in H end.
  match goal with H : (_ =? _) = true |- _ => apply N.eqb_eq in H end. tauto.
Qed.

Lemma color_eqb_sym_flip a : color_eqb a (flip a) = false.
Proof. destruct a; reflexivity. Qed.

(* ------------------------------------------------------------------------------------------ *)
(* the position before the double step *)

Section Pred.
Variable b : board.
Hypothesis HR : Rep b.
Hypothesis HV : valid (abs b) = true.
Let me := stm b.
Let them := flip me.
Let occ := occupancy b.
Variable k0 : N.
Hypothesis Hk0 : k0 < 64.
Hypothesis Hkbit : band (pieces b King) (colors b me) = bit k0.
Hypothesis Hholds : forall s, s < 64 -> holds (abs b) s me King = (s =? k0).
Variable e : N.
Hypothesis Hep : epsq (abs b) = Some e.
Hypothesis He : e < 64.

Let csq := fwd them e.      (* where the pawn stands *)
Let origin := fwd me e.     (* where it came from *)
Hypothesis Hcsq : csq < 64.
Hypothesis Horigin : origin < 64.

Lemma ep_facts : ep_rank_ok me e = true /\ empty (abs b) e = true /\ empty (abs b) origin = true /\
  holds (abs b) csq them Pawn = true /\
  in_check_spec (with_placement (abs b) (put (put (at_ (abs b)) csq None) origin (Some (them, Pawn)))) me = false.
Proof.
  pose proof (valid_ep_ok _ HV) as H. unfold ep_ok in H. rewrite Hep in H. change (turn (abs b)) with me in H.
  fold them in H. fold csq in H. fold origin in H.
  repeat (apply andb_prop in H; destruct H as [H ?]).
  match goal with X : negb _ = true |- _ => apply negb_true_iff in X end. unfold ep_rank_ok. tauto.
Qed.

Let pred := with_placement (abs b) (put (put (at_ (abs b)) csq None) origin (Some (them, Pawn))).

Lemma pred_who s : who pred s = if origin =? s then Some (them, Pawn) else if csq =? s then None else who (abs b) s.
Proof.
  unfold pred, who, with_placement. cbn [at_]. unfold put.
  rewrite nthN_updN by (unfold updN; rewrite upd_length, (at_length b); lia).
  destruct (origin =? s); [reflexivity|]. rewrite nthN_updN by (rewrite (at_length b); lia). reflexivity.
Qed.

Lemma king_there : exists kk, who (abs b) k0 = Some (me, kk).
Proof.
  pose proof (Hholds k0 Hk0) as Hh. rewrite N.eqb_refl in Hh. unfold holds in Hh.
  destruct (who (abs b) k0) as [[c' k]|]; [|discriminate]. apply andb_prop in Hh. destruct Hh as [Hh _].
  apply color_eqb_eq in Hh. subst c'. exists k. reflexivity.
Qed.

Lemma pred_king_sq : king_sq pred me = k0.
Proof.
  destruct ep_facts as (_ & _ & Hoe & Hpawn & _). destruct king_there as [kk Hwk].
  unfold king_sq. rewrite (filter_single _ squares64 k0); [reflexivity|apply squares64_NoDup|apply squares64_spec; exact Hk0|].
  intros s Hs. apply squares64_spec in Hs. unfold holds. rewrite pred_who.
  destruct (N.eqb_spec origin s) as [E1|E1].
  - split; [intros X; unfold them in X; rewrite color_eqb_sym_flip in X; discriminate|].
    intros E. exfalso. unfold empty in Hoe. rewrite E1, E, Hwk in Hoe. discriminate.
  - destruct (N.eqb_spec csq s) as [E2|E2].
    + split; [discriminate|]. intros E. exfalso. unfold holds in Hpawn. rewrite E2, E, Hwk in Hpawn.
      unfold them in Hpawn. rewrite color_eqb_flip in Hpawn. discriminate.
    + pose proof (Hholds s Hs) as Hh. unfold holds in Hh. rewrite Hh. apply N.eqb_eq.
Qed.

Lemma pred_occ x : N.testbit (occ_of pred) x = true -> N.testbit occ x = true \/ x = origin.
Proof.
  rewrite occ_of_testbit. intros H. apply andb_prop in H. destruct H as [L H]. apply N.ltb_lt in L.
  apply negb_true_iff in H. unfold empty in H. rewrite pred_who in H.
  destruct (N.eqb_spec origin x) as [->|]; [right; reflexivity|]. destruct (csq =? x); [discriminate|]. left.
  pose proof (empty_abs b HR x L) as E. unfold empty in E. rewrite H in E. fold occ in E. apply negb_false_iff. exact (eq_sym E).
Qed.

(* a checker other than the pawn whose line passes the target square: the line passes the origin too *)
Lemma pred_origin a : a < 64 -> N.testbit (attackers b (bit k0) occ them) a = true -> a <> csq ->
  N.testbit (blocked_of k0 a) e = true -> N.testbit (blocked_of k0 a) origin = true.
Proof.
  intros Ha Hatk Hac Hbe. destruct (N.testbit (blocked_of k0 a) origin) eqn:Hbo; [reflexivity|]. exfalso.
  destruct ep_facts as (_ & _ & Hoe & _ & Hpred). fold pred in Hpred.
  destruct (attackers_sound b them k0 occ a HR Hk0 Hatk) as (_ & Hak & ka & Hwa & Hma).
  assert (in_check_spec pred me = true); [|congruence].
  unfold in_check_spec. rewrite pred_king_sq. unfold attacked_by. apply existsb_exists. exists a.
  split; [apply squares64_spec; exact Ha|]. rewrite pred_who.
  destruct (N.eqb_spec origin a) as [E|_].
  { subst a. unfold empty in Hoe. rewrite Hwa in Hoe. discriminate. }
  destruct (N.eqb_spec csq a) as [E|_]; [congruence|]. rewrite Hwa. fold them. rewrite color_eqb_refl. cbn [andb].
  destruct (who_abs_inv b HR a them ka Ha Hwa) as (Hka & _ & _ & _).
  (* the same argument as for a move: the line is clear and origin is not on it *)
  assert (Hslide : forall dirs,
            (forall s t, s < 64 -> t < 64 -> sym_check dirs s t = true) ->
            (forall k a, k < 64 -> a < 64 -> blocked_check dirs k a = true) ->
            hit dirs a occ k0 = true -> hit dirs a (occ_of pred) k0 = true).
  { intros dirs Hsym Hbl Hh. apply (hit_sym_gen dirs Hsym a k0 occ Ha Hk0) in Hh.
    apply (hit_sym_gen dirs Hsym k0 a (occ_of pred) Hk0 Ha).
    destruct (hit_prefix _ _ _ _ Hh) as (dir & pre & Hdir & Hp & Hc).
    unfold hit. apply existsb_exists. exists dir. split; [exact Hdir|]. rewrite Hp.
    unfold all_clear. apply forallb_forall. intros x Hx. apply negb_true_iff.
    destruct (N.testbit (occ_of pred) x) eqn:E; [|reflexivity]. exfalso.
    destruct (pred_occ x E) as [O|O].
    - rewrite (all_clear_in occ pre x Hc Hx) in O. discriminate.
    - subst x. pose proof (Hbl k0 a Hk0 Ha) as C. unfold blocked_check in C. rewrite forallb_forall in C.
      specialize (C dir Hdir). rewrite Hp in C. apply N.eqb_eq in C. rewrite C in Hbo.
      assert (N.testbit (set_of pre) origin = true) by (apply set_of_in; exact Hx). congruence. }
  unfold mem in *.
  assert (ka = 1 \/ ka = 2 \/ ka = 3 \/ ka = 4 \/ ka = 5 \/ ka = 6) as [->|[->|[->|[->|[->| ->]]]]] by lia.
  - exact Hma.
  - exact Hma.
  - enough (X : N.testbit (bishop_attacks a (occ_of pred)) k0 = true) by exact X. rewrite bishop_testbit.
    apply (Hslide bishop_dirs bishop_sym_check bishop_blocked_check). rewrite <- bishop_testbit. exact Hma.
  - enough (X : N.testbit (rook_attacks a (occ_of pred)) k0 = true) by exact X. rewrite rook_testbit.
    apply (Hslide rook_dirs rook_sym_check rook_blocked_check). rewrite <- rook_testbit. exact Hma.
  - assert (Hq : N.testbit (N.lor (rook_attacks a occ) (bishop_attacks a occ)) k0 = true) by exact Hma.
    enough (X : N.testbit (N.lor (rook_attacks a (occ_of pred)) (bishop_attacks a (occ_of pred))) k0 = true) by exact X.
    rewrite N.lor_spec in *. apply orb_true_iff in Hq. destruct Hq as [Hq|Hq].
    + rewrite rook_testbit in Hq. rewrite rook_testbit.
      rewrite (Hslide rook_dirs rook_sym_check rook_blocked_check Hq). reflexivity.
    + rewrite bishop_testbit in Hq. rewrite (bishop_testbit a (occ_of pred)).
      rewrite (Hslide bishop_dirs bishop_sym_check bishop_blocked_check Hq). apply orb_true_r.
  - exact Hma.
Qed.

(* hence an en-passant capture never blocks a check *)
Lemma ep_never_blocks a : a < 64 -> N.testbit (attackers b (bit k0) occ them) a = true -> a <> csq ->
  N.testbit (blocked_of k0 a) e = true -> False.
Proof.
  intros Ha Hatk Hac Hbe. pose proof (pred_origin a Ha Hatk Hac Hbe) as Hbo.
  destruct ep_facts as (Hrk & _ & _ & Hpawn & _).
  destruct (ep_line me k0 a e Hk0 Ha He Hrk Hbe Hbo) as [H|[H|H]]; fold them in H; fold csq in H.
  - (* the pawn's square would be an empty square of the line *)
    pose proof (blocked_clear b k0 a Hk0 Ha Hatk csq H) as F.
    rewrite <- (negb_involutive (N.testbit (occupancy b) csq)), <- (empty_abs b HR csq Hcsq) in F.
    unfold holds in Hpawn. unfold empty in F. destruct (who (abs b) csq); [discriminate|discriminate].
  - congruence.
  - destruct king_there as [kk Hwk]. unfold holds in Hpawn. rewrite H, Hwk in Hpawn.
    unfold them in Hpawn. rewrite color_eqb_flip in Hpawn. discriminate.
Qed.

End Pred.

(* ------------------------------------------------------------------------------------------ *)
(* with a recorded (normal) en-passant target IsCheckmate never answers true *)

Lemma normal_ep_pawn_move p e : epsq p = Some e -> normal_ep p = true ->
  exists from, from < 64 /\ holds p from (turn p) Pawn = true /\ legal_spec p (mk_move from e 0) = true.
Proof.
  intros He Hn. unfold normal_ep in Hn. rewrite He in Hn. unfold ep_capturable in Hn.
  destruct p as [a t r e' h f]. cbn [epsq at_ turn rights half fullm] in *. subst e'.
  apply existsb_exists in Hn. destruct Hn as [from [Hf H]]. apply andb_prop in H. destruct H as [H1 H2].
  exists from. split; [apply squares64_spec; exact Hf|]. split; assumption.
Qed.

Theorem mate_converse_ep b : Rep b -> valid (abs b) = true -> normal_ep (abs b) = true -> ep b <> 0 ->
  in_check b (stm b) = true -> is_checkmate b = true -> False.
Proof.
  intros HR HV HN Hne Hchk Hmate. set (me := stm b). set (them := flip me). set (e := ep b).
  destruct (king_is_bit b HR HV me) as [k0 [Hk0 [Hkbit [Hholds Hwho]]]].
  assert (Hep : epsq (abs b) = Some e).
  { unfold abs. cbn [epsq]. destruct (N.eqb_spec (ep b) 0); [contradiction|reflexivity]. }
  destruct (rep_unpack b HR) as (_ & _ & _ & _ & _ & _ & He). fold e in He.
  destruct (normal_ep_pawn_move _ e Hep HN) as (d0 & Hd0 & Hpawn0 & Hl). change (turn (abs b)) with me in Hpawn0.
  destruct (mk_move_fields d0 e Hd0 He) as (Ef & Et & Ep0).
  pose proof Hl as Hl2. unfold legal_spec in Hl2. apply andb_prop in Hl2. destruct Hl2 as [Hps Hsafe].
  apply negb_true_iff in Hsafe. change (turn (abs b)) with me in Hsafe.
  destruct (pseudo_mover _ _ Hps) as [kd [Hwd _]]. rewrite Ef in Hwd. change (turn (abs b)) with me in Hwd.
  assert (kd = Pawn) as ->.
  { unfold holds in Hpawn0. rewrite Hwd in Hpawn0. apply andb_prop in Hpawn0. destruct Hpawn0 as [_ H]. apply N.eqb_eq in H. congruence. }
  assert (Hiep : is_ep_capture (abs b) (mk_move d0 e 0) = true).
  { unfold is_ep_capture. rewrite Ef, Et, Hep. change (turn (abs b)) with me. rewrite Hpawn0, N.eqb_refl. reflexivity. }
  (* the shape of the target *)
  destruct (ep_ok_facts _ e (valid_ep_ok _ HV) Hep) as [Hrk Hpw]. change (turn (abs b)) with me in Hrk, Hpw. fold them in Hpw.
  assert (Hrko : ep_rank_ok me e = true) by (unfold ep_rank_ok; apply N.eqb_eq; exact Hrk).
  (* the capture is a diagonal pawn move *)
  assert (Hatt : N.testbit (pawn_attacks me d0) e = true).
  { unfold pseudo_spec in Hps. rewrite Ef, Et, Ep0 in Hps. cbv zeta in Hps. rewrite Hwd in Hps.
    change (turn (abs b)) with me in Hps. change (Pawn =? Pawn) with true in Hps. cbv iota in Hps.
    apply andb_prop in Hps. destruct Hps as [_ Hps]. apply andb_prop in Hps. destruct Hps as [_ Hps].
    apply orb_true_iff in Hps. destruct Hps as [Hps|Hps]; [apply orb_true_iff in Hps; destruct Hps as [Hps|Hps]|].
    - exfalso. apply andb_prop in Hps. destruct Hps as [Hps _]. apply andb_prop in Hps. destruct Hps as [E1 E2].
      apply N.eqb_eq in E1. apply negb_true_iff, N.eqb_neq in E2.
      assert (L : fwd me d0 < 64) by (rewrite <- E1; exact He).
      pose proof (not_ep_push1 b d0 0 HR HV Hd0 L (or_introl eq_refl) Hwd E2) as F. fold me in F. rewrite <- E1 in F. congruence.
    - exfalso. apply andb_prop in Hps. destruct Hps as [Hps _]. apply andb_prop in Hps. destruct Hps as [Hps _].
      apply andb_prop in Hps. destruct Hps as [E1 E2]. apply N.eqb_eq in E1, E2.
      assert (L : fwd me (fwd me d0) < 64) by (rewrite <- E2; exact He).
      pose proof (not_ep_push2 b d0 HR HV Hd0 L E1) as F. fold me in F. rewrite <- E2 in F. congruence.
    - apply andb_prop in Hps. destruct Hps as [Hps _]. exact Hps. }
  destruct (ep_sq me d0 e Hd0 He Hrko Hatt) as (Ecsq & Lcsq & Lorigin & Epush). fold them in Ecsq, Lcsq, Epush.
  set (csq := fwd them e) in *.
  destruct (ep_facts b HV e Hep) as (_ & Hee & Hoe & Hpawn & _). fold me in Hee, Hoe, Hpawn. fold them in Hpawn. fold csq in Hpawn.
  destruct (king_there b k0 Hk0 Hholds) as [kk Hwk]. fold me in Hwk.
  assert (Hcsq_d : csq <> d0).
  { intros E. unfold holds in Hpawn. rewrite E, Hwd in Hpawn. unfold them in Hpawn. rewrite color_eqb_flip in Hpawn. discriminate. }
  assert (Hcsq_k : csq <> k0).
  { intros E. unfold holds in Hpawn. rewrite E, Hwk in Hpawn. unfold them in Hpawn. rewrite color_eqb_flip in Hpawn. discriminate. }
  assert (Hcsq_e : csq <> e).
  { intros E. unfold holds in Hpawn. unfold empty in Hee. rewrite E in Hpawn. destruct (who (abs b) e); discriminate. }
  assert (Hd0e : d0 <> e) by (intros E; unfold empty in Hee; rewrite <- E, Hwd in Hee; discriminate).
  assert (Hek : e <> k0) by (intros E; unfold empty in Hee; rewrite E, Hwk in Hee; discriminate).
  assert (Hcsq3 : is_ep_capture (abs b) (mk_move d0 e 0) = true ->
            sqfr (file_n e) (rank_n d0) <> e /\ sqfr (file_n e) (rank_n d0) <> d0 /\ sqfr (file_n e) (rank_n d0) <> k0)
    by (intros _; rewrite Ecsq; tauto).
  assert (Hpk : Pawn <> King) by (unfold Pawn, King; lia).
  (* what IsCheckmate = true says *)
  pose proof Hmate as HM. unfold is_checkmate in HM. cbv zeta in HM. fold me in HM. rewrite Hkbit, (lsb_bit k0 Hk0) in HM.
  change (bor (colors b White) (colors b Black)) with (occupancy b) in HM.
  destruct (king_can_step b k0 (bit k0) (occupancy b) (colors b me)); [discriminate|].
  set (atk := attackers b (bit k0) (occupancy b) (flip me)) in *.
  assert (Hatk0 : atk <> 0) by (apply (in_check_attackers b k0 HR Hk0 Hkbit Hchk)).
  (* every checker is the pawn that has just moved *)
  assert (Hchecker : forall a, N.testbit atk a = true -> a = csq).
  { intros a Ha. destruct (attackers_sound b (flip me) k0 _ a HR Hk0 Ha) as (La & _ & ka & Hwa & Hma).
    destruct (N.eq_dec a csq) as [E|E]; [exact E|]. exfalso.
    assert (Hae : a <> e) by (intros X; unfold empty in Hee; rewrite <- X, Hwa in Hee; discriminate).
    destruct (N.testbit (blocked_of k0 a) e) eqn:Hb.
    - exact (ep_never_blocks b HR HV k0 Hk0 Hkbit Hholds e Hep He Lcsq Lorigin a La Ha E Hb).
    - assert (Hac : is_ep_capture (abs b) (mk_move d0 e 0) = true -> a <> sqfr (file_n e) (rank_n d0)) by (intros _; rewrite Ecsq; exact E).
      exact (Bool.diff_true_false (eq_trans (eq_sym (nk_check_survives b HR k0 Hk0 Hholds d0 e Pawn 0 Hd0 He Hwd Hpk (or_introl eq_refl) Hd0e Hek Hcsq3 a ka La Hwa Hae Hac Hma Hb)) Hsafe)). }
  destruct (1 <? popcount atk) eqn:Hpop.
  - destruct (two_bits atk Hpop) as (a1 & a2 & Hne12 & H1 & H2). rewrite (Hchecker a1 H1), (Hchecker a2 H2) in Hne12. congruence.
  - pose proof (popcount_le1_bit atk Hatk0 Hpop) as Hbit.
    assert (Ea : lsb atk = csq) by (apply Hchecker; apply lsb_testbit; exact Hatk0).
    rewrite Ea in Hbit. rewrite Hbit in HM.
    destruct (mate_capture_loop b k0 (occupancy b) (bit csq) (colors b (flip me)) _); [discriminate|].
    fold e in HM. fold them in HM. rewrite Epush, N.eqb_refl in HM.
    destruct (N.eqb_spec e 0) as [E0|_]; [unfold e in E0; contradiction|]. cbn [negb andb] in HM. discriminate.
Qed.
