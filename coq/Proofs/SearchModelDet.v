(* search_deterministic, the meaningful version (C08): the value returned, the board returned and every
   field of the engine state left behind - except the debugging log itself - do not depend on the
   debugging fields s_trace / s_tracing of the record.  So the result of the model is a function of
   the stored state (table, history tables, move store, history stack, PV buffer, generation, abort
   flag, node counter), the position with its history, and the limits - and of nothing else.

   Proof: two runs from states that differ only in the debugging fields are walked in lockstep.
   [retrace s t g] is s with the debugging fields replaced; every state expression of the second run
   is normalised to the shape  retrace <state expression of the first run> _ _. *)
From Coq Require Import NArith ZArith List Bool Lia.
From Chess3 Require Import Base.Bits Base.Word Model.Types Model.BoardDef Model.Board Model.Search Proofs.SearchModelInv.
From Chess3 Require Model.Movegen Model.Mate Model.Eval Model.TT Model.Hist Model.Picker Model.See
  Model.Pv Model.IterDeepen.
Import ListNotations.
Open Scope Z_scope.

Definition retrace (s : sstate) (t : list Z) (g : Z) : sstate :=
  mkS (s_tt s) (s_rk s) (s_ms s) (s_hs s) (s_pv s) (s_gen s) (s_aborted s) (s_nodes s) t g.

(* equal up to the debugging fields *)
Definition core_eq (s1 s2 : sstate) : Prop := exists t g, s2 = retrace s1 t g.

Lemma core_eq_fields s1 s2 : core_eq s1 s2 <->
  s_tt s1 = s_tt s2 /\ s_rk s1 = s_rk s2 /\ s_ms s1 = s_ms s2 /\ s_hs s1 = s_hs s2 /\ s_pv s1 = s_pv s2 /\
  s_gen s1 = s_gen s2 /\ s_aborted s1 = s_aborted s2 /\ s_nodes s1 = s_nodes s2.
Proof.
  split.
  - intros (t & g & ->). cbn. repeat split; reflexivity.
  - intros (H1 & H2 & H3 & H4 & H5 & H6 & H7 & H8). exists (s_trace s2), (s_tracing s2).
    destruct s1, s2; cbn in *. subst. reflexivity.
Qed.

(* reads *)
Lemma rt_tt s t g : s_tt (retrace s t g) = s_tt s. Proof. reflexivity. Qed.
Lemma rt_rk s t g : s_rk (retrace s t g) = s_rk s. Proof. reflexivity. Qed.
Lemma rt_ms s t g : s_ms (retrace s t g) = s_ms s. Proof. reflexivity. Qed.
Lemma rt_hs s t g : s_hs (retrace s t g) = s_hs s. Proof. reflexivity. Qed.
Lemma rt_pv s t g : s_pv (retrace s t g) = s_pv s. Proof. reflexivity. Qed.
Lemma rt_gen s t g : s_gen (retrace s t g) = s_gen s. Proof. reflexivity. Qed.
Lemma rt_aborted s t g : s_aborted (retrace s t g) = s_aborted s. Proof. reflexivity. Qed.
Lemma rt_nodes s t g : s_nodes (retrace s t g) = s_nodes s. Proof. reflexivity. Qed.
(* updates *)
Lemma rt_set_tt s t g v : set_tt (retrace s t g) v = retrace (set_tt s v) t g. Proof. reflexivity. Qed.
Lemma rt_set_rk s t g v : set_rk (retrace s t g) v = retrace (set_rk s v) t g. Proof. reflexivity. Qed.
Lemma rt_set_ms s t g v : set_ms (retrace s t g) v = retrace (set_ms s v) t g. Proof. reflexivity. Qed.
Lemma rt_set_hs s t g v : set_hs (retrace s t g) v = retrace (set_hs s v) t g. Proof. reflexivity. Qed.
Lemma rt_set_pv s t g v : set_pv (retrace s t g) v = retrace (set_pv s v) t g. Proof. reflexivity. Qed.
Lemma rt_set_gen s t g v : set_gen (retrace s t g) v = retrace (set_gen s v) t g. Proof. reflexivity. Qed.
Lemma rt_set_aborted s t g v : set_aborted (retrace s t g) v = retrace (set_aborted s v) t g. Proof. reflexivity. Qed.
Lemma rt_set_nodes s t g v : set_nodes (retrace s t g) v = retrace (set_nodes s v) t g. Proof. reflexivity. Qed.
Lemma rt_insert s t g b d ply sm v ty : tt_insert (retrace s t g) b d ply sm v ty = retrace (tt_insert s b d ply sm v ty) t g.
Proof. reflexivity. Qed.
Lemma rt_inc o s t g : inc_nodes o (retrace s t g) = retrace (inc_nodes o s) t g.
Proof. unfold inc_nodes. cbn [s_nodes s_aborted retrace]. destruct (IterDeepen.increment_nodes _ _ _). reflexivity. Qed.
Lemma rt_trace s t g p e : trace (retrace s t g) p e = retrace (trace s p e) (if p <=? g then rev_append e t else t) g.
Proof.
  unfold trace. cbn [s_tracing s_trace retrace]. destruct (p <=? g), (p <=? s_tracing s); reflexivity.
Qed.
Lemma rt_refresh s t g : refresh (retrace s t g) = retrace (refresh s) t g. Proof. reflexivity. Qed.
Lemma rt_rt s t g t' g' : retrace (retrace s t g) t' g' = retrace s t' g'. Proof. reflexivity. Qed.

Ltac rt_norm :=
  repeat (rewrite ?rt_tt, ?rt_rk, ?rt_ms, ?rt_hs, ?rt_pv, ?rt_gen, ?rt_aborted, ?rt_nodes,
                  ?rt_set_tt, ?rt_set_rk, ?rt_set_ms, ?rt_set_hs, ?rt_set_pv, ?rt_set_gen, ?rt_set_aborted, ?rt_set_nodes,
                  ?rt_insert, ?rt_inc, ?rt_trace, ?rt_refresh, ?rt_rt in * ).

(* one synchronised step of the lockstep walk *)
Ltac absurd_case :=
  match goal with
  | C1 : ?x = true, C2 : ?x = false |- _ => exfalso; congruence
  | C1 : ?x = Some _, C2 : ?x = None |- _ => exfalso; congruence
  | C : false = true |- _ => discriminate C
  | C : true = false |- _ => discriminate C
  | C : Some _ = None |- _ => discriminate C
  | C : None = Some _ |- _ => discriminate C
  | E : Some _ = Some _ |- _ => inj_subst E
  end.
Ltac walk_step := match goal with H : _ = Ok _ |- _ => walk1 H end.

(* results related: same value, same board, states equal up to the debugging fields *)
Definition rrel (r1 r2 : rt) : Prop :=
  fst (fst r1) = fst (fst r2) /\ snd r1 = snd r2 /\ core_eq (snd (fst r1)) (snd (fst r2)).

Definition q_det (f : sstate -> board -> Z -> Z -> Z -> res rt) : Prop :=
  forall s t g b al be ply r1 r2, f s b al be ply = Ok r1 -> f (retrace s t g) b al be ply = Ok r2 -> rrel r1 r2.
Definition ab_det (f : sstate -> board -> Z -> Z -> Z -> Z -> Z -> res rt) : Prop :=
  forall s t g b al be d ply nt r1 r2, f s b al be d ply nt = Ok r1 -> f (retrace s t g) b al be d ply nt = Ok r2 -> rrel r1 r2.

Lemma rrel_intro v s b t g : rrel (v, s, b) (v, retrace s t g, b).
Proof. unfold rrel. cbn. repeat split. exists t, g. reflexivity. Qed.

(* use a fact about two related calls: replace the second result by the first *)
Ltac use_rrel Hr :=
  let Q1 := fresh "Q" in let Q2 := fresh "Q" in let Q3 := fresh "Q" in let t := fresh "t" in let g := fresh "g" in
  unfold rrel in Hr; cbn [fst snd] in Hr; destruct Hr as (Q1 & Q2 & (t & g & Q3)); subst.

Section Det.
  Variable o : opts.

  Section Q.
    Variable qchild : sstate -> board -> Z -> Z -> Z -> res rt.
    Hypothesis Hq : q_det qchild.

    Ltac pair_q :=
      repeat match goal with
             | E1 : qchild ?s ?b ?a1 ?a2 ?a3 = Ok ?r1, E2 : qchild (retrace ?s _ _) ?b ?a1 ?a2 ?a3 = Ok ?r2 |- _ =>
                 let Hr := fresh "Hr" in pose proof (Hq _ _ _ _ _ _ _ _ _ E1 E2) as Hr; clear E2;
                 try (is_var r1; destruct r1 as [[? ?] ?]); try (is_var r2; destruct r2 as [[? ?] ?]); use_rrel Hr
             end.

    Lemma qs_loop_det : forall n s t g b moves nx al be maxim delta ply r1 r2,
      qs_loop qchild n s b moves nx al be maxim delta ply = Ok r1 ->
      qs_loop qchild n (retrace s t g) b moves nx al be maxim delta ply = Ok r2 -> rrel r1 r2.
    Proof.
      induction n as [|n IH]; intros s t g b moves nx al be maxim delta ply r1 r2 H1 H2; [discriminate H1|].
      cbn [qs_loop] in H1, H2. rt_norm.
      repeat (first [ absurd_case | progress rt_norm | progress (cbn [bind of_opt] in * ) | progress pair_q | walk_step ]).
      all: try (apply rrel_intro).
      all: try (eapply IH; eassumption).
    Qed.

    Ltac pair_loop :=
      repeat match goal with
             | E1 : qs_loop qchild ?n ?s ?b ?m ?nx ?a1 ?a2 ?a3 ?a4 ?a5 = Ok ?r1,
               E2 : qs_loop qchild ?n (retrace ?s _ _) ?b ?m ?nx ?a1 ?a2 ?a3 ?a4 ?a5 = Ok ?r2 |- _ =>
                 let Hr := fresh "Hr" in pose proof (qs_loop_det _ _ _ _ _ _ _ _ _ _ _ _ _ _ E1 E2) as Hr; clear E2;
                 try (is_var r1; destruct r1 as [[? ?] ?]); try (is_var r2; destruct r2 as [[? ?] ?]); use_rrel Hr
             end.

    Lemma qs_body_det : q_det (qs_body o qchild).
    Proof.
      intros s t g b al be ply r1 r2 H1 H2. unfold qs_body, qs_pushed in H1, H2. rt_norm.
      repeat (first [ absurd_case | progress rt_norm | progress (cbn [bind of_opt] in * ) | progress pair_loop | walk_step ]).
      all: try (apply rrel_intro).
    Qed.
  End Q.

  Lemma quiescence_det : forall fuel, q_det (quiescence fuel o).
  Proof.
    induction fuel as [|f IH]; intros s t g b al be ply r1 r2 H1 H2; [discriminate H1|].
    cbn [quiescence] in H1, H2. exact (qs_body_det _ IH _ _ _ _ _ _ _ _ _ H1 H2).
  Qed.

  Section Node.
    Variable child : sstate -> board -> Z -> Z -> Z -> Z -> Z -> res rt.
    Variable qs : sstate -> board -> Z -> Z -> Z -> res rt.
    Hypothesis Hc : ab_det child.
    Hypothesis Hq : q_det qs.

    Ltac fix_pair r1 r2 Hr :=
      try (is_var r1; destruct r1 as [[? ?] ?]); try (is_var r2; destruct r2 as [[? ?] ?]); use_rrel Hr.

    Ltac pair_child :=
      repeat match goal with
             | E1 : child ?s ?b ?a1 ?a2 ?a3 ?a4 ?a5 = Ok ?r1, E2 : child (retrace ?s _ _) ?b ?a1 ?a2 ?a3 ?a4 ?a5 = Ok ?r2 |- _ =>
                 let Hr := fresh "Hr" in pose proof (Hc _ _ _ _ _ _ _ _ _ _ _ E1 E2) as Hr; clear E2; fix_pair r1 r2 Hr
             | E1 : qs ?s ?b ?a1 ?a2 ?a3 = Ok ?r1, E2 : qs (retrace ?s _ _) ?b ?a1 ?a2 ?a3 = Ok ?r2 |- _ =>
                 let Hr := fresh "Hr" in pose proof (Hq _ _ _ _ _ _ _ _ _ E1 E2) as Hr; clear E2; fix_pair r1 r2 Hr
             end.

    Ltac lockstep tac :=
      repeat (first [ absurd_case | progress rt_norm | progress (cbn [bind of_opt] in * ) | progress tac | walk_step ]).

    Lemma search_move_det s t g b1 al be d ply nt next mc qc ic imp r1 r2 :
      search_move child s b1 al be d ply nt next mc qc ic imp = Ok r1 ->
      search_move child (retrace s t g) b1 al be d ply nt next mc qc ic imp = Ok r2 -> rrel r1 r2.
    Proof.
      intros H1 H2. unfold search_move in H1, H2. lockstep pair_child. all: try (apply rrel_intro).
    Qed.

    Lemma ab_finish_det s t g b d ply maxim best ic hl fl r1 r2 :
      ab_finish s b d ply maxim best ic hl fl = Ok r1 ->
      ab_finish (retrace s t g) b d ply maxim best ic hl fl = Ok r2 -> rrel r1 r2.
    Proof.
      intros H1 H2. unfold ab_finish in H1, H2. rt_norm. walk.
      destruct (if hl then fl else false); rt_norm; apply rrel_intro.
    Qed.

    Ltac pair_move :=
      repeat match goal with
             | E1 : search_move child ?s ?b ?a1 ?a2 ?a3 ?a4 ?a5 ?a6 ?a7 ?a8 ?a9 ?a10 = Ok ?r1,
               E2 : search_move child (retrace ?s _ _) ?b ?a1 ?a2 ?a3 ?a4 ?a5 ?a6 ?a7 ?a8 ?a9 ?a10 = Ok ?r2 |- _ =>
                 let Hr := fresh "Hr" in pose proof (search_move_det _ _ _ _ _ _ _ _ _ _ _ _ _ _ _ _ E1 E2) as Hr; clear E2; fix_pair r1 r2 Hr
             end.

    Lemma ab_loop_det : forall n s t g b p al be d ply nt se maxim best ic imp hl fl mc qc r1 r2,
      ab_loop child n s b p al be d ply nt se maxim best ic imp hl fl mc qc = Ok r1 ->
      ab_loop child n (retrace s t g) b p al be d ply nt se maxim best ic imp hl fl mc qc = Ok r2 -> rrel r1 r2.
    Proof.
      induction n as [|n IH]; intros s t g b p al be d ply nt se maxim best ic imp hl fl mc qc r1 r2 H1 H2; [discriminate H1|].
      cbn [ab_loop] in H1, H2. lockstep pair_move.
      all: try (apply rrel_intro).
      all: try (eapply ab_finish_det; eassumption).
      all: try (eapply IH; eassumption).
    Qed.

    Lemma ab_static_det s t g b be d ply ic e1 s1 b1 e2 s2 b2 :
      ab_static child s b be d ply ic = Ok (e1, s1, b1) ->
      ab_static child (retrace s t g) b be d ply ic = Ok (e2, s2, b2) ->
      e1 = e2 /\ b1 = b2 /\ core_eq s1 s2.
    Proof.
      intros H1 H2. unfold ab_static in H1, H2. lockstep pair_child.
      all: repeat split; try reflexivity; eexists _, _; reflexivity.
    Qed.

    Ltac pair_node :=
      repeat match goal with
             | E1 : ab_static child ?s ?b ?a1 ?a2 ?a3 ?a4 = Ok (?e1, ?s1, ?b1),
               E2 : ab_static child (retrace ?s _ _) ?b ?a1 ?a2 ?a3 ?a4 = Ok (?e2, ?s2, ?b2) |- _ =>
                 let Hr := fresh "Hr" in pose proof (ab_static_det _ _ _ _ _ _ _ _ _ _ _ _ _ _ E1 E2) as Hr; clear E2;
                 let t := fresh "t" in let g := fresh "g" in destruct Hr as (? & ? & (t & g & ?)); subst
             | E1 : ab_loop child ?n ?s ?b ?p ?a1 ?a2 ?a3 ?a4 ?a5 ?a6 ?a7 ?a8 ?a9 ?a10 ?a11 ?a12 ?a13 ?a14 = Ok ?r1,
               E2 : ab_loop child ?n (retrace ?s _ _) ?b ?p ?a1 ?a2 ?a3 ?a4 ?a5 ?a6 ?a7 ?a8 ?a9 ?a10 ?a11 ?a12 ?a13 ?a14 = Ok ?r2 |- _ =>
                 let Hr := fresh "Hr" in pose proof (ab_loop_det _ _ _ _ _ _ _ _ _ _ _ _ _ _ _ _ _ _ _ _ _ _ E1 E2) as Hr; clear E2; fix_pair r1 r2 Hr
             end.

    Lemma ab_body_det : ab_det (ab_body o child qs).
    Proof.
      intros s t g b al be d ply nt r1 r2 H1 H2. unfold ab_body in H1, H2.
      lockstep ltac:(first [progress pair_child | progress pair_node]).
      all: try (apply rrel_intro).
      all: try (eapply Hq; eassumption).
    Qed.
  End Node.

  Lemma alphaBeta_det : forall fuel, ab_det (alphaBeta fuel o).
  Proof.
    induction fuel as [|f IH]; intros s t g b al be d ply nt r1 r2 H1 H2; [discriminate H1|].
    cbn [alphaBeta] in H1, H2. exact (ab_body_det _ _ IH (quiescence_det f) _ _ _ _ _ _ _ _ _ _ _ H1 H2).
  Qed.

  (* ---- iterative deepening, Go ---- *)
  Ltac pair_ab fuel :=
    repeat match goal with
           | E1 : alphaBeta fuel o ?s ?b ?a1 ?a2 ?a3 ?a4 ?a5 = Ok ?r1, E2 : alphaBeta fuel o (retrace ?s _ _) ?b ?a1 ?a2 ?a3 ?a4 ?a5 = Ok ?r2 |- _ =>
               let Hr := fresh "Hr" in pose proof (alphaBeta_det fuel _ _ _ _ _ _ _ _ _ _ _ E1 E2) as Hr; clear E2;
               try (is_var r1; destruct r1 as [[? ?] ?]); try (is_var r2; destruct r2 as [[? ?] ?]); use_rrel Hr
           end.

  Definition asp_rel (a1 a2 : asp) : Prop :=
    match a1, a2 with
    | AspOk s1 st1 b1, AspOk s2 st2 b2 => s1 = s2 /\ b1 = b2 /\ core_eq st1 st2
    | AspAbort st1 b1, AspAbort st2 b2 => b1 = b2 /\ core_eq st1 st2
    | _, _ => False
    end.

  Lemma aspire_det fuel : forall n s t g b al be f d a1 a2,
    aspire fuel o n s b al be f d = Ok a1 -> aspire fuel o n (retrace s t g) b al be f d = Ok a2 -> asp_rel a1 a2.
  Proof.
    induction n as [|n IH]; intros s t g b al be f d a1 a2 H1 H2; [discriminate H1|].
    cbn [aspire] in H1, H2.
    repeat (first [ absurd_case | progress rt_norm | progress (cbn [bind of_opt] in * ) | progress (pair_ab fuel) | walk_step ]).
    all: try (eapply IH; eassumption).
    all: cbn; repeat split; try reflexivity; eexists _, _; reflexivity.
  Qed.

  Lemma fallback_det s t g b mv1 s1 b1 mv2 s2 b2 :
    fallback s b = Ok (mv1, s1, b1) -> fallback (retrace s t g) b = Ok (mv2, s2, b2) ->
    mv1 = mv2 /\ b1 = b2 /\ core_eq s1 s2.
  Proof.
    intros H1 H2. unfold fallback in H1, H2.
    repeat (first [ absurd_case | progress rt_norm | progress (cbn [bind of_opt] in * ) | walk_step ]).
    all: repeat split; try reflexivity; try congruence; try (eexists _, _; reflexivity).
  Qed.

  Lemma deepen_det fuel : forall todo s t g b d al be sc mv pd reps r1 s1 b1 r2 s2 b2,
    deepen fuel o todo s b d al be sc mv pd reps = Ok (r1, s1, b1) ->
    deepen fuel o todo (retrace s t g) b d al be sc mv pd reps = Ok (r2, s2, b2) ->
    r1 = r2 /\ b1 = b2 /\ core_eq s1 s2.
  Proof.
    induction todo as [|n IH]; intros s t g b d al be sc mv pd reps r1 s1 b1 r2 s2 b2 H1 H2; cbn [deepen] in H1, H2.
    - walk. repeat split. eexists _, _. reflexivity.
    - destruct (negb ((d <? SearchParams.MaxPlies) && (d <=? o_depth o))).
      { walk. repeat split. eexists _, _. reflexivity. }
      destruct (aspire fuel o 64 s b al be 1 d) as [a1| |] eqn:E1; cbn [bind] in H1; try discriminate H1.
      destruct (aspire fuel o 64 (retrace s t g) b al be 1 d) as [a2| |] eqn:E2; cbn [bind] in H2; try discriminate H2.
      pose proof (aspire_det fuel _ _ _ _ _ _ _ _ _ _ _ E1 E2) as Ha.
      destruct a1 as [x1 st1 bb1|st1 bb1], a2 as [x2 st2 bb2|st2 bb2]; cbn in Ha; try contradiction.
      + destruct Ha as (-> & -> & (t' & g' & ->)). rt_norm.
        repeat (first [ absurd_case | progress rt_norm | progress (cbn [bind of_opt] in * ) | walk_step ]).
        all: try (eapply IH; eassumption).
        all: repeat split; eexists _, _; reflexivity.
      + destruct Ha as (-> & (t' & g' & ->)). rt_norm.
        destruct (mv =? 0).
        * destruct (fallback st1 bb2) as [[[m1 x1] y1]| |] eqn:F1; cbn [bind] in H1; try discriminate H1.
          destruct (fallback (retrace st1 t' g') bb2) as [[[m2 x2] y2]| |] eqn:F2; cbn [bind] in H2; try discriminate H2.
          destruct (fallback_det _ _ _ _ _ _ _ _ _ _ F1 F2) as (-> & -> & Hc). walk. repeat split. exact Hc.
        * walk. repeat split. eexists _, _. reflexivity.
  Qed.

  Theorem go_det fuel s t g b r1 s1 b1 r2 s2 b2 :
    go fuel o s b = Ok (r1, s1, b1) -> go fuel o (retrace s t g) b = Ok (r2, s2, b2) ->
    r1 = r2 /\ b1 = b2 /\ core_eq s1 s2.
  Proof.
    intros H1 H2. unfold go, iterative_deepen in H1, H2. rt_norm.
    match type of H1 with bind ?e _ = _ => destruct e as [[[x1 y1] z1]| |] eqn:E1 end; cbn [bind] in H1; try discriminate H1.
    match type of H2 with bind ?e _ = _ => destruct e as [[[x2 y2] z2]| |] eqn:E2 end; cbn [bind] in H2; try discriminate H2.
    destruct (deepen_det fuel _ _ _ _ _ _ _ _ _ _ _ _ _ _ _ _ _ _ E1 E2) as (-> & -> & (t' & g' & ->)).
    walk. rt_norm. repeat split. eexists _, _. reflexivity.
  Qed.
End Det.