package streams

// Stream "search": whole searches on a real search.Search against the closed executable model
// coq/Model/Search.v (run_search in coq/Model/SearchStreams.v).
//
// input : ttBytes tracePly nReq { hasDepth depth nodes softNodes board-in }*nReq
// output: per request
//           nLines { 1 depth scoreKind scoreMinus scoreNumber nodes hashfull nPv pv.. | 2 depth nodes }*
//           score move ponder Counters.Nodes aborted generation boardUntouched
//         then the persistent state of the engine
//           nBuckets { ix pKeys { move value depth type gen }*4 }*   (non-empty buckets)
//           nHist { ix v }* nCapt { ix v }* nCont0 { ix v }* nCont1 { ix v }*   (non-zero cells)
//
// One engine serves the requests of a case in order, so table, history tables, PV buffer and
// generation counter carry over from request to request. No stop channel, no time limit: the search
// is limited by depth, hard node budget and soft node budget only. tracePly is only read by the
// model (debugging log); the generator always emits -1.

import (
	"bytes"
	"fmt"
	"reflect"
	"sort"
	"strconv"
	"strings"
	"unsafe"

	"github.com/paulsonkoly/chess-3/board"
	. "github.com/paulsonkoly/chess-3/chess"
	"github.com/paulsonkoly/chess-3/heur"
	"github.com/paulsonkoly/chess-3/search"
	"github.com/paulsonkoly/chess-3/transp"

	"verifharness/hx"
)

func init() {
	hx.Register(&hx.Stream{Name: "search", Gen: genSearchModel, Run: runSearchModel, Shrink: shrinkSearch, Describe: describeSearch})
}

type smReq struct {
	HasDepth  bool
	Depth     int
	Nodes     int
	SoftNodes int
	B         *board.Board
}

// smEngineParts reaches the engine's private table and move ranker (no hook exists for them).
func smEngineParts(s *search.Search) (*transp.Table, *heur.MoveRanker) {
	v := reflect.ValueOf(s).Elem()
	ttf, rk := v.FieldByName("tt"), v.FieldByName("ranker")
	if !ttf.IsValid() || !rk.IsValid() || ttf.Type() != reflect.TypeOf((*transp.Table)(nil)) ||
		rk.Type() != reflect.TypeOf(heur.MoveRanker{}) {
		panic("search.Search: fields tt / ranker are not where they are expected")
	}
	return (*transp.Table)(ttf.UnsafePointer()), (*heur.MoveRanker)(unsafe.Pointer(rk.UnsafeAddr()))
}

func smScore(out *hx.Nums, text string, val string) {
	switch text {
	case "cp":
		v, _ := strconv.Atoi(val)
		out.Int(1, 0, v)
	case "mate":
		minus := strings.HasPrefix(val, "-")
		v, _ := strconv.Atoi(strings.TrimPrefix(val, "-"))
		out.Int(2).B(minus).Int(v)
	default:
		out.Int(0, 0, 0)
	}
}

func smRunOne(s *search.Search, r smReq, out *hx.Nums) {
	cnt := search.Counters{}
	var buf bytes.Buffer
	opts := []search.Option{search.WithCounters(&cnt), search.WithOutput(&buf)}
	if r.HasDepth {
		opts = append(opts, search.WithDepth(Depth(r.Depth)))
	}
	if r.Nodes >= 0 {
		opts = append(opts, search.WithNodes(r.Nodes))
	}
	if r.SoftNodes >= 0 {
		opts = append(opts, search.WithSoftNodes(r.SoftNodes))
	}
	before := r.B.VerifSnapshot()
	score, mv, ponder := s.Go(r.B, opts...)
	after := r.B.VerifSnapshot()
	var lines []string
	for _, l := range strings.Split(buf.String(), "\n") {
		if strings.TrimSpace(l) != "" {
			lines = append(lines, l)
		}
	}
	out.Int(len(lines))
	for _, l := range lines {
		in := sbParseInfo(l)
		switch in.Kind {
		case 1:
			f := strings.Fields(l)
			out.Int(1, in.Depth)
			smScore(out, f[4], f[5])
			out.Int(in.Nodes, in.HashFull, len(in.PV))
			for _, t := range in.PV {
				out.U(uint64(smParseMove(t)))
			}
		case 2:
			out.Int(2, in.Depth, in.Nodes)
		default:
			out.Int(0)
		}
	}
	out.I(int64(score)).U(hx.M2U(mv), hx.M2U(ponder)).Int(cnt.Nodes).B(s.VerifAborted()).Int(s.VerifGen())
	out.B(sbSnapEqual(before, after))
}

// smParseMove turns the printed form of a move back into its encoding (from<<6 | to | promo<<12).
func smParseMove(t string) uint16 {
	if t == "0000" || len(t) < 4 {
		return 0
	}
	sq := func(f, r byte) uint16 { return uint16(r-'1')*8 + uint16(f-'a') }
	m := sq(t[0], t[1])<<6 | sq(t[2], t[3])
	if len(t) >= 5 {
		m |= uint16(strings.IndexByte(" pnbrqk", t[4])) << 12
	}
	return m
}

func smDigest(s *search.Search, out *hx.Nums) {
	tt, rk := smEngineParts(s)
	type bk struct {
		ix int
		pk uint64
		es [4]transp.VerifEntry
	}
	var bs []bk
	for ix := 0; ix < tt.VerifLen(); ix++ {
		pk, es := tt.VerifBucket(ix)
		nz := pk != 0
		for _, e := range es {
			if e.Move != 0 || e.Value != 0 || e.Depth != 0 || e.Type != 0 || e.Gen != 0 {
				nz = true
			}
		}
		if nz {
			bs = append(bs, bk{ix, pk, es})
		}
	}
	out.Int(len(bs))
	for _, b := range bs {
		out.Int(b.ix).U(b.pk)
		for _, e := range b.es {
			out.U(hx.M2U(e.Move)).I(int64(e.Value), int64(e.Depth)).U(uint64(e.Type), uint64(e.Gen))
		}
	}
	hist, capt, c0, c1 := rk.VerifTables()
	cells := func(n int, get func(k int) Score) {
		var ks, vs []int
		for k := 0; k < n; k++ {
			if v := get(k); v != 0 {
				ks, vs = append(ks, k), append(vs, int(v))
			}
		}
		out.Int(len(ks))
		for i := range ks {
			out.Int(ks[i], vs[i])
		}
	}
	cells(2*64*64, func(k int) Score { return hist.LookUp(Color(k/4096), Square(k/64%64), Square(k%64)) })
	cells(6*5*64, func(k int) Score { return capt.LookUp(Piece(k/320)+Pawn, Piece(k/64%5)+Pawn, Square(k%64)) })
	cont := func(c *heur.Continuation) func(k int) Score {
		return func(k int) Score {
			to, k1 := k%64, k/64
			p, k2 := k1%6, k1/6
			th, k3 := k2%64, k2/64
			ph, stm := k3%6, k3/6
			return c.LookUp(Color(stm), Piece(ph+1), Square(th), Piece(p+1), Square(to))
		}
	}
	cells(2*6*64*6*64, cont(c0))
	cells(2*6*64*6*64, cont(c1))
}

func smDecode(a hx.Args) (ttBytes int, reqs []smReq, ok bool) {
	if a.Len() < 3 {
		return 0, nil, false
	}
	ttBytes = a.Int(0)
	n := a.Int(2)
	i := 3
	for k := 0; k < n; k++ {
		if i+4+14 > a.Len() {
			return 0, nil, false
		}
		r := smReq{HasDepth: a.Int(i) != 0, Depth: a.Int(i + 1), Nodes: a.Int(i + 2), SoftNodes: a.Int(i + 3)}
		r.B, i = a.Board(i + 4)
		reqs = append(reqs, r)
	}
	return ttBytes, reqs, true
}

func runSearchModel(a hx.Args) string {
	ttBytes, reqs, ok := smDecode(a)
	if !ok {
		return "badinput"
	}
	s := search.New(ttBytes)
	out := &hx.Nums{}
	for _, r := range reqs {
		smRunOne(s, r, out)
	}
	smDigest(s, out)
	return out.String()
}

// ---------------------------------------------------------------------------------------------
// generator

type smCase struct {
	TT   int
	Reqs []smReq
	Tags []string
	Name string
}

func (c smCase) input(tracePly int) hx.Input {
	n := &hx.Nums{}
	n.Int(c.TT, tracePly, len(c.Reqs))
	var ds []string
	for _, r := range c.Reqs {
		n.B(r.HasDepth).Int(r.Depth, r.Nodes, r.SoftNodes).BoardIn(r.B)
		d := "default"
		if r.HasDepth {
			d = strconv.Itoa(r.Depth)
		}
		s := r.B.VerifSnapshot()
		ds = append(ds, fmt.Sprintf("{%q hist=%d depth=%s nodes=%d soft=%d}", r.B.FEN(), len(s.Hashes), d, r.Nodes, r.SoftNodes))
	}
	return hx.Input{In: n.String(), Desc: fmt.Sprintf("%s tt=%d %s", c.Name, c.TT, strings.Join(ds, " ")),
		Tags: c.Tags, NonTrivial: true}
}

// smProbe runs the case on a real engine and returns the nodes each request used (the generator
// uses it to keep cases small and to aim hard budgets at interesting places).
func smProbe(c smCase) []int {
	s := search.New(c.TT)
	var ns []int
	for _, r := range c.Reqs {
		cnt := search.Counters{}
		opts := []search.Option{search.WithCounters(&cnt), search.WithOutput(nil)}
		if r.HasDepth {
			opts = append(opts, search.WithDepth(Depth(r.Depth)))
		}
		if r.Nodes >= 0 {
			opts = append(opts, search.WithNodes(r.Nodes))
		}
		if r.SoftNodes >= 0 {
			opts = append(opts, search.WithSoftNodes(r.SoftNodes))
		}
		s.Go(r.B, opts...)
		ns = append(ns, cnt.Nodes)
	}
	return ns
}

// smNoDepth: WithDepth is not passed.
const smNoDepth = -999

func smClone(b *board.Board) *board.Board { return board.VerifRestore(b.VerifSnapshot()) }

func genSearchModel(rng *hx.Rng, n int, tier string, emit func(hx.Input)) {
	roots := sbRoots()
	epd := sbEpdRoots()
	cap, maxDepth := 3000, 4 // node cap per request, largest depth limit
	if tier == "thorough" {
		cap, maxDepth = 8000, 5
	}
	sizes := []int{32000, 32768, 65536, 1 << 20}
	var cases []smCase
	// positions with very many moves (the 16-queen root) cost the model ten times more per node
	heavy := func(b *board.Board) bool { return len(sbLegalMoves(b)) > 50 }
	add := func(c smCase) {
		for i := range c.Reqs {
			if r := &c.Reqs[i]; heavy(r.B) && (r.Nodes < 0 || r.Nodes > cap/8) {
				r.Nodes = cap / 8
			}
		}
		cases = append(cases, c)
	}
	req := func(b *board.Board, depth, nodes, soft int) smReq {
		r := smReq{HasDepth: depth != smNoDepth, Depth: depth, Nodes: nodes, SoftNodes: soft, B: smClone(b)}
		if depth == smNoDepth {
			r.Depth = 0
		}
		return r
	}
	pickRoot := func() sbRoot {
		switch rng.Intn(5) {
		case 0, 1:
			return roots[rng.Intn(len(roots))]
		case 2:
			return sbRandomWalk(rng, roots[rng.Intn(len(roots))], rng.Intn(10))
		default:
			if len(epd) == 0 {
				return roots[rng.Intn(len(roots))]
			}
			r := epd[rng.Intn(len(epd))]
			if rng.Chance(0.5) {
				r = sbRandomWalk(rng, r, rng.Intn(12))
			}
			return r
		}
	}
	// 1. every fixed root: depth-limited searches on a fresh small table, then the same again on the
	// warmed engine
	for i, root := range roots {
		b := sbBoard(root)
		d := 1 + i%3
		add(smCase{TT: sizes[i%len(sizes)], Name: root.Name, Tags: []string{"fixed-root", "root:" + strings.SplitN(root.Name, "-", 2)[0]},
			Reqs: []smReq{req(b, d, cap, -1), req(b, d+1, cap, -1)}})
	}
	// 2. abort points: hard budgets k swept over small ranges on a few roots
	sweep := []string{"startpos", "in-check", "single-reply", "promotion-both", "en-passant", "castling", "clock-99-mate-in-1", "second-occurrence", "middlegame"}
	kmax := 12
	if tier == "thorough" {
		kmax = 120
	}
	for _, root := range roots {
		in := false
		for _, s := range sweep {
			in = in || s == root.Name
		}
		if !in {
			continue
		}
		b := sbBoard(root)
		for k := 0; k <= kmax; k++ {
			add(smCase{TT: 32768, Name: root.Name, Tags: []string{"abort-sweep"}, Reqs: []smReq{req(b, smNoDepth, k, -1)}})
		}
	}
	// 3. odd depth limits (Depth is an int8) and a table too small for HashFull (panics on its first line)
	for i, d := range []int{0, -1, -128, 63, 64, 100, 127} {
		root := roots[(i*7)%len(roots)]
		add(smCase{TT: 32768, Name: root.Name, Tags: []string{"odd-depth"}, Reqs: []smReq{req(sbBoard(root), d, 300, -1)}})
	}
	add(smCase{TT: 3200, Name: roots[0].Name, Tags: []string{"tiny-table"}, Reqs: []smReq{req(sbBoard(roots[0]), 1, 100, -1)}})
	// 4. random cases
	for len(cases) < n {
		root := pickRoot()
		b := sbBoard(root)
		if b == nil {
			continue
		}
		c := smCase{TT: sizes[rng.Intn(len(sizes))], Name: root.Name}
		switch rng.Intn(7) {
		case 6: // all three limits at once
			c.Tags = []string{"all-limits"}
			c.Reqs = []smReq{req(b, 1+rng.Intn(maxDepth), rng.Intn(cap), rng.Intn(cap/2))}
		case 0: // one depth-limited search
			c.Tags = []string{"depth"}
			c.Reqs = []smReq{req(b, 1+rng.Intn(maxDepth), cap, -1)}
		case 1: // random hard budget anywhere below the cap
			c.Tags = []string{"random-abort"}
			c.Reqs = []smReq{req(b, smNoDepth, rng.Intn(cap), -1)}
		case 2: // soft limit, then the hard-limited replay of it on the same (now warmed) engine
			c.Tags = []string{"soft-then-hard"}
			soft := 1 + rng.Intn(cap/3)
			c.Reqs = []smReq{req(b, smNoDepth, cap, soft)}
			ns := smProbe(c)
			c.Reqs = append(c.Reqs, req(b, smNoDepth, ns[0], -1))
		case 3: // a short game: every reply searched on the same engine
			c.Tags = []string{"game"}
			g := smClone(b)
			s := search.New(c.TT)
			for ply := 0; ply < 2+rng.Intn(3); ply++ {
				r := req(g, 1+rng.Intn(3), cap/2, -1)
				c.Reqs = append(c.Reqs, r)
				cnt := search.Counters{}
				_, m, _ := s.Go(smClone(g), search.WithCounters(&cnt), search.WithOutput(nil), search.WithDepth(Depth(r.Depth)), search.WithNodes(r.Nodes))
				if m == 0 || !sbIsLegal(g, m) {
					break
				}
				g.MakeMove(m)
			}
		case 4: // abort, then search again (the engine must be usable after an abort)
			c.Tags = []string{"abort-then-search"}
			c.Reqs = []smReq{req(b, smNoDepth, rng.Intn(200), -1), req(b, 1+rng.Intn(3), cap, -1)}
		case 5: // different roots on one engine
			c.Tags = []string{"two-roots"}
			other := sbBoard(pickRoot())
			c.Reqs = []smReq{req(b, 1+rng.Intn(3), cap/2, -1), req(other, 1+rng.Intn(3), cap/2, -1), req(b, smNoDepth, cap/2, 1+rng.Intn(300))}
		}
		c.Tags = append(c.Tags, "root:"+strings.SplitN(root.Name, "-", 2)[0], fmt.Sprintf("tt:%d", c.TT))
		add(c)
	}
	// The model side is run in 16 contiguous shards of equal line count (lib/vcheck.py): order the cases
	// so that every shard carries a similar load. Cost estimate = nodes the real engine spends,
	// weighted by the table size (the model's table is a list).
	const shards = 16
	for len(cases)%shards != 0 {
		root := pickRoot()
		if b := sbBoard(root); b != nil {
			add(smCase{TT: 32768, Name: root.Name, Tags: []string{"depth", "padding"}, Reqs: []smReq{req(b, 1+rng.Intn(3), cap/4, -1)}})
		}
	}
	cost := make([]float64, len(cases))
	for i, c := range cases {
		for _, nd := range smProbe(c) {
			cost[i] += float64(nd)
		}
		cost[i] = cost[i]*(1+float64(c.TT)/1e6) + 50
		if heavy(c.Reqs[0].B) {
			cost[i] *= 10
		}
	}
	order := make([]int, len(cases))
	for i := range order {
		order[i] = i
	}
	sort.SliceStable(order, func(x, y int) bool { return cost[order[x]] > cost[order[y]] })
	bins := make([][]int, shards)
	for k, ix := range order {
		round, pos := k/shards, k%shards
		if round%2 == 1 {
			pos = shards - 1 - pos
		}
		bins[pos] = append(bins[pos], ix)
	}
	for _, bin := range bins {
		for _, ix := range bin {
			emit(cases[ix].input(-1))
		}
	}
}
