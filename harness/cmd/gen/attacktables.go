package main

import (
	"github.com/paulsonkoly/chess-3/attacks"
	"github.com/paulsonkoly/chess-3/chess"
)

// Gen/AttackTables.v: the constant tables behind the attack lookups of attacks/tables.go as the
// working tree has them now (read through the verif hook VerifGetTables): relevant-occupancy masks,
// magic multipliers and shifts of bishops and rooks, and the king / knight tables.
func init() {
	generators = append(generators, func() {
		f := newFile("AttackTables.v", "From Coq Require Import NArith List.\nImport ListNotations.\nOpen Scope N_scope.")
		t := attacks.VerifGetTables()
		list64 := func(name string, get func(i int) uint64) {
			f.p("Definition %s : list N := [\n", name)
			for i := 0; i < 64; i++ {
				sep := ";"
				if i == 63 {
					sep = ""
				}
				f.p(" %d%s", get(i), sep)
				if i%4 == 3 {
					f.p("\n")
				}
			}
			f.p("].\n")
		}
		list64("king_table", func(i int) uint64 { return uint64(t.King[i]) })
		list64("knight_table", func(i int) uint64 { return uint64(t.Knight[i]) })
		list64("bishop_masks", func(i int) uint64 { return uint64(t.BishopMasks[i]) })
		list64("bishop_magics", func(i int) uint64 { return uint64(t.BishopMagics[i]) })
		list64("bishop_shifts", func(i int) uint64 { return uint64(t.BishopShifts[i]) })
		list64("rook_masks", func(i int) uint64 { return uint64(t.RookMasks[i]) })
		list64("rook_magics", func(i int) uint64 { return uint64(t.RookMagics[i]) })
		list64("rook_shifts", func(i int) uint64 { return uint64(t.RookShifts[i]) })
		f.p("(* lengths of the second dimension of bishopAttacks / rookAttacks *)\n")
		f.p("Definition bishop_table_size : N := %d.\n", tableSize(attacks.VerifBishopCell))
		f.p("Definition rook_table_size : N := %d.\n", tableSize(attacks.VerifRookCell))
	})
}

// tableSize finds the length of the second dimension of an attack table through the cell hook: the
// first index whose access panics (index out of range).
func tableSize(cell func(sq, ix int) chess.BitBoard) int {
	ok := func(ix int) (good bool) {
		defer func() {
			if recover() != nil {
				good = false
			}
		}()
		_ = cell(0, ix)
		return true
	}
	n := 0
	for n < 1<<24 && ok(n) {
		n++
	}
	return n
}
