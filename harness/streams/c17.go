package streams

import (
	"fmt"
	"math/bits"
	"strings"

	"github.com/paulsonkoly/chess-3/board"
	. "github.com/paulsonkoly/chess-3/chess"
	"github.com/paulsonkoly/chess-3/eval"

	"verifharness/hx"
	"verifharness/posgen"
)

// c17: [n] ++ n board-in records -> the n evaluations eval.Eval(b, &eval.Coefficients), in order.
//
//	board 0      a "previous evaluation": some other position whose hash history is that of board 1
//	board 1      the position
//	board 2      its mirror image (ranks flipped, colours and side to move swapped, castling rights
//	             and en-passant target mirrored)
//	board 3..    variants of board 1 that differ ONLY in castling rights / en-passant state /
//	             fullmove number / hash history; the last one is an exact copy
//
// The implementation side evaluates board 0 on a fresh Board object and every later board on the SAME
// object (overwritten in place), so state that survives between evaluations - in the board or in
// the eval package - shows.  The model (Model/Eval.v run_c17) evaluates every record it is given;
// the judge (Spec/EvalSym.v judge_c17) re-checks the shape of the case and demands
// eval(2) = eval(1) and eval(k) = eval(1) for k >= 3.  Board 0 is not judged.
func init() {
	hx.Register(&hx.Stream{Name: "c17", Gen: genC17, Run: runC17})
}

func runC17(a hx.Args) string {
	n := a.Int(0)
	i := 1
	out := &hx.Nums{}
	var obj *board.Board
	for k := 0; k < n; k++ {
		var b *board.Board
		b, i = a.Board(i)
		if obj == nil {
			obj = b
		} else {
			*obj = *b // reuse the object
		}
		out.Int(int(eval.Eval(obj, &eval.Coefficients)))
	}
	return out.String()
}

// mirrorSnap returns the colour-flipped mirror image of s (hash history left empty).
func mirrorSnap(s board.VerifSnap) board.VerifSnap {
	var m board.VerifSnap
	for sq := 0; sq < 64; sq++ {
		m.SquaresToPiece[sq^56] = s.SquaresToPiece[sq]
	}
	for p := range s.Pieces {
		m.Pieces[p] = BitBoard(bits.ReverseBytes64(uint64(s.Pieces[p])))
	}
	m.Colors[White] = BitBoard(bits.ReverseBytes64(uint64(s.Colors[Black])))
	m.Colors[Black] = BitBoard(bits.ReverseBytes64(uint64(s.Colors[White])))
	m.STM = s.STM.Flip()
	if s.EnPassant != 0 {
		m.EnPassant = s.EnPassant ^ 56
	}
	m.Castles = (s.Castles >> 2) | ((s.Castles & 3) << 2)
	m.FiftyCnt = s.FiftyCnt
	m.FullMoves = s.FullMoves
	return m
}

func withHash(s board.VerifSnap) *board.Board {
	b := board.VerifRestore(s)
	s.Hashes = []board.Hash{b.VerifCalcHash()}
	return board.VerifRestore(s)
}

// maxRights is the largest set of castling rights consistent with the placement.
func maxRights(s *board.VerifSnap) Castles {
	has := func(c Color, p Piece, sq Square) bool {
		return s.SquaresToPiece[sq] == p && s.Colors[c]&(1<<sq) != 0
	}
	var r Castles
	if has(White, King, E1) && has(White, Rook, H1) {
		r |= ShortWhite
	}
	if has(White, King, E1) && has(White, Rook, A1) {
		r |= LongWhite
	}
	if has(Black, King, E8) && has(Black, Rook, H8) {
		r |= ShortBlack
	}
	if has(Black, King, E8) && has(Black, Rook, A8) {
		r |= LongBlack
	}
	return r
}

// epCandidates lists the en-passant targets that keep the position valid.
func epCandidates(s board.VerifSnap) []Square {
	var res []Square
	for f := Square(0); f < 8; f++ {
		ep := f + 40 // sixth rank, White to move
		if s.STM == Black {
			ep = f + 16
		}
		if ep == s.EnPassant {
			continue
		}
		t := s
		t.EnPassant = ep
		if posgen.Valid(board.VerifRestore(t)) {
			res = append(res, ep)
		}
	}
	return res
}

type c17Case struct {
	in    string
	desc  string
	tags  []string
	key   string
	nontr bool
}

// buildC17 assembles one case from the position p and a decoy position.
func buildC17(rng *hx.Rng, p *board.Board, decoy *board.Board, kind, desc string) c17Case {
	s := p.VerifSnapshot()
	if len(s.Hashes) == 0 {
		s.Hashes = []board.Hash{p.VerifCalcHash()}
	}
	var boards []board.VerifSnap
	// board 0: the decoy with the position's hash history
	d := decoy.VerifSnapshot()
	d.Hashes = append([]board.Hash(nil), s.Hashes...)
	boards = append(boards, d)
	boards = append(boards, s)
	m := withHash(mirrorSnap(s)).VerifSnapshot()
	boards = append(boards, m)

	variant := func(f func(v *board.VerifSnap)) {
		v := s
		v.Hashes = append([]board.Hash(nil), s.Hashes...)
		f(&v)
		boards = append(boards, v)
	}
	mr := maxRights(&s)
	variant(func(v *board.VerifSnap) { v.Hashes = append([]board.Hash(nil), m.Hashes...) }) // the mirror's hash
	variant(func(v *board.VerifSnap) { v.Castles = 0 })
	variant(func(v *board.VerifSnap) { v.Castles = mr })
	variant(func(v *board.VerifSnap) { v.Castles = mr & Castles(rng.Intn(16)) })
	variant(func(v *board.VerifSnap) { v.EnPassant = 0 })
	eps := epCandidates(s)
	variant(func(v *board.VerifSnap) {
		if len(eps) > 0 {
			v.EnPassant = eps[rng.Intn(len(eps))]
		} else {
			v.EnPassant = 0
		}
	})
	variant(func(v *board.VerifSnap) { v.FullMoves = s.FullMoves + 1 + rng.Intn(300) })
	variant(func(v *board.VerifSnap) { v.FullMoves = 1 })
	variant(func(v *board.VerifSnap) { // junk history
		k := 1 + rng.Intn(6)
		v.Hashes = nil
		for j := 0; j < k; j++ {
			v.Hashes = append(v.Hashes, board.Hash(rng.U64()))
		}
	})
	variant(func(v *board.VerifSnap) { // history with repetitions of the current hash
		h := s.Hashes[len(s.Hashes)-1]
		v.Hashes = []board.Hash{h, board.Hash(rng.U64()), h, board.Hash(rng.U64()), h}
	})
	variant(func(v *board.VerifSnap) { // everything at once
		v.Castles = mr & Castles(rng.Intn(16))
		v.EnPassant = 0
		v.FullMoves = rng.Intn(500)
		v.Hashes = []board.Hash{board.Hash(rng.U64())}
	})
	variant(func(v *board.VerifSnap) {}) // exact copy, evaluated last on the reused object

	nums := (&hx.Nums{}).Int(len(boards))
	for k := range boards {
		nums.BoardIn(board.VerifRestore(boards[k]))
	}
	tags := append(posgen.Tags(p), kind)
	nontr := true
	switch {
	case (p.Colors[White] | p.Colors[Black]).Count() == 2:
		tags = append(tags, "bare-kings")
		nontr = false
	case eval.VerifInsufficientMat(p):
		tags = append(tags, "insufficient-material")
	case eval.KNBvK(p):
		tags = append(tags, "KNBvK")
	}
	if len(eps) > 0 {
		tags = append(tags, "ep-variant-possible")
	}
	if mr != 0 {
		tags = append(tags, "castling-variant-possible")
	}
	if p.FiftyCnt > 0 {
		tags = append(tags, "fifty>0")
	}
	mb := board.VerifRestore(m)
	return c17Case{in: nums.String(),
		desc:  fmt.Sprintf("%s | position fen %s | mirror fen %s | previous evaluation on fen %s", desc, p.FEN(), mb.FEN(), decoy.FEN()),
		tags:  tags,
		key:   p.FEN(),
		nontr: nontr}
}

// material placements for the special endings: random squares for the listed pieces
// (upper case White), rejection-filtered by posgen.Valid
func placeMaterial(rng *hx.Rng, mat string) *board.Board {
	for try := 0; try < 50; try++ {
		var sq [64]byte
		ok := true
		for _, c := range []byte(mat) {
			placed := false
			for t := 0; t < 30 && !placed; t++ {
				s := rng.Intn(64)
				if sq[s] != 0 || ((c == 'p' || c == 'P') && (s < 8 || s >= 56)) {
					continue
				}
				// bias kings towards edges and corners now and then (corner distance term)
				if (c == 'k' || c == 'K') && rng.Chance(0.3) {
					s = []int{0, 7, 56, 63, 1, 8, 62, 55, 6, 15, 57, 48}[rng.Intn(12)]
					if sq[s] != 0 {
						continue
					}
				}
				sq[s] = c
				placed = true
			}
			ok = ok && placed
		}
		if !ok {
			continue
		}
		var sb strings.Builder
		for r := 7; r >= 0; r-- {
			e := 0
			for f := 0; f < 8; f++ {
				c := sq[r*8+f]
				if c == 0 {
					e++
					continue
				}
				if e > 0 {
					sb.WriteByte(byte('0' + e))
					e = 0
				}
				sb.WriteByte(c)
			}
			if e > 0 {
				sb.WriteByte(byte('0' + e))
			}
			if r > 0 {
				sb.WriteByte('/')
			}
		}
		fen := fmt.Sprintf("%s %c - - %d %d", sb.String(), "wb"[rng.Intn(2)], rng.Intn(100), 1+rng.Intn(80))
		b, err := board.FromFEN(fen)
		if err != nil || !posgen.Valid(b) {
			continue
		}
		return b
	}
	return nil
}

var c17Materials = []string{
	// bare kings, insufficient material and its neighbours
	"Kk", "KkN", "Kkn", "KkB", "Kkb", "KkNN", "Kknn", "KkNn", "KkBb", "KkBn", "KkNb", "KkNNn", "KkBNn", "KkBbn",
	"KkBB", "Kkbb", "KkNNN", "KkBBb", "KkBNb", "KkNNNN",
	// knight + bishop mate, both colours
	"KkNB", "Kknb", "KkNB", "Kknb", "KkNB", "Kknb",
	// sole passer / king distance terms, promoted material
	"KkP", "Kkp", "KkPp", "KkRP", "Kkrp", "KkQQ", "Kkqqq", "KkRRR", "KkQp", "KkNNNP", "KkBBBp", "KkRrPp", "KkNBPp", "KkQRBNqrbn",
	"KkPPPppp", "KkRRrrPPpp", "KkNnPPPpp", "KkBbPPppp",
	// knights among pawns (outposts, holes), rooks (connected rooks, file/rank mobility)
	"KkNNnnPPPPpppp", "KkNnBbPPPPPppppp", "KkNNNnnnPPpp", "KkRRrrNnPPPppp", "KkQqRrBbNnPPPPpppp",
}

func genC17(rng *hx.Rng, n int, tier string, emit func(hx.Input)) {
	cnt := 0
	decoy, _ := board.FromFEN(StartPosFEN)
	out := func(c c17Case) {
		emit(hx.Input{In: c.in, Desc: c.desc, Tags: c.tags, NonTrivial: c.nontr, Key: c.key})
		cnt++
	}
	for cnt < n {
		// special material: about a quarter of the cases
		for k := 0; k < 16 && cnt < n; k++ {
			mat := c17Materials[rng.Intn(len(c17Materials))]
			if b := placeMaterial(rng, mat); b != nil {
				c := buildC17(rng, b, decoy, "material:"+mat, "material "+mat)
				decoy = board.VerifRestore(b.VerifSnapshot())
				out(c)
			}
		}
		posgen.Stream(rng, 48, func(p posgen.Pos) {
			if cnt >= n {
				return
			}
			c := buildC17(rng, p.B, decoy, p.Kind, p.Desc())
			decoy = board.VerifRestore(p.B.VerifSnapshot())
			out(c)
		})
	}
}
