(* Control skeleton of search/search.go ("Layer A" of C06/C07/C08): syntax of the statement trees
   that harness/cmd/gen/skel.go emits into Gen/SearchSkel.v, and their big-step semantics over an
   abstract machine.  Definitions only; proofs are in Proofs/SkelProofs.v.

   What the machine keeps of the real engine state:
     board      the position object *b (abstract type B), changed only by Make/Undo/MakeNull/UndoNull
     made       ghost: the moves currently made on top of the board (None = null move)
     ms_alloc / ms_frames   move.Store.allocIx and the saved indices of move.Store.frames
     hdepth     stack.Stack.sp of s.hstack
     nodes / budget / ponder / aborted   opts.Counters.Nodes, opts.Nodes, opts.PonderHit != nil, s.aborted
     stores     ghost: number of persistent-store events (s.tt.Insert, s.ranker.FailHigh)
     late       ghost: tags of the persistent stores executed while s.aborted was already set
     pv         the triangular PV buffer, read functionally: region (ply) -> line
     lastret    ghost: (ply, made, line of region ply) at the most recent return of a search call, None
                after the entry of one
     pv_bad     ghost monitor: some PvInsert(ply, m) did not find in region ply+1 exactly the line that
                the most recently returned search call left there, that call being the child searched
                at ply+1 with exactly m made on top of the current position
     gen        s.gen
   and per activation (Go locals): menv / tenv (values of the move / undo-token expressions, keyed by
   root identifier and field path), ply (the parameter named ply), defers (pending deferred atoms). *)
From Coq Require Import String List ZArith Bool.
Import ListNotations.
Open Scope string_scope.

(* ---------------------------------------------------------------------------------------------- *)
(* Syntax *)

Inductive plyarg :=
| PlyRel (k : nat)     (* callee's ply = caller's ply + k   (source text "ply" / "ply+k") *)
| PlyAbs (n : nat)     (* callee's ply = n                  (integer literal) *)
| PlyKeep.             (* callee has no parameter named ply (helper function) *)

Inductive atom :=
| Make (x p r : string)        (* r := b.MakeMove(x.p)        x root identifier, p field path ("" if none) *)
| Undo (x p r : string)        (* b.UndoMove(x.p, r) *)
| MakeNull (r : string)        (* r := b.MakeNullMove() *)
| UndoNull (r : string)        (* b.UndoNullMove(r) *)
| Havoc (x : string)           (* any assignment to / declaration of the local identifier x *)
| MsPush | MsPop | MsAlloc | MsClear
| HPush | HPop | HReset
| IncNodes                     (* s.incrementNodes(opts) *)
| ClearAbort                   (* s.aborted = false *)
| PonderOff                    (* opts.PonderHit = nil *)
| TTLookup
| TTInsert (tag : string)      (* s.tt.Insert(...)      tag = "<function>/<bound type>" *)
| HistUpdate (tag : string)    (* s.ranker.FailHigh(...) *)
| PvSetNull                    (* s.pv.setNull(ply) *)
| PvInsert (x p : string)      (* s.pv.insert(ply, x.p) *)
| GenIncr                      (* s.gen++ *)
| FreshCounters                (* options.Counters = &Counters{} in Search.Go: node counter 0 *)
| SetC (c : string) (vars : list string) (v : bool).
                               (* x = true / x = false: the condition "x" now has the truth value v *)

Inductive stmt :=
| Skip
| Atom (a : atom)
| Seq (s1 s2 : stmt)
| If (s1 s2 : stmt)            (* condition abstracted: nondeterministic choice *)
| IfAborted (s1 s2 : stmt)     (* if s.abort(opts) { s1 } else { s2 } *)
| IfC (c : string) (vars : list string) (neg : bool) (s1 s2 : stmt)
                               (* if c { s1 } else { s2 } (neg = false) or if !c { s1 } else { s2 } (neg = true) for
                                  a comparison c over local variables vars only: its truth value can
                                  change only when one of vars is assigned (Havoc) *)
| Loop (b : stmt)              (* repeat b until Break; Normal / Continue start the next round *)
| CatchCont (s : stmt)         (* Continue inside s ends s normally (loop body before the post statement) *)
| CatchBreak (s : stmt)        (* Break inside s ends s normally (switch / select) *)
| Defer (a : atom)
| Call (f : string) (p : plyarg)
| Return | Break | Continue
| Goto (l : string)
| Label (l : string).

Inductive outcome := ONormal | OReturn | OBreak | OContinue | OGoto (l : string) | OHalt.
(* OHalt: the execution is observed at an intermediate point (it stops there), so that statements
   quantified over all (outcome, final state) pairs also cover every state an execution passes
   through, including executions that do not terminate. *)

(* continuation of a forward jump: the statements that follow Label l on the right spine of s *)
Fixpoint seek (l : string) (s : stmt) : option stmt :=
  match s with
  | Seq (Label l') b => if String.eqb l l' then Some b else seek l b
  | Seq _ b => seek l b
  | Label l' => if String.eqb l l' then Some Skip else None
  | _ => None
  end.

Fixpoint list_eqb {X} (eqb : X -> X -> bool) (a b : list X) : bool :=
  match a, b with
  | [], [] => true
  | x :: a', y :: b' => eqb x y && list_eqb eqb a' b'
  | _, _ => false
  end.

Fixpoint lookup (f : string) (t : list (string * stmt)) : option stmt :=
  match t with
  | [] => None
  | (g, b) :: r => if String.eqb f g then Some b else lookup f r
  end.

(* blocks as emitted by the translator; always Skip terminated, so that only the statements of one
   Go block lie on the right spine that seek follows *)
Fixpoint block (l : list stmt) : stmt :=
  match l with
  | [] => Skip
  | s :: r => Seq s (block r)
  end.

Fixpoint defer_stmt (dl : list atom) : stmt :=
  match dl with
  | [] => Skip
  | a :: r => Seq (Atom a) (defer_stmt r)
  end.

(* ---------------------------------------------------------------------------------------------- *)
(* Semantics *)

Section Sem.
Variables B M T : Type.                       (* position object, move, undo token *)
Variable make : M -> B -> B * T.              (* Board.MakeMove *)
Variable undo : M -> T -> B -> B.             (* Board.UndoMove *)
Variable make_null : B -> B * T.              (* Board.MakeNullMove *)
Variable undo_null : T -> B -> B.             (* Board.UndoNullMove *)
Variable ftable : list (string * stmt).       (* the functions of search.go *)

Record glob := {
  board : B; made : list (option M);
  ms_alloc : nat; ms_frames : list nat; hdepth : nat;
  nodes : Z; budget : Z; ponder : bool; aborted : bool;
  stores : nat; late : list string;
  pv : nat -> list M; lastret : option (nat * list (option M) * list M); pv_bad : bool;
  gen : nat }.

Record locals := {
  menv : string -> string -> M; tenv : string -> T; cenv : string -> list string -> bool;
  ply : nat; defers : list atom }.

Definition cstate := (glob * locals)%type.

Definition set_board (g : glob) v : glob :=
  {| board := v; made := made g; ms_alloc := ms_alloc g; ms_frames := ms_frames g; hdepth := hdepth g; nodes := nodes g; budget := budget g; ponder := ponder g; aborted := aborted g; stores := stores g; late := late g; pv := pv g; lastret := lastret g; pv_bad := pv_bad g; gen := gen g |}.
Definition set_made (g : glob) v : glob :=
  {| board := board g; made := v; ms_alloc := ms_alloc g; ms_frames := ms_frames g; hdepth := hdepth g; nodes := nodes g; budget := budget g; ponder := ponder g; aborted := aborted g; stores := stores g; late := late g; pv := pv g; lastret := lastret g; pv_bad := pv_bad g; gen := gen g |}.
Definition set_ms_alloc (g : glob) v : glob :=
  {| board := board g; made := made g; ms_alloc := v; ms_frames := ms_frames g; hdepth := hdepth g; nodes := nodes g; budget := budget g; ponder := ponder g; aborted := aborted g; stores := stores g; late := late g; pv := pv g; lastret := lastret g; pv_bad := pv_bad g; gen := gen g |}.
Definition set_ms_frames (g : glob) v : glob :=
  {| board := board g; made := made g; ms_alloc := ms_alloc g; ms_frames := v; hdepth := hdepth g; nodes := nodes g; budget := budget g; ponder := ponder g; aborted := aborted g; stores := stores g; late := late g; pv := pv g; lastret := lastret g; pv_bad := pv_bad g; gen := gen g |}.
Definition set_hdepth (g : glob) v : glob :=
  {| board := board g; made := made g; ms_alloc := ms_alloc g; ms_frames := ms_frames g; hdepth := v; nodes := nodes g; budget := budget g; ponder := ponder g; aborted := aborted g; stores := stores g; late := late g; pv := pv g; lastret := lastret g; pv_bad := pv_bad g; gen := gen g |}.
Definition set_nodes (g : glob) v : glob :=
  {| board := board g; made := made g; ms_alloc := ms_alloc g; ms_frames := ms_frames g; hdepth := hdepth g; nodes := v; budget := budget g; ponder := ponder g; aborted := aborted g; stores := stores g; late := late g; pv := pv g; lastret := lastret g; pv_bad := pv_bad g; gen := gen g |}.
Definition set_budget (g : glob) v : glob :=
  {| board := board g; made := made g; ms_alloc := ms_alloc g; ms_frames := ms_frames g; hdepth := hdepth g; nodes := nodes g; budget := v; ponder := ponder g; aborted := aborted g; stores := stores g; late := late g; pv := pv g; lastret := lastret g; pv_bad := pv_bad g; gen := gen g |}.
Definition set_ponder (g : glob) v : glob :=
  {| board := board g; made := made g; ms_alloc := ms_alloc g; ms_frames := ms_frames g; hdepth := hdepth g; nodes := nodes g; budget := budget g; ponder := v; aborted := aborted g; stores := stores g; late := late g; pv := pv g; lastret := lastret g; pv_bad := pv_bad g; gen := gen g |}.
Definition set_aborted (g : glob) v : glob :=
  {| board := board g; made := made g; ms_alloc := ms_alloc g; ms_frames := ms_frames g; hdepth := hdepth g; nodes := nodes g; budget := budget g; ponder := ponder g; aborted := v; stores := stores g; late := late g; pv := pv g; lastret := lastret g; pv_bad := pv_bad g; gen := gen g |}.
Definition set_stores (g : glob) v : glob :=
  {| board := board g; made := made g; ms_alloc := ms_alloc g; ms_frames := ms_frames g; hdepth := hdepth g; nodes := nodes g; budget := budget g; ponder := ponder g; aborted := aborted g; stores := v; late := late g; pv := pv g; lastret := lastret g; pv_bad := pv_bad g; gen := gen g |}.
Definition set_late (g : glob) v : glob :=
  {| board := board g; made := made g; ms_alloc := ms_alloc g; ms_frames := ms_frames g; hdepth := hdepth g; nodes := nodes g; budget := budget g; ponder := ponder g; aborted := aborted g; stores := stores g; late := v; pv := pv g; lastret := lastret g; pv_bad := pv_bad g; gen := gen g |}.
Definition set_pv (g : glob) v : glob :=
  {| board := board g; made := made g; ms_alloc := ms_alloc g; ms_frames := ms_frames g; hdepth := hdepth g; nodes := nodes g; budget := budget g; ponder := ponder g; aborted := aborted g; stores := stores g; late := late g; pv := v; lastret := lastret g; pv_bad := pv_bad g; gen := gen g |}.
Definition set_lastret (g : glob) v : glob :=
  {| board := board g; made := made g; ms_alloc := ms_alloc g; ms_frames := ms_frames g; hdepth := hdepth g; nodes := nodes g; budget := budget g; ponder := ponder g; aborted := aborted g; stores := stores g; late := late g; pv := pv g; lastret := v; pv_bad := pv_bad g; gen := gen g |}.
Definition set_pv_bad (g : glob) v : glob :=
  {| board := board g; made := made g; ms_alloc := ms_alloc g; ms_frames := ms_frames g; hdepth := hdepth g; nodes := nodes g; budget := budget g; ponder := ponder g; aborted := aborted g; stores := stores g; late := late g; pv := pv g; lastret := lastret g; pv_bad := v; gen := gen g |}.
Definition set_gen (g : glob) v : glob :=
  {| board := board g; made := made g; ms_alloc := ms_alloc g; ms_frames := ms_frames g; hdepth := hdepth g; nodes := nodes g; budget := budget g; ponder := ponder g; aborted := aborted g; stores := stores g; late := late g; pv := pv g; lastret := lastret g; pv_bad := pv_bad g; gen := v |}.

Definition set_tenv (l : locals) r t : locals :=
  {| menv := menv l; tenv := fun y => if String.eqb y r then t else tenv l y; cenv := cenv l;
     ply := ply l; defers := defers l |}.
Definition push_defer (l : locals) a : locals :=
  {| menv := menv l; tenv := tenv l; cenv := cenv l; ply := ply l; defers := a :: defers l |}.
Definition set_cenv (l : locals) (c : string) (vs : list string) (v : bool) : locals :=
  {| menv := menv l; tenv := tenv l;
     cenv := fun c' vs' => if String.eqb c' c && list_eqb String.eqb vs' vs then v else cenv l c' vs';
     ply := ply l; defers := defers l |}.

Definition upd_pv (f : nat -> list M) (k : nat) (v : list M) : nat -> list M :=
  fun j => if Nat.eqb j k then v else f j.

(* the model of incrementNodes (search.go:164-170), pinned against the source text by
   Gen.SearchSkel.incrementNodes_src = incrementNodes_expected (Proofs/SkelProofs.v) *)
Definition inc_nodes (g : glob) : glob :=
  if (budget g =? -1)%Z || (nodes g <? budget g)%Z then set_nodes g (nodes g + 1)%Z
  else if ponder g then g else set_aborted g true.

Definition store_event (g : glob) (tag : string) : glob :=
  set_late (set_stores g (S (stores g))) (if aborted g then tag :: late g else late g).

Definition pv_fresh (g : glob) (l : locals) (m : M) : Prop :=
  lastret g = Some (S (ply l), Some m :: made g, pv g (S (ply l))).

Inductive astep : atom -> cstate -> cstate -> Prop :=
| A_Make x p r g l b' t : make (menv l x p) (board g) = (b', t) ->
    astep (Make x p r) (g, l) (set_made (set_board g b') (Some (menv l x p) :: made g), set_tenv l r t)
| A_Undo x p r g l :
    astep (Undo x p r) (g, l) (set_made (set_board g (undo (menv l x p) (tenv l r) (board g))) (tl (made g)), l)
| A_MakeNull r g l b' t : make_null (board g) = (b', t) ->
    astep (MakeNull r) (g, l) (set_made (set_board g b') (None :: made g), set_tenv l r t)
| A_UndoNull r g l :
    astep (UndoNull r) (g, l) (set_made (set_board g (undo_null (tenv l r) (board g))) (tl (made g)), l)
| A_Havoc x g l l' :
    (forall y, y <> x -> menv l' y = menv l y /\ tenv l' y = tenv l y) ->
    (forall c vs, ~ In x vs -> cenv l' c vs = cenv l c vs) ->
    (x <> "ply" -> ply l' = ply l) -> defers l' = defers l ->
    astep (Havoc x) (g, l) (g, l')
| A_MsPush g l : astep MsPush (g, l) (set_ms_frames g (ms_alloc g :: ms_frames g), l)
| A_MsPop g l :
    astep MsPop (g, l)
      (match ms_frames g with
       | [] => set_ms_alloc g 0
       | a :: fs => set_ms_frames (set_ms_alloc g a) fs
       end, l)
| A_MsAlloc k g l : astep MsAlloc (g, l) (set_ms_alloc g (ms_alloc g + k), l)
| A_MsClear g l : astep MsClear (g, l) (set_ms_frames (set_ms_alloc g 0) [], l)
| A_HPush g l : astep HPush (g, l) (set_hdepth g (S (hdepth g)), l)
| A_HPop g l : astep HPop (g, l) (set_hdepth g (Nat.pred (hdepth g)), l)
| A_HReset g l : astep HReset (g, l) (set_hdepth g 0, l)
| A_IncNodes g l : astep IncNodes (g, l) (inc_nodes g, l)
| A_ClearAbort g l : astep ClearAbort (g, l) (set_aborted g false, l)
| A_PonderOff g l : astep PonderOff (g, l) (set_ponder g false, l)
| A_TTLookup g l : astep TTLookup (g, l) (g, l)
| A_TTInsert tag g l : astep (TTInsert tag) (g, l) (store_event g tag, l)
| A_HistUpdate tag g l : astep (HistUpdate tag) (g, l) (store_event g tag, l)
| A_PvSetNull g l : astep PvSetNull (g, l) (set_pv g (upd_pv (pv g) (ply l) []), l)
| A_PvInsert_fresh x p g l : pv_fresh g l (menv l x p) ->
    astep (PvInsert x p) (g, l) (set_pv g (upd_pv (pv g) (ply l) (menv l x p :: pv g (S (ply l)))), l)
| A_PvInsert_stale x p g l : ~ pv_fresh g l (menv l x p) ->
    astep (PvInsert x p) (g, l)
      (set_pv_bad (set_pv g (upd_pv (pv g) (ply l) (menv l x p :: pv g (S (ply l))))) true, l)
| A_GenIncr g l : astep GenIncr (g, l) (set_gen g (S (gen g)), l)
| A_FreshCounters g l : astep FreshCounters (g, l) (set_nodes g 0%Z, l)
| A_SetC c vs v g l : astep (SetC c vs v) (g, l) (g, set_cenv l c vs v).

Definition callee_ply (p : plyarg) (cur : nat) : nat :=
  match p with PlyRel k => cur + k | PlyAbs n => n | PlyKeep => cur end.

Definition is_search_call (p : plyarg) : bool := match p with PlyKeep => false | _ => true end.

(* entering a callee: fresh locals (arbitrary values of its variables), no pending defers *)
Definition enter (p : plyarg) (c : cstate) (me : string -> string -> M) (te : string -> T)
    (ce : string -> list string -> bool) : cstate :=
  (if is_search_call p then set_lastret (fst c) None else fst c,
   {| menv := me; tenv := te; cenv := ce; ply := callee_ply p (ply (snd c)); defers := [] |}).

(* leaving it: the caller's locals are back; a search call records where it returned *)
Definition leave (p : plyarg) (c : cstate) (c2 : cstate) : cstate :=
  (if is_search_call p then set_lastret (fst c2) (Some (ply (snd c2), made (fst c2), pv (fst c2) (ply (snd c2)))) else fst c2,
   snd c).

Definition is_exit (o : outcome) : bool :=
  match o with ONormal | OReturn => true | _ => false end.
Definition is_back (o : outcome) : bool :=
  match o with ONormal | OContinue => true | _ => false end.

Inductive exec : stmt -> cstate -> outcome -> cstate -> Prop :=
| E_Halt s c : exec s c OHalt c
| E_Skip c : exec Skip c ONormal c
| E_Atom a c c' : astep a c c' -> exec (Atom a) c ONormal c'
| E_Seq s1 s2 c c1 o c2 : exec s1 c ONormal c1 -> exec s2 c1 o c2 -> exec (Seq s1 s2) c o c2
| E_SeqJump s1 s2 l k c c1 o c2 :
    exec s1 c (OGoto l) c1 -> seek l s2 = Some k -> exec k c1 o c2 -> exec (Seq s1 s2) c o c2
| E_SeqMiss s1 s2 l c c1 :
    exec s1 c (OGoto l) c1 -> seek l s2 = None -> exec (Seq s1 s2) c (OGoto l) c1
| E_SeqOut s1 s2 c o c1 :
    exec s1 c o c1 -> match o with ONormal | OGoto _ => False | _ => True end ->
    exec (Seq s1 s2) c o c1
| E_IfL s1 s2 c o c' : exec s1 c o c' -> exec (If s1 s2) c o c'
| E_IfR s1 s2 c o c' : exec s2 c o c' -> exec (If s1 s2) c o c'
  (* s.abort(opts) is true: the flag was set already, or the poll of opts.Stop sets it now *)
| E_AbortT s1 s2 g l o c' : exec s1 (set_aborted g true, l) o c' -> exec (IfAborted s1 s2) (g, l) o c'
| E_AbortF s1 s2 g l o c' : aborted g = false -> exec s2 (g, l) o c' -> exec (IfAborted s1 s2) (g, l) o c'
| E_IfCT cn vs neg s1 s2 g l o c' :
    cenv l cn vs = negb neg -> exec s1 (g, l) o c' -> exec (IfC cn vs neg s1 s2) (g, l) o c'
| E_IfCF cn vs neg s1 s2 g l o c' :
    cenv l cn vs = neg -> exec s2 (g, l) o c' -> exec (IfC cn vs neg s1 s2) (g, l) o c'
| E_LoopIter b c o1 c1 o c2 :
    exec b c o1 c1 -> is_back o1 = true -> exec (Loop b) c1 o c2 -> exec (Loop b) c o c2
| E_LoopBreak b c c1 : exec b c OBreak c1 -> exec (Loop b) c ONormal c1
| E_LoopOut b c o c1 :
    exec b c o c1 -> match o with OReturn | OGoto _ | OHalt => True | _ => False end ->
    exec (Loop b) c o c1
| E_CatchCont s c o c1 :
    exec s c o c1 -> exec (CatchCont s) c (match o with OContinue => ONormal | _ => o end) c1
| E_CatchBreak s c o c1 :
    exec s c o c1 -> exec (CatchBreak s) c (match o with OBreak => ONormal | _ => o end) c1
| E_Defer a g l : exec (Defer a) (g, l) ONormal (g, push_defer l a)
| E_Call f p b c me te ce o1 c1 c2 :
    lookup f ftable = Some b ->
    exec b (enter p c me te ce) o1 c1 -> is_exit o1 = true ->
    exec (defer_stmt (defers (snd c1))) c1 ONormal c2 ->
    exec (Call f p) c ONormal (leave p c c2)
| E_CallHalt f p b c me te ce c1 :
    lookup f ftable = Some b ->
    exec b (enter p c me te ce) OHalt c1 -> exec (Call f p) c OHalt c1
| E_CallHaltD f p b c me te ce o1 c1 c2 :
    lookup f ftable = Some b ->
    exec b (enter p c me te ce) o1 c1 -> is_exit o1 = true ->
    exec (defer_stmt (defers (snd c1))) c1 OHalt c2 ->
    exec (Call f p) c OHalt c2
| E_Return c : exec Return c OReturn c
| E_Break c : exec Break c OBreak c
| E_Continue c : exec Continue c OContinue c
| E_Goto l c : exec (Goto l) c (OGoto l) c
| E_Label l c : exec (Label l) c ONormal c.

End Sem.
