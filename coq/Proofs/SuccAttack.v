(* The engine's attack test (Board.IsAttacked: looks FROM the target square with every piece's
   pattern) says exactly what the rules say (some piece of the colour, standing somewhere, attacks
   the target), for every occupancy.  Needs: symmetry of the leaper patterns (finite), symmetry of
   the sliding attacks for every occupancy (walk characterisation + a finite check on the rays), and
   the bit-level meaning of the pawn shift formula. *)
From Coq Require Import NArith ZArith List Bool Lia.
From Chess3 Require Import Base.Bits Base.Word Model.Types Model.Att Model.BoardDef Model.Board.
From Chess3 Require Import Spec.Geometry Spec.Chess Spec.Rep.
From Chess3 Require Import Proofs.SuccLists Proofs.SuccCore Proofs.SuccCells Proofs.SuccFacts.
Import ListNotations.
Open Scope N_scope.

(* ------------------------------------------------------------------------------------------ *)
(* bits *)

Lemma nonzero_bit x : x <> 0 -> exists i, N.testbit x i = true.
Proof. intros H. exists (lsb x). apply lsb_testbit. exact H. Qed.

Lemma bit_nonzero x i : N.testbit x i = true -> x <> 0.
Proof. intros H E. rewrite E, N.bits_0 in H. discriminate. Qed.

Lemma neqb0_iff x : negb (x =? 0) = true <-> exists i, N.testbit x i = true.
Proof.
  rewrite negb_true_iff, N.eqb_neq. split.
  - apply nonzero_bit.
  - intros [i H]. exact (bit_nonzero x i H).
Qed.

Lemma testbit_lt64 x i : x < two64 -> N.testbit x i = true -> i < 64.
Proof.
  intros Hx H. destruct (N.lt_ge_cases i 64) as [L|L]; [exact L|].
  rewrite (lt_two64_testbit x Hx i L) in H. discriminate.
Qed.

Lemma shl_testbit x k t : N.testbit (shl x k) t = (k <=? t) && N.testbit x (t - k) && (t <? 64).
Proof.
  unfold shl. rewrite w64_testbit.
  destruct (N.leb_spec k t) as [L|L].
  - rewrite N.shiftl_spec_high' by exact L. reflexivity.
  - rewrite N.shiftl_spec_low by exact L. reflexivity.
Qed.

Lemma shr_testbit x k t : N.testbit (shr x k) t = N.testbit x (t + k).
Proof. unfold shr. apply N.shiftr_spec'. Qed.

Lemma bandn_testbit x y t : N.testbit (bandn x y) t = N.testbit x t && negb (N.testbit y t).
Proof. apply N.ldiff_spec. Qed.
Lemma bor_testbit x y t : N.testbit (bor x y) t = N.testbit x t || N.testbit y t.
Proof. apply N.lor_spec. Qed.
Lemma band_testbit x y t : N.testbit (band x y) t = N.testbit x t && N.testbit y t.
Proof. apply N.land_spec. Qed.

(* ------------------------------------------------------------------------------------------ *)
(* leapers are symmetric (finite) *)

Lemma king_sym a t : a < 64 -> t < 64 -> N.testbit (king_attacks a) t = N.testbit (king_attacks t) a.
Proof.
  intros Ha Ht. apply eqb_prop. revert a t Ha Ht.
  apply (sweep2 (fun a t => Bool.eqb (N.testbit (king_attacks a) t) (N.testbit (king_attacks t) a))).
  vm_compute. reflexivity.
Qed.
Lemma knight_sym a t : a < 64 -> t < 64 -> N.testbit (knight_attacks a) t = N.testbit (knight_attacks t) a.
Proof.
  intros Ha Ht. apply eqb_prop. revert a t Ha Ht.
  apply (sweep2 (fun a t => Bool.eqb (N.testbit (knight_attacks a) t) (N.testbit (knight_attacks t) a))).
  vm_compute. reflexivity.
Qed.

(* ------------------------------------------------------------------------------------------ *)
(* sliders: walking a ray *)

Definition inb (s : N) (l : list N) : bool := existsb (N.eqb s) l.
Definition free (occ s : N) : bool := negb (N.testbit occ s).

Lemma walk_testbit l occ t :
  N.testbit (walk l occ) t = inb t l && forallb (free occ) (take_until l t).
Proof.
  induction l as [|s r IH]; cbn [walk inb existsb take_until].
  - apply N.bits_0.
  - rewrite N.lor_spec, bit_testbit. rewrite (N.eqb_sym t s).
    destruct (s =? t) eqn:E; cbn [orb forallb andb].
    + reflexivity.
    + unfold free at 1. destruct (N.testbit occ s); cbn [negb andb].
      * rewrite N.bits_0. rewrite andb_false_r. reflexivity.
      * fold (inb t r). exact IH.
Qed.

Lemma slide_testbit dirs a occ t :
  N.testbit (slide dirs a occ) t = existsb (fun d => N.testbit (walk (ray a d) occ) t) dirs.
Proof.
  unfold slide. induction dirs as [|d r IH]; cbn [fold_right existsb].
  - apply N.bits_0.
  - rewrite N.lor_spec, IH. reflexivity.
Qed.

Definition subsetb (x y : list N) : bool := forallb (fun s => inb s y) x.

Definition ray_sym (dirs : list (Z * Z)) : bool :=
  forallb (fun a => forallb (fun t => forallb (fun d =>
     implb (inb t (ray a d))
           (existsb (fun d' => inb a (ray t d') && subsetb (take_until (ray t d') a) (take_until (ray a d) t)) dirs))
     dirs) squares64) squares64.

Lemma ray_sym_rook : ray_sym rook_dirs = true. Proof. vm_compute. reflexivity. Qed.
Lemma ray_sym_bishop : ray_sym bishop_dirs = true. Proof. vm_compute. reflexivity. Qed.

Lemma inb_In s l : inb s l = true <-> In s l.
Proof.
  unfold inb. rewrite existsb_exists. split.
  - intros [x [H1 H2]]. apply N.eqb_eq in H2. subst. exact H1.
  - intros H. exists s. split; [exact H|apply N.eqb_refl].
Qed.

Lemma slide_sym_imp dirs a t occ : ray_sym dirs = true -> a < 64 -> t < 64 ->
  N.testbit (slide dirs a occ) t = true -> N.testbit (slide dirs t occ) a = true.
Proof.
  intros HS Ha Ht H. rewrite slide_testbit in *.
  apply existsb_exists in H. destruct H as [d [Hd H]].
  rewrite walk_testbit in H. apply andb_true_iff in H. destruct H as [H1 H2].
  unfold ray_sym in HS.
  pose proof (proj1 (forallb_squares64 _) HS a Ha) as S1. cbv beta in S1.
  pose proof (proj1 (forallb_squares64 _) S1 t Ht) as S2. cbv beta in S2.
  rewrite forallb_forall in S2. specialize (S2 d Hd). rewrite H1 in S2. cbn [implb] in S2.
  apply existsb_exists in S2. destruct S2 as [d' [Hd' S3]].
  apply andb_true_iff in S3. destruct S3 as [S3 S4].
  apply existsb_exists. exists d'. split; [exact Hd'|].
  rewrite walk_testbit, S3. cbn [andb].
  apply forallb_forall. intros s Hs.
  unfold subsetb in S4. rewrite forallb_forall in S4. specialize (S4 s Hs). apply inb_In in S4.
  rewrite forallb_forall in H2. exact (H2 s S4).
Qed.

Lemma slide_sym dirs a t occ : ray_sym dirs = true -> a < 64 -> t < 64 ->
  N.testbit (slide dirs a occ) t = N.testbit (slide dirs t occ) a.
Proof.
  intros HS Ha Ht.
  destruct (N.testbit (slide dirs a occ) t) eqn:E1; destruct (N.testbit (slide dirs t occ) a) eqn:E2; try reflexivity.
  - apply (slide_sym_imp dirs a t occ HS Ha Ht) in E1. congruence.
  - apply (slide_sym_imp dirs t a occ HS Ht Ha) in E2. congruence.
Qed.

Lemma rook_sym a t occ : a < 64 -> t < 64 -> N.testbit (rook_attacks a occ) t = N.testbit (rook_attacks t occ) a.
Proof. apply slide_sym. exact ray_sym_rook. Qed.
Lemma bishop_sym a t occ : a < 64 -> t < 64 -> N.testbit (bishop_attacks a occ) t = N.testbit (bishop_attacks t occ) a.
Proof. apply slide_sym. exact ray_sym_bishop. Qed.

(* ------------------------------------------------------------------------------------------ *)
(* pawns: the shift formula *)
Ltac Zify.zify_post_hook ::= Z.to_euclidean_division_equations.

Definition fA (s : N) : bool := N.testbit AFileBB s.
Definition fH (s : N) : bool := N.testbit HFileBB s.

Lemma pawn_rel_white s t : s < 64 -> t < 64 ->
  mem (pawn_attacks White s) t = ((s + 7 =? t) && negb (fA s)) || ((s + 9 =? t) && negb (fH s)).
Proof.
  intros Hs Ht. apply eqb_prop. revert s t Hs Ht.
  apply (sweep2 (fun s t => Bool.eqb (mem (pawn_attacks White s) t)
                                     (((s + 7 =? t) && negb (fA s)) || ((s + 9 =? t) && negb (fH s))))).
  vm_compute. reflexivity.
Qed.
Lemma pawn_rel_black s t : s < 64 -> t < 64 ->
  mem (pawn_attacks Black s) t = ((t + 7 =? s) && negb (fH s)) || ((t + 9 =? s) && negb (fA s)).
Proof.
  intros Hs Ht. apply eqb_prop. revert s t Hs Ht.
  apply (sweep2 (fun s t => Bool.eqb (mem (pawn_attacks Black s) t)
                                     (((t + 7 =? s) && negb (fH s)) || ((t + 9 =? s) && negb (fA s))))).
  vm_compute. reflexivity.
Qed.

Lemma pcm_white P t : t < 64 ->
  N.testbit (pawn_capture_moves P White) t =
  ((7 <=? t) && N.testbit P (t - 7) && negb (fA (t - 7))) || ((9 <=? t) && N.testbit P (t - 9) && negb (fH (t - 9))).
Proof.
  intros Ht. unfold pawn_capture_moves. cbn [cix flip]. change (N.shiftl 0 4) with 0. change (N.shiftl 1 4) with 16.
  rewrite !bor_testbit, shr_testbit, shl_testbit, !bor_testbit, !shl_testbit, !shr_testbit, !bandn_testbit.
  rewrite N.add_0_r. fold (fA (t - 7)) (fH (t - 9)).
  rewrite (proj2 (N.ltb_lt t 64)) by exact Ht. rewrite !andb_true_r.
  destruct (N.leb_spec 16 t) as [L|L].
  - replace (t - 16 + 7) with (t - 9) by lia. replace (t - 16 + 9) with (t - 7) by lia.
    fold (fA (t - 7)) (fH (t - 9)).
    rewrite (proj2 (N.leb_le 7 t)) by lia. rewrite (proj2 (N.leb_le 9 t)) by lia. cbn [andb].
    destruct (N.testbit P (t - 7)); destruct (N.testbit P (t - 9)); destruct (fA (t - 7)); destruct (fH (t - 9)); reflexivity.
  - cbn [andb]. rewrite orb_false_r, !andb_assoc. reflexivity.
Qed.

Lemma pcm_black P t : t < 64 ->
  N.testbit (pawn_capture_moves P Black) t =
  (N.testbit P (t + 7) && negb (fH (t + 7))) || (N.testbit P (t + 9) && negb (fA (t + 9))).
Proof.
  intros Ht. unfold pawn_capture_moves. cbn [cix flip]. change (N.shiftl 0 4) with 0. change (N.shiftl 1 4) with 16.
  rewrite !bor_testbit, shr_testbit, shl_testbit, !bor_testbit, !shl_testbit, !shr_testbit, !bandn_testbit.
  rewrite N.sub_0_r. fold (fH (t + 7)) (fA (t + 9)).
  rewrite (proj2 (N.ltb_lt t 64)) by exact Ht. rewrite !andb_true_r.
  replace (t + 16 - 7) with (t + 9) by lia. replace (t + 16 - 9) with (t + 7) by lia.
  fold (fH (t + 7)) (fA (t + 9)).
  rewrite (proj2 (N.leb_le 7 (t + 16))) by lia. rewrite (proj2 (N.leb_le 9 (t + 16))) by lia.
  rewrite (proj2 (N.leb_le 0 t)) by lia. cbn [andb].
  destruct (t + 16 <? 64);
    destruct (N.testbit P (t + 7)); destruct (N.testbit P (t + 9)); destruct (fA (t + 9)); destruct (fH (t + 7)); reflexivity.
Qed.

Lemma pcm_iff P c t : P < two64 -> t < 64 ->
  N.testbit (pawn_capture_moves P c) t = true <->
  exists s, s < 64 /\ N.testbit P s = true /\ mem (pawn_attacks c s) t = true.
Proof.
  intros HP Ht. destruct c.
  - rewrite pcm_white by exact Ht. split.
    + intros H. apply orb_true_iff in H. destruct H as [H|H];
        repeat (apply andb_true_iff in H; destruct H as [H ?]); apply N.leb_le in H.
      * exists (t - 7). split; [lia|]. split; [assumption|]. rewrite pawn_rel_white by lia.
        rewrite (proj2 (N.eqb_eq (t - 7 + 7) t)) by lia. rewrite H0. reflexivity.
      * exists (t - 9). split; [lia|]. split; [assumption|]. rewrite pawn_rel_white by lia.
        rewrite (proj2 (N.eqb_eq (t - 9 + 9) t)) by lia. rewrite H0. cbn [andb]. apply orb_true_r.
    + intros [s [Hs [H1 H2]]]. rewrite pawn_rel_white in H2 by assumption.
      apply orb_true_iff in H2. destruct H2 as [H2|H2]; apply andb_true_iff in H2; destruct H2 as [E H2]; apply N.eqb_eq in E.
      * replace (t - 7) with s by lia. rewrite H1, H2. rewrite (proj2 (N.leb_le 7 t)) by lia. reflexivity.
      * replace (t - 9) with s by lia. rewrite H1, H2. rewrite (proj2 (N.leb_le 9 t)) by lia. cbn [andb]. apply orb_true_r.
  - rewrite pcm_black by exact Ht. split.
    + intros H. apply orb_true_iff in H. destruct H as [H|H];
        repeat (apply andb_true_iff in H; destruct H as [H ?]).
      * exists (t + 7). pose proof (testbit_lt64 P _ HP H). split; [assumption|]. split; [assumption|].
        rewrite pawn_rel_black by assumption. rewrite N.eqb_refl, H0. reflexivity.
      * exists (t + 9). pose proof (testbit_lt64 P _ HP H). split; [assumption|]. split; [assumption|].
        rewrite pawn_rel_black by assumption. rewrite N.eqb_refl, H0. cbn [andb]. apply orb_true_r.
    + intros [s [Hs [H1 H2]]]. rewrite pawn_rel_black in H2 by assumption.
      apply orb_true_iff in H2. destruct H2 as [H2|H2]; apply andb_true_iff in H2; destruct H2 as [E H2]; apply N.eqb_eq in E.
      * rewrite E, H1, H2. reflexivity.
      * rewrite E, H1, H2. cbn [andb]. apply orb_true_r.
Qed.

(* ------------------------------------------------------------------------------------------ *)
(* IsAttacked *)

Definition att_from (b : board) (c : color) (occ s t : N) : bool :=
  N.testbit (colors b c) s && mem (attacks_from c (piece_at b s) s occ) t.
Definition attacks_sq (b : board) (c : color) (occ t : N) : bool :=
  existsb (fun s => att_from b c occ s t) squares64.

Lemma band_lt x y : y < two64 -> band x y < two64.
Proof.
  intros Hy. apply testbit_lt_two64. intros i Hi. rewrite band_testbit, (lt_two64_testbit y Hy i Hi).
  apply andb_false_r.
Qed.

(* looking from the target with a pattern: a piece of kind k and colour c stands on the pattern *)
Lemma look_iff b c pat k : Rep b -> 1 <= k <= 6 ->
  negb (band (band pat (pieces b k)) (colors b c) =? 0) = true <->
  exists s, s < 64 /\ N.testbit pat s = true /\ piece_at b s = k /\ N.testbit (colors b c) s = true.
Proof.
  intros HR Hk. rewrite neqb0_iff. destruct (Rep_words b HR) as [HP HC]. split.
  - intros [s H]. rewrite !band_testbit in H. apply andb_true_iff in H. destruct H as [H H3].
    apply andb_true_iff in H. destruct H as [H1 H2].
    pose proof (testbit_lt64 _ _ (HC c) H3) as Hs. exists s. repeat split; try assumption.
    rewrite (Rep_pieces b s k HR Hs Hk) in H2. apply N.eqb_eq. exact H2.
  - intros [s [Hs [H1 [H2 H3]]]]. exists s. rewrite !band_testbit, H1, H3.
    rewrite (Rep_pieces b s k HR Hs Hk), H2, N.eqb_refl. reflexivity.
Qed.

Lemma look2_iff b c pat k1 k2 : Rep b -> 1 <= k1 <= 6 -> 1 <= k2 <= 6 ->
  negb (band (band pat (bor (pieces b k1) (pieces b k2))) (colors b c) =? 0) = true <->
  exists s, s < 64 /\ N.testbit pat s = true /\ (piece_at b s = k1 \/ piece_at b s = k2) /\ N.testbit (colors b c) s = true.
Proof.
  intros HR Hk1 Hk2. rewrite neqb0_iff. destruct (Rep_words b HR) as [HP HC]. split.
  - intros [s H]. rewrite !band_testbit, bor_testbit in H. apply andb_true_iff in H. destruct H as [H H3].
    apply andb_true_iff in H. destruct H as [H1 H2].
    pose proof (testbit_lt64 _ _ (HC c) H3) as Hs. exists s. repeat split; try assumption.
    rewrite (Rep_pieces b s k1 HR Hs Hk1), (Rep_pieces b s k2 HR Hs Hk2) in H2.
    apply orb_true_iff in H2. destruct H2 as [H2|H2]; apply N.eqb_eq in H2; tauto.
  - intros [s [Hs [H1 [H2 H3]]]]. exists s. rewrite !band_testbit, bor_testbit, H1, H3.
    rewrite (Rep_pieces b s k1 HR Hs Hk1), (Rep_pieces b s k2 HR Hs Hk2).
    destruct H2 as [H2|H2]; rewrite H2, N.eqb_refl; cbn [andb orb]; rewrite ?orb_true_r; reflexivity.
Qed.

Lemma is_attacked_orb b c occ T :
  is_attacked b c occ T =
  negb (band (pawn_capture_moves (band (pieces b Pawn) (colors b c)) c) T =? 0) ||
  existsb (fun sq =>
    negb (band (band (king_moves sq) (pieces b King)) (colors b c) =? 0) ||
    negb (band (band (knight_moves sq) (pieces b Knight)) (colors b c) =? 0) ||
    negb (band (band (bishop_moves sq occ) (bor (pieces b Queen) (pieces b Bishop))) (colors b c) =? 0) ||
    negb (band (band (rook_moves sq occ) (bor (pieces b Rook) (pieces b Queen))) (colors b c) =? 0))
    (bits_of T).
Proof. unfold is_attacked. destruct (negb _); reflexivity. Qed.

Lemma att_from_intro b c occ s t k : N.testbit (colors b c) s = true -> piece_at b s = k ->
  mem (attacks_from c k s occ) t = true -> att_from b c occ s t = true.
Proof. intros H1 H2 H3. unfold att_from. rewrite H1, H2, H3. reflexivity. Qed.

Lemma is_attacked_iff b c occ T : Rep b -> T < two64 ->
  is_attacked b c occ T = true <-> exists t, N.testbit T t = true /\ attacks_sq b c occ t = true.
Proof.
  intros HR HT. destruct (Rep_words b HR) as [HP HC].
  rewrite is_attacked_orb. unfold attacks_sq. split.
  - intros H. apply orb_true_iff in H. destruct H as [H|H].
    + apply neqb0_iff in H. destruct H as [t H]. rewrite band_testbit in H. apply andb_true_iff in H.
      destruct H as [H1 H2]. pose proof (testbit_lt64 _ _ HT H2) as Ht.
      apply (pcm_iff _ c t (band_lt _ _ (HC c)) Ht) in H1. destruct H1 as [s [Hs [H3 H4]]].
      rewrite band_testbit in H3. apply andb_true_iff in H3. destruct H3 as [H3 H5].
      rewrite (Rep_pieces b s Pawn HR Hs) in H3 by (unfold Pawn; lia). apply N.eqb_eq in H3.
      exists t. split; [exact H2|]. apply existsb_squares64. exists s. split; [exact Hs|].
      apply (att_from_intro b c occ s t Pawn H5 H3). exact H4.
    + apply existsb_exists in H. destruct H as [t [Hin H]]. apply bits_of_spec in Hin.
      pose proof (testbit_lt64 _ _ HT Hin) as Ht.
      exists t. split; [exact Hin|]. apply existsb_squares64.
      apply orb_true_iff in H. destruct H as [H|H]; [apply orb_true_iff in H; destruct H as [H|H];
        [apply orb_true_iff in H; destruct H as [H|H]|]|].
      * apply look_iff in H; [|exact HR|unfold King; lia]. destruct H as [s [Hs [H1 [H2 H3]]]].
        exists s. split; [exact Hs|]. apply (att_from_intro b c occ s t King H3 H2).
        change (attacks_from c King s occ) with (king_attacks s). unfold mem.
        rewrite king_sym by assumption. exact H1.
      * apply look_iff in H; [|exact HR|unfold Knight; lia]. destruct H as [s [Hs [H1 [H2 H3]]]].
        exists s. split; [exact Hs|]. apply (att_from_intro b c occ s t Knight H3 H2).
        change (attacks_from c Knight s occ) with (knight_attacks s). unfold mem.
        rewrite knight_sym by assumption. exact H1.
      * apply look2_iff in H; [|exact HR|unfold Queen; lia|unfold Bishop; lia].
        destruct H as [s [Hs [H1 [H2 H3]]]]. unfold bishop_moves in H1. rewrite bishop_sym in H1 by assumption.
        exists s. split; [exact Hs|]. destruct H2 as [H2|H2].
        -- apply (att_from_intro b c occ s t Queen H3 H2).
           change (attacks_from c Queen s occ) with (queen_attacks s occ). unfold mem, queen_attacks.
           rewrite N.lor_spec, H1. apply orb_true_r.
        -- apply (att_from_intro b c occ s t Bishop H3 H2).
           change (attacks_from c Bishop s occ) with (bishop_attacks s occ). exact H1.
      * apply look2_iff in H; [|exact HR|unfold Rook; lia|unfold Queen; lia].
        destruct H as [s [Hs [H1 [H2 H3]]]]. unfold rook_moves in H1. rewrite rook_sym in H1 by assumption.
        exists s. split; [exact Hs|]. destruct H2 as [H2|H2].
        -- apply (att_from_intro b c occ s t Rook H3 H2).
           change (attacks_from c Rook s occ) with (rook_attacks s occ). exact H1.
        -- apply (att_from_intro b c occ s t Queen H3 H2).
           change (attacks_from c Queen s occ) with (queen_attacks s occ). unfold mem, queen_attacks.
           rewrite N.lor_spec, H1. reflexivity.
  - intros [t [HTt H]]. pose proof (testbit_lt64 _ _ HT HTt) as Ht.
    apply existsb_squares64 in H. destruct H as [s [Hs H]]. unfold att_from in H.
    apply andb_true_iff in H. destruct H as [Hc Hm].
    pose proof (Rep_piece_le b s HR Hs) as Hle.
    assert (Hin : In t (bits_of T)) by (apply bits_of_spec; exact HTt).
    assert (D : piece_at b s = 0 \/ piece_at b s = Pawn \/ piece_at b s = Knight \/ piece_at b s = Bishop \/
                piece_at b s = Rook \/ piece_at b s = Queen \/ piece_at b s = King)
      by (unfold Pawn, Knight, Bishop, Rook, Queen, King; lia).
    destruct D as [D|[D|[D|[D|[D|[D|D]]]]]]; rewrite D in Hm.
    + change (attacks_from c 0 s occ) with 0 in Hm. unfold mem in Hm. rewrite N.bits_0 in Hm. discriminate.
    + apply orb_true_iff. left. apply neqb0_iff. exists t. rewrite band_testbit, HTt, andb_true_r.
      apply (pcm_iff _ c t (band_lt _ _ (HC c)) Ht). exists s. split; [exact Hs|]. split; [|exact Hm].
      rewrite band_testbit, Hc, (Rep_pieces b s Pawn HR Hs), D by (unfold Pawn; lia). reflexivity.
    + apply orb_true_iff. right. apply existsb_exists. exists t. split; [exact Hin|].
      apply orb_true_iff; left. apply orb_true_iff; left. apply orb_true_iff; right.
      apply look_iff; [exact HR|unfold Knight; lia|]. exists s. repeat split; try assumption.
      change (attacks_from c Knight s occ) with (knight_attacks s) in Hm. unfold mem in Hm.
      unfold knight_moves. rewrite knight_sym by assumption. exact Hm.
    + apply orb_true_iff. right. apply existsb_exists. exists t. split; [exact Hin|].
      apply orb_true_iff; left. apply orb_true_iff; right.
      apply look2_iff; [exact HR|unfold Queen; lia|unfold Bishop; lia|]. exists s. repeat split; try assumption; [|tauto].
      change (attacks_from c Bishop s occ) with (bishop_attacks s occ) in Hm. unfold mem in Hm.
      unfold bishop_moves. rewrite bishop_sym by assumption. exact Hm.
    + apply orb_true_iff. right. apply existsb_exists. exists t. split; [exact Hin|].
      apply orb_true_iff; right.
      apply look2_iff; [exact HR|unfold Rook; lia|unfold Queen; lia|]. exists s. repeat split; try assumption; [|tauto].
      change (attacks_from c Rook s occ) with (rook_attacks s occ) in Hm. unfold mem in Hm.
      unfold rook_moves. rewrite rook_sym by assumption. exact Hm.
    + change (attacks_from c Queen s occ) with (queen_attacks s occ) in Hm. unfold mem, queen_attacks in Hm.
      rewrite N.lor_spec in Hm. apply orb_true_iff in Hm.
      apply orb_true_iff. right. apply existsb_exists. exists t. split; [exact Hin|].
      destruct Hm as [Hm|Hm].
      * apply orb_true_iff; right.
        apply look2_iff; [exact HR|unfold Rook; lia|unfold Queen; lia|]. exists s. repeat split; try assumption; [|tauto].
        unfold rook_moves. rewrite rook_sym by assumption. exact Hm.
      * apply orb_true_iff; left. apply orb_true_iff; right.
        apply look2_iff; [exact HR|unfold Queen; lia|unfold Bishop; lia|]. exists s. repeat split; try assumption; [|tauto].
        unfold bishop_moves. rewrite bishop_sym by assumption. exact Hm.
    + apply orb_true_iff. right. apply existsb_exists. exists t. split; [exact Hin|].
      apply orb_true_iff; left. apply orb_true_iff; left. apply orb_true_iff; left.
      apply look_iff; [exact HR|unfold King; lia|]. exists s. repeat split; try assumption.
      change (attacks_from c King s occ) with (king_attacks s) in Hm. unfold mem in Hm.
      unfold king_moves. rewrite king_sym by assumption. exact Hm.
Qed.
