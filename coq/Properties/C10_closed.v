(* C10, closed form - the repetition count equals the true recurrences of the position, with the two
   links to the neighbouring properties PROVED instead of assumed.
   Statements only; proofs in Proofs/ComposeClock.v, ComposeSucc.v (and Proofs/Rep3True.v for C10_true).

   Properties/C10.v states C10_true under the named premises step_link z, valid_link, no_collision
   (Spec/RepLinks.v).  Here:
     valid_link   is valid_step (Proofs/ValidStep.v), no bound on the move encoding needed;
     step_link z  is proved for every Zobrist table with 64-bit entries, from
                    C03  MakeMove keeps Rep (a legal move of a valid position is applicable),
                    C04  MakeMove keeps "newest history entry = calculateHash",
                    C02  the board after MakeMove has the placement, side to move, castling rights and
                         en-passant square of succ_spec - proved here WITHOUT C02_succ's clock bound
                         (C02_succ also equates the halfmove clock, which wraps at 32767; position
                         identity does not involve the clocks, and the other four fields are right
                         for every clock value), and
                    the rules of Spec/Chess.v never read the two clocks ([same_core] positions have
                    the same valid / legal_spec / successor-up-to-clocks).
   Remaining explicit hypotheses of the closed theorem:
     no_collision  different position keys of THIS game have different 64-bit hashes (inherent);
     normal_ep     of the root (known finding fen-ep-flag, C10_fen_ep_refuted in Properties/C10.v);
     zob_w64 z     64-bit table entries.  [C10_statement] of Properties/C10.v quantifies over ALL
                   tables with only Rep (reset_hash z b0) assumed; it cannot be reached through
                   step_link, because step_link z asserts Rep of the next board, whose clause "every
                   stored hash is below 2^64" is false for tables with wider entries (for such a
                   table no Go value exists: Hash is uint64).  The engine's table qualifies
                   (C10_closed_on_engine_tables). *)
From Coq Require Import NArith ZArith List Bool.
From Chess3 Require Import Base.Bits Model.Types Model.BoardDef Model.Board Model.Rep3
     Spec.Geometry Spec.Chess Spec.Rep Spec.RepSpec Spec.RepLinks
     Proofs.Rep3Scan Proofs.Rep3Chess Proofs.Rep3Hash Proofs.Rep3True Proofs.Rep3Examples Gen.Zobrist
     Proofs.ComposeClock Proofs.ComposeSucc.
From Chess3 Require Proofs.UndoMove Proofs.BoardExamples Proofs.HashInv Proofs.BoardInv.
Import ListNotations.

(* the clocks take no part in the rules *)
Theorem C10_rules_ignore_clocks : forall p q, same_core p q ->
  valid p = valid q /\ normal_ep p = normal_ep q /\
  (forall m, legal_spec p m = legal_spec q m /\ same_core (succ_spec p m) (succ_spec q m)).
Proof.
  intros p q SC. split; [apply valid_same_core; exact SC|]. split; [apply normal_ep_same_core; exact SC|].
  intros m. split; [apply legal_spec_same_core; exact SC|apply succ_spec_same_core; exact SC].
Qed.
Print Assumptions C10_rules_ignore_clocks.

(* C02 without the clock bound: everything but the clocks, for every value of the halfmove clock *)
Theorem C10_make_same_core : forall z b m,
  Rep b -> valid (abs b) = true -> legal_spec (abs b) m = true ->
  same_core (abs (fst (make z b m))) (succ_spec (abs b) m).
Proof. exact make_same_core. Qed.
Print Assumptions C10_make_same_core.

(* the two links *)
Theorem C10_step_link : forall z, UndoMove.zob_w64 z -> step_link z.
Proof. exact step_link_proved. Qed.
Print Assumptions C10_step_link.

Theorem C10_valid_link : valid_link.
Proof. exact valid_link_proved. Qed.
Print Assumptions C10_valid_link.

(* THE CLOSED STATEMENT *)
Definition C10_closed_statement : Prop :=
  forall (z : zobrist) (b0 : board) (ms : list N),
    UndoMove.zob_w64 z ->
    Rep (reset_hash z b0) -> valid (abs b0) = true -> normal_ep (abs b0) = true ->
    legal_chain (abs b0) ms = true ->
    no_collision z (combine (run_boards z (reset_hash z b0) ms) (spec_hist (abs b0) ms)) ->
    threefold (run_moves z (reset_hash z b0) ms) = rep_count (map pos_key (spec_hist (abs b0) ms)).

Theorem C10_closed : C10_closed_statement.
Proof.
  intros z b0 ms Hz. apply threefold_true; [apply step_link_proved; exact Hz|exact valid_link_proved].
Qed.
Print Assumptions C10_closed.

(* the root as FromFEN builds it: any representable board, ResetHash applied (C04_reset) *)
Theorem C10_closed_root : forall (z : zobrist) (b0 : board) (ms : list N),
  UndoMove.zob_w64 z -> Rep b0 -> valid (abs b0) = true -> normal_ep (abs b0) = true ->
  legal_chain (abs b0) ms = true ->
  no_collision z (combine (run_boards z (reset_hash z b0) ms) (spec_hist (abs b0) ms)) ->
  threefold (run_moves z (reset_hash z b0) ms) = rep_count (map pos_key (spec_hist (abs b0) ms)).
Proof.
  intros z b0 ms Hz HR. apply C10_closed; [exact Hz|].
  apply HashInv.reset_hash_Rep; [exact Hz|apply BoardInv.Rep_RepW; exact HR].
Qed.
Print Assumptions C10_closed_root.

(* for the engine's tables the only premises left are about the game *)
Theorem C10_closed_on_engine_tables : forall (b0 : board) (ms : list N),
  Rep b0 -> valid (abs b0) = true -> normal_ep (abs b0) = true ->
  legal_chain (abs b0) ms = true ->
  no_collision zob_real (combine (run_boards zob_real (reset_hash zob_real b0) ms) (spec_hist (abs b0) ms)) ->
  threefold (run_moves zob_real (reset_hash zob_real b0) ms) = rep_count (map pos_key (spec_hist (abs b0) ms)).
Proof. intros b0 ms. apply C10_closed_root. exact BoardExamples.zob_real_w64. Qed.
Print Assumptions C10_closed_on_engine_tables.

(* non-vacuity: the game of Properties/C10.v (start position, knights out and back twice) meets every
   premise of C10_closed, which then yields the equation; both sides are 3 *)
Example C10_closed_applies :
  UndoMove.zob_w64 zob_real /\
  threefold (run_moves zob_real (reset_hash zob_real start_board) knights8)
  = rep_count (map pos_key (spec_hist (abs start_board) knights8)) /\
  rep_count (map pos_key (spec_hist (abs start_board) knights8)) = 3%Z.
Proof.
  destruct premises_hold as (R & V & Nm & L & NC & _ & C & _).
  split; [exact BoardExamples.zob_real_w64|]. split; [|exact C].
  apply C10_closed; try assumption; [exact BoardExamples.zob_real_w64|apply no_collision_b_ok; exact NC].
Qed.
