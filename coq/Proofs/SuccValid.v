(* A legal move keeps the part of [valid] the successor theorems need ([valid_core]): so chains of
   legal moves need no further hypothesis. *)
From Coq Require Import NArith ZArith List Bool Lia.
From Chess3 Require Import Base.Bits Base.Word Model.Types Model.Att Model.BoardDef Model.Board.
From Chess3 Require Import Spec.Geometry Spec.Chess Spec.Rep.
From Chess3 Require Import Proofs.SuccLists Proofs.SuccCore Proofs.SuccCells Proofs.SuccFacts Proofs.SuccPlace
                           Proofs.SuccSmall Proofs.SuccAttack Proofs.SuccEpBase Proofs.SuccEp Proofs.SuccMain Proofs.SuccRep.
Import ListNotations.
Open Scope N_scope.
Ltac Zify.zify_post_hook ::= Z.to_euclidean_division_equations.

(* check status depends on the placement only *)
Lemma in_check_at p1 p2 c : at_ p1 = at_ p2 -> in_check_spec p1 c = in_check_spec p2 c.
Proof.
  intros E. unfold in_check_spec, attacked_by, king_sq, holds, occ_of, empty, who. rewrite E. reflexivity.
Qed.

(* exactly one square satisfies f => the filter has length one *)
Lemma filter_unique (f : N -> bool) (l : list N) t : NoDup l -> In t l -> f t = true ->
  (forall s, In s l -> f s = true -> s = t) -> length (filter f l) = 1%nat.
Proof.
  induction l as [|x r IH]; intros ND Hin Hft Hu; [destruct Hin|].
  inversion ND as [|? ? Hnx ND']; subst. cbn [filter].
  destruct Hin as [->|Hin].
  - rewrite Hft. cbn [length]. f_equal.
    assert (filter f r = []) as ->; [|reflexivity].
    destruct (filter f r) as [|y ys] eqn:E; [reflexivity|].
    assert (In y (filter f r)) by (rewrite E; left; reflexivity).
    apply filter_In in H. destruct H as [H1 H2].
    assert (y = t) by (apply Hu; [right; exact H1|exact H2]). subst y. contradiction.
  - destruct (f x) eqn:Fx.
    + assert (x = t) by (apply Hu; [left; reflexivity|exact Fx]). subst x. contradiction.
    + apply IH; try assumption. intros s Hs. apply Hu. right. exact Hs.
Qed.

Lemma squares64_NoDup : NoDup squares64.
Proof. vm_compute. repeat (constructor; [cbn [In]; intros H; repeat (destruct H as [H|H]; [discriminate|]); exact H|]). constructor. Qed.

Lemma count_one_intro p c t : t < 64 -> holds p t c King = true ->
  (forall s, s < 64 -> holds p s c King = true -> s = t) -> count p c King = 1%Z.
Proof.
  intros Ht Hh Hu. unfold count.
  rewrite (filter_unique (fun s => holds p s c King) squares64 t squares64_NoDup); [reflexivity| | |].
  - apply squares64_In. exact Ht.
  - exact Hh.
  - intros s Hs. apply Hu. apply squares64_In. exact Hs.
Qed.

Lemma short_to_between c : In (king_home c + 2) (between (king_home c) (rook_home c false)).
Proof. destruct c; vm_compute; tauto. Qed.
Lemma long_to_between c : In (king_home c - 2) (between (king_home c) (rook_home c true)).
Proof. destruct c; vm_compute; tauto. Qed.

Lemma dp_arith c to : dp_range c to = true ->
  fwd (flip c) (dp_mid c to) = dp_from c to /\ fwd c (dp_mid c to) = to /\
  rank_n (dp_mid c to) = (match flip c with White => 5 | Black => 2 end).
Proof.
  intros H. destruct c; cbn [dp_range dp_mid dp_from fwd flip] in *; apply andb_true_iff in H; destruct H as [H1 H2];
    apply N.leb_le in H1; apply N.ltb_lt in H2; unfold rank_n; repeat split; lia.
Qed.

Lemma epsq_abs x : epsq (abs x) = if ep x =? 0 then None else Some (ep x). Proof. reflexivity. Qed.
Lemma turn_abs x : turn (abs x) = stm x. Proof. reflexivity. Qed.

Definition isK (c : color) (x : option (color * N)) : bool :=
  match x with Some (c', k) => color_eqb c c' && (King =? k) | None => false end.

Section Step.
Variable b : board.
Variable m : N.
Hypothesis HR : Rep b.
Hypothesis HV : valid_core (abs b) = true.
Hypothesis HL : legal_spec (abs b) m = true.

Let from := mv_from m.
Let to := mv_to m.
Let me := stm b.
Let them := flip me.

Lemma holds_core s c : s < 64 -> holds (abs (core b m)) s c King = isK c (cell (core b m) s).
Proof. intros Hs. unfold holds. rewrite (who_abs _ s Hs). reflexivity. Qed.
Lemma holds_b s c : s < 64 -> holds (abs b) s c King = isK c (cell b s).
Proof. intros Hs. unfold holds. rewrite (who_abs _ s Hs). reflexivity. Qed.

(* the squares of the successor, as far as kings are concerned *)
Lemma king_frame k : cell b from = Some (me, k) -> forall s c, s < 64 ->
  isK c (cell (core b m) s) =
  if s =? to then color_eqb c me && (King =? k)
  else if s =? from then false
  else isK c (cell b s).
Proof.
  intros Hc s c Hs. destruct (facts b m HL) as [k0 [Hc0 [Ho Hk]]]. fold from to me in Hc0, Ho.
  rewrite Hc in Hc0. inversion Hc0. subst k0. clear Hc0.
  pose proof (from_neq_to b m k Hc Ho) as Hft. fold from to in Hft.
  pose proof (mv_from_lt m) as Hfl. pose proof (mv_to_lt m) as Htl. fold from in Hfl. fold to in Htl.
  destruct (cell_Some _ _ _ _ Hc) as [Hp [Hk0 _]].
  rewrite (core_cell b m HR HV HL s Hs).
  unfold place_after. fold from to. rewrite (who_abs b from Hfl), Hc. cbn [turn abs]. fold me.
  rewrite (is_ep_eq b m k Hc), (is_castling_eq b m k Hc). fold from to.
  (* the promoted piece is never a king *)
  assert (HK' : (King =? (if mv_promo m =? 0 then k else mv_promo m)) = (King =? k)).
  { destruct (promo_legal b m k Hc Hk) as [Z|Z].
    - rewrite Z. reflexivity.
    - rewrite (proj2 (N.eqb_neq (mv_promo m) 0)) by lia.
      destruct (N.eqb_spec King k) as [E|E].
      + (* a king does not promote *) exfalso. rewrite <- E in Hk. change (King =? Pawn) with false in Hk.
        change (King =? King) with true in Hk. cbv iota in Hk. unfold king_part in Hk.
        apply andb_true_iff in Hk. destruct Hk as [Hk _]. apply N.eqb_eq in Hk. lia.
      + apply N.eqb_neq. unfold King. lia. }
  destruct (is_en_passant b m) eqn:He.
  - destruct (ep_shape b m HV k Hc Ho Hk He) as [Ek [Hto0 [Hcap Hcsq]]]. fold from to me in Hto0, Hcap, Hcsq.
    rewrite Ek in *. change (Pawn =? King) with false. cbn [andb].
    destruct (pawn_capture_geom me from to Hfl Htl Hcap) as [G1 [G2 [G3 _]]].
    rewrite <- (ep_csq_sqfr from to Hfl Htl).
    rewrite !nthN_put by (rewrite ?length_put; try apply abs_at_length; assumption).
    rewrite (nthN_abs_at' b s Hs).
    destruct (N.eqb_spec s (ep_csq from to)) as [E|E].
    + subst s. rewrite (proj2 (N.eqb_neq _ _) G2), (proj2 (N.eqb_neq _ _) G1), Hcsq. cbn [isK].
      change (King =? Pawn) with false. rewrite andb_false_r. reflexivity.
    + destruct (N.eqb_spec s to); [cbn [isK]; rewrite HK'; reflexivity|].
      destruct (N.eqb_spec s from); reflexivity.
  - destruct (N.eqb_spec k King) as [EK|EK]; cbn [andb].
    + rewrite EK in *. change (King =? Pawn) with false in Hk. change (King =? King) with true in Hk. cbv iota in Hk.
      pose proof (castle_facts b m Hc Hk) as CF. fold from to in CF.
      destruct (castle_rook from to) as [[rf rt]|].
      * destruct CF as [CF [Hf3 [Hrt0 [Hrt Hrf]]]].
        assert (Crt : cell b rt = None) by (unfold cell; rewrite Hrt0; reflexivity).
        (* the rook on rf *)
        assert (Crf : isK c (cell b rf) = false).
        { unfold king_part in Hk. fold from to in Hk. cbn [turn abs] in Hk. fold me in Hk.
          apply andb_true_iff in Hk. destruct Hk as [_ Hk].
          assert (NK : mem (king_attacks from) to = false).
          { destruct (mem (king_attacks from) to) eqn:E; [|reflexivity].
            destruct (king_step_geom from to Hfl Htl E) as [G1 [G2 G3]]. destruct CF as [[E1 _]|[E1 _]]; congruence. }
          rewrite NK in Hk. cbn [orb] in Hk.
          apply orb_true_iff in Hk. destruct Hk as [Hk|Hk]; repeat (apply andb_true_iff in Hk; destruct Hk as [Hk ?]);
            apply N.eqb_eq in Hk; apply N.eqb_eq in H0;
            destruct (castle_ok_parts _ _ H) as [_ [_ [HRk _]]]; cbn [turn abs] in HRk; fold me in HRk.
          - destruct CF as [[E1 [E2 E3]]|[E1 _]]; [|lia].
            assert (rook_home me false = rf) by (rewrite E2, Hk; destruct (stm b); reflexivity).
            rewrite H1 in HRk. rewrite (holds_abs b rf me Rook Hrf) in HRk.
            destruct (cell b rf) as [[c' k']|]; [|discriminate].
            apply andb_true_iff in HRk. destruct HRk as [R1 R2]. apply N.eqb_eq in R2. subst k'.
            cbn [isK]. change (King =? Rook) with false. apply andb_false_r.
          - destruct CF as [[E1 _]|[E1 [E2 [E3 E4]]]]; [lia|].
            assert (rook_home me true = rf) by (rewrite E2, Hk; destruct (stm b); reflexivity).
            rewrite H1 in HRk. rewrite (holds_abs b rf me Rook Hrf) in HRk.
            destruct (cell b rf) as [[c' k']|]; [|discriminate].
            apply andb_true_iff in HRk. destruct HRk as [R1 R2]. apply N.eqb_eq in R2. subst k'.
            cbn [isK]. change (King =? Rook) with false. apply andb_false_r. }
        destruct CF as [[E1 [E2 E3]]|[E1 [E2 [E3 E4]]]].
        -- rewrite E1, N.eqb_refl. cbn [orb]. rewrite <- E1. rewrite <- E2, <- E3.
           rewrite !nthN_put by (rewrite ?length_put; try apply abs_at_length; assumption).
           rewrite (nthN_abs_at' b s Hs).
           destruct (N.eqb_spec s rt) as [X|X].
           ++ subst s. rewrite (proj2 (N.eqb_neq rt to)) by lia. rewrite (proj2 (N.eqb_neq rt from)) by lia.
              rewrite Crt. cbn [isK]. change (King =? Rook) with false. apply andb_false_r.
           ++ destruct (N.eqb_spec s rf) as [Y|Y].
              ** subst s. rewrite (proj2 (N.eqb_neq rf to)) by lia. rewrite (proj2 (N.eqb_neq rf from)) by lia.
                 rewrite Crf. reflexivity.
              ** destruct (N.eqb_spec s to); [cbn [isK]; rewrite HK'; reflexivity|].
                 destruct (N.eqb_spec s from); reflexivity.
        -- rewrite (proj2 (N.eqb_neq to (from + 2))) by lia. rewrite (proj2 (N.eqb_eq (to + 2) from)) by exact E1.
           cbn [orb]. rewrite <- E2, <- E3.
           rewrite !nthN_put by (rewrite ?length_put; try apply abs_at_length; assumption).
           rewrite (nthN_abs_at' b s Hs).
           destruct (N.eqb_spec s rt) as [X|X].
           ++ subst s. rewrite (proj2 (N.eqb_neq rt to)) by lia. rewrite (proj2 (N.eqb_neq rt from)) by lia.
              rewrite Crt. cbn [isK]. change (King =? Rook) with false. apply andb_false_r.
           ++ destruct (N.eqb_spec s rf) as [Y|Y].
              ** subst s. rewrite (proj2 (N.eqb_neq rf to)) by lia. rewrite (proj2 (N.eqb_neq rf from)) by lia.
                 rewrite Crf. reflexivity.
              ** destruct (N.eqb_spec s to); [cbn [isK]; rewrite HK'; reflexivity|].
                 destruct (N.eqb_spec s from); reflexivity.
      * destruct CF as [C1 C2]. rewrite (proj2 (N.eqb_neq to (from + 2))) by exact C1.
        rewrite (proj2 (N.eqb_neq (to + 2) from)) by exact C2. cbn [orb].
        rewrite !nthN_put by (rewrite ?length_put; try apply abs_at_length; assumption).
        rewrite (nthN_abs_at' b s Hs).
        destruct (N.eqb_spec s to); [cbn [isK]; rewrite HK'; reflexivity|].
        destruct (N.eqb_spec s from); reflexivity.
    + rewrite !nthN_put by (rewrite ?length_put; try apply abs_at_length; assumption).
      rewrite (nthN_abs_at' b s Hs).
      destruct (N.eqb_spec s to); [cbn [isK]; rewrite HK'; reflexivity|].
      destruct (N.eqb_spec s from); reflexivity.
Qed.

Lemma attacked_from k : cell b from = Some (me, k) ->
  mem (attacks_from me k from (occ_of (abs b))) to = true -> attacked_by (abs b) me to = true.
Proof.
  intros Hc Hm. unfold attacked_by. apply existsb_squares64. exists from. split; [apply mv_from_lt|].
  rewrite (who_abs b from (mv_from_lt m)), Hc, color_eqb_refl. exact Hm.
Qed.

(* a legal move never lands on the enemy king (he would have been in check already) *)
Lemma no_king_capture : isK them (cell b to) = false.
Proof.
  destruct (isK them (cell b to)) eqn:E; [|reflexivity]. exfalso.
  destruct (facts b m HL) as [k [Hc [Ho Hk]]]. fold from to me in Hc, Ho.
  pose proof (mv_from_lt m) as Hfl. pose proof (mv_to_lt m) as Htl. fold from in Hfl. fold to in Htl.
  assert (Hocc : empty (abs b) to = false).
  { rewrite (empty_abs b to Htl). destruct (cell b to) as [[c' k']|] eqn:Ct; [|discriminate].
    destruct (cell_Some _ _ _ _ Ct) as [Q1 [Q2 _]]. rewrite Q1. apply N.eqb_neq. exact Q2. }
  (* the square is attacked by the moving piece *)
  assert (HA : attacked_by (abs b) me to = true).
  { apply (attacked_from k Hc).
    destruct (N.eqb_spec k Pawn) as [EP|EP].
    - rewrite EP. change (attacks_from me Pawn from (occ_of (abs b))) with (pawn_attacks me from).
      unfold pawn_part in Hk. fold from to in Hk. cbn [turn abs] in Hk. fold me in Hk. rewrite Hocc in Hk.
      apply andb_true_iff in Hk. destruct Hk as [_ Hk]. rewrite !andb_false_r in Hk. cbn [orb] in Hk.
      apply andb_true_iff in Hk. tauto.
    - destruct (N.eqb_spec k King) as [EK|EK].
      + rewrite EK. change (attacks_from me King from (occ_of (abs b))) with (king_attacks from).
        unfold king_part in Hk. fold from to in Hk. cbn [turn abs] in Hk. fold me in Hk.
        apply andb_true_iff in Hk. destruct Hk as [_ Hk].
        destruct (mem (king_attacks from) to); [reflexivity|]. cbn [orb] in Hk. exfalso.
        destruct between_homes as [B1 [B2 [B3 B4]]].
        apply orb_true_iff in Hk. destruct Hk as [Hk|Hk]; repeat (apply andb_true_iff in Hk; destruct Hk as [Hk ?]);
          apply N.eqb_eq in Hk; apply N.eqb_eq in H0;
          destruct (castle_ok_parts _ _ H) as [_ [_ [_ Hb]]]; cbn [turn abs] in Hb; fold me in Hb;
          rewrite forallb_forall in Hb.
        * assert (In to (between (king_home me) (rook_home me false))).
          { rewrite H0, Hk. apply short_to_between. }
          rewrite (Hb to H1) in Hocc. discriminate.
        * assert (In to (between (king_home me) (rook_home me true))).
          { assert (to = from - 2) by lia. rewrite H1, Hk. apply long_to_between. }
          rewrite (Hb to H1) in Hocc. discriminate.
      + unfold other_part in Hk. fold from to in Hk. cbn [turn abs] in Hk. fold me in Hk.
        apply andb_true_iff in Hk. tauto. }
  destruct (valid_core_parts _ HV) as [_ [HKc [HC _]]].
  destruct (unique_king (abs b) them (HKc them)) as [U1 [U2 U3]].
  assert (to = king_sq (abs b) them) by (apply U3; [exact Htl|rewrite (holds_b to them Htl); exact E]).
  unfold in_check_spec in HC. cbn [turn abs] in HC. fold me in HC. rewrite flip_flip in HC. fold them in HC.
  rewrite <- H in HC. congruence.
Qed.

Lemma king_counts c : count (abs (core b m)) c King = 1%Z.
Proof.
  destruct (facts b m HL) as [k [Hc [Ho Hk]]]. fold from to me in Hc, Ho.
  pose proof (mv_from_lt m) as Hfl. pose proof (mv_to_lt m) as Htl. fold from in Hfl. fold to in Htl.
  pose proof (from_neq_to b m k Hc Ho) as Hft. fold from to in Hft.
  destruct (valid_core_parts _ HV) as [_ [HKc _]].
  destruct (unique_king (abs b) c (HKc c)) as [U1 [U2 U3]]. set (t := king_sq (abs b) c) in *.
  rewrite (holds_b t c U1) in U2.
  assert (U3' : forall s, s < 64 -> isK c (cell b s) = true -> s = t).
  { intros s Hs H. apply U3; [exact Hs|]. rewrite (holds_b s c Hs). exact H. }
  destruct (color_eqb c me && (King =? k)) eqn:EA.
  - (* the king moves *)
    apply (count_one_intro _ c to Htl).
    + rewrite (holds_core to c Htl), (king_frame k Hc to c Htl), N.eqb_refl. exact EA.
    + intros s Hs H. rewrite (holds_core s c Hs), (king_frame k Hc s c Hs) in H.
      destruct (N.eqb_spec s to) as [E|E]; [exact E|].
      destruct (N.eqb_spec s from) as [E2|E2]; [discriminate|].
      exfalso. apply U3' in H; [|exact Hs].
      assert (from = t). { apply U3'; [exact Hfl|]. rewrite Hc. exact EA. }
      congruence.
  - (* the king stays *)
    assert (Tf : t <> from). { intros E. rewrite E, Hc in U2. cbn [isK] in U2. congruence. }
    assert (Tt : t <> to).
    { intros E. rewrite E in U2.
      assert (c = them).
      { rewrite (owned_abs b to me Htl) in Ho. destruct (cell b to) as [[c' k']|]; [|discriminate].
        cbn [isK] in U2. apply andb_true_iff in U2. destruct U2 as [U2 _]. apply color_eqb_eq in U2. subst c'.
        unfold them. destruct me, c; cbn in *; congruence. }
      subst c. rewrite no_king_capture in U2. discriminate. }
    apply (count_one_intro _ c t U1).
    + rewrite (holds_core t c U1), (king_frame k Hc t c U1).
      rewrite (proj2 (N.eqb_neq t to) Tt), (proj2 (N.eqb_neq t from) Tf). exact U2.
    + intros s Hs H. rewrite (holds_core s c Hs), (king_frame k Hc s c Hs) in H.
      destruct (N.eqb_spec s to) as [E|E]; [congruence|].
      destruct (N.eqb_spec s from) as [E2|E2]; [discriminate|].
      apply U3'; assumption.
Qed.

Lemma ep_ok_core : ep_ok (abs (core b m)) = true.
Proof.
  destruct (core_small_fields b m) as [F1 [F2 _]].
  unfold ep_ok. rewrite epsq_abs, turn_abs, F1, F2.
  destruct (new_ep b m =? 0) eqn:EZ; [reflexivity|]. apply N.eqb_neq in EZ.
  unfold new_ep in EZ |- *.
  destruct ((piece_at b (mv_from m) =? Pawn) && (abs_diff (mv_from m) (mv_to m) =? 16) && can_en_passant b (mv_to m)) eqn:EC;
    [|congruence].
  apply andb_true_iff in EC. destruct EC as [EC _]. apply andb_true_iff in EC. destruct EC as [EP ED].
  apply N.eqb_eq in EP. rewrite abs_diff_16 in ED.
  assert (Hd : mv_to m = mv_from m + 16 \/ mv_to m + 16 = mv_from m).
  { apply orb_true_iff in ED. destruct ED as [E|E]; apply N.eqb_eq in E; tauto. }
  destruct (facts b m HL) as [k [Hc _]]. destruct (cell_Some _ _ _ _ Hc) as [Hp _]. rewrite EP in Hp. subst k.
  destruct (dfacts b m HL Hc Hd) as [Hr [Hfr [Hm0 [Ht0 [_ [Hmid [Hml [Hmt [Hmf Hft]]]]]]]]].
  rewrite Hmid.
  destruct (dp_arith (stm b) (mv_to m) Hr) as [A1 [A2 A3]]. rewrite <- Hfr in A1.
  pose proof (mv_from_lt m) as Hfl. pose proof (mv_to_lt m) as Htl. 
  rewrite flip_flip, A1, A2.
  assert (CA : forall s, s < 64 -> cell (core b m) s = if s =? (mv_to m) then Some ((stm b), Pawn) else if s =? (mv_from m) then None else cell b s)
    by (intros s Hs; apply (cell_after b m HR HV HL Hc Hd s Hs)).
  assert (E1 : (rank_n (dp_mid (stm b) (mv_to m)) =? match flip (stm b) with White => 5 | Black => 2 end) = true)
    by (apply N.eqb_eq; exact A3).
  assert (E2 : empty (abs (core b m)) (dp_mid (stm b) (mv_to m)) = true).
  { unfold empty. rewrite (who_abs _ _ Hml), (CA _ Hml).
    rewrite (proj2 (N.eqb_neq _ _) Hmt), (proj2 (N.eqb_neq _ _) Hmf). unfold cell. rewrite Hm0. reflexivity. }
  assert (E3 : empty (abs (core b m)) (mv_from m) = true).
  { unfold empty. rewrite (who_abs _ _ Hfl), (CA _ Hfl). rewrite (proj2 (N.eqb_neq _ _) Hft), N.eqb_refl. reflexivity. }
  assert (E4 : holds (abs (core b m)) (mv_to m) (stm b) Pawn = true).
  { unfold holds. rewrite (who_abs _ _ Htl), (CA _ Htl), N.eqb_refl, color_eqb_refl. reflexivity. }
  rewrite E1, E2, E3, E4. cbn [andb].
  apply negb_true_iff.
  destruct (valid_core_parts _ HV) as [_ [_ [HC _]]]. rewrite turn_abs in HC. fold (stm b) in HC.
  rewrite <- HC. apply in_check_at. cbn [at_ with_placement].
  apply (list64_ext _ _ None).
  - rewrite !length_put. apply abs_at_length.
  - apply abs_at_length.
  - intros s Hs.
    rewrite !nthN_put by (rewrite ?length_put; try apply abs_at_length; assumption).
    rewrite !nthN_abs_at' by exact Hs. rewrite (CA s Hs).
    destruct (N.eqb_spec s (mv_from m)) as [X|X]; [subst s; symmetry; exact Hc|].
    destruct (N.eqb_spec s (mv_to m)) as [Y|Y]; [subst s; unfold cell; rewrite Ht0; reflexivity|]. reflexivity.
Qed.

Theorem valid_core_core : valid_core (abs (core b m)) = true.
Proof.
  unfold valid_core.
  apply andb_true_iff; split; [apply andb_true_iff; split; [apply andb_true_iff; split; [apply andb_true_iff; split|]|]|].
  - apply Nat.eqb_eq. apply abs_at_length.
  - apply Z.eqb_eq. apply king_counts.
  - apply Z.eqb_eq. apply king_counts.
  - apply negb_true_iff. rewrite turn_abs. destruct (core_small_fields b m) as [F1 _]. rewrite F1, flip_flip.
    destruct (legal_parts _ _ HL) as [_ L]. rewrite turn_abs in L. rewrite <- L.
    apply in_check_at. cbn [at_ with_placement]. apply core_placement; assumption.
  - apply ep_ok_core.
Qed.

End Step.

(* legal moves keep valid_core, on every representable board *)
Theorem valid_core_make z b m : Rep b -> valid_core (abs b) = true -> legal_spec (abs b) m = true ->
  valid_core (abs (fst (make z b m))) = true.
Proof.
  intros HR HV HL. destruct (make_core z b m) as [h E]. rewrite E, abs_set_hashes.
  apply valid_core_core; assumption.
Qed.

(* chains without any hypothesis about the specification *)
Theorem chain_full z : zob_ok z ->
  forall ms b, Rep b -> valid_core (abs b) = true -> (0 <= fifty b)%Z -> (fifty b + Z.of_nat (length ms) < 32768)%Z ->
  legal_chain (abs b) ms = true ->
  abs (play z b ms) = play_spec (abs b) ms /\ Rep (play z b ms) /\ valid_core (abs (play z b ms)) = true.
Proof.
  intros Hz. induction ms as [|m r IH]; intros b HR HV H0 H1 HL; cbn [play play_spec legal_chain length] in *.
  - tauto.
  - apply andb_true_iff in HL. destruct HL as [HL1 HL2].
    assert (HF : (0 <= fifty b < 32767)%Z) by lia.
    pose proof (C02_succ_proof z b m HR HV HF HL1) as E.
    rewrite <- E in HL2 |- *.
    pose proof (make_Rep_proof z Hz b m HR HV HL1 HF) as HR'.
    pose proof (valid_core_make z b m HR HV HL1) as HV'.
    destruct (clock_step z b m HF) as [EF|EF]; apply IH; try assumption; rewrite EF; lia.
Qed.

Theorem uci_legal_full z : zob_ok z ->
  forall toks b, Rep b -> valid_core (abs b) = true -> (0 <= fifty b)%Z ->
  (fifty b + Z.of_nat (length (ApplyMoves.accepted_moves z b toks)) < 32768)%Z ->
  legal_chain (abs b) (ApplyMoves.accepted_moves z b toks) = true ->
  abs (ApplyMoves.apply_moves z b toks) = play_spec (abs b) (ApplyMoves.accepted_moves z b toks).
Proof.
  intros Hz toks b HR HV H0 H1 HL. destruct (uci_proof z toks b) as [E _]. cbv zeta in E. rewrite E.
  apply (chain_full z Hz); assumption.
Qed.

(* the same with the full [valid] of Spec/Chess.v as the hypothesis *)
Theorem C02_succ_valid z b m : Rep b -> valid (abs b) = true -> (0 <= fifty b < 32767)%Z ->
  legal_spec (abs b) m = true -> abs (fst (make z b m)) = succ_spec (abs b) m.
Proof. intros HR HV. apply C02_succ_proof; [exact HR|apply valid_valid_core; exact HV]. Qed.

Theorem can_en_passant_valid b m : Rep b -> valid (abs b) = true -> legal_spec (abs b) m = true ->
  holds (abs b) (mv_from m) (stm b) Pawn = true ->
  (mv_to m = mv_from m + 16 \/ mv_to m + 16 = mv_from m) ->
  (can_en_passant b (mv_to m) = true <-> epsq (succ_spec (abs b) m) = Some ((mv_from m + mv_to m) / 2)).
Proof. intros HR HV. apply can_en_passant_succ; [exact HR|apply valid_valid_core; exact HV]. Qed.

Theorem chain_valid z : zob_ok z ->
  forall ms b, Rep b -> valid (abs b) = true -> (0 <= fifty b)%Z -> (fifty b + Z.of_nat (length ms) < 32768)%Z ->
  legal_chain (abs b) ms = true ->
  abs (play z b ms) = play_spec (abs b) ms /\ Rep (play z b ms) /\ valid_core (abs (play z b ms)) = true.
Proof. intros Hz ms b HR HV. apply (chain_full z Hz); [exact HR|apply valid_valid_core; exact HV]. Qed.

Theorem uci_legal_valid z : zob_ok z ->
  forall toks b, Rep b -> valid (abs b) = true -> (0 <= fifty b)%Z ->
  (fifty b + Z.of_nat (length (ApplyMoves.accepted_moves z b toks)) < 32768)%Z ->
  legal_chain (abs b) (ApplyMoves.accepted_moves z b toks) = true ->
  abs (ApplyMoves.apply_moves z b toks) = play_spec (abs b) (ApplyMoves.accepted_moves z b toks).
Proof. intros Hz toks b HR HV. apply (uci_legal_full z Hz); [exact HR|apply valid_valid_core; exact HV]. Qed.
