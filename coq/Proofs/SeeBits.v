(* Bit-level and list-level lemmas used by the C18 refinement proof (Proofs/SeeGeom.v):
   x & -x isolates the lowest set bit, occ & ^bit clears a bit, the tie-break [impl_choice] picks the
   lexicographically least (kind, square), [least_value] is the minimum of the values. *)
From Coq Require Import NArith ZArith List Bool Lia.
From Chess3 Require Import Base.Bits Model.Types Model.See Spec.SeeSpec.
Import ListNotations.
Open Scope N_scope.

(* ------------------------------------------------------------------------------------------ *)
(* words *)

Lemma testbit_lt64 x i : x < two64 -> N.testbit x i = true -> i < 64.
Proof.
  intros Hx Hi. destruct (N.lt_ge_cases i 64) as [L|L]; [exact L|].
  rewrite (lt_two64_testbit x Hx i L) in Hi. discriminate.
Qed.

Lemma bnot_testbit x i : N.testbit (bnot x) i = (i <? 64) && negb (N.testbit x i).
Proof.
  unfold bnot. rewrite N.lxor_spec, w64_testbit, ones64_eq.
  destruct (N.ltb_spec i 64) as [L|L].
  - rewrite N.ones_spec_low by exact L. destruct (N.testbit x i); reflexivity.
  - rewrite N.ones_spec_high by exact L. rewrite andb_false_r. reflexivity.
Qed.

Lemma band_bnot_bit occ x : occ < two64 -> band occ (bnot (bit x)) = clrb occ x.
Proof.
  intros Hocc. apply N.bits_inj. intros i. unfold band. rewrite N.land_spec, bnot_testbit, clrb_testbit, bit_testbit.
  destruct (N.testbit occ i) eqn:E; [|reflexivity].
  rewrite (proj2 (N.ltb_lt i 64) (testbit_lt64 occ i Hocc E)). reflexivity.
Qed.

Lemma bxor_bit_clrb x s : N.testbit x s = true -> bxor x (bit s) = clrb x s.
Proof.
  intros H. apply N.bits_inj. intros i. unfold bxor. rewrite N.lxor_spec, clrb_testbit, bit_testbit.
  destruct (N.eqb_spec s i) as [->|Hn].
  - rewrite H. reflexivity.
  - cbn. rewrite xorb_false_r, andb_true_r. reflexivity.
Qed.

Lemma neg64_pos x : 0 < x < two64 -> neg64 x = two64 - x.
Proof.
  intros Hx. unfold neg64, sub64. rewrite (w64_id x) by lia. rewrite N.add_0_l. apply w64_id. lia.
Qed.

Lemma isolate_lsb_bit x : 0 < x < two64 -> isolate_lsb x = bit (lsb x).
Proof.
  intros Hx. unfold isolate_lsb. rewrite neg64_pos by exact Hx.
  assert (Hx0 : x <> 0) by lia.
  assert (Hsub : two64 - x = N.ldiff ones64 (N.pred x)).
  { rewrite <- N.sub_nocarry_ldiff.
    - unfold two64, ones64 in *. lia.
    - apply N.bits_inj_0. intros i. rewrite N.ldiff_spec, ones64_eq.
      destruct (N.ltb_spec i 64) as [L|L].
      + rewrite N.ones_spec_low by exact L. apply andb_false_r.
      + rewrite (lt_two64_testbit (N.pred x)); [reflexivity| |exact L]. unfold two64 in *. lia. }
  rewrite Hsub. apply N.bits_inj. intros i.
  unfold band. rewrite N.land_spec, N.ldiff_spec, bit_testbit, ones64_eq.
  pose proof (clear_lsb_spec x i Hx0) as C. unfold clear_lsb in C. rewrite N.land_spec in C.
  pose proof (lsb_testbit x Hx0) as L.
  destruct (N.eqb_spec (lsb x) i) as [E|E].
  - subst i. rewrite L in *. cbn in C. rewrite C.
    rewrite N.ones_spec_low; [reflexivity|]. apply (testbit_lt64 x); [lia|exact L].
  - cbn in C. rewrite andb_true_r in C.
    destruct (N.testbit x i) eqn:Ex; [|reflexivity]. cbn in C. rewrite C. cbn. apply andb_false_r.
Qed.

Lemma lsb_least x s : N.testbit x s = true -> lsb x <= s.
Proof.
  intros H. destruct (N.le_gt_cases (lsb x) s) as [L|L]; [exact L|].
  rewrite (lsb_lowest x s L) in H. discriminate.
Qed.

Lemma nonzero_testbit x : x <> 0 -> exists i, N.testbit x i = true.
Proof. intros H. exists (lsb x). apply lsb_testbit. exact H. Qed.

Lemma zero_testbit x : (forall i, N.testbit x i = false) -> x = 0.
Proof. intros H. apply N.bits_inj_0. exact H. Qed.

Lemma eqb0_false_testbit x : (x =? 0) = false -> N.testbit x (lsb x) = true.
Proof. intros H. apply lsb_testbit. apply N.eqb_neq. exact H. Qed.

Lemma eqb0_true_testbit x i : (x =? 0) = true -> N.testbit x i = false.
Proof. intros H. apply N.eqb_eq in H. subst. apply N.bits_0. Qed.

Lemma clrb_lt occ x : occ < two64 -> clrb occ x < two64.
Proof.
  intros H. apply testbit_lt_two64. intros i Hi. rewrite clrb_testbit.
  rewrite (lt_two64_testbit occ H i Hi). reflexivity.
Qed.

(* ------------------------------------------------------------------------------------------ *)
(* the tie-break *)

Lemma impl_choice_min l : l <> [] ->
  let z := impl_choice l in In z l /\ forall y, In y l -> impl_better y z = false.
Proof.
  destruct l as [|x0 r]; [congruence|]. intros _. cbn [impl_choice].
  revert x0. induction r as [|h r IH]; intros x0; cbn [fold_left].
  - split; [left; reflexivity|]. intros y [<-|[]]. unfold impl_better.
    rewrite N.ltb_irrefl, N.eqb_refl. cbn. apply N.ltb_irrefl.
  - specialize (IH (if impl_better h x0 then h else x0)). cbv zeta in IH. destruct IH as [Hin Hmin].
    split.
    + destruct Hin as [E|Hin]; [|right; right; exact Hin].
      destruct (impl_better h x0); [right; left; exact E|left; exact E].
    + intros y [<-|[<-|Hy]].
      * (* y = x0 *)
        destruct (impl_better h x0) eqn:E.
        -- set (z := fold_left _ r h) in *. pose proof (Hmin h (or_introl eq_refl)) as H1.
           unfold impl_better in *. destruct x0 as [a p], h as [a' p'], z as [a'' p'']. cbn [fst snd] in *.
           apply orb_false_iff in H1. destruct H1 as [H1 H2]. apply N.ltb_ge in H1.
           apply orb_false_iff. split; [apply N.ltb_ge|].
           ++ apply orb_true_iff in E. destruct E as [E|E]; [apply N.ltb_lt in E; lia|].
              apply andb_true_iff in E. destruct E as [E _]. apply N.eqb_eq in E. lia.
           ++ apply andb_false_iff. destruct (N.eqb_spec p p'') as [->|]; [right|left; reflexivity].
              apply N.ltb_ge. apply orb_true_iff in E. destruct E as [E|E]; [apply N.ltb_lt in E; lia|].
              apply andb_true_iff in E. destruct E as [E1 E2]. apply N.eqb_eq in E1. apply N.ltb_lt in E2.
              subst p'. rewrite N.eqb_refl in H2. cbn in H2. apply N.ltb_ge in H2. lia.
        -- apply Hmin. left. reflexivity.
      * (* y = h *)
        destruct (impl_better h x0) eqn:E.
        -- apply Hmin. left. reflexivity.
        -- set (z := fold_left _ r x0) in *. pose proof (Hmin x0 (or_introl eq_refl)) as H1.
           unfold impl_better in *. destruct x0 as [a p], h as [a' p'], z as [a'' p'']. cbn [fst snd] in *.
           apply orb_false_iff in H1. destruct H1 as [H1 H2]. apply N.ltb_ge in H1.
           apply orb_false_iff in E. destruct E as [E1 E2]. apply N.ltb_ge in E1.
           apply orb_false_iff. split; [apply N.ltb_ge; lia|].
           apply andb_false_iff. destruct (N.eqb_spec p' p'') as [->|]; [right|left; reflexivity].
           apply N.ltb_ge.
           assert (p = p'') by lia. subst p.
           rewrite N.eqb_refl in H2, E2. cbn in H2, E2. apply N.ltb_ge in H2, E2. lia.
      * apply Hmin. right. exact Hy.
Qed.

(* an element that beats every other element is the one chosen *)
Lemma impl_choice_unique l x :
  In x l -> (forall y, In y l -> y <> x -> impl_better x y = true) -> impl_choice l = x.
Proof.
  intros Hin Hbest.
  assert (Hne : l <> []) by (destruct l; [destruct Hin|discriminate]).
  destruct (impl_choice_min l Hne) as [Hz Hmin].
  destruct x as [a p]. destruct (impl_choice l) as [a' p'] eqn:E.
  destruct (N.eq_dec a a') as [->|Ha]; [destruct (N.eq_dec p p') as [->|Hp]; [reflexivity|]|].
  - specialize (Hbest _ Hz ltac:(congruence)). rewrite (Hmin _ Hin) in Hbest. discriminate.
  - specialize (Hbest _ Hz ltac:(congruence)). rewrite (Hmin _ Hin) in Hbest. discriminate.
Qed.

(* ------------------------------------------------------------------------------------------ *)
(* least value *)

Lemma fold_min_le (r : list (N * N)) : forall v,
  (fold_left (fun acc sp => Z.min acc (value (snd sp))) r v <= v)%Z /\
  (forall y, In y r -> fold_left (fun acc sp => Z.min acc (value (snd sp))) r v <= value (snd y))%Z /\
  (fold_left (fun acc sp => Z.min acc (value (snd sp))) r v = v \/
   exists y, In y r /\ fold_left (fun acc sp => Z.min acc (value (snd sp))) r v = value (snd y)).
Proof.
  induction r as [|h r IH]; intros v; cbn [fold_left].
  - split; [lia|]. split; [intros y []|left; reflexivity].
  - destruct (IH (Z.min v (value (snd h)))) as [H1 [H2 H3]]. split; [lia|]. split.
    + intros y [<-|Hy]; [lia|apply H2; exact Hy].
    + destruct H3 as [H3|[y [Hy H3]]].
      * destruct (Z.min_spec v (value (snd h))) as [[_ E]|[_ E]].
        -- left. rewrite H3. exact E.
        -- right. exists h. split; [left; reflexivity|rewrite H3; exact E].
      * right. exists y. split; [right; exact Hy|exact H3].
Qed.

Lemma least_value_le A y : In y A -> (least_value A <= value (snd y))%Z.
Proof.
  destruct A as [|x r]; [intros []|]. cbn [least_value].
  destruct (fold_min_le r (value (snd x))) as [H1 [H2 _]].
  intros [<-|Hy]; [exact H1|apply H2; exact Hy].
Qed.

Lemma least_value_attained A : A <> [] -> exists y, In y A /\ least_value A = value (snd y).
Proof.
  destruct A as [|x r]; [congruence|]. intros _. cbn [least_value].
  destruct (fold_min_le r (value (snd x))) as [_ [_ [H|[y [Hy H]]]]].
  - exists x. split; [left; reflexivity|exact H].
  - exists y. split; [right; exact Hy|exact H].
Qed.

(* an attacker at least as cheap as every attacker is a candidate *)
Lemma candidate_of_cheapest A x :
  In x A -> (forall y, In y A -> (value (snd x) <= value (snd y))%Z) -> In x (candidates A).
Proof.
  intros Hin Hmin. unfold candidates. apply filter_In. split; [exact Hin|].
  apply Z.eqb_eq.
  assert (Hne : A <> []) by (destruct A; [destruct Hin|discriminate]).
  destruct (least_value_attained A Hne) as [y [Hy E]].
  pose proof (least_value_le A x Hin). pose proof (Hmin y Hy). lia.
Qed.

Lemma candidates_sub A x : In x (candidates A) -> In x A.
Proof. unfold candidates. intros H. apply filter_In in H. tauto. Qed.
