(* The model of heur.SEE (Model/See.v) with the piece-value table as a parameter.

   heur.PieceValues is an exported variable; the c18 stream also runs the implementation with other
   tables in force (configuration mode) and evaluates this parametric model with the same table.
   The definitions below are Model/See.v's, verbatim, with [PieceValues] replaced by the section
   variable [tbl]; Proofs/SeeTable.v shows (by reflexivity) that the instance at the generated table
   IS the model the C18 theorems are about.  GENERATED from Model/See.v by a text transformation when
   the parametric copy was introduced - keep the two files in step. *)
From Coq Require Import NArith ZArith List Bool.
From Chess3 Require Import Base.Bits Base.Word Model.Types Model.Att Model.BoardDef Model.Board Model.See.
Import ListNotations.
Open Scope N_scope.

Section Table.
Variable tbl : list Z.   (* PieceValues, indexed by piece code *)

Definition pval_t (p : N) : Z := nth (N.to_nat p) tbl 0%Z.

Definition capture_with_t (b : board) (to p : N) (stmAtt occ att : N) (swap res : Z) : option outcome :=
  let fromBB := band stmAtt (pieces b p) in
  if fromBB =? 0 then None else
  let swap := wrap16 (pval_t p - swap) in
  if (swap <? res)%Z then Some (Return (res =? 1)%Z) else
  let occ := band occ (bnot (isolate_lsb fromBB)) in
  let att :=
    if (p =? Pawn) || (p =? Bishop) then bor att (disc_diag b to occ)
    else if p =? Rook then bor att (disc_line b to occ)
    else if p =? Queen then bor att (bor (disc_diag b to occ) (disc_line b to occ))
    else att (* Knight: nothing can be discovered *) in
  Some (Next occ att swap).

Definition see_step_t (b : board) (to : N) (stm : color) (occ att : N) (swap res : Z) (start : N) : outcome * N :=
  let stmAtt := band att (colors b stm) in
  let try p := capture_with_t b to p stmAtt occ att swap res in
  let case_bishop (_ : unit) :=
    match try Bishop with Some o => (o, Bishop) | None =>
    match try Rook with Some o => (o, Bishop) | None =>
    match try Queen with Some o => (o, Bishop) | None =>
      (* only the king is left: it may capture only if the other side has no attacker left *)
      (if negb (band att (bnot (colors b stm)) =? 0) then Return (res =? 0)%Z else Return (res =? 1)%Z, Bishop)
    end end end in
  let case_knight (_ : unit) :=
    match try Knight with Some o => (o, Knight) | None => case_bishop tt end in
  let case_pawn (_ : unit) :=
    match try Pawn with Some o => (o, start) | None => case_knight tt end in
  if start =? Pawn then case_pawn tt else if start =? Knight then case_knight tt else case_bishop tt.

Fixpoint see_iter_t (fuel : nat) (b : board) (to : N) (stm : color) (occ att : N) (swap res : Z)
                  (startW startB : N) : bool :=
  match fuel with
  | O => (res =? 1)%Z
  | S k =>
      let stm := flip stm in                                  (* stm = stm.Flip() *)
      let att := band att occ in                              (* attackers &= occ *)
      let stmAtt := band att (colors b stm) in
      if stmAtt =? 0 then (res =? 1)%Z else                   (* break; return res == 1 *)
      let res := Z.lxor res 1 in                              (* res ^= 1 *)
      let start := match stm with White => startW | Black => startB end in
      match see_step_t b to stm occ att swap res start with
      | (Return r, _) => r
      | (Next occ' att' swap', start') =>
          match stm with
          | White => see_iter_t k b to stm occ' att' swap' res start' startB
          | Black => see_iter_t k b to stm occ' att' swap' res startW start'
          end
      end
  end.

Definition see_prologue_t (b : board) (m : N) (threshold : Z) : bool + Z :=
  let from := mv_from m in
  let captured := piece_at b (capture_sq b m) in
  let promoVal := if negb (mv_promo m =? NoPiece) then wrap16 (pval_t (mv_promo m) - pval_t Pawn) else 0%Z in
  let swap := wrap16 (wrap16 (pval_t captured + promoVal) - threshold) in
  if (swap <? 0)%Z then inl false else
  let swap := wrap16 (wrap16 (pval_t (piece_at b from) + promoVal) - swap) in
  if (swap <=? 0)%Z then inl true else
  inr swap.

Definition see_t (b : board) (m : N) (threshold : Z) : bool :=
  match see_prologue_t b m threshold with
  | inl r => r
  | inr swap =>
      let to := mv_to m in
      let occ := see_occ b m in
      see_iter_t 66 b to (stm b) occ (see_attackers b to occ) swap 1 Pawn Pawn
  end.

End Table.
