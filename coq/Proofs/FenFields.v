(* C11 round trip, part 1: cursor lemmas, the decimal print/parse inverse, and the behaviour of the
   small field parsers (separator, side to move, castling rights, en passant, counters) on the
   text the printer emits.  A parser position is described by [skipn ix s = text still to read]. *)
From Coq Require Import NArith ZArith List Bool Lia PeanoNat.
From Chess3 Require Import Base.Bits Base.Word Model.Types Model.BoardDef Model.Board Model.Fen.
Import ListNotations.
Ltac Zify.zify_post_hook ::= Z.to_euclidean_division_equations.

(* ------------------------------------------------------------------------------------------ *)
(* cursor *)

Lemma skipn_cons_inv : forall ix (s : list N) c t, skipn ix s = c :: t ->
  nth_error s ix = Some c /\ skipn (S ix) s = t /\ (ix < length s)%nat.
Proof.
  induction ix as [|ix IH]; intros [|a s] c t H; cbn in *; try discriminate.
  - inversion H; subst. repeat split. lia.
  - apply IH in H. destruct H as (H1 & H2 & H3). repeat split; auto. lia.
Qed.

Lemma skipn_nil_inv ix (s : list N) : skipn ix s = [] -> (length s <= ix)%nat.
Proof. intros H. apply (f_equal (@length N)) in H. rewrite skipn_length in H. cbn in H. lia. Qed.

Lemma ltb_of_cursor ix (s : list N) c t : skipn ix s = c :: t -> (ix <? length s)%nat = true.
Proof. intros H. apply skipn_cons_inv in H. apply Nat.ltb_lt. tauto. Qed.

(* ------------------------------------------------------------------------------------------ *)
(* decimal numbers *)

Definition is_dec (c : N) : Prop := (c_0 <= c <= c_9)%N.

(* the parser's accumulation, with Go's wrap-around *)
Definition wacc (x : Z) (ds : list N) : Z :=
  fold_left (fun a d => wrap64 (wrap64 (a * 10) + Z.of_N (d - c_0))) ds x.
(* the value of a digit string *)
Definition dval (x : Z) (ds : list N) : Z :=
  fold_left (fun a d => a * 10 + Z.of_N (d - c_0))%Z ds x.

Lemma dval_app x a b : dval x (a ++ b) = dval (dval x a) b.
Proof. unfold dval. apply fold_left_app. Qed.

Lemma dval_mono : forall ds x, (0 <= x)%Z -> (x <= dval x ds)%Z.
Proof.
  induction ds as [|d ds IH]; intros x Hx; cbn; [lia|].
  etransitivity; [|apply IH; lia]. lia.
Qed.

Lemma wacc_dval : forall ds x, (0 <= x)%Z -> (dval x ds < 9223372036854775808)%Z -> wacc x ds = dval x ds.
Proof.
  induction ds as [|d ds IH]; intros x Hx Hb; [reflexivity|].
  cbn in *. change (fold_left _ ds ?y) with (dval y ds) in Hb.
  pose proof (dval_mono ds (x * 10 + Z.of_N (d - c_0)) ltac:(lia)) as Hm.
  rewrite (wrap64_id (x * 10)) by lia. rewrite wrap64_id by lia.
  apply IH; [lia|exact Hb].
Qed.

Lemma dec_digits_acc : forall fuel n acc, dec_digits fuel n acc = dec_digits fuel n [] ++ acc.
Proof.
  induction fuel as [|f IH]; intros n acc; cbn [dec_digits]; [reflexivity|].
  destruct (n / 10 =? 0)%N; [reflexivity|].
  rewrite (IH (n / 10)%N (_ :: acc)), (IH (n / 10)%N [_]), <- app_assoc. reflexivity.
Qed.

Lemma dec_digits_spec : forall fuel n, (n < 2 ^ N.of_nat fuel)%N ->
  dval 0 (dec_digits (S fuel) n []) = Z.of_N n /\ Forall is_dec (dec_digits (S fuel) n []) /\
  dec_digits (S fuel) n [] <> [].
Proof.
  induction fuel as [|f IH]; intros n Hn.
  - cbn in Hn. assert (n = 0%N) by lia. subst. cbn. repeat split; [|discriminate].
    constructor; [unfold is_dec, c_0, c_9; lia|constructor].
  - cbn [dec_digits].
    assert (Hd : is_dec (c_0 + n mod 10)).
    { unfold is_dec, c_0, c_9. pose proof (N.mod_upper_bound n 10 ltac:(lia)). lia. }
    assert (Hv : Z.of_N (c_0 + n mod 10 - c_0) = Z.of_N (n mod 10)) by (f_equal; lia).
    destruct (N.eqb_spec (n / 10) 0) as [E|E].
    + repeat split; [|constructor; [exact Hd|constructor]|discriminate].
      unfold dval. cbn [fold_left]. rewrite Hv. lia.
    + change (if (n / 10 / 10 =? 0)%N then ?a else ?b) with (dec_digits (S f) (n / 10) [c_0 + n mod 10]).
      rewrite dec_digits_acc.
      assert (Hq : (n / 10 < 2 ^ N.of_nat f)%N).
      { rewrite Nat2N.inj_succ, N.pow_succ_r' in Hn.
        apply N.div_lt_upper_bound; [lia|]. lia. }
      destruct (IH (n / 10)%N Hq) as (V & F & NE).
      repeat split.
      * rewrite dval_app, V. unfold dval. cbn [fold_left]. rewrite Hv. lia.
      * apply Forall_app. split; [exact F|constructor; [exact Hd|constructor]].
      * intros H. apply app_eq_nil in H. destruct H; discriminate.
Qed.

Lemma size_nat_gt n : (n < 2 ^ N.of_nat (N.size_nat n))%N.
Proof.
  destruct n as [|p]; [cbn; lia|].
  cbn [N.size_nat].
  induction p as [q IH|q IH|]; cbn [Pos.size_nat]; try rewrite Nat2N.inj_succ, N.pow_succ_r'; try lia.
  all: try (cbn; lia).
Qed.

Lemma itoa_N_spec n : dval 0 (itoa_N n) = Z.of_N n /\ Forall is_dec (itoa_N n) /\ itoa_N n <> [].
Proof. unfold itoa_N. apply dec_digits_spec, size_nat_gt. Qed.

Lemma itoa_nonneg z : (0 <= z)%Z -> itoa z = itoa_N (Z.to_N z).
Proof. destruct z; cbn; try reflexivity. lia. Qed.

Lemma itoa_spec z : (0 <= z)%Z -> dval 0 (itoa z) = z /\ Forall is_dec (itoa z) /\ itoa z <> [].
Proof.
  intros H. rewrite itoa_nonneg by exact H. destruct (itoa_N_spec (Z.to_N z)) as (A & B & C).
  rewrite A. repeat split; auto. lia.
Qed.

(* a text terminates a field when it is empty or starts with a blank *)
Definition term (t : list N) : Prop := t = [] \/ exists t', t = c_space :: t'.

(* counter() on a digit string followed by a terminator *)
Lemma counter_run (s : list N) t : term t -> forall ds fuel ix x,
  Forall is_dec ds -> skipn ix s = ds ++ t -> (length s - ix < fuel)%nat ->
  exists ix', counter_loop fuel s (length s) ix x = Ok (ix', wacc x ds) /\ skipn ix' s = t.
Proof.
  intros Ht. induction ds as [|d ds IH]; intros fuel ix x Hd Hs Hf.
  - destruct fuel as [|fuel]; [lia|]. cbn [counter_loop app] in *. exists ix.
    destruct Ht as [->|[t' ->]].
    + apply skipn_nil_inv in Hs as Hl. destruct (Nat.ltb_spec ix (length s)); [lia|]. auto.
    + rewrite (ltb_of_cursor _ _ _ _ Hs). apply skipn_cons_inv in Hs as Hc. destruct Hc as (-> & _ & _).
      rewrite N.eqb_refl. auto.
  - destruct fuel as [|fuel]; [lia|]. cbn [counter_loop app] in *.
    rewrite (ltb_of_cursor _ _ _ _ Hs). apply skipn_cons_inv in Hs. destruct Hs as (-> & Hs & Hl).
    inversion Hd as [|? ? Hd1 Hd2]; subst. unfold is_dec, c_0, c_9 in Hd1.
    destruct (N.eqb_spec d c_space) as [E|_]; [unfold c_space in E; lia|].
    destruct (N.ltb_spec d c_0) as [E|_]; [unfold c_0 in E; lia|].
    destruct (N.ltb_spec c_9 d) as [E|_]; [unfold c_9 in E; lia|].
    cbn [orb]. destruct (IH fuel (S ix) (wrap64 (wrap64 (x * 10) + Z.of_N (d - c_0))) Hd2 Hs ltac:(lia)) as (ix' & R & S').
    exists ix'. split; [exact R|exact S'].
Qed.

Lemma counter_itoa (s : list N) t z fuel ix : term t -> (0 <= z < 9223372036854775808)%Z ->
  skipn ix s = itoa z ++ t -> (length s - ix < fuel)%nat ->
  exists ix', counter_loop fuel s (length s) ix 0 = Ok (ix', z) /\ skipn ix' s = t.
Proof.
  intros Ht Hz Hs Hf. destruct (itoa_spec z ltac:(lia)) as (V & F & _).
  destruct (counter_run s t Ht (itoa z) fuel ix 0%Z F Hs Hf) as (ix' & R & S').
  exists ix'. rewrite wacc_dval in R by (rewrite ?V; lia). rewrite V in R. auto.
Qed.

(* the first byte of a printed number is not a blank *)
Lemma itoa_head z : (0 <= z)%Z -> exists d r, itoa z = d :: r /\ d <> c_space.
Proof.
  intros H. destruct (itoa_spec z H) as (_ & F & NE).
  destruct (itoa z) as [|d r]; [congruence|]. exists d, r. split; [reflexivity|].
  inversion F as [|? ? Hd _]; subst. unfold is_dec, c_0, c_9, c_space in *. lia.
Qed.

(* ------------------------------------------------------------------------------------------ *)
(* separator: one blank followed by a non-blank *)

Lemma sep_one (s : list N) fuel ix c t : skipn ix s = c_space :: c :: t -> c <> c_space ->
  (length s - ix < fuel)%nat -> sep fuel s (length s) ix = Ok (S ix) /\ skipn (S ix) s = c :: t.
Proof.
  intros Hs Hc Hf. unfold sep.
  destruct fuel as [|[|fuel]]; apply skipn_cons_inv in Hs as H1; destruct H1 as (R1 & Hs2 & L1);
    apply skipn_cons_inv in Hs2 as H2; destruct H2 as (R2 & _ & L2); try lia.
  cbn [skip_spaces].
  apply Nat.ltb_lt in L1 as L1'. apply Nat.ltb_lt in L2 as L2'.
  rewrite L1', R1, N.eqb_refl, L2', R2.
  destruct (N.eqb_spec c c_space) as [E|_]; [contradiction|].
  cbn [bind]. destruct (Nat.leb_spec (length s) (S ix)); [lia|]. auto.
Qed.

(* ------------------------------------------------------------------------------------------ *)
(* side to move *)

Definition stm_char (c : color) : N := match c with White => c_w | Black => c_b end.

Lemma stm_run (s : list N) ix col t acc : skipn ix s = stm_char col :: t ->
  stm_field s ix acc = Ok (S ix, set_stm acc col) /\ skipn (S ix) s = t.
Proof.
  intros Hs. apply skipn_cons_inv in Hs. destruct Hs as (R & Hs & _).
  unfold stm_field. rewrite R. destruct col; cbn; auto.
Qed.

(* ------------------------------------------------------------------------------------------ *)
(* castling rights *)

Definition castle_char_bit (c : N) : N :=
  if (c =? c_K)%N then ShortWhite else if (c =? c_Q)%N then LongWhite
  else if (c =? c_k)%N then ShortBlack else if (c =? c_q)%N then LongBlack else 0%N.
Definition is_castle_char (c : N) : Prop := c = c_K \/ c = c_Q \/ c = c_k \/ c = c_q \/ c = c_minus.

Lemma set_castles_castles acc : set_castles acc (castles acc) = acc.
Proof. destruct acc; reflexivity. Qed.
Lemma set_castles_twice acc x y : set_castles (set_castles acc x) y = set_castles acc y.
Proof. destruct acc; reflexivity. Qed.

Lemma crights_run (s : list N) t : forall cs fuel ix acc,
  Forall is_castle_char cs -> skipn ix s = cs ++ c_space :: t -> (length s - ix < fuel)%nat ->
  exists ix', crights_loop fuel s (length s) ix acc =
              Ok (ix', set_castles acc (fold_left (fun a c => bor a (castle_char_bit c)) cs (castles acc)))
              /\ skipn ix' s = c_space :: t.
Proof.
  induction cs as [|c cs IH]; intros fuel ix acc Hc Hs Hf; (destruct fuel as [|fuel]; [lia|]);
    cbn [crights_loop app fold_left] in *; rewrite (ltb_of_cursor _ _ _ _ Hs);
    apply skipn_cons_inv in Hs as Hc0; destruct Hc0 as (-> & Hs' & Hl).
  - exists ix. rewrite N.eqb_refl, set_castles_castles. auto.
  - inversion Hc as [|? ? Hc1 Hc2]; subst.
    assert (Hgen : forall bitv, bitv = castle_char_bit c -> c <> c_minus ->
       exists ix', crights_loop fuel s (length s) (S ix) (set_castles acc (bor (castles acc) bitv)) =
         Ok (ix', set_castles acc (fold_left (fun a c => bor a (castle_char_bit c)) cs (bor (castles acc) (castle_char_bit c))))
         /\ skipn ix' s = c_space :: t).
    { intros bitv -> _.
      destruct (IH fuel (S ix) (set_castles acc (bor (castles acc) (castle_char_bit c))) Hc2 Hs' ltac:(lia))
        as (ix' & R & S').
      exists ix'. rewrite set_castles_twice in R. auto. }
    destruct Hc1 as [-> | [-> | [-> | [-> | ->]]]].
    1-4: (destruct (Hgen _ eq_refl ltac:(discriminate)) as (ix' & R & S'); exists ix'; split; [exact R|exact S']).
    destruct (IH fuel (S ix) acc Hc2 Hs' ltac:(lia)) as (ix2 & R2 & S2).
    exists ix2. split; [|exact S2].
    change (castle_char_bit c_minus) with 0%N. unfold bor at 2. rewrite N.lor_0_r. exact R2.
Qed.

Lemma print_castles_ok c : (c < 16)%N ->
  Forall is_castle_char (print_castles c) /\
  fold_left (fun a ch => bor a (castle_char_bit ch)) (print_castles c) 0%N = c /\
  exists d r, print_castles c = d :: r /\ d <> c_space.
Proof.
  intros H.
  assert (C : In c [0;1;2;3;4;5;6;7;8;9;10;11;12;13;14;15]%N).
  { assert (E : c = N.of_nat (N.to_nat c)) by lia. rewrite E.
    assert (L : (N.to_nat c < 16)%nat) by lia. revert L. generalize (N.to_nat c). intros n L.
    do 16 (destruct n as [|n]; [cbn; tauto|]). lia. }
  cbn in C.
  repeat (destruct C as [<-|C]; [cbn; repeat split;
    [repeat constructor; unfold is_castle_char; tauto | eexists _, _; split; [reflexivity|discriminate]]|]).
  contradiction.
Qed.

(* ------------------------------------------------------------------------------------------ *)
(* en passant *)

Definition ep_text (e : N) : list N := if (e =? 0)%N then [c_minus] else square_string e.

Lemma set_ep_ep acc : set_ep acc (ep acc) = acc.
Proof. destruct acc; reflexivity. Qed.

Lemma ep_run (s : list N) ix e t acc : (e < 64)%N -> ep acc = 0%N ->
  skipn ix s = ep_text e ++ c_space :: t ->
  exists ix', ep_field s (length s) ix acc = Ok (ix', set_ep acc e) /\ skipn ix' s = c_space :: t.
Proof.
  intros He Ha Hs. unfold ep_text in Hs. unfold ep_field.
  destruct (N.eqb_spec e 0) as [->|Hne].
  - cbn [app] in Hs. apply skipn_cons_inv in Hs. destruct Hs as (-> & Hs & _).
    cbn. exists (S ix). rewrite <- Ha, set_ep_ep. auto.
  - unfold square_string in Hs. cbn [app] in Hs.
    apply skipn_cons_inv in Hs. destruct Hs as (-> & Hs & _).
    apply skipn_cons_inv in Hs. destruct Hs as (R1 & Hs & L1).
    assert (Hm : (e mod 8 < 8)%N) by (apply N.mod_upper_bound; lia).
    assert (Hq : (e / 8 < 8)%N) by (apply N.div_lt_upper_bound; lia).
    destruct (N.eqb_spec (e mod 8 + c_a) c_minus) as [E|_]; [unfold c_a, c_minus in E; lia|].
    cbn [negb]. replace (ix + 1)%nat with (S ix) by lia.
    destruct (Nat.leb_spec (length s) (S ix)); [lia|].
    rewrite R1.
    destruct (N.ltb_spec (e mod 8 + c_a) c_a) as [E|_]; [lia|].
    destruct (N.ltb_spec c_h (e mod 8 + c_a)) as [E|_]; [unfold c_h, c_a in E; lia|].
    destruct (N.ltb_spec (e / 8 + c_1) c_1) as [E|_]; [lia|].
    destruct (N.ltb_spec c_8 (e / 8 + c_1)) as [E|_]; [unfold c_8, c_1 in E; lia|].
    cbn [orb]. exists (S (S ix)). split; [|exact Hs].
    do 2 f_equal. f_equal. pose proof (N.div_mod e 8 ltac:(lia)). lia.
Qed.

Lemma ep_text_head e : exists d r, ep_text e = d :: r /\ d <> c_space.
Proof.
  unfold ep_text, square_string. destruct (e =? 0)%N; eexists _, _; (split; [reflexivity|]).
  - discriminate.
  - unfold c_a, c_space. lia.
Qed.
