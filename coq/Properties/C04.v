(* C04 - Incremental hash and redundant board representations never drift.
   Statements only; proofs live in Proofs/BoardInv.v, Proofs/UndoMove.v and Proofs/HashInv.v.

   All theorems hold for an ARBITRARY Zobrist table z (no assumption on its entries at all; the
   table of the engine is only used by the correspondence streams).  [cur_hash b] is Board.Hash()
   (the newest entry of the history), [calc_hash z b] is calculateHash, [run l z b ops] plays a list
   of moves and null moves with the reverse-token layout l (the boards do not depend on l; only
   C04_walk, which also undoes, needs a sound layout), [RepW] is the shared invariant Rep (Spec/Rep.v) without its clause
   "every stored hash is below 2^64", which is meaningless for an unbounded table; with 64-bit
   entries ([zob_w64]) the full Rep is kept (C04_inv_Rep). *)
From Coq Require Import NArith ZArith List Bool.
From Chess3 Require Import Base.Bits Model.Types Model.BoardDef Model.Board Gen.Zobrist Spec.Rep Spec.Applicable
  Proofs.BoardInv Proofs.UndoMove Proofs.HashInv Proofs.BoardExamples Proofs.Statements.
Import ListNotations.
Open Scope N_scope.

(* after any sequence of moves and null moves the three encodings still describe one placement and
   the incremental hash equals the hash from scratch *)
Theorem C04_inv : forall l z ops b0, Rep b0 -> cur_hash b0 = calc_hash z b0 -> applicable_all l z b0 ops ->
  let b := run l z b0 ops in RepW b /\ cur_hash b = calc_hash z b.
Proof. exact C04_inv_l. Qed.
Print Assumptions C04_inv.

Theorem C04_inv_Rep : forall l z ops b0, zob_w64 z -> Rep b0 -> cur_hash b0 = calc_hash z b0 -> applicable_all l z b0 ops ->
  let b := run l z b0 ops in Rep b /\ cur_hash b = calc_hash z b.
Proof. exact C04_inv_Rep_l. Qed.
Print Assumptions C04_inv_Rep.

(* what the invariant says in words of the three encodings *)
Theorem C04_one_placement : forall b, RepW b ->
  (forall s p, s < 64 -> p <> NoPiece -> (piece_at b s = p <-> N.testbit (pieces b p) s = true)) /\
  (forall p q, p <> q -> band (pieces b p) (pieces b q) = 0) /\
  band (colors b White) (colors b Black) = 0 /\
  bor (colors b White) (colors b Black) = piece_union b.
Proof. exact C04_one_placement_l. Qed.
Print Assumptions C04_one_placement.

(* the same along the search's depth-first walk (makes, null moves and undos interleaved) *)
Theorem C04_walk : forall l z evs b0, layout_ok l = true -> Rep b0 -> cur_hash b0 = calc_hash z b0 -> walk_ok l z b0 [] evs ->
  let b := fst (walk l z b0 [] evs) in RepW b /\ cur_hash b = calc_hash z b.
Proof. exact C04_walk_l. Qed.
Print Assumptions C04_walk.

(* ResetHash (used on FEN load) establishes the hypothesis *)
Theorem C04_reset : forall z b, Rep b ->
  RepW (reset_hash z b) /\ cur_hash (reset_hash z b) = calc_hash z (reset_hash z b) /\
  (zob_w64 z -> Rep (reset_hash z b)).
Proof. exact C04_reset_l. Qed.
Print Assumptions C04_reset.

(* two move orders that reach the same key - placement, side to move, castling rights and the
   en-passant file as the hash sees it (none without a target) - reach the same hash *)
Theorem C04_transposition : forall l z ops1 ops2 b0, Rep b0 -> cur_hash b0 = calc_hash z b0 ->
  applicable_all l z b0 ops1 -> applicable_all l z b0 ops2 ->
  hkey (run l z b0 ops1) = hkey (run l z b0 ops2) -> cur_hash (run l z b0 ops1) = cur_hash (run l z b0 ops2).
Proof. exact C04_transposition_l. Qed.
Print Assumptions C04_transposition.

(* the hash from scratch is a function of the key *)
Theorem C04_hash_of_key : forall z b b', hkey b = hkey b' -> calc_hash z b = calc_hash z b'.
Proof. exact calc_hash_key. Qed.
Print Assumptions C04_hash_of_key.

(* non-vacuity *)
Example C04_ex_start :
  Rep ex_start /\ cur_hash ex_start = calc_hash zob_real ex_start /\
  applicable_all gen_layout zob_real ex_start [OpMove e2e4; OpMove e7e5; OpNull; OpMove b8c6; OpMove g1f3].
Proof. vm_compute. repeat split; reflexivity. Qed.

(* 1. Nf3 Nc6 2. e4 e5 and 1. e4 e5 2. Nf3 Nc6 reach the same key (a real transposition; the
   double pushes leave no en-passant target because nothing can capture) *)
Example C04_ex_transposition :
  let o1 := [OpMove e2e4; OpMove e7e5; OpMove g1f3; OpMove b8c6] in
  let o2 := [OpMove g1f3; OpMove b8c6; OpMove e2e4; OpMove e7e5] in
  applicable_all gen_layout zob_real ex_start o1 /\ applicable_all gen_layout zob_real ex_start o2 /\
  hkey (run gen_layout zob_real ex_start o1) = hkey (run gen_layout zob_real ex_start o2) /\
  hashes (run gen_layout zob_real ex_start o1) <> hashes (run gen_layout zob_real ex_start o2).
Proof. vm_compute. repeat split; try reflexivity. intros H. discriminate H. Qed.

Example C04_ex_castling_ep :
  Rep ex_castle /\ cur_hash ex_castle = calc_hash zob_real ex_castle /\ applicable ex_castle e1c1 = true /\
  Rep ex_ep /\ cur_hash ex_ep = calc_hash zob_real ex_ep /\ applicable ex_ep d5c6 = true.
Proof. vm_compute. repeat split; reflexivity. Qed.
