(* C05: the spec-level judge of stream c05 and the theorem agree - on every valid position the model's
   own output (accepted list, sorted generated list) is passed by [judge_sets]; and whatever the judge
   passes has equal sets.  So a VIOLATION line of the judge on the implementation's output means exactly
   that the implementation's two sets differ. *)
From Coq Require Import NArith ZArith List Bool Lia.
From Chess3 Require Import Base.Bits Model.Types Model.BoardDef Model.Board Model.Movegen Model.BoardStreams
  Model.C05Streams Spec.Chess Spec.Rep Spec.C05Judge Proofs.GenBase Proofs.GenNoDup Proofs.IplFast Proofs.IplSpec Proofs.IplC05.
Import ListNotations.
Open Scope N_scope.

Lemma insert_sorted_In x l m : In m (insert_sorted x l) <-> m = x \/ In m l.
Proof.
  induction l as [|y r IH]; cbn [insert_sorted In].
  - split; [intros [<-|[]]; left; reflexivity|intros [->|[]]; left; reflexivity].
  - destruct (x <=? y); cbn [In]; [split; intros [H|H]; auto|].
    rewrite IH. split; [intros [H|[H|H]]|intros [H|[H|H]]]; auto.
Qed.

Lemma sort_moves_In l m : In m (sort_moves l) <-> In m l.
Proof.
  induction l as [|x r IH]; cbn [sort_moves fold_right In]; [tauto|].
  fold (sort_moves r). rewrite insert_sorted_In, IH. split; intros [H|H]; auto.
Qed.

Lemma memN_In x l : memN x l = true <-> In x l.
Proof.
  unfold memN. rewrite existsb_exists. split.
  - intros [y [Hy E]]. apply N.eqb_eq in E. subst. exact Hy.
  - intros H. exists x. split; [exact H|apply N.eqb_refl].
Qed.

Lemma find_none_iff {A} (f : A -> bool) l : find f l = None <-> forall x, In x l -> f x = false.
Proof.
  split; [apply find_none|].
  induction l as [|a l IH]; intros H; cbn [find]; [reflexivity|].
  rewrite (H a) by (left; reflexivity). apply IH. intros x Hx. apply H. right. exact Hx.
Qed.

(* the judge passes exactly equal sets of 15-bit encodings *)
Theorem judge_sets_iff acc gen :
  judge_sets acc gen = [1%Z] <->
  ((forall m, In m (acc ++ gen) -> m < 32768) /\ (forall m, In m acc <-> In m gen)).
Proof.
  unfold judge_sets, first_not_in. split.
  - destruct (find (fun x => negb (x <? 32768)) (acc ++ gen)) eqn:F1; [discriminate|].
    destruct (find (fun x => negb (memN x gen)) acc) eqn:F2; [discriminate|].
    destruct (find (fun x => negb (memN x acc)) gen) eqn:F3; [discriminate|]. intros _.
    rewrite find_none_iff in F1, F2, F3. split.
    + intros m Hm. specialize (F1 m Hm). apply negb_false_iff in F1. apply N.ltb_lt. exact F1.
    + intros m. split; intros Hm.
      * specialize (F2 m Hm). apply negb_false_iff in F2. apply memN_In. exact F2.
      * specialize (F3 m Hm). apply negb_false_iff in F3. apply memN_In. exact F3.
  - intros [H1 H2].
    assert (F1 : find (fun x => negb (x <? 32768)) (acc ++ gen) = None).
    { apply find_none_iff. intros x Hx. apply negb_false_iff. apply N.ltb_lt. apply H1. exact Hx. }
    assert (F2 : find (fun x => negb (memN x gen)) acc = None).
    { apply find_none_iff. intros x Hx. apply negb_false_iff. apply memN_In. apply H2. exact Hx. }
    assert (F3 : find (fun x => negb (memN x acc)) gen = None).
    { apply find_none_iff. intros x Hx. apply negb_false_iff. apply memN_In. apply H2. exact Hx. }
    rewrite F1, F2, F3. reflexivity.
Qed.

Lemma fast_accepted_lt b m : In m (fast_accepted b) -> m < 32768.
Proof.
  rewrite fast_accepted_eq, filter_In, all_encodings_tbl. intros [H _]. unfold enc_tbl in H.
  apply in_flat_map in H. destruct H as [pr [Hpr H]]. apply In_promo_vals in Hpr.
  apply in_flat_map in H. destruct H as [from [Hf H]]. apply in_squares64 in Hf.
  unfold enc_row in H. apply in_map_iff in H. destruct H as [to [<- Ht]]. apply in_squares64 in Ht.
  apply mk_move_lt; assumption.
Qed.

(* on a valid position the model's output of stream c05 is passed by the judge *)
Theorem model_passes_judge b : Rep b -> valid (abs b) = true ->
  judge_sets (fast_accepted b) (sort_moves (gen_all b)) = [1%Z].
Proof.
  intros HR HV. apply judge_sets_iff. split.
  - intros m Hm. apply in_app_or in Hm. destruct Hm as [Hm|Hm].
    + apply (fast_accepted_lt b). exact Hm.
    + apply (proj1 (sort_moves_In _ _)) in Hm. apply (gen_all_lt b). exact Hm.
  - intros m. rewrite sort_moves_In. split.
    + intros Hm. pose proof (fast_accepted_lt b m Hm) as L. apply (run_c05_accepted b m L) in Hm.
      apply (C05_closed b HR HV m L). exact Hm.
    + intros Hm. pose proof (gen_all_lt b m Hm) as L. apply (run_c05_accepted b m L).
      apply (C05_closed b HR HV m L). exact Hm.
Qed.
