(* Spec-level oracle for property C09 (stream "c09"): it looks only at what the implementation
   answered and at Spec/Chess.v, never at the engine model.

   input = board-in ++ [InCheck; IsCheckmate (0/1, 2 = not called); IsStalemate (0/1, 2 = not called);
                        number of playable moves reported by the harness]
   [1]      the position is outside the property's domain (not valid, or an en-passant target is
            recorded although no en-passant capture is legal), or the answers are right
   [0; c]   otherwise:  c = 1  in check, IsCheckmate answered true but a legal move exists
                        c = 2  in check, IsCheckmate answered false but there is no legal move
                        c = 3  not in check, IsStalemate answered true but a legal move exists
                        c = 4  not in check, IsStalemate answered false but there is no legal move
                        c = 5  InCheck disagrees with the rules (or the function of the domain was not called)
                        c = 6  the harness' playable-move count is zero / non-zero against the rules
                        c = 9  undecodable input *)
From Coq Require Import NArith ZArith List Bool.
From Chess3 Require Import Base.Bits Model.Types Spec.Geometry Model.BoardDef Spec.Chess.
Import ListNotations.
Open Scope Z_scope.

(* legal_moves p = []  (computed with early exit; only moves that start on a square holding a man of
   the side to move are tried: pseudo_spec rejects every other encoding at once) *)
Definition candidates_of (p : pos) : list N :=
  flat_map (fun from => flat_map (fun to =>
    map (fun pr => mk_move from to pr) [0; Knight; Bishop; Rook; Queen])%N squares64)
    (filter (fun s => owned_by p s (turn p)) squares64).
Definition no_legal_move (p : pos) : bool := negb (existsb (legal_spec p) (candidates_of p)).

Definition judge_c09 (l : list Z) : list Z :=
  match decode_board l with
  | Some (b, chk :: mate :: stale :: cnt :: _) =>
      let p := abs b in
      if negb (valid p && normal_ep p) then [1] else
      let none := no_legal_move p in
      let c := in_check_spec p (turn p) in
      if negb (chk =? (if c then 1 else 0)) then [0; 5]
      else if negb (Bool.eqb (cnt =? 0) none) then [0; 6]
      else if c then
        if mate =? 1 then (if none then [1] else [0; 1])
        else if mate =? 0 then (if none then [0; 2] else [1])
        else [0; 5]
      else
        if stale =? 1 then (if none then [1] else [0; 3])
        else if stale =? 0 then (if none then [0; 4] else [1])
        else [0; 5]
  | _ => [0; 9]
  end.
