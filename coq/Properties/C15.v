(* C15 - Transposition table returns only what was stored for that key.
   Statements only; proofs live in Proofs/TTBits.v, TTRefine.v, TTProps.v. The model is Model/TT.v
   (transp/transp.go transliterated), the abstract table is Spec/TTSpec.v; Inf, MaxPlies, the layout
   constants and the bound types come from Gen/TTConsts.v, regenerated on every run.

   Vocabulary
     hash_ok h         0 <= h < 2^64                ply_ok p   0 <= p <= 63
     op_in_domain o    depth 0..63, ply 0..63, bound type 0..2, |score| <= 32000, gen 0..255, move 16 bit
     reachable t       t was produced by New / Insert / Clear / Resize calls (supported sizes <= 2^36 bytes)
     probe_obs t h p   [hit; Depth(); Type(); Value(p); Move] of LookUp(h), [0;0;0;0;0] on a miss
     same_key nb h h'  h and h' have the same bucket index (of nb buckets) and the same signature
     kept_deeper t o   LookUp(o.hash) finds e with  o.type <> Exact, e.Depth() > o.depth + 2, e.gen = o.gen
     kept_move t o     o.move, or - o.move being null - the move of the entry LookUp(o.hash) finds (else 0)
     rebase v ps pp    v + ps - pp above Inf-MaxPlies, v - ps + pp below -Inf+MaxPlies, v otherwise *)
From Coq Require Import ZArith Bool List.
Import ListNotations.
From Chess3 Require Import Base.Word Gen.TTConsts Model.TT Spec.TTSpec
  Proofs.TTBits Proofs.TTRefine Proofs.TTProps Proofs.TTHist.
Open Scope Z_scope.

(* ---- the lane trick: for every 64-bit word and every 16-bit key ---- *)
Theorem C15_match64 : forall w key, 0 <= w < 2 ^ 64 -> 0 <= key < 2 ^ 16 ->
  match64 w key = first_lane_eq w key.
Proof. exact match64_correct. Qed.
Print Assumptions C15_match64.

(* ---- Lemire index: equals the specification's bucket and is in range ---- *)
Theorem C15_bucket_index : forall nb h, 0 < nb <= 2 ^ 32 -> 0 <= h < 2 ^ 64 ->
  bucket_ix nb h = bucket_of nb h /\ 0 <= bucket_of nb h < nb.
Proof. exact bucket_ix_of. Qed.
Print Assumptions C15_bucket_index.

(* ---- the bucket invariant (keys 64 bit, 4 entries, scores away from the int16 limits, non-zero
        signatures of a bucket pairwise distinct) holds of every reachable table, also after a
        resize without clear; all array indices stay in range ---- *)
Theorem C15_invariant : forall t, reachable t -> wf t /\ size_range t.
Proof. exact reachable_wf. Qed.
Print Assumptions C15_invariant.

Theorem C15_memory_safe : forall t h, reachable t -> hash_ok h ->
  let ix := bucket_ix (tlen t) h in
  0 <= ix < tlen t /\
  length (b_entries (nth (Z.to_nat ix) t zero_bucket)) = 4%nat /\
  forall l, match64 (b_keys (nth (Z.to_nat ix) t zero_bucket)) (partial_key h) = Some l -> 0 <= l < 4.
Proof. exact indices_in_range. Qed.
Print Assumptions C15_memory_safe.

(* ---- refinement: a probe shows the abstract record of (bucket, signature); one Insert is one
        step of the abstract store; any operation sequence refines an abstract run ---- *)
Theorem C15_probe : forall t h ply, wf t -> size_range t -> 0 <= h < 2 ^ 64 -> 0 <= ply <= 63 ->
  probe_obs t h ply =
  match abs t (bucket_of (tlen t) h) (sig_of h) with
  | Some r => 1 :: shown r ply
  | None => [0; 0; 0; 0; 0]
  end.
Proof. exact probe_refines. Qed.
Print Assumptions C15_probe.

Theorem C15_store_refines : forall t o, wf t -> size_range t -> op_in_domain o = true ->
  let t' := tt_insert_op t o in
  wf t' /\ tlen t' = tlen t /\ store_spec (tlen t) (abs t) o (abs t').
Proof. exact insert_refines. Qed.
Print Assumptions C15_store_refines.

Theorem C15_refine : forall ops t, wf t -> size_range t -> forallb aop_ok ops = true ->
  exists t', tt_run t ops = Some t' /\ wf t' /\ size_range t' /\
             arun (tlen t, abs t) ops (tlen t', abs t').
Proof. exact run_refines. Qed.
Print Assumptions C15_refine.

(* ---- the property's clauses ---- *)

(* a probe right after a store of the same key (any hash of that bucket and signature, signature 0
   included) hits and shows that store: depth, bound, score re-based to the probing ply, and the
   move - the latest non-null one the key had while it stayed in the table *)
Theorem C15_read_your_write : forall t o h ply,
  reachable t -> op_in_domain o = true -> hash_ok h -> ply_ok ply ->
  same_key (tlen t) (o_hash o) h -> kept_deeper t o = false ->
  probe_obs (tt_insert_op t o) h ply =
  [1; o_depth o; o_type o; rebase (o_value o) (o_ply o) ply; kept_move t o].
Proof. exact read_your_write_reachable. Qed.
Print Assumptions C15_read_your_write.

(* ... except that a bound does not displace a same-search entry of that key more than two plies
   deeper: then no answer of the table changes *)
Theorem C15_keep_deeper_exception : forall t o h ply,
  reachable t -> op_in_domain o = true -> hash_ok h -> ply_ok ply -> kept_deeper t o = true ->
  probe_obs (tt_insert_op t o) h ply = probe_obs t h ply.
Proof. exact keep_deeper_reachable. Qed.
Print Assumptions C15_keep_deeper_exception.

(* a store never changes what another key (signature <> 0) answers: it answers as before, or -
   for at most one signature, and only in the bucket of the store - it has become unreachable *)
Theorem C15_other_keys : forall t o, reachable t -> op_in_domain o = true ->
  exists victim : option Z,
    forall h, hash_ok h -> sig_of h <> 0 -> ~ same_key (tlen t) (o_hash o) h ->
      if (key_ix t h =? key_ix t (o_hash o)) && opt_is victim (sig_of h)
      then forall ply, ply_ok ply -> probe_obs (tt_insert_op t o) h ply = miss
      else forall ply, ply_ok ply -> probe_obs (tt_insert_op t o) h ply = probe_obs t h ply.
Proof. exact other_keys_reachable. Qed.
Print Assumptions C15_other_keys.

Theorem C15_at_most_one_lost : forall t o h1 h2 p1 p2,
  reachable t -> op_in_domain o = true ->
  hash_ok h1 -> hash_ok h2 -> ply_ok p1 -> ply_ok p2 -> sig_of h1 <> 0 -> sig_of h2 <> 0 ->
  ~ same_key (tlen t) (o_hash o) h1 -> ~ same_key (tlen t) (o_hash o) h2 ->
  probe_obs t h1 p1 <> miss -> probe_obs t h2 p2 <> miss ->
  probe_obs (tt_insert_op t o) h1 p1 = miss -> probe_obs (tt_insert_op t o) h2 p2 = miss ->
  same_key (tlen t) h1 h2 /\ key_ix t h1 = key_ix t (o_hash o).
Proof. exact at_most_one_lost_reachable. Qed.
Print Assumptions C15_at_most_one_lost.

(* clear, and resize followed by clear, empty the table whatever it held *)
Theorem C15_clear_empty : forall t, reachable t ->
  forall h ply, hash_ok h -> ply_ok ply -> sig_of h <> 0 -> probe_obs (tt_clear t) h ply = miss.
Proof. exact clear_empty. Qed.
Print Assumptions C15_clear_empty.

Theorem C15_resize_clear_empty : forall t size, reachable t -> size_ok size = true -> size <= 2 ^ 36 ->
  exists t1, tt_resize t size = Some t1 /\ tlen (tt_clear t1) = size / bucketSize /\
    forall h ply, hash_ok h -> ply_ok ply -> sig_of h <> 0 -> probe_obs (tt_clear t1) h ply = miss.
Proof. exact resize_clear_empty. Qed.
Print Assumptions C15_resize_clear_empty.

(* mate scores are re-based from the storing to the probing ply, all other scores are unchanged *)
Theorem C15_mate_rebasing : forall v ps pp, -32000 <= v <= 32000 -> 0 <= ps <= 63 ->
  from_tt (to_tt v ps) pp = rebase v ps pp /\
  (- Inf + MaxPlies <= v <= Inf - MaxPlies -> rebase v ps pp = v) /\
  (Inf - MaxPlies < v -> rebase v ps pp = v + ps - pp) /\
  (v < - Inf + MaxPlies -> rebase v ps pp = v - ps + pp).
Proof. exact mate_rebasing. Qed.
Print Assumptions C15_mate_rebasing.

(* sequences: after New(size) and any in-domain sequence of stores / clears / resize+clears, a probe
   (signature <> 0) that hits shows a record explained by the stores since the last clear: depth,
   bound, score and generation of a store o to exactly that bucket and signature; every later store
   to that key was a bound rejected by the keep-deeper rule; the move is o's or - o's being null -
   the move of an earlier store to that key. Never data of another signature or bucket. *)
Theorem C15_no_phantom : forall size ops,
  size_ok size = true -> size <= 2 ^ 36 -> forallb aop_ok ops = true ->
  exists t0 t, tt_new size = Some t0 /\ tt_run t0 ops = Some t /\ wf t /\ size_range t /\
    forall h ply, hash_ok h -> ply_ok ply -> sig_of h <> 0 ->
      probe_obs t h ply = miss \/
      exists r, probe_obs t h ply = 1 :: shown r ply /\
                explains (tlen t) (stores_since_clear ops) (key_ix t h) (sig_of h) r.
Proof. exact run_explained. Qed.
Print Assumptions C15_no_phantom.

Theorem C15_explained_shows : forall nb hist i s r ply,
  explains nb hist i s r -> Forall (fun o => op_in_domain o = true) hist ->
  exists o, In o hist /\ okey nb o i s /\
    shown r ply = [o_depth o; o_type o; rebase (o_value o) (o_ply o) ply; a_move r].
Proof. exact shown_explained. Qed.
Print Assumptions C15_explained_shows.

(* the same with the history annotated by accepted / rejected (fh, newest first): the record is
   that of the most recent ACCEPTED store o to the key (none_accepted newer), and its move is o's,
   or - o's being null - the latest non-null move among the accepted stores to the key that
   precede o (null_moves mid), or null *)
Theorem C15_latest_store_and_move : forall size ops,
  size_ok size = true -> size <= 2 ^ 36 -> forallb aop_ok ops = true ->
  exists t0 t fh, tt_new size = Some t0 /\ tt_run t0 ops = Some t /\
    map fst fh = stores_since_clear ops /\
    forall h ply, hash_ok h -> ply_ok ply -> sig_of h <> 0 ->
      probe_obs t h ply = miss \/
      exists r, probe_obs t h ply = 1 :: shown r ply /\
                explains_full (tlen t) fh (key_ix t h) (sig_of h) r.
Proof. exact run_explained_full. Qed.
Print Assumptions C15_latest_store_and_move.

(* ---- non-vacuity: a concrete table (one bucket, more signatures than lanes, generation wrap,
        a mate score, the keep-deeper rule and the kept move) ---- *)
Definition ex_h (sg : Z) : Z := sg * 2 ^ 48 + 12345.
Definition ex_ops : list aop :=
  [AStore (mkSop (ex_h 1) 255 20 3 77 9990 2);           (* mate in 10 from ply 3 *)
   AStore (mkSop (ex_h 2) 255 5 0 11 (-40) 0);
   AStore (mkSop (ex_h 3) 0 6 0 12 50 1);
   AStore (mkSop (ex_h 4) 0 7 0 13 60 1);
   AStore (mkSop (ex_h 1) 255 10 9 0 100 1);             (* shallower bound, same search: rejected *)
   AStore (mkSop (ex_h 5) 0 8 0 14 70 2);                (* fifth signature: one of the others goes *)
   AStore (mkSop (ex_h 1) 0 1 4 0 (-3) 2)].              (* exact: replaces, keeps move 77 *)

Example C15_nonvacuous :
  forallb aop_ok ex_ops = true /\
  match tt_new 32 with
  | Some t0 =>
      match tt_run t0 (firstn 1 ex_ops), tt_run t0 ex_ops with
      | Some t1, Some t =>
          probe_obs t1 (ex_h 1) 7 = [1; 20; 2; 9986; 77] /\
          kept_deeper t1 (mkSop (ex_h 1) 255 10 9 0 100 1) = true /\
          probe_obs t (ex_h 1) 9 = [1; 1; 2; -3; 77] /\
          probe_obs t (ex_h 5) 0 = [1; 8; 2; 70; 14] /\
          probe_obs t (ex_h 6) 0 = miss
      | _, _ => False
      end
  | None => False
  end.
Proof. vm_compute. repeat split; reflexivity. Qed.
