(* MakeMove without the hash bookkeeping: [core b m] is the board part of [make z b m] except for the
   hash history, for every Zobrist table z.  All later C02 proofs work on [core]. *)
From Coq Require Import NArith ZArith List Bool Lia.
From Chess3 Require Import Base.Bits Base.Word Model.Types Model.Att Model.BoardDef Model.Board.
From Chess3 Require Import Proofs.SuccLists.
Import ListNotations.
Open Scope N_scope.

(* addPiece / removePiece on the board alone *)
Definition ad (b : board) (c : color) (p sq : N) : board :=
  if p =? NoPiece then b else
  let b1 := set_cols b (updN (cols b) (cix c) (bor (colors b c) (bit sq))) in
  let b2 := set_pcs b1 (updN (pcs b1) p (bor (pieces b1 p) (bit sq))) in
  set_sq2p b2 (updN (sq2p b2) sq p).

Definition rm (b : board) (c : color) (p sq : N) : board :=
  if p =? NoPiece then b else
  let b1 := set_cols b (updN (cols b) (cix c) (bandn (colors b c) (bit sq))) in
  let b2 := set_pcs b1 (updN (pcs b1) p (bandn (pieces b1 p) (bit sq))) in
  set_sq2p b2 (updN (sq2p b2) sq NoPiece).

Lemma add_piece_fst z b c p sq : fst (add_piece z b c p sq) = ad b c p sq.
Proof. unfold add_piece, ad. destruct (p =? NoPiece); reflexivity. Qed.
Lemma remove_piece_fst z b c p sq : fst (remove_piece z b c p sq) = rm b c p sq.
Proof. unfold remove_piece, rm. destruct (p =? NoPiece); reflexivity. Qed.

Definition new_fifty (b : board) (m : N) : Z :=
  if (piece_at b (mv_from m) =? Pawn) || negb (piece_at b (capture_sq b m) =? NoPiece) then 0%Z
  else wrap16 (fifty b + 1).

Definition new_ep (b : board) (m : N) : N :=
  if (piece_at b (mv_from m) =? Pawn) && (abs_diff (mv_from m) (mv_to m) =? 16) && can_en_passant b (mv_to m)
  then (mv_from m + mv_to m) / 2 else 0.

Definition core (b : board) (m : N) : board :=
  let from := mv_from m in
  let to := mv_to m in
  let me := stm b in
  let piece := piece_at b from in
  let csq := capture_sq b m in
  let capture := piece_at b csq in
  let put := if negb (mv_promo m =? NoPiece) then mv_promo m else piece in
  let b0 := set_castles (set_fifty (set_full b (full b + Z.of_N (cix me))%Z) (new_fifty b m)) (new_castles b m) in
  let b3 := ad (rm (rm b0 (flip me) capture csq) me piece from) me put to in
  let b4 := set_ep b3 (new_ep b m) in
  let b5 := if piece =? King then
              match castle_rook from to with
              | Some (rf, rt) => ad (rm b4 me Rook rf) me Rook rt
              | None => b4
              end
            else b4 in
  set_stm b5 (flip me).

Lemma lxor_cancel a b : bxor a (bxor a b) = b.
Proof. unfold bxor. rewrite <- N.lxor_assoc, N.lxor_nilpotent, N.lxor_0_l. reflexivity. Qed.

Lemma make_core z b m : exists h, fst (make z b m) = set_hashes (core b m) (h :: hashes (core b m)).
Proof.
  unfold make, make_l, core, new_fifty, new_ep. rewrite lxor_cancel.
  set (b0 := set_castles _ _).
  destruct (remove_piece z b0 _ _ _) as [b1 h1] eqn:E1.
  apply (f_equal fst) in E1. rewrite remove_piece_fst in E1. cbn [fst] in E1. subst b1.
  set (b1 := rm b0 _ _ _).
  destruct (remove_piece z b1 _ _ _) as [b2 h2] eqn:E2.
  apply (f_equal fst) in E2. rewrite remove_piece_fst in E2. cbn [fst] in E2. subst b2.
  set (b2 := rm b1 _ _ _).
  destruct (add_piece z b2 _ _ _) as [b3 h3] eqn:E3.
  apply (f_equal fst) in E3. rewrite add_piece_fst in E3. cbn [fst] in E3. subst b3.
  set (b3 := ad b2 _ _ _).
  set (b4 := set_ep b3 _).
  destruct (piece_at b (mv_from m) =? King).
  - destruct (castle_rook (mv_from m) (mv_to m)) as [[rf rt]|].
    + destruct (remove_piece z b4 _ _ _) as [c1 g1] eqn:F1.
      apply (f_equal fst) in F1. rewrite remove_piece_fst in F1. cbn [fst] in F1. subst c1.
      destruct (add_piece z _ _ _ _) as [c2 g2] eqn:F2.
      apply (f_equal fst) in F2. rewrite add_piece_fst in F2. cbn [fst] in F2. subst c2.
      eexists. reflexivity.
    + eexists. reflexivity.
  - eexists. reflexivity.
Qed.

(* fields that rm / ad leave alone *)
Lemma rm_fields b c p sq : let b' := rm b c p sq in
  stm b' = stm b /\ ep b' = ep b /\ castles b' = castles b /\ fifty b' = fifty b /\ full b' = full b /\ hashes b' = hashes b.
Proof. unfold rm. destruct (p =? NoPiece); cbn; repeat split. Qed.
Lemma ad_fields b c p sq : let b' := ad b c p sq in
  stm b' = stm b /\ ep b' = ep b /\ castles b' = castles b /\ fifty b' = fifty b /\ full b' = full b /\ hashes b' = hashes b.
Proof. unfold ad. destruct (p =? NoPiece); cbn; repeat split. Qed.

Ltac fields_tac := 
  repeat match goal with
  | |- context [stm (rm ?b ?c ?p ?s)] => rewrite (proj1 (rm_fields b c p s))
  | |- context [stm (ad ?b ?c ?p ?s)] => rewrite (proj1 (ad_fields b c p s))
  | |- context [ep (rm ?b ?c ?p ?s)] => rewrite (proj1 (proj2 (rm_fields b c p s)))
  | |- context [ep (ad ?b ?c ?p ?s)] => rewrite (proj1 (proj2 (ad_fields b c p s)))
  | |- context [castles (rm ?b ?c ?p ?s)] => rewrite (proj1 (proj2 (proj2 (rm_fields b c p s))))
  | |- context [castles (ad ?b ?c ?p ?s)] => rewrite (proj1 (proj2 (proj2 (ad_fields b c p s))))
  | |- context [fifty (rm ?b ?c ?p ?s)] => rewrite (proj1 (proj2 (proj2 (proj2 (rm_fields b c p s)))))
  | |- context [fifty (ad ?b ?c ?p ?s)] => rewrite (proj1 (proj2 (proj2 (proj2 (ad_fields b c p s)))))
  | |- context [full (rm ?b ?c ?p ?s)] => rewrite (proj1 (proj2 (proj2 (proj2 (proj2 (rm_fields b c p s))))))
  | |- context [full (ad ?b ?c ?p ?s)] => rewrite (proj1 (proj2 (proj2 (proj2 (proj2 (ad_fields b c p s))))))
  | |- context [hashes (rm ?b ?c ?p ?s)] => rewrite (proj2 (proj2 (proj2 (proj2 (proj2 (rm_fields b c p s))))))
  | |- context [hashes (ad ?b ?c ?p ?s)] => rewrite (proj2 (proj2 (proj2 (proj2 (proj2 (ad_fields b c p s))))))
  end.

Lemma core_small_fields b m :
  stm (core b m) = flip (stm b) /\ ep (core b m) = new_ep b m /\ castles (core b m) = new_castles b m /\
  fifty (core b m) = new_fifty b m /\ full (core b m) = (full b + Z.of_N (cix (stm b)))%Z /\
  hashes (core b m) = hashes b.
Proof.
  unfold core.
  destruct (piece_at b (mv_from m) =? King); [destruct (castle_rook (mv_from m) (mv_to m)) as [[rf rt]|]|];
    cbn [stm ep castles fifty full hashes set_stm]; fields_tac; cbn [stm ep castles fifty full hashes set_ep]; fields_tac;
    cbn; repeat split.
Qed.
