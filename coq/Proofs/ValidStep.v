(* Valid positions are closed under legal moves (DESIGN.md 4.3): a specification-level theorem about
   Spec/Chess.v only.  It turns every "for every valid position" theorem into "for every position
   loaded from a valid FEN or reached from one by playing legal moves". *)
From Coq Require Import NArith ZArith List Bool Lia.
From Chess3 Require Import Base.Bits Model.Types Spec.Geometry Model.BoardDef Spec.Chess Proofs.SpecLemmas.
Import ListNotations.
Open Scope N_scope.

Ltac Zify.zify_post_hook ::= Z.to_euclidean_division_equations.

(* ------------------------------------------------------------------------------------------ *)
(* finite geometric facts (64 x 64 squares, by computation) *)

Definition king_geo (a b : N) : bool :=
  implb (mem (king_attacks a) b) (negb (b =? a + 2) && negb (b + 2 =? a)).

Lemma king_geo_all : forallb (fun a => forallb (king_geo a) squares64) squares64 = true.
Proof. vm_compute. reflexivity. Qed.

Lemma king_step_not_castling a b :
  a < 64 -> b < 64 -> mem (king_attacks a) b = true -> (b =? a + 2) = false /\ (b + 2 =? a) = false.
Proof.
  intros Ha Hb H. pose proof (forallb_squares2 king_geo a b king_geo_all Ha Hb) as G.
  unfold king_geo in G. rewrite H in G. cbn [implb] in G. apply andb_true_iff in G.
  destruct G as [G1 G2]. apply negb_true_iff in G1, G2. auto.
Qed.

(* a pawn of colour c on a attacks b: the square beside a on b's file is the square behind b,
   b is one rank ahead, and the move is not a double step *)
Definition pawn_geo (c : color) (a b : N) : bool :=
  implb (mem (pawn_attacks c a) b)
    (let cap := sqfr (file_n b) (rank_n a) in
     (cap =? fwd (flip c) b) && negb (cap =? a) && negb (cap =? b) && (cap <? 64) &&
     negb (b =? a + 16) && negb (b + 16 =? a) && negb (a =? b) &&
     match c with White => rank_n b =? rank_n a + 1 | Black => rank_n a =? rank_n b + 1 end).

Lemma pawn_geo_all c : forallb (fun a => forallb (pawn_geo c a) squares64) squares64 = true.
Proof. destruct c; vm_compute; reflexivity. Qed.

Lemma pawn_attack_geo c a b :
  a < 64 -> b < 64 -> mem (pawn_attacks c a) b = true ->
  let cap := sqfr (file_n b) (rank_n a) in
  cap = fwd (flip c) b /\ cap <> a /\ cap <> b /\ cap < 64 /\
  (b =? a + 16) = false /\ (b + 16 =? a) = false /\ a <> b /\
  match c with White => rank_n b = rank_n a + 1 | Black => rank_n a = rank_n b + 1 end.
Proof.
  intros Ha Hb H. pose proof (forallb_squares2 (pawn_geo c) a b (pawn_geo_all c) Ha Hb) as G.
  unfold pawn_geo in G. rewrite H in G. cbn [implb] in G. cbv zeta in G |- *.
  repeat (apply andb_true_iff in G; let G' := fresh "G" in destruct G as [G G']).
  apply N.eqb_eq in G. apply negb_true_iff in G6, G5, G3, G2, G1. apply N.eqb_neq in G6, G5, G1.
  apply N.ltb_lt in G4.
  repeat split; try assumption.
  destruct c; apply N.eqb_eq in G0; exact G0.
Qed.

Lemma between_castle :
  between (king_home White) (rook_home White false) = [5; 6] /\
  between (king_home White) (rook_home White true) = [3; 2; 1] /\
  between (king_home Black) (rook_home Black false) = [61; 62] /\
  between (king_home Black) (rook_home Black true) = [59; 58; 57].
Proof. vm_compute. auto. Qed.

(* ------------------------------------------------------------------------------------------ *)
(* the kinds of pseudo-legal moves *)

Definition promo_ok (p : pos) (m : N) : bool :=
  if rank_n (mv_to m) =? last_rank (turn p) then is_promo_piece (mv_promo m) else mv_promo m =? 0.

Inductive pmove (p : pos) (m : N) (k : N) : Prop :=
| PM_single :
    k = Pawn -> promo_ok p m = true -> mv_to m = fwd (turn p) (mv_from m) ->
    rank_n (mv_from m) <> last_rank (turn p) -> empty p (mv_to m) = true -> pmove p m k
| PM_double :
    k = Pawn -> promo_ok p m = true -> rank_n (mv_from m) = second_rank (turn p) ->
    mv_to m = fwd (turn p) (fwd (turn p) (mv_from m)) ->
    empty p (fwd (turn p) (mv_from m)) = true -> empty p (mv_to m) = true -> pmove p m k
| PM_capture :
    k = Pawn -> promo_ok p m = true -> mem (pawn_attacks (turn p) (mv_from m)) (mv_to m) = true ->
    owned_by p (mv_to m) (flip (turn p)) = true -> pmove p m k
| PM_ep :
    k = Pawn -> promo_ok p m = true -> mem (pawn_attacks (turn p) (mv_from m)) (mv_to m) = true ->
    epsq p = Some (mv_to m) -> pmove p m k
| PM_kstep :
    k = King -> mv_promo m = 0 -> mem (king_attacks (mv_from m)) (mv_to m) = true -> pmove p m k
| PM_castle (long : bool) :
    k = King -> mv_promo m = 0 -> mv_from m = king_home (turn p) ->
    (if long then mv_to m + 2 = mv_from m else mv_to m = mv_from m + 2) ->
    castle_ok p long = true -> pmove p m k
| PM_piece :
    k <> Pawn -> k <> King -> mv_promo m = 0 ->
    mem (attacks_from (turn p) k (mv_from m) (occ_of p)) (mv_to m) = true -> pmove p m k.

Lemma pseudo_inv p m :
  pseudo_spec p m = true ->
  exists k, who p (mv_from m) = Some (turn p, k) /\ owned_by p (mv_to m) (turn p) = false /\ pmove p m k.
Proof.
  unfold pseudo_spec. destruct (who p (mv_from m)) as [[c' k]|] eqn:W; [|discriminate].
  intros H. apply andb_true_iff in H. destruct H as [H H2]. apply andb_true_iff in H.
  destruct H as [Hc Ho]. apply color_eqb_eq in Hc. subst c'. apply negb_true_iff in Ho.
  exists k. split; [reflexivity|]. split; [exact Ho|].
  destruct (N.eqb_spec k Pawn) as [Hk|Hk].
  - cbv beta iota zeta in H2. apply andb_true_iff in H2. destruct H2 as [Hp H2].
    fold (promo_ok p m) in Hp.
    apply orb_true_iff in H2. destruct H2 as [H2|H2]; [apply orb_true_iff in H2; destruct H2 as [H2|H2]|].
    + apply andb_true_iff in H2. destruct H2 as [H2 He]. apply andb_true_iff in H2.
      destruct H2 as [Ht Hr]. apply N.eqb_eq in Ht. apply negb_true_iff in Hr. apply N.eqb_neq in Hr.
      apply PM_single; assumption.
    + apply andb_true_iff in H2. destruct H2 as [H2 He]. apply andb_true_iff in H2.
      destruct H2 as [H2 He1]. apply andb_true_iff in H2. destruct H2 as [Hr Ht].
      apply N.eqb_eq in Ht, Hr. apply PM_double; assumption.
    + apply andb_true_iff in H2. destruct H2 as [Hm H2]. apply orb_true_iff in H2.
      destruct H2 as [H2|H2].
      * apply PM_capture; assumption.
      * destruct (epsq p) as [e|] eqn:E; [|discriminate]. apply N.eqb_eq in H2. subst e.
        apply PM_ep; assumption.
  - cbv beta iota zeta in H2. destruct (N.eqb_spec k King) as [Hk2|Hk2].
    + apply andb_true_iff in H2. destruct H2 as [Hp H2]. apply N.eqb_eq in Hp.
      apply orb_true_iff in H2. destruct H2 as [H2|H2]; [apply orb_true_iff in H2; destruct H2 as [H2|H2]|].
      * apply PM_kstep; assumption.
      * apply andb_true_iff in H2. destruct H2 as [H2 Hc]. apply andb_true_iff in H2.
        destruct H2 as [Hf Ht]. apply N.eqb_eq in Hf, Ht. apply (PM_castle p m k false); assumption.
      * apply andb_true_iff in H2. destruct H2 as [H2 Hc]. apply andb_true_iff in H2.
        destruct H2 as [Hf Ht]. apply N.eqb_eq in Hf, Ht. apply (PM_castle p m k true); assumption.
    + apply andb_true_iff in H2. destruct H2 as [Hp H2]. apply N.eqb_eq in Hp.
      apply PM_piece; assumption.
Qed.

(* ------------------------------------------------------------------------------------------ *)
(* the fields of the successor *)

Lemma at_succ p m : at_ (succ_spec p m) = place_after p m.
Proof. unfold succ_spec. cbv zeta. destruct (_ && _); reflexivity. Qed.

Lemma turn_succ p m : turn (succ_spec p m) = flip (turn p).
Proof. unfold succ_spec. cbv zeta. destruct (_ && _); reflexivity. Qed.

Lemma rights_succ p m : rights (succ_spec p m) = rights_after p m.
Proof. unfold succ_spec. cbv zeta. destruct (_ && _); reflexivity. Qed.

Lemma epsq_succ p m :
  epsq (succ_spec p m) = None \/
  (epsq (succ_spec p m) = Some ((mv_from m + mv_to m) / 2) /\
   holds p (mv_from m) (turn p) Pawn = true /\
   ((mv_to m =? mv_from m + 16) || (mv_to m + 16 =? mv_from m)) = true).
Proof.
  unfold succ_spec. cbv zeta.
  destruct (holds p (mv_from m) (turn p) Pawn && _) eqn:D; cbn [andb].
  - apply andb_true_iff in D. destruct D as [D1 D2].
    destruct (ep_capturable _ _); [right|left]; cbn [epsq]; auto.
  - left. reflexivity.
Qed.

(* ------------------------------------------------------------------------------------------ *)
(* a pseudo-legal move goes to an empty square or to a square its piece attacks; hence it never
   captures the king of a side that is not in check *)

Lemma pmove_reach p m k :
  who p (mv_from m) = Some (turn p, k) -> pmove p m k ->
  empty p (mv_to m) = true \/ mem (attacks_from (turn p) k (mv_from m) (occ_of p)) (mv_to m) = true.
Proof.
  intros W [Hk Hp Ht Hr He|Hk Hp Hr Ht He1 He|Hk Hp Hm Ho|Hk Hp Hm He|Hk Hp Hm|long Hk Hp Hf Ht Hc|Hk1 Hk2 Hp Hm].
  - left; exact He.
  - left; exact He.
  - right. subst k. rewrite attacks_from_Pawn. exact Hm.
  - right. subst k. rewrite attacks_from_Pawn. exact Hm.
  - right. subst k. rewrite attacks_from_King. exact Hm.
  - left. apply castle_ok_inv in Hc. cbv zeta in Hc. destruct Hc as [_ [_ Hb]].
    destruct between_castle as [B1 [B2 [B3 B4]]].
    rewrite Hf in Ht.
    assert (S : forall l, forallb (empty p) l = true -> forall s, In s l -> empty p s = true).
    { intros l Hl s Hs. rewrite forallb_forall in Hl. apply Hl. exact Hs. }
    revert Hb Ht. generalize (turn p). intros c Hb Ht. destruct c, long.
    + rewrite B2 in Hb. change (king_home White) with 4 in Ht. replace (mv_to m) with 2 by lia.
      apply (S _ Hb). cbn; auto.
    + rewrite B1 in Hb. change (king_home White + 2) with 6 in Ht. rewrite Ht.
      apply (S _ Hb). cbn; auto.
    + rewrite B4 in Hb. change (king_home Black) with 60 in Ht. replace (mv_to m) with 58 by lia.
      apply (S _ Hb). cbn; auto.
    + rewrite B3 in Hb. change (king_home Black + 2) with 62 in Ht. rewrite Ht.
      apply (S _ Hb). cbn; auto.
  - right. exact Hm.
Qed.

Lemma no_king_capture p m :
  valid p = true -> pseudo_spec p m = true -> holds p (mv_to m) (flip (turn p)) King = false.
Proof.
  intros Hvalid Hpseudo.
  destruct (holds p (mv_to m) (flip (turn p)) King) eqn:Hh; [exfalso|reflexivity].
  pose proof (valid_inv p Hvalid) as [_ [MW [MB [_ [Hchk _]]]]].
  pose proof (pseudo_inv p m Hpseudo) as [k [W [Ho PM]]].
  pose proof (material_king p (flip (turn p)) (material_ok_color p _ MW MB)) as HK.
  destruct (king_sq_spec p (flip (turn p)) HK) as [_ [_ Huniq]].
  pose proof (Huniq (mv_to m) (mv_to_lt m) Hh) as Hto.
  destruct (pmove_reach p m k W PM) as [He|Hm].
  - apply holds_who_eq in Hh. apply empty_who_eq in He. congruence.
  - unfold in_check_spec in Hchk. rewrite flip_flip, <- Hto in Hchk.
    rewrite (attacked_by_intro p (turn p) (mv_to m) (mv_from m) k (mv_from_lt m) W Hm) in Hchk. discriminate.
Qed.

(* ------------------------------------------------------------------------------------------ *)
(* the three shapes of the placement after a pseudo-legal move from a valid position *)

Definition castle_squares (c : color) (kf kt rf rt : N) : Prop :=
  (c = White /\ kf = 4 /\ kt = 6 /\ rf = 7 /\ rt = 5) \/
  (c = White /\ kf = 4 /\ kt = 2 /\ rf = 0 /\ rt = 3) \/
  (c = Black /\ kf = 60 /\ kt = 62 /\ rf = 63 /\ rt = 61) \/
  (c = Black /\ kf = 60 /\ kt = 58 /\ rf = 56 /\ rt = 59).

Inductive shape (p : pos) (m : N) : Prop :=
| Sh_plain k k' :
    who p (mv_from m) = Some (turn p, k) ->
    ownedv (who p (mv_to m)) (turn p) = false ->
    matchv (who p (mv_to m)) (flip (turn p)) King = false ->
    mv_from m <> mv_to m ->
    place_after p m = put (put (at_ p) (mv_from m) None) (mv_to m) (Some (turn p, k')) ->
    (k' = k \/ (k = Pawn /\ is_promo_piece k' = true)) ->
    (k' = Pawn -> rank_n (mv_to m) <> 0 /\ rank_n (mv_to m) <> 7) ->
    shape p m
| Sh_ep cap :
    who p (mv_from m) = Some (turn p, Pawn) ->
    who p (mv_to m) = None ->
    who p cap = Some (flip (turn p), Pawn) ->
    cap < 64 -> cap <> mv_from m -> cap <> mv_to m -> mv_from m <> mv_to m ->
    place_after p m = put (put (put (at_ p) (mv_from m) None) (mv_to m) (Some (turn p, Pawn))) cap None ->
    rank_n (mv_to m) <> 0 /\ rank_n (mv_to m) <> 7 ->
    shape p m
| Sh_castle kf kt rf rt :
    mv_from m = kf -> mv_to m = kt -> castle_squares (turn p) kf kt rf rt ->
    who p kf = Some (turn p, King) -> who p kt = None -> who p rt = None ->
    who p rf = Some (turn p, Rook) ->
    place_after p m =
      put (put (put (put (at_ p) kf None) kt (Some (turn p, King))) rf None) rt (Some (turn p, Rook)) ->
    shape p m.

Lemma place_after_plain p m k :
  who p (mv_from m) = Some (turn p, k) -> is_ep_capture p m = false -> is_castling p m = false ->
  place_after p m =
  put (put (at_ p) (mv_from m) None) (mv_to m) (Some (turn p, if mv_promo m =? 0 then k else mv_promo m)).
Proof. intros W E C. unfold place_after. cbv zeta. rewrite W, E, C. reflexivity. Qed.

Lemma not_ep_if_not_pawn p m k :
  who p (mv_from m) = Some (turn p, k) -> k <> Pawn -> is_ep_capture p m = false.
Proof.
  intros W Hk. unfold is_ep_capture. rewrite holds_who, W, matchv_some.
  rewrite (proj2 (N.eqb_neq Pawn k)) by congruence. rewrite andb_false_r. reflexivity.
Qed.

Lemma not_castling_if_not_king p m k :
  who p (mv_from m) = Some (turn p, k) -> k <> King -> is_castling p m = false.
Proof.
  intros W Hk. unfold is_castling. rewrite holds_who, W, matchv_some.
  rewrite (proj2 (N.eqb_neq King k)) by congruence. rewrite andb_false_r. reflexivity.
Qed.

Lemma is_promo_piece_cases k :
  is_promo_piece k = true -> k = Knight \/ k = Bishop \/ k = Rook \/ k = Queen.
Proof.
  unfold is_promo_piece. intros H.
  repeat (apply orb_true_iff in H; destruct H as [H|H]); apply N.eqb_eq in H; auto.
Qed.

(* pawn moves: the rank reached is never the mover's own first rank *)
Lemma pawn_target_rank p m :
  valid p = true -> who p (mv_from m) = Some (turn p, Pawn) -> pmove p m Pawn ->
  rank_n (mv_to m) <> first_rank (turn p).
Proof.
  intros V W PM. pose proof (valid_inv p V) as [_ [_ [_ [NPE _]]]].
  assert (Hh : holds p (mv_from m) (turn p) Pawn = true).
  { rewrite holds_who, W, matchv_some, color_eqb_refl. reflexivity. }
  pose proof (npe_elim p _ _ NPE (mv_from_lt m) Hh) as [R0 R7].
  pose proof (mv_from_lt m) as Hf. pose proof (mv_to_lt m) as Ht'.
  destruct PM as [Hk Hp Ht Hr He|Hk Hp Hr Ht He1 He|Hk Hp Hm Ho|Hk Hp Hm He|Hk Hp Hm|long Hk Hp Hf' Ht Hc|Hk1 Hk2 Hp Hm];
    try discriminate; try congruence.
  - gen_turn p c. destruct c; unfold fwd, first_rank, rank_n in *; lia.
  - gen_turn p c. destruct c; unfold fwd, first_rank, rank_n, second_rank in *; lia.
  - pose proof (pawn_attack_geo _ _ _ Hf Ht' Hm) as [_ [_ [_ [_ [_ [_ [_ G]]]]]]].
    gen_turn p c. destruct c; unfold first_rank, rank_n in *; lia.
  - pose proof (pawn_attack_geo _ _ _ Hf Ht' Hm) as [_ [_ [_ [_ [_ [_ [_ G]]]]]]].
    gen_turn p c. destruct c; unfold first_rank, rank_n in *; lia.
Qed.

Lemma plain_shape p m k :
  valid p = true -> pseudo_spec p m = true ->
  who p (mv_from m) = Some (turn p, k) -> owned_by p (mv_to m) (turn p) = false ->
  is_ep_capture p m = false -> is_castling p m = false ->
  (k = Pawn -> promo_ok p m = true /\ rank_n (mv_to m) <> first_rank (turn p)) ->
  (k <> Pawn -> mv_promo m = 0) ->
  shape p m.
Proof.
  intros V PS W Ho E C HP HNP.
  assert (Hne : mv_from m <> mv_to m).
  { intros Heq. rewrite owned_who, <- Heq, W in Ho. cbn [ownedv] in Ho.
    rewrite color_eqb_refl in Ho. discriminate. }
  pose proof (no_king_capture p m V PS) as NK. rewrite holds_who in NK. rewrite owned_who in Ho.
  pose proof (place_after_plain p m k W E C) as PA.
  destruct (N.eqb_spec k Pawn) as [Hk|Hk].
  - destruct (HP Hk) as [Hp Hr]. unfold promo_ok in Hp.
    destruct (N.eqb_spec (rank_n (mv_to m)) (last_rank (turn p))) as [Hl|Hl].
    + (* promotion *)
      assert (Hpr : (mv_promo m =? 0) = false).
      { apply is_promo_piece_cases in Hp. apply N.eqb_neq.
        destruct Hp as [Hp|[Hp|[Hp|Hp]]]; rewrite Hp; discriminate. }
      rewrite Hpr in PA.
      apply (Sh_plain p m k (mv_promo m)); try assumption.
      * right. auto.
      * intros Hq. rewrite Hq in Hp. discriminate.
    + apply N.eqb_eq in Hp. rewrite Hp in PA. cbn [N.eqb] in PA.
      apply (Sh_plain p m k k); try assumption.
      * left; reflexivity.
      * intros _. revert Hr Hl. generalize (turn p). intros c Hr Hl.
        destruct c; unfold first_rank, last_rank in *; auto.
  - rewrite (HNP Hk) in PA. cbn [N.eqb] in PA.
    apply (Sh_plain p m k k); try assumption.
    + left; reflexivity.
    + intros Hq. congruence.
Qed.

Lemma move_shape p m : valid p = true -> pseudo_spec p m = true -> shape p m.
Proof.
  intros V PS.
  pose proof (pseudo_inv p m PS) as [k [W [Ho PM]]].
  pose proof (valid_inv p V) as [Hlen [_ [_ [NPE [_ [_ EPOK]]]]]].
  pose proof (mv_from_lt m) as Hf. pose proof (mv_to_lt m) as Ht'.
  pose proof PM as PM0.
  destruct PM as [Hk Hp Ht Hr He|Hk Hp Hr Ht He1 He|Hk Hp Hm Hoo|Hk Hp Hm He|Hk Hp Hm|long Hk Hp Hf' Ht Hc|Hk1 Hk2 Hp Hm].
  - (* single step *)
    subst k.
    apply (plain_shape p m Pawn); try assumption.
    + (* not en passant: the square behind the target would hold an enemy pawn, but it is from *)
      unfold is_ep_capture. destruct (epsq p) as [e|] eqn:E; [|apply andb_false_r].
      destruct (N.eqb_spec e (mv_to m)) as [->|Hn]; [|apply andb_false_r]. exfalso.
      pose proof (ep_inv p _ EPOK E) as [_ [_ [_ [Hh _]]]].
      assert (Hh0 : holds p (mv_from m) (turn p) Pawn = true).
      { rewrite holds_who, W, matchv_some, color_eqb_refl. reflexivity. }
      pose proof (npe_elim p _ _ NPE Hf Hh0) as [R0 R7].
      assert (Hb : fwd (flip (turn p)) (mv_to m) = mv_from m).
      { revert Ht Hr. generalize (turn p). intros c Ht Hr.
        destruct c; unfold fwd, flip, rank_n, last_rank in *; lia. }
      rewrite Hb, holds_who, W, matchv_some, color_eqb_flip' in Hh. discriminate.
    + apply (not_castling_if_not_king p m Pawn W). discriminate.
    + intros _. split; [exact Hp|]. apply pawn_target_rank; assumption.
    + congruence.
  - (* double step *)
    subst k.
    apply (plain_shape p m Pawn); try assumption.
    + unfold is_ep_capture. destruct (epsq p) as [e|] eqn:E; [|apply andb_false_r].
      destruct (N.eqb_spec e (mv_to m)) as [->|Hn]; [|apply andb_false_r]. exfalso.
      pose proof (ep_inv p _ EPOK E) as [Hrk _].
      revert Ht Hr Hrk. generalize (turn p). intros c Ht Hr Hrk.
      destruct c; unfold fwd, rank_n, second_rank in *; lia.
    + apply (not_castling_if_not_king p m Pawn W). discriminate.
    + intros _. split; [exact Hp|]. apply pawn_target_rank; assumption.
    + congruence.
  - (* pawn capture *)
    subst k.
    apply (plain_shape p m Pawn); try assumption.
    + unfold is_ep_capture. destruct (epsq p) as [e|] eqn:E; [|apply andb_false_r].
      destruct (N.eqb_spec e (mv_to m)) as [->|Hn]; [|apply andb_false_r]. exfalso.
      pose proof (ep_inv p _ EPOK E) as [_ [Hemp _]].
      apply empty_who_eq in Hemp. rewrite owned_who, Hemp in Hoo. discriminate.
    + apply (not_castling_if_not_king p m Pawn W). discriminate.
    + intros _. split; [exact Hp|]. apply pawn_target_rank; assumption.
    + congruence.
  - (* en passant *)
    subst k.
    pose proof (ep_inv p _ EPOK He) as [Hrk [Hemp [_ [Hh _]]]].
    pose proof (pawn_attack_geo (turn p) _ _ Hf Ht' Hm) as G. cbv zeta in G.
    destruct G as [G1 [G2 [G3 [G4 [_ [_ [G7 _]]]]]]].
    apply empty_who_eq in Hemp. apply holds_who_eq in Hh. rewrite <- G1 in Hh.
    assert (Hpr : mv_promo m = 0).
    { unfold promo_ok in Hp. revert Hp Hrk. generalize (turn p). intros c Hp Hrk.
      destruct (N.eqb_spec (rank_n (mv_to m)) (last_rank c)) as [Hl|Hl].
      - exfalso. destruct c; unfold last_rank in Hl; lia.
      - apply N.eqb_eq in Hp. exact Hp. }
    apply (Sh_ep p m (sqfr (file_n (mv_to m)) (rank_n (mv_from m)))); try assumption.
    + unfold place_after. cbv zeta. rewrite W.
      assert (E1 : is_ep_capture p m = true).
      { unfold is_ep_capture. rewrite He, N.eqb_refl, holds_who, W, matchv_some, color_eqb_refl. reflexivity. }
      rewrite E1, (not_castling_if_not_king p m Pawn W) by discriminate.
      rewrite Hpr. reflexivity.
    + revert Hrk. generalize (turn p). intros c Hrk. destruct c; lia.
  - (* king step *)
    subst k.
    apply (plain_shape p m King); try assumption.
    + apply (not_ep_if_not_pawn p m King W). discriminate.
    + unfold is_castling. pose proof (king_step_not_castling _ _ Hf Ht' Hm) as [K1 K2].
      rewrite K1, K2. apply andb_false_r.
    + discriminate.
    + intros _. exact Hp.
  - (* castling *)
    subst k.
    pose proof (castle_ok_inv p long Hc) as CI. cbv zeta in CI. destruct CI as [HK [HR Hb]].
    apply holds_who_eq in HK, HR.
    assert (S : forall l, forallb (empty p) l = true -> forall s, In s l -> who p s = None).
    { intros l Hl s Hs. rewrite forallb_forall in Hl. apply empty_who_eq. apply Hl. exact Hs. }
    pose proof between_castle as [B1 [B2 [B3 B4]]].
    assert (PA : place_after p m =
                 let l := put (put (at_ p) (mv_from m) None) (mv_to m) (Some (turn p, King)) in
                 if mv_to m =? mv_from m + 2
                 then put (put l (mv_from m + 3) None) (mv_from m + 1) (Some (turn p, Rook))
                 else put (put l (mv_from m - 4) None) (mv_from m - 1) (Some (turn p, Rook))).
    { unfold place_after. cbv zeta. rewrite W, Hp.
      rewrite (not_ep_if_not_pawn p m King W) by discriminate.
      assert (C1 : is_castling p m = true).
      { unfold is_castling. rewrite holds_who, W, matchv_some, color_eqb_refl. change (King =? King) with true. cbn [andb].
        destruct long; [rewrite Ht, N.eqb_refl, orb_true_r|rewrite <- Ht, N.eqb_refl]; reflexivity. }
      rewrite C1. reflexivity. }
    cbv zeta in PA.
    clear PM0 Hc. remember (turn p) as c eqn:Ec in *. symmetry in Ec.
    destruct c, long.
    + rewrite B2 in Hb. change (king_home White) with 4 in *. change (rook_home White true) with 0 in *.
      assert (Ht2 : mv_to m = 2) by lia. rewrite Hf', Ht2 in PA.
      apply (Sh_castle p m 4 2 0 3); rewrite ?Ec; try assumption.
      * unfold castle_squares. auto 10.
      * apply (S _ Hb); cbn; auto.
      * apply (S _ Hb); cbn; auto.
    + rewrite B1 in Hb. change (king_home White) with 4 in *. change (rook_home White false) with 7 in *.
      assert (Ht2 : mv_to m = 6) by lia. rewrite Hf', Ht2 in PA.
      apply (Sh_castle p m 4 6 7 5); rewrite ?Ec; try assumption.
      * unfold castle_squares. auto 10.
      * apply (S _ Hb); cbn; auto.
      * apply (S _ Hb); cbn; auto.
    + rewrite B4 in Hb. change (king_home Black) with 60 in *. change (rook_home Black true) with 56 in *.
      assert (Ht2 : mv_to m = 58) by lia. rewrite Hf', Ht2 in PA.
      apply (Sh_castle p m 60 58 56 59); rewrite ?Ec; try assumption.
      * unfold castle_squares. auto 10.
      * apply (S _ Hb); cbn; auto.
      * apply (S _ Hb); cbn; auto.
    + rewrite B3 in Hb. change (king_home Black) with 60 in *. change (rook_home Black false) with 63 in *.
      assert (Ht2 : mv_to m = 62) by lia. rewrite Hf', Ht2 in PA.
      apply (Sh_castle p m 60 62 63 61); rewrite ?Ec; try assumption.
      * unfold castle_squares. auto 10.
      * apply (S _ Hb); cbn; auto.
      * apply (S _ Hb); cbn; auto.
  - (* knight, bishop, rook, queen *)
    apply (plain_shape p m k); try assumption.
    + apply (not_ep_if_not_pawn p m k W). exact Hk1.
    + apply (not_castling_if_not_king p m k W). exact Hk2.
    + intros Hq. congruence.
    + intros _. exact Hp.
Qed.

(* ------------------------------------------------------------------------------------------ *)
(* material *)

Definition mat6 (K P Kn B R Q : Z) : bool :=
  ((K =? 1) && (P + Z.max 0 (Kn - 2) + Z.max 0 (B - 2) + Z.max 0 (R - 2) + Z.max 0 (Q - 1) <=? 8))%Z.

Lemma material_ok_mat6 p c :
  material_ok p c = mat6 (count p c King) (count p c Pawn) (count p c Knight) (count p c Bishop)
                         (count p c Rook) (count p c Queen).
Proof. unfold material_ok, mat6. reflexivity. Qed.

Lemma material_mono p q c :
  count q c King = count p c King -> (forall k, (count q c k <= count p c k)%Z) ->
  material_ok p c = true -> material_ok q c = true.
Proof.
  intros HK Hle. rewrite !material_ok_mat6. unfold mat6. rewrite HK.
  pose proof (Hle Pawn). pose proof (Hle Knight). pose proof (Hle Bishop). pose proof (Hle Rook).
  pose proof (Hle Queen).
  intros H'. apply andb_true_iff in H'. destruct H' as [H1' H2']. apply andb_true_iff.
  split; [exact H1'|]. apply Z.leb_le in H2'. apply Z.leb_le. lia.
Qed.

Lemma material_promo p q c k' :
  is_promo_piece k' = true ->
  (forall k, count q c k = count p c k - b2z (k =? Pawn)%N + b2z (k =? k')%N)%Z ->
  material_ok p c = true -> material_ok q c = true.
Proof.
  intros Hp Hc. rewrite !material_ok_mat6. unfold mat6.
  pose proof (Hc King) as C1. pose proof (Hc Pawn) as C2. pose proof (Hc Knight) as C3.
  pose proof (Hc Bishop) as C4. pose proof (Hc Rook) as C5. pose proof (Hc Queen) as C6.
  intros H'. apply andb_true_iff in H'. destruct H' as [H1' H2']. apply Z.leb_le in H2'.
  apply is_promo_piece_cases in Hp.
  destruct Hp as [Hp|[Hp|[Hp|Hp]]]; subst k';
    cbn [N.eqb Pos.eqb King Pawn Knight Bishop Rook Queen b2z] in C1, C2, C3, C4, C5, C6;
    rewrite C1, C2, C3, C4, C5, C6; apply andb_true_iff; (split; [rewrite Z.sub_0_r, Z.add_0_r; exact H1'|]);
    apply Z.leb_le; lia.
Qed.

Lemma material_step p m c0 :
  valid p = true -> shape p m -> material_ok (posL (place_after p m)) c0 = true.
Proof.
  intros V SH. pose proof (valid_inv p V) as [Hlen [MW [MB _]]].
  pose proof (material_ok_color p c0 MW MB) as M0.
  pose proof (mv_from_lt m) as Hf. pose proof (mv_to_lt m) as Ht.
  destruct SH as [k k' W Ho NK Hne PA Hk' _|cap W Wt Wc Hc Hcf Hct Hne PA _|kf kt rf rt Ef Et CS Wkf Wkt Wrt Wrf PA].
  - (* plain *)
    rewrite PA.
    assert (C : forall k0, count (posL (put (put (at_ p) (mv_from m) None) (mv_to m) (Some (turn p, k')))) c0 k0 =
                (count p c0 k0 - b2z (color_eqb c0 (turn p) && (k0 =? k)%N)
                 - b2z (matchv (who p (mv_to m)) c0 k0) + b2z (color_eqb c0 (turn p) && (k0 =? k')%N))%Z).
    { intros k0. rewrite count_put2 by assumption. rewrite !who_posL_at, W, count_posL_at.
      cbn [matchv b2z]. lia. }
    destruct (color_cases c0 (turn p)) as [E|E]; subst c0.
    + (* the mover's own material *)
      assert (C' : forall k0, count (posL (put (put (at_ p) (mv_from m) None) (mv_to m) (Some (turn p, k')))) (turn p) k0 =
                (count p (turn p) k0 - b2z (k0 =? k)%N + b2z (k0 =? k')%N)%Z).
      { intros k0. rewrite C, color_eqb_refl, (matchv_not_owned _ _ k0 Ho). cbn [andb b2z]. lia. }
      destruct Hk' as [->|[-> Hpp]].
      * apply (material_mono p); [rewrite C'; lia|intros k0; rewrite C'; lia|exact M0].
      * apply (material_promo p _ _ k' Hpp); [exact C'|exact M0].
    + (* the other side: at most one unit less, never the king *)
      assert (C' : forall k0, count (posL (put (put (at_ p) (mv_from m) None) (mv_to m) (Some (turn p, k')))) (flip (turn p)) k0 =
                (count p (flip (turn p)) k0 - b2z (matchv (who p (mv_to m)) (flip (turn p)) k0))%Z).
      { intros k0. rewrite C, color_eqb_flip'. cbn [andb b2z]. lia. }
      apply (material_mono p); [rewrite C', NK; cbn [b2z]; lia| |exact M0].
      intros k0. rewrite C'. destruct (matchv _ _ k0); cbn [b2z]; lia.
  - (* en passant *)
    rewrite PA.
    assert (C : forall k0, count (posL (put (put (put (at_ p) (mv_from m) None) (mv_to m) (Some (turn p, Pawn))) cap None)) c0 k0 =
                (count p c0 k0 - b2z (color_eqb c0 (flip (turn p)) && (k0 =? Pawn)%N))%Z).
    { intros k0. rewrite count_put by (rewrite ?put_length; assumption).
      rewrite count_put2 by assumption.
      rewrite !who_put_other by congruence.
      rewrite !who_posL_at, W, Wt, Wc, count_posL_at. cbn [matchv b2z]. lia. }
    apply (material_mono p); [rewrite C; change (King =? Pawn) with false; rewrite andb_false_r; cbn [b2z]; lia| |exact M0].
    intros k0. rewrite C. destruct (_ && _); cbn [b2z]; lia.
  - (* castling *)
    rewrite PA.
    assert (D : kf < 64 /\ kt < 64 /\ rf < 64 /\ rt < 64 /\ kf <> kt /\ rf <> rt /\
                kf <> rf /\ kf <> rt /\ kt <> rf /\ kt <> rt).
    { destruct CS as [[_ [-> [-> [-> ->]]]]|[[_ [-> [-> [-> ->]]]]|[[_ [-> [-> [-> ->]]]]|[_ [-> [-> [-> ->]]]]]]];
        repeat split; try reflexivity; discriminate. }
    destruct D as [D1 [D2 [D3 [D4 [D5 [D6 [D7 [D8 [D9 D10]]]]]]]]].
    assert (C : forall k0, count (posL (put (put (put (put (at_ p) kf None) kt (Some (turn p, King))) rf None) rt (Some (turn p, Rook)))) c0 k0 =
                count p c0 k0).
    { intros k0. rewrite count_put2 by (rewrite ?put_length; assumption).
      rewrite count_put2 by assumption.
      rewrite !who_put_other by congruence.
      rewrite !who_posL_at, Wkf, Wkt, Wrf, Wrt, count_posL_at. cbn [matchv b2z]. lia. }
    apply (material_mono p); [rewrite C; lia|intros k0; rewrite C; lia|exact M0].
Qed.

(* ------------------------------------------------------------------------------------------ *)
(* pawns stay off the first and last rank *)

Lemma castle_squares_facts c kf kt rf rt :
  castle_squares c kf kt rf rt ->
  kf < 64 /\ kt < 64 /\ rf < 64 /\ rt < 64 /\ kf <> kt /\ rf <> rt /\
  kf <> rf /\ kf <> rt /\ kt <> rf /\ kt <> rt.
Proof.
  intros CS.
  destruct CS as [[_ [-> [-> [-> ->]]]]|[[_ [-> [-> [-> ->]]]]|[[_ [-> [-> [-> ->]]]]|[_ [-> [-> [-> ->]]]]]]];
    repeat split; try reflexivity; discriminate.
Qed.

Lemma npe_step p m :
  valid p = true -> shape p m -> no_pawn_on_edge (posL (place_after p m)) = true.
Proof.
  intros V SH. pose proof (valid_inv p V) as [Hlen [_ [_ [NPE _]]]].
  pose proof (mv_from_lt m) as Hf. pose proof (mv_to_lt m) as Ht.
  apply npe_intro. intros s c0 Hs.
  destruct SH as [k k' W Ho NK Hne PA Hk' Hrk|cap W Wt Wc Hc Hcf Hct Hne PA Hrk|kf kt rf rt Ef Et CS Wkf Wkt Wrt Wrf PA];
    rewrite PA, holds_who.
  - rewrite !who_put by (rewrite ?put_length; assumption).
    destruct (N.eqb_spec (mv_to m) s) as [<-|N1].
    + rewrite matchv_some. intros H. apply andb_true_iff in H. destruct H as [_ H].
      apply N.eqb_eq in H. apply Hrk. symmetry; exact H.
    + destruct (N.eqb_spec (mv_from m) s) as [<-|N2]; [discriminate|].
      rewrite who_posL_at, <- holds_who. apply npe_elim; assumption.
  - rewrite !who_put by (rewrite ?put_length; assumption).
    destruct (N.eqb_spec cap s) as [<-|N0]; [discriminate|].
    destruct (N.eqb_spec (mv_to m) s) as [<-|N1]; [intros _; exact Hrk|].
    destruct (N.eqb_spec (mv_from m) s) as [<-|N2]; [discriminate|].
    rewrite who_posL_at, <- holds_who. apply npe_elim; assumption.
  - pose proof (castle_squares_facts _ _ _ _ _ CS) as [D1 [D2 [D3 [D4 _]]]].
    rewrite !who_put by (rewrite ?put_length; assumption).
    destruct (N.eqb_spec rt s) as [<-|N0]; [rewrite matchv_some, andb_false_r; discriminate|].
    destruct (N.eqb_spec rf s) as [<-|N1]; [discriminate|].
    destruct (N.eqb_spec kt s) as [<-|N2]; [rewrite matchv_some, andb_false_r; discriminate|].
    destruct (N.eqb_spec kf s) as [<-|N3]; [discriminate|].
    rewrite who_posL_at, <- holds_who. apply npe_elim; assumption.
Qed.

(* ------------------------------------------------------------------------------------------ *)
(* castling rights stay consistent *)

Lemma rights_step p m q :
  valid p = true -> shape p m ->
  at_ q = place_after p m -> rights q = rights_after p m -> rights_consistent q = true.
Proof.
  intros V SH Eat Er. pose proof (valid_inv p V) as [Hlen [_ [_ [_ [_ [RC _]]]]]].
  pose proof (mv_from_lt m) as Hf. pose proof (mv_to_lt m) as Ht.
  apply rc_intro. intros c' long Hr.
  rewrite (has_right_after p m q c' long Er) in Hr. apply andb_true_iff in Hr.
  destruct Hr as [Hr Hl]. apply negb_true_iff in Hl.
  pose proof (rc_elim p c' long RC Hr) as [HK HR].
  unfold lose_cond in Hl. apply orb_false_iff in Hl. destruct Hl as [Hl L3].
  apply orb_false_iff in Hl. destruct Hl as [L1 L2]. apply N.eqb_neq in L2, L3.
  assert (Eq : at_ q = at_ (posL (place_after p m))) by exact Eat.
  rewrite !(holds_at q _ Eq).
  assert (WK := holds_who_eq _ _ _ _ HK). assert (WR := holds_who_eq _ _ _ _ HR).
  (* it suffices that the two home squares are read unchanged *)
  cut (who (posL (place_after p m)) (king_home c') = who p (king_home c') /\
       who (posL (place_after p m)) (rook_home c' long) = who p (rook_home c' long)).
  { intros [E1 E2]. rewrite !holds_who, E1, E2, <- !holds_who. auto. }
  destruct SH as [k k' W Ho NK Hne PA Hk' Hrk|cap W Wt Wc Hc Hcf Hct Hne PA Hrk|kf kt rf rt Ef Et CS Wkf Wkt Wrt Wrf PA];
    rewrite PA.
  - (* plain *)
    assert (NKf : king_home c' <> mv_from m).
    { intros Eh. rewrite Eh in WK. rewrite W in WK. injection WK as Ec Ek.
      rewrite holds_who, W, matchv_some, Ec, color_eqb_refl, Ek in L1. discriminate. }
    assert (NKt : king_home c' <> mv_to m).
    { intros Eh. rewrite Eh in WK. rewrite WK in Ho, NK. cbn [ownedv matchv] in Ho, NK.
      destruct (color_cases c' (turn p)) as [Ec|Ec]; rewrite Ec in *.
      - rewrite color_eqb_refl in Ho. discriminate.
      - rewrite color_eqb_refl in NK. discriminate. }
    rewrite !who_put_other by congruence. rewrite !who_posL_at. auto.
  - (* en passant *)
    assert (NKf : king_home c' <> mv_from m).
    { intros Eh. rewrite Eh in WK. rewrite W in WK. discriminate. }
    assert (NKt : king_home c' <> mv_to m).
    { intros Eh. rewrite Eh in WK. rewrite Wt in WK. discriminate. }
    assert (NKc : king_home c' <> cap).
    { intros Eh. rewrite Eh in WK. rewrite Wc in WK. discriminate. }
    assert (NRc : rook_home c' long <> cap).
    { intros Eh. rewrite Eh in WR. rewrite Wc in WR. discriminate. }
    rewrite !who_put_other by congruence. rewrite !who_posL_at. auto.
  - (* castling: the mover loses both rights; the other side's home squares are not touched *)
    subst kf kt.
    destruct (color_cases c' (turn p)) as [Ec|Ec].
    + exfalso. rewrite Ec in L1. rewrite holds_who, Wkf, matchv_some, !color_eqb_refl in L1. discriminate.
    + assert (T : forall s x, who p s = Some (c', x) -> s <> mv_from m /\ s <> mv_to m /\ s <> rf /\ s <> rt).
      { intros s x Hw. rewrite Ec in Hw.
        repeat split; intros Eh; rewrite Eh in Hw; rewrite ?Wkf, ?Wkt, ?Wrf, ?Wrt in Hw; try discriminate;
          injection Hw as Hw _; revert Hw; generalize (turn p); intros c Hw; destruct c; discriminate. }
      pose proof (T _ _ WK) as [T1 [T2 [T3 T4]]]. pose proof (T _ _ WR) as [T5 [T6 [T7 T8]]].
      rewrite !who_put_other by congruence. rewrite !who_posL_at. auto.
Qed.

(* ------------------------------------------------------------------------------------------ *)
(* the new en-passant target *)

Lemma ep_step p m :
  valid p = true -> pseudo_spec p m = true -> ep_ok (succ_spec p m) = true.
Proof.
  intros V PS. unfold ep_ok.
  destruct (epsq_succ p m) as [E|[E [Hh Hd]]]; rewrite E; [reflexivity|].
  pose proof (valid_inv p V) as [Hlen [_ [_ [NPE [CHK [_ EPOK]]]]]].
  pose proof (mv_from_lt m) as Hf. pose proof (mv_to_lt m) as Ht'.
  pose proof (pseudo_inv p m PS) as [k [W [Ho PM]]].
  pose proof (holds_who_eq _ _ _ _ Hh) as W'. rewrite W in W'. injection W' as Hk. subst k.
  pose proof (npe_elim p _ _ NPE Hf Hh) as [R0 R7].
  apply orb_true_iff in Hd.
  destruct PM as [Hk Hp Ht Hr He|Hk Hp Hr Ht He1 He|Hk Hp Hm Hoo|Hk Hp Hm He|Hk Hp Hm|long Hk Hp Hf' Ht Hc|Hk1 Hk2 Hp Hm];
    try discriminate; try congruence.
  - (* single step: not a double step *)
    exfalso. gen_turn p c.
    destruct Hd as [Hd|Hd]; apply N.eqb_eq in Hd; destruct c; unfold fwd, rank_n in *; lia.
  - (* double step *)
    assert (Hpr : mv_promo m = 0).
    { unfold promo_ok in Hp.
      destruct (N.eqb_spec (rank_n (mv_to m)) (last_rank (turn p))) as [Hl|Hl].
      - exfalso. gen_turn p c. destruct c; unfold fwd, rank_n, second_rank, last_rank in *; lia.
      - apply N.eqb_eq in Hp. exact Hp. }
    assert (NE : is_ep_capture p m = false).
    { unfold is_ep_capture. destruct (epsq p) as [e|] eqn:E0; [|apply andb_false_r].
      destruct (N.eqb_spec e (mv_to m)) as [->|Hn]; [|apply andb_false_r]. exfalso.
      pose proof (ep_inv p _ EPOK E0) as [Hrk _].
      gen_turn p c. destruct c; unfold fwd, rank_n, second_rank in *; lia. }
    assert (NC : is_castling p m = false) by (apply (not_castling_if_not_king p m Pawn W); discriminate).
    pose proof (place_after_plain p m Pawn W NE NC) as PA. rewrite Hpr in PA. cbn [N.eqb] in PA.
    apply empty_who_eq in He, He1.
    assert (Hne : mv_from m <> mv_to m) by congruence.
    assert (Hmid : (mv_from m + mv_to m) / 2 = fwd (turn p) (mv_from m)).
    { gen_turn p c. destruct c; unfold fwd, rank_n, second_rank in *; lia. }
    assert (Horig : fwd (flip (turn p)) (fwd (turn p) (mv_from m)) = mv_from m).
    { gen_turn p c. destruct c; unfold fwd, flip, rank_n, second_rank in *; lia. }
    assert (Hmf : fwd (turn p) (mv_from m) <> mv_from m /\ fwd (turn p) (mv_from m) <> mv_to m /\
                  fwd (turn p) (mv_from m) < 64).
    { gen_turn p c. destruct c; unfold fwd, flip, rank_n, second_rank in *; lia. }
    destruct Hmf as [M1 [M2 M3]].
    rewrite turn_succ, flip_flip, Hmid, Horig, <- Ht.
    assert (Eq : at_ (succ_spec p m) = at_ (posL (place_after p m))) by apply at_succ.
    rewrite !(empty_at _ _ Eq), (holds_at _ _ Eq), !empty_who, holds_who, PA.
    rewrite !who_put by (rewrite ?put_length; assumption).
    rewrite (proj2 (N.eqb_neq _ _) (not_eq_sym M2)), (proj2 (N.eqb_neq _ _) (not_eq_sym M1)).
    rewrite (proj2 (N.eqb_neq _ _) (not_eq_sym Hne)), !N.eqb_refl, !who_posL_at, He1.
    rewrite matchv_some, color_eqb_refl.
    assert (RK : (rank_n (fwd (turn p) (mv_from m)) =? match flip (turn p) with White => 5 | Black => 2 end) = true).
    { apply N.eqb_eq. gen_turn p c. destruct c; unfold fwd, flip, rank_n, second_rank in *; lia. }
    rewrite RK. cbn [emptyv andb N.eqb Pos.eqb Pawn].
    (* the predecessor: the pawn put back gives the placement of p *)
    rewrite (in_check_at _ p).
    + rewrite CHK. reflexivity.
    + cbn [at_ with_placement]. rewrite at_succ, PA. apply put_back; assumption.
  - (* capture: not a double step *)
    exfalso. pose proof (pawn_attack_geo _ _ _ Hf Ht' Hm) as [_ [_ [_ [_ [G5 [G6 _]]]]]].
    destruct Hd as [Hd|Hd]; congruence.
  - exfalso. pose proof (pawn_attack_geo _ _ _ Hf Ht' Hm) as [_ [_ [_ [_ [G5 [G6 _]]]]]].
    destruct Hd as [Hd|Hd]; congruence.
Qed.

(* ------------------------------------------------------------------------------------------ *)
(* the theorem *)

(* the bound on the encoding is not needed: from, to and promotion are read through masks *)
Lemma valid_step_any : forall p m,
  valid p = true -> legal_spec p m = true -> valid (succ_spec p m) = true.
Proof.
  intros p m V L. unfold legal_spec in L. apply andb_true_iff in L. destruct L as [PS NC].
  apply negb_true_iff in NC.
  pose proof (valid_inv p V) as [Hlen _].
  pose proof (move_shape p m V PS) as SH.
  assert (Eq : at_ (succ_spec p m) = at_ (posL (place_after p m))) by apply at_succ.
  apply valid_intro.
  - rewrite at_succ. destruct SH as [k k' _ _ _ _ PA _ _|cap _ _ _ _ _ _ _ PA _|kf kt rf rt _ _ _ _ _ _ _ PA];
      rewrite PA, !put_length; exact Hlen.
  - rewrite (material_ok_at _ _ Eq). apply material_step; assumption.
  - rewrite (material_ok_at _ _ Eq). apply material_step; assumption.
  - rewrite (no_pawn_on_edge_at _ _ Eq). apply npe_step; assumption.
  - rewrite turn_succ, flip_flip. rewrite <- NC. apply in_check_at. rewrite at_succ. reflexivity.
  - apply (rights_step p m); [assumption|assumption|apply at_succ|apply rights_succ].
  - apply ep_step; assumption.
Qed.

Theorem valid_step : forall p m,
  valid p = true -> m < 32768 -> legal_spec p m = true -> valid (succ_spec p m) = true.
Proof. intros p m V _ L. apply valid_step_any; assumption. Qed.

(* the successor also follows the engine's convention (C02): a target is recorded only when an
   en-passant capture is legal -- for every p and m, by construction of succ_spec *)
Lemma succ_normal_ep : forall p m, normal_ep (succ_spec p m) = true.
Proof.
  intros p m. unfold normal_ep, succ_spec. cbv zeta.
  destruct (holds p (mv_from m) (turn p) Pawn && _ && ep_capturable _ _) eqn:D; cbn [epsq]; [|reflexivity].
  apply andb_true_iff in D. destruct D as [_ D].
  unfold ep_capturable in D |- *. cbn [at_ turn rights half fullm] in D |- *. exact D.
Qed.

Fixpoint legal_chain (p : pos) (ms : list N) : Prop :=
  match ms with
  | [] => True
  | m :: r => m < 32768 /\ legal_spec p m = true /\ legal_chain (succ_spec p m) r
  end.

Corollary valid_chain : forall ms p,
  valid p = true -> legal_chain p ms -> valid (fold_left succ_spec ms p) = true.
Proof.
  induction ms as [|m r IH]; intros p V LC; cbn [fold_left]; [exact V|].
  destruct LC as [Hm [L LC]]. apply IH; [apply valid_step; assumption|exact LC].
Qed.

(* ------------------------------------------------------------------------------------------ *)
(* the hypotheses are satisfiable: concrete positions, built from the board field of a FEN *)

From Coq Require Import String Ascii.

Definition piece_of_ascii (a : ascii) : option (color * N) :=
  let is x := Ascii.eqb a x in
  if is "P"%char then Some (White, Pawn) else if is "N"%char then Some (White, Knight)
  else if is "B"%char then Some (White, Bishop) else if is "R"%char then Some (White, Rook)
  else if is "Q"%char then Some (White, Queen) else if is "K"%char then Some (White, King)
  else if is "p"%char then Some (Black, Pawn) else if is "n"%char then Some (Black, Knight)
  else if is "b"%char then Some (Black, Bishop) else if is "r"%char then Some (Black, Rook)
  else if is "q"%char then Some (Black, Queen) else if is "k"%char then Some (Black, King)
  else None.

(* ranks arrive 8th first; the accumulator turns that into rank 1 first (square A1 = index 0) *)
Fixpoint fen_rows (s : string) (cur : placement) (acc : list placement) : list placement :=
  match s with
  | EmptyString => cur :: acc
  | String a r =>
      if Ascii.eqb a "/"%char then fen_rows r [] (cur :: acc)
      else let n := nat_of_ascii a in
           if ((48 <? n) && (n <=? 56))%nat then fen_rows r (cur ++ repeat None (n - 48)) acc
           else fen_rows r (cur ++ [piece_of_ascii a]) acc
  end.
Definition placement_of_fen (s : string) : placement := List.concat (fen_rows s [] []).

Definition sq (file rank : N) : N := sqfr file rank.   (* files a..h = 0..7, ranks 1..8 = 0..7 *)

Definition start_pos : pos :=
  mkPos (placement_of_fen "rnbqkbnr/pppppppp/8/8/8/8/PPPPPPPP/RNBQKBNR") White 15 None 0 1.
Definition e2e4 : N := mk_move (sq 4 1) (sq 4 3) 0.
Definition a7a6 : N := mk_move (sq 0 6) (sq 0 5) 0.
Definition e4e5 : N := mk_move (sq 4 3) (sq 4 4) 0.
Definition d7d5 : N := mk_move (sq 3 6) (sq 3 4) 0.

Example start_valid : valid start_pos = true.
Proof. vm_compute. reflexivity. Qed.

(* 1.e4: legal; the successor is valid (as valid_step says) and records NO en-passant target,
   because no black pawn can capture on e3 *)
Example e4_step :
  e2e4 < 32768 /\ legal_spec start_pos e2e4 = true /\ valid (succ_spec start_pos e2e4) = true /\
  epsq (succ_spec start_pos e2e4) = None /\ turn (succ_spec start_pos e2e4) = Black.
Proof. vm_compute. auto 10. Qed.

(* 1.e4 a6 2.e5 d5: a legal chain; the target d6 IS recorded (exd6 e.p. is legal) and the
   position reached is valid (as valid_chain says) *)
Example d5_chain :
  legal_chain start_pos [e2e4; a7a6; e4e5; d7d5] /\
  valid (fold_left succ_spec [e2e4; a7a6; e4e5; d7d5] start_pos) = true /\
  epsq (fold_left succ_spec [e2e4; a7a6; e4e5; d7d5] start_pos) = Some (sq 3 5) /\
  legal_spec (fold_left succ_spec [e2e4; a7a6; e4e5; d7d5] start_pos) (mk_move (sq 4 4) (sq 3 5) 0) = true.
Proof. vm_compute. auto 20. Qed.

(* the discovered-check case (finding F2 of DESIGN.md): after e2-e4 the bishop f1 checks b5, so
   d4xe3 e.p. is illegal and no target is recorded although a black pawn stands beside e4 *)
Definition f2_pos : pos := mkPos (placement_of_fen "8/8/8/1k6/3p4/8/4P3/5B1K") White 0 None 0 1.
Example f2_step :
  valid f2_pos = true /\ legal_spec f2_pos e2e4 = true /\
  valid (succ_spec f2_pos e2e4) = true /\ epsq (succ_spec f2_pos e2e4) = None.
Proof. vm_compute. auto. Qed.

(* castling and promotion go through the same theorem: a position where both are legal *)
Definition cp_pos : pos := mkPos (placement_of_fen "r3k2r/1P6/8/8/8/8/8/R3K2R") White 15 None 0 1.
Example cp_step :
  valid cp_pos = true /\
  legal_spec cp_pos (mk_move (sq 4 0) (sq 6 0) 0) = true /\
  valid (succ_spec cp_pos (mk_move (sq 4 0) (sq 6 0) 0)) = true /\
  rights (succ_spec cp_pos (mk_move (sq 4 0) (sq 6 0) 0)) = 12 /\
  legal_spec cp_pos (mk_move (sq 1 6) (sq 0 7) Queen) = true /\
  valid (succ_spec cp_pos (mk_move (sq 1 6) (sq 0 7) Queen)) = true /\
  rights (succ_spec cp_pos (mk_move (sq 1 6) (sq 0 7) Queen)) = 7 /\
  legal_spec cp_pos (mk_move (sq 1 6) (sq 1 7) 0) = false.
Proof. vm_compute. auto 20. Qed.

Print Assumptions valid_step.
Print Assumptions valid_chain.
