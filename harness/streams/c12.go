package streams

import (
	"bufio"
	"fmt"
	"math/bits"
	"os"
	"sync"
	"time"

	"github.com/paulsonkoly/chess-3/attacks"
	. "github.com/paulsonkoly/chess-3/chess"

	"verifharness/hx"
)

// c12: attack sets through the exported functions of /repo/attacks (see coq/Model/AttacksStream.v)
//
//	[0 sq occ...]  -> BishopMoves(sq, occ) for each occ     [1 sq occ...] -> RookMoves
//	[2 sq] -> KingMoves   [3 sq] -> KnightMoves
//	[4 colour b] -> PawnCaptureMoves(b, colour)   [5 colour b] -> PawnSinglePushMoves(b, colour)
//	[6 a b] -> InBetween[a][b] &^ (1<<a | 1<<b)  (end squares disregarded: the property's observable)
//
// Slider cases are batched (one table row, many occupancies) because the model side has to replay
// the init loop of the row before it can look anything up.
func init() {
	if os.Getenv("VERIF_C12_COLD") != "" {
		c12Cold()
		os.Exit(0)
	}
	hx.Register(&hx.Stream{Name: "c12", Gen: genC12, Run: runC12})
}

// c12Cold: the FIRST lookups of a fresh process, made by several goroutines whose starts are staggered
// by microseconds (VERIF_C12_COLD = "<workers> <stagger in us>"). Nothing of package attacks has been
// called before (this runs from a package initialiser of the harness, after the initialisers of the
// engine's packages; the cases are read from stdin first). Every worker evaluates all cases; the
// answers of worker 0, 1, ... are printed one block after the other. Tables that are built on first
// use (or whose "ready" flag is raised before they are complete - seeded change C12-H) give a late
// worker a half-built table; tables built at package initialisation are complete here.
func c12Cold() {
	var workers, stagger int
	fmt.Sscan(os.Getenv("VERIF_C12_COLD"), &workers, &stagger)
	if workers < 1 {
		workers = 1
	}
	sc := bufio.NewScanner(os.Stdin)
	sc.Buffer(make([]byte, 1<<20), 1<<28)
	var lines []string
	for sc.Scan() {
		lines = append(lines, sc.Text())
	}
	st := hx.Lookup("c12")
	if st == nil {
		st = &hx.Stream{Name: "c12", Run: runC12}
	}
	outs := make([][]string, workers)
	var wg sync.WaitGroup
	start := make(chan struct{})
	for k := 0; k < workers; k++ {
		wg.Add(1)
		go func(k int) {
			defer wg.Done()
			<-start
			t0 := time.Now()
			for time.Since(t0) < time.Duration(k*stagger)*time.Microsecond {
			}
			res := make([]string, len(lines))
			for i, l := range lines {
				res[i] = hx.SafeRun(st, l)
			}
			outs[k] = res
		}(k)
	}
	close(start)
	wg.Wait()
	w := bufio.NewWriter(os.Stdout)
	for _, res := range outs {
		for _, l := range res {
			fmt.Fprintln(w, l)
		}
	}
	w.Flush()
}

var c12Kinds = []string{"bishop", "rook", "king", "knight", "pawn-capture", "pawn-push", "between"}

func runC12(a hx.Args) string {
	out := &hx.Nums{}
	kind := a.Int(0)
	switch kind {
	case 0, 1:
		sq := a.Int(1)
		if sq < 0 || sq > 63 {
			panic("square out of range")
		}
		for i := 2; i < a.Len(); i++ {
			if kind == 0 {
				out.U(uint64(attacks.BishopMoves(Square(sq), BitBoard(a.U64(i)))))
			} else {
				out.U(uint64(attacks.RookMoves(Square(sq), BitBoard(a.U64(i)))))
			}
		}
	case 2:
		out.U(uint64(attacks.KingMoves(Square(a.Int(1)))))
	case 3:
		out.U(uint64(attacks.KnightMoves(Square(a.Int(1)))))
	case 4:
		out.U(uint64(attacks.PawnCaptureMoves(BitBoard(a.U64(2)), Color(a.Int(1)))))
	case 5:
		out.U(uint64(attacks.PawnSinglePushMoves(BitBoard(a.U64(2)), Color(a.Int(1)))))
	case 6:
		x, y := a.Int(1), a.Int(2)
		out.U(uint64(attacks.InBetween[x][y] &^ (BitBoard(1)<<x | BitBoard(1)<<y)))
	}
	return out.String()
}

func c12Slider(kind, sq int, occs []uint64, what string) hx.Input {
	in := (&hx.Nums{}).Int(kind, sq).U(occs...).String()
	first, last := uint64(0), uint64(0)
	if len(occs) > 0 {
		first, last = occs[0], occs[len(occs)-1]
	}
	return hx.Input{In: in,
		Desc:       fmt.Sprintf("%s sq=%d %s n=%d occ[0]=%#x occ[n-1]=%#x", c12Kinds[kind], sq, what, len(occs), first, last),
		Tags:       []string{c12Kinds[kind] + ":" + what},
		NonTrivial: true}
}

// c12Occ draws a full-board occupancy: uniform, sparse (realistic piece counts) or dense.
func c12Occ(rng *hx.Rng) uint64 {
	switch rng.Intn(4) {
	case 0:
		return rng.U64()
	case 1:
		return rng.U64() & rng.U64()
	case 2:
		return rng.U64() & rng.U64() & rng.U64()
	default:
		return rng.U64() | rng.U64()
	}
}

func genC12(rng *hx.Rng, n int, tier string, emitOut func(hx.Input)) {
	// the cases are collected and emitted in a shuffled order so that the (much heavier) slider
	// batches spread evenly over the contiguous shards of the model run
	var all []hx.Input
	emit := func(c hx.Input) { all = append(all, c) }
	defer func() {
		for i := len(all) - 1; i > 0; i-- {
			j := rng.Intn(i + 1)
			all[i], all[j] = all[j], all[i]
		}
		for _, c := range all {
			emitOut(c)
		}
	}()
	t := attacks.VerifGetTables()
	thorough := tier == "thorough"
	// sliders
	perSq := 64
	if thorough {
		perSq = n / 128
	}
	const chunk = 512
	for kind := 0; kind < 2; kind++ {
		for sq := 0; sq < 64; sq++ {
			mask := uint64(t.BishopMasks[sq])
			if kind == 1 {
				mask = uint64(t.RookMasks[sq])
			}
			{
				// EVERY subset of the mask, in both tiers (own enumeration, starting from the empty set)
				var occs []uint64
				sub := uint64(0)
				for {
					occs = append(occs, sub)
					if len(occs) == chunk {
						emit(c12Slider(kind, sq, occs, "all-mask-subsets"))
						occs = nil
					}
					sub = (sub - mask) & mask
					if sub == 0 {
						break
					}
				}
				if len(occs) > 0 {
					emit(c12Slider(kind, sq, occs, "all-mask-subsets"))
				}
			}
			// full occupancies: bits outside the mask must not matter
			for done := 0; done < perSq; {
				k := perSq - done
				if k > chunk {
					k = chunk
				}
				occs := make([]uint64, 0, k)
				if done == 0 {
					occs = append(occs, ^uint64(0), ^mask)
				}
				for len(occs) < k {
					occs = append(occs, c12Occ(rng))
				}
				emit(c12Slider(kind, sq, occs, "full-occupancies"))
				done += k
			}
		}
	}
	// leapers: every cell
	for kind := 2; kind < 4; kind++ {
		for sq := 0; sq < 64; sq++ {
			emit(hx.Input{In: (&hx.Nums{}).Int(kind, sq).String(), Desc: fmt.Sprintf("%s sq=%d", c12Kinds[kind], sq),
				Tags: []string{c12Kinds[kind]}, NonTrivial: true})
		}
	}
	// pawns: every single square and colour, then sets of pawns
	pawnCase := func(kind, c int, b uint64, what string) {
		emit(hx.Input{In: (&hx.Nums{}).Int(kind, c).U(b).String(),
			Desc:       fmt.Sprintf("%s colour=%d b=%#x", c12Kinds[kind], c, b),
			Tags:       []string{c12Kinds[kind] + ":" + what},
			NonTrivial: b != 0})
	}
	sets := 256
	if thorough {
		sets = 20000
	}
	for kind := 4; kind < 6; kind++ {
		for c := 0; c < 2; c++ {
			for sq := 0; sq < 64; sq++ {
				pawnCase(kind, c, uint64(1)<<sq, "single")
			}
			for _, b := range []uint64{0, ^uint64(0), uint64(AFileBB), uint64(HFileBB), 0xff, 0xff << 56, 0xff00, 0xff << 48} {
				pawnCase(kind, c, b, "special")
			}
			for i := 0; i < sets; i++ {
				b := c12Occ(rng)
				if rng.Chance(0.5) {
					// at most 8 pawns, as in a game
					for bits.OnesCount64(b) > 8 {
						b &= b - 1
					}
				}
				pawnCase(kind, c, b, "set")
			}
		}
	}
	// in-between: every cell
	for a := 0; a < 64; a++ {
		for b := 0; b < 64; b++ {
			fa, ra, fb, rb := a%8, a/8, b%8, b/8
			df, dr := fa-fb, ra-rb
			aligned := df == 0 || dr == 0 || df == dr || df == -dr
			tag := "between:unaligned"
			if aligned {
				tag = "between:aligned"
			}
			emit(hx.Input{In: (&hx.Nums{}).Int(6, a, b).String(), Desc: fmt.Sprintf("between a=%d b=%d", a, b),
				Tags: []string{tag}, NonTrivial: aligned && a != b})
		}
	}
}
