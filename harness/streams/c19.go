package streams

import (
	"fmt"
	"iter"
	"math"
	"os"
	"reflect"
	"strings"
	"sync"
	"unsafe"

	"github.com/paulsonkoly/chess-3/board"
	. "github.com/paulsonkoly/chess-3/chess"
	"github.com/paulsonkoly/chess-3/eval"
	"github.com/paulsonkoly/chess-3/tools/tuner/epd"
	"github.com/paulsonkoly/chess-3/tools/tuner/tuning"

	"verifharness/hx"
	"verifharness/posgen"
)

// Property C19.
//
//	c19env  board-in -> [stm fifty fenok  i_restored i_nohash i_parsefen  raw_nohash er_nohash er_parsefen er_epd]
//	        i_*  = eval.Eval[Score](b, &eval.Coefficients) on the board restored from the input (with its
//	               hash history), on the same board WITHOUT hash history, and on the board produced by
//	               board.ParseFEN (no hash; what epd.Parse / the tuner uses)
//	        raw  = eval.Eval[float64](b, EngineCoeffs())            (side to move relative), IEEE-754 bits
//	        er_* = EngineRep.Eval(b) (the tuner's white relative score), IEEE-754 bits; er_epd goes through
//	               epd.Parse of the line "<fen>; 0.5"
//	        fenok = 0 when the FEN printer/parser cannot carry the position (halfmove clock > 100); the
//	               *_parsefen / er_epd entries then repeat the no-hash values.
//	        Implementation only; judged by Spec/EvalEnv.v judge_c19env.
//	c19z    board-in -> [i_nohash i_nohash 1]; the model (Model/EvalR.v run_c19z) prints the wrapping
//	        int16 model, the non-wrapping integer model and the no-wrap flag of the theorem's hypothesis.
//	c19vec  [mode names.. ] -> see runC19Vec; model Model/Vector.v run_c19vec, judge judge_c19vec.
//	c19fresh  see c19fresh.go: the FIRST use of package tuning in a fresh process, from many goroutines.
func init() {
	if os.Getenv("VERIF_C19_CHILD") == "1" {
		// fresh-process case of stream c19fresh: nothing of package tuning may have run yet
		c19Child()
		os.Exit(0)
	}
	hx.Register(&hx.Stream{Name: "c19fresh", Gen: genC19Fresh, Run: runC19Fresh})
	hx.Register(&hx.Stream{Name: "c19env", Gen: genC19Env, Run: runC19Env})
	hx.Register(&hx.Stream{Name: "c19z", Gen: genC19Env, Run: runC19Z})
	hx.Register(&hx.Stream{Name: "c19vec", Gen: genC19Vec, Run: runC19Vec})
}

// the converted shipped coefficients, obtained on first use (NOT at package initialisation: the child
// process of stream c19fresh must be the first caller of tuning.EngineCoeffs in its process)
var (
	c19CoeffsOnce sync.Once
	c19CoeffsVal  tuning.EngineRep
)

func c19Shipped() tuning.EngineRep {
	c19CoeffsOnce.Do(func() { c19CoeffsVal = tuning.EngineCoeffs() })
	return c19CoeffsVal
}

func noHash(b *board.Board) *board.Board {
	s := b.VerifSnapshot()
	s.Hashes = nil
	return board.VerifRestore(s)
}

func runC19Env(a hx.Args) string {
	b, _ := a.Board(0)
	bn := noHash(b)
	fen := b.FEN()
	var bp board.Board
	fenok := board.ParseFEN(&bp, []byte(fen)) == nil
	var be board.Board
	res := 0.0
	epdok := epd.Parse([]byte(fen+"; 0.5"), &be, &res) == nil
	if !fenok {
		bp = *bn
	}
	if !epdok {
		be = *bn
	}
	er := c19Shipped() // a private copy per evaluation (EngineRep is a value type)
	out := &hx.Nums{}
	out.Int(int(b.STM), int(b.FiftyCnt)).B(fenok && epdok)
	out.Int(int(eval.Eval(b, &eval.Coefficients)), int(eval.Eval(bn, &eval.Coefficients)), int(eval.Eval(&bp, &eval.Coefficients)))
	raw := eval.Eval(bn, (*eval.CoeffSet[float64])(&er))
	// the second of the three tuner evaluations comes from a coefficient object with the life of the
	// tuner's own: it starts as the zero value, is evaluated, receives the shipped values through
	// SetVector, has one parameter nudged and restored through the TunedParams pointers with an
	// evaluation in between (the finite-difference loop) - and then has to evaluate like a fresh copy
	// of the shipped coefficients (seeded change C19-H cached tables derived from the coefficients on
	// first use). The judge demands that the three evaluations are equal.
	live := c19LiveRep(bn, a.Len())
	out.U(math.Float64bits(raw), math.Float64bits(er.Eval(bn)), math.Float64bits(live.Eval(&bp)), math.Float64bits(er.Eval(&be)))
	return out.String()
}

func c19LiveRep(b *board.Board, salt int) *tuning.EngineRep {
	all := c19Names()
	all = all[:len(all)-1]
	live := &tuning.EngineRep{}
	live.Eval(b)
	sh := c19Shipped()
	live.SetVector(sh.ToVector(all), all)
	k := 0
	for i, p := range live.TunedParams(all) {
		if i == salt%c19Floats {
			*p += 1.5
			live.Eval(b)
			*p -= 1.5
			k++
			break
		}
	}
	_ = k
	return live
}

func runC19Z(a hx.Args) string {
	b, _ := a.Board(0)
	bn := noHash(b)
	v := int(eval.Eval(bn, &eval.Coefficients))
	return (&hx.Nums{}).Int(v, v, 1).String()
}

// genC19Env: the shared position stream (G1/G2/G4) plus evaluation-specific families: bare kings and
// insufficient material, KNBvK, heavy promoted material, and overridden halfmove clocks 0..150
// (the FEN parser stops at 100; the evaluation is also reached by play beyond that).
func genC19Env(rng *hx.Rng, n int, tier string, emit func(hx.Input)) {
	cnt := 0
	put := func(b *board.Board, desc, kind string) {
		if cnt >= n {
			return
		}
		tags := append(posgen.Tags(b), kind)
		switch {
		case eval.VerifInsufficientMat(b):
			tags = append(tags, "insufficient-material")
		case eval.KNBvK(b):
			tags = append(tags, "KNBvK")
		}
		switch f := int(b.FiftyCnt); {
		case f == 0:
			tags = append(tags, "fifty=0")
		case f <= 50:
			tags = append(tags, "fifty<=50")
		case f <= 100:
			tags = append(tags, "fifty<=100")
		default:
			tags = append(tags, "fifty>100")
		}
		if b.STM == Black {
			tags = append(tags, "black-to-move")
		}
		emit(hx.Input{In: (&hx.Nums{}).BoardIn(b).String(), Desc: desc, Tags: tags,
			NonTrivial: !eval.VerifInsufficientMat(b), Key: b.FEN()})
		cnt++
	}
	special := []string{
		"4k3/8/8/8/8/8/8/4K3 w - - 0 1", "4k3/8/8/8/8/8/8/4K3 b - - 0 1",
		"8/8/8/8/8/5k2/8/4K2N w - - 0 1", "8/8/8/8/8/5k2/8/4K1BN b - - 0 1",
		"8/8/8/8/8/2k5/8/KBN5 w - - 0 1", "8/8/8/8/8/2k5/8/KBN5 b - - 0 1",
		"kbn5/8/2K5/8/8/8/8/8 w - - 0 1", "kbn5/8/2K5/8/8/8/8/8 b - - 0 1",
		"7k/8/8/8/3K4/8/8/5BN1 w - - 40 90", "5bn1/8/8/3K4/8/8/8/7k b - - 99 90",
		"4k3/8/8/8/8/8/8/2B1KB2 w - - 0 1", "4k3/8/8/8/8/8/8/1NB1KN2 w - - 0 1",
		"2b1k3/8/8/8/8/8/8/2B1K3 w - - 0 1", "2b1k1n1/8/8/8/8/8/8/2B1K3 w - - 0 1",
		"Q7/Q7/Q7/Q7/Q7/Q6k/Q7/QK6 w - - 0 1", "Q7/Q7/Q7/Q7/Q7/Q6k/Q7/QK6 b - - 0 1",
		"QQQQQQQQ/8/8/8/8/7k/8/QK4RR w - - 0 1", "qqqqqqqq/8/8/8/8/7K/8/qk4rr w - - 0 1",
		"QQQQ1RRR/8/2k5/8/8/8/5BBN/1K3BNN w - - 0 1", "qqqq1rrr/8/2K5/8/8/8/5bbn/1k3bnn b - - 0 1",
		"rnbqkbnr/pppppppp/8/8/8/8/PPPPPPPP/RNBQKBNR w KQkq - 0 1",
		"rnbqkbnr/pppppppp/8/8/8/8/PPPPPPPP/RNBQKBNR b KQkq - 0 1",
		"r4rk1/1pp1qppp/p1np1n2/2b1p1B1/2B1P1b1/P1NP1N2/1PP1QPPP/R4RK1 w - - 0 10",
		"6k1/5ppp/8/8/8/8/Q4PPP/3R2K1 w - - 0 1", "3r2k1/q4ppp/8/8/8/8/5PPP/6K1 b - - 0 1",
		"8/P7/8/8/8/8/7k/K7 w - - 0 1", "8/7p/8/8/8/8/k7/7K b - - 0 1",
		"4k3/8/8/3P4/8/8/8/R3K3 w - - 0 1", "4k3/8/8/3P4/2P5/8/8/4K1N1 w - - 0 1",
	}
	for _, f := range special {
		if b, err := board.FromFEN(f); err == nil {
			put(b, "special fen "+f, "special")
		}
	}
	posgen.Stream(rng, n, func(p posgen.Pos) {
		put(p.B, p.Desc(), p.Kind)
		if p.B.EnPassant == 0 && rng.Chance(0.35) {
			s := p.B.VerifSnapshot()
			switch rng.Intn(4) {
			case 0:
				s.FiftyCnt = int(rng.Range(90, 100))
			case 1:
				s.FiftyCnt = int(rng.Range(101, 150))
			default:
				s.FiftyCnt = int(rng.Range(1, 100))
			}
			b := board.VerifRestore(s)
			put(b, fmt.Sprintf("%s ; halfmove clock set to %d", p.Desc(), s.FiftyCnt), p.Kind+"+clock")
		}
	})
}

// ------------------------------------------------------------------------------------------------
// c19vec

// The coefficient struct as raw memory: eval.CoeffSet[float64] is a struct of (nested) arrays of
// float64, so it is laid out as consecutive float64 in declaration order.  Everything the harness
// reports about "which coefficient" is a POSITION in this memory image - obtained without reflect and
// without walking fields, i.e. independently of how vector.go addresses coefficients.
const c19Floats = int(unsafe.Sizeof(tuning.EngineRep{}) / 8)

func c19Mem(e *tuning.EngineRep) []float64 {
	return unsafe.Slice((*float64)(unsafe.Pointer(e)), c19Floats)
}

func c19Pos(e *tuning.EngineRep, p *float64) int {
	return int((uintptr(unsafe.Pointer(p)) - uintptr(unsafe.Pointer(e))) / 8)
}

// names of the target table: 0..nf-1 = fields of eval.CoeffSet[float64] in declaration order,
// nf = a name that is not a field
func c19Names() []string {
	t := reflect.TypeOf(eval.CoeffSet[float64]{})
	var ns []string
	for i := 0; i < t.NumField(); i++ {
		ns = append(ns, t.Field(i).Name)
	}
	return append(ns, "NoSuchField")
}

func c19Targets(a hx.Args) []string {
	ns := c19Names()
	var ts []string
	for i := 3; i < 3+a.Int(2) && i < a.Len(); i++ {
		k := a.Int(i)
		if k >= 0 && k < len(ns) {
			ts = append(ts, ns[k])
		}
	}
	return ts
}

func f2i(x float64) int64 {
	if x != math.Trunc(x) || math.Abs(x) > 1e15 {
		return -999999999 // not an integer
	}
	return int64(x)
}

// runC19Vec:
//
//	input = [mode k nt t1 .. tnt]   (t = index into the name table: fields in declaration order, then an unknown name)
//	mode 0: e := zero struct; N := len(e.ToVector(ts)); v[i] := 2i+1; e.SetVector(v, ts)
//	        -> [N] ++ memory image of e (all coefficients) ++ [len R] ++ R (= e.ToVector(ts) read back)
//	           ++ [np] ++ np triples (index, memory position of the pointer, value behind the pointer)
//	           yielded by e.TunedParams(ts)
//	mode 1: the finite-difference loop of client.go on e := EngineCoeffs():
//	        for i, ptr := range e.TunedParams(ts) { if i == k { *ptr += 1 } } (no restore)
//	        -> [N] ++ [nc] ++ nc pairs (memory position, delta) of the coefficients that changed
//	           ++ [nv] ++ nv pairs (vector index, delta) of e.ToVector(ts) entries that changed
//	           ++ [restored], restored = 1 when the client's perturb/restore loop over ALL i leaves e unchanged
//	           and NullVector(ts) has N entries
//	mode 3: mode 0 with the comparisons done on the Go side:
//	        -> [N readback_ok tunedparams_ok written_ok nr] ++ nr triples (first index, first memory position, length)
//	           of the maximal runs of consecutive memory positions yielded by TunedParams
//	mode 4: LIVE ITERATORS.  The target tokens hold two or three selections separated by 63.  Set j is a private
//	        coefficient set whose cell at memory position p holds (j+1)*10^6 + p.  All iterators
//	        it_j := e_j.TunedParams(sel_j) are obtained UP FRONT and then advanced according to k:
//	          k=0 one after the other; k=1 in lockstep (iter.Pull2, one step each per round);
//	          k=2 nested: three steps of it_0, and inside each step a NEW iterator of every other set is
//	              requested and walked to the end; k=3 interleaved with strides 2,1,3 per round (iter.Pull2).
//	        Every yielded pointer is located by its ADDRESS (which set, which memory position) and marked
//	        (cell := cell + 0.5, idempotent).
//	        -> [nrec] ++ nrec records (j, yielded index, set the pointer points into or -1, memory position,
//	           1 if the value behind the pointer is entry <index> of e_j.ToVector(sel_j)) ++ for every set j:
//	           [n_j] ++ the memory positions of the cells of set j that were written
//	mode 5: [5 k nt t..]: k workers (goroutines), each with a private EngineCoeffs() copy, each running the
//	        perturb/evaluate/restore loop of client.go over TunedParams(targets) three times, concurrently
//	        -> per worker [1 if every yielded pointer lay inside its own set, 1 if its set is unchanged afterwards,
//	           number of parameters seen per pass]
//	mode 2: memory image of EngineCoeffs() (the float conversion of the shipped coefficients)
func runC19Vec(a hx.Args) string {
	out := &hx.Nums{}
	switch a.Int(0) {
	case 0:
		ts := c19Targets(a)
		e := tuning.EngineRep{}
		n := len(e.ToVector(ts).VectorToSlice())
		v := make([]float64, n)
		for i := range v {
			v[i] = float64(2*i + 1)
		}
		e.SetVector(tuning.VectorFromSlice(v), ts)
		out.Int(n)
		for _, x := range c19Mem(&e) {
			out.I(f2i(x))
		}
		r := e.ToVector(ts).VectorToSlice()
		out.Int(len(r))
		for _, x := range r {
			out.I(f2i(x))
		}
		var tp []int64
		for i, p := range e.TunedParams(ts) {
			tp = append(tp, int64(i), int64(c19Pos(&e, p)), f2i(*p))
		}
		out.Int(len(tp) / 3)
		out.I(tp...)
	case 1:
		k := a.Int(1)
		ts := c19Targets(a)
		e := tuning.EngineCoeffs()
		base := append([]float64(nil), c19Mem(&e)...)
		v0 := append([]float64(nil), e.ToVector(ts).VectorToSlice()...)
		for i, p := range e.TunedParams(ts) {
			if i == k {
				*p += 1
			}
		}
		out.Int(len(v0))
		var ch []int64
		for i, x := range c19Mem(&e) {
			if x != base[i] {
				ch = append(ch, int64(i), f2i(x-base[i]))
			}
		}
		out.Int(len(ch) / 2)
		out.I(ch...)
		ch = ch[:0]
		for i, x := range e.ToVector(ts).VectorToSlice() {
			if x != v0[i] {
				ch = append(ch, int64(i), f2i(x-v0[i]))
			}
		}
		out.Int(len(ch) / 2)
		out.I(ch...)
		// the client's loop shape: perturb, (evaluate), restore - for every index
		e2 := tuning.EngineCoeffs()
		grads := tuning.NullVector(ts)
		ok := len(grads.VectorToSlice()) == len(v0)
		seen := 0
		for i, p := range e2.TunedParams(ts) {
			old := *p
			*p += tuning.Epsilon
			if i < len(v0) {
				grads.ModifyElem(i, func(g float64) float64 { return g + 1 })
			}
			*p = old
			seen++
		}
		for i, x := range c19Mem(&e2) {
			if x != base[i] {
				ok = false
			}
		}
		for _, g := range grads.VectorToSlice() {
			if g != 1 {
				ok = false
			}
		}
		out.B(ok && seen == len(v0))
	case 2:
		e := tuning.EngineCoeffs()
		for _, x := range c19Mem(&e) {
			out.I(f2i(x))
		}
	case 3:
		// mode 0 in compact form (for the exhaustive sweep over all target subsets)
		ts := c19Targets(a)
		e := tuning.EngineRep{}
		n := len(e.ToVector(ts).VectorToSlice())
		v := make([]float64, n)
		for i := range v {
			v[i] = float64(2*i + 1)
		}
		e.SetVector(tuning.VectorFromSlice(v), ts)
		mem := c19Mem(&e)
		r := e.ToVector(ts).VectorToSlice()
		readOK := len(r) == n
		for i := 0; readOK && i < n; i++ {
			readOK = r[i] == v[i]
		}
		tpOK := true
		var runs []int64 // (first index, first position, length) of maximal runs of consecutive positions
		cnt, prev := 0, -2
		for i, p := range e.TunedParams(ts) {
			pos := c19Pos(&e, p)
			tpOK = tpOK && i == cnt && i < n && *p == v[i] && mem[pos] == v[i]
			if pos == prev+1 && len(runs) > 0 {
				runs[len(runs)-1]++
			} else {
				runs = append(runs, int64(i), int64(pos), 1)
			}
			prev = pos
			cnt++
		}
		nz := 0
		for _, x := range mem {
			if x != 0 {
				nz++
			}
		}
		out.Int(n).B(readOK).B(tpOK && cnt == n).B(nz == n).Int(len(runs) / 3)
		out.I(runs...)
	case 4:
		c19Live(a, out)
	case 5:
		c19Workers(a, out)
	}
	return out.String()
}

func genC19Vec(rng *hx.Rng, n int, tier string, emit func(hx.Input)) {
	ns := c19Names()
	nf := len(ns) - 1
	ix := map[string]int{}
	for i, s := range ns {
		ix[s] = i
	}
	cnt := 0
	put := func(mode int, k int, ts []int, kind string) {
		nums := (&hx.Nums{}).Int(mode, k, len(ts))
		nums.Int(ts...)
		var names []string
		for _, t := range ts {
			if t == c19Sep {
				names = append(names, "|")
			} else {
				names = append(names, ns[t])
			}
		}
		d := fmt.Sprintf("mode %d targets [%s]", mode, strings.Join(names, " "))
		if mode == 4 || mode == 5 {
			d += fmt.Sprintf(" k=%d", k)
		}
		if mode == 1 {
			d += fmt.Sprintf(" perturb index %d", k)
		}
		emit(hx.Input{In: nums.String(), Desc: d, Tags: []string{kind, fmt.Sprintf("mode%d", mode)},
			NonTrivial: mode == 2 || len(ts) > 0})
		cnt++
	}
	size := func(ts []int) int {
		var names []string
		for _, t := range ts {
			names = append(names, ns[t])
		}
		return len(tuning.EngineRep{}.ToVector(names).VectorToSlice())
	}
	var def []int
	for _, s := range tuning.DefaultTargets {
		def = append(def, ix[s]) // an unknown default name would map to 0; the generated default_targets shows it
	}
	all := make([]int, nf)
	for i := range all {
		all[i] = i
	}
	put(2, 0, nil, "engine-coeffs")
	put(0, 0, def, "default-targets")
	put(0, 0, all, "all-fields")
	put(0, 0, nil, "no-target")
	put(0, 0, []int{nf}, "unknown-name")
	for i := 0; i < nf; i++ {
		put(0, 0, []int{i}, "single-field")
	}
	put(3, 0, def, "default-targets")
	put(3, 0, []int{0, 2, 3, nf - 1}, "compact")
	// iterators alive at the same time: two or three private sets, equal or different selections
	join := func(sels ...[]int) []int {
		var ts []int
		for i, s := range sels {
			if i > 0 {
				ts = append(ts, c19Sep)
			}
			ts = append(ts, s...)
		}
		return ts
	}
	kingSafety := []int{ix["KingAttackPieces"], ix["SafeChecks"], ix["KingShelter"]}
	pawns := []int{ix["ProtectedPasser"], ix["PasserKingDist"], ix["PasserRank"], ix["DoubledPawns"], ix["IsolatedPawns"]}
	mob := []int{ix["MobilityKnight"], ix["MobilityBishop"], ix["MobilityRook"]}
	for pat := 0; pat < 4; pat++ {
		put(4, pat, join(kingSafety, pawns), "live-iterators")
		put(4, pat, join(pawns, pawns, mob), "live-iterators")
	}
	put(4, 1, join(def, def), "live-iterators")
	put(4, 2, join(pawns, def, kingSafety), "live-iterators")
	put(5, 8, def, "live-workers")
	put(5, 4, kingSafety, "live-workers")
	// the finite-difference indexing with the default targets: first, last, field boundaries, random
	nd := size(def)
	for _, k := range []int{0, 1, 63, 64, 767, 768, nd - 1, nd, nd + 5} {
		put(1, k, def, "fd-default")
	}
	if tier == "thorough" {
		// every subset of the fields (mode 0), in field order
		for m := 0; m < 1<<nf; m++ {
			var ts []int
			for i := 0; i < nf; i++ {
				if m>>i&1 == 1 {
					ts = append(ts, i)
				}
			}
			put(3, 0, ts, "every-subset")
		}
		// every index of the default target vector (mode 1)
		for k := 0; k < nd; k++ {
			put(1, k, def, "fd-default-every-index")
		}
	}
	for cnt < n {
		var ts []int
		p := []float64{0.15, 0.5, 0.85}[rng.Intn(3)]
		for i := 0; i < nf; i++ {
			if rng.Chance(p) {
				ts = append(ts, i)
			}
		}
		// target lists are sets: order, duplicates and unknown names must not matter
		for i := len(ts) - 1; i > 0; i-- {
			j := rng.Intn(i + 1)
			ts[i], ts[j] = ts[j], ts[i]
		}
		if len(ts) > 0 && rng.Chance(0.2) {
			ts = append(ts, ts[rng.Intn(len(ts))])
		}
		if rng.Chance(0.2) {
			ts = append(ts, nf)
		}
		kind := "random-subset"
		if rng.Chance(0.15) {
			// random live-iterator case: 2-3 random selections, random pattern
			var sels [][]int
			for k := 2 + rng.Intn(2); k > 0; k-- {
				var sel []int
				for i := 0; i < nf; i++ {
					if rng.Chance(0.3) {
						sel = append(sel, i)
					}
				}
				sels = append(sels, sel)
			}
			put(4, rng.Intn(4), join(sels...), "live-iterators")
			continue
		}
		if rng.Chance(0.4) {
			put(0, 0, ts, kind)
		} else if rng.Chance(0.3) {
			put(3, 0, ts, kind)
		} else {
			sz := size(ts)
			k := 0
			if sz > 0 {
				k = rng.Intn(sz)
			}
			if rng.Chance(0.1) {
				k = sz + rng.Intn(3)
			}
			put(1, k, ts, kind)
		}
	}
}

// ------------------------------------------------------------------------------------------------
// c19vec modes 4 and 5: parameter iterations that are alive at the same time

const c19Sep = 63

func c19Selections(a hx.Args) [][]string {
	ns := c19Names()
	sels := [][]string{nil}
	for i := 3; i < 3+a.Int(2) && i < a.Len(); i++ {
		k := a.Int(i)
		if k == c19Sep {
			sels = append(sels, nil)
		} else if k >= 0 && k < len(ns) {
			sels[len(sels)-1] = append(sels[len(sels)-1], ns[k])
		}
	}
	return sels
}

func c19Live(a hx.Args, out *hx.Nums) {
	pattern := a.Int(1)
	sels := c19Selections(a)
	n := len(sels)
	sets := make([]*tuning.EngineRep, n)
	vecs := make([][]float64, n)
	base := func(j, p int) float64 { return float64((j+1)*1000000 + p) }
	for j := range sets {
		sets[j] = &tuning.EngineRep{}
		for p := range c19Mem(sets[j]) {
			c19Mem(sets[j])[p] = base(j, p)
		}
		vecs[j] = append([]float64(nil), sets[j].ToVector(sels[j]).VectorToSlice()...)
	}
	locate := func(ptr *float64) (int, int) {
		for k, e := range sets {
			lo := uintptr(unsafe.Pointer(e))
			x := uintptr(unsafe.Pointer(ptr))
			if x >= lo && x < lo+uintptr(c19Floats)*8 {
				return k, int((x - lo) / 8)
			}
		}
		return -1, 0
	}
	var rec []int64
	visit := func(j, i int, ptr *float64) {
		k, p := locate(ptr)
		ok := i >= 0 && i < len(vecs[j]) && math.Floor(*ptr) == vecs[j][i]
		var okv int64
		if ok {
			okv = 1
		}
		rec = append(rec, int64(j), int64(i), int64(k), int64(p), okv)
		if k >= 0 {
			*ptr = base(k, p) + 0.5
		}
	}
	// all iterators are requested before any of them is advanced
	its := make([]iter.Seq2[int, *float64], n)
	for j := range its {
		its[j] = sets[j].TunedParams(sels[j])
	}
	switch pattern {
	case 0:
		for j := range its {
			for i, ptr := range its[j] {
				visit(j, i, ptr)
			}
		}
	case 1, 3:
		stride := make([]int, n)
		for j := range stride {
			stride[j] = 1
			if pattern == 3 {
				stride[j] = []int{2, 1, 3}[j%3]
			}
		}
		next := make([]func() (int, *float64, bool), n)
		for j := range its {
			nx, stop := iter.Pull2(its[j])
			defer stop()
			next[j] = nx
		}
		for progressed := true; progressed; {
			progressed = false
			for j := range next {
				for s := 0; s < stride[j]; s++ {
					if i, ptr, ok := next[j](); ok {
						visit(j, i, ptr)
						progressed = true
					}
				}
			}
		}
	case 2:
		steps := 0
		for i, ptr := range its[0] {
			visit(0, i, ptr)
			for j := 1; j < n; j++ {
				for i2, p2 := range sets[j].TunedParams(sels[j]) {
					visit(j, i2, p2)
				}
			}
			steps++
			if steps == 3 {
				break
			}
		}
	}
	out.Int(len(rec) / 5)
	out.I(rec...)
	for j, e := range sets {
		var ch []int64
		for p, x := range c19Mem(e) {
			if x != base(j, p) {
				ch = append(ch, int64(p))
			}
		}
		out.Int(len(ch))
		out.I(ch...)
	}
}

func c19Workers(a hx.Args, out *hx.Nums) {
	k := a.Int(1)
	ts := c19Targets(a)
	type result struct {
		inside, unchanged bool
		seen              int
	}
	res := make([]result, k)
	start := make(chan struct{})
	var wg sync.WaitGroup
	for w := 0; w < k; w++ {
		wg.Add(1)
		go func(w int) {
			defer wg.Done()
			e := tuning.EngineCoeffs()
			for p := range c19Mem(&e) {
				c19Mem(&e)[p] += float64(w)
			}
			before := append([]float64(nil), c19Mem(&e)...)
			lo := uintptr(unsafe.Pointer(&e))
			r := result{inside: true}
			<-start
			for pass := 0; pass < 3; pass++ {
				r.seen = 0
				for _, ptr := range e.TunedParams(ts) {
					x := uintptr(unsafe.Pointer(ptr))
					if x < lo || x >= lo+uintptr(c19Floats)*8 {
						r.inside = false
					}
					old := *ptr
					*ptr += tuning.Epsilon
					*ptr = old
					r.seen++
				}
			}
			r.unchanged = true
			for p, x := range c19Mem(&e) {
				if x != before[p] {
					r.unchanged = false
				}
			}
			res[w] = r
		}(w)
	}
	close(start)
	wg.Wait()
	for _, r := range res {
		out.B(r.inside).B(r.unchanged).Int(r.seen)
	}
}
