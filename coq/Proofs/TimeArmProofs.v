(* Proofs about the arming model of Model/TimeArm.v (handleGo and its interrupt goroutine). *)
From Coq Require Import ZArith Lia Bool List.
Import ListNotations.
From Chess3 Require Import Base.Word Gen.TimeConsts Model.TimeCtl Model.TimeArm Proofs.TimeCtlProofs.
Open Scope Z_scope.

(* the mover's hard limit of a case *)
Definition case_hard (c : arm_case) : Z := hard_limit (ac_tc c) (ac_color c).

(* a search whose clock gets started: not a ponder search, or the ponderhit comes before `stop` *)
Definition clock_started (c : arm_case) : Prop := pondering c = true -> ac_phit c < ac_stop c.

(* two cases in which the GUI told the engine the same about the MOVER and sent ponderhit and stop
   at the same instants; the opponent's clock and increment, the depth of the search in its tree and
   the traffic (number, spacing, kind, origin) are arbitrary *)
Definition same_mover_view (c c' : arm_case) : Prop :=
  ac_color c = ac_color c'
  /\ remaining (ac_tc c) (ac_color c) = remaining (ac_tc c') (ac_color c)
  /\ increment (ac_tc c) (ac_color c) = increment (ac_tc c') (ac_color c)
  /\ mtime (ac_tc c) = mtime (ac_tc c')
  /\ ac_popt c = ac_popt c' /\ ac_ptok c = ac_ptok c'
  /\ ac_phit c = ac_phit c' /\ ac_stop c = ac_stop c'.

(* soft target, ponder channel, ponderhit instant, abort delay, aborted by the timer *)
Definition deadline_view (c : arm_case) : list Z := firstn 5 (observe c).

Lemma armed_deadline c :
  timed_mode (ac_tc c) (ac_color c) = true -> 0 <= case_hard c -> clock_started c ->
  clock_start c + case_hard c <= ac_stop c ->
  abort_delay c = case_hard c /\ by_timer c = true.
Proof.
  unfold case_hard, clock_started, abort_delay, by_timer, search_end, timer_fires, clock_start,
    hit_delivered, timer_ms.
  intros Ht Hh Hs Hle. rewrite Ht.
  destruct (pondering c) eqn:Ep; cbn [andb] in *.
  - assert (E : (ac_phit c <? ac_stop c) = true) by (apply Z.ltb_lt; auto).
    rewrite E in *. rewrite Z.max_r by lia.
    assert (E2 : (ac_phit c + hard_limit (ac_tc c) (ac_color c) <=? ac_stop c) = true) by (apply Z.leb_le; lia).
    rewrite E2. split; [lia|reflexivity].
  - rewrite Z.max_r by lia.
    assert (E2 : (hard_limit (ac_tc c) (ac_color c) <=? ac_stop c) = true) by (apply Z.leb_le; lia).
    rewrite E2. split; [lia|reflexivity].
Qed.

Lemma armed_within_clock c :
  mtime (ac_tc c) = 0 -> clock_ok (ac_tc c) (ac_color c) -> clock_started c ->
  clock_start c + remaining (ac_tc c) (ac_color c) <= ac_stop c ->
  0 < abort_delay c <= remaining (ac_tc c) (ac_color c)
  /\ (remaining (ac_tc c) (ac_color c) > TimeSafetyMargin ->
      abort_delay c <= remaining (ac_tc c) (ac_color c) - TimeSafetyMargin)
  /\ by_timer c = true.
Proof.
  intros Hm Hok Hs Hle.
  destruct (hard_bounds _ _ Hm Hok) as (Hb & Hmargin & _).
  assert (Ht : timed_mode (ac_tc c) (ac_color c) = true).
  { apply timer_armed. left. destruct Hok as [Hr _]. lia. }
  assert (Hd : abort_delay c = case_hard c /\ by_timer c = true).
  { apply armed_deadline; unfold case_hard; auto; lia. }
  destruct Hd as [Hd Hby]. rewrite Hd. unfold case_hard.
  split; [lia|]. split; [exact Hmargin|exact Hby].
Qed.

Lemma armed_movetime c :
  0 < mtime (ac_tc c) -> clock_started c -> clock_start c + mtime (ac_tc c) <= ac_stop c ->
  abort_delay c = mtime (ac_tc c) /\ by_timer c = true /\ nth 0 (observe c) 0 = mtime (ac_tc c).
Proof.
  intros Hm Hs Hle.
  destruct (movetime_fixed (ac_tc c) (ac_color c) Hm) as [Hsoft Hhard].
  assert (Ht : timed_mode (ac_tc c) (ac_color c) = true) by (apply timer_armed; right; exact Hm).
  assert (Hd : abort_delay c = case_hard c /\ by_timer c = true).
  { apply armed_deadline; unfold case_hard; auto; rewrite Hhard; lia. }
  destruct Hd as [Hd Hby]. split; [|split].
  - rewrite Hd. unfold case_hard. exact Hhard.
  - exact Hby.
  - unfold observe. cbn [nth]. rewrite Ht. exact Hsoft.
Qed.

Lemma arming_own_clock_only c c' : same_mover_view c c' -> deadline_view c = deadline_view c'.
Proof.
  intros (Hc & Hr & Hi & Hm & Hpo & Hpt & Hph & Hst).
  destruct (own_clock_only (ac_tc c) (ac_tc c') (ac_color c) Hr Hi Hm) as (Hh & Hs & Ht).
  unfold deadline_view, observe. cbn [firstn].
  assert (Hp : pondering c = pondering c') by (unfold pondering; rewrite Hpo, Hpt; reflexivity).
  assert (Hd : hit_delivered c = hit_delivered c') by (unfold hit_delivered; rewrite Hp, Hph, Hst; reflexivity).
  assert (Htm : timer_ms c = timer_ms c') by (unfold timer_ms; rewrite <- Hc, Hh; reflexivity).
  assert (Hf : timer_fires c = timer_fires c').
  { unfold timer_fires. rewrite <- Hc, Ht, Hp, Hd, Hph, Htm. reflexivity. }
  assert (He : search_end c = search_end c') by (unfold search_end; rewrite Hf, Hst; reflexivity).
  assert (Hb : by_timer c = by_timer c') by (unfold by_timer; rewrite Hf, Hst; reflexivity).
  assert (Hcs : clock_start c = clock_start c') by (unfold clock_start; rewrite Hd, Hph; reflexivity).
  unfold abort_delay. rewrite <- Hc, Ht, Hs, Hp, Hd, Hph, He, Hcs, Hb. reflexivity.
Qed.
