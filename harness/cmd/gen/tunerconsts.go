package main

// Translator piece for C20: constants of the tuner's shuffle / chunker / batching.
//
//   - NumLinesInBatch, NumChunksInBatch, backingBytes: evaluated by the Go compiler (exported
//     constants and the verif hook epd.VerifBackingBytes).
//   - size of the bufio.Reader that ByLines reads through: asked from bufio itself.
//   - the literals inside feistel / roundFunc (number of rounds, key increment, shifts,
//     multiplier) are local to the functions; they are read from the source text of
//     tools/tuner/epd/chunker.go with go/parser + go/printer. When the statements no longer have
//     the shape the hand written model transliterates, the constants are emitted as 0 and
//     RoundShapeOk = false: the build stays alive and the correspondence stream reports the
//     difference (the Feistel theorems hold for an arbitrary round function anyway).
//
// gen runs with the repository root as working directory.

import (
	"bufio"
	"bytes"
	"go/ast"
	"go/parser"
	"go/printer"
	"go/token"
	"regexp"
	"strconv"
	"strings"

	"github.com/paulsonkoly/chess-3/tools/tuner/epd"
	"github.com/paulsonkoly/chess-3/tools/tuner/tuning"
)

func funcStmts(path, name string) []string {
	fset := token.NewFileSet()
	f, err := parser.ParseFile(fset, path, nil, 0)
	if err != nil {
		return nil
	}
	for _, d := range f.Decls {
		fd, ok := d.(*ast.FuncDecl)
		if !ok || fd.Name.Name != name || fd.Body == nil {
			continue
		}
		var out []string
		for _, s := range fd.Body.List {
			var b bytes.Buffer
			if printer.Fprint(&b, fset, s) != nil {
				return nil
			}
			out = append(out, strings.Join(strings.Fields(b.String()), " "))
		}
		return out
	}
	return nil
}

func parseLit(s string) (uint64, bool) {
	v, err := strconv.ParseUint(strings.ReplaceAll(s, "_", ""), 0, 64)
	return v, err == nil
}

func init() {
	generators = append(generators, func() {
		f := newFile("TunerConsts.v", "From Coq Require Import ZArith NArith.")
		f.p("Definition NumLinesInBatch : Z := %d%%Z.\n", int64(tuning.NumLinesInBatch))
		f.p("Definition NumChunksInBatch : Z := %d%%Z.\n", int64(tuning.NumChunksInBatch))
		f.p("Definition BackingBytes : Z := %d%%Z.\n", int64(epd.VerifBackingBytes))
		f.p("Definition LineBufSize : Z := %d%%Z.\n", int64(bufio.NewReader(strings.NewReader("")).Size()))

		const src = "tools/tuner/epd/chunker.go"
		lit := `(0[xX][0-9a-fA-F_]+|[0-9_]+)`
		ok := true
		var sh1, mul, sh2, gold, rounds uint64

		// roundFunc: z := x + k; z ^= z >> S1; z *= M; z ^= z >> S2; return z
		rf := funcStmts(src, "roundFunc")
		pats := []string{`^z := x \+ k$`, `^z \^= z >> ` + lit + `$`, `^z \*= ` + lit + `$`, `^z \^= z >> ` + lit + `$`, `^return z$`}
		if len(rf) != len(pats) {
			ok = false
		} else {
			var got []uint64
			for i, p := range pats {
				m := regexp.MustCompile(p).FindStringSubmatch(rf[i])
				if m == nil {
					ok = false
					break
				}
				if len(m) > 1 {
					v, good := parseLit(m[1])
					ok = ok && good
					got = append(got, v)
				}
			}
			if ok && len(got) == 3 {
				sh1, mul, sh2 = got[0], got[1], got[2]
			} else {
				ok = false
			}
		}

		// feistel: const rounds = R ... k := seed + uint64(i)*G
		fs := strings.Join(funcStmts(src, "feistel"), "\n")
		if m := regexp.MustCompile(`(?m)^const rounds = ` + lit + `$`).FindStringSubmatch(fs); m != nil {
			v, good := parseLit(m[1])
			ok, rounds = ok && good, v
		} else {
			ok = false
		}
		if m := regexp.MustCompile(`k := seed \+ uint64\(i\)\*` + lit).FindStringSubmatch(fs); m != nil {
			v, good := parseLit(m[1])
			ok, gold = ok && good, v
		} else {
			ok = false
		}
		if !ok {
			sh1, mul, sh2, gold, rounds = 0, 0, 0, 0, 0
		}
		f.p("(* literals of feistel / roundFunc, read from %s *)\n", src)
		f.p("Definition RoundShapeOk : bool := %v.\n", ok)
		f.p("Definition FeistelRounds : N := %d%%N.\n", rounds)
		f.p("Definition FeistelGold : N := %d%%N.\n", gold)
		f.p("Definition RoundShift1 : N := %d%%N.\n", sh1)
		f.p("Definition RoundMul : N := %d%%N.\n", mul)
		f.p("Definition RoundShift2 : N := %d%%N.\n", sh2)
	})
}
