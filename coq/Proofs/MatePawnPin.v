(* C09, soundness of the "maybe pinned pawns" exit of IsStalemate: for a pawn that is the first man
   seen from the king along some line, a single push (pin test with the pawn moved to its target) or a
   capture (pin test that forgives a diagonal pinner standing on a capture target: it can be taken). *)
From Coq Require Import NArith ZArith List Bool Lia.
From Chess3 Require Import Base.Bits Model.Types Spec.Geometry Model.Att Model.BoardDef Model.Board
     Model.Movegen Model.Mate Spec.Chess Spec.Rep Proofs.MateGeom Proofs.MateAbs Proofs.MateKing
     Proofs.MateMove Proofs.MateCapture Proofs.MateBlockGeom Proofs.MateBlock Proofs.MateStale
     Proofs.MatePinGeom Proofs.MatePin.
Import ListNotations.
Open Scope N_scope.

(* one step forward of a single pawn *)
Definition push_fwd_check (c : color) (d : N) : bool :=
  forallb (fun t => (t <? 64) && (t =? fwd c d) && negb (rank_n d =? last_rank c) && negb (t =? d))
          (bits_of (pawn_single_push_moves (bit d) c)).
Lemma push_fwd_fact c d t : d < 64 -> N.testbit (pawn_single_push_moves (bit d) c) t = true ->
  t < 64 /\ t = fwd c d /\ rank_n d <> last_rank c /\ t <> d.
Proof.
  intros Hd H.
  assert (C : push_fwd_check c d = true).
  { clear H. revert d Hd. destruct c; [apply (forall_sq (push_fwd_check White))|apply (forall_sq (push_fwd_check Black))]; vm_compute; reflexivity. }
  unfold push_fwd_check in C. rewrite forallb_forall in C. specialize (C t (proj2 (bits_of_spec _ _) H)).
  repeat (apply andb_prop in C; destruct C as [C ?]).
  repeat match goal with H : negb _ = true |- _ => apply negb_true_iff, N.eqb_neq in H end.
  apply N.ltb_lt in C. match goal with H : (t =? fwd c d) = true |- _ => apply N.eqb_eq in H end. tauto.
Qed.

Lemma nonzero_some x : negb (x =? 0) = true -> exists u, N.testbit x u = true.
Proof. intros H. apply negb_true_iff, N.eqb_neq in H. exists (lsb x). apply lsb_testbit. exact H. Qed.

Lemma band3_none x y z : (forall u, N.testbit x u = true -> N.testbit y u = true -> N.testbit z u = true -> False) ->
  negb (band (band x y) z =? 0) = false.
Proof.
  intros H. destruct (negb (band (band x y) z =? 0)) eqn:E; [|reflexivity]. exfalso.
  apply band3_some in E. destruct E as [u [A [B C]]]. exact (H u A B C).
Qed.

Section PawnPin.
Variable b : board.
Hypothesis HR : Rep b.
Hypothesis HV : valid (abs b) = true.
Hypothesis Hchk : in_check b (stm b) = false.
Let me := stm b.
Let them := flip me.
Let own := colors b me.
Let opp := colors b them.
Let occ := occupancy b.
Variable k0 : N.
Hypothesis Hk0 : k0 < 64.
Hypothesis Hkbit : band (pieces b King) own = bit k0.
Hypothesis Hking : forall s, s < 64 -> holds (abs b) s me King = (s =? k0).

Variable d : N.
Hypothesis Hd : d < 64.
Hypothesis Hwd : who (abs b) d = Some (me, Pawn).

Lemma pawn_not_king : Pawn <> King.
Proof. unfold Pawn, King. lia. Qed.

Lemma king_is_own : N.testbit own k0 = true.
Proof.
  assert (N.testbit (bit k0) k0 = true) as Hb by (rewrite bit_testbit; apply N.eqb_refl).
  rewrite <- Hkbit in Hb. unfold band in Hb. rewrite N.land_spec in Hb. apply andb_prop in Hb. tauto.
Qed.

(* the push branch *)
Lemma pinned_push_sound :
  let targets := band (pawn_single_push_moves (bit d) me) (bnot occ) in
  let nocc := bor (band occ (bnot (bit d))) targets in
  slider_hits b k0 nocc opp = false -> negb (targets =? 0) = true -> legal_moves (abs b) <> [].
Proof.
  intros targets nocc Hpin Hnz.
  apply nonzero_some in Hnz. destruct Hnz as [t Htt].
  unfold targets, band in Htt. rewrite N.land_spec, bnot_testbit in Htt. apply andb_prop in Htt.
  destruct Htt as [Hpush Hemp]. apply andb_prop in Hemp. destruct Hemp as [_ Hemp]. apply negb_true_iff in Hemp.
  destruct (push_fwd_fact me d t Hd Hpush) as (Ht & Et & Hrk & Htd).
  assert (Htk : t <> k0).
  { intros ->. unfold occ in Hemp. rewrite (occupancy_of_color b me k0 king_is_own) in Hemp. discriminate. }
  assert (Hdt : d <> t) by congruence.
  assert (Hf : fwd me d < 64) by (rewrite <- Et; exact Ht).
  assert (Hnep : is_ep_capture (abs b) (mk_move d t (promo_for b t)) = false).
  { rewrite Et. exact (not_ep_push1 b d _ HR HV Hd Hf (promo_for_in b _) Hwd Hrk). }
  assert (Hps : pseudo_spec (abs b) (mk_move d t (promo_for b t)) = true).
  { rewrite Et. apply (pseudo_push1 b HR d Hd Hf Hwd Hrk). pose proof Hemp as He2. rewrite Et in He2. exact He2. }
  apply (legal_moves_nonempty _ d t (promo_for b t) Hd Ht (promo_for_in b t)).
  apply (move_legal b d t Pawn (promo_for b t) k0 Hd Ht Hk0 Hking Hwd pawn_not_king (promo_for_in b t) Hdt Htk Hnep Hps).
  intros v kv Hv Hvt Hwv Hmem. fold me in Hwv. fold them in Hwv, Hmem.
  destruct (who_abs_inv b HR v them kv Hv Hwv) as (Hkv & Hpv & Hcv & _).
  set (occ' := occ_of _) in Hmem.
  assert (Hocc' : forall i, N.testbit occ' i = N.testbit nocc i).
  { intros i. unfold occ'. rewrite (move_occ b HR d t Pawn (promo_for b t) k0 Hd Ht Hk0 Hwd pawn_not_king (promo_for_in b t) Hdt Htk Hnep i).
    unfold nocc, bor, targets, band. rewrite N.lor_spec, !N.land_spec, !bnot_testbit, bit_testbit.
    destruct (N.ltb_spec i 64) as [L|L]; [|unfold occ; rewrite (occ_high b HR i L); rewrite !andb_false_r; reflexivity].
    cbn [andb]. destruct (N.eqb_spec t i) as [<-|E].
    - rewrite Hpush. fold occ. rewrite Hemp. cbn. reflexivity.
    - cbn [orb]. destruct (N.testbit (pawn_single_push_moves (bit d) me) i) eqn:Ep.
      + exfalso. destruct (push_fwd_fact me d i Hd Ep) as (_ & Ei & _ & _). congruence.
      + cbn [andb]. rewrite orb_false_r. apply andb_comm. }
  assert (Hleap : mem (attacks_from them kv v occ) k0 = true -> False).
  { intros Hm. apply (not_attacked b HR Hchk k0 Hk0 Hkbit v kv occ Hv Hwv Hm). intros; reflexivity. }
  destruct (slider_hits_false b k0 _ _ v Hpin Hcv) as [Hdiag Hline].
  unfold mem in Hmem.
  assert (kv = 1 \/ kv = 2 \/ kv = 3 \/ kv = 4 \/ kv = 5 \/ kv = 6) as [->|[->|[->|[->|[->| ->]]]]] by lia.
  - apply Hleap. exact Hmem.
  - apply Hleap. exact Hmem.
  - assert (Hq : N.testbit (bishop_attacks v occ') k0 = true) by exact Hmem.
    apply bishop_sym in Hq; try assumption. rewrite (bishop_ext k0 v occ' nocc Hk0 Hv (fun i _ _ => Hocc' i)) in Hq.
    apply (Hdiag Hq). change Bishop with 3. rewrite Hpv. reflexivity.
  - assert (Hq : N.testbit (rook_attacks v occ') k0 = true) by exact Hmem.
    apply rook_sym in Hq; try assumption. rewrite (rook_ext k0 v occ' nocc Hk0 Hv (fun i _ _ => Hocc' i)) in Hq.
    apply (Hline Hq). change Rook with 4. rewrite Hpv. reflexivity.
  - assert (Hq : N.testbit (N.lor (rook_attacks v occ') (bishop_attacks v occ')) k0 = true) by exact Hmem.
    rewrite N.lor_spec in Hq. apply orb_true_iff in Hq. destruct Hq as [Hq|Hq].
    + apply rook_sym in Hq; try assumption. rewrite (rook_ext k0 v occ' nocc Hk0 Hv (fun i _ _ => Hocc' i)) in Hq.
      apply (Hline Hq). change Queen with 5. rewrite Hpv. apply orb_true_r.
    + apply bishop_sym in Hq; try assumption. rewrite (bishop_ext k0 v occ' nocc Hk0 Hv (fun i _ _ => Hocc' i)) in Hq.
      apply (Hdiag Hq). change Queen with 5. rewrite Hpv. apply orb_true_r.
  - apply Hleap. exact Hmem.
Qed.

(* the capture branch *)
Lemma pinned_capture_sound :
  let targets := band (pawn_capture_moves (bit d) me) opp in
  let nocc := bor (band occ (bnot (bit d))) targets in
  negb (band (band (band (bishop_moves k0 nocc) (diag_sliders b)) (bnot targets)) opp =? 0) ||
  negb (band (band (rook_moves k0 nocc) (line_sliders b)) opp =? 0) = false ->
  negb (targets =? 0) = true -> legal_moves (abs b) <> [].
Proof.
  intros targets nocc Hpin Hnz.
  assert (Htg : forall t, N.testbit targets t = true ->
            t < 64 /\ N.testbit opp t = true /\ N.testbit (pawn_attacks me d) t = true /\ t <> d).
  { intros t Ht. unfold targets, band in Ht. rewrite N.land_spec in Ht. apply andb_prop in Ht. destruct Ht as [H1 H2].
    assert (L : t < 64) by (apply (opp_lt b HR t H2)).
    rewrite pcm_bit in H1 by assumption. split; [exact L|]. split; [exact H2|]. split; [exact H1|].
    intros ->. destruct (who_abs_inv b HR d me Pawn Hd Hwd) as (_ & _ & Hc & _).
    rewrite (colors_disjoint b HR me d Hd H2) in Hc. discriminate. }
  (* filling the capture targets changes nothing: they are occupied already *)
  assert (Hnocc : nocc = band occ (bnot (bit d))).
  { apply N.bits_inj. intro i. unfold nocc, bor, band. rewrite N.lor_spec, N.land_spec, bnot_testbit, bit_testbit.
    destruct (N.testbit targets i) eqn:Et; [|apply orb_false_r].
    destruct (Htg i Et) as (L & Ho & _ & Hne). unfold occ. rewrite (occupancy_of_color b them i Ho).
    destruct (N.ltb_spec i 64); [|lia]. destruct (N.eqb_spec d i); [congruence|]. reflexivity. }
  apply orb_false_elim in Hpin. destruct Hpin as [Hp1 Hp2]. apply negb_false_iff in Hp1, Hp2.
  assert (Hcapture : forall t pr', N.testbit targets t = true -> pr' = promo_for b t ->
            legal_spec (abs b) (mk_move d t pr') = true -> legal_moves (abs b) <> []).
  { intros t pr' Ht -> Hl. destruct (Htg t Ht) as (L & _). apply (legal_moves_nonempty _ d t _ Hd L (promo_for_in b t) Hl). }
  destruct (negb (band (band (band (bishop_moves k0 nocc) (diag_sliders b)) targets) opp =? 0)) eqn:Z.
  - (* a diagonal pinner stands on a capture target: take it *)
    apply negb_true_iff, N.eqb_neq in Z. pose proof (lsb_testbit _ Z) as T. set (u := lsb _) in T.
    unfold band in T. rewrite !N.land_spec in T. apply andb_prop in T. destruct T as [T Huopp].
    apply andb_prop in T. destruct T as [T Hut]. apply andb_prop in T. destruct T as [Hatt Hsl].
    destruct (Htg u Hut) as (Hu & _ & Hpa & Hud).
    rewrite Hnocc in Hatt. unfold bishop_moves in Hatt. rewrite bishop_testbit in Hatt.
    apply (Hcapture u _ Hut eq_refl).
    apply (pin_capture_legal b HR Hchk k0 Hk0 Hkbit Hking d Pawn Hd Hwd pawn_not_king (promo_for b u) (promo_for_in b u)
             bishop_dirs u good_bishop Hu Huopp Hatt share_bb share_br
             (fun occ2 Hh => diag_attacker b HR k0 Hk0 Hkbit u occ2 Hu Huopp Hsl Hh)).
    + apply (not_ep_occupied b d u _ HR HV Hd Hu (promo_for_in b u)). apply (occupancy_of_color b them u Huopp).
    + apply (pseudo_pawn_capture b HR d u Hd Hu Hwd Huopp Hpa).
  - (* no pinner on a target: the pawn passes the full slider test, any capture is legal *)
    apply negb_false_iff in Z.
    assert (Hfree : slider_hits b k0 (band occ (bnot (bit d))) opp = false).
    { rewrite <- Hnocc. unfold slider_hits. apply orb_false_intro.
      - apply band3_none. intros u A B C.
        destruct (N.testbit targets u) eqn:Et.
        + apply (band_zero_testbit _ _ u) in Z; [congruence|]. unfold band. rewrite !N.land_spec, A, B, Et. reflexivity.
        + apply (band_zero_testbit _ _ u) in Hp1; [congruence|]. unfold band. rewrite !N.land_spec, A, B, bnot_testbit, Et.
          rewrite (proj2 (N.ltb_lt u 64) (opp_lt b HR u C)). reflexivity.
      - apply negb_false_iff. exact Hp2. }
    apply nonzero_some in Hnz. destruct Hnz as [t Ht]. destruct (Htg t Ht) as (L & Ho & Hpa & Htd).
    assert (Htk : t <> k0).
    { intros ->. pose proof king_is_own as Hko. unfold own in Hko. unfold opp, them in Ho.
      rewrite (colors_disjoint b HR me k0 Hk0 Ho) in Hko. discriminate. }
    apply (Hcapture t _ Ht eq_refl).
    apply (quiet_legal b HR Hchk k0 Hk0 Hkbit Hking d t Pawn (promo_for b t) Hd L Hwd pawn_not_king (promo_for_in b t)).
    + congruence.
    + exact Htk.
    + apply (not_ep_occupied b d t _ HR HV Hd L (promo_for_in b t)). apply (occupancy_of_color b them t Ho).
    + apply (pseudo_pawn_capture b HR d t Hd L Hwd Ho Hpa).
    + left. exact Hfree.
Qed.

End PawnPin.
