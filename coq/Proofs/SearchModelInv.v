(* Generic invariant of the closed search model (Model/Search.v): every relation R on engine states
   that is a preorder and is respected by the primitive state updates (the field setters and
   incrementNodes) relates the state before and after quiescence / alphaBeta / iterative deepening / Go.
   The walk through the function bodies is done once, here; Proofs/SearchModelBudget.v instantiates R. *)
From Coq Require Import NArith ZArith List Bool Lia.
From Chess3 Require Import Base.Bits Base.Word Model.Types Model.BoardDef Model.Board Model.Search.
From Chess3 Require Model.Movegen Model.Mate Model.Eval Model.TT Model.Hist Model.Picker Model.See
  Model.Pv Model.IterDeepen.
Import ListNotations.
Open Scope Z_scope.

(* use exactly the equations of an injection (no global subst: other equations of the context stay) *)
Ltac inj_subst H :=
  injection H; clear H;
  repeat (let Q := fresh "Q" in intro Q;
          try match type of Q with
              | ?a = ?b => first [ is_var b; destruct Q | is_var a; symmetry in Q; destruct Q ]
              end).

(* one step through a hypothesis  H : <body> = Ok r  *)
Ltac walk1 H :=
  match type of H with
  | Ok _ = Ok _ => inj_subst H
  | of_opt ?e = Ok _ => let E := fresh "E" in destruct e eqn:E; cbn [of_opt] in H; [ | discriminate H ]
  | bind ?e _ = Ok _ =>
      let E := fresh "E" in destruct e eqn:E; cbn [bind] in H; [ cbn beta in H | discriminate H | discriminate H ]
  | (if ?c then _ else _) = Ok _ => let C := fresh "C" in destruct c eqn:C
  | (match ?e with _ => _ end) = Ok _ => let E := fresh "E" in destruct e eqn:E; try discriminate H
  end.
(* walk through every hypothesis of that shape until only facts about calls are left *)
Ltac walk := repeat match goal with H : _ = Ok _ |- _ => walk1 H end.

Section Inv.
  Variable o : opts.
  Variable R : sstate -> sstate -> Prop.
  Hypothesis R_refl : forall s, R s s.
  Hypothesis R_trans : forall a b c, R a b -> R b c -> R a c.
  Hypothesis R_tt : forall s v, R s (set_tt s v).
  Hypothesis R_rk : forall s v, R s (set_rk s v).
  Hypothesis R_ms : forall s v, R s (set_ms s v).
  Hypothesis R_hs : forall s v, R s (set_hs s v).
  (* the PV buffer is only ever replaced by the result of setNull / insert on it *)
  Hypothesis R_pv_null : forall s ply v, Pv.set_null (s_pv s) ply = Some v -> R s (set_pv s v).
  Hypothesis R_pv_ins : forall s ply m v, Pv.insert (s_pv s) ply m = Some v -> R s (set_pv s v).
  Hypothesis R_trace : forall s v, R s (set_trace s v).
  Hypothesis R_inc : forall s, R s (inc_nodes o s).

  Lemma R_tracef s ply ev : R s (trace s ply ev).
  Proof. unfold trace. destruct (ply <=? s_tracing s); [apply R_trace | apply R_refl]. Qed.

  Lemma R_insert s b d ply sm v t : R s (tt_insert s b d ply sm v t).
  Proof. unfold tt_insert. apply R_tt. Qed.

  (* peel the updates off the final state, use the facts about calls found in the context *)
  Ltac solveR :=
    repeat first
      [ apply R_refl
      | match goal with
        | |- R ?a (set_tt ?s _) => apply (R_trans a s); [ | apply R_tt ]
        | |- R ?a (set_rk ?s _) => apply (R_trans a s); [ | apply R_rk ]
        | |- R ?a (set_ms ?s _) => apply (R_trans a s); [ | apply R_ms ]
        | |- R ?a (set_hs ?s _) => apply (R_trans a s); [ | apply R_hs ]
        | E : Pv.set_null (s_pv ?s) _ = Some ?v |- R ?a (set_pv ?s ?v) => apply (R_trans a s); [ | exact (R_pv_null _ _ _ E) ]
        | E : Pv.insert (s_pv ?s) _ _ = Some ?v |- R ?a (set_pv ?s ?v) => apply (R_trans a s); [ | exact (R_pv_ins _ _ _ _ E) ]
        | |- R ?a (set_trace ?s _) => apply (R_trans a s); [ | apply R_trace ]
        | |- R ?a (trace ?s _ _) => apply (R_trans a s); [ | apply R_tracef ]
        | |- R ?a (tt_insert ?s _ _ _ _ _ _) => apply (R_trans a s); [ | apply R_insert ]
        | |- R ?a (inc_nodes o ?s) => apply (R_trans a s); [ | apply R_inc ]
        | |- R _ (if ?c then _ else _) => destruct c
        | Hc : R ?s0 ?s |- R ?a ?s => apply (R_trans a s0); [ | exact Hc ]
        end ].

  Definition q_ok (f : sstate -> board -> Z -> Z -> Z -> res rt) : Prop :=
    forall st b al be ply v st' b', f st b al be ply = Ok (v, st', b') -> R st st'.
  Definition ab_ok (f : sstate -> board -> Z -> Z -> Z -> Z -> Z -> res rt) : Prop :=
    forall st b al be d ply nt v st' b', f st b al be d ply nt = Ok (v, st', b') -> R st st'.

  (* ---- quiescence ---- *)
  Lemma qs_loop_R qchild (Hq : q_ok qchild) :
    forall n st b moves nx al be maxim delta ply v st' b',
      qs_loop qchild n st b moves nx al be maxim delta ply = Ok (v, st', b') -> R st st'.
  Proof.
    induction n as [|n IH]; intros st b moves nx al be maxim delta ply v st' b' H; [discriminate H|].
    cbn [qs_loop] in H. walk;
      repeat match goal with Hc : qchild _ _ _ _ _ = Ok _ |- _ => apply Hq in Hc end;
      repeat match goal with Hc : qs_loop _ _ _ _ _ _ _ _ _ _ _ = Ok _ |- _ => apply IH in Hc end;
      solveR.
  Qed.

  Lemma qs_body_R qchild (Hq : q_ok qchild) : q_ok (qs_body o qchild).
  Proof.
    intros st b al be ply v st' b' H. unfold qs_body, qs_pushed in H. walk;
      repeat match goal with Hc : qs_loop _ _ _ _ _ _ _ _ _ _ _ = Ok _ |- _ => apply (qs_loop_R _ Hq) in Hc end;
      solveR.
  Qed.

  (* the same from the state just after incrementNodes *)
  Lemma qs_body_R_after qchild (Hq : q_ok qchild) st b al be ply v st' b' :
    qs_body o qchild st b al be ply = Ok (v, st', b') -> R (inc_nodes o st) st'.
  Proof.
    intros H. unfold qs_body, qs_pushed in H. walk;
      repeat match goal with Hc : qs_loop _ _ _ _ _ _ _ _ _ _ _ = Ok _ |- _ => apply (qs_loop_R _ Hq) in Hc end;
      solveR.
  Qed.

  Lemma quiescence_R : forall fuel, q_ok (quiescence fuel o).
  Proof.
    induction fuel as [|f IH]; intros st b al be ply v st' b' H; [discriminate H|].
    cbn [quiescence] in H. exact (qs_body_R _ IH _ _ _ _ _ _ _ _ H).
  Qed.

  (* ---- alphaBeta ---- *)
  Section Node.
    Variable child : sstate -> board -> Z -> Z -> Z -> Z -> Z -> res rt.
    Variable qs : sstate -> board -> Z -> Z -> Z -> res rt.
    Hypothesis Hc : ab_ok child.
    Hypothesis Hq : q_ok qs.

    Ltac use_child :=
      repeat match goal with E : child _ _ _ _ _ _ _ = Ok _ |- _ => apply Hc in E end.

    Lemma search_move_R st b1 al be d ply nt next mc qc ic imp v st' b' :
      search_move child st b1 al be d ply nt next mc qc ic imp = Ok (v, st', b') -> R st st'.
    Proof.
      intros H. unfold search_move in H. walk; use_child; solveR.
    Qed.

    Lemma ab_finish_R st b d ply maxim best ic hl fl v st' b' :
      ab_finish st b d ply maxim best ic hl fl = Ok (v, st', b') -> R st st'.
    Proof.
      intros H. unfold ab_finish in H. walk; solveR.
    Qed.

    Lemma ab_loop_R : forall n st b p al be d ply nt se maxim best ic imp hl fl mc qc v st' b',
      ab_loop child n st b p al be d ply nt se maxim best ic imp hl fl mc qc = Ok (v, st', b') -> R st st'.
    Proof.
      induction n as [|n IH]; intros st b p al be d ply nt se maxim best ic imp hl fl mc qc v st' b' H; [discriminate H|].
      cbn [ab_loop] in H. walk;
        repeat match goal with E : search_move _ _ _ _ _ _ _ _ _ _ _ _ _ = Ok _ |- _ => apply search_move_R in E end;
        repeat match goal with E : ab_finish _ _ _ _ _ _ _ _ _ = Ok _ |- _ => apply ab_finish_R in E end;
        repeat match goal with E : ab_loop _ _ _ _ _ _ _ _ _ _ _ _ _ _ _ _ _ _ _ = Ok _ |- _ => apply IH in E end;
        solveR.
    Qed.

    Lemma ab_static_R st b be d ply ic e st' b' :
      ab_static child st b be d ply ic = Ok (e, st', b') -> R st st'.
    Proof.
      intros H. unfold ab_static in H. walk; use_child; solveR.
    Qed.

    Lemma ab_body_R : ab_ok (ab_body o child qs).
    Proof.
      intros st b al be d ply nt v st' b' H. unfold ab_body in H. walk;
        repeat match goal with E : ab_static _ _ _ _ _ _ _ = Ok _ |- _ => apply ab_static_R in E end;
        repeat match goal with E : ab_loop _ _ _ _ _ _ _ _ _ _ _ _ _ _ _ _ _ _ _ = Ok _ |- _ => apply ab_loop_R in E end;
        repeat match goal with E : qs _ _ _ _ _ = Ok _ |- _ => apply Hq in E end;
        solveR.
    Qed.

    Lemma ab_body_R_after st b al be d ply nt v st' b' :
      ab_body o child qs st b al be d ply nt = Ok (v, st', b') ->
      (d =? 0) || (SearchParams.MaxPlies - 1 <=? ply) = false ->
      exists pv1, Pv.set_null (s_pv st) ply = Some pv1 /\ R (inc_nodes o (set_pv st pv1)) st'.
    Proof.
      intros H Hd. unfold ab_body in H.
      destruct (Pv.set_null (s_pv st) ply) as [pv1|] eqn:Ep; cbn [of_opt bind] in H; [|discriminate H].
      exists pv1. split; [reflexivity|]. rewrite Hd in H. walk;
        repeat match goal with E : ab_static _ _ _ _ _ _ _ = Ok _ |- _ => apply ab_static_R in E end;
        repeat match goal with E : ab_loop _ _ _ _ _ _ _ _ _ _ _ _ _ _ _ _ _ _ _ = Ok _ |- _ => apply ab_loop_R in E end;
        solveR.
    Qed.
  End Node.

  Lemma alphaBeta_R : forall fuel, ab_ok (alphaBeta fuel o).
  Proof.
    induction fuel as [|f IH]; intros st b al be d ply nt v st' b' H; [discriminate H|].
    cbn [alphaBeta] in H. exact (ab_body_R _ _ IH (quiescence_R f) _ _ _ _ _ _ _ _ _ _ H).
  Qed.

  (* ---- iterative deepening ---- *)
  Lemma fallback_R st b mv st' b' : fallback st b = Ok (mv, st', b') -> R st st'.
  Proof. intros H. unfold fallback in H. walk. solveR. Qed.

  Lemma aspire_R fuel : forall n st b al be f d a,
    aspire fuel o n st b al be f d = Ok a ->
    match a with AspOk _ st' _ => R st st' | AspAbort st' _ => R st st' end.
  Proof.
    induction n as [|n IH]; intros st b al be f d a H; [discriminate H|].
    cbn [aspire] in H. walk;
      repeat match goal with E : alphaBeta _ _ _ _ _ _ _ _ _ = Ok _ |- _ => apply alphaBeta_R in E end;
      repeat match goal with E : aspire _ _ _ _ _ _ _ _ _ = Ok _ |- _ => apply IH in E end;
      try destruct a; solveR.
  Qed.

  Lemma deepen_R fuel : forall todo st b d al be sc mv pd reps r st' b',
    deepen fuel o todo st b d al be sc mv pd reps = Ok (r, st', b') -> R st st'.
  Proof.
    induction todo as [|t IH]; intros st b d al be sc mv pd reps r st' b' H.
    - cbn [deepen] in H. walk. apply R_refl.
    - cbn [deepen] in H. walk;
        repeat match goal with E : aspire _ _ _ _ _ _ _ _ _ = Ok _ |- _ => apply aspire_R in E; cbn beta iota in E end;
        repeat match goal with E : fallback _ _ = Ok _ |- _ => apply fallback_R in E end;
        repeat match goal with E : deepen _ _ _ _ _ _ _ _ _ _ _ _ = Ok _ |- _ => apply IH in E end;
        solveR.
  Qed.
End Inv.
