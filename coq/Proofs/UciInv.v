(* C13: invariants of the driver's transition system over all schedules. *)
From Coq Require Import Bool List Arith Lia.
Import ListNotations.
From Chess3 Require Import Model.Uci Spec.UciLog Proofs.UciTerm.

(* ---------------------------------------------------------------------------------------------- *)
(* derived quantities *)
Definition hemit (s : state) : list item := match hd s with HEmit l => l | _ => [] end.
(* everything printed so far, in the order in which it reaches stdout *)
Definition flog (s : state) : list item := written s ++ out s ++ hemit s.
Definition searching (s : state) : bool := match hd s with HSearch | HJoin => true | _ => false end.
Definition done (s : state) : nat := if searching s then pred (cur s) else cur s.
Definition pending (s : state) : list cmd :=
  match rd s with RHold c => c :: script s | _ => script s end.

(* what the step appends to the log *)
Definition appended (s : state) (l : label) : list item :=
  match l with
  | LRecvTop => match rd s with RHold CUci => uci_reply | RHold CIsready => [IReadyok] | _ => [] end
  | LInfo => [IInfo (cur s)]
  | LPoll => if g_ack (cur_g s) then [IAck (cur s)] else []
  | LJoin => [IBest (cur s)]
  | LIntEmit => [IReadyok]
  | _ => []
  end.

(* ---------------------------------------------------------------------------------------------- *)
(* control-state invariant (finite, decidable) *)
Definition wf (s : state) : bool :=
  (match it s with IOff => negb (searching s) | _ => searching s end)
  && (match hd s with HEmit [] => false | _ => true end)
  && (if out_closed s then match hd s with HDone => true | _ => false end
      else match hd s with HDone => false | _ => true end)
  && (if wr_done s then out_closed s && match out s with [] => true | _ => false end else true)
  && (match hd s, rd s with HDone, RDone => true | HDone, _ => false | _, _ => true end)
  && (match hd s with HSearch => negb (fin s) | HJoin => fin s | _ => true end)
  && (match hd s with
      | HSearch => if ph_sent s then (if ph_chan s then true else ph_got s) else true
      | _ => true end).

Ltac dmS G :=
  repeat match type of G with
         | context [match ?x with _ => _ end] => is_var x; destruct x; simpl in G; try discriminate G
         end.
Ltac dmgoalS :=
  repeat match goal with
         | |- context [match ?x with _ => _ end] => is_var x; destruct x; simpl
         end.
Ltac unf := unfold searching, start_search, after_deliver, after_emit, enq, eff,
  set_script, set_sent_go, set_seen_best, set_rd, set_hd, set_d_ponder, set_cur, set_cur_g,
  set_fuel, set_ph_got, set_it, set_timer, set_ph_chan, set_ph_sent, set_fin, set_out,
  set_out_closed, set_wr_done, set_written in *.

Lemma wf_init sc : wf (init sc) = true.
Proof. reflexivity. Qed.

Lemma wf_step s l : wf s = true -> guard s l = true -> wf (step s l) = true.
Proof.
  destruct s as [scr sg sb r h dp c cg f pg i t pc psn fn o oc wd w].
  unfold wf. destruct l; intros W G.
  all: simpl in G; dmS G.
  all: unfold searching in *; simpl in W; dmS W.
  all: simpl; unfold after_emit, after_deliver; simpl.
  all: dmgoalS; try reflexivity; try discriminate; try assumption.
  all: destruct (g_ponder cg); simpl; try reflexivity; try assumption.
Qed.

(* ---------------------------------------------------------------------------------------------- *)
(* the log only grows at its end; the pending input only shrinks at its head *)
Ltac lnorm := repeat rewrite app_nil_r; repeat rewrite <- app_assoc; simpl; try reflexivity.

Lemma flog_step s l : wf s = true -> guard s l = true -> flog (step s l) = flog s ++ appended s l.
Proof.
  destruct s as [scr sg sb r h dp c cg f pg i t pc psn fn o oc wd w].
  unfold wf. destruct l; intros W G.
  all: simpl in G; dmS G.
  all: unfold searching in *; simpl in W; dmS W.
  all: unfold flog, hemit, appended; simpl; unfold after_emit; lnorm.
  all: dmgoalS; lnorm.
  all: destruct (g_ack cg); lnorm.
Qed.

Lemma pending_step s l : guard s l = true ->
  pending (step s l) = match l with LRecvTop | LRecvInt => tl (pending s) | _ => pending s end.
Proof.
  destruct s as [scr sg sb r h dp c cg f pg i t pc psn fn o oc wd w].
  destruct l; intros G; simpl in G; dmS G; unfold pending; simpl; try reflexivity.
  all: dmgoalS; reflexivity.
Qed.


(* ---------------------------------------------------------------------------------------------- *)
(* list / scan / conf lemmas *)
Lemma count_item_app p a b : count_item p (a ++ b) = count_item p a + count_item p b.
Proof. unfold count_item. rewrite filter_app, app_length. reflexivity. Qed.

Lemma scan_app h a b :
  scan h (a ++ b) = match scan h a with Some h' => scan h' b | None => None end.
Proof.
  revert h. induction a as [|x a IH]; intros h; simpl; [reflexivity|].
  destruct x; try apply IH; destruct (i =? S h); try apply IH; reflexivity.
Qed.

Lemma scan_count h l k : scan h l = Some k -> k = h + count_item is_best l.
Proof.
  revert h. induction l as [|x l IH]; intros h; simpl.
  - intros E. inversion E. unfold count_item. simpl. lia.
  - unfold count_item in *. destruct x; simpl; try apply IH;
      destruct (i =? S h); try discriminate; intros E; apply IH in E; lia.
Qed.

Lemma scan_prefix h a b k : scan h (a ++ b) = Some k -> exists k', scan h a = Some k'.
Proof. rewrite scan_app. destruct (scan h a); [eauto|discriminate]. Qed.

Definition nle (a b : need) : bool :=
  match a, b with
  | NeedNone, _ => true
  | NeedPh, NeedPh | NeedPh, NeedStop => true
  | NeedStop, NeedStop => true
  | _, _ => false
  end.

Lemma conf_mono l : forall a b, nle a b = true -> conf b l = true -> conf a l = true.
Proof.
  induction l as [|c l IH]; intros a b L C; [reflexivity|].
  destruct c; simpl in *; try assumption;
    try (eapply IH; eassumption);
    try (destruct a, b; simpl in *; try discriminate; assumption).
  (* ponderhit *)
  eapply IH; [|eassumption]. destruct a, b; simpl in *; try reflexivity; discriminate.
Qed.

Lemma conf_quit n r : conf n (CQuit :: r) = true -> r = [].
Proof. simpl. destruct r; [reflexivity|discriminate]. Qed.

Lemma conf_guarded n c r : guarded c = true -> conf n (c :: r) = true -> n = NeedNone.
Proof. destruct c; simpl; try discriminate; destruct n; try discriminate; reflexivity. Qed.

(* what the GUI still owes the running search *)
Definition cur_need (s : state) : need :=
  match hd s, it s with
  | HSearch, ISel | HSearch, IEmit =>
      if timer s then NeedNone else
      if g_selffin (cur_g s)
      then (if g_phgate (cur_g s) && g_ponder (cur_g s) && negb (ph_got s) && negb (ph_chan s)
            then NeedPh else NeedNone)
      else if g_timed (cur_g s) && g_ponder (cur_g s) then NeedPh else NeedStop
  | _, _ => NeedNone
  end.

(* ---------------------------------------------------------------------------------------------- *)
Record Inv (sc : list cmd) (s : state) : Prop := {
  i_wf : wf s = true;
  i_rdone : rd s = RDone -> script s = [];
  i_sent : sent_go s = cur s + match rd s with RHold (CGo _) => 1 | _ => 0 end;
  i_seen : count_item is_best (written s) = seen_best s;
  i_scan : scan 0 (flog s) = Some (done s);
  i_cur : searching s = true -> 1 <= cur s;
  i_hold : forall c, rd s = RHold c -> guarded c = true -> it s = IOff;
  i_conf : conf (cur_need s) (pending s) = true;
  i_go : count_cmd is_go sc = count_cmd is_go (pending s) + cur s;
  i_ready : count_cmd is_isready sc
            = count_cmd is_isready (pending s) + count_item is_readyok (flog s)
              + match it s with IEmit => 1 | _ => 0 end;
  i_uci : count_cmd is_uci sc = count_cmd is_uci (pending s) + count_item is_uciok (flog s)
}.

Lemma Inv_init sc : conforming sc = true -> Inv sc (init sc).
Proof.
  intros C. constructor; simpl; try reflexivity; try discriminate; try lia.
  - exact C.
  - unfold pending. simpl. lia.
  - unfold pending, flog, count_item. simpl. lia.
  - unfold pending, flog, count_item. simpl. lia.
Qed.

(* ---------------------------------------------------------------------------------------------- *)
(* preservation, one component at a time *)
Ltac start s l G :=
  destruct s as [scr sg sb r h dp c cg f pg i t pc psn fn o oc wd w];
  destruct l; simpl in G; dmS G.

Lemma p_rdone sc s l : Inv sc s -> guard s l = true ->
  rd (step s l) = RDone -> script (step s l) = [].
Proof.
  intros [W Hrd _ _ _ _ _ Hconf _ _ _] G.
  start s l G; unfold pending in Hconf; simpl in *; unfold after_deliver;
    try (intros E; first [discriminate E | exact (Hrd E) | reflexivity]).
  all: destruct c0; simpl; intros E; try discriminate E; try (destruct scr; [reflexivity|discriminate Hconf]).
Qed.

Lemma p_sent sc s l : Inv sc s -> guard s l = true ->
  sent_go (step s l) = cur (step s l) + match rd (step s l) with RHold (CGo _) => 1 | _ => 0 end.
Proof.
  intros [W _ Hsent _ _ _ Hhold _ _ _ _] G.
  start s l G; simpl in *; unfold after_deliver; try assumption; try lia.
  - (* LRead *) destruct c0; simpl; lia.
  - (* LRecvTop *) destruct c0; simpl in *; lia.
  - (* LRecvInt *) destruct c0; simpl in *; try lia.
    specialize (Hhold _ eq_refl eq_refl). discriminate.
Qed.

Lemma p_seen sc s l : Inv sc s -> guard s l = true ->
  count_item is_best (written (step s l)) = seen_best (step s l).
Proof.
  intros [W _ _ Hseen _ _ _ _ _ _ _] G.
  start s l G; simpl in *; try assumption; try (dmgoalS; assumption).
  rewrite count_item_app, Hseen. destruct i0; unfold count_item; simpl; lia.
Qed.

Lemma done_step sc s l : Inv sc s -> guard s l = true ->
  scan (done s) (appended s l) = Some (done (step s l)).
Proof.
  intros [W _ _ _ _ Hcur _ _ _ _ _] G.
  start s l G; unfold done, appended, searching in *; simpl in *; unfold after_emit; try reflexivity.
  - (* LRecvTop *) destruct c0; reflexivity.
  - (* LEmit *) destruct l; reflexivity.
  - (* LInfo *) specialize (Hcur eq_refl). destruct c; [lia|]. simpl. rewrite Nat.eqb_refl. reflexivity.
  - (* LPoll *) specialize (Hcur eq_refl). destruct c; [lia|]. destruct (g_ack cg); simpl; rewrite ?Nat.eqb_refl; reflexivity.
  - (* LJoin *) specialize (Hcur eq_refl). destruct c; [lia|]. simpl. rewrite Nat.eqb_refl. reflexivity.
  - (* LRecvInt *) destruct c0; reflexivity.
Qed.

Lemma p_scan sc s l : Inv sc s -> guard s l = true ->
  scan 0 (flog (step s l)) = Some (done (step s l)).
Proof.
  intros I G. rewrite (flog_step s l (i_wf _ _ I) G), scan_app, (i_scan _ _ I).
  eapply done_step; eassumption.
Qed.

Lemma p_cur sc s l : Inv sc s -> guard s l = true ->
  searching (step s l) = true -> 1 <= cur (step s l).
Proof.
  intros [W _ _ _ _ Hcur _ _ _ _ _] G.
  start s l G; unfold searching in *; simpl in *; unfold after_emit; try assumption; try discriminate.
  all: try (dmgoalS; first [assumption | discriminate | intros; lia]).
Qed.

Lemma searching_off s : wf s = true -> searching s = false -> it s = IOff.
Proof.
  destruct s as [scr sg sb r h dp c cg f pg i t pc psn fn o oc wd w].
  unfold wf, searching. simpl. intros W S. rewrite S in W. destruct i; [reflexivity|discriminate..].
Qed.

(* when the GUI has seen the bestmove of every go it sent, no search is in progress *)
Lemma idle_when_seen sc s : Inv sc s ->
  (match rd s with RHold (CGo _) => False | _ => True end) ->
  seen_best s = sent_go s -> it s = IOff.
Proof.
  intros I R E. apply searching_off; [exact (i_wf _ _ I)|].
  pose proof (scan_count _ _ _ (i_scan _ _ I)) as D.
  pose proof (i_sent _ _ I) as S. pose proof (i_seen _ _ I) as B. pose proof (i_cur _ _ I) as C.
  unfold flog in D. rewrite !count_item_app in D. unfold done in D.
  destruct (searching s); [|reflexivity]. specialize (C eq_refl).
  destruct (rd s) as [|[]|]; try contradiction; lia.
Qed.

Lemma p_hold sc s l : Inv sc s -> guard s l = true ->
  forall c, rd (step s l) = RHold c -> guarded c = true -> it (step s l) = IOff.
Proof.
  intros I G c0 R Gd.
  assert (K : forall c, rd s = RHold c -> guarded c = true -> it s = IOff) by exact (i_hold _ _ I).
  destruct l.
  - (* LRead *)
    assert (E : it (step s LRead) = it s /\ rd s = RIdle /\
                (guarded c0 = true -> seen_best s = sent_go s)).
    { clear K. destruct s as [scr sg sb r h dp c cg f pg i t pc psn fn o oc wd w].
      simpl in G. dmS G. simpl in *. inversion R; subst. split; [reflexivity|]. split; [reflexivity|].
      intros Gd'. rewrite Gd' in G. simpl in G. apply Nat.eqb_eq in G. exact G. }
    destruct E as [E1 [E2 E3]]. rewrite E1. eapply idle_when_seen; [exact I| rewrite E2; exact Logic.I | auto].
  - revert R. destruct s; simpl in *; dmS G; simpl; discriminate.
  - revert R. destruct s; simpl in *; dmS G; simpl; unfold after_deliver; dmgoalS; discriminate.
  - revert R K. destruct s; simpl in *; dmS G; simpl. intros R K. exact (K _ R Gd).
  - revert R K. destruct s; simpl in *; dmS G; simpl. intros R K. exact (K _ R Gd).
  - revert R K. destruct s; simpl in *; dmS G; simpl. intros R K. exact (K _ R Gd).
  - revert R K. destruct s; simpl in *; dmS G; simpl. intros R K. exact (K _ R Gd).
  - reflexivity.
  - revert R K. destruct s; simpl in *; dmS G; simpl. intros R K. exact (K _ R Gd).
  - revert R. destruct s; simpl in *; dmS G; simpl; unfold after_deliver; dmgoalS; discriminate.
  - revert R K. destruct s; simpl in *; dmS G; simpl. intros R K. specialize (K _ R Gd). discriminate.
  - revert R K. destruct s; simpl in *; dmS G; simpl. intros R K. specialize (K _ R Gd). discriminate.
  - revert R K. destruct s; simpl in *; dmS G; simpl. intros R K. specialize (K _ R Gd). discriminate.
  - revert R K. destruct s; simpl in *; dmS G; simpl. intros R K. specialize (K _ R Gd). discriminate.
  - revert R K. destruct s; simpl in *; dmS G; simpl. intros R K. exact (K _ R Gd).
  - revert R K. destruct s; simpl in *; dmS G; simpl. intros R K. exact (K _ R Gd).
Qed.

Ltac bools := repeat match goal with
  | |- context [if ?b then _ else _] => destruct b; simpl
  | |- context [?a && ?b] => destruct a; simpl
  end; try reflexivity.

Lemma p_conf sc s l : Inv sc s -> guard s l = true ->
  conf (cur_need (step s l)) (pending (step s l)) = true.
Proof.
  intros I G.
  pose proof (i_wf _ _ I) as W. pose proof (i_conf _ _ I) as Hconf. pose proof (i_hold _ _ I) as Hhold.
  clear I.
  start s l G; unfold cur_need, pending in *; simpl in *; unfold after_deliver, after_emit.
  - (* LRead *) exact Hconf.
  - (* LEof *) exact Hconf.
  - (* LRecvTop *)
    destruct c0; simpl in *; try exact Hconf; try (destruct scr; [reflexivity|discriminate]).
    (* go *) eapply conf_mono; [|exact Hconf]. unfold need_of. simpl.
    destruct (g_selffin g), (g_phgate g), (g_ponder g), (g_timed g), dp; reflexivity.
  - (* LEmit *) destruct l; exact Hconf.
  - (* LInfo *) exact Hconf.
  - (* LPoll *) apply andb_prop in G as [Gp _]. subst pc.
    eapply conf_mono; [|exact Hconf]. destruct i; try reflexivity;
      destruct t, (g_selffin cg), (g_phgate cg), (g_ponder cg), (g_timed cg), pg; reflexivity.
  - (* LFin *) eapply conf_mono; [|exact Hconf]. reflexivity.
  - (* LJoin *) exact Hconf.
  - (* LHClose *) exact Hconf.
  - (* LRecvInt *)
    destruct c0; simpl in *; try (specialize (Hhold _ eq_refl eq_refl); discriminate).
    + (* isready *) destruct h; exact Hconf.
    + (* stop *) destruct h; exact Hconf.
    + (* ponderhit *)
      unfold wf in W. simpl in W.
      destruct h; try exact Hconf.
      all: try (eapply conf_mono; [|exact Hconf]; reflexivity).
      (* HSearch *)
      destruct t, (g_selffin cg), (g_phgate cg), (g_ponder cg), (g_timed cg), pg, pc, psn;
        simpl in *;
        first [ exact Hconf | discriminate W | (rewrite andb_false_r in W; discriminate W)
              | eapply conf_mono; [|exact Hconf]; reflexivity ].
    + (* quit *) destruct scr; [|discriminate]. destruct h; reflexivity.
    + (* nop *) destruct h; exact Hconf.
  - (* LIntEmit *) exact Hconf.
  - (* LIntFin *) eapply conf_mono; [|exact Hconf]. destruct h; reflexivity.
  - (* LIntTimer *) eapply conf_mono; [|exact Hconf]. destruct h; reflexivity.
  - (* LIntEof *) eapply conf_mono; [|exact Hconf]. destruct h; reflexivity.
  - (* LWrite *) exact Hconf.
  - (* LWDone *) exact Hconf.
Qed.

Lemma p_go sc s l : Inv sc s -> guard s l = true ->
  count_cmd is_go sc = count_cmd is_go (pending (step s l)) + cur (step s l).
Proof.
  intros I G. pose proof (i_go _ _ I) as Hgo. pose proof (i_hold _ _ I) as Hhold. clear I.
  start s l G; unfold pending, count_cmd in *; simpl in *; unfold after_deliver; try exact Hgo.
  - destruct c0; simpl in *; lia.
  - destruct c0; simpl in *; try lia. specialize (Hhold _ eq_refl eq_refl). discriminate.
Qed.

Lemma p_ready sc s l : Inv sc s -> guard s l = true ->
  count_cmd is_isready sc
  = count_cmd is_isready (pending (step s l)) + count_item is_readyok (flog (step s l))
    + match it (step s l) with IEmit => 1 | _ => 0 end.
Proof.
  intros I G. pose proof (i_ready _ _ I) as Hr. pose proof (i_hold _ _ I) as Hhold.
  pose proof (i_wf _ _ I) as W.
  rewrite (flog_step s l (i_wf _ _ I) G), count_item_app.
  remember (count_item is_readyok (flog s)) as K. clear HeqK I.
  start s l G; unfold pending, appended, count_cmd, count_item in *; simpl in *; unfold after_deliver;
    try lia.
  - unfold wf, searching in W; simpl in W. destruct i; try discriminate W.
    destruct c0; simpl in *; lia.
  - destruct (g_ack cg); simpl; lia.
  - destruct c0; simpl in *; try lia.
Qed.

Lemma p_uci sc s l : Inv sc s -> guard s l = true ->
  count_cmd is_uci sc = count_cmd is_uci (pending (step s l)) + count_item is_uciok (flog (step s l)).
Proof.
  intros I G. pose proof (i_uci _ _ I) as Hr. pose proof (i_hold _ _ I) as Hhold.
  rewrite (flog_step s l (i_wf _ _ I) G), count_item_app.
  remember (count_item is_uciok (flog s)) as K. clear HeqK I.
  start s l G; unfold pending, appended, count_cmd, count_item in *; simpl in *; unfold after_deliver;
    try lia.
  - destruct c0; simpl in *; lia.
  - destruct (g_ack cg); simpl; lia.
  - destruct c0; simpl in *; try lia. specialize (Hhold _ eq_refl eq_refl). discriminate.
Qed.

Lemma Inv_step sc s l : Inv sc s -> guard s l = true -> Inv sc (step s l).
Proof.
  intros I G. constructor.
  - apply wf_step; [exact (i_wf _ _ I)|exact G].
  - eapply p_rdone; eassumption.
  - eapply p_sent; eassumption.
  - eapply p_seen; eassumption.
  - eapply p_scan; eassumption.
  - eapply p_cur; eassumption.
  - eapply p_hold; eassumption.
  - eapply p_conf; eassumption.
  - eapply p_go; eassumption.
  - eapply p_ready; eassumption.
  - eapply p_uci; eassumption.
Qed.

Lemma Inv_steps sc s ls s' : Inv sc s -> steps s ls s' -> Inv sc s'.
Proof. intros I H. induction H; [exact I|]. apply IHsteps. apply Inv_step; assumption. Qed.

Lemma Inv_reachable sc s : conforming sc = true -> reachable sc s -> Inv sc s.
Proof. intros C [ls H]. eapply Inv_steps; [apply Inv_init; exact C|exact H]. Qed.
