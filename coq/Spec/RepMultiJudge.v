(* Spec-level oracles of the streams "c10two" (several games alive at once) and "c10reuse" (one UCI
   driver given unrelated move lists).  Formats: Model/Rep3Multi.v.  Like judge_c10 they look only at
   the input, at what the IMPLEMENTATION reported and at Spec/Chess.v; no engine model, and hash
   values are only ever compared with each other.

   Every game is a game of its own: what is expected of game k depends on the moves of game k only.

   verdict [1]            everything as the properties demand
           [0; 1; t]      C10: a repetition count is not the number of recurrences of that game's
                          position in that game's history (t = step of the schedule / command number)
           [0; 5; t]      C04: Hash() differs from calculateHash() on some board
           [0; 6; t]      C03/C04: a hash history does not have (plies played + 1) entries
           [0; 7; k]      C04 (transposition): two positions with the same key (same or different
                          game) carry different hashes in the final histories
           [0; 8; k]      C02/C04: the attributes of board k are not those of the position of its game
           [0; 12; k]     C04: the three placement encodings of board k disagree
           [0; 9; k]      C03: after undoing every move board k is not the start board again
           [0; 10; 0]     C04: ResetHash left more than the one recomputed hash, or a wrong one
           [0; 11; 0]     C04/C10: a start board obtained after that ResetHash is not the start board
           [0; 13; 0]     malformed observation (e.g. a panic);  [0; 14; k] / [0; 15; k]: generator
                          self-checks (root not valid / move not legal) *)
From Coq Require Import NArith ZArith List Bool.
From Chess3 Require Import Base.Bits Model.Types Spec.Geometry Model.BoardDef Spec.Chess Spec.RepSpec Spec.RepJudge.
Import ListNotations.
Open Scope Z_scope.

Fixpoint jparse_lists (g : nat) (l : list Z) : list (list N) * list Z :=
  match g with
  | O => ([], l)
  | S g' =>
      match l with
      | [] => ([], [])
      | n :: r =>
          let k := Z.to_nat n in
          let '(gs, rest) := jparse_lists g' (skipn k r) in
          (map Z.to_N (firstn k r) :: gs, rest)
      end
  end.

Fixpoint jupd (l : list nat) (i : nat) : list nat :=
  match l, i with
  | [], _ => []
  | x :: r, O => S x :: r
  | x :: r, S j => x :: jupd r j
  end.
Fixpoint jstates (cs : list nat) (sched : list Z) : list (list nat) :=
  cs :: match sched with [] => [] | s :: r => jstates (jupd cs (Z.to_nat s)) r end.

Fixpoint first_bad_game (p0 : pos) (games : list (list N)) (k : Z) : option Z :=
  match games with
  | [] => None
  | ms :: r => match first_illegal p0 ms 0 with Some _ => Some k | None => first_bad_game p0 r (k + 1) end
  end.

Fixpoint zlist_diff (a b : list Z) (i : nat) : option nat :=
  match a, b with
  | [], [] => None
  | x :: a', y :: b' => if x =? y then zlist_diff a' b' (S i) else Some i
  | _, _ => Some i
  end.

(* the same, looking only at the indices i with allow (i mod 3) *)
Fixpoint zlist_diff_mask (allow : nat -> bool) (a b : list Z) (i : nat) : option nat :=
  match a, b with
  | [], [] => None
  | x :: a', y :: b' => if (x =? y) || negb (allow (i mod 3)%nat) then zlist_diff_mask allow a' b' (S i) else Some i
  | _, _ => Some i
  end.

(* board-out = 15 attribute tokens (P0..P6 C0 C1 stm ep castles fifty full SQ), nh, nh hashes *)
Definition split_bo (l : list Z) : option (list Z * list Z * list Z) :=
  let attrs := firstn 15 l in
  match skipn 15 l with
  | nh :: rest =>
      let k := Z.to_nat nh in
      if Nat.eqb (length attrs) 15 && (0 <=? nh) && Nat.leb k (length rest)
      then Some (attrs, firstn k rest, skipn k rest) else None
  | [] => None
  end.

Definition opt_eqb (a b : option N) : bool :=
  match a, b with None, None => true | Some x, Some y => (x =? y)%N | _, _ => false end.

(* do the attribute tokens describe position p (all six FEN fields)?  and do the three placement
   encodings agree (P0 empty, SQ = the per-square view of the six piece sets)? *)
Definition attrs_board (attrs : list Z) : option board :=
  match attrs with
  | _p0 :: rest => match decode_board (firstn 13 rest ++ [0]) with Some (b, _) => Some b | None => None end
  | [] => None
  end.
Definition attrs_match (attrs : list Z) (p : pos) : bool :=
  match attrs_board attrs with
  | Some b =>
      let q := abs b in
      place_eqb (at_ q) (at_ p) && color_eqb (turn q) (turn p) && (rights q =? rights p)%N &&
      opt_eqb (epsq q) (epsq p) && (half q =? half p) && (fullm q =? fullm p)
  | None => false
  end.
Definition attrs_consistent (attrs : list Z) : bool :=
  match attrs_board attrs with
  | Some b => (nth 0 attrs 1 =? 0) && (nth 14 attrs (-1) =? Z.of_N (pack_sq2p (sq2p b)))
  | None => false
  end.

(* part B: one board-out per game; collects (key, hash) of every history entry *)
Fixpoint judge_finals (c04 c03 : bool) (hists : list (list pos)) (final : list nat) (out : list Z) (k : Z)
                      (acc : list (poskey * Z)) : list Z + (list (poskey * Z) * list Z) :=
  match hists, final with
  | h :: hr, c :: cr =>
      match split_bo out with
      | None => inl [0; 13; 0]
      | Some (attrs, hs, rest) =>
          if (c04 || c03) && negb (Nat.eqb (length hs) (S c)) then inl [0; 6; k]
          else if c04 && negb (attrs_match attrs (nth c h (mkPos [] White 0 None 0 0))) then inl [0; 8; k]
          else if c04 && negb (attrs_consistent attrs) then inl [0; 12; k]
          else judge_finals c04 c03 hr cr rest (k + 1) (acc ++ combine (map pos_key (firstn (S c) h)) hs)
      end
  | _, _ => inr (acc, out)
  end.

Fixpoint same_key_same_hash (l : list (poskey * Z)) : bool :=
  match l with
  | [] => true
  | (k, h) :: r => forallb (fun kh : poskey * Z => negb (key_eqb k (fst kh)) || (h =? snd kh)) r
                   && same_key_same_hash r
  end.

(* part C: one board-out per game, each must be the start board *)
Fixpoint judge_undone (c03 : bool) (g : nat) (start : list Z) (out : list Z) (k : Z) : list Z + list Z :=
  match g with
  | O => inr out
  | S g' =>
      match split_bo out with
      | None => inl [0; 13; 0]
      | Some (attrs, hs, rest) =>
          match zlist_diff (attrs ++ Z.of_nat (length hs) :: hs) start O with
          | Some _ => if c03 then inl [0; 9; k] else judge_undone c03 g' start rest (k + 1)
          | None => judge_undone c03 g' start rest (k + 1)
          end
      end
  end.

(* c10, c04, c03: which properties' clauses are judged *)
Definition judge_two_gen (c10 c04 c03 : bool) (io : list Z) : list Z :=
  match decode_board io with
  | Some (b, mode :: g :: rest) =>
      let p0 := abs b in
      let '(games, rest2) := jparse_lists (Z.to_nat g) rest in
      match rest2 with
      | t :: r =>
          let sched := firstn (Z.to_nat t) r in
          let out := skipn (Z.to_nat t) r in
          if negb (valid p0) then [0; 14; 0] else
          match first_bad_game p0 games 0 with
          | Some k => [0; 15; k]
          | None =>
              let hists := map (spec_hist p0) games in
              let raws := map (fun h => raw_counts (map pos_key h)) hists in
              let states := jstates (map (fun _ => O) games) sched in
              let expect (cs : list nat) : list Z :=
                flat_map (fun rc : list Z * nat => [Z.min 3 (nth (snd rc) (fst rc) 1); 1; Z.of_nat (S (snd rc))])
                         (combine raws cs) in
              let expA := flat_map expect states in
              let na := length expA in
              let per := (3 * length games)%nat in
              let allow (j : nat) : bool := match j with O => c10 | S O => c04 | _ => c04 || c03 end in
              match zlist_diff_mask allow (firstn na out) expA O with
              | Some i => [0; nth (i mod 3) [1; 5; 6] 13; Z.of_nat (i / per)]
              | None =>
                  let final := last states [] in
                  match judge_finals c04 c03 hists final (skipn na out) 0 [] with
                  | inl v => v
                  | inr (pairs, restB) =>
                      if (c10 || c04) && negb (same_key_same_hash pairs) then [0; 7; 0] else
                      if mode =? 2 then (match restB with [] => [1] | _ => [0; 13; 0] end) else
                      let start := encode_board b in
                      match judge_undone c03 (length games) start restB 0 with
                      | inl v => v
                      | inr restC =>
                          match games with
                          | (m :: _) :: _ =>
                              match split_bo restC with
                              | Some (attrs, hs, flag :: restD) =>
                                  if c04 && negb (Nat.eqb (length hs) 1 && (flag =? 1) &&
                                           attrs_match attrs (succ_spec p0 m) &&
                                           same_key_same_hash ((pos_key (succ_spec p0 m), hd 0 hs) :: pairs))
                                  then [0; 10; 0]
                                  else match split_bo restD with
                                       | Some (attrs2, hs2, [tf]) =>
                                           match zlist_diff (attrs2 ++ Z.of_nat (length hs2) :: hs2) start O with
                                           | Some _ => if c10 || c04 then [0; 11; 0] else [1]
                                           | None => if (tf =? 1) || negb c10 then [1] else [0; 11; 0]
                                           end
                                       | _ => [0; 13; 0]
                                       end
                              | _ => [0; 13; 0]
                              end
                          | _ => match restC with [] => [1] | _ => [0; 13; 0] end
                          end
                      end
                  end
              end
          end
      | [] => [0; 13; 0]
      end
  | _ => [0; 13; 0]
  end.

Definition judge_c10two : list Z -> list Z := judge_two_gen true true true.
(* the same observations judged for C04 only (clauses 5 6 7 8 10 11 12) and for C03 only (6 9) *)
Definition judge_c04two : list Z -> list Z := judge_two_gen false true false.
Definition judge_c03two : list Z -> list Z := judge_two_gen false false true.

(* ------------------------------------------------------------------------------------------ *)
(* c10reuse: after every command the driver's board must be the board of a fresh game with exactly
   the moves of THAT command *)
(* cnt: judge the repetition count (C10); hsh: Hash()==calculateHash() and the history length (C04);
   the attributes of the board (all six FEN fields = the position the command describes) are always
   judged: that is C02's clause for positions set up through `position ... moves ...`, and the
   precondition of C06 through UCI (the root handed to the search is the root the GUI set) *)
Fixpoint judge_reuse_cmds (cnt hsh : bool) (p0 : pos) (k : nat) (l : list Z) (out : list Z) (i : Z) : list Z :=
  match k with
  | O => match out with [] => [1] | _ => [0; 13; 0] end
  | S k' =>
      match l with
      | kind :: n :: r =>
          let c := Z.to_nat n in
          let payload := firstn c r in
          let root_ms : option (pos * list N) :=
            if 3 <=? kind then
              match decode_board payload with
              | Some (bx, ms) => Some (abs bx, map Z.to_N ms)
              | None => None
              end
            else Some (p0, map Z.to_N payload) in
          match root_ms with
          | None => [0; 13; 0]
          | Some (pr, ms) =>
              if negb (valid pr) then [0; 14; i] else
              (* a move list may contain a token the driver has to REFUSE (not even pseudo-legal in the position
                 reached): the command then describes the position after the moves in front of it (C02: "exactly
                 the prefix of the move list up to the first token that is not a pseudo-legal move"); a list whose
                 first unplayable move is pseudo-legal but illegal is outside the generator's contract *)
              let played : option (list N) :=
                match first_illegal pr ms 0 with
                | None => Some ms
                | Some j =>
                    let pre := firstn (Z.to_nat j) ms in
                    match skipn (Z.to_nat j) ms with
                    | m :: _ => if pseudo_spec (last (spec_hist pr pre) pr) m then None else Some pre
                    | [] => None
                    end
                end in
              match played with
              | None => [0; 15; i]
              | Some ms =>
                  let h := spec_hist pr ms in
                  let attrs := firstn 15 out in
                  match skipn 15 out with
                  | tf :: ok :: len :: out' =>
                      if negb (attrs_match attrs (last h pr)) then [0; 8; i]
                      else if negb (attrs_consistent attrs) then [0; 12; i]
                      else if cnt && negb (tf =? rep_count (map pos_key h)) then [0; 1; i]
                      else if hsh && negb (ok =? 1) then [0; 5; i]
                      else if hsh && negb (len =? Z.of_nat (S (length ms))) then [0; 6; i]
                      else judge_reuse_cmds cnt hsh p0 k' (skipn c r) out' (i + 1)
                  | _ => [0; 13; 0]
                  end
              end
          end
      | _ => [0; 13; 0]
      end
  end.

Definition judge_reuse_gen (cnt hsh : bool) (io : list Z) : list Z :=
  match decode_board io with
  | Some (b, k :: rest) =>
      let p0 := abs b in
      if negb (valid p0) then [0; 14; 0] else
      (* the commands occupy a prefix of rest; the observation is what follows them *)
      let fix skip_cmds (k : nat) (l : list Z) : list Z :=
        match k with
        | O => l
        | S k' => match l with _ :: n :: r => skip_cmds k' (skipn (Z.to_nat n) r) | _ => [] end
        end in
      judge_reuse_cmds cnt hsh p0 (Z.to_nat k) rest (skip_cmds (Z.to_nat k) rest) 0
  | _ => [0; 13; 0]
  end.

Definition judge_c10reuse : list Z -> list Z := judge_reuse_gen true true.
(* only "the board is the position this command describes" (clauses 8 12; 13 14 15): for C02 and C06 *)
Definition judge_reuse_attrs : list Z -> list Z := judge_reuse_gen false false.
