(* The executable judges of Spec/Perm.v compute the readable definitions they stand for. *)
From Coq Require Import ZArith NArith Lia Bool List Permutation.
From Chess3 Require Import Gen.TunerConsts Spec.Perm Proofs.BatchProofs.
Import ListNotations.
Open Scope Z_scope.

Lemma rev'_rev {A} (l : list A) : rev' l = rev l.
Proof. unfold rev'. symmetry. apply rev_alt. Qed.

(* the one-pass splitter of the file judge computes split_nl *)
Lemma split_fast_spec l : forall cur acc,
  split_fast l cur acc =
  match split_nl l with
  | ([], frag) => (rev acc, rev cur ++ frag)
  | (l1 :: ls, frag) => (rev acc ++ (rev cur ++ l1) :: ls, frag)
  end.
Proof.
  induction l as [|c t IH]; intros cur acc; cbn [split_fast split_nl].
  - rewrite !rev'_rev, app_nil_r. reflexivity.
  - destruct (c =? 10).
    + rewrite IH. rewrite rev'_rev. cbn [rev]. destruct (split_nl t) as [[|l1 ls] frag].
      * rewrite app_nil_r. reflexivity.
      * rewrite app_nil_r, <- app_assoc. reflexivity.
    + rewrite IH. cbn [rev]. destruct (split_nl t) as [[|l1 ls] frag]; rewrite <- app_assoc; reflexivity.
Qed.

Theorem split_fast_correct file : split_fast file [] [] = split_nl file.
Proof. rewrite split_fast_spec. destruct (split_nl file) as [[|l1 ls] frag]; reflexivity. Qed.

(* the range judge: accepted range lists tile [s,e) with non-empty ranges *)
Fixpoint pairs (rs : list Z) : list (Z * Z) :=
  match rs with a :: b :: t => (a, b) :: pairs t | _ => [] end.

Theorem tiles_sound fuel : forall cur e rs, tiles cur e rs fuel = true -> partitions (pairs rs) cur e.
Proof.
  induction fuel as [|f IH]; intros cur e rs H; [destruct rs; simpl in H; discriminate H|].
  destruct rs as [|a [|b t]]; cbn [tiles] in H; [|simpl in H; discriminate H|].
  - destruct (Z.ltb_spec cur e); [discriminate|].
    split; [constructor|]. cbn. symmetry. apply zrange_nil. lia.
  - apply andb_true_iff in H. destruct H as [H Ht]. apply andb_true_iff in H. destruct H as [H H3].
    apply andb_true_iff in H. destruct H as [H1 H2].
    apply Z.eqb_eq in H1. apply Z.ltb_lt in H2. apply Z.leb_le in H3. subst a.
    destruct (IH b e t Ht) as [Hne Hcat]. cbn [pairs]. split.
    + constructor; [cbn [fst snd]; lia|exact Hne].
    + cbn [map concat fst snd]. rewrite Hcat. apply zrange_app. lia.
Qed.

(* the permutation judge: an accepted list is a permutation of 0..n-1 *)
Lemma zlength_length {A} (l : list A) : zlength l = Z.of_nat (length l).
Proof.
  unfold zlength. assert (H : forall acc, zlen_acc l acc = acc + Z.of_nat (length l)).
  { induction l as [|x t IH]; intros acc; cbn [zlen_acc length]; [lia|]. rewrite IH. lia. }
  rewrite H. lia.
Qed.

Lemma fold_bits out : forall a i,
  N.testbit (fold_left (fun acc y => N.lor acc (N.shiftl 1 (Z.to_N y))) out a) i =
  N.testbit a i || existsb (fun y => N.eqb (Z.to_N y) i) out.
Proof.
  induction out as [|y t IH]; intros a i; cbn [fold_left existsb]; [rewrite orb_false_r; reflexivity|].
  rewrite IH, N.lor_spec, N.shiftl_1_l, N.pow2_bits_eqb, orb_assoc. reflexivity.
Qed.

Lemma zrange_NoDup a b : NoDup (zrange a b).
Proof.
  unfold zrange. generalize (Z.to_nat (b - a)) as m. intros m.
  assert (H : forall s, NoDup (map (fun k => a + Z.of_nat k) (seq s m))).
  { induction m as [|m IH]; intros s; cbn [seq map]; constructor; [|apply IH].
    rewrite in_map_iff. intros (k & Hk & Hin). apply in_seq in Hin. lia. }
  apply H.
Qed.

Theorem is_perm_list_sound n out : is_perm_list n out = true -> Permutation out (zrange 0 n).
Proof.
  unfold is_perm_list. intros H. apply andb_true_iff in H. destruct H as [H Hbits].
  apply andb_true_iff in H. destruct H as [Hlen Hall].
  apply Z.eqb_eq in Hlen. apply N.eqb_eq in Hbits. rewrite forallb_forall in Hall.
  rewrite zlength_length in Hlen.
  apply Permutation_sym, NoDup_Permutation_bis.
  - apply zrange_NoDup.
  - rewrite zrange_length. lia.
  - intros x Hx. apply in_zrange in Hx.
    assert (Hb : N.testbit (N.ones (Z.to_N n)) (Z.to_N x) = true) by (apply N.ones_spec_low; lia).
    rewrite <- Hbits, fold_bits, N.bits_0 in Hb. cbn [orb] in Hb.
    apply existsb_exists in Hb. destruct Hb as (y & Hy & E). apply N.eqb_eq in E.
    specialize (Hall y Hy). apply andb_true_iff in Hall. destruct Hall as [H0 _]. apply Z.leb_le in H0.
    replace x with y by lia. exact Hy.
Qed.

