(* Positions reached by play: the board after playing a list of moves with MakeMove, and what it
   means for that list to be a line of legal moves (each move legal, by the rules of Spec/Chess.v,
   in the position in which it is played).  Definitions only. *)
From Coq Require Import NArith List.
From Chess3 Require Import Model.Types Model.BoardDef Model.Board Spec.Chess.
Import ListNotations.

Fixpoint run (z : zobrist) (b : board) (ms : list N) : board :=
  match ms with
  | [] => b
  | m :: r => run z (fst (make z b m)) r
  end.

Fixpoint legal_line (z : zobrist) (b : board) (ms : list N) : Prop :=
  match ms with
  | [] => True
  | m :: r => legal_spec (abs b) m = true /\ legal_line z (fst (make z b m)) r
  end.
