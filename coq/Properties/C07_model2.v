(* C07 on the closed executable model of the whole search (Model/Search.v), main clauses:
     every variation Search.Go reports is a line of playable (= legal, C01) moves from the root;
     the move returned is the first move of the last non-empty reported variation, the ponder move its
     second move (null when it has one move);
     the ponder move is null or playable in the position after the move returned.
   Proof: one induction over the model's real recursion (Proofs/SearchModelLegal.v) with the invariant
   "after alphaBeta returns at ply p on board b', line(p) is a line of playable moves from b' and the
   lines below p are untouched": line(p) is emptied on entry (setNull) and only ever replaced by
   m :: line(p+1), where m was handed out by the picker (generated, or the hash move accepted by
   IsPseudoLegal: C05), was made and passed the legality filter (C01), and line(p+1) is read right
   after the last child search of m, which ran on make(b', m) (board restoration, C03) - a representable
   valid position again (C02).  Quiescence never touches the buffer.
   Hypotheses as in Properties/C06_model2.v: root representable and valid, table moves 15-bit, PV buffer
   well-formed; they are an invariant of the engine (C06_model_state_kept / _new / _cleared).
   Statements only; proofs in Proofs/SearchModelLegal*.v. *)
From Coq Require Import NArith ZArith List Bool.
From Chess3 Require Import Base.Bits Model.Types Model.BoardDef Model.Board Model.Movegen Model.Search
  Spec.Chess Spec.Rep Proofs.BoardExamples Proofs.SearchModelLegalBase Proofs.SearchModelLegal Proofs.SearchModelLegalId.
From Chess3 Require Model.TT Model.Pv Proofs.PvProofs.
Import ListNotations.
Open Scope Z_scope.

(* a line of playable moves, as in C07_model_lines_legal_statement of Properties/C07_model.v *)
Fixpoint legal_pv (b : board) (pv : list Z) : Prop :=
  match pv with
  | [] => True
  | m :: rest => In (Z.to_N m) (playable zob b) /\ legal_pv (fst (make zob b (Z.to_N m))) rest
  end.

(* [zline] (Proofs/SearchModelLegalBase.v) says in addition that every move of the line is the Z image
   of its encoding (0 <= m < 32768) *)
Lemma zline_legal_pv : forall pv b, zline b pv -> legal_pv b pv.
Proof.
  induction pv as [|m rest IH]; intros b H; [exact I|]. cbn [zline legal_pv] in *. destruct H as [H1 H2].
  split; [exact (proj1 (in_zN_playable b m H1))|exact (IH _ H2)].
Qed.

Theorem C07_model_lines_legal :
  forall fuel o st b r st' b' d s n hf pv,
  Rep b -> valid (abs b) = true -> tt_ok (s_tt st) -> PvProofs.wf (s_pv st) ->
  go fuel o st b = Ok (r, st', b') -> In (RLine d s n hf pv) (r_reports r) ->
  legal_pv b pv /\ Forall (fun m => 0 <= m < 32768) pv.
Proof.
  intros fuel o st b r st' b' d s n hf pv HR HV Ht Hw H Hi.
  destruct (go_leg fuel o st b r st' b' (conj HR HV) (conj Ht Hw) H) as (_ & _ & _ & Hl & _).
  eapply Forall_forall in Hl; [|exact Hi]. cbn [line_ok] in Hl. split; [now apply zline_legal_pv|].
  clear -Hl. revert b Hl. induction pv as [|m rest IH]; intros b Hl; constructor; cbn [zline] in Hl; destruct Hl as [H1 H2].
  - exact (proj2 (in_zN_playable b m H1)).
  - exact (IH _ H2).
Qed.
Print Assumptions C07_model_lines_legal.

(* the invariant itself, for every call of the model's alphaBeta: any ply, window, depth, node type *)
Theorem C07_model_line_invariant :
  forall fuel o st b al be d ply nt v st' b',
  Rep b -> valid (abs b) = true -> tt_ok (s_tt st) -> PvProofs.wf (s_pv st) -> 0 <= ply <= 63 ->
  alphaBeta fuel o st b al be d ply nt = Ok (v, st', b') ->
  b' = b /\ legal_pv b (Pv.line (s_pv st') ply) /\
  (forall q, 0 <= q < ply -> Pv.line (s_pv st') q = Pv.line (s_pv st) q).
Proof.
  intros fuel o st b al be d ply nt v st' b' HR HV Ht Hw Hp H.
  destruct (alphaBeta_leg o fuel st b al be d ply nt v st' b' (conj HR HV) (conj Ht Hw) Hp H) as (E & _ & _ & Hz & Hb).
  split; [exact E|]. split; [now apply zline_legal_pv|exact Hb].
Qed.
Print Assumptions C07_model_line_invariant.

(* the last non-empty variation of the reports (given oldest first, as Search.Go returns them) *)
Definition last_line (reps : list report) : option (list Z) := last_pv (rev reps).

Theorem C07_model_best_is_head :
  forall fuel o st b r st' b',
  Rep b -> valid (abs b) = true -> tt_ok (s_tt st) -> PvProofs.wf (s_pv st) ->
  go fuel o st b = Ok (r, st', b') ->
  match last_line (r_reports r) with
  | Some (m :: p :: _) => r_move r = m /\ r_ponder r = p
  | Some [m] => r_move r = m /\ r_ponder r = 0
  | Some [] => False
  | None => r_ponder r = 0 /\
            (r_move r = 0 \/ r_move r = hd 0 (map Z.of_N (playable zob b)))   (* the abort fallback: first playable move *)
  end.
Proof.
  intros fuel o st b r st' b' HR HV Ht Hw H.
  destruct (go_leg fuel o st b r st' b' (conj HR HV) (conj Ht Hw) H) as (_ & _ & _ & _ & Hh). exact Hh.
Qed.
Print Assumptions C07_model_best_is_head.

Theorem C07_model_ponder_legal :
  forall fuel o st b r st' b',
  Rep b -> valid (abs b) = true -> tt_ok (s_tt st) -> PvProofs.wf (s_pv st) ->
  go fuel o st b = Ok (r, st', b') ->
  r_ponder r = 0 \/
  (In (r_move r) (map Z.of_N (playable zob b)) /\
   In (r_ponder r) (map Z.of_N (playable zob (fst (make zob b (Z.to_N (r_move r))))))).
Proof.
  intros fuel o st b r st' b' HR HV Ht Hw H.
  destruct (go_leg fuel o st b r st' b' (conj HR HV) (conj Ht Hw) H) as (_ & _ & Hm & _).
  destruct Hm as [[_ Hp]|[Hm [Hp|Hp]]]; [left; exact Hp|left; exact Hp|right; split; assumption].
Qed.
Print Assumptions C07_model_ponder_legal.

(* non-vacuity: the start position and a new engine state meet the hypotheses (Properties/C06_model2.v
   C06_model2_hypotheses); in a real run of the model (depth 3) the last reported variation has three
   moves, it is a legal line, move and ponder move are its first two moves *)
Fixpoint legal_pvb (b : board) (pv : list Z) : bool :=
  match pv with
  | [] => true
  | m :: rest => existsb (N.eqb (Z.to_N m)) (playable zob b) && legal_pvb (fst (make zob b (Z.to_N m))) rest
  end.

Example C07_model2_run :
  match new_state 32000 with
  | Ok s0 =>
      match go search_fuel (mkO (-1) (-1) 3) s0 ex_start with
      | Ok (r, _, _) =>
          match last_line (r_reports r) with
          | Some (m :: p :: q :: nil) => r_move r = m /\ r_ponder r = p /\ legal_pvb ex_start [m; p; q] = true
          | _ => False
          end
      | _ => False end
  | _ => False end.
Proof. vm_compute. repeat split. Qed.
