(* C09, closed form - the direct checkmate / stalemate tests against the engine's OWN move generator,
   and in every position reached by play.  Statements only; proofs in Proofs/ComposeMate.v,
   Proofs/ComposeReach.v (composition of C09 with C01, valid_step and succ_normal_ep).

   C09 (Properties/C09.v) is stated against the rules' [legal_moves] and carries [normal_ep]: the
   position follows the engine's convention "an en-passant target is recorded only when a capture is
   legal".  C01 identifies [legal_moves] with the engine's [playable] moves, which gives
   [C09_statement_playable] of Properties/C09.v.  [normal_ep] holds, by construction of MakeMove (C02),
   in every position reached by AT LEAST ONE move; for the root position it is a hypothesis (a FEN may
   carry a dead en-passant square: known finding fen-ep-flag / F8). *)
From Coq Require Import NArith ZArith List Bool.
From Chess3 Require Import Base.Bits Model.Types Model.BoardDef Model.Board Model.Movegen Model.Mate Gen.Zobrist
     Spec.Chess Spec.Rep Spec.Play Proofs.MateSound Proofs.MateExamples Proofs.ComposeMate Proofs.ComposeReach.
From Chess3 Require Proofs.UndoMove Proofs.BoardExamples.
Import ListNotations.

(* C09_statement_playable of Properties/C09.v (restated here: Properties files are not imported) *)
Definition C09_statement_playable : Prop :=
  forall (z : zobrist) (b : board), Rep b -> valid (abs b) = true -> normal_ep (abs b) = true ->
    (in_check b (stm b) = true -> (is_checkmate b = true <-> playable z b = [])) /\
    (in_check b (stm b) = false -> (is_stalemate b = true <-> playable z b = [])).

Theorem C09_playable : C09_statement_playable.
Proof. exact c09_playable. Qed.
Print Assumptions C09_playable.

(* every position of a game after the first move: no hypothesis about the en-passant state *)
Theorem C09_reach : forall z b0 ms, UndoMove.zob_w64 z ->
  Rep b0 -> valid (abs b0) = true -> legal_line z b0 ms -> ms <> [] ->
  let b := run z b0 ms in
  Rep b /\ valid (abs b) = true /\ normal_ep (abs b) = true /\
  (in_check b (stm b) = true -> (is_checkmate b = true <-> playable z b = [])) /\
  (in_check b (stm b) = false -> (is_stalemate b = true <-> playable z b = [])).
Proof.
  intros z b0 ms Hz HR HV HL Hne. cbv zeta.
  destruct (run_inv_Rep z Hz ms b0 HR HV HL) as (R & V & Nm & _).
  pose proof (Nm (or_intror Hne)) as Nn.
  split; [exact R|]. split; [exact V|]. split; [exact Nn|]. apply c09_playable; assumption.
Qed.
Print Assumptions C09_reach.

(* ... and the root too when it follows the convention *)
Theorem C09_reach_root : forall z b0 ms, UndoMove.zob_w64 z ->
  Rep b0 -> valid (abs b0) = true -> normal_ep (abs b0) = true -> legal_line z b0 ms ->
  let b := run z b0 ms in
  (in_check b (stm b) = true -> (is_checkmate b = true <-> playable z b = [])) /\
  (in_check b (stm b) = false -> (is_stalemate b = true <-> playable z b = [])).
Proof.
  intros z b0 ms Hz HR HV HN HL. cbv zeta.
  destruct (run_inv_Rep z Hz ms b0 HR HV HL) as (R & V & Nm & _).
  apply c09_playable; [exact R|exact V|apply Nm; left; exact HN].
Qed.
Print Assumptions C09_reach_root.

(* non-vacuity: the mate and stalemate positions of Properties/C09.v have no playable move; fool's
   mate (1.f3 e5 2.g4 Qh4#) is a legal line from the start position after which IsCheckmate answers
   true and nothing is playable *)
Definition fools_mate : list N := [mk_move 13 21 0; mk_move 52 36 0; mk_move 14 30 0; mk_move 59 31 0].

Example C09_closed_nonvacuous :
  Rep ex_mate /\ valid (abs ex_mate) = true /\ normal_ep (abs ex_mate) = true /\
  is_checkmate ex_mate = true /\ playable zob_real ex_mate = [] /\
  Rep ex_stale /\ valid (abs ex_stale) = true /\ normal_ep (abs ex_stale) = true /\
  is_stalemate ex_stale = true /\ playable zob_real ex_stale = [] /\
  Rep BoardExamples.ex_start /\ valid (abs BoardExamples.ex_start) = true /\
  legal_line zob_real BoardExamples.ex_start fools_mate /\
  in_check (run zob_real BoardExamples.ex_start fools_mate) White = true /\
  is_checkmate (run zob_real BoardExamples.ex_start fools_mate) = true /\
  playable zob_real (run zob_real BoardExamples.ex_start fools_mate) = [].
Proof. vm_compute. repeat split; reflexivity. Qed.
