(* Property C19 (a): the real-number evaluation with the shipped coefficients stays within 2 centipawns
   of the engine's integer evaluation (hence inside the 2.25 envelope).

   1. sigmoid: | sigm[clamp k] - 600/(1+exp(-0.2 (k-50))) | <= 1/2 for EVERY integer k
      (100 table entries by interval arithmetic, monotone tails for the clamp);
   2. int16 (eval_Z) = non-wrapping integers (eval_U) where nothing overflows (no_wrap);
   3. integers -> reals is a morphism (Proofs/EvalMorph.v): all accumulators agree EXACTLY up to the four
      sigmoid terms, so mgScore / egScore differ by at most 1 each; the taper has weight <= 1 for a
      halfmove clock in 0..200; the two truncating divisions lose less than 1. *)
From Coq Require Import NArith ZArith List Bool Lia Reals Lra Psatz.
From Interval Require Import Tactic.
From Chess3 Require Import Base.Bits Base.Word Model.Types Model.Att Model.BoardDef Gen.Coeffs
  Model.Eval Model.EvalU Model.EvalR Proofs.EvalMorph.
Import ListNotations.

(* ------------------------------------------------------------------------------------------ *)
(* 1. the sigmoid table *)
Open Scope R_scope.

Lemma sigm_len : length sigm = 100%nat.
Proof. reflexivity. Qed.

Ltac tab_case :=
  match goal with |- context [Z.of_nat ?m] =>
    let v := eval vm_compute in (Z.of_nat m) in change (Z.of_nat m) with v end;
  match goal with |- context [nth ?m sigm 0%Z] =>
    let v := eval vm_compute in (nth m sigm 0%Z) in change (nth m sigm 0%Z) with v end;
  interval.

Lemma sigmoid_tab (n : nat) : (n < 100)%nat ->
  Rabs (sigmoid_R (IZR (Z.of_nat n)) - IZR (nth n sigm 0%Z)) <= 1 / 2.
Proof.
  intros H. unfold sigmoid_R.
  do 100 (destruct n as [| n]; [tab_case |]). lia.
Qed.

Lemma Rabs_le_inv' x a : Rabs x <= a -> - a <= x <= a.
Proof. unfold Rabs. destruct (Rcase_abs x); lra. Qed.

Lemma exp_mono x y : x <= y -> exp x <= exp y.
Proof. intros [H | ->]; [left; apply exp_increasing, H | right; reflexivity]. Qed.

Lemma sigmoid_low x : x <= 0 -> 0 < sigmoid_R x <= 1 / 2.
Proof.
  intros Hx. unfold sigmoid_R. set (E := exp (- (2 / 10) * (x - 50))).
  assert (HE : 1199 <= E).
  { apply Rle_trans with (exp 10); [interval | apply exp_mono; lra]. }
  set (q := 600 / (1 + E)). assert (Hq : q * (1 + E) = 600) by (unfold q; field; lra).
  split; nra.
Qed.

Lemma sigmoid_high x : 99 <= x -> 600 - 1 / 2 <= sigmoid_R x < 600.
Proof.
  intros Hx. unfold sigmoid_R. set (E := exp (- (2 / 10) * (x - 50))).
  assert (HE : E <= 1 / 1500).
  { apply Rle_trans with (exp (- (98 / 10))); [apply exp_mono; lra | interval]. }
  assert (HE0 : 0 < E) by apply exp_pos.
  set (q := 600 / (1 + E)). assert (Hq : q * (1 + E) = 600) by (unfold q; field; lra).
  split; nra.
Qed.

(* the table entry used for ANY integer argument is within 1/2 of the closed form *)
Lemma sigmoid_bound (k : Z) : Rabs (sigmoid_R (IZR k) - IZR (sigmoid_U k)) <= 1 / 2.
Proof.
  unfold sigmoid_U. rewrite sigm_len. change (Z.of_nat 100 - 1)%Z with 99%Z. unfold clamp.
  destruct (Z_lt_le_dec k 0) as [Hlo | Hlo].
  - replace (Z.min 99 (Z.max k 0)) with 0%Z by lia. change (nth (Z.to_nat 0) sigm 0%Z) with 0%Z.
    pose proof (sigmoid_low (IZR k) (IZR_le k 0 ltac:(lia))) as H.
    rewrite Rminus_0_r. apply Rabs_le. lra.
  - destruct (Z_lt_le_dec 99 k) as [Hhi | Hhi].
    + replace (Z.min 99 (Z.max k 0)) with 99%Z by lia. change (nth (Z.to_nat 99) sigm 0%Z) with 600%Z.
      pose proof (sigmoid_high (IZR k) (IZR_le 99 k ltac:(lia))) as H. apply Rabs_le. lra.
    + replace (Z.min 99 (Z.max k 0)) with k by lia.
      rewrite <- (Z2Nat.id k) at 1 by lia. apply sigmoid_tab. lia.
Qed.

(* ------------------------------------------------------------------------------------------ *)
(* 2. int16 arithmetic is arithmetic modulo 2^16 *)
Open Scope Z_scope.
Ltac Zify.zify_post_hook ::= Z.to_euclidean_division_equations.

Lemma wrapsc_in x : in_score x = true -> wrapsc x = x.
Proof.
  unfold in_score, wrapsc, wrapS. change (2 ^ (score_bits - 1)) with 32768. intros H.
  apply andb_prop in H. destruct H as [H1 H2]. apply Z.leb_le in H1. apply Z.ltb_lt in H2. lia.
Qed.

Lemma wrapsc_mod x : wrapsc x mod 65536 = x mod 65536.
Proof. unfold wrapsc, wrapS. change (2 ^ (score_bits - 1)) with 32768. lia. Qed.

Lemma wrapsc_eq a b : a mod 65536 = b mod 65536 -> wrapsc a = wrapsc b.
Proof. unfold wrapsc, wrapS. change (2 ^ (score_bits - 1)) with 32768. lia. Qed.

Lemma wrapsc_add a b : wrapsc (a + b) = wrapsc (wrapsc a + wrapsc b).
Proof. apply wrapsc_eq. rewrite (Zplus_mod (wrapsc a)), !wrapsc_mod, <- Zplus_mod. reflexivity. Qed.
Lemma wrapsc_sub a b : wrapsc (a - b) = wrapsc (wrapsc a - wrapsc b).
Proof. apply wrapsc_eq. rewrite (Zminus_mod (wrapsc a)), !wrapsc_mod, <- Zminus_mod. reflexivity. Qed.
Lemma wrapsc_mul a b : wrapsc (a * b) = wrapsc (wrapsc a * wrapsc b).
Proof. apply wrapsc_eq. rewrite (Zmult_mod (wrapsc a)), !wrapsc_mod, <- Zmult_mod. reflexivity. Qed.

Lemma sig_ZU k : s_sigmoid ops_Z k = wrapsc (s_sigmoid ops_U k).
Proof. reflexivity. Qed.

Lemma taper_ZU a b c d e : s_taper ops_Z a b c d e = wrapsc (s_taper ops_U a b c d e).
Proof. reflexivity. Qed.

Section ZU.
Variable C : CoeffSet Z.
Hypothesis HC : coeff_map wrapsc C = C.    (* the coefficients are int16 values *)

Let hadd : forall a b, wrapsc (s_add ops_U a b) = s_add ops_Z (wrapsc a) (wrapsc b) := wrapsc_add.
Let hsub : forall a b, wrapsc (s_sub ops_U a b) = s_sub ops_Z (wrapsc a) (wrapsc b) := wrapsc_sub.
Let hmul : forall a b, wrapsc (s_mul ops_U a b) = s_mul ops_Z (wrapsc a) (wrapsc b) := wrapsc_mul.
Let hof : forall n, wrapsc (s_of_int ops_U n) = s_of_int ops_Z n := fun n => eq_refl.

Lemma pv_ZU b : add_piece_values ops_Z C b = map (bmap wrapsc) (add_piece_values ops_U C b).
Proof. rewrite <- (add_piece_values_morph ops_U ops_Z wrapsc hmul hof C b), HC. reflexivity. Qed.
Lemma knbvk_ZU b : knbvk_terms ops_Z C b = map (bmap wrapsc) (knbvk_terms ops_U C b).
Proof. rewrite <- (knbvk_terms_morph ops_U ops_Z wrapsc hmul hof C b), HC. reflexivity. Qed.
Lemma pre_ZU b : pre_terms ops_Z C b = map (bmap wrapsc) (pre_terms ops_U C b).
Proof. rewrite <- (pre_terms_morph ops_U ops_Z wrapsc hmul hof C b), HC. reflexivity. Qed.
Lemma ka_ZU b s c : ka_sum ops_Z C b s c = wrapsc (ka_sum ops_U C b s c).
Proof. unfold ka_sum. rewrite pre_ZU. apply (total_morph ops_U ops_Z wrapsc hadd hof). Qed.

Lemma all_ZU b :
  in_score (ka_sum ops_U C b KA0 White) = true -> in_score (ka_sum ops_U C b KA0 Black) = true ->
  in_score (ka_sum ops_U C b KA1 White) = true -> in_score (ka_sum ops_U C b KA1 Black) = true ->
  all_terms ops_Z C b = map (bmap wrapsc) (all_terms ops_U C b).
Proof.
  intros K1 K2 K3 K4.
  unfold all_terms. rewrite !main_terms_pre, !add_king_attacks_ka, !ka_ZU.
  rewrite (wrapsc_in _ K1), (wrapsc_in _ K2), (wrapsc_in _ K3), (wrapsc_in _ K4). rewrite pv_ZU, pre_ZU, !map_app.
  rewrite !sig_ZU. reflexivity.
Qed.

Lemma endgame_ZU b l : endgame_score ops_Z b (map (bmap wrapsc) l) = wrapsc (endgame_score ops_U b l).
Proof. unfold endgame_score. rewrite !(total_morph ops_U ops_Z wrapsc hadd hof), <- hsub. reflexivity. Qed.

Lemma mg_ZU b : all_terms ops_Z C b = map (bmap wrapsc) (all_terms ops_U C b) ->
  mg_score ops_Z C b = wrapsc (mg_score ops_U C b).
Proof. intros Hall. unfold mg_score. rewrite Hall, !(total_morph ops_U ops_Z wrapsc hadd hof), <- hsub. reflexivity. Qed.

Lemma eg_ZU b : all_terms ops_Z C b = map (bmap wrapsc) (all_terms ops_U C b) ->
  eg_score ops_Z C b = wrapsc (eg_score ops_U C b).
Proof. intros Hall. unfold eg_score. rewrite Hall, !(total_morph ops_U ops_Z wrapsc hadd hof), <- hsub. reflexivity. Qed.

Lemma eval_Z_eq_U b : no_wrap C b = true -> eval_Z C b = eval_U C b.
Proof.
  unfold no_wrap, eval_Z, eval_U. rewrite !eval_gen_unfold.
  destruct (insufficient_mat b); [reflexivity|].
  destruct (knbvk b).
  - intros H. rewrite pv_ZU, knbvk_ZU, <- map_app, endgame_ZU. exact (wrapsc_in _ H).
  - intros H.
    apply andb_prop in H; destruct H as [H Kr]. apply andb_prop in H; destruct H as [H Keg].
    apply andb_prop in H; destruct H as [H Kmg]. apply andb_prop in H; destruct H as [H K4].
    apply andb_prop in H; destruct H as [H K3]. apply andb_prop in H; destruct H as [K1 K2].
    pose proof (all_ZU b K1 K2 K3 K4) as Hall.
    rewrite (mg_ZU b Hall), (eg_ZU b Hall), (wrapsc_in _ Kmg), (wrapsc_in _ Keg).
    rewrite taper_ZU. exact (wrapsc_in _ Kr).
Qed.

End ZU.

(* ------------------------------------------------------------------------------------------ *)
(* 3. integers -> reals *)

Lemma total_all_MG {T} (O : score_ops T) C b c :
  total O MG c (all_terms O C b) =
  s_add O (total O MG c (add_piece_values O C b ++ pre_terms O C b)) (s_sigmoid O (ka_sum O C b KA0 c)).
Proof.
  unfold all_terms. rewrite main_terms_pre, app_assoc, total_app, add_king_attacks_ka. destruct c; reflexivity.
Qed.

Lemma total_all_EG {T} (O : score_ops T) C b c :
  total O EG c (all_terms O C b) =
  s_add O (total O EG c (add_piece_values O C b ++ pre_terms O C b)) (s_sigmoid O (ka_sum O C b KA1 c)).
Proof.
  unfold all_terms. rewrite main_terms_pre, app_assoc, total_app, add_king_attacks_ka. destruct c; reflexivity.
Qed.

Lemma phase_nonneg b : 0 <= phase_of b.
Proof.
  unfold phase_of, piece_types. cbn [fold_left].
  assert (Hc : forall x, 0 <= cnt x) by (intros x; unfold cnt; lia).
  change (nthN Phase Pawn 0) with 0. change (nthN Phase Knight 0) with 1. change (nthN Phase Bishop 0) with 1.
  change (nthN Phase Rook 0) with 2. change (nthN Phase Queen 0) with 4.
  repeat match goal with |- context [cnt ?x] => let h := fresh in pose proof (Hc x) as h; generalize dependent (cnt x); intros end.
  nia.
Qed.

Open Scope R_scope.

Lemma quot_close (v : Z) : Rabs (IZR v / 2400 - IZR (Z.quot (Z.quot v MaxPhase) 100)) < 1.
Proof.
  change MaxPhase with 24%Z. rewrite Z.quot_quot by lia. change (24 * 100)%Z with 2400%Z.
  pose proof (Z.quot_rem' v 2400) as Hv. pose proof (Z.rem_bound_abs v 2400 ltac:(lia)) as Hr.
  set (q := Z.quot v 2400) in *. set (r := Z.rem v 2400) in *.
  assert (Hr' : (-2400 < r < 2400)%Z) by lia.
  rewrite Hv, plus_IZR, mult_IZR.
  destruct Hr' as [H1 H2]. apply IZR_lt in H1, H2.
  apply Rabs_def1; lra.
Qed.

Lemma taper_close (mgU egU p q f : Z) (mgR egR : R) :
  (0 <= p)%Z -> (0 <= q)%Z -> (p + q = 24)%Z -> (0 <= f <= 200)%Z ->
  Rabs (mgR - IZR mgU) <= 1 -> Rabs (egR - IZR egU) <= 1 ->
  Rabs (taper_R mgR egR p q f - IZR (taper_U mgU egU p q f)) < 2.
Proof.
  intros Hp Hq Hpq Hf Hm He. unfold taper_R, taper_U.
  assert (Hw : wrapS fifty_bits (100 - f) = (100 - f)%Z).
  { unfold wrapS. change (2 ^ (fifty_bits - 1))%Z with 32768%Z. lia. }
  rewrite Hw. set (v := ((mgU * p + egU * q) * (100 - f))%Z).
  pose proof (quot_close v) as Hq1.
  set (z := IZR (Z.quot (Z.quot v MaxPhase) 100)) in *.
  assert (Hv : IZR v = (IZR mgU * IZR p + IZR egU * IZR q) * (100 - IZR f)).
  { unfold v. rewrite mult_IZR, plus_IZR, !mult_IZR, minus_IZR. reflexivity. }
  change MaxPhase with 24%Z.
  set (d1 := mgR - IZR mgU) in *. set (d2 := egR - IZR egU) in *.
  replace mgR with (IZR mgU + d1) by (unfold d1; ring). replace egR with (IZR egU + d2) by (unfold d2; ring).
  assert (HP : 0 <= IZR p) by (apply IZR_le; lia). assert (HQ : 0 <= IZR q) by (apply IZR_le; lia).
  assert (HPQ : IZR p + IZR q = 24) by (rewrite <- plus_IZR, Hpq; reflexivity).
  assert (HW : -100 <= 100 - IZR f <= 100).
  { destruct Hf as [F1 F2]. apply IZR_le in F1, F2. lra. }
  set (P := IZR p) in *. set (Q := IZR q) in *. set (W := 100 - IZR f) in *.
  apply Rabs_def2 in Hq1. destruct Hq1 as [A1 A2].
  assert (B1 : -1 <= d1 <= 1) by (apply Rabs_le_inv' in Hm; lra).
  assert (B2 : -1 <= d2 <= 1) by (apply Rabs_le_inv' in He; lra).
  set (m := d1 * P + d2 * Q).
  assert (Hm24 : -24 <= m <= 24) by (unfold m; nra).
  assert (HmW : -2400 <= m * W <= 2400) by nra.
  replace (((IZR mgU + d1) * P + (IZR egU + d2) * Q) * W / 24 / 100)
    with (IZR v / 2400 + m * W / 2400) by (rewrite Hv; unfold m; field).
  apply Rabs_def1; lra.
Qed.

Section UR.
Variable C : CoeffSet Z.
Let CR := coeff_map IZR C.

Let hadd : forall a b, IZR (s_add ops_U a b) = s_add ops_R (IZR a) (IZR b) := plus_IZR.
Let hsub : forall a b, IZR (s_sub ops_U a b) = s_sub ops_R (IZR a) (IZR b) := minus_IZR.
Let hmul : forall a b, IZR (s_mul ops_U a b) = s_mul ops_R (IZR a) (IZR b) := mult_IZR.
Let hof : forall n, IZR (s_of_int ops_U n) = s_of_int ops_R n := fun n => eq_refl.

(* every accumulator before addKingAttacks has EXACTLY the integer value *)
Lemma base_UR b s c :
  total ops_R s c (add_piece_values ops_R CR b ++ pre_terms ops_R CR b) =
  IZR (total ops_U s c (add_piece_values ops_U C b ++ pre_terms ops_U C b)).
Proof.
  unfold CR. rewrite (add_piece_values_morph ops_U ops_R IZR hmul hof), (pre_terms_morph ops_U ops_R IZR hmul hof), <- map_app.
  apply (total_morph ops_U ops_R IZR hadd hof).
Qed.

Lemma ka_UR b s c : ka_sum ops_R CR b s c = IZR (ka_sum ops_U C b s c).
Proof. apply (ka_sum_morph ops_U ops_R IZR hadd hmul hof). Qed.

Lemma mg_UR b : Rabs (mg_score ops_R CR b - IZR (mg_score ops_U C b)) <= 1.
Proof.
  unfold mg_score. rewrite !total_all_MG, !base_UR, !ka_UR. cbn [s_sub s_add s_sigmoid ops_R ops_U].
  rewrite minus_IZR, !plus_IZR.
  pose proof (sigmoid_bound (ka_sum ops_U C b KA0 (stm b))) as H1.
  pose proof (sigmoid_bound (ka_sum ops_U C b KA0 (flip (stm b)))) as H2.
  apply Rabs_le_inv' in H1, H2. apply Rabs_le. lra.
Qed.

Lemma eg_UR b : Rabs (eg_score ops_R CR b - IZR (eg_score ops_U C b)) <= 1.
Proof.
  unfold eg_score. rewrite !total_all_EG, !base_UR, !ka_UR. cbn [s_sub s_add s_sigmoid ops_R ops_U].
  rewrite minus_IZR, !plus_IZR.
  pose proof (sigmoid_bound (ka_sum ops_U C b KA1 (stm b))) as H1.
  pose proof (sigmoid_bound (ka_sum ops_U C b KA1 (flip (stm b)))) as H2.
  apply Rabs_le_inv' in H1, H2. apply Rabs_le. lra.
Qed.

Lemma eval_R_near_U b : (0 <= fifty b <= 200)%Z -> Rabs (eval_R CR b - IZR (eval_U C b)) < 2.
Proof.
  intros Hf. unfold eval_R, eval_U. rewrite !eval_gen_unfold.
  destruct (insufficient_mat b).
  - change (zero ops_R) with 0. change (zero ops_U) with 0%Z. rewrite Rminus_0_r, Rabs_R0. lra.
  - destruct (knbvk b).
    + unfold endgame_score, CR.
      rewrite (add_piece_values_morph ops_U ops_R IZR hmul hof), (knbvk_terms_morph ops_U ops_R IZR hmul hof), <- map_app.
      rewrite !(total_morph ops_U ops_R IZR hadd hof), <- hsub.
      rewrite Rminus_diag_eq by reflexivity. rewrite Rabs_R0. lra.
    + pose proof (phase_nonneg b) as Hph.
      apply taper_close; try assumption; try (change MaxPhase with 24%Z; lia).
      * apply mg_UR.
      * apply eg_UR.
Qed.

End UR.

(* ------------------------------------------------------------------------------------------ *)
(* the shipped coefficients *)

Lemma coefficients_int16 : coeff_map wrapsc Coefficients = Coefficients.
Proof. vm_compute. reflexivity. Qed.

Theorem envelope_no_wrap (b : board) : (0 <= fifty b <= 200)%Z -> no_wrap Coefficients b = true ->
  Rabs (white_rel_R b (eval_R coeffs_R b) - IZR (white_rel_Z b (eval_Z Coefficients b))) < 2.
Proof.
  intros Hf Hn. rewrite (eval_Z_eq_U Coefficients coefficients_int16 b Hn).
  pose proof (eval_R_near_U Coefficients b Hf) as H. unfold coeffs_R, white_rel_R, white_rel_Z.
  destruct (stm b); [exact H|].
  rewrite opp_IZR. replace (- eval_R (coeff_map IZR Coefficients) b - - IZR (eval_U Coefficients b))
    with (- (eval_R (coeff_map IZR Coefficients) b - IZR (eval_U Coefficients b))) by ring.
  rewrite Rabs_Ropp. exact H.
Qed.

(* the single-pass function of stream c19z is eval_U together with no_wrap *)
Lemma eval_nowrap_fast_spec c b : eval_nowrap_fast c b = (eval_U c b, no_wrap c b).
Proof.
  unfold eval_nowrap_fast, no_wrap, eval_U. rewrite !eval_gen_unfold.
  destruct (insufficient_mat b); [reflexivity|]. destruct (knbvk b); [reflexivity|].
  unfold mg_score, eg_score, ka_sum, all_terms. rewrite !main_terms_pre.
  cbn [s_taper s_sub ops_U]. cbv zeta. reflexivity.
Qed.
