package streams

import (
	"fmt"
	"runtime"
	"runtime/debug"
	"sort"
	"strings"

	"github.com/paulsonkoly/chess-3/board"
	. "github.com/paulsonkoly/chess-3/chess"
	"github.com/paulsonkoly/chess-3/move"
	"github.com/paulsonkoly/chess-3/transp"

	"verifharness/hx"
)

// c15: operation sequences on a transposition table.
//
//	input : size0 npool pool... nops (kind hash gen depth ply move value type)*
//	        kind 0 store, 1 probe, 2 clear, 3 resize(to `hash` bytes)+clear, 4 resize only
//	output: per probe (hit depth type value(ply) move); every mutating op is followed by a probe
//	        of all pool keys at the op's ply.
//
// m64: [w key] -> [ok ix] through the VerifMatch64 hook.
func init() {
	hx.Register(&hx.Stream{Name: "c15", Gen: genC15, Run: runC15, Shrink: shrinkC15, Describe: describeC15})
	hx.Register(&hx.Stream{Name: "m64", Gen: genM64, Run: runM64})
	hx.Register(&hx.Stream{Name: "c15big", Gen: genC15Big, Run: runC15Big, Shrink: shrinkC15Big, Describe: describeC15Big})
	hx.Register(&hx.Stream{Name: "c15multi", Gen: genC15Multi, Run: runC15Multi, Shrink: shrinkC15Multi, Describe: describeC15Multi})
}

func c15Probe(out *hx.Nums, t *transp.Table, h uint64, ply Depth) {
	e, ok := t.LookUp(board.Hash(h))
	if !ok {
		out.U(0, 0, 0, 0, 0)
		return
	}
	out.U(1).I(int64(e.Depth()), int64(e.Type()), int64(e.Value(ply)), int64(e.Move))
}

func runC15(a hx.Args) string {
	size0 := a.Int(0)
	np := a.Int(1)
	if np < 0 {
		np = 0
	}
	if 2+np >= a.Len() {
		return ""
	}
	pool := make([]uint64, np)
	for i := range pool {
		pool[i] = a.U64(2 + i)
	}
	nops := a.Int(2 + np)
	base := 3 + np
	t := transp.New(size0)
	out := &hx.Nums{}
	mapped := c15Documented(t, pool)
	defer func() { _ = mapped }()
	snap := func(ply Depth) {
		for _, h := range pool {
			c15Probe(out, t, h, ply)
		}
	}
	for j := 0; j < nops && base+8*j+7 < a.Len(); j++ {
		o := base + 8*j
		kind := a.I64(o)
		ply := Depth(a.I64(o + 4))
		switch kind {
		case 0:
			t.Insert(board.Hash(a.U64(o+1)), transp.Gen(a.I64(o+2)), Depth(a.I64(o+3)), ply,
				move.Move(a.I64(o+5)), Score(a.I64(o+6)), transp.Type(a.I64(o+7)))
			snap(ply)
		case 1:
			c15Probe(out, t, a.U64(o+1), ply)
		case 2:
			t.Clear()
			snap(ply)
		case 3:
			t.Resize(a.Int(o + 1))
			t.Clear()
			mapped = mapped && c15Documented(t, pool)
			snap(ply)
		case 4:
			t.Resize(a.Int(o + 1))
			mapped = mapped && c15Documented(t, pool)
			snap(ply)
		}
	}
	if !mapped {
		return "-5" // the table maps keys to buckets in another way than documented: see Spec/TTSpec.v other_mapping
	}
	return out.String()
}

// c15Documented: does the table place every key of the pool in the bucket the documented mapping names
// (Lemire's reduction of the low 32 bits of the hash over the number of buckets)?
func c15Documented(t *transp.Table, pool []uint64) (ok bool) {
	defer func() {
		if recover() != nil {
			ok = true // an index panic is the runner's business, not this comparison's
		}
	}()
	nb := uint64(t.VerifLen())
	if nb == 0 {
		return true
	}
	for _, h := range pool {
		if uint64(t.VerifBucketIx(board.Hash(h))) != ((h&0xffffffff)*nb)>>32 {
			return false
		}
	}
	return true
}

type c15op struct {
	kind               int
	hash               uint64
	gen, d, ply, m, v  int64
	typ                int64
}

// hashFor builds a hash that falls into bucket b of nb buckets with signature sig.
func hashFor(rng *hx.Rng, nb, b uint64, sig uint64) uint64 {
	lo := (b<<32 + nb - 1) / nb // smallest low word with low*nb>>32 == b
	hi := ((b+1)<<32 + nb - 1) / nb
	if hi > 1<<32 {
		hi = 1 << 32
	}
	low := lo
	if hi > lo {
		low = lo + rng.U64()%(hi-lo)
	}
	mid := rng.U64() & 0xffff
	return sig<<48 | mid<<32 | low
}

var c15Sizes = []int{1, 1, 2, 3, 4, 5, 7, 8, 16, 33, 64, 100}

func c15Value(rng *hx.Rng) int64 {
	inf, inv := int64(Inf), int64(Inv)
	switch rng.Intn(9) {
	case 0:
		return rng.Range(-300, 300)
	case 1:
		return rng.Range(inf-64-4, inf+4)
	case 2:
		return -rng.Range(inf-64-4, inf+4)
	case 3:
		return rng.Range(inf-4, inf+64+4)
	case 4:
		return -rng.Range(inf-4, inf+64+4)
	case 5:
		if rng.Bool() {
			return inv
		}
		return -inv
	case 6:
		return rng.Range(-inf, inf)
	case 7:
		return rng.Range(inf-2*64, inf-64+2) * (2*int64(rng.Intn(2)) - 1)
	default:
		return rng.Range(-3000, 3000)
	}
}

func genC15(rng *hx.Rng, n int, tier string, emit func(hx.Input)) {
	for cnt := 0; cnt < n; cnt++ {
		nb := uint64(c15Sizes[rng.Intn(len(c15Sizes))])
		switch {
		case rng.Chance(0.02):
			nb = 1000 + uint64(rng.Intn(200))
		case rng.Chance(0.001) || (tier == "thorough" && rng.Chance(0.02)):
			nb = 32768 // 1 MB (the list model pays O(buckets) per access: kept rare and short)
		}
		malformed := rng.Chance(0.06)
		// key pool: a main bucket with more signatures than lanes, the same signatures in another
		// bucket, the same (bucket, signature) under another hash, signature 0
		nsig := 3 + rng.Intn(5)
		sigs := make([]uint64, nsig)
		for i := range sigs {
			sigs[i] = 1 + rng.U64()%0xffff
			if rng.Chance(0.15) { // near misses of the lane trick: low/high bit patterns
				sigs[i] = []uint64{1, 0x8000, 0x7fff, 0xffff, 0x0100, 0x00ff, 0x8001}[rng.Intn(7)]
			}
		}
		if rng.Chance(0.5) {
			sigs[rng.Intn(nsig)] = 0
		}
		b1 := rng.U64() % nb
		b2 := rng.U64() % nb
		var pool []uint64
		for _, s := range sigs {
			pool = append(pool, hashFor(rng, nb, b1, s))
		}
		pool = append(pool, hashFor(rng, nb, b1, sigs[0]))   // same bucket + signature, other hash
		pool = append(pool, hashFor(rng, nb, b2, sigs[0]))   // other bucket (if nb > 1), same signature
		pool = append(pool, hashFor(rng, nb, b2, sigs[nsig-1]))
		if rng.Bool() {
			pool = append(pool, rng.U64())
		}
		np := len(pool)

		nops := 5 + rng.Intn(60)
		if rng.Chance(0.05) {
			nops = 200 + rng.Intn(201)
		}
		if nb > 10000 {
			nops = 5 + rng.Intn(20)
		}
		gen := []int64{0, 0, 253, 254, 255, int64(rng.Intn(256))}[rng.Intn(6)]
		wrapped, resized, keepDeeper := false, false, false
		curNb := nb
		stores := 0
		ops := make([]c15op, 0, nops)
		lastDepth := map[uint64]int64{}
		lastStore := map[uint64]c15op{}
		probeNext := uint64(0)
		haveProbe := false
		restores := 0
		for j := 0; j < nops; j++ {
			if rng.Chance(0.12) {
				gen = (gen + 1) & 255
				if gen == 0 {
					wrapped = true
				}
			}
			h := pool[rng.Intn(np)]
			o := c15op{hash: h, gen: gen, d: int64(rng.Intn(64)), ply: int64(rng.Intn(64)), typ: int64(rng.Intn(3)), v: c15Value(rng)}
			if !rng.Chance(0.35) {
				o.m = 1 + int64(rng.U64()%0xffff)
			}
			// quiescence stores at depth 0: a fifth of the stores
			if rng.Chance(0.2) {
				o.d = 0
			}
			r := rng.Intn(100)
			if haveProbe {
				// the probe that follows a re-store
				haveProbe = false
				r = 62
				h = probeNext
				o.hash = h
			}
			switch {
			case r < 62:
				o.kind = 0
				stores++
				// re-store (seeded change C15-H skipped a "redundant" second store): the same key again with
				// everything as in its previous store except ONE or TWO fields, then a probe of that key
				if prev, ok := lastStore[h]; ok && rng.Chance(0.3) {
					gnow := o.gen
					o = prev
					o.gen = gnow
					for k := 1 + rng.Intn(2); k > 0; k-- {
						switch rng.Intn(7) {
						case 0, 1:
							o.m = 1 + int64(rng.U64()%0xffff) // another non-null move
						case 2:
							o.m = 0 // null move: the old one has to survive
						case 3:
							o.v += []int64{-1, 1, -64, 64}[rng.Intn(4)]
						case 4:
							o.d = []int64{0, prev.d + 1, max(0, prev.d-1), max(0, prev.d-3)}[rng.Intn(4)]
						case 5:
							o.typ = int64(rng.Intn(3))
						default:
							o.ply = int64(rng.Intn(64))
						}
					}
					restores++
					if rng.Chance(0.7) {
						probeNext, haveProbe = h, true
					}
				}
				lastStore[h] = o
				// provoke the keep-deeper rule: shallow bound after a deep entry of the same key
				if ld, ok := lastDepth[h]; ok && rng.Chance(0.3) && ld >= 3 {
					o.d = rng.Range(max(0, ld-5), ld-1)
					o.typ = int64(rng.Intn(2))
					keepDeeper = true
				}
				lastDepth[h] = o.d
				// (stores with depth / ply / bound type / generation outside their types' documented ranges were
				// generated here until the second batch of false-alarm probes: the property and the theorems are
				// about depth 0..63, ply 0..63, the three bound types and byte generations; how a table packs
				// out-of-range arguments is not constrained, and a harmless repacking of the depth/type byte
				// disagreed with the exact model on exactly those cases)
			case r < 90:
				o.kind = 1
				if rng.Chance(0.1) {
					o.hash = rng.U64()
				}
			case r < 93:
				o.kind = 2
				lastDepth = map[uint64]int64{}
				lastStore = map[uint64]c15op{}
			case r < 97:
				o.kind = 3
				nnb := uint64(c15Sizes[rng.Intn(len(c15Sizes))])
				if rng.Chance(0.5) {
					nnb = nb
				}
				o.hash = nnb * 32
				curNb = nnb
				resized = true
				lastDepth = map[uint64]int64{}
				lastStore = map[uint64]c15op{}
				if malformed && rng.Chance(0.3) {
					o.hash = []uint64{0, 31, 33, 48, ^uint64(0) - 31}[rng.Intn(5)]
				}
			case r < 98:
				o.kind = 4
				o.hash = uint64(c15Sizes[rng.Intn(len(c15Sizes))]) * 32
				resized = true
			default:
				o.kind = 2
			}
			ops = append(ops, o)
		}
		_ = curNb
		// scripted family (deliberate, not left to luck): fill; Resize(smaller); Clear; no store;
		// Resize(back up, inside the old allocation); Clear; everything must be gone
		regrow := false
		if nb >= 2 && !malformed && rng.Chance(0.06) {
			regrow = true
			resized = true
			ops = c15RegrowScript(rng, pool, nb, 1+rng.U64()%(nb-1), nb, gen)
			stores = len(pool)
		}
		size0 := int64(nb * 32)
		if malformed && rng.Chance(0.1) {
			size0 = []int64{0, 16, 40, -32}[rng.Intn(4)]
		}
		in, desc := c15Encode(size0, pool, ops)
		tags := []string{}
		switch {
		case nb == 1:
			tags = append(tags, "buckets=1")
		case nb <= 8:
			tags = append(tags, "buckets=2..8")
		case nb <= 100:
			tags = append(tags, "buckets=16..100")
		default:
			tags = append(tags, "buckets>=1000")
		}
		if nsig > 4 {
			tags = append(tags, "bucket-overflow")
		}
		if wrapped {
			tags = append(tags, "gen-wrap")
		}
		if resized {
			tags = append(tags, "resize")
		}
		if keepDeeper {
			tags = append(tags, "keep-deeper-candidate")
		}
		if restores > 0 {
			tags = append(tags, "re-store-one-field")
		}
		if malformed {
			tags = append(tags, "malformed")
		}
		if regrow {
			tags = append(tags, "shrink-clear-regrow-clear")
		}
		if nops >= 200 {
			tags = append(tags, "long")
		}
		emit(hx.Input{In: in, Desc: desc, Tags: tags, NonTrivial: stores >= 3})
	}
}

func runM64(a hx.Args) string {
	ix, ok := transp.VerifMatch64(a.U64(0), uint16(a.U64(1)))
	return (&hx.Nums{}).B(ok).Int(ix).String()
}

func genM64(rng *hx.Rng, n int, tier string, emit func(hx.Input)) {
	special := []uint64{0, 1, 0x7fff, 0x8000, 0x8001, 0xffff, 0xfffe, 0x0100, 0x00ff, 0x8080}
	for cnt := 0; cnt < n; cnt++ {
		var key uint64
		if rng.Chance(0.4) {
			key = special[rng.Intn(len(special))]
		} else {
			key = rng.U64() & 0xffff
		}
		var lanes [4]uint64
		matches := 0
		for i := range lanes {
			switch rng.Intn(6) {
			case 0:
				lanes[i] = key
			case 1:
				lanes[i] = key ^ (1 << uint(rng.Intn(16))) // one bit off
			case 2:
				lanes[i] = (key + 1) & 0xffff // the borrow neighbour
			case 3:
				lanes[i] = (key ^ 0x8000)
			case 4:
				lanes[i] = special[rng.Intn(len(special))]
			default:
				lanes[i] = rng.U64() & 0xffff
			}
			if lanes[i] == key {
				matches++
			}
		}
		w := lanes[0] | lanes[1]<<16 | lanes[2]<<32 | lanes[3]<<48
		tag := fmt.Sprintf("matching-lanes=%d", matches)
		emit(hx.Input{In: (&hx.Nums{}).U(w, key).String(), Desc: fmt.Sprintf("match64(%#016x, %#04x)", w, key),
			Tags: []string{tag}, NonTrivial: true})
	}
}

// c15Encode writes a case in the input format of the stream together with its readable replay.
func c15Encode(size0 int64, pool []uint64, ops []c15op) (string, string) {
	in := (&hx.Nums{}).I(size0).Int(len(pool)).U(pool...).Int(len(ops))
	var desc strings.Builder
	fmt.Fprintf(&desc, "New(%d) pool=%x ops:", size0, pool)
	for _, o := range ops {
		in.Int(o.kind).U(o.hash).I(o.gen, o.d, o.ply, o.m, o.v, o.typ)
		switch o.kind {
		case 0:
			fmt.Fprintf(&desc, " Insert(%#x,gen=%d,d=%d,ply=%d,m=%d,v=%d,typ=%d)", o.hash, o.gen, o.d, o.ply, o.m, o.v, o.typ)
		case 1:
			fmt.Fprintf(&desc, " LookUp(%#x).Value(%d)", o.hash, o.ply)
		case 2:
			desc.WriteString(" Clear()")
		case 3:
			fmt.Fprintf(&desc, " Resize(%d)+Clear()", int64(o.hash))
		case 4:
			fmt.Fprintf(&desc, " Resize(%d)", int64(o.hash))
		}
	}
	return in.String(), desc.String()
}

func c15Store(rng *hx.Rng, h uint64, gen int64) c15op {
	o := c15op{kind: 0, hash: h, gen: gen, d: int64(rng.Intn(64)), ply: int64(rng.Intn(64)), typ: int64(rng.Intn(3)), v: c15Value(rng)}
	if !rng.Chance(0.2) {
		o.m = 1 + int64(rng.U64()%0xffff)
	}
	return o
}

// c15ResizeClear is Resize(nb buckets) followed by Clear, either as the combined op or as the two
// separate calls.
func c15ResizeClear(rng *hx.Rng, nb uint64) []c15op {
	ply := int64(rng.Intn(64))
	if rng.Bool() {
		return []c15op{{kind: 3, hash: nb * 32, ply: ply}}
	}
	return []c15op{{kind: 4, hash: nb * 32, ply: ply}, {kind: 2, ply: ply}}
}

// c15RegrowScript: store every pool key; Resize(small)+Clear; no store; Resize(back)+Clear (every
// key must be gone: the sweep after the op checks it); then a few stores and a last Clear.
func c15RegrowScript(rng *hx.Rng, pool []uint64, nb, small, back uint64, gen int64) []c15op {
	var ops []c15op
	for _, h := range pool {
		ops = append(ops, c15Store(rng, h, gen))
	}
	ops = append(ops, c15ResizeClear(rng, small)...)
	if rng.Chance(0.3) {
		ops = append(ops, c15op{kind: 1, hash: pool[rng.Intn(len(pool))], ply: int64(rng.Intn(64))})
	}
	ops = append(ops, c15ResizeClear(rng, back)...)
	for i := 0; i < 3; i++ {
		ops = append(ops, c15Store(rng, pool[rng.Intn(len(pool))], gen))
	}
	ops = append(ops, c15op{kind: 2, ply: int64(rng.Intn(64))})
	return ops
}

// ---------------------------------------------------------------------------------------------
// c15big: a handful of big tables (8 MB and more: where an implementation may treat Clear / Resize
// differently, e.g. in parallel chunks) with odd bucket counts; keys aimed at the first and last
// buckets and at the chunk boundaries for 2..64 workers; GOMAXPROCS is part of the input.
//
//	input : gomaxprocs (0 = leave) followed by a c15 input;  output: as c15.  Judge only.

func runC15Big(a hx.Args) string {
	if a.Len() < 1 {
		return ""
	}
	if procs := a.Int(0); procs > 0 && procs <= 1024 {
		prev := runtime.GOMAXPROCS(procs)
		defer runtime.GOMAXPROCS(prev)
	}
	out := runC15(a[1:])
	debug.FreeOSMemory() // the table of this case is garbage now
	return out
}

const c15MB = 1 << 20

// bucket counts: 8 / 16 / 24 MB and odd counts around them (primes, 2^k +- 1, +- 7, ...)
var c15BigBuckets = []uint64{
	8 * c15MB / 32, 16 * c15MB / 32, 24 * c15MB / 32,
	262144 + 1, 262144 + 3, 262144 + 7, 262144 + 15, 262147, 262151, 300007, 393241,
	524288 - 1, 524288 + 1, 524288 - 7, 524288 + 7, 524288 + 2, 524309,
	786432 - 1, 786432 + 1, 786433, 786432 + 7, 786432 - 7, 786432 + 5,
}

// c15BigTargets: first buckets, the last 66 buckets (every remainder of a division by up to 64
// workers lives there) and chunk boundaries for several worker counts.
func c15BigTargets(rng *hx.Rng, nb uint64, procs int, nBound int) []uint64 {
	set := map[uint64]struct{}{0: {}, 1: {}, 2: {}}
	for i := uint64(1); i <= 66; i++ {
		set[nb-i] = struct{}{}
	}
	ws := []uint64{uint64(max(procs, 2)), 2, 3, 5, 6, 7, 12, 16, 24, 32, 48, 64}
	for j := 0; j < nBound; j++ {
		w := ws[j%len(ws)]
		if j >= len(ws) {
			w = 2 + rng.U64()%63
		}
		chunk := nb / w
		k := 1 + rng.U64()%w
		for _, b := range []uint64{k*chunk - 1, k * chunk, w*chunk - 1, w * chunk} {
			if b < nb {
				set[b] = struct{}{}
			}
		}
	}
	var bs []uint64
	for b := range set {
		bs = append(bs, b)
	}
	sort.Slice(bs, func(i, j int) bool { return bs[i] < bs[j] })
	return bs
}

// c15BigKeys aims one hash at every target bucket (checked against the implementation's own index
// through the VerifBucketIx hook; a short search repairs a miss).
func c15BigKeys(rng *hx.Rng, nb uint64, targets []uint64) []uint64 {
	t := transp.New(int(nb * 32))
	var keys []uint64
	for _, b := range targets {
		sig := 1 + rng.U64()%0xffff
		h := hashFor(rng, nb, b, sig)
		for try := 0; try < 200 && uint64(t.VerifBucketIx(board.Hash(h))) != b; try++ {
			h = hashFor(rng, nb, b, sig)
			if try > 100 { // search from the ends of the hash range
				if b < nb/2 {
					h = sig<<48 | uint64(try-100)
				} else {
					h = sig<<48 | (1<<32 - 1 - uint64(try-100))
				}
			}
		}
		if uint64(t.VerifBucketIx(board.Hash(h))) == b {
			keys = append(keys, h)
		}
	}
	return keys
}

func genC15Big(rng *hx.Rng, n int, tier string, emit func(hx.Input)) {
	for cnt := 0; cnt < n; cnt++ {
		nbA := c15BigBuckets[(cnt*7+rng.Intn(3))%len(c15BigBuckets)]
		nbB := c15BigBuckets[rng.Intn(len(c15BigBuckets))]
		procs := []int{0, 0, 2, 3, 5, 6, 7, 12, 16, 24, 32, 48, 64, 2 + rng.Intn(63)}[rng.Intn(14)]
		nBound := 4
		if tier == "thorough" {
			nBound = 12
		}
		keysA := c15BigKeys(rng, nbA, c15BigTargets(rng, nbA, procs, nBound))
		gen := []int64{0, 254, 255, int64(rng.Intn(256))}[rng.Intn(4)]
		var pool []uint64
		var ops []c15op
		kind := "store-clear-resize+clear-store-clear"
		if cnt%3 == 2 {
			// the shrink / regrow family on a big allocation: the re-exposed tail must be empty
			kind = "shrink-clear-regrow-clear"
			small := c15BigBuckets[0] / (1 + uint64(rng.Intn(4)))
			if rng.Bool() {
				small = 1 + rng.U64()%(nbA-1)
			}
			back := nbA
			if rng.Chance(0.3) {
				back = small + 1 + rng.U64()%(nbA-small)
			}
			pool = keysA
			ops = c15RegrowScript(rng, pool, nbA, small, back, gen)
			nbB = back
		} else {
			keysB := c15BigKeys(rng, nbB, c15BigTargets(rng, nbB, procs, nBound))
			pool = append(append([]uint64{}, keysA...), keysB...)
			for _, h := range keysA {
				ops = append(ops, c15Store(rng, h, gen))
			}
			ops = append(ops, c15op{kind: 2, ply: int64(rng.Intn(64))}) // Clear: every key must be gone
			for i := 0; i < 6; i++ {
				ops = append(ops, c15Store(rng, keysA[len(keysA)-1-rng.Intn(min(66, len(keysA)))], gen))
			}
			ops = append(ops, c15ResizeClear(rng, nbB)...)
			gen = (gen + 1) & 255
			for _, h := range keysB {
				ops = append(ops, c15Store(rng, h, gen))
			}
			ops = append(ops, c15op{kind: 2, ply: int64(rng.Intn(64))})
			ops = append(ops, c15op{kind: 1, hash: keysB[len(keysB)-1], ply: int64(rng.Intn(64))})
		}
		in, desc := c15Encode(int64(nbA*32), pool, ops)
		tags := []string{kind, fmt.Sprintf("gomaxprocs=%d", procs)}
		eff := procs
		if eff == 0 {
			eff = runtime.GOMAXPROCS(0)
		}
		if nbA%uint64(eff) != 0 || nbB%uint64(eff) != 0 {
			tags = append(tags, "buckets-not-divisible-by-workers")
		}
		if nbA%32768 != 0 {
			tags = append(tags, "odd-bucket-count")
		}
		emit(hx.Input{In: fmt.Sprintf("%x ", procs) + in,
			Desc: fmt.Sprintf("GOMAXPROCS=%d buckets=%d then %d: ", procs, nbA, nbB) + desc,
			Tags: tags, NonTrivial: true})
	}
}

// ---------------------------------------------------------------------------------------------
// c15multi: several tables alive at once, and probe results whose accessors are read late.
//
//	input : ntab npool pool... nops (kind tab hash gen depth ply move value type)*
//	        kinds 0..4 as in c15 on the table in slot tab; 5 New(hash bytes) into slot tab (+ sweep);
//	        6 LookUp whose result is HELD: Depth/Type/Value(ply)/Move are read only at the next op
//	        that is not a 6 (kind 7 = just that; its gen field odd: last result first);
//	        an op on an empty slot does nothing.
//	output: as c15; the held probes in the order of the LookUp calls.

type c15mop struct {
	tab int
	c15op
}

func runC15Multi(a hx.Args) string {
	mappedMulti := true // see c15Documented
	ntab := min(max(a.Int(0), 0), 8)
	np := max(a.Int(1), 0)
	if 2+np >= a.Len() {
		return ""
	}
	pool := make([]uint64, np)
	for i := range pool {
		pool[i] = a.U64(2 + i)
	}
	nops := a.Int(2 + np)
	base := 3 + np
	tables := make([]*transp.Table, ntab)
	out := &hx.Nums{}
	var held []func(o *hx.Nums)
	flush := func(reverse bool) {
		res := make([]*hx.Nums, len(held))
		for i := range held {
			j := i
			if reverse {
				j = len(held) - 1 - i
			}
			res[j] = &hx.Nums{}
			held[j](res[j])
		}
		for _, r := range res {
			for _, tok := range hx.Toks(r.String()) {
				x, _ := hx.ParseArgs(tok)
				out.I(x.I64(0))
			}
		}
		held = held[:0]
	}
	for j := 0; j < nops && base+9*j+8 < a.Len(); j++ {
		o := base + 9*j
		kind := a.I64(o)
		tab := a.I64(o + 1)
		ply := Depth(a.I64(o + 5))
		var t *transp.Table
		if tab >= 0 && tab < int64(ntab) {
			t = tables[tab]
		}
		if kind == 6 {
			if t != nil {
				e, ok := t.LookUp(board.Hash(a.U64(o + 2))) // the pointer is kept, nothing is read yet
				held = append(held, func(r *hx.Nums) {
					if !ok {
						r.U(0, 0, 0, 0, 0)
						return
					}
					r.U(1).I(int64(e.Depth()), int64(e.Type()), int64(e.Value(ply)), int64(e.Move))
				})
			}
			continue
		}
		flush(kind == 7 && a.I64(o+3)&1 == 1)
		snap := func(t *transp.Table) {
			mappedMulti = mappedMulti && c15Documented(t, pool)
			for _, h := range pool {
				c15Probe(out, t, h, ply)
			}
		}
		if kind == 5 {
			if tab >= 0 && tab < int64(ntab) {
				tables[tab] = transp.New(a.Int(o + 2))
				snap(tables[tab])
			}
			continue
		}
		if t == nil {
			continue
		}
		switch kind {
		case 0:
			t.Insert(board.Hash(a.U64(o+2)), transp.Gen(a.I64(o+3)), Depth(a.I64(o+4)), ply,
				move.Move(a.I64(o+6)), Score(a.I64(o+7)), transp.Type(a.I64(o+8)))
			snap(t)
		case 1:
			c15Probe(out, t, a.U64(o+2), ply)
		case 2:
			t.Clear()
			snap(t)
		case 3:
			t.Resize(a.Int(o + 2))
			t.Clear()
			snap(t)
		case 4:
			t.Resize(a.Int(o + 2))
			snap(t)
		}
	}
	flush(false)
	if !mappedMulti {
		return "-5"
	}
	return out.String()
}

func c15MultiEncode(ntab int, pool []uint64, ops []c15mop) (string, string) {
	in := (&hx.Nums{}).Int(ntab).Int(len(pool)).U(pool...).Int(len(ops))
	var desc strings.Builder
	fmt.Fprintf(&desc, "%d table slots, pool=%x ops:", ntab, pool)
	for _, o := range ops {
		in.Int(o.kind).Int(o.tab).U(o.hash).I(o.gen, o.d, o.ply, o.m, o.v, o.typ)
		switch o.kind {
		case 0:
			fmt.Fprintf(&desc, " t%d.Insert(%#x,gen=%d,d=%d,ply=%d,m=%d,v=%d,typ=%d)", o.tab, o.hash, o.gen, o.d, o.ply, o.m, o.v, o.typ)
		case 1:
			fmt.Fprintf(&desc, " t%d.LookUp(%#x).Value(%d)", o.tab, o.hash, o.ply)
		case 2:
			fmt.Fprintf(&desc, " t%d.Clear()", o.tab)
		case 3:
			fmt.Fprintf(&desc, " t%d.Resize(%d)+Clear()", o.tab, int64(o.hash))
		case 4:
			fmt.Fprintf(&desc, " t%d.Resize(%d)", o.tab, int64(o.hash))
		case 5:
			fmt.Fprintf(&desc, " t%d=New(%d)", o.tab, int64(o.hash))
		case 6:
			fmt.Fprintf(&desc, " hold:t%d.LookUp(%#x)[ply %d]", o.tab, o.hash, o.ply)
		case 7:
			if o.gen&1 == 1 {
				desc.WriteString(" read-held(last first)")
			} else {
				desc.WriteString(" read-held")
			}
		}
	}
	return in.String(), desc.String()
}

var c15MultiSizes = []uint64{1, 1, 2, 2, 3, 4, 4, 8, 16}

func genC15Multi(rng *hx.Rng, n int, tier string, emit func(hx.Input)) {
	for cnt := 0; cnt < n; cnt++ {
		ntab := []int{2, 2, 2, 3, 3, 3, 4, 1}[rng.Intn(8)]
		if cnt == 0 {
			ntab = 3 // the first case of a run has no predecessor in the process: make it the grow script
		}
		nb := c15MultiSizes[rng.Intn(len(c15MultiSizes))]
		// pool: a crowded bucket, the same signature elsewhere, a random key
		nsig := 3 + rng.Intn(4)
		b1, b2 := rng.U64()%nb, rng.U64()%nb
		var pool []uint64
		sig0 := 1 + rng.U64()%0xffff
		for i := 0; i < nsig; i++ {
			s := 1 + rng.U64()%0xffff
			if i == 0 {
				s = sig0
			}
			if rng.Chance(0.05) {
				s = 0
			}
			pool = append(pool, hashFor(rng, nb, b1, s))
		}
		pool = append(pool, hashFor(rng, nb, b1, sig0), hashFor(rng, nb, b2, sig0), rng.U64())
		gen := []int64{0, 0, 254, 255, int64(rng.Intn(256))}[rng.Intn(5)]
		sizes := make([]uint64, ntab) // current bucket count per slot, 0 = no table yet
		var ops []c15mop
		add := func(tab int, o c15op) { ops = append(ops, c15mop{tab, o}) }
		newTab := func(tab int, b uint64) {
			add(tab, c15op{kind: 5, hash: b * 32, ply: int64(rng.Intn(64))})
			sizes[tab] = b
		}
		resize := func(tab int, b uint64) {
			for _, o := range c15ResizeClear(rng, b) {
				add(tab, o)
			}
			sizes[tab] = b
		}
		alive := func() []int {
			var ts []int
			for i, s := range sizes {
				if s > 0 {
					ts = append(ts, i)
				}
			}
			return ts
		}
		var tags []string
		stores := 0
		store := func(tab int) {
			add(tab, c15Store(rng, pool[rng.Intn(len(pool))], gen))
			stores++
		}
		script := rng.Intn(10)
		if cnt == 0 {
			script = 0
		}
		switch {
		case script < 3 && ntab >= 3:
			// one table outgrows its buffer, then two more of the old size are created and used together
			tags = append(tags, "grow-one-then-two-new-of-the-old-size")
			newTab(0, nb)
			for i := rng.Intn(3); i > 0; i-- {
				store(0)
			}
			resize(0, nb*uint64(2+rng.Intn(15)))
			newTab(1, max(1, nb-uint64(rng.Intn(2))))
			if rng.Bool() {
				for i := 1 + rng.Intn(3); i > 0; i-- {
					store(1)
				}
			}
			newTab(2, nb)
		case script < 5:
			tags = append(tags, "all-new-first")
			for i := 0; i < ntab; i++ {
				newTab(i, nb)
			}
		default:
			tags = append(tags, "new-at-random-times")
			newTab(rng.Intn(ntab), nb)
		}
		nops := 8 + rng.Intn(50)
		if rng.Chance(0.04) {
			nops = 100 + rng.Intn(80)
		}
		heldGroups := 0
		for len(ops) < nops {
			if rng.Chance(0.1) {
				gen = (gen + 1) & 255
			}
			ts := alive()
			tab := ts[rng.Intn(len(ts))]
			r := rng.Intn(100)
			switch {
			case r < 45:
				store(tab)
			case r < 55:
				add(tab, c15op{kind: 1, hash: pool[rng.Intn(len(pool))], ply: int64(rng.Intn(64))})
			case r < 75:
				// 2..4 LookUp results kept and read afterwards (same table mostly: hits and misses,
				// same and different buckets), first to last or last to first
				heldGroups++
				k := 2 + rng.Intn(3)
				for i := 0; i < k; i++ {
					tb := tab
					if rng.Chance(0.2) {
						tb = ts[rng.Intn(len(ts))]
					}
					h := pool[rng.Intn(len(pool))]
					if rng.Chance(0.1) {
						h = rng.U64()
					}
					add(tb, c15op{kind: 6, hash: h, ply: int64(rng.Intn(64))})
				}
				if rng.Chance(0.8) {
					add(tab, c15op{kind: 7, gen: int64(rng.Intn(2))})
				}
			case r < 79:
				add(tab, c15op{kind: 2, ply: int64(rng.Intn(64))})
			case r < 85:
				resize(tab, c15MultiSizes[rng.Intn(len(c15MultiSizes))]*uint64(1+rng.Intn(3)))
			case r < 86:
				add(tab, c15op{kind: 4, hash: c15MultiSizes[rng.Intn(len(c15MultiSizes))] * 32, ply: int64(rng.Intn(64))})
				add(tab, c15op{kind: 2, ply: int64(rng.Intn(64))})
			default:
				// a (new) table in some slot, mostly of the size the case started with
				b := nb
				if rng.Chance(0.3) {
					b = c15MultiSizes[rng.Intn(len(c15MultiSizes))]
				}
				newTab(rng.Intn(ntab), b)
			}
		}
		in, desc := c15MultiEncode(ntab, pool, ops)
		tags = append(tags, fmt.Sprintf("slots=%d", ntab))
		if heldGroups > 0 {
			tags = append(tags, "held-results")
		}
		if len(alive()) >= 2 {
			tags = append(tags, "two-or-more-tables-alive")
		}
		emit(hx.Input{In: in, Desc: desc, Tags: tags, NonTrivial: stores >= 3 && (len(alive()) >= 2 || heldGroups > 0)})
	}
}
