(* C13: deadlock-freedom, what a finished run has printed, and maximal runs. *)
From Coq Require Import Bool List Arith Lia.
Import ListNotations.
From Chess3 Require Import Model.Uci Spec.UciLog Proofs.UciTerm Proofs.UciInv.

Ltac falseW W := repeat (rewrite ?andb_false_r in W; simpl in W); discriminate W.

Lemma full_nil s : out s = [] -> full s = false.
Proof. unfold full. intros ->. reflexivity. Qed.

(* every state that satisfies the invariant and is not final has an enabled step *)
Lemma progress sc s : Inv sc s -> terminal s = false -> exists l, guard s l = true.
Proof.
  intros I T.
  pose proof (i_wf _ _ I) as W. pose proof (i_conf _ _ I) as Hconf.
  pose proof (i_sent _ _ I) as Hsent. pose proof (i_seen _ _ I) as Hseen.
  pose proof (scan_count _ _ _ (i_scan _ _ I)) as Hscan. clear I.
  destruct s as [scr sg sb r h dp c cg f pg i t pc psn fn o oc wd w].
  unfold wf, searching, terminal, cur_need, pending, flog, hemit, done, searching in *. simpl in *.
  destruct o as [|x q].
  2:{ exists LWrite. simpl. destruct wd; [|reflexivity].
      destruct i, h, oc; simpl in W; falseW W. }
  destruct wd.
  { (* the writer is done: everything else is, too *)
    destruct oc, h, i, r; simpl in *; first [discriminate T | falseW W]. }
  destruct oc.
  { exists LWDone. reflexivity. }
  destruct h as [|l| | |].
  - (* HIdle *)
    destruct r as [|c0|].
    + destruct scr as [|c0 scr].
      * exists LEof. reflexivity.
      * exists LRead. simpl. destruct (guarded c0); [|reflexivity]. simpl.
        apply Nat.eqb_eq. rewrite app_nil_r in Hscan. simpl in Hscan. lia.
    + exists LRecvTop. reflexivity.
    + exists LHClose. reflexivity.
  - (* HEmit *)
    destruct l as [|x l]; [destruct i; discriminate W|].
    exists LEmit. reflexivity.
  - (* HSearch *)
    destruct i.
    + discriminate W.
    + (* ISel *)
      destruct t; [exists LIntTimer; reflexivity|].
      destruct r as [|c0|]; [|exists LRecvInt; reflexivity|exists LIntEof; reflexivity].
      destruct scr as [|c0 scr]; [exists LEof; reflexivity|].
      destruct (guarded c0) eqn:Gd; [|exists LRead; simpl; rewrite Gd; reflexivity].
      apply conf_guarded in Hconf; [|exact Gd].
      destruct (g_selffin cg) eqn:Esf.
      2:{ destruct (g_timed cg && g_ponder cg); discriminate Hconf. }
      destruct pc.
      * exists LPoll. simpl. unfold full. simpl. rewrite andb_false_r. reflexivity.
      * exists LFin. simpl. unfold fin_ok. simpl. rewrite Esf. simpl.
        destruct (g_phgate cg && g_ponder cg), pg; simpl in *; try reflexivity; discriminate Hconf.
    + exists LIntEmit. reflexivity.
    + exists LFin. reflexivity.
  - (* HJoin *)
    destruct i.
    + discriminate W.
    + exists LIntFin. simpl. destruct fn; [reflexivity|]. simpl in W. falseW W.
    + exists LIntEmit. reflexivity.
    + exists LJoin. reflexivity.
  - (* HDone *) destruct i; simpl in W; discriminate W.
Qed.

Lemma deadlock_free sc s : conforming sc = true -> reachable sc s -> terminal s = false ->
  enabled s <> [].
Proof.
  intros C R T E. destruct (progress sc s (Inv_reachable _ _ C R) T) as [l G].
  apply enabled_iff in G. rewrite E in G. exact G.
Qed.

(* a final state has answered everything *)
Lemma terminal_answered sc s : Inv sc s -> terminal s = true -> all_answered sc (written s).
Proof.
  intros I T.
  pose proof (i_rdone _ _ I) as Hrd. pose proof (i_scan _ _ I) as Hscan.
  pose proof (i_go _ _ I) as Hgo. pose proof (i_ready _ _ I) as Hready. pose proof (i_uci _ _ I) as Huci.
  pose proof (scan_count _ _ _ Hscan) as Hcnt. clear I.
  destruct s as [scr sg sb r h dp c cg f pg i t pc psn fn o oc wd w].
  unfold terminal, flog, hemit, done, searching, pending in *. simpl in *.
  destruct r; try discriminate T. destruct h; try discriminate T. destruct i; try discriminate T.
  destruct o; [|rewrite !andb_false_r in T; discriminate T].
  rewrite (Hrd eq_refl) in *. rewrite !app_nil_r in *.
  unfold count_cmd in *. simpl in *.
  unfold all_answered, bestmoves_in_order, count_cmd. repeat split.
  - rewrite Hscan. f_equal. lia.
  - lia.
  - lia.
  - lia.
Qed.

(* on the way: what has been written so far is a prefix of a good log, and never more answers
   than requests *)
Lemma written_prefix_ok sc s : Inv sc s ->
  exists k, scan 0 (written s) = Some k /\ k = seen_best s /\ k <= cur s
            /\ count_item is_readyok (written s) <= count_cmd is_isready sc
            /\ count_item is_uciok (written s) <= count_cmd is_uci sc.
Proof.
  intros I.
  pose proof (i_scan _ _ I) as Hscan. unfold flog in Hscan.
  destruct (scan_prefix _ _ _ _ Hscan) as [k Hk]. exists k. split; [exact Hk|].
  pose proof (scan_count _ _ _ Hk) as E1. pose proof (scan_count _ _ _ Hscan) as E2.
  pose proof (i_seen _ _ I) as Hseen. pose proof (i_cur _ _ I) as Hcur.
  pose proof (i_ready _ _ I) as Hr. pose proof (i_uci _ _ I) as Hu.
  unfold flog in *. rewrite !count_item_app in *.
  split; [lia|]. split.
  - unfold done in E2. destruct (searching s); lia.
  - split; lia.
Qed.

(* the output channel never holds more than its capacity *)
Lemma notfull (o : list item) : negb (4 <=? length o) = true -> length o < 4.
Proof. destruct (4 <=? length o) eqn:E; [discriminate|]. intros _. apply Nat.leb_gt in E. exact E. Qed.

Lemma out_bounded_step s l : length (out s) <= out_cap -> guard s l = true ->
  length (out (step s l)) <= out_cap.
Proof.
  destruct s as [scr sg sb r h dp c cg f pg i t pc psn fn o oc wd w].
  unfold out_cap. intros B G.
  destruct l; simpl in G; dmS G; simpl in *; unfold after_deliver; try exact B.
  all: try (dmgoalS; exact B).
  all: unfold full, out_cap in G; simpl in G.
  - (* LEmit *) rewrite length_snoc. apply notfull in G. lia.
  - (* LInfo *) rewrite length_snoc. apply andb_prop in G as [_ G]. apply notfull in G. lia.
  - (* LPoll *) destruct (g_ack cg); [|exact B]. rewrite length_snoc.
    apply andb_prop in G as [_ G]. simpl in G. apply notfull in G. lia.
  - (* LIntEmit *) rewrite length_snoc. apply notfull in G. lia.
  - (* LWrite *) simpl in B. lia.
Qed.

(* ---------------------------------------------------------------------------------------------- *)
(* readable consequences of [scan 0 log = Some n] *)
Definition bests (l : list item) : list nat :=
  flat_map (fun x => match x with IBest i => [i] | _ => [] end) l.

Lemma scan_le h l n : scan h l = Some n -> h <= n.
Proof. intros E. apply scan_count in E. lia. Qed.

Lemma scan_bests h l n : scan h l = Some n -> bests l = seq (S h) (n - h).
Proof.
  revert h. induction l as [|x l IH]; intros h; simpl.
  - intros E. inversion E. subst. rewrite Nat.sub_diag. reflexivity.
  - destruct x; simpl; try apply IH.
    + destruct (i =? S h) eqn:E; [|discriminate]. apply IH.
    + destruct (i =? S h) eqn:E; [|discriminate]. apply Nat.eqb_eq in E. subst i.
      intros S1. pose proof (scan_le _ _ _ S1) as L. rewrite (IH _ S1).
      replace (n - h) with (S (n - S h)) by lia. reflexivity.
    + destruct (i =? S h) eqn:E; [|discriminate]. apply IH.
Qed.

Lemma scan_best_range h l n j : scan h l = Some n -> In (IBest j) l -> h < j <= n.
Proof.
  intros S1 Hin. assert (B : In j (bests l)).
  { unfold bests. apply in_flat_map. exists (IBest j). split; [exact Hin|left; reflexivity]. }
  rewrite (scan_bests _ _ _ S1) in B. apply in_seq in B. pose proof (scan_le _ _ _ S1). lia.
Qed.

Lemma scan_next_best h l n : scan h l = Some n -> h < n -> In (IBest (S h)) l.
Proof.
  intros S1 L. assert (B : In (S h) (bests l)).
  { rewrite (scan_bests _ _ _ S1). apply in_seq. lia. }
  unfold bests in B. apply in_flat_map in B. destruct B as [x [Hx Hi]].
  destruct x; simpl in Hi; try contradiction. destruct Hi as [E|[]]. subst. exact Hx.
Qed.

(* an info line of search i, in a log whose searches 1..n are all answered: bestmove i comes
   later and not earlier *)
Lemma info_before_best log n a i b :
  scan 0 log = Some n -> log = a ++ IInfo i :: b -> i <= n ->
  In (IBest i) b /\ ~ In (IBest i) a.
Proof.
  intros S1 -> L. rewrite scan_app in S1.
  destruct (scan 0 a) as [h'|] eqn:Sa; [|discriminate]. simpl in S1.
  destruct (i =? S h') eqn:E; [|discriminate]. apply Nat.eqb_eq in E. subst i.
  split.
  - eapply scan_next_best; [exact S1|lia].
  - intros Hin. pose proof (scan_best_range _ _ _ _ Sa Hin). lia.
Qed.

(* every info line in the log belongs to a search that has been started *)
Definition idx_ok (s : state) : Prop := forall i, In (IInfo i) (flog s) -> i <= cur s.

Lemma cur_mono s l : cur s <= cur (step s l).
Proof.
  destruct s as [scr sg sb r h dp c cg f pg i t pc psn fn o oc wd w].
  destruct l; simpl; unfold after_deliver; dmgoalS; simpl; lia.
Qed.

Lemma idx_ok_step s l : wf s = true -> guard s l = true -> idx_ok s -> idx_ok (step s l).
Proof.
  intros W G K i Hin. rewrite (flog_step s l W G) in Hin. apply in_app_or in Hin.
  pose proof (cur_mono s l) as M. destruct Hin as [Hin|Hin]; [specialize (K i Hin); lia|].
  destruct l; simpl in Hin; try contradiction.
  - destruct (rd s) as [|[]|]; simpl in Hin; try contradiction;
      repeat (destruct Hin as [Hin|Hin]; [discriminate Hin|]); contradiction.
  - destruct Hin as [E|[]]. inversion E. subst. exact M.
  - destruct (g_ack (cur_g s)); simpl in Hin; [destruct Hin as [E|[]]; discriminate E|contradiction].
  - destruct Hin as [E|[]]. discriminate E.
  - destruct Hin as [E|[]]. discriminate E.
Qed.

Lemma idx_ok_steps sc s ls s' : steps s ls s' -> Inv sc s -> idx_ok s -> idx_ok s'.
Proof.
  induction 1 as [s | s l ls s' G _ IH]; intros I K; [exact K|].
  apply IH; [apply Inv_step; assumption|].
  apply idx_ok_step; [exact (i_wf _ _ I)|exact G|exact K].
Qed.

Lemma idx_ok_reachable sc s : conforming sc = true -> reachable sc s -> idx_ok s.
Proof.
  intros C [ls H]. eapply idx_ok_steps; [exact H|apply Inv_init; exact C|].
  intros i Hin. simpl in Hin. contradiction.
Qed.

(* ---------------------------------------------------------------------------------------------- *)
(* runs *)
Lemma steps_app s a s1 b s2 : steps s a s1 -> steps s1 b s2 -> steps s (a ++ b) s2.
Proof. induction 1; simpl; [auto|]. intros H2. constructor; auto. Qed.

(* from every reachable state of a conforming script the run can be completed, and however it is
   continued it reaches a final state after at most mu s steps *)
Lemma can_finish sc : forall n s, mu s <= n -> Inv sc s ->
  exists ls s', steps s ls s' /\ terminal s' = true.
Proof.
  induction n as [|n IH]; intros s M I.
  - destruct (terminal s) eqn:T; [exists [], s; split; [constructor|exact T]|].
    destruct (progress _ _ I T) as [l G]. pose proof (mu_step _ _ G). lia.
  - destruct (terminal s) eqn:T; [exists [], s; split; [constructor|exact T]|].
    destruct (progress _ _ I T) as [l G]. pose proof (mu_step _ _ G) as D.
    destruct (IH (step s l)) as [ls [s' [H T']]]; [lia|apply Inv_step; assumption|].
    exists (l :: ls), s'. split; [constructor; assumption|exact T'].
Qed.

Lemma maximal_is_terminal sc s : Inv sc s -> maximal s -> terminal s = true.
Proof.
  intros I Mx. destruct (terminal s) eqn:T; [reflexivity|].
  destruct (progress _ _ I T) as [l G]. apply enabled_iff in G. rewrite Mx in G. destruct G.
Qed.

Lemma terminal_is_maximal s : terminal s = true -> maximal s.
Proof.
  destruct s as [scr sg sb r h dp c cg f pg i t pc psn fn o oc wd w].
  unfold terminal, maximal, enabled. simpl.
  destruct r, h, i; try discriminate. destruct wd, oc, o; simpl; try discriminate. reflexivity.
Qed.

(* bestmove is put on the output channel by exactly one step, and only when searchFin is closed
   and the interrupter has finished (stop closed, goroutine joined) *)
Lemma best_only_after_join s l i : wf s = true -> guard s l = true -> In (IBest i) (appended s l) ->
  l = LJoin /\ hd s = HJoin /\ it s = IDone /\ fin s = true /\ i = cur s.
Proof.
  destruct s as [scr sg sb r h dp c cg f pg it0 t pc psn fn o oc wd w].
  unfold wf. intros W G Hin.
  destruct l; simpl in Hin; try contradiction.
  - destruct r as [|[]|]; simpl in Hin; try contradiction;
      repeat (destruct Hin as [Hin|Hin]; [discriminate Hin|]); contradiction.
  - destruct Hin as [E|[]]; discriminate E.
  - destruct (g_ack cg); simpl in Hin; [destruct Hin as [E|[]]; discriminate E|contradiction].
  - simpl in G. destruct h; try discriminate G. destruct it0; try discriminate G.
    simpl in W. destruct fn; [|falseW W].
    destruct Hin as [E|[]]. inversion E. repeat split; reflexivity.
  - destruct Hin as [E|[]]; discriminate E.
Qed.

Lemma out_bounded_steps s ls s' : steps s ls s' -> length (out s) <= out_cap -> length (out s') <= out_cap.
Proof.
  induction 1 as [s | s l ls s' G _ IH]; intros B; [exact B|].
  apply IH. apply out_bounded_step; assumption.
Qed.

Lemma out_bounded sc s : reachable sc s -> length (out s) <= out_cap.
Proof. intros [ls H]. eapply out_bounded_steps; [exact H|]. simpl. unfold out_cap. lia. Qed.

(* executable runs, for the examples *)
Fixpoint run (s : state) (ls : list label) : option state :=
  match ls with
  | [] => Some s
  | l :: r => if guard s l then run (step s l) r else None
  end.

Lemma run_steps s ls s' : run s ls = Some s' -> steps s ls s'.
Proof.
  revert s. induction ls as [|l ls IH]; intros s; simpl.
  - intros E. inversion E. constructor.
  - destruct (guard s l) eqn:G; [|discriminate]. intros E. constructor; [exact G|apply IH; exact E].
Qed.

(* the statements of Properties/C13.v *)
Theorem maximal_runs sc ls s : conforming sc = true -> steps (init sc) ls s -> maximal s ->
  terminal s = true /\ all_answered sc (written s) /\ length ls <= mu (init sc).
Proof.
  intros C H Mx. assert (I : Inv sc s) by (apply Inv_reachable; [exact C|exists ls; exact H]).
  pose proof (maximal_is_terminal _ _ I Mx) as T. split; [exact T|]. split.
  - apply terminal_answered; assumption.
  - pose proof (steps_bound _ _ _ H). lia.
Qed.

Theorem final_answers sc s : conforming sc = true -> reachable sc s -> terminal s = true ->
  all_answered sc (written s)
  /\ bests (written s) = seq 1 (count_cmd is_go sc)
  /\ forall a i b, written s = a ++ IInfo i :: b -> In (IBest i) b /\ ~ In (IBest i) a.
Proof.
  intros C R T. pose proof (Inv_reachable _ _ C R) as I.
  pose proof (terminal_answered _ _ I T) as A. split; [exact A|].
  destruct A as [S1 _]. unfold bestmoves_in_order in S1. split.
  - rewrite (scan_bests _ _ _ S1). f_equal. lia.
  - intros a i b E. eapply info_before_best; [exact S1|exact E|].
    pose proof (idx_ok_reachable _ _ C R) as K.
    assert (Hin : In (IInfo i) (flog s)).
    { unfold flog. rewrite E. apply in_or_app. left. apply in_or_app. right. left. reflexivity. }
    specialize (K _ Hin).
    (* at a final state cur s is the number of go commands *)
    pose proof (i_go _ _ I) as Hgo. pose proof (i_rdone _ _ I) as Hrd.
    destruct s as [scr sg sb r h dp c cg f pg it0 t pc psn fn o oc wd w].
    unfold terminal, pending in *. simpl in *. destruct r; try discriminate T.
    rewrite (Hrd eq_refl) in Hgo. unfold count_cmd in *. simpl in Hgo. lia.
Qed.

Theorem can_always_finish sc s : conforming sc = true -> reachable sc s ->
  exists ls s', steps s ls s' /\ terminal s' = true.
Proof. intros C R. eapply (can_finish sc (mu s) s); [lia|apply Inv_reachable; assumption]. Qed.
