(* Proofs for Model/Batch.v: Batches partition [0,n), Chunks partition a batch, for all positive
   constants; and the schedule (all chunks of all batches) partitions [0,n). *)
From Coq Require Import ZArith Lia Bool List.
From Chess3 Require Import Base.Word Gen.TunerConsts Model.Batch Spec.Perm.
Import ListNotations.
Open Scope Z_scope.
Ltac Zify.zify_post_hook ::= Z.to_euclidean_division_equations.

Lemma zrange_nil a b : b <= a -> zrange a b = [].
Proof. intros H. unfold zrange. replace (Z.to_nat (b - a)) with 0%nat by lia. reflexivity. Qed.

Lemma seq_as_map m : forall a, seq a m = map (fun k => (a + k)%nat) (seq 0 m).
Proof.
  induction m as [|m IH]; intros a; [reflexivity|]. cbn [seq map]. f_equal; [lia|].
  rewrite <- !seq_shift, IH, !map_map. apply map_ext. intros k. lia.
Qed.

Lemma zrange_app a b c : a <= b <= c -> zrange a b ++ zrange b c = zrange a c.
Proof.
  intros H. unfold zrange.
  replace (Z.to_nat (c - a)) with (Z.to_nat (b - a) + Z.to_nat (c - b))%nat by lia.
  rewrite seq_app, map_app. f_equal. cbn [Nat.add].
  rewrite (seq_as_map _ (Z.to_nat (b - a))), map_map. apply map_ext. intros k. lia.
Qed.

Lemma zrange_length a b : length (zrange a b) = Z.to_nat (b - a).
Proof. unfold zrange. rewrite map_length, seq_length. reflexivity. Qed.

Lemma in_zrange x a b : In x (zrange a b) <-> a <= x < b.
Proof.
  unfold zrange. rewrite in_map_iff. split.
  - intros (k & <- & Hk). apply in_seq in Hk. lia.
  - intros H. exists (Z.to_nat (x - a)). split; [lia|]. apply in_seq. lia.
Qed.

Definition tile (rs : list range) : list Z := concat (map (fun r => zrange (fst r) (snd r)) rs).

Definition within (lo hi step : Z) (r : range) : Prop := lo <= fst r /\ snd r <= hi /\ snd r - fst r <= step.

(* the loop shared by Batches and Chunks *)
Lemma ranges_from_spec stop step : 0 < step -> stop + step < 2 ^ 63 ->
  forall fuel start, - 2 ^ 63 <= start ->
  (start < stop -> (stop - start) / step + 1 <= Z.of_nat fuel) ->
  let rs := ranges_from fuel start stop step in
  partitions rs start stop /\ Forall (within start stop step) rs.
Proof.
  intros Hstep Hmax. induction fuel as [|f IH]; intros start Hmin Hfuel; cbn [ranges_from].
  - assert (stop <= start).
    { destruct (Z.lt_ge_cases start stop) as [Hlt|Hge]; [|lia]. specialize (Hfuel Hlt).
      pose proof (Z.div_pos (stop - start) step ltac:(lia) Hstep). lia. }
    split; [split; [constructor|]|constructor]. cbn. symmetry. apply zrange_nil. lia.
  - destruct (Z.ltb_spec start stop) as [Hlt|Hge].
    2:{ split; [split; [constructor|]|constructor]. cbn. symmetry. apply zrange_nil. lia. }
    rewrite wrap64_id by lia.
    assert (Hdiv : (stop - (start + step)) / step = (stop - start) / step - 1).
    { replace (stop - (start + step)) with ((stop - start) + (-1) * step) by lia.
      rewrite Z.div_add by lia. lia. }
    specialize (Hfuel Hlt).
    specialize (IH (start + step) ltac:(lia) ltac:(intros _; rewrite Hdiv; lia)). cbv zeta in IH.
    destruct IH as [[Hne Htile] Hwithin].
    split; [split|].
    + constructor; [cbn [fst snd]; lia|exact Hne].
    + cbn [map concat fst snd]. fold (tile (ranges_from f (start + step) stop step)).
      unfold tile. rewrite Htile.
      destruct (Z.le_gt_cases stop (start + step)) as [Hlast|Hmore].
      * rewrite Z.min_r by lia. rewrite (zrange_nil (start + step) stop) by lia. apply app_nil_r.
      * rewrite Z.min_l by lia. apply zrange_app. lia.
    + constructor; [unfold within; cbn [fst snd]; lia|].
      eapply Forall_impl; [|exact Hwithin]. unfold within. intros r. lia.
Qed.

Lemma loop_fuel_ok start stop step : 0 < step ->
  start < stop -> (stop - start) / step + 1 <= Z.of_nat (loop_fuel start stop step).
Proof. intros Hs Hlt. unfold loop_fuel. destruct (Z.leb_spec step 0); lia. Qed.

Theorem batches_partition L n : 0 < L -> 0 <= n -> n + L < 2 ^ 63 ->
  partitions (batches_gen L n) 0 n /\ Forall (within 0 n L) (batches_gen L n).
Proof.
  intros HL Hn Hmax. unfold batches_gen.
  assert (H0 : - 2 ^ 63 <= 0) by lia.
  pose proof (ranges_from_spec n L HL Hmax (loop_fuel 0 n L) 0 H0 (loop_fuel_ok 0 n L HL)) as [Hp Hw].
  cbv zeta in Hp, Hw.
  replace (map (fun r : Z * Z => (fst r, Z.min n (snd r))) (ranges_from (loop_fuel 0 n L) 0 n L))
    with (ranges_from (loop_fuel 0 n L) 0 n L); [split; assumption|].
  rewrite <- (map_id (ranges_from (loop_fuel 0 n L) 0 n L)) at 1. apply map_ext_in.
  intros [a b] Hin. rewrite Forall_forall in Hw. specialize (Hw _ Hin). unfold within in Hw. cbn [fst snd] in *.
  f_equal. lia.
Qed.

Lemma lines_in_chunk_pos L C : 0 < L -> 0 < C -> L + C < 2 ^ 63 -> 0 < lines_in_chunk L C <= L.
Proof.
  intros HL HC Hmax. unfold lines_in_chunk. rewrite (wrap64_id (L + C)) by lia. rewrite wrap64_id by lia.
  rewrite Z.quot_div_nonneg by lia. split.
  - apply Z.div_str_pos. lia.
  - apply Z.div_le_upper_bound; nia.
Qed.

Theorem chunks_partition L C s e : 0 < L -> 0 < C -> L + C < 2 ^ 63 -> - 2 ^ 63 <= s -> e + L < 2 ^ 63 ->
  partitions (chunks_gen L C (s, e)) s e /\ Forall (within s e (lines_in_chunk L C)) (chunks_gen L C (s, e)).
Proof.
  intros HL HC Hmax Hs He. unfold chunks_gen. cbn [fst snd].
  pose proof (lines_in_chunk_pos L C HL HC Hmax) as Hper.
  apply (ranges_from_spec e (lines_in_chunk L C) ltac:(lia) ltac:(lia)); [exact Hs|].
  apply loop_fuel_ok. lia.
Qed.

(* all chunks of all batches, in order, tile [0,n) *)
Lemma tile_app a b : tile (a ++ b) = tile a ++ tile b.
Proof. unfold tile. rewrite map_app, concat_app. reflexivity. Qed.

Lemma schedule_tile L C lo hi bs : 0 < L -> 0 < C -> L + C < 2 ^ 63 -> - 2 ^ 63 <= lo -> hi + L < 2 ^ 63 ->
  Forall (within lo hi L) bs ->
  Forall (fun r => fst r < snd r) (concat (map (chunks_gen L C) bs)) /\
  tile (concat (map (chunks_gen L C) bs)) = tile bs.
Proof.
  intros HL HC Hmax Hlo Hhi Hw.
  induction bs as [|[s e] bs IH]; [split; [constructor|reflexivity]|].
  inversion Hw as [|? ? Hb Hbs]; subst. unfold within in Hb. cbn [fst snd] in Hb.
  destruct (IH Hbs) as [Hne Ht].
  destruct (chunks_partition L C s e HL HC Hmax ltac:(lia) ltac:(lia)) as [[Hne1 Ht1] _].
  cbn [map concat]. split.
  - apply Forall_app. split; assumption.
  - rewrite tile_app, Ht. unfold tile at 1. rewrite Ht1. reflexivity.
Qed.

Theorem schedule_partition L C n : 0 < L -> 0 < C -> L + C < 2 ^ 63 -> 0 <= n -> n + L < 2 ^ 63 ->
  partitions (concat (map (chunks_gen L C) (batches_gen L n))) 0 n.
Proof.
  intros HL HC Hmax Hn Hn2.
  destruct (batches_partition L n HL Hn Hn2) as [[_ Htile] Hw].
  destruct (schedule_tile L C 0 n (batches_gen L n) HL HC Hmax ltac:(lia) Hn2 Hw) as [Hne Ht].
  split; [exact Hne|]. fold (tile (concat (map (chunks_gen L C) (batches_gen L n)))).
  rewrite Ht. exact Htile.
Qed.

(* what the proofs need of the generated constants; re-checked against the working tree on every run *)
Lemma generated_constants_ok :
  0 < NumLinesInBatch /\ 0 < NumChunksInBatch /\ NumLinesInBatch + NumChunksInBatch < 2 ^ 63 /\ NumLinesInBatch < 2 ^ 62.
Proof. cbv. repeat split; reflexivity. Qed.
