(* Model of the ARMING of the hard deadline in uci/uci.go:467-608 (handleGo and its interrupt
   goroutine), on top of the arithmetic of Model/TimeCtl.v.  Definitions only.

   One case of stream c14arm is a session  [setoption name Ponder value true] / position / go ...
   run under virtual time (testing/synctest), with a search stand-in that only waits:

     input  [root; flags; wtime; btime; winc; binc; movetime; orem2; oinc2; plies; k; ivl; phit; stop]
       root    0..5, the side to move of the root position is White for an even root
       flags   bit 0  the Ponder option was switched on before the go
               bit 1  the go line carries the `ponder` token (the GUI then sends `ponderhit`
                      phit ms after the search started, unless the search is over by then)
               bit 2  zero clock fields are left out of the go line        (not modelled: no effect)
               bit 3  traffic lines are `debug on` / `debug off` instead of `isready`
               bit 4  the traffic is counted from the start of the search even when bit 1 is set
                      (otherwise from the ponderhit)
               bit 5  a `depth 9` token is added to the go line           (not modelled: no effect)
       orem2, oinc2   the OPPONENT's remaining time and increment of the second sub-run; the
                      session is run twice, the second time with these two fields replaced
       plies   moves the search stand-in has made in place on the driver's board while it waits
       k, ivl  k traffic lines, the j-th one ivl*j ms after the traffic origin
       stop    the GUI sends `stop` this many ms after the search started
     all instants are virtual milliseconds after the start of the search.  The GUI acts on an
     instant only after everything the engine does at that instant has settled (synctest.Wait), so
     a timer that is due at the very instant of a line wins.

     output (per sub-run, the two concatenated)
       [soft time handed to the search | -1; ponder channel handed to the search 0/1;
        ms from the start to the ponderhit as seen by the search | -1;
        ms from the start of the mover's clock (the ponderhit if seen, else the start of the search)
           to the closing of the stop channel;
        1 if the channel closed before the GUI had sent `stop`, else 0;
        readyok lines; bestmove lines; Run returned 0/1]                                        *)
From Coq Require Import ZArith Bool List.
Import ListNotations.
From Chess3 Require Import Base.Word Gen.TimeConsts Model.TimeCtl.
Open Scope Z_scope.

Record arm_case := {
  ac_color : color;    (* side to move of the root position *)
  ac_tc    : tc;       (* what the go line said *)
  ac_popt  : bool;     (* d.ponder *)
  ac_ptok  : bool;     (* `ponder` among the arguments of go *)
  ac_debug : bool;     (* traffic is debug on/off *)
  ac_base0 : bool;     (* traffic origin is the start of the search *)
  ac_plies : Z;
  ac_k     : Z;
  ac_ivl   : Z;
  ac_phit  : Z;
  ac_stop  : Z }.

(* uci.go:482  case "ponder": ponder = d.ponder *)
Definition pondering (c : arm_case) : bool := ac_popt c && ac_ptok c.

(* a time.Timer of a non-positive duration fires at once *)
Definition timer_ms (c : arm_case) : Z := Z.max 0 (hard_limit (ac_tc c) (ac_color c)).

(* is the ponderhit line delivered to the interrupt goroutine of a ponder search?  Only `stop` can
   end a ponder search before it. *)
Definition hit_delivered (c : arm_case) : bool := pondering c && (ac_phit c <? ac_stop c).

(* the instant the mover's clock starts *)
Definition clock_start (c : arm_case) : Z := if hit_delivered c then ac_phit c else 0.

(* uci.go:535 (armed when the goroutine starts iff !ponder && timedMode(stm)) and uci.go:570 (armed
   on ponderhit iff ponder && timedMode(stm)); stm is the side to move of the root, read once
   before the search starts (uci.go:503).  None: no timer exists. *)
Definition timer_fires (c : arm_case) : option Z :=
  if timed_mode (ac_tc c) (ac_color c) then
    if pondering c then
      if hit_delivered c then Some (ac_phit c + timer_ms c) else None
    else Some (timer_ms c)
  else None.

(* the select loop: the stop channel closes on the timer or on `stop`, whichever is first; no other
   line touches the timer *)
Definition by_timer (c : arm_case) : bool :=
  match timer_fires c with Some f => f <=? ac_stop c | None => false end.

Definition search_end (c : arm_case) : Z :=
  match timer_fires c with
  | Some f => if f <=? ac_stop c then f else ac_stop c
  | None => ac_stop c
  end.

Definition abort_delay (c : arm_case) : Z := search_end c - clock_start c.

(* traffic lines the GUI gets through while the search runs: the j-th (1 <= j <= k) at origin + j*ivl,
   sent iff the search is not over at that instant *)
Definition traffic_origin (c : arm_case) : Z := if ac_ptok c && negb (ac_base0 c) then ac_phit c else 0.

Definition traffic_sent (c : arm_case) : Z :=
  Z.max 0 (Z.min (ac_k c) ((search_end c - traffic_origin c - 1) / ac_ivl c)).

Definition observe (c : arm_case) : list Z :=
  let t := ac_tc c in let col := ac_color c in
  [ (if timed_mode t col then soft_limit t col else -1);        (* uci.go:504 *)
    (if pondering c then 1 else 0);                             (* uci.go:509 *)
    (if hit_delivered c then ac_phit c else -1);
    abort_delay c;
    (if by_timer c then 1 else 0);
    (if ac_debug c then 0 else traffic_sent c);                 (* uci.go:583 *)
    1; 1 ].

Definition with_opponent (col : color) (t : tc) (orem oinc : Z) : tc :=
  match col with
  | White => {| wtime := wtime t; btime := orem; winc := winc t; binc := oinc; mtime := mtime t |}
  | Black => {| wtime := orem; btime := btime t; winc := oinc; binc := binc t; mtime := mtime t |}
  end.

Definition arm_valid (root plies k ivl phit stop : Z) : bool :=
  (0 <=? root) && (root <=? 5) && (0 <=? plies) && (plies <=? 4) && (0 <=? k) && (k <=? 64)
  && (1 <=? ivl) && (0 <=? phit) && (1 <=? stop).

Definition run_c14arm (input : list Z) : list Z :=
  match input with
  | root :: flags :: w :: b :: wi :: bi :: m :: orem2 :: oinc2 :: plies :: k :: ivl :: phit :: stop :: nil =>
      if arm_valid root plies k ivl phit stop then
        let col := if Z.even root then White else Black in
        let t := {| wtime := w; btime := b; winc := wi; binc := bi; mtime := m |} in
        let mk t' := {| ac_color := col; ac_tc := t';
                        ac_popt := Z.testbit flags 0; ac_ptok := Z.testbit flags 1;
                        ac_debug := Z.testbit flags 3; ac_base0 := Z.testbit flags 4;
                        ac_plies := plies; ac_k := k; ac_ivl := ivl; ac_phit := phit; ac_stop := stop |} in
        observe (mk t) ++ observe (mk (with_opponent col t orem2 oinc2))
      else nil
  | _ => nil
  end.
