(* Model of tools/tuner/tuning/batch.go (Batches / Chunks) on Go int (64 bit, wrap-around written
   out). Definitions only. Both iterators are the same loop
       for start := lo; start < hi; start += step { yield {start, min(start+step, hi)} }
   which [ranges_from] runs on a unary fuel of (hi-lo)/step + 1 turns. The generic versions take the
   two constants as arguments; [batches] / [chunks] use the generated ones. *)
From Coq Require Import ZArith List Bool.
From Chess3 Require Import Base.Word Gen.TunerConsts.
Import ListNotations.
Open Scope Z_scope.

Definition range := (Z * Z)%type.      (* Range{Start, End}: Start inclusive, End exclusive *)

Fixpoint ranges_from (fuel : nat) (start stop step : Z) : list range :=
  match fuel with
  | O => []
  | S f =>
      if start <? stop
      then (start, Z.min (wrap64 (start + step)) stop) :: ranges_from f (wrap64 (start + step)) stop step
      else []
  end.

Definition loop_fuel (start stop step : Z) : nat :=
  if step <=? 0 then O else Z.to_nat ((stop - start) / step + 1).

(* func Batches(numEntries int) iter.Seq[Range]; the second min of the Go text is the identity *)
Definition batches_gen (L : Z) (numEntries : Z) : list range :=
  map (fun r => (fst r, Z.min numEntries (snd r))) (ranges_from (loop_fuel 0 numEntries L) 0 numEntries L).

(* func Chunks(batch Range) iter.Seq[Range] *)
Definition lines_in_chunk (L C : Z) : Z := Z.quot (wrap64 (wrap64 (L + C) - 1)) C.
Definition chunks_gen (L C : Z) (batch : range) : list range :=
  let per := lines_in_chunk L C in
  ranges_from (loop_fuel (fst batch) (snd batch) per) (fst batch) (snd batch) per.

Definition batches := batches_gen NumLinesInBatch.
Definition chunks := chunks_gen NumLinesInBatch NumChunksInBatch.

Definition flatten_ranges (rs : list range) : list Z := concat (map (fun r => [fst r; snd r]) rs).

(* correspondence entry point, see harness/streams/c20.go. Arguments beyond +-2^40 are outside the
   modelled domain (the unary fuel would not be practical): empty answer. *)
Definition run_c20_batch (input : list Z) : list Z :=
  match input with
  | mode :: a :: b :: nil =>
      if (Z.abs a >? 1099511627776) || (Z.abs b >? 1099511627776) then [] else
      if mode =? 0 then flatten_ranges (batches a) else flatten_ranges (chunks (a, b))
  | _ => nil
  end.
