(* Layer A: the checkers of Model/SkelCheck.v run on the skeleton that the translator generated from
   the CURRENT search/search.go (Gen/SearchSkel.v is regenerated on every run of ./check).  Every
   lemma here is a closed computation; when an edit of search.go breaks a pairing, an abort test or
   the PV discipline, coqc fails on the lemma named after the function and the obligation. *)
From Coq Require Import String List Bool.
From Chess3 Require Import Model.Skel Model.SkelCheck Gen.SearchSkel.
Import ListNotations.
Open Scope string_scope.

(* the translator recognised everything that touches tracked state (otherwise Gen/SearchSkel.v holds
   the position and the reason, and nothing below can be stated) *)
Lemma translator_succeeded : translator_error = None.
Proof. vm_compute. reflexivity. Qed.

(* --- parameters of the three domains ------------------------------------------------------------ *)

(* functions that reset the move store / history stack / abort flag instead of preserving them *)
Definition resetters : list string := ["refresh"; "Go"].
Definition clearers : list string := ["refresh"].
(* functions without a ply parameter that start searches at an absolute ply *)
Definition unframed : list string := ["Go"; "iterativeDeepen"].

(* Stores that the skeleton allows to run while s.aborted may be set: the final insert of alphaBeta,
   and only because the null-move child (search.go, `value := -s.alphaBeta(... ply+1, CutNode ...)`)
   is not followed by an abort test.  In the real code that path needs the cut-off test
   `value >= beta` to fail although the child aborted; see the report in Properties/C08_skel.v. *)
Definition late_allowed : list string := ["alphaBeta/UpperBound"; "alphaBeta/Exact"].

Definition balD := bal_dom resetters.
Definition flagD := flag_dom late_allowed resetters clearers (quiet_of ftable).
Definition flagD_strict := flag_dom [] resetters clearers (quiet_of ftable).
Definition pvD := pvs_dom unframed (multi_conds ftable).

(* --- the hand-written models of abort and incrementNodes are models of this source text --------- *)

Definition abort_expected : string :=
  "func (s *Search) abort(opts *Options) bool { if s.aborted { return true } if opts.Stop != nil { select { case <-opts.Stop: s.aborted = true return true default: } } return false }".
Definition incrementNodes_expected : string :=
  "func (s *Search) incrementNodes(opts *Options) { if opts.Nodes == -1 || opts.Counters.Nodes < opts.Nodes { opts.Counters.Nodes++ } else if opts.PonderHit == nil { s.aborted = true } }".

(* Skel.exec rules E_AbortT / E_AbortF model abort(): true iff the flag is set, possibly by this poll *)
Lemma abort_pinned : abort_src = abort_expected.
Proof. vm_compute. reflexivity. Qed.
(* Skel.inc_nodes models incrementNodes() *)
Lemma incrementNodes_pinned : incrementNodes_src = incrementNodes_expected.
Proof. vm_compute. reflexivity. Qed.

(* --- well-formedness ------------------------------------------------------------------------------ *)

Lemma all_calls_defined : forallb (fun fb => calls_defined ftable (snd fb)) ftable = true.
Proof. vm_compute. reflexivity. Qed.

Lemma search_functions_present :
  match lookup "Go" ftable, lookup "iterativeDeepen" ftable, lookup "alphaBeta" ftable,
        lookup "quiescence" ftable, lookup "refresh" ftable with
  | Some _, Some _, Some _, Some _, Some _ => true
  | _, _, _, _, _ => false
  end = true.
Proof. vm_compute. reflexivity. Qed.

(* --- C06: balance ---------------------------------------------------------------------------------- *)

Lemma alphaBeta_balanced : fn_ok balD "alphaBeta" f_alphaBeta = true.
Proof. vm_compute. reflexivity. Qed.
Lemma quiescence_balanced : fn_ok balD "quiescence" f_quiescence = true.
Proof. vm_compute. reflexivity. Qed.
Lemma iterativeDeepen_balanced : fn_ok balD "iterativeDeepen" f_iterativeDeepen = true.
Proof. vm_compute. reflexivity. Qed.
Lemma Go_balanced_and_resets : fn_ok balD "Go" f_Go = true.
Proof. vm_compute. reflexivity. Qed.
Lemma refresh_resets : fn_ok balD "refresh" f_refresh = true.
Proof. vm_compute. reflexivity. Qed.
Lemma table_balanced : table_ok balD ftable = true.
Proof. vm_compute. reflexivity. Qed.

(* --- C08: abort before persistent stores -------------------------------------------------------------- *)

Lemma alphaBeta_abort_before_store : fn_ok flagD "alphaBeta" f_alphaBeta = true.
Proof. vm_compute. reflexivity. Qed.
(* quiescence needs no allow-list: after every child call the abort test comes first (repo d1717eb) *)
Lemma quiescence_abort_before_store : fn_ok flagD_strict "quiescence" f_quiescence = true.
Proof. vm_compute. reflexivity. Qed.
Lemma iterativeDeepen_abort_before_store : fn_ok flagD_strict "iterativeDeepen" f_iterativeDeepen = true.
Proof. vm_compute. reflexivity. Qed.
Lemma refresh_clears_abort : fn_ok flagD_strict "refresh" f_refresh = true.
Proof. vm_compute. reflexivity. Qed.
Lemma table_abort_before_store : table_ok flagD ftable = true.
Proof. vm_compute. reflexivity. Qed.
(* (with the empty allow-list alphaBeta does not pass - the null-move path; not stated as a lemma so
   that a later repair of search.go does not break the build) *)

(* --- C07: PV discipline ----------------------------------------------------------------------------------- *)

Lemma alphaBeta_pv_discipline : fn_ok pvD "alphaBeta" f_alphaBeta = true.
Proof. vm_compute. reflexivity. Qed.
Lemma quiescence_pv_discipline : fn_ok pvD "quiescence" f_quiescence = true.
Proof. vm_compute. reflexivity. Qed.
Lemma table_pv_discipline : table_ok pvD ftable = true.
Proof. vm_compute. reflexivity. Qed.
