(* Usage-pattern streams of property C17 ("... not on previous evaluations").

   c17s  SESSION: one long-lived board, played with make / undo / null moves / ResetFifty, evaluated at
         chosen points only.
           input : board-in ++ [n; op_1 .. op_n]
                   op < 65536 make op | 65536 make_null | 131072 undo the latest operation not yet undone
                   | 196608 ResetFifty | 262144 Eval
           output: per Eval op two numbers: the evaluation of the session board and the evaluation of a
                   FRESH board of the same position (for the model both are eval_Z of the model board
                   after the same operations).
   c17c  CONCURRENT: [goroutines; rounds; nb] ++ nb board-in records
           output: [mismatches; first differing board or -1; sequential value; concurrent value]
                   ++ the nb sequential evaluations.   The model has no concurrency: it answers
                   [0; -1; 0; 0] ++ the nb evaluations. *)
From Coq Require Import NArith ZArith List Bool.
From Chess3 Require Import Base.Bits Model.Types Model.BoardDef Model.Board Gen.Zobrist Gen.Coeffs Model.Eval
  Model.SeqStreams.
Import ListNotations.
Open Scope Z_scope.

Definition op_reset : Z := 196608.
Definition op_eval : Z := 262144.

Fixpoint session_ops (ops : list Z) (b : board) (st : list frame) (acc : list Z) : list Z :=
  match ops with
  | [] => acc
  | o :: rest =>
      if o =? op_eval then
        let e := eval_Z Coefficients b in session_ops rest b st (acc ++ [e; e])
      else if o =? op_reset then session_ops rest (set_fifty b 0) st acc
      else if o =? op_pop then
        match st with
        | f :: st' => session_ops rest (seq_undo b f) st' acc
        | [] => session_ops rest b st acc
        end
      else if o =? op_null then
        let '(b1, r) := make_null zob_real b in session_ops rest b1 ((None, r) :: st) acc
      else
        let m := Z.to_N o in
        let '(b1, r) := make zob_real b m in session_ops rest b1 ((Some m, r) :: st) acc
  end.

Definition run_c17s (l : list Z) : list Z :=
  match decode_board l with
  | Some (b, n :: ops) => session_ops (firstn (Z.to_nat n) ops) b [] []
  | _ => []
  end.

Definition run_c17c (l : list Z) : list Z :=
  match l with
  | _ :: _ :: nb :: rest => [0; -1; 0; 0] ++ eval_boards (Z.to_nat nb) rest
  | _ => []
  end.
