(* Property C19, spec-level oracles over what the IMPLEMENTATION produced (independent of the models
   Model/Eval*.v and Model/Vector.v: nothing here evaluates a position or walks a struct shape).

   judge_c19env   input  = board-in
                  output = [stm fifty fenok  i_restored i_nohash i_parsefen  raw er_nohash er_parsefen er_epd]
                  (harness/streams/c19.go runC19Env; the four floats are IEEE-754 binary64 bit patterns)
     clause 1  malformed observation / implementation panicked / a float is NaN or infinite
     clause 2  the integer evaluation depends on the hash history or on how the position was loaded
     clause 3  sign convention: EngineRep.Eval is not (White to move ? Eval : -Eval)
     clause 4  EngineRep.Eval differs between the no-hash board, board.ParseFEN and epd.Parse
     clause 5  | EngineRep.Eval - white_relative(integer evaluation) | >= 2.25   (halfmove clock 0..200)

   judge_c19vec   input  = [mode k nt t1..tnt], output as documented at runC19Vec
     mode 0: clause 11 read-back vector differs from the written one / wrong length
             clause 12 TunedParams: indices not 0..N-1 in order, or the value behind pointer i is not
                       vector entry i, or the pointer does not address the memory cell holding it, or two
                       pointers coincide
             clause 13 SetVector wrote a different number of coefficients than the vector has entries
     mode 1: clause 14 perturbing tuned parameter k does not change exactly one coefficient by exactly the
                       perturbation, or does not change exactly vector entry k (k < N); changes something for k >= N
             clause 15 the client's perturb/restore loop does not restore the coefficients / gradient
                       vector length differs from the number of tuned parameters
     mode 3: mode 0 with clauses 11-13 evaluated by the harness (exhaustive sweep over target subsets)
     mode 4: clause 17 a pointer yielded by the iterator of set j does not point into set j, or the value behind
                       it is not entry <index> of that set's vector (iterators of other sets being alive)
             clause 18 the cells written through the pointers of set j are not exactly the cells its iterator reached
     mode 5: clause 19 a concurrent worker saw a pointer outside its private set / its set changed
     mode 2: clause 16 EngineCoeffs() is not the shipped integer coefficient set (memory order)        *)
From Coq Require Import ZArith List Bool.
From Chess3 Require Import Model.Types Model.BoardDef Gen.CoeffShape.
Import ListNotations.
Open Scope Z_scope.

(* an IEEE-754 binary64 bit pattern as a dyadic rational (m, e) = m * 2^e; None for NaN / infinities *)
Definition dyadic_of_bits (w : Z) : option (Z * Z) :=
  let s := Z.shiftr w 63 in
  let ex := Z.land (Z.shiftr w 52) 2047 in
  let fr := Z.land w (2 ^ 52 - 1) in
  if (w <? 0) || (2 ^ 64 <=? w) || (ex =? 2047) then None else
  let m := if ex =? 0 then fr else fr + 2 ^ 52 in
  let e := if ex =? 0 then -1074 else ex - 1075 in
  Some (if s =? 0 then m else - m, e).

(* m1 * 2^e1 = m2 * 2^e2 *)
Definition dy_eqb (a b : Z * Z) : bool :=
  let '(m1, e1) := a in let '(m2, e2) := b in
  if e1 <=? e2 then m1 =? m2 * 2 ^ (e2 - e1) else m1 * 2 ^ (e1 - e2) =? m2.
Definition dy_neg (a : Z * Z) : Z * Z := (- fst a, snd a).

(* | m * 2^e - w | < num / den *)
Definition dy_close (a : Z * Z) (w num den : Z) : bool :=
  let '(m, e) := a in
  if 0 <=? e then den * Z.abs (m * 2 ^ e - w) <? num
  else let d := 2 ^ (- e) in den * Z.abs (m - w * d) <? num * d.

Definition judge_c19env (l : list Z) : list Z :=
  match decode_board l with
  | Some (b, [st; fi; fenok; i1; i2; i3; raw; er1; er2; er3]) =>
      match dyadic_of_bits raw, dyadic_of_bits er1, dyadic_of_bits er2, dyadic_of_bits er3 with
      | Some draw, Some d1, Some d2, Some d3 =>
          if negb ((st =? Z.of_N (cix (stm b))) && (fi =? fifty b)) then [0; 1] else
          if negb ((i1 =? i2) && (i2 =? i3)) then [0; 2] else
          if negb (dy_eqb d1 (match stm b with White => draw | Black => dy_neg draw end)) then [0; 3] else
          if negb (dy_eqb d1 d2 && dy_eqb d1 d3) then [0; 4] else
          if (0 <=? fifty b) && (fifty b <=? 200) then
            let w := match stm b with White => i2 | Black => - i2 end in
            if dy_close d1 w 9 4 then [1] else [0; 5]
          else [1]
      | _, _, _, _ => [0; 1]
      end
  | _ => [0; 1]
  end.

(* ------------------------------------------------------------------------------------------ *)

Definition total_coeffs : nat := length engine_flat.

Fixpoint triples_ok (i : Z) (prev : Z) (mem r : list Z) (tp : list Z) : bool :=
  match tp with
  | [] => true
  | ix :: pos :: val :: rest =>
      (* the i-th parameter of the iteration addresses the cell that vector index i was written to and read
         from; WHICH cell that is (declaration order, order of the target list, ...) is not constrained by the
         property - distinct indices address distinct cells because the written values are pairwise distinct *)
      (ix =? i) &&
      (nth (Z.to_nat i) r (-7) =? val) && (nth (Z.to_nat pos) mem (-7) =? val) && (0 <=? pos) &&
      triples_ok (i + 1) pos mem r rest
  | _ => false
  end.

Definition odd_list (n : nat) : list Z := map (fun i => 2 * Z.of_nat i + 1) (seq 0 n).

Fixpoint list_eqb (a b : list Z) : bool :=
  match a, b with
  | [], [] => true
  | x :: a', y :: b' => (x =? y) && list_eqb a' b'
  | _, _ => false
  end.

(* mode 4: records (j, index, set of the pointer, position, value-ok) *)
Fixpoint live_recs_ok (r : list Z) : bool :=
  match r with
  | [] => true
  | j :: _ :: k :: _ :: ok :: rest => (j =? k) && (ok =? 1) && live_recs_ok rest
  | _ => false
  end.

(* the positions reached through iterator j, as a bit set *)
Fixpoint live_mask (j : Z) (r : list Z) (acc : N) : N :=
  match r with
  | jj :: _ :: _ :: p :: _ :: rest => live_mask j rest (if jj =? j then N.lor acc (N.shiftl 1 (Z.to_N p)) else acc)
  | _ => acc
  end.

Fixpoint increasing (prev : Z) (l : list Z) : bool :=
  match l with [] => true | x :: r => (prev <? x) && increasing x r end.

(* per set: the written cells are exactly the cells reached through the iterator of that set *)
Fixpoint live_dumps_ok (recs dumps : list Z) (j : Z) (nsets : nat) : bool :=
  match nsets with
  | O => match dumps with [] => true | _ => false end
  | S n =>
      match dumps with
      | cnt :: d =>
          let cells := firstn (Z.to_nat cnt) d in
          (Z.of_nat (length cells) =? cnt) && increasing (-1) cells &&
          N.eqb (fold_left (fun acc p => N.lor acc (N.shiftl 1 (Z.to_N p))) cells 0%N) (live_mask j recs 0%N) &&
          live_dumps_ok recs (skipn (Z.to_nat cnt) d) (j + 1) n
      | [] => false
      end
  end.

Fixpoint workers_ok (out : list Z) (k : nat) : bool :=
  match k with
  | O => match out with [] => true | _ => false end
  | S n => match out with
           | a :: b :: _ :: rest => (a =? 1) && (b =? 1) && workers_ok rest n
           | _ => false
           end
  end.

Definition judge_c19vec (l : list Z) : list Z :=
  match l with
  | mode :: k :: nt :: rest =>
      let out := skipn (Z.to_nat nt) rest in
      if mode =? 0 then
        match out with
        | n :: o1 =>
            let mem := firstn total_coeffs o1 in
            match skipn total_coeffs o1 with
            | lr :: o2 =>
                let r := firstn (Z.to_nat lr) o2 in
                match skipn (Z.to_nat lr) o2 with
                | np :: tp =>
                    if negb ((lr =? n) && list_eqb r (odd_list (Z.to_nat n))) then [0; 11] else
                    if negb ((np =? n) && (Z.of_nat (length tp) =? 3 * n) && triples_ok 0 (-1) mem r tp) then [0; 12] else
                    if negb (Z.of_nat (length (filter (fun x => negb (x =? 0)) mem)) =? n) then [0; 13] else [1]
                | [] => [0; 1]
                end
            | [] => [0; 1]
            end
        | [] => [0; 1]
        end
      else if mode =? 1 then
        match out with
        | n :: nc :: o1 =>
            let inr := (0 <=? k) && (k <? n) in
            if inr then
              match o1 with
              | [_; d; 1; ix; dv; restored] =>
                  if negb ((nc =? 1) && (d =? 1) && (ix =? k) && (dv =? 1)) then [0; 14] else
                  if restored =? 1 then [1] else [0; 15]
              | _ => [0; 14]
              end
            else
              match o1 with
              | [0; restored] => if negb (nc =? 0) then [0; 14] else if restored =? 1 then [1] else [0; 15]
              | _ => [0; 14]
              end
        | _ => [0; 1]
        end
      else if mode =? 2 then
        if list_eqb out engine_flat then [1] else [0; 16]
      else if mode =? 4 then
        match out with
        | nrec :: o1 =>
            let recs := firstn (5 * Z.to_nat nrec) o1 in
            let dumps := skipn (5 * Z.to_nat nrec) o1 in
            let nsets := S (length (filter (fun x => x =? 63) (firstn (Z.to_nat nt) rest))) in
            if negb (live_recs_ok recs) then [0; 17] else
            if negb (live_dumps_ok recs dumps 0 nsets) then [0; 18] else [1]
        | [] => [0; 1]
        end
      else if mode =? 5 then
        if workers_ok out (Z.to_nat k) then [1] else [0; 19]
      else if mode =? 3 then
        match out with
        | n :: rd :: tp :: wr :: _ =>
            if negb (rd =? 1) then [0; 11] else if negb (tp =? 1) then [0; 12] else if negb (wr =? 1) then [0; 13] else [1]
        | _ => [0; 1]
        end
      else [1]
  | _ => [0; 1]
  end.

(* ------------------------------------------------------------------------------------------ *)
(* judge_c19fresh: input [workers window npos] ++ npos board-in; output npos ints ++ (workers+1) blocks
   [ndiff] ++ npos float bit patterns (harness/streams/c19fresh.go)
     clause 21  a goroutine of the first concurrent use of the package (or the sequential call after it) got a
                coefficient set that differs from the shipped one
     clause 22  its EngineRep.Eval is outside the envelope of the integer evaluation
     clause 1   malformed observation / the child process failed *)
Fixpoint decode_boards (n : nat) (l : list Z) : option (list board * list Z) :=
  match n with
  | O => Some ([], l)
  | S k => match decode_board l with
           | Some (b, rest) => match decode_boards k rest with
                               | Some (bs, r) => Some (b :: bs, r)
                               | None => None
                               end
           | None => None
           end
  end.

Fixpoint fresh_block_ok (bs : list board) (ints fl : list Z) : bool :=
  match bs, ints, fl with
  | [], [], [] => true
  | b :: bs', i :: ints', f :: fl' =>
      match dyadic_of_bits f with
      | Some d =>
          (negb ((0 <=? fifty b) && (fifty b <=? 200)) ||
           dy_close d (match stm b with White => i | Black => - i end) 9 4) && fresh_block_ok bs' ints' fl'
      | None => false
      end
  | _, _, _ => false
  end.

Fixpoint fresh_blocks (n : nat) (np : nat) (bs : list board) (ints out : list Z) : list Z :=
  match n with
  | O => match out with [] => [1] | _ => [0; 1] end
  | S k =>
      match out with
      | nd :: o1 =>
          if negb (nd =? 0) then [0; 21] else
          if negb (fresh_block_ok bs ints (firstn np o1)) then [0; 22] else
          fresh_blocks k np bs ints (skipn np o1)
      | [] => [0; 1]
      end
  end.

Definition judge_c19fresh (l : list Z) : list Z :=
  match l with
  | w :: _ :: np :: rest =>
      match decode_boards (Z.to_nat np) rest with
      | Some (bs, out) =>
          let n := Z.to_nat np in
          if (Z.of_nat (length out) =? np + (w + 1) * (np + 1)) && (0 <? w) then
            fresh_blocks (S (Z.to_nat w)) n bs (firstn n out) (skipn n out)
          else [0; 1]
      | None => [0; 1]
      end
  | _ => [0; 1]
  end.
