(* Every move accepted by IsPseudoLegal is [applicable] (the hypothesis of C03 / C04), on boards that
   satisfy Rep and two facts every valid position has (Spec/Chess.v [valid]: ep_ok and
   rights_consistent imply them):
     ep_inv      an en-passant target is on the mover's sixth rank, empty, and the square behind it
                 (where the pushed pawn stands) does not hold a piece of the side to move;
     castle_inv  a castling right implies an own rook on the corresponding corner.
   Without them IsPseudoLegal accepts moves that MakeMove / UndoMove do not undo (an en-passant
   shaped capture onto an occupied target square; castling without a rook), so they cannot be
   dropped. *)
From Coq Require Import NArith ZArith List Bool Lia.
From Chess3 Require Import Base.Bits Base.Word Model.Types Model.Att Model.BoardDef Model.Board Model.Movegen
  Spec.Rep Spec.Applicable Proofs.BoardInv Proofs.UndoMove.
Import ListNotations.
Open Scope N_scope.

Definition ep_victim (c : color) (e : N) : N := match c with White => e - 8 | Black => e + 8 end.

Definition ep_inv (b : board) : bool :=
  (ep b =? 0) ||
  ((sq_rank (ep b) =? match stm b with White => 5 | Black => 2 end) &&
   (piece_at b (ep b) =? NoPiece) &&
   negb (N.testbit (colors b (stm b)) (ep_victim (stm b) (ep b)))).

Definition castle_inv (b : board) : bool :=
  (negb (N.testbit (castles b) 0) || ((piece_at b H1 =? Rook) && N.testbit (colors b White) H1)) &&
  (negb (N.testbit (castles b) 1) || ((piece_at b A1 =? Rook) && N.testbit (colors b White) A1)) &&
  (negb (N.testbit (castles b) 2) || ((piece_at b H8 =? Rook) && N.testbit (colors b Black) H8)) &&
  (negb (N.testbit (castles b) 3) || ((piece_at b A8 =? Rook) && N.testbit (colors b Black) A8)).

(* ------------------------------------------------------------------------------------------ *)
(* bit tests *)

Lemma band_bit_eq0 x s : (band x (bit s) =? 0) = negb (N.testbit x s).
Proof.
  destruct (N.testbit x s) eqn:T; cbn [negb].
  - apply N.eqb_neq. intros E. assert (X : N.testbit (band x (bit s)) s = false) by (rewrite E; apply N.bits_0).
    unfold band in X. rewrite N.land_spec, T, bit_testbit, N.eqb_refl in X. discriminate.
  - apply N.eqb_eq. apply N.bits_inj; intro i. unfold band. rewrite N.land_spec, bit_testbit, N.bits_0.
    destruct (N.eqb_spec s i) as [<-|]; [rewrite T; reflexivity|apply andb_false_r].
Qed.

Lemma band_eq0_testbit x y s : band x y = 0 -> N.testbit y s = true -> N.testbit x s = false.
Proof.
  intros E T. assert (X : N.testbit (band x y) s = false) by (rewrite E; apply N.bits_0).
  unfold band in X. rewrite N.land_spec, T, andb_true_r in X. exact X.
Qed.

(* ------------------------------------------------------------------------------------------ *)
(* geometry of en-passant shaped pawn moves, by enumeration of the 2 x 64 x 64 cases *)

Definition geo (c : color) (from to : N) : bool :=
  let csq := N.lor (N.land to 7) (N.land from 56) in
  let fd := abs_diff (sq_file from) (sq_file to) in
  let rd := abs_diff (sq_rank from) (sq_rank to) in
  let dir_ok := negb (((from <? to) && color_eqb c Black) || ((to <? from) && color_eqb c White)) in
  let eprank := sq_rank to =? match c with White => 5 | Black => 2 end in
  implb (dir_ok && eprank)
    (if fd =? 0 then
       if rd =? 1 then from =? ep_victim c to
       else if rd =? 2 then band (bit from) (rank_from c SecondRank) =? 0
       else true
     else if fd =? 1 then
       if rd =? 1 then csq =? ep_victim c to else true
     else true).

Lemma geo_all : forallb (fun c => forallb (fun f => forallb (fun t => geo c f t) squares64) squares64) [White; Black] = true.
Proof. vm_compute. reflexivity. Qed.

Lemma geo_ok c from to : from < 64 -> to < 64 -> geo c from to = true.
Proof.
  intros Hf Ht. pose proof geo_all as H. rewrite forallb_forall in H.
  assert (Hc : In c [White; Black]) by (destruct c; cbn; auto).
  specialize (H c Hc). rewrite forallb_forall in H. specialize (H from (proj2 (In_squares64 from) Hf)).
  rewrite forallb_forall in H. apply H. apply In_squares64. exact Ht.
Qed.

(* king moves of the castling shape that are not castling of the side to move are rejected *)
Lemma king_shape_reject :
  band (king_moves E1) (bit G1) = 0 /\ band (king_moves E1) (bit C1) = 0 /\
  band (king_moves E8) (bit G8) = 0 /\ band (king_moves E8) (bit C8) = 0.
Proof. vm_compute. repeat split; reflexivity. Qed.

Lemma not_ep_csq b m : is_en_passant b m = false -> capture_sq b m = mv_to m.
Proof. intros H. unfold capture_sq. rewrite H. reflexivity. Qed.

Lemma RepP_unoccupied b s : RepP b -> s < 64 ->
  N.testbit (colors b White) s = false -> N.testbit (colors b Black) s = false -> piece_at b s = 0.
Proof.
  intros R Hs W B. destruct (rp_sq b R s Hs) as [(A & _)|(c & p & _ & _ & _ & C)]; [exact A|].
  destruct c; [rewrite C in W|rewrite C in B]; discriminate.
Qed.

Lemma and4 a b c d : a = true -> b = true -> c = true -> d = true -> a && b && c && d = true.
Proof. intros -> -> -> ->. reflexivity. Qed.

Section Ipl.
Variables (b : board) (m : N).
Hypothesis HR : RepP b.
Hypothesis HE : ep_inv b = true.
Hypothesis HC : castle_inv b = true.
Hypothesis HI : is_pseudo_legal b m = true.

Local Notation from := (mv_from m).
Local Notation to := (mv_to m).
Local Notation me := (stm b).
Local Notation piece := (piece_at b (mv_from m)).

Lemma ipl_basic :
  N.testbit (colors b me) from = true /\ N.testbit (colors b me) to = false /\
  (piece <> Pawn -> mv_promo m = 0).
Proof.
  pose proof HI as H. unfold is_pseudo_legal in H. cbv zeta in H. rewrite !band_bit_eq0 in H.
  destruct (N.testbit (colors b me) from); [|discriminate]. cbn [negb] in H.
  destruct (N.testbit (colors b me) to); [discriminate|]. cbn [negb] in H.
  repeat split. intros NP. destruct (N.eqb_spec (mv_promo m) NoPiece) as [E|E]; [exact E|].
  destruct (N.eqb_spec piece Pawn) as [E2|E2]; [congruence|]. cbn [negb andb] in H. discriminate.
Qed.

(* the body of IsPseudoLegal after the three common tests *)
Lemma ipl_body :
  (if piece =? Knight then true
   else if piece =? Bishop then true
   else if piece =? Rook then true
   else if piece =? Queen then true
   else if piece =? King then
     if (from =? E1) && (to =? G1) && color_eqb me White then
       ipl_castle b (bor (colors b White) (colors b Black)) ShortWhite (bor (bit F1) (bit G1)) (bb3 E1 F1 G1)
     else if (from =? E1) && (to =? C1) && color_eqb me White then
       ipl_castle b (bor (colors b White) (colors b Black)) LongWhite (bb3 D1 C1 B1) (bb3 E1 D1 C1)
     else if (from =? E8) && (to =? G8) && color_eqb me Black then
       ipl_castle b (bor (colors b White) (colors b Black)) ShortBlack (bor (bit F8) (bit G8)) (bb3 E8 F8 G8)
     else if (from =? E8) && (to =? C8) && color_eqb me Black then
       ipl_castle b (bor (colors b White) (colors b Black)) LongBlack (bb3 D8 C8 B8) (bb3 E8 D8 C8)
     else negb (band (king_moves from) (bit to) =? 0)
   else if piece =? Pawn then
     if ((from <? to) && color_eqb me Black) || ((to <? from) && color_eqb me White) then false else
     let on7 := negb (band (rank_from me SeventhRank) (bit from) =? 0) in
     if on7 && ((mv_promo m <? Knight) || (Queen <? mv_promo m)) then false else
     if negb on7 && negb (mv_promo m =? NoPiece) then false else
     let fd := abs_diff (sq_file from) (sq_file to) in
     let rd := abs_diff (sq_rank from) (sq_rank to) in
     if fd =? 0 then
       if rd =? 1 then true
       else if rd =? 2 then negb (band (bit from) (rank_from me SecondRank) =? 0)
       else false
     else if fd =? 1 then rd =? 1
     else false
   else true) = true.
Proof.
  pose proof HI as H. unfold is_pseudo_legal in H. cbv zeta in H.
  destruct (band (colors b me) (bit from) =? 0); [discriminate|].
  destruct (negb (band (colors b me) (bit to) =? 0)); [discriminate|].
  destruct (negb (mv_promo m =? NoPiece) && negb (piece =? Pawn)); [discriminate|].
  destruct (piece =? Knight); [reflexivity|].
  destruct (piece =? Bishop); [reflexivity|].
  destruct (piece =? Rook); [reflexivity|].
  destruct (piece =? Queen); [reflexivity|].
  destruct (piece =? King); [exact H|].
  destruct (piece =? Pawn); [|reflexivity].
  cbv zeta.
  destruct (((from <? to) && color_eqb me Black) || ((to <? from) && color_eqb me White)); [discriminate|].
  destruct (negb (band (rank_from me SeventhRank) (bit from) =? 0) && ((mv_promo m <? Knight) || (Queen <? mv_promo m))); [discriminate|].
  destruct (negb (negb (band (rank_from me SeventhRank) (bit from) =? 0)) && negb (mv_promo m =? NoPiece)); [discriminate|].
  destruct (abs_diff (sq_file from) (sq_file to) =? 0).
  - destruct (abs_diff (sq_rank from) (sq_rank to) =? 1); [reflexivity|].
    destruct (abs_diff (sq_rank from) (sq_rank to) =? 2); [|exact H].
    destruct (band (bit from) (rank_from me SecondRank) =? 0); [discriminate|reflexivity].
  - destruct (abs_diff (sq_file from) (sq_file to) =? 1); [|exact H].
    destruct (negb (abs_diff (sq_rank from) (sq_rank to) =? 1)) eqn:X; [discriminate|].
    apply negb_false_iff in X. exact X.
Qed.

Lemma ipl_pawn_promo : piece = Pawn -> mv_promo m <= 5.
Proof.
  intros EP. pose proof HI as H. unfold is_pseudo_legal in H. cbv zeta in H.
  destruct (band (colors b me) (bit from) =? 0); [discriminate|].
  destruct (negb (band (colors b me) (bit to) =? 0)); [discriminate|].
  destruct (negb (mv_promo m =? NoPiece) && negb (piece =? Pawn)); [discriminate|].
  rewrite EP in H.
  change (Pawn =? Knight) with false in H. change (Pawn =? Bishop) with false in H.
  change (Pawn =? Rook) with false in H. change (Pawn =? Queen) with false in H.
  change (Pawn =? King) with false in H. change (Pawn =? Pawn) with true in H. cbv iota in H.
  destruct (((from <? to) && color_eqb me Black) || ((to <? from) && color_eqb me White)); [discriminate|].
  destruct (band (rank_from me SeventhRank) (bit from) =? 0); cbn [negb andb] in H.
  - destruct (N.eqb_spec (mv_promo m) NoPiece) as [E|E]; [rewrite E; cbv; discriminate|discriminate].
  - destruct (N.ltb_spec (mv_promo m) Knight); [discriminate|].
    destruct (N.ltb_spec Queen (mv_promo m)); [discriminate|]. unfold Queen in *. lia.
Qed.

Lemma castle_case occ right i empties safes corner rt c :
  occ = bor (colors b White) (colors b Black) ->
  ipl_castle b occ right empties safes = true -> right = bit i -> N.testbit empties rt = true -> rt < 64 ->
  (N.testbit (castles b) i = true -> (piece_at b corner =? Rook) && N.testbit (colors b c) corner = true) ->
  (piece_at b corner =? Rook) && N.testbit (colors b c) corner && (piece_at b rt =? NoPiece) = true.
Proof.
  intros Eo H Er Ee Hrt HCi. unfold ipl_castle in H. apply negb_true_iff in H.
  apply orb_false_iff in H. destruct H as [H _]. apply orb_false_iff in H. destruct H as [H1 H2].
  rewrite Er, band_bit_eq0 in H1. apply negb_false_iff in H1.
  apply negb_false_iff in H2. apply N.eqb_eq in H2.
  rewrite (HCi H1). cbn [andb].
  assert (O : N.testbit occ rt = false).
  { unfold band in H2. rewrite N.land_comm in H2. apply (band_eq0_testbit occ empties rt H2 Ee). }
  rewrite Eo in O. unfold bor in O. rewrite N.lor_spec in O. apply orb_false_iff in O. destruct O as [O1 O2].
  rewrite (RepP_unoccupied b rt HR Hrt O1 O2). reflexivity.
Qed.

Lemma castle_inv_parts :
  (N.testbit (castles b) 0 = true -> (piece_at b H1 =? Rook) && N.testbit (colors b White) H1 = true) /\
  (N.testbit (castles b) 1 = true -> (piece_at b A1 =? Rook) && N.testbit (colors b White) A1 = true) /\
  (N.testbit (castles b) 2 = true -> (piece_at b H8 =? Rook) && N.testbit (colors b Black) H8 = true) /\
  (N.testbit (castles b) 3 = true -> (piece_at b A8 =? Rook) && N.testbit (colors b Black) A8 = true).
Proof.
  pose proof HC as H. unfold castle_inv in H.
  apply andb_true_iff in H. destruct H as [H H4]. apply andb_true_iff in H. destruct H as [H H3].
  apply andb_true_iff in H. destruct H as [H1 H2].
  repeat split; intros T; [rewrite T in H1|rewrite T in H2|rewrite T in H3|rewrite T in H4]; assumption.
Qed.

Theorem ipl_applicable : applicable b m = true.
Proof.
  destruct ipl_basic as (Tf & Tt & Pz). pose proof ipl_body as HB.
  destruct castle_inv_parts as (C0 & C1' & C2 & C3).
  unfold applicable. cbv zeta. rewrite Tf, Tt. cbn [negb andb].
  destruct (N.eqb_spec piece Pawn) as [EP|NP].
  - (* pawn moves *)
    assert (RS : rook_sqs piece from to = None) by (unfold rook_sqs; rewrite EP; reflexivity).
    pose proof (ipl_pawn_promo EP) as PP.
    assert (PC : (mv_promo m =? NoPiece) || (true && (mv_promo m <=? King)) = true).
    { cbn [andb].
      destruct (N.leb_spec (mv_promo m) King); [apply orb_true_r|unfold King in *; lia]. }
    destruct (is_en_passant b m) eqn:IE.
    + (* en-passant shaped *)
      unfold is_en_passant in IE. apply andb_true_iff in IE. destruct IE as [IE _].
      apply andb_true_iff in IE. destruct IE as [E0 E1']. apply negb_true_iff in E0. apply N.eqb_eq in E1'.
      pose proof HE as HE'. unfold ep_inv in HE'. rewrite E0 in HE'. cbn [orb] in HE'.
      apply andb_true_iff in HE'. destruct HE' as [HE' V]. apply andb_true_iff in HE'. destruct HE' as [Rk Em].
      rewrite E1' in Rk, Em, V. apply negb_true_iff in V.
      assert (CS : capture_sq b m = N.lor (N.land to 7) (N.land from 56)).
      { unfold capture_sq, is_en_passant. rewrite E0, E1', N.eqb_refl, EP. reflexivity. }
      apply and4; [|rewrite Em; apply orb_true_r|exact PC|rewrite RS; reflexivity].
      rewrite CS.
      pose proof (geo_ok me from to (mv_from_lt m) (mv_to_lt m)) as G. unfold geo in G. cbv zeta in G.
      rewrite Rk, andb_true_r in G.
      rewrite EP in HB.
      change (Pawn =? Knight) with false in HB. change (Pawn =? Bishop) with false in HB.
      change (Pawn =? Rook) with false in HB. change (Pawn =? Queen) with false in HB.
      change (Pawn =? King) with false in HB. change (Pawn =? Pawn) with true in HB. cbv iota zeta in HB.
      destruct (((from <? to) && color_eqb me Black) || ((to <? from) && color_eqb me White)); [discriminate|].
      cbn [negb implb] in G.
      destruct (negb (band (rank_from me SeventhRank) (bit from) =? 0) && ((mv_promo m <? Knight) || (Queen <? mv_promo m))); [discriminate|].
      destruct (negb (negb (band (rank_from me SeventhRank) (bit from) =? 0)) && negb (mv_promo m =? NoPiece)); [discriminate|].
      destruct (abs_diff (sq_file from) (sq_file to) =? 0).
      * destruct (abs_diff (sq_rank from) (sq_rank to) =? 1).
        -- apply N.eqb_eq in G. rewrite <- G in V. congruence.
        -- destruct (abs_diff (sq_rank from) (sq_rank to) =? 2); [|discriminate].
           rewrite G in HB. discriminate.
      * destruct (abs_diff (sq_file from) (sq_file to) =? 1); [|discriminate].
        rewrite HB in G. apply N.eqb_eq in G. rewrite G, V. reflexivity.
    + apply and4; [rewrite (not_ep_csq b m IE), Tt; reflexivity|rewrite (not_ep_csq b m IE), N.eqb_refl; reflexivity
                  |exact PC|rewrite RS; reflexivity].
  - (* other pieces *)
    assert (IE : is_en_passant b m = false).
    { unfold is_en_passant. apply N.eqb_neq in NP. rewrite NP. apply andb_false_r. }
    apply and4; [rewrite (not_ep_csq b m IE), Tt; reflexivity|rewrite (not_ep_csq b m IE), N.eqb_refl; reflexivity
                |rewrite (Pz NP); reflexivity|].
    unfold rook_sqs. destruct (N.eqb_spec piece King) as [EK|NK]; [|reflexivity].
    rewrite EK in HB.
    change (King =? Knight) with false in HB. change (King =? Bishop) with false in HB.
    change (King =? Rook) with false in HB. change (King =? Queen) with false in HB.
    change (King =? King) with true in HB. cbv iota in HB.
    destruct king_shape_reject as (K1 & K2 & K3 & K4).
    unfold castle_rook.
    destruct (N.eqb_spec from E1) as [Hf1|Hf1]; cbn [andb] in HB |- *.
    + destruct (N.eqb_spec to G1) as [T1|T1]; cbn [andb] in HB |- *.
      * destruct me; cbn [color_eqb] in HB.
        -- apply (castle_case _ ShortWhite 0 _ _ H1 F1 White eq_refl HB); [reflexivity|reflexivity|reflexivity|exact C0].
        -- rewrite Hf1, T1 in HB. cbn [andb N.eqb Pos.eqb E1 E8 G1 C1 G8 C8] in HB. rewrite K1 in HB. discriminate.
      * destruct (N.eqb_spec to C1) as [T2|T2]; cbn [andb] in HB |- *.
        -- destruct me; cbn [color_eqb] in HB.
           ++ apply (castle_case _ LongWhite 1 _ _ A1 D1 White eq_refl HB); [reflexivity|reflexivity|reflexivity|exact C1'].
           ++ rewrite Hf1, T2 in HB. cbn [andb N.eqb Pos.eqb E1 E8 G1 C1 G8 C8] in HB. rewrite K2 in HB. discriminate.
        -- rewrite Hf1. reflexivity.
    + destruct (N.eqb_spec from E8) as [Hf8|Hf8]; cbn [andb] in HB |- *; [|reflexivity].
      destruct (N.eqb_spec to G8) as [T1|T1]; cbn [andb] in HB |- *.
      * destruct me; cbn [color_eqb] in HB.
        -- rewrite Hf8, T1 in HB. cbn [andb N.eqb Pos.eqb E1 E8 G1 C1 G8 C8] in HB. rewrite K3 in HB. discriminate.
        -- apply (castle_case _ ShortBlack 2 _ _ H8 F8 Black eq_refl HB); [reflexivity|reflexivity|reflexivity|exact C2].
      * destruct (N.eqb_spec to C8) as [T2|T2]; cbn [andb] in HB |- *; [|reflexivity].
        destruct me; cbn [color_eqb] in HB.
        -- rewrite Hf8, T2 in HB. cbn [andb N.eqb Pos.eqb E1 E8 G1 C1 G8 C8] in HB. rewrite K4 in HB. discriminate.
        -- apply (castle_case _ LongBlack 3 _ _ A8 D8 Black eq_refl HB); [reflexivity|reflexivity|reflexivity|exact C3].
Qed.
End Ipl.

Theorem pseudo_legal_applicable b m :
  Rep b -> ep_inv b = true -> castle_inv b = true -> is_pseudo_legal b m = true -> applicable b m = true.
Proof. intros HR. apply ipl_applicable. apply (rw_p b (Rep_RepW b HR)). Qed.

(* NOT proved here (left for the movegen builder): the same for the generated moves *)
Definition gen_applicable_statement : Prop :=
  forall b m, Rep b -> ep_inv b = true -> castle_inv b = true -> In m (gen_all b) -> applicable b m = true.
