(* The named premises of theorem C10_true: the links to the neighbouring properties and the one
   hypothesis no proof can remove.  They are statements, not assumptions of the development: each
   appears as an explicit premise of the theorem.

   step_link    (C03/C04 + C02) one MakeMove on a board that represents position p (up to the two
                clocks, which take no part in position identity) with a legal move: the
                representation invariant is kept, the newest history entry is calculateHash of the new
                board, and the new board represents succ_spec p m - in particular the en-passant
                square is recorded exactly when an en-passant capture is legal.
   valid_link   (valid_step) a legal move leads from a valid position to a valid position.
   no_collision different position keys in THIS game have different Zobrist hashes.  64-bit hashing
                is not injective; this cannot be proved and is measured on every run instead. *)
From Coq Require Import NArith ZArith List Bool.
From Chess3 Require Import Base.Bits Model.Types Model.BoardDef Model.Board Spec.Geometry Spec.Chess Spec.Rep.
Import ListNotations.

Definition same_core (p q : pos) : Prop :=
  at_ p = at_ q /\ turn p = turn q /\ rights p = rights q /\ epsq p = epsq q.

Definition step_link (z : zobrist) : Prop :=
  forall b p m, Rep b -> cur_hash b = calc_hash z b -> same_core (abs b) p ->
    valid p = true -> legal_spec p m = true ->
    let b' := fst (make z b m) in
    Rep b' /\ cur_hash b' = calc_hash z b' /\ same_core (abs b') (succ_spec p m).

Definition valid_link : Prop :=
  forall p m, valid p = true -> legal_spec p m = true -> valid (succ_spec p m) = true.

(* bps: the boards of the game paired with the positions of the game *)
Definition no_collision (z : zobrist) (bps : list (board * pos)) : Prop :=
  forall b p b' p', In (b, p) bps -> In (b', p') bps ->
    pos_key p <> pos_key p' -> calc_hash z b <> calc_hash z b'.
