#!/usr/bin/env python3
"""Run checks against a property-PRESERVING change delivered by a sub-agent and file the outcome.

  tools/harmless_admit.py <area> <Hn> <check ids...>

Files seeded/harmless-<area>-<Hn>/{patch.diff, notes.md, meta.json}. Expected outcome: every check exits 0;
a `VIOLATION ... no-failing-input-found` is the documented report for a rewrite that the exact model no longer
matches although no property clause fails; a VIOLATION with a witness would be a FALSE ALARM to be fixed."""
import json, os, re, shutil, subprocess, sys
area, var = sys.argv[1], sys.argv[2]
checks = sys.argv[3:]
src = f"/root/seedout/harmless-{area}/{var}"
ENV = dict(os.environ, GOFLAGS="-mod=mod", GOPROXY="off")
def sh(cmd, cwd=None, env=None, timeout=3600):
    p = subprocess.run(cmd, cwd=cwd, shell=isinstance(cmd, str), env=env or ENV, timeout=timeout,
                       stdout=subprocess.PIPE, stderr=subprocess.STDOUT, text=True)
    return p.returncode, p.stdout
wt = f"/root/scratch/harmwt-{area}{var}"
sh(["git", "-C", "/repo", "worktree", "remove", "--force", wt])
rc, out = sh(["git", "-C", "/repo", "worktree", "add", "-q", "--detach", wt, "HEAD"]); assert rc == 0, out
res = {"area": area, "variant": var, "checks": {}}
try:
    rc, out = sh(["git", "-C", wt, "apply", os.path.join(src, "patch.diff")]); assert rc == 0, out
    rc, out = sh("go build ./... && go build -tags verif ./...", cwd=wt)
    res["builds"] = rc == 0
    for c in checks:
        rc, out = sh(["./check", c, "--tier", "quick"], cwd=os.environ.get("VERIF_DIR", "/verif"), env=dict(ENV, VERIF_REPO=wt))
        vio = [l for l in out.split("\n") if l.startswith("VIOLATION")]
        entry = {"exit": rc, "violation_lines": vio[:4]}
        for l in vio[:1]:
            m = re.search(r"replay=(\S+)", l)
            if m and os.path.exists(m.group(1)):
                body = json.load(open(m.group(1)))
                entry["first_replay"] = {k: str(v)[:500] for k, v in body.items() if k in ("kind", "stream", "desc", "verdict", "no_longer_checks")}
        res["checks"][c] = entry
finally:
    sh(["git", "-C", "/repo", "worktree", "remove", "--force", wt])
dst = f"/verif/seeded/harmless-{area}-{var}"
shutil.rmtree(dst, ignore_errors=True); os.makedirs(dst)
shutil.copy(os.path.join(src, "patch.diff"), dst)
if os.path.exists(os.path.join(src, "notes.md")): shutil.copy(os.path.join(src, "notes.md"), dst)
res["silent"] = [c for c, v in res["checks"].items() if v["exit"] == 0]
res["check_crashed"] = [c for c, v in res["checks"].items() if v["exit"] not in (0, 1) or (v["exit"] == 1 and not v["violation_lines"])]
res["no_failing_input_found"] = [c for c, v in res["checks"].items() if v["exit"] == 1 and v["violation_lines"] and all("no-failing-input-found" in l for l in v["violation_lines"])]
res["false_alarm_with_witness"] = [c for c, v in res["checks"].items() if v["exit"] == 1 and any("no-failing-input-found" not in l for l in v["violation_lines"])]
json.dump({"kind": "property-preserving change (false-alarm probe)", "what_i_ran": [f"VERIF_REPO=<changed worktree> ./check {c} --tier quick" for c in checks], "result": res},
          open(os.path.join(dst, "meta.json"), "w"), indent=1)
print(json.dumps({k: res[k] for k in ("silent", "no_failing_input_found", "false_alarm_with_witness")}))
