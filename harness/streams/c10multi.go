package streams

import (
	"fmt"
	"strings"

	"github.com/paulsonkoly/chess-3/board"
	. "github.com/paulsonkoly/chess-3/chess"
	"github.com/paulsonkoly/chess-3/move"

	"verifharness/hx"
	"verifharness/posgen"
)

// Two streams about histories that are NOT alone in the process (C10; the hash/history clauses of
// the judge also serve C04 and C03). Formats: coq/Model/Rep3Multi.v, oracle: coq/Spec/RepMultiJudge.v.
//
//	c10two    several games alive at once and played interleaved: boards from board.StartPos()
//	          (mode 0), from FromFEN (mode 1, control) or the boards of several uci.Drivers (mode 2);
//	          every board is looked at after EVERY ply of EVERY game; at the end all snapshots, then
//	          everything undone, then ResetHash on a used board followed by a new start board.
//	c10reuse  ONE uci.Driver receives `position startpos moves A`, then `... moves B` where B is not a
//	          continuation of A (same length or longer with the same move at A's last index, transposed
//	          orders, unrelated, shorter, continuation), optionally ucinewgame / position fen in between.
func init() {
	hx.Register(&hx.Stream{Name: "c10two", Gen: genC10Two, Run: runC10Two, Shrink: shrinkC10Two, Describe: describeC10Two})
	hx.Register(&hx.Stream{Name: "c10reuse", Gen: genC10Reuse, Run: runC10Reuse, Shrink: shrinkC10Reuse, Describe: describeC10Reuse})
}

func c10Obs3(out *hx.Nums, b *board.Board) {
	out.Int(int(b.Threefold())).B(b.Hash() == b.VerifCalcHash()).Int(len(b.VerifHashes()))
}

func c10ParseLists(a hx.Args, i, g int) ([][]move.Move, int, bool) {
	games := make([][]move.Move, 0, g)
	for k := 0; k < g; k++ {
		n := a.Int(i)
		i++
		if n < 0 || i+n > a.Len() {
			return nil, i, false
		}
		ms := make([]move.Move, n)
		for j := 0; j < n; j++ {
			ms[j] = hx.U2M(a.U64(i + j))
		}
		i += n
		games = append(games, ms)
	}
	return games, i, true
}

func c10Strs(ms []move.Move) []string {
	s := make([]string, len(ms))
	for i, m := range ms {
		s[i] = m.String()
	}
	return s
}

func runC10Two(a hx.Args) string {
	b0, i := a.Board(0)
	mode, g := a.Int(i), a.Int(i+1)
	if g < 1 || g > 8 {
		return "badinput"
	}
	games, i, ok := c10ParseLists(a, i+2, g)
	if !ok {
		return "badinput"
	}
	T := a.Int(i)
	i++
	if T < 0 || i+T > a.Len() {
		return "badinput"
	}
	sched := make([]int, T)
	cnt := make([]int, g)
	for t := 0; t < T; t++ {
		sched[t] = a.Int(i + t)
		if sched[t] < 0 || sched[t] >= g {
			return "badinput"
		}
		cnt[sched[t]]++
	}
	for k := range games {
		if cnt[k] > len(games[k]) {
			return "badinput"
		}
	}
	rootFEN := b0.FEN()
	newBoard := func() *board.Board {
		if mode == 0 {
			return board.StartPos()
		}
		return Must(board.FromFEN(rootFEN))
	}
	out := &hx.Nums{}
	boards := make([]*board.Board, g)
	played := make([]int, g)

	if mode == 2 {
		sess := make([]*c10Sess, g)
		strs := make([][]string, g)
		for k := range sess {
			sess[k] = newC10Sess()
			defer sess[k].close()
			strs[k] = c10Strs(games[k])
			sess[k].cmd(c10Position(rootFEN, nil))
		}
		look := func() {
			for k := range sess {
				c10Obs3(out, sess[k].d.VerifBoard())
			}
		}
		look()
		for _, k := range sched {
			played[k]++
			sess[k].cmd(c10Position(rootFEN, strs[k][:played[k]]))
			look()
		}
		for k := range sess {
			out.BoardOut(sess[k].d.VerifBoard())
		}
		return out.String()
	}

	toks := make([][]board.Reverse, g)
	for k := range boards {
		boards[k] = newBoard()
	}
	look := func() {
		for _, b := range boards {
			c10Obs3(out, b)
		}
	}
	look()
	for _, k := range sched {
		toks[k] = append(toks[k], boards[k].MakeMove(games[k][played[k]]))
		played[k]++
		look()
	}
	for _, b := range boards {
		out.BoardOut(b)
	}
	// take everything back, in reverse order
	for t := T - 1; t >= 0; t-- {
		k := sched[t]
		played[k]--
		boards[k].UndoMove(games[k][played[k]], toks[k][played[k]])
	}
	for _, b := range boards {
		out.BoardOut(b)
	}
	// ResetHash on a board that has moved on, then a new start board
	if len(games[0]) > 0 {
		bb := boards[0]
		bb.MakeMove(games[0][0])
		bb.ResetHash()
		out.BoardOut(bb).B(bb.Hash() == bb.VerifCalcHash())
		fresh := newBoard()
		out.BoardOut(fresh).Int(int(fresh.Threefold()))
	}
	return out.String()
}

func runC10Reuse(a hx.Args) string {
	b0, i := a.Board(0)
	K := a.Int(i)
	i++
	rootFEN := b0.FEN()
	s := newC10Sess()
	defer s.close()
	out := &hx.Nums{}
	for c := 0; c < K; c++ {
		kind, n := a.Int(i), a.Int(i+1)
		i += 2
		if n < 0 || i+n > a.Len() {
			return "badinput"
		}
		end := i + n
		fen := rootFEN
		if kind >= 3 {
			// the payload starts with the board of the command's own root
			bx, j := a.Board(i)
			if j > end {
				return "badinput"
			}
			fen, i = bx.FEN(), j
		}
		ms := make([]move.Move, end-i)
		for j := range ms {
			ms[j] = hx.U2M(a.U64(i + j))
		}
		i = end
		strs := c10Strs(ms)
		fenCmd := func() string {
			line := "position fen " + fen
			if len(strs) > 0 {
				line += " moves " + strings.Join(strs, " ")
			}
			return line
		}
		switch kind {
		case 1:
			s.cmd("ucinewgame")
			s.cmd(c10Position(rootFEN, strs))
		case 2, 3:
			s.cmd(fenCmd())
		case 4:
			s.cmd("ucinewgame")
			s.cmd(fenCmd())
		default:
			s.cmd(c10Position(rootFEN, strs))
		}
		b := s.d.VerifBoard()
		out.BoardOutNoHist(b)
		c10Obs3(out, b)
	}
	return out.String()
}

// ---------------------------------------------------------------------------------------------
// generators

// c10Line plays a game rich in repetitions: random moves with undo / quiet bias and cycles.
func c10Line(rng *hx.Rng, root string, target int) *c10Hist {
	h := newC10Hist(root, "")
	if h == nil {
		return nil
	}
	undo, quiet := 20+rng.Intn(30), 20+rng.Intn(40)
	for len(h.ms) < target {
		if rng.Chance(0.25) {
			if seq := c10FindCycle(rng, h.b, []int{4, 4, 6, 8}[rng.Intn(4)]); seq != nil {
				for r := 1 + rng.Intn(2); r > 0; r-- {
					for _, m := range seq {
						if len(h.ms) < target {
							h.play(m)
						}
					}
				}
				continue
			}
		}
		if !h.randomMove(rng, undo, quiet) {
			break
		}
	}
	return h
}

func c10MaxCount(root string, ms []move.Move) int {
	b, err := board.FromFEN(root)
	if err != nil {
		return 0
	}
	seen := map[string]int{c10Key(b): 1}
	mx := 1
	for _, m := range ms {
		b.MakeMove(m)
		k := c10Key(b)
		seen[k]++
		if seen[k] > mx {
			mx = seen[k]
		}
	}
	return mx
}

func c10SameMoves(a, b []move.Move) bool {
	if len(a) != len(b) {
		return false
	}
	for i := range a {
		if a[i] != b[i] {
			return false
		}
	}
	return true
}

func c10ScriptLine(root, moves string) []move.Move {
	h := newC10Hist(root, "")
	if h == nil {
		return nil
	}
	h.script(moves, 1)
	return h.ms
}

func genC10Two(rng *hx.Rng, n int, tier string, emit func(hx.Input)) {
	cnt := 0
	emitCase := func(root string, mode int, games [][]move.Move, sched []int, schedKind string) {
		if cnt >= n {
			return
		}
		in := (&hx.Nums{}).BoardIn(c10Root(root)).Int(mode, len(games))
		var sb strings.Builder
		fmt.Fprintf(&sb, "two-games mode=%d (%s) fen %s schedule=%s", mode,
			[]string{"board.StartPos()", "FromFEN", "uci.Drivers"}[mode], root, schedKind)
		mx, differ := 1, false
		for k, ms := range games {
			in.Int(len(ms))
			for _, m := range ms {
				in.U(hx.M2U(m))
			}
			sb.WriteString(fmt.Sprintf(" | game %d:", k))
			for _, m := range ms {
				sb.WriteString(" " + m.String())
			}
			mx = max(mx, c10MaxCount(root, ms))
			if k > 0 && !c10SameMoves(ms, games[0]) {
				differ = true
			}
		}
		in.Int(len(sched)).Int(sched...)
		sb.WriteString(" | order:")
		for _, s := range sched {
			sb.WriteString(fmt.Sprintf(" %d", s))
		}
		tags := []string{fmt.Sprintf("mode=%d", mode), fmt.Sprintf("games=%d", len(games)), "schedule=" + schedKind,
			fmt.Sprintf("max-count=%d", min(mx, 3))}
		if len(sched) > 128 {
			tags = append(tags, "history>128")
		}
		emit(hx.Input{In: in.String(), Desc: sb.String(), Tags: tags, NonTrivial: differ && mx >= 2})
		cnt++
	}
	mkSched := func(lens []int, kind string) []int {
		var s []int
		left := append([]int(nil), lens...)
		total := 0
		for _, l := range lens {
			total += l
		}
		switch kind {
		case "sequential":
			for k, l := range lens {
				for j := 0; j < l; j++ {
					s = append(s, k)
				}
			}
		case "round-robin":
			for len(s) < total {
				for k := range left {
					if left[k] > 0 {
						s = append(s, k)
						left[k]--
					}
				}
			}
		default: // bursts
			for len(s) < total {
				k := rng.Intn(len(left))
				for j := 1 + rng.Intn(5); j > 0 && left[k] > 0; j-- {
					s = append(s, k)
					left[k]--
				}
			}
		}
		return s
	}
	kinds := []string{"round-robin", "sequential", "bursts"}
	// directed pairs first, in every mode and schedule
	a := c10ScriptLine(StartPosFEN, "g1f3 g8f6 f3g1 f6g8 g1f3 g8f6 f3g1 f6g8")
	b := c10ScriptLine(StartPosFEN, "b1c3 b8c6 c3b1 c6b8 e2e4 e7e5 g1f3 g8f6 f3g1 f6g8")
	c := c10ScriptLine(StartPosFEN, "e2e4 e7e5 f1c4 f8c5 c4f1 c5f8 f1c4 f8c5 c4f1 c5f8")
	for mode := 0; mode < 3; mode++ {
		for _, k := range kinds {
			emitCase(StartPosFEN, mode, [][]move.Move{a, b}, mkSched([]int{len(a), len(b)}, k), k)
		}
		emitCase(StartPosFEN, mode, [][]move.Move{b, a, c}, mkSched([]int{len(b), len(a), len(c)}, "bursts"), "bursts")
	}
	roots := posgen.Roots()
	for cnt < n {
		mode := 0
		switch x := rng.Intn(100); {
		case x >= 55 && x < 75:
			mode = 1
		case x >= 75:
			mode = 2
		}
		root := StartPosFEN
		if mode == 1 && rng.Chance(0.4) {
			r := roots[rng.Intn(len(roots))]
			if f := strings.Fields(r); len(f) >= 4 && f[3] == "-" {
				root = r
			}
		}
		g := 2
		if rng.Chance(0.3) {
			g = 3
		}
		var games [][]move.Move
		var lens []int
		for k := 0; k < g; k++ {
			target := 4 + rng.Intn(40)
			if mode == 2 {
				target = 2 + rng.Intn(24)
			} else if rng.Chance(0.08) {
				target = 126 + rng.Intn(20) // past the initial capacity of the history
			}
			var h *c10Hist
			for try := 0; try < 5; try++ {
				h = c10Line(rng, root, target)
				if h != nil && (k == 0 || !c10SameMoves(h.ms, games[0])) {
					break
				}
			}
			if h == nil {
				break
			}
			games = append(games, h.ms)
			lens = append(lens, len(h.ms))
		}
		if len(games) != g {
			continue
		}
		k := kinds[rng.Intn(len(kinds))]
		emitCase(root, mode, games, mkSched(lens, k), k)
	}
}

// c10Variant builds a line that is NOT a continuation of a, is at least as long, and has the same
// move (as text) at index len(a)-1: two moves of one side exchanged, or one move replaced, with the
// rest of a replayed as far as it stays legal; then a tail. nil if none was found.
func c10Variant(rng *hx.Rng, a []move.Move, tail int) ([]move.Move, string) {
	L := len(a)
	if L < 2 {
		return nil, ""
	}
	strs := c10Strs(a)
	for try := 0; try < 40; try++ {
		cand := append([]string(nil), strs...)
		how := "replaced"
		i := rng.Intn(L - 1)
		if rng.Bool() && i+2 < L-1 {
			j := i + 2*(1+rng.Intn((L-2-i)/2))
			if j < L-1 {
				cand[i], cand[j] = cand[j], cand[i]
				how = "transposed"
			}
		}
		h := newC10Hist(StartPosFEN, "")
		okay := true
		for p := 0; p < L; p++ {
			if how == "replaced" && p == i {
				legal := posgen.Legal(h.b)
				m := legal[rng.Intn(len(legal))]
				if m.String() == strs[p] || !h.play(m) {
					okay = false
				}
			} else if !h.playStr(cand[p]) {
				okay = false
			}
			if !okay {
				break
			}
		}
		if !okay || c10SameMoves(h.ms, a) {
			continue
		}
		for t := 0; t < tail && h.randomMove(rng, 30, 40); t++ {
		}
		return h.ms, how
	}
	return nil, ""
}

// c10FenRoots: roots for `position fen X`: valid, accepted by the UCI gate, no en-passant square
// (a dead en-passant square is the recorded finding fen-ep-flag and is exercised by stream c10).
var c10FenRootsCache []string

func c10FenRoots() []string {
	if c10FenRootsCache != nil {
		return c10FenRootsCache
	}
	for _, r := range posgen.Roots() {
		f := strings.Fields(r)
		if len(f) < 4 || f[3] != "-" || r == StartPosFEN {
			continue
		}
		if newC10Hist(r, "") == nil {
			continue
		}
		c10FenRootsCache = append(c10FenRootsCache, r)
	}
	// the start placement with other rights / clocks: every start-position line is legal here too
	c10FenRootsCache = append(c10FenRootsCache,
		"rnbqkbnr/pppppppp/8/8/8/8/PPPPPPPP/RNBQKBNR w - - 7 12",
		"rnbqkbnr/pppppppp/8/8/8/8/PPPPPPPP/RNBQKBNR w Kq - 0 30")
	return c10FenRootsCache
}

// c10LegalFrom: is the line (as UCI text) legal from root?
func c10LegalFrom(root string, strs []string) []move.Move {
	h := newC10Hist(root, "")
	if h == nil {
		return nil
	}
	for _, s := range strs {
		if !h.playStr(s) {
			return nil
		}
	}
	return h.ms
}

func genC10Reuse(rng *hx.Rng, n int, tier string, emit func(hx.Input)) {
	cnt := 0
	type cmd struct {
		kind int
		ms   []move.Move
		how  string
		root string // kinds 3, 4
	}
	kindText := []string{" | position startpos moves", " | ucinewgame; position startpos moves", " | position fen <startpos> moves"}
	emitCase := func(cmds []cmd, pattern string) {
		if cnt >= n {
			return
		}
		in := (&hx.Nums{}).BoardIn(c10Root(StartPosFEN)).Int(len(cmds))
		var sb strings.Builder
		sb.WriteString("reused driver:")
		tags := []string{}
		if pattern != "" {
			tags = append(tags, "pattern="+pattern)
		}
		nontrivial := pattern != ""
		for i, c := range cmds {
			if c.kind >= 3 {
				rb := c10Root(c.root)
				in.Int(c.kind, len(strings.Fields((&hx.Nums{}).BoardIn(rb).String()))+len(c.ms))
				in.BoardIn(rb)
				if c.kind == 4 {
					sb.WriteString(" | ucinewgame; position fen " + c.root + " moves")
				} else {
					sb.WriteString(" | position fen " + c.root + " moves")
				}
			} else {
				in.Int(c.kind, len(c.ms))
				sb.WriteString(kindText[c.kind])
			}
			for _, m := range c.ms {
				in.U(hx.M2U(m))
				sb.WriteString(" " + m.String())
			}
			if i > 0 && c.how != "" {
				tags = append(tags, "then-"+c.how)
				if c.kind == 0 && cmds[i-1].kind != 2 && (c.how == "transposed" || c.how == "replaced") {
					nontrivial = true
				}
			}
			if c.kind != 0 {
				tags = append(tags, []string{"", "ucinewgame", "position-fen-startpos", "position-fen-other", "ucinewgame+position-fen-other"}[c.kind])
			}
		}
		emit(hx.Input{In: in.String(), Desc: sb.String(), Tags: tags, NonTrivial: nontrivial})
		cnt++
	}
	fenRoots := c10FenRoots()
	extend := func(root string, line []move.Move, tail int) []move.Move {
		h := newC10Hist(root, "")
		for _, m := range line {
			h.play(m)
		}
		for t := 0; t < tail && h.randomMove(rng, 30, 40); t++ {
		}
		return h.ms
	}
	fenCmd := func(kind int, plies int) cmd {
		x := fenRoots[rng.Intn(len(fenRoots))]
		var ms []move.Move
		if plies > 0 {
			if h := c10Line(rng, x, plies); h != nil {
				ms = h.ms
			}
		}
		return cmd{kind: kind, ms: ms, how: "fen", root: x}
	}
	// the deliberate patterns around a FEN load between start-position lists
	patterns := func() {
		ha := c10Line(rng, StartPosFEN, 2+rng.Intn(16))
		if ha == nil || len(ha.ms) < 2 {
			return
		}
		a := ha.ms
		switch rng.Intn(7) {
		case 5, 6: // A ; B with a token the driver refuses in the middle ; A+tail   (seeded change C02-E: a driver that
			// remembers the last command must not believe a command it applied only in part)
			hb := c10Line(rng, StartPosFEN, 2+rng.Intn(12))
			if hb == nil || len(hb.ms) < 2 {
				return
			}
			k := rng.Intn(len(hb.ms))
			hp := newC10Hist(StartPosFEN, "")
			for _, m := range hb.ms[:k] {
				hp.play(m)
			}
			var bad move.Move
			for try := 0; try < 200 && bad == 0; try++ {
				m := move.From(Square(rng.Intn(64))) | move.To(Square(rng.Intn(64)))
				if m.From() != m.To() && !hp.b.IsPseudoLegal(m) {
					bad = m
				}
			}
			if bad == 0 {
				return
			}
			bb := append(append(append([]move.Move{}, hb.ms[:k]...), bad), hb.ms[k:]...)
			emitCase([]cmd{{0, a, "", ""}, {0, bb, "refused-token-inside", ""}, {0, extend(StartPosFEN, a, 1+rng.Intn(6)), "continuation-of-first", ""}}, "A;B-refused;A+tail")
		case 0: // A ; fen X ; A+tail
			emitCase([]cmd{{0, a, "", ""}, fenCmd(3, 0), {0, extend(StartPosFEN, a, 1+rng.Intn(6)), "continuation-of-first", ""}}, "A;fenX;A+tail")
		case 1: // A ; fen X moves .. ; A
			emitCase([]cmd{{0, a, "", ""}, fenCmd(3, 1+rng.Intn(12)), {0, a, "identical-to-first", ""}}, "A;fenX-moves;A")
		case 2: // A ; ucinewgame ; fen X ; A+tail
			emitCase([]cmd{{0, a, "", ""}, fenCmd(4, rng.Intn(6)), {0, extend(StartPosFEN, a, 1+rng.Intn(6)), "continuation-of-first", ""}}, "A;ucinewgame;fenX;A+tail")
		case 3: // fen X moves B ; startpos moves B+tail  (B legal from both roots)
			for try := 0; try < 20; try++ {
				x := fenRoots[rng.Intn(len(fenRoots))]
				if rng.Chance(0.6) {
					x = fenRoots[len(fenRoots)-1-rng.Intn(2)]
				}
				hb := c10Line(rng, x, 1+rng.Intn(12))
				if hb == nil || len(hb.ms) == 0 {
					continue
				}
				if b := c10LegalFrom(StartPosFEN, c10Strs(hb.ms)); b != nil {
					emitCase([]cmd{{3, hb.ms, "", x}, {0, extend(StartPosFEN, b, 1+rng.Intn(6)), "same-text-other-root", ""}}, "fenX-moves-B;B+tail")
					return
				}
			}
		default: // A ; fen X ; A+tail ; fen Y moves .. ; A+tail+tail
			a2 := extend(StartPosFEN, a, 1+rng.Intn(4))
			a3 := extend(StartPosFEN, a2, 1+rng.Intn(4))
			emitCase([]cmd{{0, a, "", ""}, fenCmd(3, rng.Intn(5)), {0, a2, "continuation-of-first", ""}, fenCmd(3, rng.Intn(5)), {0, a3, "continuation-of-first", ""}}, "A;fenX;A+t;fenY;A+t+t")
		}
	}
	// the textbook cases first
	a0 := c10ScriptLine(StartPosFEN, "g1f3 g8f6 f3g1 f6g8")
	b0 := c10ScriptLine(StartPosFEN, "b1c3 g8f6 c3b1 f6g8 g1f3")
	emitCase([]cmd{{0, a0, "", ""}, {0, b0, "transposed", ""}}, "")
	emitCase([]cmd{{0, a0, "", ""}, {1, b0, "transposed", ""}}, "")
	emitCase([]cmd{{0, b0, "", ""}, {0, c10ScriptLine(StartPosFEN, "g1f3 g8f6 f3g1 f6g8 g1f3 b8c6"), "replaced", ""}}, "")
	e0 := c10ScriptLine(StartPosFEN, "e2e4 e7e5")
	emitCase([]cmd{{0, e0, "", ""}, {3, nil, "fen", "r3k2r/p1ppqpb1/bn2pnp1/3PN3/1p2P3/2N2Q1p/PPPBBPPP/R3K2R w KQkq - 0 1"},
		{0, c10ScriptLine(StartPosFEN, "e2e4 e7e5 g1f3"), "continuation-of-first", ""}}, "A;fenX;A+tail")
	emitCase([]cmd{{0, e0, "", ""}, {3, nil, "fen", "4k3/8/8/8/8/8/8/4K2R w K - 0 1"},
		{0, c10ScriptLine(StartPosFEN, "e2e4 e7e5 g1f3 b8c6"), "continuation-of-first", ""}}, "A;fenX;A+tail")
	for cnt < n {
		if rng.Chance(0.45) {
			patterns()
			continue
		}
		L := 2 + rng.Intn(30)
		ha := c10Line(rng, StartPosFEN, L)
		if ha == nil || len(ha.ms) < 2 {
			continue
		}
		cmds := []cmd{{0, ha.ms, "", ""}}
		prev := ha.ms
		for k := 1 + rng.Intn(3); k > 0; k-- {
			var next []move.Move
			how := ""
			switch x := rng.Intn(100); {
			case x < 50:
				next, how = c10Variant(rng, prev, rng.Intn(10))
			case x < 60:
				if h := c10Line(rng, StartPosFEN, 1+rng.Intn(40)); h != nil {
					next, how = h.ms, "unrelated"
				}
			case x < 72:
				// a continuation: the honest use of the command
				next, how = extend(StartPosFEN, prev, 1+rng.Intn(6)), "continuation"
			case x < 84:
				cmds = append(cmds, fenCmd(3+rng.Intn(2), rng.Intn(10)))
				continue
			default:
				next, how = prev[:rng.Intn(len(prev))], "shorter"
			}
			if next == nil {
				continue
			}
			kind := 0
			if rng.Chance(0.15) {
				kind = 1 + rng.Intn(2)
			}
			cmds = append(cmds, cmd{kind, next, how, ""})
			if len(next) >= 2 {
				prev = next
			}
		}
		if len(cmds) >= 2 {
			emitCase(cmds, "")
		}
	}
}
