(* Bounded loops with early exit. [loop_pos] runs at most [fuel] steps, where the fuel is a binary
   number: an exit after k steps costs O(k + log fuel), so a model can carry the honest bound of a
   Go [for] loop (2^64, say) without unary numbers. [loop_nat] is the same loop on unary fuel, used
   in proofs only. *)
From Coq Require Import PArith Arith Lia.

Section Loop.
Context {A B : Type}.
Variable step : A -> A + B.          (* inl: continue with the new state, inr: leave with a result *)

Fixpoint loop_nat (fuel : nat) (a : A) : A + B :=
  match fuel with
  | O => inl a
  | S f => match step a with inl a' => loop_nat f a' | inr b => inr b end
  end.

Fixpoint loop_pos (fuel : positive) (a : A) : A + B :=
  match fuel with
  | xH => step a
  | xO p => match loop_pos p a with inl a' => loop_pos p a' | inr b => inr b end
  | xI p => match step a with
            | inl a' => match loop_pos p a' with inl a'' => loop_pos p a'' | inr b => inr b end
            | inr b => inr b
            end
  end.

Lemma loop_nat_add n m a :
  loop_nat (n + m) a = match loop_nat n a with inl a' => loop_nat m a' | inr b => inr b end.
Proof.
  revert a; induction n as [|n IH]; intros a; cbn [loop_nat Nat.add]; [reflexivity|].
  destruct (step a) as [a'|b]; [apply IH|reflexivity].
Qed.

Lemma loop_pos_nat p : forall a, loop_pos p a = loop_nat (Pos.to_nat p) a.
Proof.
  induction p as [p IH|p IH|]; intros a; cbn [loop_pos].
  - rewrite Pos2Nat.inj_xI. cbn [loop_nat]. destruct (step a) as [a'|b]; [|reflexivity].
    replace (2 * Pos.to_nat p) with (Pos.to_nat p + Pos.to_nat p) by lia.
    rewrite loop_nat_add, <- IH. destruct (loop_pos p a'); [apply IH|reflexivity].
  - rewrite Pos2Nat.inj_xO. replace (2 * Pos.to_nat p) with (Pos.to_nat p + Pos.to_nat p) by lia.
    rewrite loop_nat_add, <- IH. destruct (loop_pos p a); [apply IH|reflexivity].
  - change (Pos.to_nat 1) with 1%nat. cbn [loop_nat]. destruct (step a); reflexivity.
Qed.
End Loop.
