(* MakeMove keeps the representation invariant (for legal moves of valid positions): what the chain
   theorems of C02 need.  [INV] is the placement part of Rep (three encodings of one placement). *)
From Coq Require Import NArith ZArith List Bool Lia.
From Chess3 Require Import Base.Bits Base.Word Model.Types Model.Att Model.BoardDef Model.Board.
From Chess3 Require Import Spec.Geometry Spec.Chess Spec.Rep.
From Chess3 Require Import Proofs.SuccLists Proofs.SuccCore Proofs.SuccCells Proofs.SuccFacts Proofs.SuccPlace
                           Proofs.SuccSmall Proofs.SuccAttack Proofs.SuccEpBase Proofs.SuccEp Proofs.SuccMain.
Import ListNotations.
Open Scope N_scope.
Ltac Zify.zify_post_hook ::= Z.to_euclidean_division_equations.

Definition bbit (b : board) (s : N) : bool := N.testbit (colors b Black) s.

Lemma color_eqb_false a c : color_eqb a c = false -> c = flip a.
Proof. destruct a, c; cbn; congruence. Qed.

Definition sq_okP (b : board) (s : N) : Prop :=
  piece_at b s <= 6 /\
  (forall q, 1 <= q <= 6 -> N.testbit (pieces b q) s = (piece_at b s =? q)) /\
  (wbit b s || bbit b s = negb (piece_at b s =? 0)) /\
  (wbit b s && bbit b s = false).

Lemma sq_ok_iff b s : sq_ok b s = true <-> sq_okP b s.
Proof.
  unfold sq_ok, sq_okP, wbit, bbit. split.
  - intros H. repeat (apply andb_true_iff in H; destruct H as [H ?]).
    apply N.leb_le in H. apply eqb_prop in H1. apply negb_true_iff in H0.
    rewrite forallb_forall in H2. repeat split; try assumption.
    intros q Hq. apply eqb_prop. apply H2.
    assert (q = 1 \/ q = 2 \/ q = 3 \/ q = 4 \/ q = 5 \/ q = 6) as D by lia. cbn [In]. intuition.
  - intros [H1 [H2 [H3 H4]]].
    apply andb_true_iff; split; [apply andb_true_iff; split; [apply andb_true_iff; split|]|].
    + apply N.leb_le. exact H1.
    + apply forallb_forall. intros q Hq. rewrite H2; [apply eqb_reflx|].
      cbn [In] in Hq. intuition; subst; lia.
    + rewrite H3. apply eqb_reflx.
    + rewrite H4. reflexivity.
Qed.

Record INV (b : board) : Prop := mkINV {
  inv_sq : length (sq2p b) = 64%nat;
  inv_pcs : length (pcs b) = 7%nat;
  inv_cols : length (cols b) = 2%nat;
  inv_p0 : pieces b 0 = 0;
  inv_pw : forall q, pieces b q < two64;
  inv_cw : forall c, colors b c < two64;
  inv_ok : forall s, s < 64 -> sq_okP b s
}.

Lemma Rep_INV b : Rep b -> INV b.
Proof.
  intros HR. destruct (Rep_WF b HR) as [W1 W2]. destruct (Rep_words b HR) as [HP HC].
  pose proof HR as H. unfold Rep, rep_ok in H. repeat (apply andb_true_iff in H; destruct H as [H ?]).
  constructor; try assumption.
  - apply Nat.eqb_eq. assumption.
  - apply N.eqb_eq. assumption.
  - intros s Hs. apply sq_ok_iff. apply Rep_sq_ok; assumption.
Qed.

Lemma INV_WF b : INV b -> WF b.
Proof. intros [H1 _ H3 _ _ _ _]. split; assumption. Qed.

(* piece sets and colour sets after removePiece / addPiece *)
Lemma pieces_rm b c p sq q : length (pcs b) = 7%nat -> 1 <= p <= 6 ->
  pieces (rm b c p sq) q = if q =? p then bandn (pieces b p) (bit sq) else pieces b q.
Proof.
  intros HL Hp. unfold rm. change NoPiece with 0. rewrite (proj2 (N.eqb_neq p 0)) by lia.
  unfold pieces. cbn [pcs set_sq2p set_pcs set_cols]. apply nthN_updN. lia.
Qed.
Lemma pieces_ad b c p sq q : length (pcs b) = 7%nat -> 1 <= p <= 6 ->
  pieces (ad b c p sq) q = if q =? p then bor (pieces b p) (bit sq) else pieces b q.
Proof.
  intros HL Hp. unfold ad. change NoPiece with 0. rewrite (proj2 (N.eqb_neq p 0)) by lia.
  unfold pieces. cbn [pcs set_sq2p set_pcs set_cols]. apply nthN_updN. lia.
Qed.
Lemma colors_rm b c p sq c' : length (cols b) = 2%nat -> p <> 0 ->
  colors (rm b c p sq) c' = if color_eqb c' c then bandn (colors b c) (bit sq) else colors b c'.
Proof.
  intros HL Hp. unfold rm. change NoPiece with 0. rewrite (proj2 (N.eqb_neq p 0)) by exact Hp.
  unfold colors. cbn [cols set_sq2p set_pcs set_cols]. rewrite nthN_updN by (destruct c; cbn; lia).
  destruct c, c'; reflexivity.
Qed.
Lemma colors_ad b c p sq c' : length (cols b) = 2%nat -> p <> 0 ->
  colors (ad b c p sq) c' = if color_eqb c' c then bor (colors b c) (bit sq) else colors b c'.
Proof.
  intros HL Hp. unfold ad. change NoPiece with 0. rewrite (proj2 (N.eqb_neq p 0)) by exact Hp.
  unfold colors. cbn [cols set_sq2p set_pcs set_cols]. rewrite nthN_updN by (destruct c; cbn; lia).
  destruct c, c'; reflexivity.
Qed.

Lemma length_pcs_rm b c p sq : length (pcs (rm b c p sq)) = length (pcs b).
Proof. unfold rm. destruct (p =? NoPiece); [reflexivity|]. cbn [pcs set_sq2p set_pcs set_cols]. apply length_updN. Qed.
Lemma length_pcs_ad b c p sq : length (pcs (ad b c p sq)) = length (pcs b).
Proof. unfold ad. destruct (p =? NoPiece); [reflexivity|]. cbn [pcs set_sq2p set_pcs set_cols]. apply length_updN. Qed.

Lemma bandn_lt x y : x < two64 -> bandn x y < two64.
Proof.
  intros Hx. apply testbit_lt_two64. intros i Hi. rewrite bandn_testbit, (lt_two64_testbit x Hx i Hi). reflexivity.
Qed.
Lemma bor_lt x y : x < two64 -> y < two64 -> bor x y < two64.
Proof.
  intros Hx Hy. apply testbit_lt_two64. intros i Hi.
  rewrite bor_testbit, (lt_two64_testbit x Hx i Hi), (lt_two64_testbit y Hy i Hi). reflexivity.
Qed.
Lemma testbit_lt_two64' x k : (forall i, k <= i -> N.testbit x i = false) -> x < 2 ^ k.
Proof.
  intros H. destruct (N.eq_dec x 0) as [->|Hx]; [apply N.neq_0_lt_0; apply N.pow_nonzero; lia|].
  apply N.log2_lt_pow2; [lia|].
  destruct (N.lt_ge_cases (N.log2 x) k) as [L|L]; [exact L|].
  pose proof (N.bit_log2 x Hx) as B. rewrite H in B by exact L. discriminate.
Qed.
Lemma bxor_lt x y : x < two64 -> y < two64 -> bxor x y < two64.
Proof.
  intros Hx Hy. apply testbit_lt_two64. intros i Hi. unfold bxor.
  rewrite N.lxor_spec, (lt_two64_testbit x Hx i Hi), (lt_two64_testbit y Hy i Hi). reflexivity.
Qed.

(* removing the piece that stands on sq *)
Lemma rm_INV b c p sq : INV b -> sq < 64 -> 1 <= p <= 6 -> piece_at b sq = p -> N.testbit (colors b c) sq = true ->
  INV (rm b c p sq).
Proof.
  intros I Hsq Hp Hat Hcol. pose proof (INV_WF b I) as HW. destruct I as [I1 I2 I3 I4 I5 I6 I7].
  assert (Hp0 : p <> 0) by lia.
  constructor.
  - apply (WF_rm b c p sq HW).
  - rewrite length_pcs_rm. exact I2.
  - apply (WF_rm b c p sq HW).
  - rewrite pieces_rm by assumption. rewrite (proj2 (N.eqb_neq 0 p)) by lia. exact I4.
  - intros q. rewrite pieces_rm by assumption. destruct (q =? p); [apply bandn_lt|]; apply I5.
  - intros c'. rewrite colors_rm by assumption. destruct (color_eqb c' c); [apply bandn_lt|]; apply I6.
  - intros s Hs. destruct (I7 s Hs) as [K1 [K2 [K3 K4]]]. destruct (I7 sq Hsq) as [Q1 [Q2 [Q3 Q4]]].
    unfold sq_okP, wbit, bbit. rewrite (piece_at_rm b c p sq s HW Hsq), !colors_rm by assumption.
    rewrite (proj2 (N.eqb_neq p 0)) by exact Hp0.
    destruct (N.eqb_spec s sq) as [E|E].
    + subst s. split; [lia|]. split.
      * intros q Hq. rewrite pieces_rm by assumption. rewrite (proj2 (N.eqb_neq 0 q)) by lia.
        destruct (N.eqb_spec q p) as [E|E].
        -- rewrite bandn_testbit, bit_testbit, N.eqb_refl. apply andb_false_r.
        -- rewrite (Q2 q Hq), Hat. apply N.eqb_neq. congruence.
      * unfold wbit, bbit in Q3, Q4. rewrite Hat in Q3. rewrite (proj2 (N.eqb_neq p 0)) in Q3 by exact Hp0.
        cbn [negb] in Q3. change (0 =? 0) with true. cbn [negb].
        destruct c; cbn [color_eqb] in *; rewrite bandn_testbit, bit_testbit, N.eqb_refl, andb_false_r;
          rewrite Hcol in Q3, Q4; cbn in Q3, Q4.
        -- rewrite Q4. split; reflexivity.
        -- rewrite andb_true_r in Q4. rewrite Q4. split; reflexivity.
    + split; [exact K1|]. split.
      * intros q Hq. rewrite pieces_rm by assumption. destruct (q =? p) eqn:EQ.
        -- apply N.eqb_eq in EQ. subst q. rewrite bandn_testbit, bit_testbit.
           rewrite (proj2 (N.eqb_neq sq s)) by congruence. rewrite andb_true_r. apply K2. exact Hq.
        -- apply K2. exact Hq.
      * unfold wbit, bbit in K3, K4.
        destruct c; cbn [color_eqb]; rewrite bandn_testbit, bit_testbit, (proj2 (N.eqb_neq sq s)) by congruence;
          rewrite andb_true_r; split; assumption.
Qed.

(* adding a piece on an empty square *)
Lemma ad_INV b c p sq : INV b -> sq < 64 -> 1 <= p <= 6 -> piece_at b sq = 0 -> INV (ad b c p sq).
Proof.
  intros I Hsq Hp Hat. pose proof (INV_WF b I) as HW. destruct I as [I1 I2 I3 I4 I5 I6 I7].
  assert (Hp0 : p <> 0) by lia.
  constructor.
  - apply (WF_ad b c p sq HW).
  - rewrite length_pcs_ad. exact I2.
  - apply (WF_ad b c p sq HW).
  - rewrite pieces_ad by assumption. rewrite (proj2 (N.eqb_neq 0 p)) by lia. exact I4.
  - intros q. rewrite pieces_ad by assumption. destruct (q =? p); [apply bor_lt; [|apply bit_lt; exact Hsq]|]; apply I5.
  - intros c'. rewrite colors_ad by assumption.
    destruct (color_eqb c' c); [apply bor_lt; [|apply bit_lt; exact Hsq]|]; apply I6.
  - intros s Hs. destruct (I7 s Hs) as [K1 [K2 [K3 K4]]]. destruct (I7 sq Hsq) as [Q1 [Q2 [Q3 Q4]]].
    unfold sq_okP, wbit, bbit. rewrite (piece_at_ad b c p sq s HW Hsq), !colors_ad by assumption.
    rewrite (proj2 (N.eqb_neq p 0)) by exact Hp0.
    destruct (N.eqb_spec s sq) as [E|E].
    + subst s. split; [lia|]. split.
      * intros q Hq. rewrite pieces_ad by assumption. rewrite (N.eqb_sym p q).
        destruct (N.eqb_spec q p) as [E|E].
        -- rewrite bor_testbit, bit_testbit, N.eqb_refl. apply orb_true_r.
        -- rewrite (Q2 q Hq), Hat. apply N.eqb_neq. lia.
      * unfold wbit, bbit in Q3, Q4. rewrite Hat in Q3. change (0 =? 0) with true in Q3. cbn [negb] in Q3.
        apply orb_false_iff in Q3. destruct Q3 as [Q3a Q3b].
        rewrite (proj2 (N.eqb_neq p 0)) by exact Hp0. cbn [negb].
        destruct c; cbn [color_eqb]; rewrite bor_testbit, bit_testbit, N.eqb_refl, orb_true_r.
        -- rewrite Q3b. split; reflexivity.
        -- rewrite Q3a. split; reflexivity.
    + split; [exact K1|]. split.
      * intros q Hq. rewrite pieces_ad by assumption. destruct (q =? p) eqn:EQ.
        -- apply N.eqb_eq in EQ. subst q. rewrite bor_testbit, bit_testbit.
           rewrite (proj2 (N.eqb_neq sq s)) by congruence. rewrite orb_false_r. apply K2. exact Hq.
        -- apply K2. exact Hq.
      * unfold wbit, bbit in K3, K4.
        destruct c; cbn [color_eqb]; rewrite bor_testbit, bit_testbit, (proj2 (N.eqb_neq sq s)) by congruence;
          rewrite orb_false_r; split; assumption.
Qed.

(* ------------------------------------------------------------------------------------------ *)
(* MakeMove, step by step *)

Lemma rm_zero b c sq : rm b c 0 sq = b. Proof. reflexivity. Qed.

Lemma INV_fields b b' : sq2p b' = sq2p b -> pcs b' = pcs b -> cols b' = cols b -> INV b -> INV b'.
Proof.
  intros E1 E2 E3 [I1 I2 I3 I4 I5 I6 I7].
  assert (P : forall q, pieces b' q = pieces b q) by (intros; unfold pieces; rewrite E2; reflexivity).
  assert (C : forall c, colors b' c = colors b c) by (intros; unfold colors; rewrite E3; reflexivity).
  assert (A : forall s, piece_at b' s = piece_at b s) by (intros; unfold piece_at; rewrite E1; reflexivity).
  constructor.
  - congruence.
  - congruence.
  - congruence.
  - rewrite P. exact I4.
  - intros q. rewrite P. apply I5.
  - intros c. rewrite C. apply I6.
  - intros s Hs. destruct (I7 s Hs) as [K1 [K2 [K3 K4]]]. unfold sq_okP, wbit, bbit in *. rewrite !C, A.
    repeat split; try assumption. intros q Hq. rewrite P. apply K2. exact Hq.
Qed.

Lemma INV_cell b s c k : INV b -> s < 64 -> cell b s = Some (c, k) ->
  piece_at b s = k /\ 1 <= k <= 6 /\ N.testbit (colors b c) s = true.
Proof.
  intros I Hs Hc. destruct (cell_Some _ _ _ _ Hc) as [H1 [H2 H3]].
  destruct (inv_ok b I s Hs) as [K1 [K2 [K3 K4]]]. rewrite H1 in *.
  split; [reflexivity|]. split; [lia|].
  rewrite (proj2 (N.eqb_neq k 0)) in K3 by exact H2. cbn [negb] in K3.
  unfold wbit, bbit in *. destruct (N.testbit (colors b White) s) eqn:W; subst c; [exact W|].
  cbn [orb] in K3. exact K3.
Qed.

Section MakeRep.
Variable b : board.
Variable m : N.
Hypothesis HR : Rep b.
Hypothesis HV : valid_core (abs b) = true.
Hypothesis HL : legal_spec (abs b) m = true.

Let from := mv_from m.
Let to := mv_to m.
Let me := stm b.

(* the promotion piece of a legal move *)
Lemma promo_legal k : cell b from = Some (me, k) ->
  (if k =? Pawn then pawn_part (abs b) m else if k =? King then king_part (abs b) m else other_part (abs b) m k) = true ->
  mv_promo m = 0 \/ (2 <= mv_promo m <= 5).
Proof.
  intros Hc Hk. destruct (k =? Pawn).
  - unfold pawn_part in Hk. apply andb_true_iff in Hk. destruct Hk as [Hk _].
    destruct (rank_n (mv_to m) =? last_rank (turn (abs b))).
    + right. unfold is_promo_piece in Hk.
      repeat (apply orb_true_iff in Hk; destruct Hk as [Hk|Hk]); apply N.eqb_eq in Hk; rewrite Hk;
        unfold Knight, Bishop, Rook, Queen; lia.
    + left. apply N.eqb_eq. exact Hk.
  - left. destruct (k =? King).
    + unfold king_part in Hk. apply andb_true_iff in Hk. destruct Hk as [Hk _]. apply N.eqb_eq. exact Hk.
    + unfold other_part in Hk. apply andb_true_iff in Hk. destruct Hk as [Hk _]. apply N.eqb_eq. exact Hk.
Qed.

Lemma INV_b3 : INV (b3_of b m).
Proof.
  destruct (facts b m HL) as [k [Hc [Ho Hk]]]. fold from to me in Hc, Ho.
  pose proof (Rep_INV b HR) as I.
  assert (I0 : INV (b0_of b m)) by (apply (INV_fields b); try reflexivity; exact I).
  pose proof (mv_from_lt m) as Hfl. pose proof (mv_to_lt m) as Htl. fold from in Hfl. fold to in Htl.
  pose proof (from_neq_to b m k Hc Ho) as Hft. fold from to in Hft.
  destruct (INV_cell b from me k I Hfl Hc) as [Hp [Hk16 Hcf]].
  (* the capture *)
  assert (CAP : capture_sq b m < 64 /\ capture_sq b m <> from /\
                cell b to = (if capture_sq b m =? to then cell b to else None) /\
                (piece_at b (capture_sq b m) = 0 \/
                 cell b (capture_sq b m) = Some (flip me, piece_at b (capture_sq b m)))).
  { unfold capture_sq. destruct (is_en_passant b m) eqn:He.
    - destruct (ep_shape b m HV k Hc Ho Hk He) as [Ek [Hto0 [Hcap Hcsq]]]. fold from to me in Hto0, Hcap, Hcsq.
      destruct (pawn_capture_geom me from to Hfl Htl Hcap) as [G1 [G2 [G3 _]]].
      change (N.lor (N.land (mv_to m) 7) (N.land (mv_from m) 56)) with (ep_csq from to). repeat split; try assumption.
      + rewrite (proj2 (N.eqb_neq _ _) G2). unfold cell. rewrite Hto0. reflexivity.
      + right. destruct (cell_Some _ _ _ _ Hcsq) as [Q _]. rewrite Q. exact Hcsq.
    - fold to. rewrite N.eqb_refl. repeat split; try assumption; try congruence.
      rewrite (owned_abs b to me Htl) in Ho.
      destruct (cell b to) as [[c' k']|] eqn:Ct.
      + right. destruct (cell_Some _ _ _ _ Ct) as [Q _]. rewrite Q.
        rewrite (color_eqb_false _ _ Ho). reflexivity.
      + left. apply cell_None. exact Ct. }
  destruct CAP as [Hcl [Hcf' [Hcto CAP]]].
  set (csq := capture_sq b m) in *. set (cap := piece_at b csq) in *.
  unfold b3_of. fold from to me csq cap. rewrite Hp.
  assert (HW0 : WF (b0_of b m)) by (apply INV_WF; exact I0).
  (* step 1 *)
  assert (I1 : INV (rm (b0_of b m) (flip me) cap csq) /\
               cell (rm (b0_of b m) (flip me) cap csq) from = Some (me, k) /\
               piece_at (rm (b0_of b m) (flip me) cap csq) to = 0).
  { destruct CAP as [C0|C1].
    - rewrite C0. rewrite rm_zero. split; [exact I0|]. split; [exact Hc|].
      rewrite piece_at_b0. destruct (N.eqb_spec csq to) as [E|E].
      + rewrite <- E. exact C0.
      + apply cell_None. exact Hcto.
    - destruct (INV_cell b csq (flip me) cap I Hcl C1) as [_ [Hc16 Hcc]].
      split; [apply rm_INV; try assumption; reflexivity|].
      rewrite cell_rm, piece_at_rm by assumption. rewrite (proj2 (N.eqb_neq cap 0)) by lia.
      rewrite (proj2 (N.eqb_neq from csq)) by congruence. split; [exact Hc|].
      destruct (N.eqb_spec to csq) as [E|E]; [reflexivity|].
      rewrite piece_at_b0. rewrite (proj2 (N.eqb_neq csq to)) in Hcto by congruence.
      apply cell_None. exact Hcto. }
  destruct I1 as [I1 [C1f C1t]]. set (b1 := rm (b0_of b m) (flip me) cap csq) in *.
  (* step 2 *)
  destruct (INV_cell b1 from me k I1 Hfl C1f) as [Hp1 [_ Hc1]].
  assert (I2 : INV (rm b1 me k from)) by (apply rm_INV; assumption).
  assert (P2 : piece_at (rm b1 me k from) to = 0).
  { rewrite piece_at_rm by (try apply INV_WF; assumption). rewrite (proj2 (N.eqb_neq k 0)) by lia.
    rewrite (proj2 (N.eqb_neq to from)) by congruence. exact C1t. }
  (* step 3 *)
  apply ad_INV; try assumption.
  destruct (promo_legal k Hc Hk) as [Z|Z]; unfold put_piece in *; change NoPiece with 0.
  - rewrite Z. cbn [N.eqb negb]. fold from. rewrite Hp. exact Hk16.
  - rewrite (proj2 (N.eqb_neq (mv_promo m) 0)) by lia. cbn [negb]. lia.
Qed.

Lemma INV_core : INV (core b m).
Proof.
  destruct (facts b m HL) as [k [Hc [Ho Hk]]]. fold from to me in Hc, Ho.
  destruct (cell_Some _ _ _ _ Hc) as [Hp _].
  pose proof INV_b3 as I3.
  assert (I4 : INV (set_ep (b3_of b m) (new_ep b m))) by (apply (INV_fields (b3_of b m)); try reflexivity; exact I3).
  rewrite core_b3. cbv zeta. fold from to me. rewrite Hp.
  apply (INV_fields (if k =? King then match castle_rook from to with
                                        | Some (rf, rt) => ad (rm (set_ep (b3_of b m) (new_ep b m)) me Rook rf) me Rook rt
                                        | None => set_ep (b3_of b m) (new_ep b m) end
                     else set_ep (b3_of b m) (new_ep b m))); try reflexivity.
  destruct (N.eqb_spec k King) as [EK|EK]; [|exact I4].
  rewrite EK in *. change (King =? Pawn) with false in Hk. change (King =? King) with true in Hk. cbv iota in Hk.
  pose proof (castle_facts b m Hc Hk) as CF. fold from to in CF.
  destruct (castle_rook from to) as [[rf rt]|]; [|exact I4].
  destruct CF as [CF [Hf3 [Hrt0 [Hrt Hrf]]]].
  (* not en passant: a king moves *)
  assert (He : is_en_passant b m = false).
  { unfold is_en_passant. fold from. rewrite Hp. change (King =? Pawn) with false. apply andb_false_r. }
  (* the rook stands on rf, rt is empty, neither is from / to *)
  unfold king_part in Hk. fold from to in Hk. cbn [turn abs] in Hk. fold me in Hk.
  assert (RK : cell b rf = Some (me, Rook) /\ rf <> from /\ rf <> to /\ rt <> from /\ rt <> to /\ rf <> rt).
  { apply andb_true_iff in Hk. destruct Hk as [_ Hk].
    pose proof (mv_from_lt m) as Hfl. pose proof (mv_to_lt m) as Htl. fold from in Hfl. fold to in Htl.
    assert (NK : mem (king_attacks from) to = false).
    { destruct (mem (king_attacks from) to) eqn:E; [|reflexivity].
      destruct (king_step_geom from to Hfl Htl E) as [G1 [G2 G3]]. destruct CF as [[E1 _]|[E1 _]]; congruence. }
    rewrite NK in Hk. cbn [orb] in Hk.
    apply orb_true_iff in Hk. destruct Hk as [Hk|Hk]; repeat (apply andb_true_iff in Hk; destruct Hk as [Hk ?]);
      apply N.eqb_eq in Hk; apply N.eqb_eq in H0;
      destruct (castle_ok_parts _ _ H) as [_ [_ [HRk _]]]; cbn [turn abs] in HRk; fold me in HRk.
    - destruct CF as [[E1 [E2 E3]]|[E1 _]]; [|lia].
      assert (rook_home me false = rf) by (rewrite E2, Hk; destruct me; reflexivity).
      rewrite H1 in HRk. rewrite (holds_abs b rf me Rook Hrf) in HRk.
      destruct (cell b rf) as [[c' k']|]; [|discriminate].
      apply andb_true_iff in HRk. destruct HRk as [R1 R2]. apply color_eqb_eq in R1. apply N.eqb_eq in R2. subst c' k'.
      repeat split; try reflexivity; lia.
    - destruct CF as [[E1 _]|[E1 [E2 [E3 E4]]]]; [lia|].
      assert (rook_home me true = rf) by (rewrite E2, Hk; destruct me; reflexivity).
      rewrite H1 in HRk. rewrite (holds_abs b rf me Rook Hrf) in HRk.
      destruct (cell b rf) as [[c' k']|]; [|discriminate].
      apply andb_true_iff in HRk. destruct HRk as [R1 R2]. apply color_eqb_eq in R1. apply N.eqb_eq in R2. subst c' k'.
      repeat split; try reflexivity; lia. }
  destruct RK as [Crf [N1 [N2 [N3 [N4 N5]]]]].
  assert (C4rf : cell (set_ep (b3_of b m) (new_ep b m)) rf = Some (me, Rook)).
  { rewrite cell_set_ep, (cell_b3_plain b m HR King rf Hc Ho He Hrf). fold from to.
    rewrite (proj2 (N.eqb_neq rf to)) by exact N2. rewrite (proj2 (N.eqb_neq rf from)) by exact N1. exact Crf. }
  assert (C4rt : cell (set_ep (b3_of b m) (new_ep b m)) rt = None).
  { rewrite cell_set_ep, (cell_b3_plain b m HR King rt Hc Ho He Hrt). fold from to.
    rewrite (proj2 (N.eqb_neq rt to)) by exact N4. rewrite (proj2 (N.eqb_neq rt from)) by exact N3.
    unfold cell. rewrite Hrt0. reflexivity. }
  destruct (INV_cell _ rf me Rook I4 Hrf C4rf) as [Q1 [Q2 Q3]].
  apply ad_INV; [apply rm_INV; assumption|exact Hrt|unfold Rook; lia|].
  rewrite piece_at_rm by (try apply INV_WF; assumption). change (Rook =? 0) with false. cbv iota.
  rewrite (proj2 (N.eqb_neq rt rf)) by congruence. apply cell_None. exact C4rt.
Qed.

End MakeRep.

(* ------------------------------------------------------------------------------------------ *)
(* back to the boolean Rep, with the hash history *)

Definition zob_ok (z : zobrist) : Prop :=
  (forall c p s, z_piece z c p s < two64) /\ z_stm z < two64 /\ (forall i, z_castle z i < two64) /\
  (forall f, z_ep z f < two64).

Lemma forallb_nth_lt (l : list N) : (forall i, nthN l i 0 < two64) -> forallb (fun x => x <? two64) l = true.
Proof.
  intros H. apply forallb_forall. intros x Hx. apply N.ltb_lt.
  destruct (In_nth l x 0 Hx) as [n [Hn E]]. specialize (H (N.of_nat n)). unfold nthN in H.
  rewrite Nat2N.id, E in H. exact H.
Qed.

Lemma INV_rep_ok b : INV b -> ep b < 64 -> castles b < 16 -> hashes b <> [] ->
  forallb (fun x => x <? two64) (hashes b) = true -> (-32768 <= fifty b < 32768)%Z -> rep_ok b = true.
Proof.
  intros [I1 I2 I3 I4 I5 I6 I7] He Hc Hh Hhb Hf. unfold rep_ok.
  assert (A1 : (length (sq2p b) =? 64)%nat = true) by (apply Nat.eqb_eq; exact I1).
  assert (A2 : (length (pcs b) =? 7)%nat = true) by (apply Nat.eqb_eq; exact I2).
  assert (A3 : (length (cols b) =? 2)%nat = true) by (apply Nat.eqb_eq; exact I3).
  assert (A4 : (pieces b 0 =? 0) = true) by (apply N.eqb_eq; exact I4).
  assert (A5 : forallb (fun x => x <? two64) (pcs b) = true) by (apply forallb_nth_lt; exact I5).
  assert (A6 : forallb (fun x => x <? two64) (cols b) = true).
  { apply forallb_nth_lt. intros i. unfold nthN.
    destruct (N.to_nat i) as [|[|n]] eqn:E.
    + apply (I6 White).
    + apply (I6 Black).
    + rewrite nth_overflow by lia. reflexivity. }
  assert (A7 : forallb (sq_ok b) squares64 = true).
  { apply forallb_squares64. intros s Hs. apply sq_ok_iff. apply I7. exact Hs. }
  assert (A8 : (ep b <? 64) = true) by (apply N.ltb_lt; exact He).
  assert (A9 : (castles b <? 16) = true) by (apply N.ltb_lt; exact Hc).
  assert (A10 : negb (match hashes b with [] => true | _ => false end) = true)
    by (destruct (hashes b); [contradiction|reflexivity]).
  assert (A11 : (-32768 <=? fifty b)%Z = true) by (apply Z.leb_le; lia).
  assert (A12 : (fifty b <? 32768)%Z = true) by (apply Z.ltb_lt; lia).
  rewrite A1, A2, A3, A4, A5, A6, A7, A8, A9, A10, Hhb, A11, A12. reflexivity.
Qed.

Lemma Rep_hashes b : Rep b -> hashes b <> [] /\ forallb (fun x => x <? two64) (hashes b) = true /\ castles b < 16.
Proof.
  unfold Rep, rep_ok. intros H. repeat (apply andb_true_iff in H; destruct H as [H ?]).
  repeat split; try assumption.
  - destruct (hashes b); [discriminate|discriminate].
  - apply N.ltb_lt. assumption.
Qed.

Lemma remove_piece_snd_lt z b c p s : zob_ok z -> snd (remove_piece z b c p s) < two64.
Proof. intros [Hz _]. unfold remove_piece. destruct (p =? NoPiece); cbn [snd]; [reflexivity|apply Hz]. Qed.
Lemma add_piece_snd_lt z b c p s : zob_ok z -> snd (add_piece z b c p s) < two64.
Proof. intros [Hz _]. unfold add_piece. destruct (p =? NoPiece); cbn [snd]; [reflexivity|apply Hz]. Qed.

Lemma castle_hash_lt z ch : zob_ok z -> castle_hash z ch < two64.
Proof.
  intros [_ [_ [Hz _]]]. unfold castle_hash. cbn [fold_left].
  repeat match goal with |- context [if ?c then _ else _] => destruct c end;
    repeat apply bxor_lt; try apply Hz; reflexivity.
Qed.

Lemma make_core_lt z b m : zob_ok z -> cur_hash b < two64 ->
  exists h, h < two64 /\ fst (make z b m) = set_hashes (core b m) (h :: hashes (core b m)).
Proof.
  intros Hz Hcur. pose proof Hz as [Hz1 [Hz2 [Hz3 Hz4]]].
  unfold make, make_l, core, new_fifty, new_ep. rewrite lxor_cancel.
  set (b0 := set_castles _ _).
  pose proof (remove_piece_snd_lt z b0 (flip (stm b)) (piece_at b (capture_sq b m)) (capture_sq b m) Hz) as L1.
  destruct (remove_piece z b0 _ _ _) as [b1 h1] eqn:E1. cbn [snd] in L1.
  apply (f_equal fst) in E1. rewrite remove_piece_fst in E1. cbn [fst] in E1. subst b1.
  set (b1 := rm b0 _ _ _).
  pose proof (remove_piece_snd_lt z b1 (stm b) (piece_at b (mv_from m)) (mv_from m) Hz) as L2.
  destruct (remove_piece z b1 _ _ _) as [b2 h2] eqn:E2. cbn [snd] in L2.
  apply (f_equal fst) in E2. rewrite remove_piece_fst in E2. cbn [fst] in E2. subst b2.
  set (b2 := rm b1 _ _ _).
  match goal with |- context [add_piece z b2 ?c ?p ?s] => pose proof (add_piece_snd_lt z b2 c p s Hz) as L3 end.
  destruct (add_piece z b2 _ _ _) as [b3 h3] eqn:E3. cbn [snd] in L3.
  apply (f_equal fst) in E3. rewrite add_piece_fst in E3. cbn [fst] in E3. subst b3.
  set (b3 := ad b2 _ _ _).
  set (b4 := set_ep b3 _).
  pose proof (castle_hash_lt z (bxor (castles b) (new_castles b m)) Hz) as LC.
  assert (LH : forall (c : bool) x y, x < two64 -> (if c then bxor x (z_ep z y) else x) < two64).
  { intros c x y Hx. destruct c; [apply bxor_lt; [exact Hx|apply Hz4]|exact Hx]. }
  assert (LE : forall x, x < two64 -> (if negb (ep b =? 0) then bxor x (z_ep z (sq_file (ep b))) else x) < two64).
  { intros x Hx. destruct (negb (ep b =? 0)); [apply bxor_lt; [exact Hx|apply Hz4]|exact Hx]. }
  destruct (piece_at b (mv_from m) =? King).
  - destruct (castle_rook (mv_from m) (mv_to m)) as [[rf rt]|].
    + pose proof (remove_piece_snd_lt z b4 (stm b) Rook rf Hz) as M1.
      destruct (remove_piece z b4 _ _ _) as [c1 g1] eqn:F1. cbn [snd] in M1.
      apply (f_equal fst) in F1. rewrite remove_piece_fst in F1. cbn [fst] in F1. subst c1.
      match goal with |- context [add_piece z ?bb ?c ?p ?s] => pose proof (add_piece_snd_lt z bb c p s Hz) as M2 end.
      destruct (add_piece z _ _ _ _) as [c2 g2] eqn:F2. cbn [snd] in M2.
      apply (f_equal fst) in F2. rewrite add_piece_fst in F2. cbn [fst] in F2. subst c2.
      eexists. split; [|reflexivity].
      repeat (apply bxor_lt; try assumption). apply LH. apply LE. repeat (apply bxor_lt; try assumption).
    + eexists. split; [|reflexivity].
      repeat (apply bxor_lt; try assumption). apply LH. apply LE. repeat (apply bxor_lt; try assumption).
  - eexists. split; [|reflexivity].
    repeat (apply bxor_lt; try assumption). apply LH. apply LE. repeat (apply bxor_lt; try assumption).
Qed.

Theorem make_Rep_proof z : zob_ok z -> make_Rep_statement z.
Proof.
  intros Hz b m HR HV HL HF. unfold Rep.
  destruct (Rep_hashes b HR) as [Hne [Hhb Hc16]].
  assert (Hcur : cur_hash b < two64).
  { unfold cur_hash. destruct (hashes b) as [|x r]; [contradiction|]. cbn [forallb] in Hhb.
    apply andb_true_iff in Hhb. destruct Hhb as [Hx _]. apply N.ltb_lt. exact Hx. }
  destruct (make_core_lt z b m Hz Hcur) as [h [Hh E]]. rewrite E.
  destruct (core_small_fields b m) as [F1 [F2 [F3 [F4 [F5 F6]]]]].
  apply INV_rep_ok.
  - apply (INV_fields (core b m)); try reflexivity. apply INV_core; assumption.
  - cbn [ep set_hashes]. rewrite F2. unfold new_ep. destruct (_ && _); [|reflexivity].
    pose proof (mv_from_lt m). pose proof (mv_to_lt m).
    apply N.div_lt_upper_bound; lia.
  - cbn [castles set_hashes]. rewrite F3. unfold new_castles, bandn.
    apply testbit_lt_two64' with (k := 4). intros i Hi. rewrite N.ldiff_spec.
    replace (N.testbit (castles b) i) with false; [reflexivity|].
    symmetry. destruct (N.eq_dec (castles b) 0) as [->|Hn]; [apply N.bits_0|].
    apply N.bits_above_log2. change 16 with (2 ^ 4) in Hc16. apply N.log2_lt_pow2 in Hc16; lia.
  - cbn [hashes set_hashes]. discriminate.
  - cbn [hashes set_hashes forallb]. rewrite F6, Hhb. rewrite (proj2 (N.ltb_lt h two64) Hh). reflexivity.
  - cbn [fifty set_hashes]. rewrite F4. destruct (new_fifty_step b m HF) as [E1|E1]; rewrite E1; lia.
Qed.

(* chains and the UCI list with the representation invariant discharged *)
Theorem chain_proof' z : zob_ok z -> valid_step_statement ->
  forall ms b, Rep b -> valid_core (abs b) = true -> (0 <= fifty b)%Z -> (fifty b + Z.of_nat (length ms) < 32768)%Z ->
  legal_chain (abs b) ms = true ->
  abs (play z b ms) = play_spec (abs b) ms /\ Rep (play z b ms) /\ valid_core (abs (play z b ms)) = true.
Proof. intros Hz VS. exact (chain_proof z VS (make_Rep_proof z Hz)). Qed.

Theorem uci_legal_proof' z : zob_ok z -> valid_step_statement ->
  forall toks b, Rep b -> valid_core (abs b) = true -> (0 <= fifty b)%Z ->
  (fifty b + Z.of_nat (length (ApplyMoves.accepted_moves z b toks)) < 32768)%Z ->
  legal_chain (abs b) (ApplyMoves.accepted_moves z b toks) = true ->
  abs (ApplyMoves.apply_moves z b toks) = play_spec (abs b) (ApplyMoves.accepted_moves z b toks).
Proof. intros Hz VS. exact (uci_legal_proof z VS (make_Rep_proof z Hz)). Qed.

(* a table given by nested lists with default 0 is bounded when its entries are *)
Lemma nthN_lt (l : list N) i : forallb (fun x => x <? two64) l = true -> nthN l i 0 < two64.
Proof.
  intros H. unfold nthN. destruct (Nat.lt_ge_cases (N.to_nat i) (length l)) as [L|L].
  - rewrite forallb_forall in H. apply N.ltb_lt. apply H. apply nth_In. exact L.
  - rewrite nth_overflow by exact L. reflexivity.
Qed.
