(* C17, mirror half: eval_gen at any score structure with right-commutative addition (in particular
   the engine's int16 instance) and ARBITRARY coefficient tables gives the same result on a board and
   on its mirror image.  One lemma per evaluation term; the coefficient record is a section
   variable that no proof inspects. *)
From Coq Require Import NArith ZArith List Bool Lia Permutation.
From Chess3 Require Import Base.Bits Base.Word Model.Types Model.BoardDef Model.Att Spec.Geometry Gen.Coeffs
  Model.Eval Spec.EvalSym Proofs.EvalAlg Proofs.EvalFlip Proofs.EvalGeom.
Import ListNotations.
Open Scope N_scope.

(* ------------------------------------------------------------------------------------------ *)
(* the mirrored board through its accessors *)

Lemma nthN_map_flipV l p : nthN (map flipV l) p 0 = flipV (nthN l p 0).
Proof. unfold nthN. rewrite <- flipV_0 at 1. apply map_nth. Qed.

Lemma pieces_mirror b p : pieces (mirror b) p = flipV (pieces b p).
Proof. unfold pieces, mirror. cbn [pcs]. apply nthN_map_flipV. Qed.
Lemma colors_mirror b c : colors (mirror b) c = flipV (colors b (flip c)).
Proof. destruct c; reflexivity. Qed.
Lemma stm_mirror b : stm (mirror b) = flip (stm b).
Proof. reflexivity. Qed.
Lemma fifty_mirror b : fifty (mirror b) = fifty b.
Proof. reflexivity. Qed.

Lemma Forall_nthN (l : list N) p : Forall (fun x => x < two64) l -> nthN l p 0 < two64.
Proof.
  intros H. unfold nthN. destruct (nth_in_or_default (N.to_nat p) l 0) as [I| ->]; [|reflexivity].
  rewrite Forall_forall in H. apply H. exact I.
Qed.

(* finite facts about squares *)
Lemma x56_mod8 s : s < 64 -> (x56 s) mod 8 = s mod 8.
Proof. intros H. apply N.eqb_eq. revert s H. apply forall64. vm_compute. reflexivity. Qed.
Lemma x56_div8 s : s < 64 -> (x56 s) / 8 = N.lxor (s / 8) 7.
Proof. intros H. apply N.eqb_eq. revert s H. apply forall64. vm_compute. reflexivity. Qed.
Lemma lxor7_lxor7 r : N.lxor (N.lxor r 7) 7 = r.
Proof. rewrite N.lxor_assoc, N.lxor_nilpotent, N.lxor_0_r. reflexivity. Qed.
Lemma x56_file_plus s : s < 64 -> x56 (s mod 8) = s mod 8 + 56.
Proof. intros H. apply N.eqb_eq. revert s H. apply forall64. vm_compute. reflexivity. Qed.
Lemma x56_file_plus' s : s < 64 -> x56 (s mod 8 + 56) = s mod 8.
Proof. intros H. apply N.eqb_eq. revert s H. apply forall64. vm_compute. reflexivity. Qed.
Lemma mod8_lt64 s : s mod 8 < 64.
Proof. pose proof (N.mod_lt s 8 ltac:(discriminate)). lia. Qed.
Lemma mod8_56_lt64 s : s mod 8 + 56 < 64.
Proof. pose proof (N.mod_lt s 8 ltac:(discriminate)). lia. Qed.

Lemma chebishev_flip a b : a < 64 -> b < 64 -> chebishev (x56 a) (x56 b) = chebishev a b.
Proof.
  intros Ha Hb. unfold chebishev. rewrite !x56_mod8, !x56_div8 by assumption.
  assert (E : forall r, r < 8 -> Z.of_N (N.lxor r 7) = (7 - Z.of_N r)%Z).
  { intros r Hr. assert (r = 0 \/ r = 1 \/ r = 2 \/ r = 3 \/ r = 4 \/ r = 5 \/ r = 6 \/ r = 7) as D by lia.
    repeat destruct D as [->|D]; try subst r; reflexivity. }
  rewrite !E by (apply N.div_lt_upper_bound; lia). lia.
Qed.

Lemma chebishev_flip' a b : a < 64 -> b < 64 -> chebishev a (x56 b) = chebishev (x56 a) b.
Proof. intros Ha Hb. rewrite <- (x56_x56 a) at 1. apply chebishev_flip; [apply x56_lt|]; assumption. Qed.

Lemma rank_mask_flip s : s < 64 -> shl 255 (N.land (x56 s) 56) = flipV (shl 255 (N.land s 56)).
Proof. intros H. apply N.eqb_eq. revert s H. apply forall64. vm_compute. reflexivity. Qed.

Lemma side_of_board_flip c : nthN sideOfBoard (cix c) 0 = flipV (nthN sideOfBoard (cix (flip c)) 0).
Proof. destruct c; vm_compute; reflexivity. Qed.

(* the KNBvK corner term: bishop square bs, victim king square vk *)
Definition corner_dist (bs vk : N) : Z :=
  let parity := N.land (sq_file bs + sq_rank bs) 1 in
  Z.min (chebishev vk (nthN (nthN KBCorners parity []) 0 0)) (chebishev vk (nthN (nthN KBCorners parity []) 1 0)).
Lemma corner_dist_flip bs vk : bs < 64 -> vk < 64 -> corner_dist (x56 bs) (x56 vk) = corner_dist bs vk.
Proof.
  intros Hb Hv. apply Z.eqb_eq.
  assert (E : forall v, v < 64 -> forallb (fun s => (corner_dist (x56 s) (x56 v) =? corner_dist s v)%Z) squares64 = true).
  { apply forall64. vm_compute. reflexivity. }
  exact (forall64 _ (E vk Hv) bs Hb).
Qed.

(* ------------------------------------------------------------------------------------------ *)
Section Mirror.
Context {T : Type} (O : score_ops T) (C : CoeffSet T).

Lemma mgeg_swap c (f : N -> T) : mgeg (flip c) f = map swapc (mgeg c f).
Proof. reflexivity. Qed.
Lemma kab_swap c (f : N -> T) : kab (flip c) f = map swapc (kab c f).
Proof. reflexivity. Qed.
Lemma mgeg_swap' c (f : N -> T) : mgeg c f = map swapc (mgeg (flip c) f).
Proof. rewrite <- mgeg_swap, flip_flip. reflexivity. Qed.
Lemma kab_swap' c (f : N -> T) : kab c f = map swapc (kab (flip c) f).
Proof. rewrite <- kab_swap, flip_flip. reflexivity. Qed.

(* addPSqT and the outpost table: the index flip goes with the colour *)
Lemma psqt_swap c pt sq : add_psqt O C c pt (x56 sq) = map swapc (add_psqt O C (flip c) pt sq).
Proof. destruct c; unfold add_psqt; cbn [flip map swapc fst snd]; fold (x56 (x56 sq)); rewrite ?x56_x56; reflexivity. Qed.

Variable b : board.
Hypothesis Hdom : eval_dom b.

Lemma Hp p : pieces b p < two64.
Proof. apply Forall_nthN. apply Hdom. Qed.
Lemma Hc c : colors b c < two64.
Proof. apply Forall_nthN. apply Hdom. Qed.

Ltac wbd :=
  repeat first
    [ assumption | apply Hp | apply Hc
    | apply flipV_lt | apply shl_lt | apply bnot_lt | apply zero_lt64
    | apply rook_moves_lt | apply bishop_moves_lt | apply king_moves_lt | apply knight_moves_lt
    | apply front_fill_lt
    | apply shr_lt | apply bor_lt | apply bandn_lt
    | (apply band_lt_l; solve [wbd]) | (apply band_lt_r; solve [wbd])
    | reflexivity ].

(* pieces & colours of one kind *)
Lemma pc_mirror p c : band (pieces (mirror b) p) (colors (mirror b) c) = flipV (band (pieces b p) (colors b (flip c))).
Proof. rewrite pieces_mirror, colors_mirror, flipV_band. reflexivity. Qed.
Lemma cp_mirror p c : band (colors (mirror b) c) (pieces (mirror b) p) = flipV (band (colors b (flip c)) (pieces b p)).
Proof. rewrite pieces_mirror, colors_mirror, flipV_band. reflexivity. Qed.
Lemma cnt_pc_mirror p c : cnt (band (pieces (mirror b) p) (colors (mirror b) c)) = cnt (band (pieces b p) (colors b (flip c))).
Proof. rewrite pc_mirror. apply cnt_flipV. wbd. Qed.
Lemma cnt_cp_mirror p c : cnt (band (colors (mirror b) c) (pieces (mirror b) p)) = cnt (band (colors b (flip c)) (pieces b p)).
Proof. rewrite cp_mirror. apply cnt_flipV. wbd. Qed.

(* ---- insufficient material ---- *)
Lemma insufficient_mirror : insufficient_mat (mirror b) = insufficient_mat b.
Proof.
  unfold insufficient_mat. rewrite !cnt_cp_mirror. cbn [flip].
  rewrite !pieces_mirror, <- !flipV_bor, nz_flipV by wbd.
  destruct (nz (bor (bor (pieces b Pawn) (pieces b Queen)) (pieces b Rook))); [reflexivity|].
  set (wN := cnt (band (colors b White) (pieces b Knight))).
  set (bN := cnt (band (colors b Black) (pieces b Knight))).
  set (wB := cnt (band (colors b White) (pieces b Bishop))).
  set (bB := cnt (band (colors b Black) (pieces b Bishop))).
  replace (bN + wN + bB + wB)%Z with (wN + bN + wB + bB)%Z by lia.
  rewrite (Z.max_comm (bN + 3 * bB - (wN + 3 * wB))%Z). reflexivity.
Qed.

(* ---- KNBvK test ---- *)
Lemma knbvk_mirror : knbvk (mirror b) = knbvk b.
Proof.
  unfold knbvk. rewrite !pc_mirror. cbn [flip].
  rewrite !pieces_mirror, <- !flipV_bor. rewrite !flipV_eq0, !is_pow2_flipV by wbd.
  f_equal. apply orb_comm.
Qed.

(* ---- piece values and phase ---- *)
Lemma sim_flat_map_same {A} (g' g : A -> list (bump T)) l :
  (forall x, sim (g' x) (g x)) -> sim (flat_map g' l) (flat_map g l).
Proof.
  intros H. induction l as [|x l IH]; cbn [flat_map]; [apply sim_nil|]. apply sim_app; [apply H|exact IH].
Qed.

Lemma piece_values_mirror : sim (add_piece_values O C (mirror b)) (add_piece_values O C b).
Proof.
  unfold add_piece_values. apply sim_flat_map_same. intros pt.
  rewrite !cnt_pc_mirror. cbn [flip]. unfold sim. cbn [map swapc fst snd flip].
  match goal with |- Permutation [?a; ?b; ?c; ?d] _ => apply (Permutation_app_comm [a; b] [c; d]) end.
Qed.

Lemma phase_mirror : phase_of (mirror b) = phase_of b.
Proof.
  unfold phase_of, piece_types. cbn [fold_left]. rewrite !cnt_pc_mirror. cbn [flip]. lia.
Qed.

(* ---- tempo ---- *)
Lemma tempo_mirror : sim (add_tempo O C (mirror b)) (add_tempo O C b).
Proof. apply sim_eq. unfold add_tempo. rewrite stm_mirror. apply mgeg_swap. Qed.

(* ---- bishop pair ---- *)
Lemma bishop_pair_mirror : sim (add_bishop_pair O C (mirror b)) (add_bishop_pair O C b).
Proof.
  unfold add_bishop_pair. apply sim_colors. intros c. apply sim_eq.
  rewrite cnt_cp_mirror, cp_mirror, nz_clear_lsb_flipV by wbd.
  destruct (nz (clear_lsb (band (colors b (flip c)) (pieces b Bishop)))); [|reflexivity].
  cbn [map]. unfold swapc. cbn [fst snd]. rewrite flip_flip. reflexivity.
Qed.

(* ------------------------------------------------------------------------------------------ *)
(* pieceWise, the part computed before the piece loops *)

Lemma sel_both {A} (f : color -> A) c : sel (both f) c = f c.
Proof. destruct c; reflexivity. Qed.

Section Spans.
Variables ps ps' : N * N.
Hypothesis Hps : forall c, sel ps c < two64.
Hypothesis Hps' : forall c, sel ps' c = flipV (sel ps (flip c)).

Lemma front_span_flip c : front_span ps' c = flipV (front_span ps (flip c)).
Proof.
  destruct c; cbn [front_span flip]; rewrite Hps'; cbn [flip].
  - rewrite flipV_shr_ranks by (try apply front_fill_lt; try apply Hps; cbn; tauto).
    rewrite flipV_front_fill by apply Hps. reflexivity.
  - rewrite flipV_shl_ranks by (cbn; tauto). rewrite flipV_front_fill by apply Hps. reflexivity.
Qed.
Lemma rear_span_flip c : rear_span ps' c = flipV (rear_span ps (flip c)).
Proof.
  destruct c; cbn [rear_span flip]; rewrite Hps'; cbn [flip].
  - rewrite flipV_shl_ranks by (cbn; tauto). rewrite flipV_front_fill by apply Hps. reflexivity.
  - rewrite flipV_shr_ranks by (try apply front_fill_lt; try apply Hps; cbn; tauto).
    rewrite flipV_front_fill by apply Hps. reflexivity.
Qed.
Lemma pawn_cover_flip c : pawn_cover ps' c = flipV (pawn_cover ps (flip c)).
Proof.
  destruct c; cbn [pawn_cover flip]; rewrite front_span_flip; cbn [flip];
  rewrite ?spread'_spread, flipV_spread; reflexivity.
Qed.
Lemma neighbour_files_flip c : neighbour_files ps' c = flipV (neighbour_files ps (flip c)).
Proof.
  unfold neighbour_files. rewrite front_span_flip, rear_span_flip, Hps'.
  rewrite <- !flipV_bor. destruct c; cbn [flip]; rewrite ?spread'_spread, flipV_spread; reflexivity.
Qed.
Lemma front_line_flip c : front_line ps' c = flipV (front_line ps (flip c)).
Proof. unfold front_line. rewrite rear_span_flip, Hps', <- flipV_bnot, <- flipV_band. reflexivity. Qed.
End Spans.

Lemma pawns_of_mirror c : pawns_of (mirror b) c = flipV (pawns_of b (flip c)).
Proof. apply pc_mirror. Qed.
Lemma pawns_of_lt c : pawns_of b c < two64.
Proof. unfold pawns_of. wbd. Qed.

Let ps := both (pawns_of b).
Let ps' := both (pawns_of (mirror b)).
Lemma Hps c : sel ps c < two64.
Proof. unfold ps. rewrite sel_both. apply pawns_of_lt. Qed.
Lemma Hps' c : sel ps' c = flipV (sel ps (flip c)).
Proof. unfold ps, ps'. rewrite !sel_both. apply pawns_of_mirror. Qed.

(* the fields of calc_pw_pre, one equation each *)
Definition king_of (b0 : board) (c : color) : N := band (colors b0 c) (pieces b0 King).
Lemma pw_occ_eq b0 : pw_occ (calc_pw_pre b0) = bor (colors b0 White) (colors b0 Black).
Proof. reflexivity. Qed.
Lemma pw_king_sq_eq b0 c : sel (pw_king_sq (calc_pw_pre b0)) c = lsb (king_of b0 c).
Proof. destruct c; reflexivity. Qed.
Lemma pw_att_king_eq b0 c : sel (pw_att_king (calc_pw_pre b0)) c = king_moves (lsb (king_of b0 c)).
Proof. destruct c; reflexivity. Qed.
Lemma pw_rays_b_eq b0 c : sel (pw_rays_b (calc_pw_pre b0)) c = bishop_moves (lsb (king_of b0 c)) (bor (colors b0 White) (colors b0 Black)).
Proof. destruct c; reflexivity. Qed.
Lemma pw_rays_r_eq b0 c : sel (pw_rays_r (calc_pw_pre b0)) c = rook_moves (lsb (king_of b0 c)) (bor (colors b0 White) (colors b0 Black)).
Proof. destruct c; reflexivity. Qed.
Lemma pw_king_nb_eq b0 c : sel (pw_king_nb (calc_pw_pre b0)) c = bor (king_of b0 c) (king_moves (lsb (king_of b0 c))).
Proof. destruct c; reflexivity. Qed.
Lemma pw_att_pawn_eq b0 c : sel (pw_att_pawn (calc_pw_pre b0)) c = pawn_capture_moves (pawns_of b0 c) c.
Proof. destruct c; reflexivity. Qed.
Lemma pw_holes_eq b0 c : sel (pw_holes (calc_pw_pre b0)) c =
  band (nthN sideOfBoard (cix c) 0) (bnot (pawn_cover (both (pawns_of b0)) c)).
Proof. destruct c; reflexivity. Qed.
Lemma pw_passers_eq b0 c : sel (pw_passers (calc_pw_pre b0)) c =
  band (front_line (both (pawns_of b0)) c)
       (bnot (bor (front_span (both (pawns_of b0)) (flip c)) (pawn_cover (both (pawns_of b0)) (flip c)))).
Proof. destruct c; reflexivity. Qed.
Lemma pw_doubled_eq b0 c : sel (pw_doubled (calc_pw_pre b0)) c =
  bandn (pawns_of b0 c) (front_line (both (pawns_of b0)) c).
Proof. destruct c; reflexivity. Qed.
Lemma pw_isolated_eq b0 c : sel (pw_isolated (calc_pw_pre b0)) c =
  bandn (pawns_of b0 c) (neighbour_files (both (pawns_of b0)) c).
Proof. destruct c; reflexivity. Qed.

Let pw := calc_pw_pre b.
Let pw' := calc_pw_pre (mirror b).

Lemma king_of_mirror c : king_of (mirror b) c = flipV (king_of b (flip c)).
Proof. apply cp_mirror. Qed.
Lemma king_of_lt c : king_of b c < two64.
Proof. unfold king_of. wbd. Qed.
Lemma king_of_pow2 c : is_pow2 (king_of b c) = true.
Proof.
  unfold king_of, band. rewrite N.land_comm. destruct Hdom as (_ & _ & _ & _ & Hw & Hb). destruct c; assumption.
Qed.
Lemma king_sq_lt c : lsb (king_of b c) < 64.
Proof. apply is_pow2_lt; [apply king_of_lt|apply king_of_pow2]. Qed.

Lemma occ_mirror : pw_occ pw' = flipV (pw_occ pw).
Proof.
  unfold pw, pw'. rewrite !pw_occ_eq, !colors_mirror. cbn [flip]. rewrite <- flipV_bor.
  f_equal. unfold bor. apply N.lor_comm.
Qed.
Lemma king_sq_mirror c : sel (pw_king_sq pw') c = x56 (sel (pw_king_sq pw) (flip c)).
Proof.
  unfold pw, pw'. rewrite !pw_king_sq_eq, king_of_mirror.
  apply lsb_flipV; [apply king_of_lt|apply king_of_pow2].
Qed.
Lemma pw_king_sq_lt c : sel (pw_king_sq pw) c < 64.
Proof. unfold pw. rewrite pw_king_sq_eq. apply king_sq_lt. Qed.
Lemma att_king_mirror c : sel (pw_att_king pw') c = flipV (sel (pw_att_king pw) (flip c)).
Proof.
  unfold pw, pw'. rewrite !pw_att_king_eq, king_of_mirror.
  rewrite lsb_flipV by (apply king_of_lt || apply king_of_pow2).
  apply king_moves_flip. apply king_sq_lt.
Qed.
Lemma occ_eq_mirror : bor (colors (mirror b) White) (colors (mirror b) Black) = flipV (bor (colors b White) (colors b Black)).
Proof. rewrite <- !pw_occ_eq. apply occ_mirror. Qed.
Lemma rays_b_mirror c : sel (pw_rays_b pw') c = flipV (sel (pw_rays_b pw) (flip c)).
Proof.
  unfold pw, pw'. rewrite !pw_rays_b_eq, king_of_mirror, occ_eq_mirror.
  rewrite lsb_flipV by (apply king_of_lt || apply king_of_pow2).
  apply bishop_moves_flip. apply king_sq_lt.
Qed.
Lemma rays_r_mirror c : sel (pw_rays_r pw') c = flipV (sel (pw_rays_r pw) (flip c)).
Proof.
  unfold pw, pw'. rewrite !pw_rays_r_eq, king_of_mirror, occ_eq_mirror.
  rewrite lsb_flipV by (apply king_of_lt || apply king_of_pow2).
  apply rook_moves_flip. apply king_sq_lt.
Qed.
Lemma king_nb_mirror c : sel (pw_king_nb pw') c = flipV (sel (pw_king_nb pw) (flip c)).
Proof.
  unfold pw, pw'. rewrite !pw_king_nb_eq, king_of_mirror.
  rewrite lsb_flipV by (apply king_of_lt || apply king_of_pow2).
  rewrite king_moves_flip by apply king_sq_lt. rewrite flipV_bor. reflexivity.
Qed.
Lemma att_pawn_mirror c : sel (pw_att_pawn pw') c = flipV (sel (pw_att_pawn pw) (flip c)).
Proof.
  unfold pw, pw'. rewrite !pw_att_pawn_eq, pawns_of_mirror.
  rewrite flipV_pawn_capture_moves by apply pawns_of_lt. rewrite flip_flip. reflexivity.
Qed.
Lemma holes_mirror c : sel (pw_holes pw') c = flipV (sel (pw_holes pw) (flip c)).
Proof.
  unfold pw, pw'. rewrite !pw_holes_eq. fold ps ps'.
  rewrite (pawn_cover_flip ps ps' Hps Hps'), flipV_band, flipV_bnot, <- side_of_board_flip. reflexivity.
Qed.
Lemma passers_mirror c : sel (pw_passers pw') c = flipV (sel (pw_passers pw) (flip c)).
Proof.
  unfold pw, pw'. rewrite !pw_passers_eq. fold ps ps'.
  rewrite (front_line_flip ps ps' Hps Hps'), (front_span_flip ps ps' Hps Hps'), (pawn_cover_flip ps ps' Hps Hps').
  rewrite flipV_band, flipV_bnot, flipV_bor. reflexivity.
Qed.
Lemma doubled_mirror c : sel (pw_doubled pw') c = flipV (sel (pw_doubled pw) (flip c)).
Proof.
  unfold pw, pw'. rewrite !pw_doubled_eq. fold ps ps'.
  rewrite (front_line_flip ps ps' Hps Hps'), pawns_of_mirror, flipV_bandn. reflexivity.
Qed.
Lemma isolated_mirror c : sel (pw_isolated pw') c = flipV (sel (pw_isolated pw) (flip c)).
Proof.
  unfold pw, pw'. rewrite !pw_isolated_eq. fold ps ps'.
  rewrite (neighbour_files_flip ps ps' Hps Hps'), pawns_of_mirror, flipV_bandn. reflexivity.
Qed.

(* bounds of the fields *)
Lemma front_span_lt c : front_span ps c < two64.
Proof. destruct c; cbn [front_span]; wbd; apply Hps. Qed.
Lemma rear_span_lt c : rear_span ps c < two64.
Proof. destruct c; cbn [rear_span]; wbd; apply Hps. Qed.
Lemma passers_lt c : sel (pw_passers pw) c < two64.
Proof. unfold pw. rewrite pw_passers_eq. wbd. Qed.
Lemma doubled_lt c : sel (pw_doubled pw) c < two64.
Proof. unfold pw. rewrite pw_doubled_eq. apply bandn_lt. apply pawns_of_lt. Qed.
Lemma isolated_lt c : sel (pw_isolated pw) c < two64.
Proof. unfold pw. rewrite pw_isolated_eq. apply bandn_lt. apply pawns_of_lt. Qed.

(* ---- passed pawns ---- *)
Lemma minor_major_mirror :
  (bor (bor (pieces (mirror b) Knight) (pieces (mirror b) Bishop)) (pieces (mirror b) Queen) =? 0)
  || (bor (pieces (mirror b) Rook) (pieces (mirror b) Queen) =? 0)
  = (bor (bor (pieces b Knight) (pieces b Bishop)) (pieces b Queen) =? 0) || (bor (pieces b Rook) (pieces b Queen) =? 0).
Proof. rewrite !pieces_mirror, <- !flipV_bor, !flipV_eq0 by wbd. reflexivity. Qed.

Lemma passers_term_mirror : sim (add_passers O C (mirror b) pw') (add_passers O C b pw).
Proof.
  unfold add_passers. apply sim_colors. intros c.
  rewrite passers_mirror. set (P := sel (pw_passers pw) (flip c)).
  assert (HP : P < two64) by apply passers_lt.
  apply sim_app.
  - (* sole passer: king distances *)
    apply sim_eq. rewrite is_pow2_flipV by exact HP.
    destruct (is_pow2 P) eqn:E; [|reflexivity].
    rewrite minor_major_mirror.
    destruct ((bor (bor (pieces b Knight) (pieces b Bishop)) (pieces b Queen) =? 0) || (bor (pieces b Rook) (pieces b Queen) =? 0)); [|reflexivity].
    rewrite lsb_flipV by assumption.
    pose proof (is_pow2_lt P HP E) as Hs. set (sq := lsb P) in *.
    rewrite !king_sq_mirror, flip_flip, x56_mod8 by exact Hs.
    rewrite mgeg_swap'. f_equal. f_equal.
    destruct c; cbn [flip].
    + rewrite !chebishev_flip' by (apply mod8_56_lt64 || apply pw_king_sq_lt).
      rewrite (x56_file_plus' sq Hs). reflexivity.
    + rewrite !chebishev_flip' by (apply mod8_lt64 || apply pw_king_sq_lt).
      rewrite (x56_file_plus sq Hs). reflexivity.
  - (* every passer: protection and rank *)
    apply (sim_flat_map _ _ _ _ x56); [apply bits_of_flipV; exact HP|].
    intros sq Hsq. apply sim_eq. pose proof (bits_of_lt P sq HP Hsq) as Hs.
    rewrite att_pawn_mirror, flipV_testbit, x56_x56, x56_div8 by exact Hs.
    pose proof (x56_lt sq Hs) as L. apply N.ltb_lt in L. rewrite L. cbn [andb].
    rewrite map_app. f_equal.
    + destruct (N.testbit (sel (pw_att_pawn pw) (flip c)) sq); [apply mgeg_swap'|reflexivity].
    + rewrite mgeg_swap'. destruct c; cbn [flip]; rewrite ?lxor7_lxor7; reflexivity.
Qed.

(* ---- doubled and isolated pawns ---- *)
Lemma doubled_term_mirror : sim (add_doubled O C pw') (add_doubled O C pw).
Proof.
  unfold add_doubled. apply sim_colors. intros c. apply sim_eq.
  rewrite doubled_mirror, cnt_flipV by apply doubled_lt. apply mgeg_swap'.
Qed.
Lemma isolated_term_mirror : sim (add_isolated O C pw') (add_isolated O C pw).
Proof.
  unfold add_isolated. apply sim_colors. intros c. apply sim_eq.
  rewrite isolated_mirror, cnt_flipV by apply isolated_lt. apply mgeg_swap'.
Qed.

(* ------------------------------------------------------------------------------------------ *)
(* the per-piece loops *)

Lemma piece_loop_gen {B} (body : N -> N * list B) l : forall a bs,
  fold_left (fun st sq => let r := body sq in (bor (fst st) (fst r), snd st ++ snd r)) l (a, bs)
  = (fold_left (fun acc sq => bor acc (fst (body sq))) l a, bs ++ flat_map (fun sq => snd (body sq)) l).
Proof.
  induction l as [|s l IH]; intros a bs; [cbn [fold_left flat_map]; rewrite app_nil_r; reflexivity|].
  rewrite !fold_left_cons. cbn [fst snd flat_map]. rewrite IH, app_assoc. reflexivity.
Qed.
Lemma piece_loop_fst {B} X (body : N -> N * list B) :
  fst (piece_loop X body) = fold_left (fun acc sq => bor acc (fst (body sq))) (bits_of X) 0.
Proof. unfold piece_loop. rewrite piece_loop_gen. reflexivity. Qed.
Lemma piece_loop_snd {B} X (body : N -> N * list B) :
  snd (piece_loop X body) = flat_map (fun sq => snd (body sq)) (bits_of X).
Proof. unfold piece_loop. rewrite piece_loop_gen. reflexivity. Qed.

Lemma fold_left_map {A B0 D} (f : A -> B0 -> A) (h : D -> B0) l : forall a,
  fold_left f (map h l) a = fold_left (fun acc s => f acc (h s)) l a.
Proof. induction l as [|s l IH]; intros a; [reflexivity|]. cbn [map]. rewrite !fold_left_cons. apply IH. Qed.
Lemma fold_left_ext_in {A B0} (f g : A -> B0 -> A) l :
  (forall a s, In s l -> f a s = g a s) -> forall a, fold_left f l a = fold_left g l a.
Proof.
  induction l as [|s l IH]; intros H a; [reflexivity|]. rewrite !fold_left_cons.
  rewrite (H a s) by (left; reflexivity). apply IH. intros a0 s0 H0. apply H. right. exact H0.
Qed.

Lemma piece_loop_mirror X (body' body : N -> N * list (bump T)) : X < two64 ->
  (forall sq, sq < 64 -> fst (body' (x56 sq)) = flipV (fst (body sq))) ->
  (forall sq, sq < 64 -> sim (snd (body' (x56 sq))) (snd (body sq))) ->
  fst (piece_loop (flipV X) body') = flipV (fst (piece_loop X body)) /\
  sim (snd (piece_loop (flipV X) body')) (snd (piece_loop X body)).
Proof.
  intros HX Hf Hs. split.
  - rewrite !piece_loop_fst.
    rewrite (fold_bor_perm (fun sq => fst (body' sq)) _ _ (bits_of_flipV X HX)).
    rewrite fold_left_map, fold_bor_flipV, flipV_0.
    apply fold_left_ext_in. intros a s Hin. rewrite Hf; [reflexivity|]. eapply bits_of_lt; eassumption.
  - rewrite !piece_loop_snd. apply (sim_flat_map _ _ _ _ x56); [apply bits_of_flipV; exact HX|].
    intros s Hin. apply Hs. eapply bits_of_lt; eassumption.
Qed.

(* the helpers called inside the loops *)
Lemma attack_pieces_mirror c pt a k : a < two64 ->
  add_attack_pieces O C c pt (flipV a) (flipV k) = map swapc (add_attack_pieces O C (flip c) pt a k).
Proof.
  intros Ha. unfold add_attack_pieces. rewrite <- flipV_band, nz_flipV by (apply band_lt_r; exact Ha).
  destruct (nz (band k a)); [apply kab_swap'|reflexivity].
Qed.

Lemma rook_mobility_mirror c sq a : sq < 64 -> a < two64 ->
  add_rook_mobility O C (mirror b) c (x56 sq) (flipV a) = map swapc (add_rook_mobility O C b (flip c) sq a).
Proof.
  intros Hs Ha. unfold add_rook_mobility.
  rewrite rank_mask_flip, colors_mirror, pieces_mirror by exact Hs.
  rewrite <- !flipV_bnot, <- !flipV_band.
  rewrite !cnt_flipV, nz_flipV by (repeat apply band_lt_l; exact Ha).
  rewrite map_app, <- mgeg_swap'. f_equal.
  destruct (nz (band (band a (pieces b Rook)) (colors b (flip c)))); [apply mgeg_swap'|reflexivity].
Qed.

Lemma bishop_mobility_mirror c a : a < two64 ->
  add_bishop_mobility O C (mirror b) c (flipV a) = map swapc (add_bishop_mobility O C b (flip c) a).
Proof.
  intros Ha. unfold add_bishop_mobility. rewrite colors_mirror, <- flipV_bnot, <- flipV_band.
  rewrite popcount_flipV by (apply band_lt_l; exact Ha). apply mgeg_swap'.
Qed.

Lemma knight_mobility_mirror c a pc : a < two64 ->
  add_knight_mobility O C (mirror b) c (flipV a) (flipV pc) = map swapc (add_knight_mobility O C b (flip c) a pc).
Proof.
  intros Ha. unfold add_knight_mobility. rewrite colors_mirror, <- !flipV_bnot, <- !flipV_band.
  rewrite popcount_flipV by (repeat apply band_lt_l; exact Ha). apply mgeg_swap'.
Qed.

Lemma knight_outposts_mirror c sq holes : sq < 64 ->
  add_knight_outposts O C c (x56 sq) (flipV holes) = map swapc (add_knight_outposts O C (flip c) sq holes).
Proof.
  intros Hs. unfold add_knight_outposts.
  rewrite <- flipV_bit, <- flipV_band, nz_flipV by (try apply band_lt_l; try apply bit_lt; exact Hs).
  destruct (nz (band (bit sq) holes)); [|reflexivity].
  rewrite mgeg_swap'. destruct c; cbn [flip]; fold (x56 (x56 sq)); rewrite ?x56_x56; reflexivity.
Qed.

(* the first colour loop *)
Lemma piece_terms_mirror c :
  let r' := piece_terms O C (mirror b) pw' c in
  let r := piece_terms O C b pw (flip c) in
  fst (fst (fst (fst r'))) = flipV (fst (fst (fst (fst r)))) /\
  snd (fst (fst (fst r'))) = flipV (snd (fst (fst (fst r)))) /\
  snd (fst (fst r')) = flipV (snd (fst (fst r))) /\
  snd (fst r') = flipV (snd (fst r)) /\
  sim (snd r') (snd r).
Proof.
  unfold piece_terms. cbn [fst snd]. rewrite !flip_flip, !pc_mirror.
  rewrite occ_mirror, !king_nb_mirror, !att_pawn_mirror, !holes_mirror, !flip_flip.
  set (occ := pw_occ pw). set (eKNb := sel (pw_king_nb pw) c).
  (* queens *)
  match goal with |- context [piece_loop (flipV (band (pieces b Queen) ?col)) ?body'] =>
    match goal with |- context [piece_loop (band (pieces b Queen) col) ?body] =>
      destruct (piece_loop_mirror (band (pieces b Queen) col) body' body) as [Q1 Q2]
    end end.
  { wbd. }
  { intros sq Hs. cbn [fst]. rewrite bishop_moves_flip, rook_moves_flip, flipV_bor by exact Hs. reflexivity. }
  { intros sq Hs. cbn [snd]. rewrite bishop_moves_flip, rook_moves_flip, <- flipV_bor by exact Hs.
    apply sim_eq. rewrite attack_pieces_mirror by wbd. rewrite psqt_swap, map_app. reflexivity. }
  (* rooks *)
  match goal with |- context [piece_loop (flipV (band (pieces b Rook) ?col)) ?body'] =>
    match goal with |- context [piece_loop (band (pieces b Rook) col) ?body] =>
      destruct (piece_loop_mirror (band (pieces b Rook) col) body' body) as [R1 R2]
    end end.
  { wbd. }
  { intros sq Hs. cbn [fst]. apply rook_moves_flip. exact Hs. }
  { intros sq Hs. cbn [snd]. rewrite rook_moves_flip by exact Hs.
    apply sim_eq. rewrite attack_pieces_mirror, rook_mobility_mirror by (wbd || exact Hs).
    rewrite psqt_swap, !map_app. reflexivity. }
  (* bishops *)
  match goal with |- context [piece_loop (flipV (band (pieces b Bishop) ?col)) ?body'] =>
    match goal with |- context [piece_loop (band (pieces b Bishop) col) ?body] =>
      destruct (piece_loop_mirror (band (pieces b Bishop) col) body' body) as [B1 B2]
    end end.
  { wbd. }
  { intros sq Hs. cbn [fst]. apply bishop_moves_flip. exact Hs. }
  { intros sq Hs. cbn [snd]. rewrite bishop_moves_flip by exact Hs.
    apply sim_eq. rewrite attack_pieces_mirror, bishop_mobility_mirror by wbd.
    rewrite psqt_swap, !map_app. reflexivity. }
  (* knights *)
  match goal with |- context [piece_loop (flipV (band (pieces b Knight) ?col)) ?body'] =>
    match goal with |- context [piece_loop (band (pieces b Knight) col) ?body] =>
      destruct (piece_loop_mirror (band (pieces b Knight) col) body' body) as [N1 N2]
    end end.
  { wbd. }
  { intros sq Hs. cbn [fst]. apply knight_moves_flip. exact Hs. }
  { intros sq Hs. cbn [snd]. rewrite knight_moves_flip by exact Hs.
    apply sim_eq. rewrite <- flipV_band.
    rewrite attack_pieces_mirror, knight_mobility_mirror, knight_outposts_mirror by (wbd || exact Hs).
    rewrite psqt_swap, !map_app. reflexivity. }
  (* pawns *)
  match goal with |- context [piece_loop (flipV (band (pieces b Pawn) ?col)) ?body'] =>
    match goal with |- context [piece_loop (band (pieces b Pawn) col) ?body] =>
      destruct (piece_loop_mirror (band (pieces b Pawn) col) body' body) as [_ P2]
    end end.
  { wbd. }
  { intros sq Hs. cbn [fst]. symmetry. apply flipV_0. }
  { intros sq Hs. cbn [snd]. apply sim_eq. apply psqt_swap. }
  repeat split; try assumption.
  repeat (apply sim_app; [assumption|]).
  (* king *)
  apply sim_eq. rewrite lsb_flipV.
  - apply psqt_swap.
  - wbd.
  - unfold band. rewrite N.land_comm. apply (king_of_pow2 (flip c)).
Qed.

(* ------------------------------------------------------------------------------------------ *)
(* safe checks and shelter *)

Definition att_rel (a' a : att_set) : Prop :=
  at_pawn a' = flipV (at_pawn a) /\ at_knight a' = flipV (at_knight a) /\ at_bishop a' = flipV (at_bishop a) /\
  at_rook a' = flipV (at_rook a) /\ at_queen a' = flipV (at_queen a) /\ at_king a' = flipV (at_king a).

Lemma cover_of_rel a' a : att_rel a' a -> cover_of a' = flipV (cover_of a).
Proof.
  intros (H1 & H2 & H3 & H4 & H5 & H6). unfold cover_of. rewrite H1, H2, H3, H4, H5, H6, !flipV_bor. reflexivity.
Qed.

Lemma safe_checks_mirror c pt s : s < two64 ->
  add_safe_checks O C c pt (flipV s) = map swapc (add_safe_checks O C (flip c) pt s).
Proof. intros Hs. unfold add_safe_checks. rewrite cnt_flipV by exact Hs. apply kab_swap'. Qed.

(* stated for abstract pieceWise records so that no rewriting ever tries to unify calc_pw_pre terms *)
Definition pw_rel (q' q : pw_pre) : Prop := forall c0,
  sel (pw_rays_b q') c0 = flipV (sel (pw_rays_b q) (flip c0)) /\
  sel (pw_rays_r q') c0 = flipV (sel (pw_rays_r q) (flip c0)) /\
  sel (pw_king_sq q') c0 = x56 (sel (pw_king_sq q) (flip c0)) /\
  sel (pw_king_sq q) c0 < 64 /\
  sel (pw_king_nb q') c0 = flipV (sel (pw_king_nb q) (flip c0)).

Lemma pw_rel_holds : pw_rel pw' pw.
Proof.
  intros c0. repeat split; [apply rays_b_mirror|apply rays_r_mirror|apply king_sq_mirror|apply pw_king_sq_lt|apply king_nb_mirror].
Qed.

Lemma safety_terms_mirror_gen (q' q : pw_pre) (att' att : att_set * att_set) c :
  pw_rel q' q ->
  (forall c0, att_rel (sel att' c0) (sel att (flip c0))) ->
  safety_terms O C (mirror b) q' att' c = map swapc (safety_terms O C b q att (flip c)).
Proof.
  intros Hq Hrel. unfold safety_terms.
  rewrite (cover_of_rel _ _ (Hrel (flip c))).
  destruct (Hrel c) as (_ & Hn & Hb & Hr & Hq0 & _). rewrite Hn, Hb, Hr, Hq0.
  destruct (Hq (flip c)) as (Q1 & Q2 & Q3 & _ & _). rewrite Q1, Q2, Q3.
  destruct (Hq c) as (_ & _ & _ & Q4 & Q5). rewrite Q5.
  rewrite !flip_flip.
  rewrite knight_moves_flip by exact Q4.
  rewrite colors_mirror, pieces_mirror.
  rewrite <- !flipV_bor, <- !flipV_bnot, <- !flipV_band.
  rewrite cnt_flipV by wbd.
  rewrite !safe_checks_mirror by (apply band_lt_r; apply bnot_lt).
  rewrite !map_app, (kab_swap c). reflexivity.
Qed.

Lemma safety_terms_mirror (att' att : att_set * att_set) c :
  (forall c0, att_rel (sel att' c0) (sel att (flip c0))) ->
  safety_terms O C (mirror b) pw' att' c = map swapc (safety_terms O C b pw att (flip c)).
Proof. apply safety_terms_mirror_gen. apply pw_rel_holds. Qed.

(* ------------------------------------------------------------------------------------------ *)
(* the main path *)
Hypothesis add_rc : forall x y z, s_add O (s_add O x y) z = s_add O (s_add O x z) y.

Lemma main_terms_mirror : sim (main_terms O C (mirror b)) (main_terms O C b).
Proof.
  unfold main_terms. fold pw pw'.
  destruct (piece_terms_mirror White) as (WN & WB & WR & WQ & WS).
  destruct (piece_terms_mirror Black) as (BN & BB & BR & BQ & BS).
  cbn [flip] in *.
  set (ptW' := piece_terms O C (mirror b) pw' White) in *. set (ptB' := piece_terms O C (mirror b) pw' Black) in *.
  set (ptW := piece_terms O C b pw White) in *. set (ptB := piece_terms O C b pw Black) in *.
  match goal with |- sim (?l' ++ _) (?l ++ _) => assert (L : sim l' l) end.
  { apply sim_app; [apply tempo_mirror|]. apply sim_app; [apply bishop_pair_mirror|].
    apply sim_app; [apply passers_term_mirror|]. apply sim_app; [apply doubled_term_mirror|].
    apply sim_app; [apply isolated_term_mirror|].
    rewrite !(app_assoc (snd _) (snd _)). apply sim_app.
    - apply sim_app_swap; assumption.
    - apply sim_app_swap; apply sim_eq; apply safety_terms_mirror; intros [|]; cbn [sel fst snd flip];
        unfold att_rel; cbn [at_pawn at_knight at_bishop at_rook at_queen at_king];
        repeat split; try assumption;
        first [ apply (att_pawn_mirror White) | apply (att_pawn_mirror Black)
              | apply (att_king_mirror White) | apply (att_king_mirror Black) ]. }
  apply sim_app; [exact L|]. apply sim_king_attacks; assumption.
Qed.

(* ------------------------------------------------------------------------------------------ *)
(* the knight + bishop ending *)
Lemma knbvk_terms_eq b0 : knbvk_terms O C b0 =
  let bs := lsb (pieces b0 Bishop) in
  let ks := lsb (pieces b0 Knight) in
  let victim := if nz (band (pieces b0 Bishop) (colors b0 White)) then Black else White in
  let vk := lsb (band (pieces b0 King) (colors b0 victim)) in
  let ak := lsb (band (pieces b0 King) (colors b0 (flip victim))) in
  add_psqt O C victim King vk ++ add_psqt O C (flip victim) King ak ++
  add_psqt O C (flip victim) Knight ks ++ add_psqt O C (flip victim) Bishop bs ++
  [(EG, flip victim, mul O (of_int O ((7 - corner_dist bs vk) * (7 - corner_dist bs vk))) (of_int O 30))].
Proof. reflexivity. Qed.

Lemma split_by_colour p : N.ldiff (pieces b p) (occupancy b) = 0 ->
  pieces b p = bor (band (pieces b p) (colors b White)) (band (pieces b p) (colors b Black)).
Proof.
  intros H. apply N.bits_inj. intros i. unfold bor, band. rewrite N.lor_spec, !N.land_spec.
  assert (E := f_equal (fun x => N.testbit x i) H). cbn beta in E.
  unfold occupancy, bor in E. rewrite N.ldiff_spec, N.lor_spec, N.bits_0 in E.
  destruct (N.testbit (pieces b p) i), (N.testbit (colors b White) i), (N.testbit (colors b Black) i);
    cbn in *; congruence.
Qed.

Lemma pow2_nz x : is_pow2 x = true -> nz x = true.
Proof. unfold is_pow2, nz. intros H. apply andb_true_iff in H. apply H. Qed.

Lemma knbvk_facts : knbvk b = true ->
  is_pow2 (pieces b Bishop) = true /\ is_pow2 (pieces b Knight) = true /\
  nz (band (pieces b Bishop) (colors b Black)) = negb (nz (band (pieces b Bishop) (colors b White))).
Proof.
  unfold knbvk. intros H. apply andb_true_iff in H. destruct H as [_ H].
  destruct Hdom as (_ & _ & HN & HB & _).
  pose proof (split_by_colour Knight HN) as EN. pose proof (split_by_colour Bishop HB) as EB.
  apply orb_true_iff in H. destruct H as [H|H];
    apply andb_true_iff in H; destruct H as [H Z]; apply andb_true_iff in H; destruct H as [PN PB];
    apply N.eqb_eq in Z; apply N.lor_eq_0_iff in Z; destruct Z as [ZN ZB]; unfold bor in *.
  - rewrite ZN, N.lor_0_r in EN. rewrite ZB, N.lor_0_r in EB. split; [|split].
    + rewrite EB. exact PB.
    + rewrite EN. exact PN.
    + rewrite ZB. rewrite (pow2_nz _ PB). reflexivity.
  - rewrite ZN, N.lor_0_l in EN. rewrite ZB, N.lor_0_l in EB. split; [|split].
    + rewrite EB. exact PB.
    + rewrite EN. exact PN.
    + rewrite ZB. rewrite (pow2_nz _ PB). reflexivity.
Qed.

Lemma knbvk_terms_mirror : knbvk b = true -> sim (knbvk_terms O C (mirror b)) (knbvk_terms O C b).
Proof.
  intros K. destruct (knbvk_facts K) as (PB & PN & V). apply sim_eq.
  rewrite !knbvk_terms_eq. cbv zeta.
  rewrite !pc_mirror. cbn [flip]. rewrite nz_flipV by wbd. rewrite V.
  rewrite ?pieces_mirror, ?colors_mirror.
  rewrite (lsb_flipV (pieces b Bishop)), (lsb_flipV (pieces b Knight)) by (apply Hp || assumption).
  set (bs := lsb (pieces b Bishop)). set (ks := lsb (pieces b Knight)).
  assert (Hbs : bs < 64) by (apply is_pow2_lt; [apply Hp|exact PB]).
  set (w := nz (band (pieces b Bishop) (colors b White))).
  assert (F : (if negb w then Black else White) = flip (if w then Black else White)) by (destruct w; reflexivity).
  rewrite F. set (victim := if w then Black else White). rewrite !flip_flip.
  assert (KP : forall c0, is_pow2 (band (pieces b King) (colors b c0)) = true).
  { intros c0. unfold band. rewrite N.land_comm. apply (king_of_pow2 c0). }
  rewrite !lsb_flipV by (apply KP || wbd).
  rewrite corner_dist_flip by first [exact Hbs | apply is_pow2_lt; [wbd|apply KP]].
  rewrite !psqt_swap, !flip_flip, !map_app. repeat f_equal.
  cbn [map]. unfold swapc. cbn [fst snd]. rewrite flip_flip. reflexivity.
Qed.

(* ------------------------------------------------------------------------------------------ *)
Theorem eval_gen_mirror_b : eval_gen O C (mirror b) = eval_gen O C b.
Proof.
  unfold eval_gen. rewrite insufficient_mirror. destruct (insufficient_mat b); [reflexivity|].
  rewrite knbvk_mirror. destruct (knbvk b) eqn:K.
  - apply (endgame_score_sim O add_rc); [apply stm_mirror|].
    apply sim_app; [apply piece_values_mirror|apply knbvk_terms_mirror; exact K].
  - rewrite phase_mirror. apply (tapered_score_sim O add_rc); [apply stm_mirror|apply fifty_mirror|].
    apply sim_app; [apply piece_values_mirror|apply main_terms_mirror].
Qed.

End Mirror.

(* ------------------------------------------------------------------------------------------ *)
(* the engine's instance *)
Theorem eval_Z_mirror (c : CoeffSet Z) (b : board) : eval_dom b -> eval_Z c (mirror b) = eval_Z c b.
Proof. intros H. apply eval_gen_mirror_b; [exact H|apply ops_Z_add_rc]. Qed.

(* the boolean domain test is sound *)
Lemma eval_domb_sound b : eval_domb b = true -> eval_dom b.
Proof.
  unfold eval_domb, eval_dom. intros H.
  repeat (apply andb_true_iff in H; destruct H as [H ?]).
  repeat split; try assumption; try (apply N.eqb_eq; assumption).
  - apply Forall_forall. intros x Hx. rewrite forallb_forall in H. apply N.ltb_lt. apply H. exact Hx.
  - apply Forall_forall. intros x Hx. rewrite forallb_forall in H4. apply N.ltb_lt. apply H4. exact Hx.
Qed.

(* the mirror image of a board in the domain is in the domain, and mirroring twice gives the same
   evaluation inputs back *)
Lemma eval_Z_mirror_any (c : CoeffSet Z) (b b' : board) :
  eval_dom b -> pcs b' = pcs (mirror b) -> cols b' = cols (mirror b) -> stm b' = stm (mirror b) -> fifty b' = fifty (mirror b) ->
  eval_Z c b' = eval_Z c b.
Proof.
  intros Hd Hp Hc Hs Hf. rewrite <- (eval_Z_mirror c b Hd). apply eval_gen_indep; assumption.
Qed.

(* the domain is closed under mirroring *)
Lemma eval_dom_mirror b : eval_dom b -> eval_dom (mirror b).
Proof.
  intros Hd. pose proof Hd as (Hp & Hc & HN & HB & KW & KB).
  assert (Hp' : forall p, pieces b p < two64) by (intros p; apply Forall_nthN; exact Hp).
  assert (Hc' : forall c, colors b c < two64) by (intros c; apply Forall_nthN; exact Hc).
  assert (Occ : occupancy (mirror b) = flipV (occupancy b)).
  { unfold occupancy. rewrite !colors_mirror. cbn [flip]. rewrite <- flipV_bor. f_equal. unfold bor. apply N.lor_comm. }
  unfold eval_dom. repeat split.
  - unfold mirror. cbn [pcs]. apply Forall_forall. intros x Hx. apply in_map_iff in Hx.
    destruct Hx as (y & <- & _). apply flipV_lt.
  - unfold mirror. cbn [cols]. repeat constructor; apply flipV_lt.
  - rewrite Occ, pieces_mirror. change N.ldiff with bandn. rewrite <- flipV_bandn. unfold bandn. rewrite HN. apply flipV_0.
  - rewrite Occ, pieces_mirror. change N.ldiff with bandn. rewrite <- flipV_bandn. unfold bandn. rewrite HB. apply flipV_0.
  - rewrite pieces_mirror, colors_mirror, <- flipV_band. cbn [flip].
    rewrite is_pow2_flipV by (apply band_lt_l; apply Hp'). exact KB.
  - rewrite pieces_mirror, colors_mirror, <- flipV_band. cbn [flip].
    rewrite is_pow2_flipV by (apply band_lt_l; apply Hp'). exact KW.
Qed.
