(* Concrete boards for the non-vacuity examples of Properties/C09.v; the expensive evaluations
   (legal_moves over all 20480 candidate encodings) are done here once, by the VM. *)
From Coq Require Import NArith ZArith List Bool.
From Chess3 Require Import Base.Bits Model.Types Model.BoardDef Model.Board Model.Movegen Model.Mate
     Spec.Chess Spec.Rep Proofs.MateSound.
Import ListNotations.

Definition board_of (l : list Z) : board :=
  match decode_board l with Some (b, _) => b | None => mkBoard [] [] [] [] 0 White 0 0 0 end.


Definition ex_mate : board := board_of
  [45035996273704960; 0; 0; 72057594037928000; 18014398509481984; 4611686018427387920; 72057594037928016; 4674736413210574848; 1; 0; 0; 0; 1; 1; 7445924055761787945]%Z.
Definition ex_stale : board := board_of
  [512; 0; 36046389339226112; 0; 0; 9223372036854775809; 513; 9259418426194001920; 0; 0; 0; 0; 1; 1; 18282675282415643468]%Z.

Definition is_nil {A} (l : list A) : bool := match l with [] => true | _ => false end.
Lemma is_nil_eq {A} (l : list A) : is_nil l = true -> l = [].
Proof. destruct l; [reflexivity|discriminate]. Qed.
Definition mate_exit_is_mate (b : board) : bool := match mate_exit b with MMate => true | _ => false end.
Definition stale_exit_is_stale (b : board) : bool := match stale_exit b with SStale => true | _ => false end.

Definition ex_check : bool :=
  rep_ok ex_mate && valid (abs ex_mate) && in_check ex_mate (stm ex_mate) && mate_exit_is_mate ex_mate &&
  is_nil (legal_moves (abs ex_mate)) &&
  rep_ok ex_stale && valid (abs ex_stale) && negb (in_check ex_stale (stm ex_stale)) && stale_exit_is_stale ex_stale &&
  is_nil (legal_moves (abs ex_stale)).

Lemma ex_check_true : ex_check = true.
Proof. vm_cast_no_check (eq_refl true). Qed.

Lemma ex_verdicts :
  Rep ex_mate /\ valid (abs ex_mate) = true /\ in_check ex_mate (stm ex_mate) = true /\
  mate_exit ex_mate = MMate /\ legal_moves (abs ex_mate) = [] /\
  Rep ex_stale /\ valid (abs ex_stale) = true /\ in_check ex_stale (stm ex_stale) = false /\
  stale_exit ex_stale = SStale /\ legal_moves (abs ex_stale) = [].
Proof.
  pose proof ex_check_true as H. unfold ex_check in H.
  repeat (apply andb_prop in H; destruct H as [H ?]).
  repeat split; try assumption; try (apply is_nil_eq; assumption);
    try (apply negb_true_iff; assumption);
    try (unfold mate_exit_is_mate in *; destruct (mate_exit ex_mate); try discriminate; reflexivity);
    try (unfold stale_exit_is_stale in *; destruct (stale_exit ex_stale); try discriminate; reflexivity).
Qed.
